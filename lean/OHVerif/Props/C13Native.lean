/-
  C13 — "for a lax diagram without pending unifications, the natively computed functor image, once
  quotiented, is isomorphic to the image computed through the strict representation"
  (`try_define_map_arrow` of src/lax/functor/traits.rs against `define_map_arrow` through
  `to_strict` / `DynFunctor`), for EVERY lawful backend.

  Route: the native image is `sx ; (id ⊗ fx) ; yt` built with the UNCHECKED lax composition;
  strictification commutes with composition and tensor up to `≅` (`C10.strict_comp`,
  `C10.strict_tensor_iso`) and sends the lax spiders / identity to diagrams `≅` the strict ones;
  hence the strictified native image is `≅` the strict image of the PACKED diagram, which is `≅`
  the strict image of `to_strict d` because `to_strict d` is a renumbering of the packed diagram
  (`C12.mapArrow_relabel`).
-/
import OHVerif.Props.C12Subst
import OHVerif.Props.C10Iso

namespace OH.C13
open OH SFunctor Subst LaxStrict LaxIso Relation

variable {O1 A1 O2 A2 O A : Type}

/-! ### the operation batch of a packed diagram -/

theorem gatherP_flatten {α : Type} (xs : List α) (L : List (List Nat)) :
    Prim.gatherP xs L.flatten = (L.map (Prim.gatherP xs)).flatten := by
  induction L with
  | nil => rfl
  | cons l L ih => rw [List.flatten_cons, gatherP_append_idx, ih]; rfl

/-- the (label, source type, target type) triples of the hyperedges of a lax diagram -/
def triplesL (d : LOHG O A) : List (A × List O × List O) :=
  (d.hypergraph.edges.zip d.hypergraph.adjacency).map (fun p =>
    (p.1, Prim.gatherP d.hypergraph.nodes p.2.sources, Prim.gatherP d.hypergraph.nodes p.2.targets))

theorem segsL_pack (nodes : List O) (L : List (List Nat))
    (h : ∀ seg ∈ L, ∀ i ∈ seg, i < nodes.length) :
    (⟨(IC.ofSegs L nodes.length).sources,
      Prim.gatherP nodes (IC.ofSegs L nodes.length).values.table⟩ : IC (List O)).segsL =
      L.map (Prim.gatherP nodes) := by
  show splitSegs (L.map List.length) (Prim.gatherP nodes L.flatten) = _
  rw [gatherP_flatten]
  have : L.map List.length = (L.map (Prim.gatherP nodes)).map List.length := by
    rw [List.map_map]
    apply List.map_congr_left
    intro seg hs
    exact (FinFun.gatherP_length _ _ (h seg hs)).symm
  rw [this]
  exact splitSegs_map_length_flatten _

theorem opTriples_pack (d : LOHG O A) (hd : d.wf = true) :
    C12.opTriples (C12.opsOf (pack d)) = triplesL d := by
  obtain ⟨hh, _, _⟩ := (lohg_wf_iff d).1 hd
  obtain ⟨_, hr, _⟩ := (lhg_wf_iff _).1 hh
  unfold C12.opTriples C12.opsOf triplesL
  show d.hypergraph.edges.zip (IC.segsL _ |>.zip (IC.segsL _)) = _
  have e1 := segsL_pack d.hypergraph.nodes (d.hypergraph.adjacency.map (·.sources)) (by
    intro seg hs i hi
    obtain ⟨e, he, rfl⟩ := List.mem_map.1 hs
    exact (hr e he).1 i hi)
  have e2 := segsL_pack d.hypergraph.nodes (d.hypergraph.adjacency.map (·.targets)) (by
    intro seg hs i hi
    obtain ⟨e, he, rfl⟩ := List.mem_map.1 hs
    exact (hr e he).2 i hi)
  show d.hypergraph.edges.zip
    ((IC.segsL ⟨(IC.ofSegs (d.hypergraph.adjacency.map (·.sources)) d.hypergraph.nodes.length).sources,
      Prim.gatherP d.hypergraph.nodes
        (IC.ofSegs (d.hypergraph.adjacency.map (·.sources)) d.hypergraph.nodes.length).values.table⟩).zip
     (IC.segsL ⟨(IC.ofSegs (d.hypergraph.adjacency.map (·.targets)) d.hypergraph.nodes.length).sources,
      Prim.gatherP d.hypergraph.nodes
        (IC.ofSegs (d.hypergraph.adjacency.map (·.targets)) d.hypergraph.nodes.length).values.table⟩)) = _
  rw [e1, e2, List.map_map, List.map_map, List.zip_map', List.zip_map_right]
  rfl

/-! ### the native path, computed -/

/-- the loop of `map_operations` in the native path: the left-nested lax tensor of the images of
    the hyperedges, in order -/
theorem mapOperationsL_loop (img : A1 → List O1 → List O1 → LOHG O2 A2) (nodes : List O1)
    (adj : List LEdge)
    (hadj : ∀ e ∈ adj, (∀ i ∈ e.sources, i < nodes.length) ∧ (∀ i ∈ e.targets, i < nodes.length)) :
    ∀ (xs : List A1) (k : Nat) (acc : LOHG O2 A2), k + xs.length ≤ adj.length →
      (xs.zip (List.range' k xs.length)).foldlM (fun acc p => do
        let e ← Prim.get adj p.2
        let src ← e.sources.mapM (fun i => Prim.get nodes i)
        let tgt ← e.targets.mapM (fun i => Prim.get nodes i)
        Res.ok (LOHG.tensorAssign acc (img p.1 src tgt))) acc =
      .ok (LaxType.tensorAll acc ((xs.zip (adj.drop k)).map (fun p =>
        img p.1 (Prim.gatherP nodes p.2.sources) (Prim.gatherP nodes p.2.targets)))) := by
  intro xs
  induction xs with
  | nil => intro k acc _; rfl
  | cons x xs ih =>
    intro k acc hk
    have hk' : k < adj.length := by simp only [List.length_cons] at hk; omega
    have hd : adj.drop k = adj[k] :: adj.drop (k + 1) := List.drop_eq_getElem_cons hk'
    obtain ⟨h1, h2⟩ := hadj _ (List.getElem_mem hk')
    rw [List.length_cons, List.range'_succ, List.zip_cons_cons, List.foldlM_cons, hd,
      List.zip_cons_cons, List.map_cons]
    have step : (do
        let e ← Prim.get adj k
        let src ← e.sources.mapM (fun i => Prim.get nodes i)
        let tgt ← e.targets.mapM (fun i => Prim.get nodes i)
        Res.ok (LOHG.tensorAssign acc (img x src tgt))) =
        Res.ok (LOHG.tensorAssign acc (img x (Prim.gatherP nodes adj[k].sources)
          (Prim.gatherP nodes adj[k].targets))) := by
      rw [Prim.get_ok adj k hk']
      simp only [Res.ok_bind]
      rw [mapM_get_eq, if_pos h1, mapM_get_eq, if_pos h2]
      rfl
    show ((do
        let e ← Prim.get adj k
        let src ← e.sources.mapM (fun i => Prim.get nodes i)
        let tgt ← e.targets.mapM (fun i => Prim.get nodes i)
        Res.ok (LOHG.tensorAssign acc (img x src tgt))) >>= fun acc' => _) = _
    rw [step]
    exact ih (k + 1) _ (by simp only [List.length_cons] at hk; omega)

theorem mapOperationsL_eq (G : LFunctor O1 A1 O2 A2) (img : A1 → List O1 → List O1 → LOHG O2 A2)
    (hG : ∀ a s t, G.mapOperation a s t = .ok (img a s t)) (d : LOHG O1 A1) (hd : d.wf = true) :
    LFunctor.mapOperationsL G d =
      .ok (LaxType.tensorAll LOHG.empty ((triplesL d).map (fun t => img t.1 t.2.1 t.2.2))) := by
  obtain ⟨hh, _, _⟩ := (lohg_wf_iff d).1 hd
  obtain ⟨hlen, hr, _⟩ := (lhg_wf_iff _).1 hh
  have hG' : G.mapOperation = fun a s t => .ok (img a s t) := by
    funext a s t; exact hG a s t
  unfold LFunctor.mapOperationsL
  rw [List.range_eq_range']
  simp only [hG', Res.ok_bind, Res.pure_eq]
  have := mapOperationsL_loop img d.hypergraph.nodes d.hypergraph.adjacency hr
    d.hypergraph.edges 0 LOHG.empty (by omega)
  rw [this, List.drop_zero]
  unfold triplesL
  rw [List.map_map]
  rfl

/-- `map_half_spider` of the native path -/
theorem mapHalfSpiderL_eq (fw : List (List O2)) (ids : List Nat) (h : ∀ i ∈ ids, i < fw.length) :
    LFunctor.mapHalfSpiderL fw ids =
      .ok ⟨ids.flatMap (blockS (fw.map List.length)), fw.flatten.length⟩ := by
  unfold LFunctor.mapHalfSpiderL
  rw [FinFun.sum_eq]
  have h1 : FinFun.new (fw.map List.length) ((fw.map List.length).sum + 1) =
      .ok ⟨fw.map List.length, (fw.map List.length).sum + 1⟩ := by
    apply IC.finfun_new_ok
    intro x hx
    have := le_sum_of_mem' _ x hx
    omega
  have h2 : FinFun.new ids fw.length = .ok ⟨ids, fw.length⟩ := IC.finfun_new_ok _ _ h
  simp only [h1, h2, Res.ok_bind]
  have hwf : (⟨ids, fw.length⟩ : FinFun).WF := h
  rw [FinFun.injections_ok _ _ hwf (by simp [FinFun.source]), List.length_flatten]
  rfl

/-- the left distribution spider of the native path (a lax diagram without pending pairs) -/
def sxL (W : List O2) (fs es : List Nat) : LOHG O2 A2 :=
  ⟨fs, List.range W.length ++ es, LHG.discrete W⟩

/-- the right distribution spider of the native path -/
def ytL (W : List O2) (et ft : List Nat) : LOHG O2 A2 :=
  ⟨List.range W.length ++ et, ft, LHG.discrete W⟩

/-- `spider_map_arrow` of the native path on a well-formed diagram: two unchecked lax
    compositions of explicit pieces -/
theorem spiderMapArrowL_eq (d : LOHG O1 A1) (hd : d.wf = true) (fw : List (List O2))
    (hfw : fw.length = d.hypergraph.nodes.length) (fx : LOHG O2 A2) :
    LFunctor.spiderMapArrowL d fw fx =
      (LOHG.laxCompose
          (sxL fw.flatten (d.sources.flatMap (blockS (fw.map List.length)))
            ((d.hypergraph.adjacency.flatMap (·.sources)).flatMap (blockS (fw.map List.length))))
          (LOHG.tensor (LOHG.identity fw.flatten) fx) >>= fun a =>
        LOHG.laxCompose a
          (ytL fw.flatten
            ((d.hypergraph.adjacency.flatMap (·.targets)).flatMap (blockS (fw.map List.length)))
            (d.targets.flatMap (blockS (fw.map List.length))))) := by
  obtain ⟨hh, hs, ht⟩ := (lohg_wf_iff d).1 hd
  obtain ⟨_, hr, _⟩ := (lhg_wf_iff _).1 hh
  have h1 : ∀ i ∈ d.sources, i < fw.length := fun i hi => by rw [hfw]; exact hs i hi
  have h2 : ∀ i ∈ d.targets, i < fw.length := fun i hi => by rw [hfw]; exact ht i hi
  have h3 : ∀ i ∈ d.hypergraph.adjacency.flatMap (·.sources), i < fw.length := by
    intro i hi
    obtain ⟨e, he, hie⟩ := List.mem_flatMap.1 hi
    rw [hfw]; exact (hr e he).1 i hie
  have h4 : ∀ i ∈ d.hypergraph.adjacency.flatMap (·.targets), i < fw.length := by
    intro i hi
    obtain ⟨e, he, hie⟩ := List.mem_flatMap.1 hi
    rw [hfw]; exact (hr e he).2 i hie
  unfold LFunctor.spiderMapArrowL
  simp only [mapHalfSpiderL_eq fw _ h1, mapHalfSpiderL_eq fw _ h2, mapHalfSpiderL_eq fw _ h3,
    mapHalfSpiderL_eq fw _ h4, FinFun.identity_eq, Res.ok_bind, FinFun.coproduct, if_true,
    C04.lax_spider_eq, and_self]
  rfl

/-! ### the lax pieces: well-formedness, plain readings, types -/

theorem discrete_wf (W : List O2) : (LHG.discrete W : LHG O2 A2).wf = true := by
  rw [lhg_wf_iff]
  refine ⟨rfl, ?_, rfl, ?_, ?_⟩
  · intro e he; cases he
  · intro i hi; cases hi
  · intro i hi; cases hi

theorem range_append_lt {n : Nat} {l : List Nat} (h : ∀ v ∈ l, v < n) :
    ∀ v ∈ List.range n ++ l, v < n := by
  intro v hv
  rcases List.mem_append.1 hv with h1 | h1
  · exact List.mem_range.1 h1
  · exact h v h1

theorem sxL_facts (W : List O2) (fs es : List Nat) (hfs : ∀ v ∈ fs, v < W.length)
    (hes : ∀ v ∈ es, v < W.length) :
    (sxL W fs es : LOHG O2 A2).wf = true ∧
    (sxL W fs es : LOHG O2 A2).hypergraph.quotient = ([], []) ∧
    plain (sxL W fs es : LOHG O2 A2) = spL W fs es ∧
    (sxL W fs es : LOHG O2 A2).target = .ok (W ++ Prim.gatherP W es) := by
  have hw : (sxL W fs es : LOHG O2 A2).wf = true := by
    rw [lohg_wf_iff]
    exact ⟨discrete_wf W, hfs, range_append_lt hes⟩
  refine ⟨hw, rfl, rfl, ?_⟩
  rw [(C10.type_ok _ hw).2.1]
  show Res.ok (Prim.gatherP W (List.range W.length ++ es)) = _
  rw [gatherP_append_idx, Prim.gatherP_range]

theorem ytL_facts (W : List O2) (et ft : List Nat) (het : ∀ v ∈ et, v < W.length)
    (hft : ∀ v ∈ ft, v < W.length) :
    (ytL W et ft : LOHG O2 A2).wf = true ∧
    (ytL W et ft : LOHG O2 A2).hypergraph.quotient = ([], []) ∧
    plain (ytL W et ft : LOHG O2 A2) = spR W et ft ∧
    (ytL W et ft : LOHG O2 A2).source = .ok (W ++ Prim.gatherP W et) := by
  have hw : (ytL W et ft : LOHG O2 A2).wf = true := by
    rw [lohg_wf_iff]
    exact ⟨discrete_wf W, range_append_lt het, hft⟩
  refine ⟨hw, rfl, rfl, ?_⟩
  rw [(C10.type_ok _ hw).1]
  show Res.ok (Prim.gatherP W (List.range W.length ++ et)) = _
  rw [gatherP_append_idx, Prim.gatherP_range]

theorem idL_facts (W : List O2) :
    (LOHG.identity W : LOHG O2 A2).wf = true ∧
    (LOHG.identity W : LOHG O2 A2).hypergraph.quotient = ([], []) ∧
    plain (LOHG.identity W : LOHG O2 A2) = idP W := by
  refine ⟨?_, rfl, rfl⟩
  rw [lohg_wf_iff]
  exact ⟨discrete_wf W, fun v hv => List.mem_range.1 hv, fun v hv => List.mem_range.1 hv⟩

/-- reading the labels through an expanded interface gives the expanded type -/
theorem gatherP_expand (fw : IC (List O2)) (hv : fw.valid = true) (ids : FinFun) (hid : ids.WF)
    (h : ids.target = fw.len) :
    Prim.gatherP fw.values (C12.expand fw ids.table) = expandTy fw ids.table := by
  obtain ⟨hlt, hty, _⟩ := expand_spec fw hv ids hid h
  apply LaxIso.map_some_inj
  rw [gatherP_map_some _ _ hlt]
  exact hty

/-- the boundary types of an unchecked lax composite -/
theorem laxComp_types (f g : LOHG O2 A2) (hf : f.wf = true) (hg : g.wf = true)
    (hl : f.targets.length = g.sources.length) :
    (laxComp f g).source = f.source ∧ (laxComp f g).target = g.target := by
  have hc := laxComp_wf f g hf hg hl
  obtain ⟨_, hfs, _⟩ := (lohg_wf_iff f).1 hf
  rw [(C10.type_ok _ hc).1, (C10.type_ok _ hc).2.1, (C10.type_ok f hf).1, (C10.type_ok g hg).2.1]
  constructor
  · show Res.ok (Prim.gatherP (f.hypergraph.nodes ++ g.hypergraph.nodes) f.sources) = _
    rw [gatherP_append_left _ _ _ hfs]
  · show Res.ok (Prim.gatherP (f.hypergraph.nodes ++ g.hypergraph.nodes)
      (g.targets.map (· + f.hypergraph.nodes.length))) = _
    have e : (fun x => x + f.hypergraph.nodes.length) = (fun x => f.hypergraph.nodes.length + x) :=
      funext fun x => Nat.add_comm _ _
    rw [e, gatherP_append_right]

/-! ### the native image against the strict image of the packed diagram -/

/-- NATIVE = STRICT ON THE PACKED DIAGRAM.  For a well-formed lax diagram without pending
    unifications all of whose generators have good images: `try_define_map_arrow` is defined, its
    result is well-formed and strictifiable, and the strictified result is isomorphic to the strict
    functor image (`DynFunctor`) of the diagram packed as it stands. -/
theorem native_vs_packed [DecidableEq O2] (B : Backend) (hB : B.Lawful) (G : LFunctor O1 A1 O2 A2)
    (img : A1 → List O1 → List O1 → LOHG O2 A2) (hG : ∀ a s t, C12.GenOK G a s t (img a s t))
    (d : LOHG O1 A1) (hd : d.wf = true) (hq : d.hypergraph.quotient = ([], [])) :
    ∃ (r : LOHG O2 A2) (sr res : OHG O2 A2), LFunctor.tryMapArrow G d = .ok r ∧ r.wf = true ∧
      LOHG.toStrict B r = .ok sr ∧
      SFunctor.mapArrow B (LFunctor.toDyn B G) (pack d) = .ok res ∧
      sr.wf = true ∧ res.wf = true ∧ sr.toPlain ≅ res.toPlain := by
  have hF := C12.dyn_hom B hB G img hG
  have hf0 := pack_wf d hd
  have hf0W := (OHG.wf_iff _).1 hf0
  obtain ⟨fw, fx, ok0, seg0, ops0, _⟩ := C12.functorOK_of_hom _ _ hF (pack d) hf0W
  -- the strict image and its pieces
  obtain ⟨res, hsp, wres, _, _, _⟩ := C12.spiderMapArrow_subst B hB (pack d) fw fx hf0W ok0.valid
    ok0.len ok0.wf ok0.src ok0.tgt
  have hres : SFunctor.mapArrow B (LFunctor.toDyn B G) (pack d) = .ok res := by
    obtain ⟨ops, hops, hfx⟩ := ok0.ops
    unfold SFunctor.mapArrow
    rw [hops]
    simp only [Res.ok_bind]
    rw [hfx]
    simp only [Res.ok_bind]
    rw [ok0.obj]
    exact hsp
  obtain ⟨sx, ifx, yt, a, psx, pifx, pyt, wsx, wifx, wyt, wa, _, ha, hres2⟩ :=
    spiderMapArrow_parts B hB (pack d) hf0W fw ok0.valid ok0.len fx ok0.wf res hsp
  -- the lax tensor of the generator images, shared by both paths
  have hnat := mapOperationsL_eq G img (fun a s t => (hG a s t).img) d hd
  obtain ⟨va, vb, _, _⟩ := C12.opsOf_valid (pack d) hf0W
  have hfxL : LOHG.toStrict B (LaxType.tensorAll LOHG.empty
      ((triplesL d).map (fun t => img t.1 t.2.1 t.2.2))) = .ok fx := by
    have := C12.dyn_mapOperations_eq B G img (C12.opsOf (pack d)) va vb (fun t _ => (hG _ _ _).img)
    rw [opTriples_pack d hd] at this
    rw [← this]; exact ops0
  have hds : ∀ x ∈ (triplesL d).map (fun t => img t.1 t.2.1 t.2.2),
      x.wf = true ∧ C09.LabelConsistent x.hypergraph := by
    intro x hx
    obtain ⟨t, _, rfl⟩ := List.mem_map.1 hx
    exact ⟨(hG _ _ _).wf, (hG _ _ _).consistent⟩
  obtain ⟨wfxL, cfxL, _⟩ :=
    LaxType.tensorAll_spec _ LOHG.empty rfl LaxType.labelConsistent_empty hds
  generalize LaxType.tensorAll LOHG.empty ((triplesL d).map (fun t => img t.1 t.2.1 t.2.2)) = fxL
    at hnat hfxL wfxL cfxL
  -- boundary types of the lax tensor
  obtain ⟨fx', hfx', _, hfxs, hfxt, _⟩ := LaxType.toStrict_type B hB fxL wfxL cfxL
  rw [hfxL] at hfx'
  cases hfx'
  have tyS : LaxType.srcTy fxL = expandTy fw (pack d).h.s.values.table := by
    have := (LaxType.source_ok fxL wfxL).1
    rw [← hfxs, ok0.src] at this
    injection this with this
    exact this.symm
  have tyT : LaxType.tgtTy fxL = expandTy fw (pack d).h.t.values.table := by
    have := (LaxType.source_ok fxL wfxL).2
    rw [← hfxt, ok0.tgt] at this
    injection this with this
    exact this.symm
  -- the expanded interfaces
  obtain ⟨a1, _, _⟩ := expand_spec fw ok0.valid (pack d).s hf0W.src_wf
    (hf0W.src_nodes.trans ok0.len.symm)
  obtain ⟨a2, _, _⟩ := expand_spec fw ok0.valid (pack d).t hf0W.tgt_wf
    (hf0W.tgt_nodes.trans ok0.len.symm)
  obtain ⟨a3, _, _⟩ := expand_spec fw ok0.valid (pack d).h.s.values hf0W.hyper.src.range
    (hf0W.hyper.src_nodes.trans ok0.len.symm)
  obtain ⟨a4, _, _⟩ := expand_spec fw ok0.valid (pack d).h.t.values hf0W.hyper.tgt.range
    (hf0W.hyper.tgt_nodes.trans ok0.len.symm)
  have g3 := gatherP_expand fw ok0.valid (pack d).h.s.values hf0W.hyper.src.range
    (hf0W.hyper.src_nodes.trans ok0.len.symm)
  have g4 := gatherP_expand fw ok0.valid (pack d).h.t.values hf0W.hyper.tgt.range
    (hf0W.hyper.tgt_nodes.trans ok0.len.symm)
  -- the native computation in terms of the same data
  have hw0 : (pack d).h.w = d.hypergraph.nodes := rfl
  rw [hw0] at seg0
  obtain ⟨val, ks⟩ := C12.fw_values_of_hom fw ok0.valid _ _ seg0
  have e_flat : (LFunctor.mapObjectsL G d).flatten = fw.values := by
    rw [val, List.flatMap_def]; rfl
  have e_sizes : (LFunctor.mapObjectsL G d).map List.length = fw.sources.table := by
    rw [ks]; unfold LFunctor.mapObjectsL; rw [List.map_map]; rfl
  have hsm : LFunctor.spiderMapArrowL d (LFunctor.mapObjectsL G d) fxL =
      (LOHG.laxCompose
          (sxL fw.values (C12.expand fw (pack d).s.table) (C12.expand fw (pack d).h.s.values.table))
          (LOHG.tensor (LOHG.identity fw.values) fxL) >>= fun a =>
        LOHG.laxCompose a
          (ytL fw.values (C12.expand fw (pack d).h.t.values.table)
            (C12.expand fw (pack d).t.table))) := by
    rw [spiderMapArrowL_eq d hd _ (by simp [LFunctor.mapObjectsL]) fxL, e_flat, e_sizes]
    simp only [expand_eq fw ok0.valid, List.flatMap_def]
    rfl
  generalize hfs : C12.expand fw (pack d).s.table = fs at a1 hsm psx
  generalize hft : C12.expand fw (pack d).t.table = ft at a2 hsm pyt
  generalize hes : C12.expand fw (pack d).h.s.values.table = es at a3 g3 hsm psx
  generalize het : C12.expand fw (pack d).h.t.values.table = et at a4 g4 hsm pyt
  generalize fw.values = W at *
  -- the lax pieces
  obtain ⟨wsxL, qsxL, psxL, tsxL⟩ := sxL_facts (A2 := A2) W fs es a1 a3
  obtain ⟨wytL, qytL, pytL, sytL⟩ := ytL_facts (A2 := A2) W et ft a4 a2
  obtain ⟨widL, qidL, pidL⟩ := idL_facts (A2 := A2) W
  have wtL := tensor_wf (LOHG.identity W) fxL widL wfxL
  obtain ⟨_, tsT, ttT⟩ := LaxType.tensor_type (LOHG.identity W) fxL widL wfxL
  have hty1 : (sxL W fs es : LOHG O2 A2).target = (LOHG.tensor (LOHG.identity W) fxL).source := by
    rw [tsxL, tsT, g3, ← tyS]
    show Res.ok (W ++ _) = Res.ok (Prim.gatherP W (List.range W.length) ++ _)
    rw [Prim.gatherP_range]
    rfl
  -- strictification of the pieces
  obtain ⟨ssx, hssx, wssx, isx, _⟩ := C10.toStrict_lawful_spec B hB (sxL W fs es) wsxL qsxL
  obtain ⟨syt, hsyt, wsyt, iyt, _⟩ := C10.toStrict_lawful_spec B hB (ytL W et ft) wytL qytL
  obtain ⟨si, hsi, wsi, ii, _⟩ :=
    C10.toStrict_lawful_spec B hB (LOHG.identity W : LOHG O2 A2) widL qidL
  obtain ⟨st, st', hst, hst', ist⟩ :=
    C10.strict_tensor_iso B hB (LOHG.identity W) fxL si fx widL wfxL hsi hfxL
  obtain ⟨_, wst, _, _⟩ := toStrict_quot_of_ok B hB _ st wtL hst
  -- first composition
  obtain ⟨c, r1, r1', hc, hr1, hr1', i1⟩ :=
    C10.strict_comp B hB (sxL W fs es) (LOHG.tensor (LOHG.identity W) fxL) ssx st wsxL wtL hssx hst
      hty1
  obtain ⟨_, hceq, wc⟩ := compose_ok_laxComp _ _ c wsxL wtL hc
  have ar1 := C10.arity_of_type _ _ wsxL wtL hty1
  have e_sx : ssx.toPlain ≅ sx.toPlain := by
    rw [psx, ← psxL]; exact iso_symm (plain_wf _ wsxL) isx
  have e_si : si.toPlain ≅ idP W := by
    rw [← pidL]; exact iso_symm (plain_wf _ widL) ii
  have e_st : st.toPlain ≅ ifx.toPlain := by
    have := C02.tensor_toPlain si fx st' wsi hst'
    rw [pifx]
    refine iso_trans ist ?_
    rw [this]
    exact juxt_iso_congr (C03.wfP wsi) e_si (iso_refl _)
  have i1' : r1'.toPlain ≅ a.toPlain :=
    C03.compose_congr_strict B B hB hB ssx sx st ifx r1' a wssx wst wsx wifx e_sx e_st hr1' ha
  -- second composition
  obtain ⟨_, wr1, _, _⟩ := toStrict_quot_of_ok B hB c r1 wc hr1
  have hty2 : c.target = (ytL W et ft : LOHG O2 A2).source := by
    rw [hceq, (laxComp_types _ _ wsxL wtL ar1).2, sytL, ttT, g4, ← tyT]
    show Res.ok (Prim.gatherP W (List.range W.length) ++ _) = Res.ok (W ++ _)
    rw [Prim.gatherP_range]
    rfl
  obtain ⟨c2, r2, r2', hc2, hr2, hr2', i2⟩ :=
    C10.strict_comp B hB c (ytL W et ft) r1 syt wc wytL hr1 hsyt hty2
  obtain ⟨_, hc2eq, wc2⟩ := compose_ok_laxComp c _ c2 wc wytL hc2
  have ar2 := C10.arity_of_type _ _ wc wytL hty2
  have e_yt : syt.toPlain ≅ yt.toPlain := by
    rw [pyt, ← pytL]; exact iso_symm (plain_wf _ wytL) iyt
  have i2' : r2'.toPlain ≅ res.toPlain :=
    C03.compose_congr_strict B B hB hB r1 a syt yt r2' res wr1 wsyt wa wyt (iso_trans i1 i1') e_yt
      hr2' hres2
  -- the native computation returns `c2`
  have hnative : LFunctor.tryMapArrow G d = .ok c2 := by
    unfold LFunctor.tryMapArrow
    have hst' : d.hypergraph.isStrict = true := by unfold LHG.isStrict; rw [hq]; rfl
    rw [hst']
    simp only [Bool.not_true, Bool.false_eq_true, if_false]
    rw [hnat]
    simp only [Res.ok_bind]
    rw [hsm, laxCompose_ok _ _ ar1]
    simp only [Res.ok_bind]
    rw [← hceq, laxCompose_ok _ _ ar2, ← hc2eq]
  obtain ⟨_, wr2, _, _⟩ := toStrict_quot_of_ok B hB c2 r2 wc2 hr2
  exact ⟨c2, r2, res, hnative, wc2, hr2, hres, wr2, wres, iso_trans i2 i2'⟩

/-! ### the headline: native path against the path through `to_strict` -/

/-- `to_strict` of a diagram without pending unifications is a renumbering of the packed diagram,
    so the strict functor images are isomorphic -/
theorem strict_image_of_toStrict [DecidableEq O1] [DecidableEq O2] (B : Backend) (hB : B.Lawful)
    (F : SFunctor O1 A1 O2 A2) (obj : O1 → List O2) (hF : C12.FunctorHom F obj) (d : LOHG O1 A1)
    (hd : d.wf = true) (hq : d.hypergraph.quotient = ([], [])) :
    ∃ (sd : OHG O1 A1) (res sm : OHG O2 A2), LOHG.toStrict B d = .ok sd ∧ sd.wf = true ∧
      SFunctor.mapArrow B F (pack d) = .ok res ∧ SFunctor.mapArrow B F sd = .ok sm ∧
      res.wf = true ∧ sm.wf = true ∧ res.toPlain ≅ sm.toPlain := by
  obtain ⟨p, v, hp, hvlen, hvpt, hw, hts⟩ := toStrict_lawful B hB d hd hq
  have hf0W := (OHG.wf_iff _).1 (pack_wf d hd)
  have hf1 := pack_wf _ hw
  have hf1W := (OHG.wf_iff _).1 hf1
  obtain ⟨res, sm, h1, h2, w1, w2, hiso⟩ := C12.mapArrow_relabel B hB F obj hF (pack d)
    (pack (relabel (p.getD · 0) v d)) hf0W hf1W (p.getD · 0)
    (by
      show BijOn d.hypergraph.nodes.length v.length _
      rw [hvlen]; exact hp.bijOn)
    hvpt rfl
    (by
      show (IC.ofSegs _ _).sources = (IC.ofSegs _ _).sources
      simp [IC.ofSegs, relabel, List.map_map, Function.comp_def])
    (by
      show (IC.ofSegs _ _).sources = (IC.ofSegs _ _).sources
      simp [IC.ofSegs, relabel, List.map_map, Function.comp_def])
    (by
      show (IC.ofSegs _ _).values.table = List.map _ (IC.ofSegs _ _).values.table
      simp [IC.ofSegs, relabel, List.map_map, Function.comp_def, List.map_flatten])
    (by
      show (IC.ofSegs _ _).values.table = List.map _ (IC.ofSegs _ _).values.table
      simp [IC.ofSegs, relabel, List.map_map, Function.comp_def, List.map_flatten])
    rfl rfl
  exact ⟨_, res, sm, hts, hf1, h1, h2, w1, w2, hiso⟩

/-- C13: for a well-formed lax diagram WITHOUT pending unifications all of whose generators have
    good images (defined, well-formed, label-consistent, of the image type), and for every lawful
    backend: the native path `try_define_map_arrow` is defined; its result is well-formed and
    `to_strict` succeeds on it; `to_strict` succeeds on the diagram and the strict functor
    (`DynFunctor`) is defined on the result; and the two strict diagrams are isomorphic. -/
theorem native_vs_strict [DecidableEq O1] [DecidableEq O2] (B : Backend) (hB : B.Lawful)
    (G : LFunctor O1 A1 O2 A2) (img : A1 → List O1 → List O1 → LOHG O2 A2)
    (hG : ∀ a s t, C12.GenOK G a s t (img a s t)) (d : LOHG O1 A1) (hd : d.wf = true)
    (hs : d.hypergraph.isStrict = true) :
    ∃ (r : LOHG O2 A2) (sr : OHG O2 A2) (sd : OHG O1 A1) (sm : OHG O2 A2),
      LFunctor.tryMapArrow G d = .ok r ∧ r.wf = true ∧ LOHG.toStrict B r = .ok sr ∧
      LOHG.toStrict B d = .ok sd ∧ SFunctor.mapArrow B (LFunctor.toDyn B G) sd = .ok sm ∧
      sr.wf = true ∧ sm.wf = true ∧ sr.toPlain ≅ sm.toPlain := by
  have hq : d.hypergraph.quotient = ([], []) := by
    obtain ⟨hh, _, _⟩ := (lohg_wf_iff d).1 hd
    obtain ⟨_, _, hl, _, _⟩ := (lhg_wf_iff _).1 hh
    have h1 : d.hypergraph.quotient.1 = [] := by
      unfold LHG.isStrict at hs
      exact List.isEmpty_iff.1 hs
    have h2 : d.hypergraph.quotient.2 = [] := by
      rw [h1] at hl
      exact List.eq_nil_of_length_eq_zero hl.symm
    exact Prod.ext h1 h2
  obtain ⟨r, sr, res, hr, wr, hsr, hres, wsr, _, i1⟩ := native_vs_packed B hB G img hG d hd hq
  obtain ⟨sd, res', sm, hsd, _, hres', hsm, _, wsm, i2⟩ :=
    strict_image_of_toStrict B hB _ _ (C12.dyn_hom B hB G img hG) d hd hq
  rw [hres] at hres'
  cases hres'
  exact ⟨r, sr, sd, sm, hr, wr, hsr, hsd, hsm, wsr, wsm, iso_trans i1 i2⟩

/-- conditional reading: WHENEVER the native path returns `r`, its strictification is isomorphic
    to the image through the strict representation -/
theorem native_vs_strict' [DecidableEq O1] [DecidableEq O2] (B : Backend) (hB : B.Lawful)
    (G : LFunctor O1 A1 O2 A2) (img : A1 → List O1 → List O1 → LOHG O2 A2)
    (hG : ∀ a s t, C12.GenOK G a s t (img a s t)) (d : LOHG O1 A1) (r : LOHG O2 A2)
    (hd : d.wf = true) (hs : d.hypergraph.isStrict = true)
    (hr : LFunctor.tryMapArrow G d = .ok r) :
    ∃ (sr : OHG O2 A2) (sd : OHG O1 A1) (sm : OHG O2 A2), LOHG.toStrict B r = .ok sr ∧
      LOHG.toStrict B d = .ok sd ∧ SFunctor.mapArrow B (LFunctor.toDyn B G) sd = .ok sm ∧
      sr.toPlain ≅ sm.toPlain := by
  obtain ⟨r', sr, sd, sm, h1, _, h3, h4, h5, _, _, h8⟩ := native_vs_strict B hB G img hG d hd hs
  rw [hr] at h1
  cases h1
  exact ⟨sr, sd, sm, h3, h4, h5, h8⟩

/-! ### witnesses -/

/-- `tyExF` of C12 as a lax diagram: one operation `5 : 10 ● 11 → 12`, a repeated input, permuted
    outputs, no pending unification -/
def exD : LOHG Nat Nat := ⟨[0, 0], [2, 1], ⟨[10, 11, 12], [5], [⟨[0, 1], [2]⟩], ([], [])⟩⟩

/-- the hypotheses of `native_vs_strict` hold for `exD` and the size-changing functor `tyExG`
    (`10 ↦ []`, `11 ↦ [11]`, `12 ↦ [12, 12]`) -/
example : exD.wf = true ∧ exD.hypergraph.isStrict = true ∧
    ∀ a s t, C12.GenOK C12.tyExG a s t
      (LOHG.singleton (a + 1) (s.flatMap C12.tyExG.mapObject) (t.flatMap C12.tyExG.mapObject)) :=
  ⟨by decide, by decide,
    fun a s t => C12.genOK_singleton (fun o => List.replicate (o - 10) o) (fun a _ _ => a + 1) a s t⟩

/-- both paths on `exD`, Vec backend: the native image has `3 + (3 + 3) + 3 = 12` nodes and eight
    pending pairs before strictification; after it the two results coincide here (in general they
    are only isomorphic, `native_vs_strict`) -/
example :
    (OHG.toPlain <$> (LFunctor.tryMapArrow C12.tyExG exD >>= LOHG.toStrict vecBackend)) =
      .ok ⟨[11, 12, 12], [⟨6, [0], [1, 2]⟩], [], [1, 2, 0]⟩ ∧
    (OHG.toPlain <$> (LOHG.toStrict vecBackend exD >>=
        SFunctor.mapArrow vecBackend (LFunctor.toDyn vecBackend C12.tyExG))) =
      .ok ⟨[11, 12, 12], [⟨6, [0], [1, 2]⟩], [], [1, 2, 0]⟩ := by decide

end OH.C13
