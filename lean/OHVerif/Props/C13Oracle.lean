/-
  C13 — the correspondence driver's two witness oracles (Model/DriverLax.lean, just above
  `functorG`) decide what property C13 says about the witness of `map_arrow_witness`, and the
  model's own answer passes them.

  * `witnessShapeOk_iff`      : Boolean-to-Prop reflection of clause (ii), index form;
    `witnessShapeOk_iff_forall₂` (relational form), `witnessShapeOk_iff_map` (equational form, the
    shape of `C13.witness_segments`);
  * `witnessPushOk_iff`       : reflection of clause (iii);
  * `witness_model_ok`        : the MODEL's answer satisfies clause (ii) — no hypothesis at all;
  * `modelImage_eq`           : the model's image spelled out (two unchecked lax compositions);
  * `witness_model_push_iff`  : on the model's answer clause (iii) holds EXACTLY when the image is
                                label-consistent (lawful backend, well-formed input, well-formed
                                operation images);
  * `witness_model_push`      : clause (iii) for the model under the hypotheses of
                                `C13.native_vs_strict` (every generator has a good image);
  * `witness_model_accepts`   : both oracles accept the model's answer; `witness_fam_accepts`: the
                                instance for the driver's functor family with `pv = 0`.
-/
import OHVerif.Props.C13Native
import OHVerif.Model.DriverLax

namespace OH.C13Oracle
open OH OH.C13 OH.LaxStrict OH.LaxIso OH.Subst Relation

/-! ### 1. list helpers: `zip`/`all` against the pointwise lifting of a relation to lists -/

/-- the pointwise lifting of a relation to lists of equal length (Mathlib's `All₂`, defined
    here by recursion to stay import-light) -/
def All₂ {α β : Type} (R : α → β → Prop) : List α → List β → Prop
  | [], [] => True
  | a :: as, b :: bs => R a b ∧ All₂ R as bs
  | [], _ :: _ => False
  | _ :: _, [] => False

@[simp] theorem all₂_nil_nil {α β : Type} (R : α → β → Prop) : All₂ R [] [] ↔ True := Iff.rfl
@[simp] theorem all₂_nil_cons {α β : Type} (R : α → β → Prop) (b : β) (bs : List β) :
    All₂ R [] (b :: bs) ↔ False := Iff.rfl
@[simp] theorem all₂_cons_nil {α β : Type} (R : α → β → Prop) (a : α) (as : List α) :
    All₂ R (a :: as) [] ↔ False := Iff.rfl
theorem all₂_cons {α β : Type} (R : α → β → Prop) (a : α) (as : List α) (b : β) (bs : List β) :
    All₂ R (a :: as) (b :: bs) ↔ R a b ∧ All₂ R as bs := Iff.rfl

/-- "equal lengths and the predicate on every pair of the zip" is `Forall₂` -/
theorem len_zip_all_iff {α β : Type} (R : α → β → Bool) (xs : List α) (ys : List β) :
    (xs.length == ys.length && (xs.zip ys).all (fun p => R p.1 p.2)) = true ↔
      All₂ (fun a b => R a b = true) xs ys := by
  induction xs generalizing ys with
  | nil =>
    cases ys with
    | nil => simp
    | cons y ys =>
      simp only [List.length_nil, List.length_cons, List.zip_nil_left, List.all_nil,
        Bool.and_true, beq_iff_eq]
      constructor
      · intro h; omega
      · intro h; cases h
  | cons x xs ih =>
    cases ys with
    | nil =>
      simp only [List.length_nil, List.length_cons, List.zip_nil_right, List.all_nil,
        Bool.and_true, beq_iff_eq]
      constructor
      · intro h; omega
      · intro h; cases h
    | cons y ys =>
      rw [all₂_cons, ← ih ys]
      simp only [List.length_cons, List.zip_cons_cons, List.all_cons, Bool.and_eq_true,
        beq_iff_eq]
      constructor
      · rintro ⟨h1, h2, h3⟩; exact ⟨h2, by omega, h3⟩
      · rintro ⟨h2, h1, h3⟩; exact ⟨by omega, h2, h3⟩

/-- `Forall₂`, read position by position -/
theorem forall₂_iff_getElem? {α β : Type} (R : α → β → Prop) (xs : List α) (ys : List β) :
    All₂ R xs ys ↔
      xs.length = ys.length ∧ ∀ (i : Nat) a b, xs[i]? = some a → ys[i]? = some b → R a b := by
  induction xs generalizing ys with
  | nil =>
    cases ys with
    | nil => simp
    | cons y ys =>
      constructor
      · intro h; cases h
      · rintro ⟨h, _⟩; simp at h
  | cons x xs ih =>
    cases ys with
    | nil =>
      constructor
      · intro h; cases h
      · rintro ⟨h, _⟩; simp at h
    | cons y ys =>
      rw [all₂_cons, ih ys]
      constructor
      · rintro ⟨h0, hl, hr⟩
        refine ⟨by simp [hl], ?_⟩
        intro i a b ha hb
        cases i with
        | zero =>
          simp only [List.getElem?_cons_zero, Option.some.injEq] at ha hb
          subst ha; subst hb; exact h0
        | succ i =>
          simp only [List.getElem?_cons_succ] at ha hb
          exact hr i a b ha hb
      · rintro ⟨hl, hr⟩
        refine ⟨hr 0 x y rfl rfl, by simpa using hl, ?_⟩
        intro i a b ha hb
        exact hr (i + 1) a b (by simpa using ha) (by simpa using hb)

/-- `Forall₂ (f a = g b)` is equality of the mapped lists -/
theorem forall₂_eq_iff_map {α β γ : Type} (f : α → γ) (g : β → γ) (xs : List α) (ys : List β) :
    All₂ (fun a b => f a = g b) xs ys ↔ xs.map f = ys.map g := by
  induction xs generalizing ys with
  | nil =>
    cases ys with
    | nil => simp
    | cons y ys =>
      constructor
      · intro h; cases h
      · intro h; simp at h
  | cons x xs ih =>
    cases ys with
    | nil =>
      constructor
      · intro h; cases h
      · intro h; simp at h
    | cons y ys =>
      rw [all₂_cons, ih ys]
      simp

theorem forall₂_imp {α β : Type} {R S : α → β → Prop} (h : ∀ a b, R a b ↔ S a b) (xs : List α)
    (ys : List β) : All₂ R xs ys ↔ All₂ S xs ys := by
  have : R = S := by funext a b; exact propext (h a b)
  rw [this]

/-! ### 2. clause (ii): `Drv.witnessShapeOk` -/

/-- the relation clause (ii) asks of one segment `seg` and one expected label list `lab` over the
    node labels `nodes`: same length, and the `k`-th entry of `seg` is a node labelled `lab[k]` -/
def SegCarries (nodes : List Nat) (seg lab : List Nat) : Prop :=
  All₂ (fun v l => nodes[v]? = some l) seg lab

/-- reflection, relational form: one segment per expected label list, pairwise `SegCarries`, and
    the witness' values range over the nodes of `b` -/
theorem witnessShapeOk_iff_forall₂ (fw : List (List Nat)) (b : LOHG Nat Nat) (w : IC FinFun) :
    Drv.witnessShapeOk fw b w = true ↔
      (w.values.target = b.hypergraph.nodes.length ∧
        All₂ (SegCarries b.hypergraph.nodes) w.segs fw) := by
  unfold Drv.witnessShapeOk SegCarries
  have inner : ∀ (seg lab : List Nat),
      (seg.length == lab.length &&
        (seg.zip lab).all (fun vl => b.hypergraph.nodes[vl.1]? == some vl.2)) = true ↔
      All₂ (fun v l => b.hypergraph.nodes[v]? = some l) seg lab := by
    intro seg lab
    rw [len_zip_all_iff (fun v l => b.hypergraph.nodes[v]? == some l)]
    exact forall₂_imp (fun v l => by simp) seg lab
  rw [← forall₂_imp inner,
    ← len_zip_all_iff (fun (seg lab : List Nat) => seg.length == lab.length &&
        (seg.zip lab).all (fun vl => b.hypergraph.nodes[vl.1]? == some vl.2))]
  simp only [Bool.and_eq_true, beq_iff_eq]
  constructor
  · rintro ⟨⟨h1, h2⟩, h3⟩; exact ⟨h2, h1, h3⟩
  · rintro ⟨h2, h1, h3⟩; exact ⟨⟨h1, h2⟩, h3⟩

/-- reflection, equational form (the shape of `C13.witness_segments`): reading every segment
    through the node labels of `b` gives the expected label lists -/
theorem witnessShapeOk_iff_map (fw : List (List Nat)) (b : LOHG Nat Nat) (w : IC FinFun) :
    Drv.witnessShapeOk fw b w = true ↔
      (w.values.target = b.hypergraph.nodes.length ∧
        w.segs.map (fun seg => seg.map (fun j => b.hypergraph.nodes[j]?)) =
          fw.map (fun lab => lab.map some)) := by
  rw [witnessShapeOk_iff_forall₂]
  apply and_congr Iff.rfl
  rw [← forall₂_eq_iff_map]
  apply forall₂_imp
  intro seg lab
  exact forall₂_eq_iff_map (fun j => b.hypergraph.nodes[j]?) some seg lab

/-- HEADLINE 1 — reflection of clause (ii), index form.  `Drv.witnessShapeOk fw b w` holds iff the
    witness has exactly one segment per input node, its values range over the nodes of `b`, and
    for every input node `i` the segment `seg` of `i` has the length of the expected label list
    `lab = fw[i]` and its `k`-th entry is a node of `b` carrying the label `lab[k]`.
    (Stated with `[·]?` throughout, so no bound proofs appear; given the two length equations this
    is the formulation `∃ seg, w.segs[i]? = some seg ∧ …` of the task.) -/
theorem witnessShapeOk_iff (fw : List (List Nat)) (b : LOHG Nat Nat) (w : IC FinFun) :
    Drv.witnessShapeOk fw b w = true ↔
      (w.segs.length = fw.length ∧ w.values.target = b.hypergraph.nodes.length ∧
        ∀ (i : Nat) (seg lab : List Nat), w.segs[i]? = some seg → fw[i]? = some lab →
          seg.length = lab.length ∧
          ∀ (k v l : Nat), seg[k]? = some v → lab[k]? = some l →
            b.hypergraph.nodes[v]? = some l) := by
  rw [witnessShapeOk_iff_forall₂, forall₂_iff_getElem?]
  constructor
  · rintro ⟨h1, h2, h3⟩
    refine ⟨h2, h1, ?_⟩
    intro i seg lab hs hl
    exact (forall₂_iff_getElem? _ seg lab).1 (h3 i seg lab hs hl)
  · rintro ⟨h2, h1, h3⟩
    refine ⟨h1, h2, ?_⟩
    intro i seg lab hs hl
    exact (forall₂_iff_getElem? _ seg lab).2 (h3 i seg lab hs hl)

/-- the form asked for: for every input node there IS a segment, of the right length, whose
    entries carry the expected labels in order -/
theorem witnessShapeOk_iff_exists (fw : List (List Nat)) (b : LOHG Nat Nat) (w : IC FinFun) :
    Drv.witnessShapeOk fw b w = true ↔
      (w.segs.length = fw.length ∧ w.values.target = b.hypergraph.nodes.length ∧
        ∀ i (hi : i < fw.length), ∃ seg, w.segs[i]? = some seg ∧ seg.length = (fw[i]).length ∧
          ∀ k, k < seg.length → (seg[k]?).bind (b.hypergraph.nodes[·]?) = (fw[i])[k]?) := by
  rw [witnessShapeOk_iff]
  constructor
  · rintro ⟨h1, h2, h3⟩
    refine ⟨h1, h2, ?_⟩
    intro i hi
    have hi' : i < w.segs.length := by omega
    obtain ⟨hl, hk⟩ := h3 i w.segs[i] fw[i] (List.getElem?_eq_getElem hi')
      (List.getElem?_eq_getElem hi)
    refine ⟨_, List.getElem?_eq_getElem hi', hl, ?_⟩
    intro k hk1
    have hk2 : k < (fw[i]).length := by omega
    rw [List.getElem?_eq_getElem hk1, List.getElem?_eq_getElem hk2]
    exact hk k _ _ (List.getElem?_eq_getElem hk1) (List.getElem?_eq_getElem hk2)
  · rintro ⟨h1, h2, h3⟩
    refine ⟨h1, h2, ?_⟩
    intro i seg lab hs hl
    have hi : i < fw.length := (List.getElem?_eq_some_iff.1 hl).1
    obtain ⟨seg', hs', hlen, hk⟩ := h3 i hi
    rw [hs] at hs'
    cases hs'
    have e : fw[i] = lab := Option.some.inj ((List.getElem?_eq_getElem hi).symm.trans hl)
    rw [e] at hlen hk
    refine ⟨hlen, ?_⟩
    intro k v l hv hl'
    have hk1 : k < seg.length := (List.getElem?_eq_some_iff.1 hv).1
    have := hk k hk1
    rw [hv, hl'] at this
    exact this

/-! ### 3. clause (iii): `Drv.witnessPushOk` -/

/-- an interface pushed through the witness (every node replaced by its segment) and then through
    a node map `q` -/
def through (w : IC FinFun) (q : FinFun) (ids : List Nat) : List Nat :=
  (ids.flatMap (fun i => w.segs.getD i [])).map (fun v => q.table.getD v 0)

/-- HEADLINE 2 — reflection of clause (iii): the quotient of `b` succeeds with `Ok(q)` and both
    interfaces of the input, pushed through the witness and `q`, are the interfaces of the
    quotiented `b` -/
theorem witnessPushOk_iff (B : Backend) (f b : LOHG Nat Nat) (w : IC FinFun) :
    Drv.witnessPushOk B f b w = true ↔
      ∃ q bq, LOHG.quotient B b = .ok (true, q, bq) ∧
        through w q f.sources = bq.sources ∧ through w q f.targets = bq.targets := by
  unfold Drv.witnessPushOk through
  split
  · rename_i q bq heq
    constructor
    · intro h
      simp only [Bool.and_eq_true, beq_iff_eq] at h
      exact ⟨q, bq, heq, h.1, h.2⟩
    · rintro ⟨q', bq', h1, h2, h3⟩
      rw [heq] at h1
      simp only [Res.ok.injEq, Prod.mk.injEq, true_and] at h1
      obtain ⟨rfl, rfl⟩ := h1
      simp only [Bool.and_eq_true, beq_iff_eq]
      exact ⟨h2, h3⟩
  · rename_i hne
    constructor
    · intro h; cases h
    · rintro ⟨q, bq, h1, _⟩
      exact absurd h1 (hne q bq)

/-! ### 4. concrete runs of the shape oracle (no backend involved) -/

/-- the returned diagram of the examples: three nodes `5, 6, 7`, one operation -/
def exB : LOHG Nat Nat := ⟨[0, 1], [2], ⟨[5, 6, 7], [9], [⟨[0, 1], [2]⟩], ([], [])⟩⟩

/-- a witness with segments `[[0,1],[],[2]]` over three nodes -/
def exW : IC FinFun := ⟨⟨[2, 0, 1], 4⟩, ⟨[0, 1, 2], 3⟩⟩

example : exW.segs = [[0, 1], [], [2]] := by decide

/-- accepted: segments `[[0,1],[],[2]]` for `fw = [[5,6],[],[7]]` over nodes `[5,6,7]` -/
example : Drv.witnessShapeOk [[5, 6], [], [7]] exB exW = true := by decide
/-- wrong length of a segment (`[0,1]` against a single expected label) -/
example : Drv.witnessShapeOk [[5], [], [7]] exB exW = false := by decide
/-- the empty segment against a non-empty expectation -/
example : Drv.witnessShapeOk [[5, 6], [6], [7]] exB exW = false := by decide
/-- wrong label (node `1` carries `6`, not `7`) -/
example : Drv.witnessShapeOk [[5, 7], [], [7]] exB exW = false := by decide
/-- out-of-range node: the third segment names node `3` -/
example : Drv.witnessShapeOk [[5, 6], [], [7]] exB ⟨⟨[2, 0, 1], 4⟩, ⟨[0, 1, 3], 3⟩⟩ = false := by
  decide
/-- wrong segment count: two segments for three input nodes -/
example : Drv.witnessShapeOk [[5, 6], [], [7]] exB ⟨⟨[2, 1], 4⟩, ⟨[0, 1, 2], 3⟩⟩ = false := by decide
/-- one segment too many -/
example : Drv.witnessShapeOk [[5, 6], []] exB ⟨⟨[2, 0, 0], 3⟩, ⟨[0, 1], 3⟩⟩ = false := by decide
/-- the witness' codomain is not the node count of the returned diagram -/
example : Drv.witnessShapeOk [[5, 6], [], [7]] exB ⟨⟨[2, 0, 1], 4⟩, ⟨[0, 1, 2], 4⟩⟩ = false := by
  decide

/-! ### 5. the model's answer and clause (ii) -/

variable {O1 A1 O2 A2 : Type}

/-- HEADLINE 3a — the MODEL's own answer satisfies clause (ii), for every functor and every input
    (no well-formedness, no backend): whenever `map_arrow_witness` returns `(r, w)`, the shape
    oracle accepts `(r, w)` against the expected label lists `F(label 0), F(label 1), …` -/
theorem witness_model_ok (F : LFunctor Nat Nat Nat Nat) (f : LOHG Nat Nat) (r : LOHG Nat Nat)
    (w : IC FinFun) (h : LFunctor.mapArrowWitness F f = .ok (r, w)) :
    Drv.witnessShapeOk (f.hypergraph.nodes.map F.mapObject) r w = true := by
  rw [witnessShapeOk_iff_map]
  obtain ⟨-, -, -, -, ht, -⟩ := witness_shape F f r w h
  refine ⟨ht, ?_⟩
  rw [witness_segments F f r w h, List.map_map]
  rfl

/-- non-trivial instance: the doubling functor of Props/C13.lean on `9 : 1 ● 2 → 3` -/
example : ∃ r w, LFunctor.mapArrowWitness C13.dbl C13.ex1 = .ok (r, w) ∧
    Drv.witnessShapeOk (C13.ex1.hypergraph.nodes.map C13.dbl.mapObject) r w = true := by
  have h : (match LFunctor.mapArrowWitness C13.dbl C13.ex1 with
      | .ok _ => true | _ => false) = true := by decide
  split at h
  · rename_i p hp
    exact ⟨p.1, p.2, hp, witness_model_ok _ _ _ _ hp⟩
  · cases h

/-! ### 6. the model's image and witness, spelled out -/

theorem mem_blockS_lt (ks : List Nat) (j v : Nat) (h : v ∈ blockS ks j) : v < ks.sum := by
  unfold blockS at h
  have := List.mem_range'_1.mp h
  have := block_le_sum ks j
  omega

theorem mem_flatMap_blockS_lt (ks ids : List Nat) : ∀ v ∈ ids.flatMap (blockS ks), v < ks.sum := by
  intro v hv
  obtain ⟨j, _, hj⟩ := List.mem_flatMap.1 hv
  exact mem_blockS_lt ks j v hj

/-- segment `i` of the model's witness is the block of `i` shifted by the total size `n`: the
    nodes of the middle identity -/
theorem witnessOf_segs_getD (F : LFunctor O1 A1 O2 A2) (d : LOHG O1 A1) (r : LOHG O2 A2) (i : Nat) :
    let ks := d.hypergraph.nodes.map (fun o => (F.mapObject o).length)
    (witnessOf F d r).segs.getD i [] = (blockS ks i).map (· + ks.sum) := by
  intro ks
  show (splitSegs ks (List.range' ks.sum ks.sum)).getD i [] = _
  rw [splitSegs_getD]
  have hb := block_le_sum ks i
  unfold blockS
  simp only [List.getD_eq_getElem?_getD] at hb ⊢
  apply List.ext_getElem
  · simp; omega
  · intro k h1 h2
    simp only [List.length_map, List.length_range'] at h2
    simp only [List.getElem_take, List.getElem_drop, List.getElem_range', List.getElem_map]
    omega

/-- the four expanded interfaces and the two distribution spiders of the native image -/
def imgParts (F : LFunctor O1 A1 O2 A2) (d : LOHG O1 A1) (fx : LOHG O2 A2) :
    LOHG O2 A2 × LOHG O2 A2 × LOHG O2 A2 :=
  let fw := d.hypergraph.nodes.map F.mapObject
  let ks := fw.map List.length
  (sxL fw.flatten (d.sources.flatMap (blockS ks))
      ((d.hypergraph.adjacency.flatMap (·.sources)).flatMap (blockS ks)),
   LOHG.tensor (LOHG.identity fw.flatten) fx,
   ytL fw.flatten ((d.hypergraph.adjacency.flatMap (·.targets)).flatMap (blockS ks))
      (d.targets.flatMap (blockS ks)))

/-- THE MODEL'S ANSWER, EXPLICITLY.  On a well-formed input, whenever `map_arrow_witness` returns
    `(r, w)`: the tensor `fx` of the operation images exists, `r` is the unchecked lax composite
    `sx ; (id ⊗ fx) ; yt` (arities matching), and `w` is `witnessOf`. -/
theorem modelImage_eq (F : LFunctor O1 A1 O2 A2) (d : LOHG O1 A1) (hd : d.wf = true)
    (r : LOHG O2 A2) (w : IC FinFun) (h : LFunctor.mapArrowWitness F d = .ok (r, w)) :
    ∃ fx, LFunctor.mapOperationsL F d = .ok fx ∧
      (imgParts F d fx).1.targets.length = (imgParts F d fx).2.1.sources.length ∧
      (laxComp (imgParts F d fx).1 (imgParts F d fx).2.1).targets.length =
        (imgParts F d fx).2.2.sources.length ∧
      r = laxComp (laxComp (imgParts F d fx).1 (imgParts F d fx).2.1) (imgParts F d fx).2.2 ∧
      w = witnessOf F d r := by
  have hw : w = witnessOf F d r := by
    rw [mapArrowWitness_eq, C13.bind_eq_ok] at h
    obtain ⟨r', _, heq⟩ := h
    injection heq with heq
    injection heq with h1 h2
    subst h1
    exact h2.symm
  obtain ⟨hr, -⟩ := witness_shape F d r w h
  unfold LFunctor.tryMapArrow at hr
  split at hr
  · cases hr
  · simp only [C13.bind_eq_ok] at hr
    obtain ⟨fx, hfx, hr⟩ := hr
    refine ⟨fx, hfx, ?_⟩
    rw [spiderMapArrowL_eq d hd _ (by simp [LFunctor.mapObjectsL]) fx, C13.bind_eq_ok] at hr
    obtain ⟨a, ha, hr⟩ := hr
    rw [laxCompose_eq] at ha hr
    split at ha
    · rename_i ar1
      injection ha with ha
      subst ha
      split at hr
      · rename_i ar2
        injection hr with hr
        exact ⟨ar1, ar2, hr.symm, hw⟩
      · cases hr
    · cases ha

/-! ### 7. clause (iii) on the model's answer -/

theorem getD_range_append (n v : Nat) (l : List Nat) (hv : v < n) :
    (List.range n ++ l)[v]? = some v := by
  rw [List.getElem?_append_left (by simpa using hv)]
  simp [hv]

/-- the heart of clause (iii): in the composite `sx ; (id ⊗ fx) ; yt` the `v`-th node of `sx`, the
    `v`-th node of the middle identity and the `v`-th node of `yt` are identified by the pending
    unifications -/
theorem middle_pairs (W : List O2) (fs es et ft : List Nat) (fx : LOHG O2 A2)
    (hfs : ∀ v ∈ fs, v < W.length) (hes : ∀ v ∈ es, v < W.length)
    (het : ∀ v ∈ et, v < W.length) (hft : ∀ v ∈ ft, v < W.length) (hfx : fx.wf = true)
    (ar1 : (sxL W fs es : LOHG O2 A2).targets.length =
      (LOHG.tensor (LOHG.identity W) fx).sources.length)
    (v : Nat) (hv : v < W.length) :
    let a : LOHG O2 A2 := laxComp (sxL W fs es) (LOHG.tensor (LOHG.identity W) fx)
    let r : LOHG O2 A2 := laxComp a (ytL W et ft)
    a.hypergraph.nodes.length = W.length + (W.length + fx.hypergraph.nodes.length) ∧
    r.hypergraph.nodes.length = a.hypergraph.nodes.length + W.length ∧
    pairsRel r v (W.length + v) ∧
    pairsRel r (v + W.length) (a.hypergraph.nodes.length + v) := by
  intro a r
  obtain ⟨wsx, -, -, -⟩ := sxL_facts (A2 := A2) W fs es hfs hes
  obtain ⟨wyt, -, -, -⟩ := ytL_facts (A2 := A2) W et ft het hft
  obtain ⟨wid, -, -⟩ := idL_facts (A2 := A2) W
  have wT := tensor_wf (LOHG.identity W) fx wid hfx
  have hna : a.hypergraph.nodes.length = W.length + (W.length + fx.hypergraph.nodes.length) := by
    show (W ++ (W ++ fx.hypergraph.nodes)).length = _
    simp
  have hnr : r.hypergraph.nodes.length = a.hypergraph.nodes.length + W.length := by
    show (a.hypergraph.nodes ++ W).length = _
    simp
  have p1 : pairsRel a v (W.length + v) := by
    rw [pairs_laxComp _ _ wsx wT]
    refine Or.inr ⟨v, ?_, ?_⟩
    · show (List.range W.length ++ es)[v]? = some v
      exact getD_range_append _ _ _ hv
    · show ((List.range W.length ++ _)[v]?).map _ = _
      rw [getD_range_append _ _ _ hv]
      rfl
  have wa : a.wf = true := laxComp_wf _ _ wsx wT ar1
  refine ⟨hna, hnr, ?_, ?_⟩
  · show pairsRel (laxComp a (ytL W et ft)) v (W.length + v)
    rw [pairs_laxComp _ _ wa wyt]
    exact Or.inl (Or.inl ⟨by omega, by omega, p1⟩)
  · show pairsRel (laxComp a (ytL W et ft)) (v + W.length) (a.hypergraph.nodes.length + v)
    rw [pairs_laxComp _ _ wa wyt]
    refine Or.inr ⟨v, ?_, ?_⟩
    · show ((List.range W.length ++ _).map (· + W.length))[v]? = some (v + W.length)
      rw [List.getElem?_map, getD_range_append _ _ _ hv]
      rfl
    · show ((List.range W.length ++ et)[v]?).map _ = _
      rw [getD_range_append _ _ _ hv]
      rfl


/-- an invariant of a monadic left fold -/
theorem foldlM_inv {α β : Type} (P : α → Prop) (step : α → β → Res α)
    (hstep : ∀ acc p a, P acc → step acc p = .ok a → P a) (l : List β) :
    ∀ init r, P init → l.foldlM step init = .ok r → P r := by
  induction l with
  | nil =>
    intro init r h0 h
    rw [List.foldlM_nil] at h
    injection h with h
    subst h; exact h0
  | cons p l ih =>
    intro init r h0 h
    rw [List.foldlM_cons, C13.bind_eq_ok] at h
    obtain ⟨a, ha, h⟩ := h
    exact ih a r (hstep init p a h0 ha) h

/-- if every image the functor yields is well-formed, so is the lax tensor of the operation
    images -/
theorem mapOperationsL_wf (F : LFunctor O1 A1 O2 A2)
    (hF : ∀ a s t g, F.mapOperation a s t = .ok g → g.wf = true) (d : LOHG O1 A1)
    (fx : LOHG O2 A2) (h : LFunctor.mapOperationsL F d = .ok fx) : fx.wf = true := by
  unfold LFunctor.mapOperationsL at h
  refine foldlM_inv (fun (g : LOHG O2 A2) => g.wf = true) _ ?_ _ _ _ rfl h
  intro acc p a hacc hstep
  simp only [C13.bind_eq_ok] at hstep
  obtain ⟨e, -, src, -, tgt, -, img, himg, ha⟩ := hstep
  injection ha with ha
  subst ha
  exact tensor_wf acc img hacc (hF _ _ _ _ himg)

/-- HEADLINE 3b — clause (iii) on the MODEL's answer, at full strength.  For a lawful backend, a
    well-formed input and a functor whose operation images are well-formed: the returned image `r`
    is well-formed, and the push oracle accepts the model's `(r, w)` EXACTLY when `r` is
    label-consistent, i.e. exactly when `r.quotient()` answers `Ok` (`C09.quotient_open`).  The
    quotient of `r` fails (answers `Err`) for ill-typed functors — an operation image whose
    boundary labels differ from `F` of the operation's type — and then clause (iii) is false for
    the model's own answer as well (the driver never gets there: clause (i) already fails). -/
theorem witness_model_push_iff (B : Backend) (hB : B.Lawful) (F : LFunctor Nat Nat Nat Nat)
    (hF : ∀ a s t g, F.mapOperation a s t = .ok g → g.wf = true)
    (f : LOHG Nat Nat) (hwf : f.wf = true) (r : LOHG Nat Nat) (w : IC FinFun)
    (h : LFunctor.mapArrowWitness F f = .ok (r, w)) :
    r.wf = true ∧
      (Drv.witnessPushOk B f r w = true ↔ C09.LabelConsistent r.hypergraph) := by
  obtain ⟨fx, hfx, ar1, ar2, hr, hw⟩ := modelImage_eq F f hwf r w h
  have wfx := mapOperationsL_wf F hF f fx hfx
  -- names for the pieces
  generalize hks : (f.hypergraph.nodes.map F.mapObject).map List.length = ks at *
  have hks' : f.hypergraph.nodes.map (fun o => (F.mapObject o).length) = ks := by
    rw [← hks, List.map_map]; rfl
  have hWn : (f.hypergraph.nodes.map F.mapObject).flatten.length = ks.sum := by
    rw [List.length_flatten, hks]
  unfold imgParts at ar1 ar2 hr
  simp only [hks] at ar1 ar2 hr
  generalize (f.hypergraph.nodes.map F.mapObject).flatten = W at *
  have b1 : ∀ v ∈ f.sources.flatMap (blockS ks), v < W.length := by
    rw [hWn]; exact mem_flatMap_blockS_lt ks _
  have b2 : ∀ v ∈ f.targets.flatMap (blockS ks), v < W.length := by
    rw [hWn]; exact mem_flatMap_blockS_lt ks _
  have b3 : ∀ v ∈ (f.hypergraph.adjacency.flatMap (·.sources)).flatMap (blockS ks),
      v < W.length := by
    rw [hWn]; exact mem_flatMap_blockS_lt ks _
  have b4 : ∀ v ∈ (f.hypergraph.adjacency.flatMap (·.targets)).flatMap (blockS ks),
      v < W.length := by
    rw [hWn]; exact mem_flatMap_blockS_lt ks _
  obtain ⟨wsx, -, -, -⟩ := sxL_facts (A2 := Nat) W _ _ b1 b3
  obtain ⟨wyt, -, -, -⟩ := ytL_facts (A2 := Nat) W _ _ b4 b2
  obtain ⟨wid, -, -⟩ := idL_facts (A2 := Nat) W
  have wT := tensor_wf (LOHG.identity W) fx wid wfx
  have wa := laxComp_wf _ _ wsx wT ar1
  have wr : r.wf = true := by rw [hr]; exact laxComp_wf _ _ wa wyt ar2
  refine ⟨wr, ?_⟩
  have hmid := fun v hv => middle_pairs W _ _ _ _ fx b1 b3 b4 b2 wfx ar1 v hv
  constructor
  · -- accepted ⇒ the quotient answered `Ok` ⇒ label-consistent
    intro hp
    obtain ⟨q, bq, hq, -, -⟩ := (witnessPushOk_iff B f r w).1 hp
    apply Classical.byContradiction
    intro hn
    obtain ⟨q', -, hq'⟩ := (C09.quotient_open B hB r wr).2.1 hn
    rw [hq] at hq'
    simp at hq'
  · intro hc
    obtain ⟨q, h', hqH, -, -, -, -, hker⟩ := toStrict_explicit B hB r wr hc
    obtain ⟨q1, h1', hqH1, hquot, -⟩ := (C09.quotient_open B hB r wr).1 hc
    rw [hqH] at hqH1
    simp only [Res.ok.injEq, Prod.mk.injEq, true_and] at hqH1
    obtain ⟨rfl, rfl⟩ := hqH1
    rw [witnessPushOk_iff]
    refine ⟨q, _, hquot, ?_, ?_⟩
    all_goals
      unfold through
      have hseg : (fun i => w.segs.getD i []) = fun i => (blockS ks i).map (· + ks.sum) := by
        funext i
        have := witnessOf_segs_getD F f r i
        simp only [hks'] at this
        rw [hw]; exact this
      rw [hseg, ← List.map_flatMap, List.map_map]
    · show _ = r.sources.map _
      have : r.sources = f.sources.flatMap (blockS ks) := by rw [hr]; rfl
      rw [this]
      apply List.map_congr_left
      intro v hv
      have hv' := b1 v hv
      obtain ⟨hna, hnr, p1, -⟩ := hmid v hv'
      rw [← hr] at hnr p1
      have hn : (plain r).n = r.hypergraph.nodes.length := rfl
      show q.table.getD (v + ks.sum) 0 = q.table.getD v 0
      have e : v + ks.sum = W.length + v := by omega
      rw [e]
      exact ((hker _ _ (by omega) (by omega)).2
        (EqvOn.of_rel (by omega) (by omega) p1)).symm
    · show _ = r.targets.map _
      have : r.targets = (f.targets.flatMap (blockS ks)).map
          (· + (laxComp (sxL W (f.sources.flatMap (blockS ks))
            ((f.hypergraph.adjacency.flatMap (·.sources)).flatMap (blockS ks)))
            (LOHG.tensor (LOHG.identity W) fx)).hypergraph.nodes.length) := by rw [hr]; rfl
      rw [this, List.map_map]
      apply List.map_congr_left
      intro v hv
      have hv' := b2 v hv
      obtain ⟨hna, hnr, -, p2⟩ := hmid v hv'
      rw [← hr] at hnr p2
      have hn : (plain r).n = r.hypergraph.nodes.length := rfl
      show q.table.getD (v + ks.sum) 0 = q.table.getD (v + _) 0
      rw [← hWn, Nat.add_comm v (LOHG.hypergraph _).nodes.length]
      exact (hker _ _ (by omega) (by omega)).2 (EqvOn.of_rel (by omega) (by omega) p2)


/-- the hypotheses of `witness_model_push_iff` hold for the doubling functor of Props/C13.lean, the
    input `9 : 1 ● 2 → 3` and the Vec backend -/
example : vecBackend.Lawful ∧
    (∀ a s t g, C13.dbl.mapOperation a s t = .ok g → g.wf = true) ∧ C13.ex1.wf = true ∧
    ∃ p, LFunctor.mapArrowWitness C13.dbl C13.ex1 = .ok p := by
  refine ⟨vecBackend_lawful, ?_, by decide, ?_⟩
  · intro a s t g hg
    injection hg with hg
    subst hg
    exact (C19.singleton_type a _ _).1
  · have h : (match LFunctor.mapArrowWitness C13.dbl C13.ex1 with
        | .ok _ => true | _ => false) = true := by decide
    split at h
    · rename_i p hp; exact ⟨p, hp⟩
    · cases h

/-- HEADLINE 3c — clause (iii) for the MODEL's answer under the hypotheses of
    `C13.native_vs_strict` (every generator has a good image: defined, well-formed,
    label-consistent, of the image type — exactly the hypothesis under which the existing theorem
    guarantees that the quotient of the native image succeeds) -/
theorem witness_model_push (B : Backend) (hB : B.Lawful) (F : LFunctor Nat Nat Nat Nat)
    (img : Nat → List Nat → List Nat → LOHG Nat Nat)
    (hG : ∀ a s t, C12.GenOK F a s t (img a s t))
    (f : LOHG Nat Nat) (hwf : f.wf = true) (r : LOHG Nat Nat) (w : IC FinFun)
    (h : LFunctor.mapArrowWitness F f = .ok (r, w)) :
    Drv.witnessPushOk B f r w = true := by
  have hF : ∀ a s t g, F.mapOperation a s t = .ok g → g.wf = true := by
    intro a s t g hg
    rw [(hG a s t).img] at hg
    injection hg with hg
    subst hg
    exact (hG a s t).wf
  have hs : f.hypergraph.isStrict = true := by
    cases hs : f.hypergraph.isStrict with
    | true => rfl
    | false =>
      rw [(native_refuses F f hs).2] at h
      cases h
  obtain ⟨r', sr, -, -, hr', wr', hsr, -⟩ := native_vs_strict B hB F img hG f hwf hs
  obtain ⟨hr, -⟩ := witness_shape F f r w h
  rw [hr] at hr'
  injection hr' with hr'
  subst hr'
  obtain ⟨hc, -⟩ := toStrict_quot_of_ok B hB r sr wr' hsr
  exact ((witness_model_push_iff B hB F hF f hwf r w h).2).2 hc

/-- HEADLINE 3 — the model's own answer passes BOTH witness oracles of the driver (clauses (ii)
    and (iii) of C13), for every lawful backend, every well-formed input and every functor whose
    generators have good images; together with `C13.native_vs_strict` (clause (i)) the model's
    answer meets all the criteria the driver judges an implementation's answer by. -/
theorem witness_model_accepts (B : Backend) (hB : B.Lawful) (F : LFunctor Nat Nat Nat Nat)
    (img : Nat → List Nat → List Nat → LOHG Nat Nat)
    (hG : ∀ a s t, C12.GenOK F a s t (img a s t))
    (f : LOHG Nat Nat) (hwf : f.wf = true) (r : LOHG Nat Nat) (w : IC FinFun)
    (h : LFunctor.mapArrowWitness F f = .ok (r, w)) :
    Drv.witnessShapeOk (f.hypergraph.nodes.map F.mapObject) r w = true ∧
      Drv.witnessPushOk B f r w = true :=
  ⟨witness_model_ok F f r w h, witness_model_push B hB F img hG f hwf r w h⟩

/-- the driver's functor family with single-operation images (`pv = 0`, every object variant):
    every generator has a good image -/
theorem fam_genOK (ov : Nat) (a : Nat) (s t : List Nat) :
    C12.GenOK (Drv.famFunctor ov 0) a s t
      (LOHG.singleton a (s.flatMap (Drv.famObj ov)) (t.flatMap (Drv.famObj ov))) :=
  C12.genOK_singleton (Drv.famObj ov) (fun a _ _ => a) a s t

/-- instance for the driver: with `pv = 0` the model's answer to `lax.functor.map_arrow_witness`
    passes both oracles, evaluated exactly as `functorG` evaluates them
    (`fw = f.hypergraph.nodes.map (famObj ov)`) -/
theorem witness_fam_accepts (B : Backend) (hB : B.Lawful) (ov : Nat) (f : LOHG Nat Nat)
    (hwf : f.wf = true) (r : LOHG Nat Nat) (w : IC FinFun)
    (h : LFunctor.mapArrowWitness (Drv.famFunctor ov 0) f = .ok (r, w)) :
    Drv.witnessShapeOk (f.hypergraph.nodes.map (Drv.famObj ov)) r w = true ∧
      Drv.witnessPushOk B f r w = true :=
  witness_model_accepts B hB (Drv.famFunctor ov 0) _ (fam_genOK ov) f hwf r w h

/-- hypotheses satisfiable: the size-changing object variant `ov = 1` on `9 : 1 ● 2 → 3`
    (`1 ↦ [1]`, `2 ↦ [2, 3]`, `3 ↦ [3, 0, 3]`) -/
example : C13.ex1.wf = true ∧
    (match LFunctor.mapArrowWitness (Drv.famFunctor 1 0) C13.ex1 with
      | .ok (r, w) => w.segs == [[6], [7, 8], [9, 10, 11]] && r.hypergraph.nodes.length == 24
      | _ => false) = true := by decide

/-- both oracles evaluated on the model's answer (Vec backend), and a tampered witness (segments
    pointing at the nodes of `sx` instead of the middle identity: same labels, so clause (ii)
    still holds, and clause (iii) too, because those nodes are identified with the right ones) -/
example :
    (match LFunctor.mapArrowWitness (Drv.famFunctor 1 0) C13.ex1 with
      | .ok (r, w) =>
        Drv.witnessShapeOk (C13.ex1.hypergraph.nodes.map (Drv.famObj 1)) r w &&
        Drv.witnessPushOk vecBackend C13.ex1 r w &&
        Drv.witnessPushOk vecBackend C13.ex1 r ⟨w.sources, ⟨[0, 1, 2, 3, 4, 5], w.values.target⟩⟩ &&
        -- two entries swapped: refused by clause (iii) (and by clause (ii): the labels differ)
        !Drv.witnessShapeOk (C13.ex1.hypergraph.nodes.map (Drv.famObj 1)) r
          ⟨w.sources, ⟨[6, 8, 7, 9, 10, 11], w.values.target⟩⟩ &&
        !Drv.witnessPushOk vecBackend C13.ex1 r ⟨w.sources, ⟨[6, 8, 7, 9, 10, 11], w.values.target⟩⟩
      | _ => false) = true := by decide


/-- clause (iii) is not implied by clause (ii): for the doubling functor the two copies of an
    interface node carry the same label; a witness listing them in the wrong order passes the shape
    oracle and is refused by the push oracle -/
example :
    (match LFunctor.mapArrowWitness C13.dbl C13.ex1 with
      | .ok (r, w) =>
        let w' : IC FinFun := ⟨w.sources, ⟨[7, 6, 8, 9, 10, 11], w.values.target⟩⟩
        Drv.witnessShapeOk (C13.ex1.hypergraph.nodes.map C13.dbl.mapObject) r w' &&
        !Drv.witnessPushOk vecBackend C13.ex1 r w'
      | _ => false) = true := by decide

/-- OBSERVATION (limits of the criteria, which follow the wording of C13): clause (iii) only
    constrains the segments of INTERFACE nodes.  On the chain `1 → 2 → 2 → 1` (identity functor)
    the two internal nodes carry the same label; the witness that swaps their segments — relating
    each internal node to the image of the other — passes both oracles. -/
def exChain : LOHG Nat Nat :=
  ⟨[0], [3], ⟨[1, 2, 2, 1], [10, 11, 12], [⟨[0], [1]⟩, ⟨[1], [2]⟩, ⟨[2], [3]⟩], ([], [])⟩⟩

example :
    (match LFunctor.mapArrowWitness (Drv.famFunctor 0 0) exChain with
      | .ok (r, w) =>
        let w' : IC FinFun := ⟨w.sources, ⟨[4, 6, 5, 7], w.values.target⟩⟩
        w.segs == [[4], [5], [6], [7]] && w'.segs == [[4], [6], [5], [7]] &&
        Drv.witnessShapeOk (exChain.hypergraph.nodes.map (Drv.famObj 0)) r w' &&
        Drv.witnessPushOk vecBackend exChain r w'
      | _ => false) = true := by decide

end OH.C13Oracle
