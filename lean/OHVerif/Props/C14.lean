/-
  C14 — reverse derivatives as optics.  Part 1: the SEMANTIC lens algebra over an arbitrary
  commutative ring (calculus-free, via dual numbers): every generator lens is correct, and
  correctness is closed under sequential and parallel composition (the chain rule).
  Part 2: the object part of the strict optic (`SOptic.mapObject`) interleaves `F(a_i)` with `R(a_i)`.
-/
import OHVerif.Lemmas.Lens
import OHVerif.Model.Functor
import OHVerif.Lemmas.Segs
import OHVerif.Props.C06
import OHVerif.Props.C08
import OHVerif.Spec.Diagram
import OHVerif.Spec.Lawful
import Mathlib.Data.ZMod.Defs
import Mathlib.Data.BitVec

namespace OH.C14
open OH

variable {R : Type} [CommRing R]

/-! ## generators: dual-number extensions -/

def addD : List (Dual R) → List (Dual R) | [a, b] => [a + b] | _ => []
def mulD : List (Dual R) → List (Dual R) | [a, b] => [a * b] | _ => []
def negD : List (Dual R) → List (Dual R) | [a] => [-a] | _ => []
def copyD : List (Dual R) → List (Dual R) | [a] => [a, a] | _ => []
def discardD : List (Dual R) → List (Dual R) := fun _ => []
def constD (k : R) : List (Dual R) → List (Dual R) := fun _ => [Dual.const k]

/-! ## generators: lenses -/

/-- add: forward `[a+b]`, no residual; reverse is copy `dz ↦ [dz, dz]` -/
def addLens : Lens R where
  fwd | [a, b] => ([a + b], []) | _ => ([], [])
  rev | _, [dz] => [dz, dz] | _, _ => []

/-- mul: forward `[x·y]` with residual `[x, y]`; reverse `([x,y],[dz]) ↦ [y·dz, x·dz]` -/
def mulLens : Lens R where
  fwd | [x, y] => ([x * y], [x, y]) | _ => ([], [])
  rev | [x, y], [dz] => [y * dz, x * dz] | _, _ => []

def negLens : Lens R where
  fwd | [x] => ([-x], []) | _ => ([], [])
  rev | _, [dz] => [-dz] | _, _ => []

/-- copy: reverse is add -/
def copyLens : Lens R where
  fwd | [x] => ([x, x], []) | _ => ([], [])
  rev | _, [d1, d2] => [d1 + d2] | _, _ => []

/-- discard: reverse is the constant `0` -/
def discardLens : Lens R where
  fwd := fun _ => ([], [])
  rev := fun _ _ => [0]

/-- constant `k`: reverse is discard -/
def constLens (k : R) : Lens R where
  fwd := fun _ => ([k], [])
  rev := fun _ _ => []

/-! ## (1) generator lenses are correct -/

omit [CommRing R] in
private theorem len2 {v : List R} {a b : R} (h : v.length = [a, b].length) : ∃ p q, v = [p, q] := by
  match v, h with
  | [p, q], _ => exact ⟨p, q, rfl⟩

omit [CommRing R] in
private theorem len1 {v : List R} {a : R} (h : v.length = [a].length) : ∃ p, v = [p] := by
  match v, h with
  | [p], _ => exact ⟨p, rfl⟩

omit [CommRing R] in
private theorem len0 {v : List R} (h : v.length = ([] : List R).length) : v = [] := by
  match v, h with
  | [], _ => rfl

theorem add_lens_correct (a b : R) : (addLens : Lens R).Correct addD [a, b] where
  fwd_eq := by
    intro v hv; obtain ⟨p, q, rfl⟩ := len2 hv; simp [addD, addLens]
  rev_length := by
    intro dy hdy; obtain ⟨dz, rfl⟩ := len1 hdy; simp [addLens]
  rev_eq := by
    intro dy hdy v hv
    obtain ⟨dz, rfl⟩ := len1 hdy
    obtain ⟨p, q, rfl⟩ := len2 hv
    simp [addD, addLens]; ring

theorem mul_lens_correct (x y : R) : (mulLens : Lens R).Correct mulD [x, y] where
  fwd_eq := by
    intro v hv; obtain ⟨p, q, rfl⟩ := len2 hv; simp [mulD, mulLens]
  rev_length := by
    intro dy hdy; obtain ⟨dz, rfl⟩ := len1 hdy; simp [mulLens]
  rev_eq := by
    intro dy hdy v hv
    obtain ⟨dz, rfl⟩ := len1 hdy
    obtain ⟨p, q, rfl⟩ := len2 hv
    simp [mulD, mulLens]; ring

theorem neg_lens_correct (x : R) : (negLens : Lens R).Correct negD [x] where
  fwd_eq := by
    intro v hv; obtain ⟨p, rfl⟩ := len1 hv; simp [negD, negLens]
  rev_length := by
    intro dy hdy; obtain ⟨dz, rfl⟩ := len1 hdy; simp [negLens]
  rev_eq := by
    intro dy hdy v hv
    obtain ⟨dz, rfl⟩ := len1 hdy
    obtain ⟨p, rfl⟩ := len1 hv
    simp [negD, negLens]

theorem copy_lens_correct (x : R) : (copyLens : Lens R).Correct copyD [x] where
  fwd_eq := by
    intro v hv; obtain ⟨p, rfl⟩ := len1 hv; simp [copyD, copyLens]
  rev_length := by
    intro dy hdy; obtain ⟨d1, d2, rfl⟩ := len2 hdy; simp [copyLens]
  rev_eq := by
    intro dy hdy v hv
    obtain ⟨d1, d2, rfl⟩ := len2 hdy
    obtain ⟨p, rfl⟩ := len1 hv
    simp [copyD, copyLens]; ring

theorem discard_lens_correct (x : R) : (discardLens : Lens R).Correct discardD [x] where
  fwd_eq := by
    intro v hv; simp [discardD, discardLens]
  rev_length := by
    intro dy hdy; simp [discardLens]
  rev_eq := by
    intro dy hdy v hv
    obtain ⟨p, rfl⟩ := len1 hv
    simp [discardD, discardLens]

theorem const_lens_correct (k : R) : (constLens k : Lens R).Correct (constD k) [] where
  fwd_eq := by
    intro v hv; simp [constD, constLens]
  rev_length := by
    intro dy hdy; simp [constLens]
  rev_eq := by
    intro dy hdy v hv
    obtain ⟨dz, rfl⟩ := len1 hdy
    obtain rfl := len0 hv
    simp [constD, constLens]

theorem id_lens_correct (x : List R) : (Lens.id : Lens R).Correct (fun X => X) x where
  fwd_eq := by
    intro v hv; simp [Lens.id, dualize_map_re x v hv]
  rev_length := by
    intro dy hdy; simpa [Lens.id] using hdy
  rev_eq := by
    intro dy hdy v hv
    simp [Lens.id, dualize_map_eps x v hv]

/-! ## (2) the chain rule -/

/-- sequential composition: if `L₁` is correct for `f₁` at `x` and `L₂` is correct for `f₂` at
    `f₁(x)`, the composite lens is correct for `f₂ ∘ f₁` at `x`. -/
theorem comp_lens_correct (L₁ L₂ : Lens R) (f₁ f₂ : List (Dual R) → List (Dual R)) (x : List R)
    (h₁ : L₁.Correct f₁ x) (h₂ : L₂.Correct f₂ (L₁.fwd x).1) :
    (Lens.comp (L₁.fwd x).2.length L₁ L₂).Correct (f₂ ∘ f₁) x := by
  -- the dual-number image of `x + vε` under `f₁` is `f₁(x) + (Df₁·v)ε`
  have hmid : ∀ v : List R, v.length = x.length →
      f₁ (dualize x v) = dualize (L₁.fwd x).1 ((f₁ (dualize x v)).map Dual.eps) := by
    intro v hv
    rw [← h₁.fwd_eq v hv, dualize_re_eps]
  have hlen : ∀ v : List R, v.length = x.length →
      ((f₁ (dualize x v)).map Dual.eps).length = (L₁.fwd x).1.length := by
    intro v hv
    rw [← h₁.fwd_eq v hv]; simp
  constructor
  · intro v hv
    simp only [Function.comp, Lens.comp]
    rw [hmid v hv]
    exact h₂.fwd_eq _ (hlen v hv)
  · intro dz hdz
    simp only [Lens.comp, List.take_left', List.drop_left'] at hdz ⊢
    exact h₁.rev_length _ (h₂.rev_length dz hdz)
  · intro dz hdz v hv
    simp only [Lens.comp, List.take_left', List.drop_left', Function.comp] at hdz ⊢
    rw [h₁.rev_eq _ (h₂.rev_length dz hdz) v hv]
    rw [h₂.rev_eq dz hdz _ (hlen v hv), ← hmid v hv]

/-- parallel composition: if `L₁` is correct for `f₁` at `x₁` and `L₂` for `f₂` at `x₂`, their tensor
    (with the arities of `L₁` at `x₁`) is correct for `f₁ ⊗ f₂` at `x₁ ++ x₂`. -/
theorem tensor_lens_correct (L₁ L₂ : Lens R) (f₁ f₂ : List (Dual R) → List (Dual R)) (x₁ x₂ : List R)
    (h₁ : L₁.Correct f₁ x₁) (h₂ : L₂.Correct f₂ x₂) :
    (Lens.tensor x₁.length (L₁.fwd x₁).1.length (L₁.fwd x₁).2.length L₁ L₂).Correct
      (fun X => f₁ (X.take x₁.length) ++ f₂ (X.drop x₁.length)) (x₁ ++ x₂) := by
  have hsplit : ∀ v : List R, v.length = (x₁ ++ x₂).length →
      (v.take x₁.length).length = x₁.length ∧ (v.drop x₁.length).length = x₂.length ∧
      dualize (x₁ ++ x₂) v = dualize x₁ (v.take x₁.length) ++ dualize x₂ (v.drop x₁.length) := by
    intro v hv
    simp only [List.length_append] at hv
    have h1 : (v.take x₁.length).length = x₁.length := by simp; omega
    refine ⟨h1, by simp; omega, ?_⟩
    conv_lhs => rw [← List.take_append_drop x₁.length v]
    exact dualize_append _ _ _ _ h1
  have htake : ∀ v : List R, v.length = (x₁ ++ x₂).length →
      (dualize (x₁ ++ x₂) v).take x₁.length = dualize x₁ (v.take x₁.length) ∧
      (dualize (x₁ ++ x₂) v).drop x₁.length = dualize x₂ (v.drop x₁.length) := by
    intro v hv
    obtain ⟨h1, h2, h3⟩ := hsplit v hv
    have : (dualize x₁ (v.take x₁.length)).length = x₁.length := dualize_length _ _ h1
    rw [h3]
    constructor
    · rw [List.take_left' this]
    · rw [List.drop_left' this]
  constructor
  · intro v hv
    obtain ⟨h1, h2, -⟩ := hsplit v hv
    obtain ⟨t1, t2⟩ := htake v hv
    simp only [Lens.tensor, List.take_left', List.drop_left', List.map_append, t1, t2]
    rw [h₁.fwd_eq _ h1, h₂.fwd_eq _ h2]
  · intro dy hdy
    simp only [Lens.tensor, List.take_left', List.drop_left', List.length_append] at hdy ⊢
    rw [h₁.rev_length _ (by simp; omega), h₂.rev_length _ (by simp; omega)]
  · intro dy hdy v hv
    obtain ⟨h1, h2, -⟩ := hsplit v hv
    obtain ⟨t1, t2⟩ := htake v hv
    simp only [Lens.tensor, List.take_left', List.drop_left', List.length_append] at hdy ⊢
    have hd1 : (dy.take (L₁.fwd x₁).1.length).length = (L₁.fwd x₁).1.length := by simp; omega
    have hd2 : (dy.drop (L₁.fwd x₁).1.length).length = (L₂.fwd x₂).1.length := by simp; omega
    have e1 := h₁.rev_eq _ hd1 _ h1
    have e2 := h₂.rev_eq _ hd2 _ h2
    conv_lhs => rw [← List.take_append_drop x₁.length v]
    rw [dot_append _ _ _ _ (by rw [h₁.rev_length _ hd1, h1]), e1, e2, t1, t2, List.map_append]
    conv_rhs => rw [← List.take_append_drop (L₁.fwd x₁).1.length dy]
    rw [dot_append]
    rw [hd1, List.length_map, ← h₁.fwd_eq _ h1, List.length_map]

/-! ### a worked instance: `x ↦ x·x` as `copy ; mul` has reverse derivative `dz ↦ 2·x·dz` -/

example (x : R) : (Lens.comp 0 (copyLens : Lens R) mulLens).Correct (mulD ∘ copyD) [x] :=
  comp_lens_correct copyLens mulLens copyD mulD [x] (copy_lens_correct x) (mul_lens_correct x x)

example (x dz : R) :
    (Lens.comp 0 (copyLens : Lens R) mulLens).rev ((Lens.comp 0 (copyLens : Lens R) mulLens).fwd [x]).2 [dz]
      = [x * dz + x * dz] := by
  simp [Lens.comp, copyLens, mulLens]

/-- `(x, y) ↦ (x + y, x·y)` needs copies and a twist in general; the plain tensor
    `(a, b, c, d) ↦ (a + b, c·d)` is an instance of the parallel rule -/
example (a b c d : R) :
    (Lens.tensor 2 1 0 (addLens : Lens R) mulLens).Correct
      (fun X => addD (X.take 2) ++ mulD (X.drop 2)) [a, b, c, d] :=
  tensor_lens_correct addLens mulLens addD mulD [a, b] [c, d] (add_lens_correct a b) (mul_lens_correct c d)

/-! ## (3) machine arithmetic: `u64` with wrapping operations is a commutative ring -/

/-- the lens algebra holds verbatim over wrapping 64-bit words (`BitVec 64`, whose ring structure
    is wrapping add / mul / neg) and over `ℤ/2⁶⁴` -/
theorem mul_lens_correct_u64 (x y : BitVec 64) : (mulLens : Lens (BitVec 64)).Correct mulD [x, y] :=
  mul_lens_correct x y

theorem square_lens_correct_u64 (x : BitVec 64) :
    (Lens.comp 0 (copyLens : Lens (BitVec 64)) mulLens).Correct (mulD ∘ copyD) [x] :=
  comp_lens_correct copyLens mulLens copyD mulD [x] (copy_lens_correct x) (mul_lens_correct x x)

theorem mul_lens_correct_zmod (x y : ZMod (2 ^ 64)) :
    (mulLens : Lens (ZMod (2 ^ 64))).Correct mulD [x, y] :=
  mul_lens_correct x y

/-! ## Part 2: the object part of the strict optic interleaves `F(aᵢ)` and `R(aᵢ)` -/

section optic
variable {O1 A1 O2 A2 : Type} {α : Type}

theorem range_two_flatMap (n : Nat) (g : Nat → List α) :
    (List.range (n * 2)).flatMap g = (List.range n).flatMap (fun k => g (2 * k) ++ g (2 * k + 1)) := by
  induction n with
  | zero => simp
  | succ n ih =>
    have : (n + 1) * 2 = n * 2 + 1 + 1 := by omega
    rw [this, List.range_succ, List.range_succ, List.range_succ]
    simp only [List.flatMap_append, ih, List.flatMap_cons, List.flatMap_nil, List.append_nil,
      List.append_assoc]
    have e : n * 2 = 2 * n := by omega
    rw [e]

theorem zipWith_eq_range_map {β γ : Type} (f : α → β → γ) (A : List α) (B : List β) (da : α) (db : β)
    (n : Nat) (hA : A.length = n) (hB : B.length = n) :
    List.zipWith f A B = (List.range n).map (fun k => f (A.getD k da) (B.getD k db)) := by
  apply List.ext_getElem
  · simp [hA, hB]
  · intro i h1 h2
    simp only [List.length_zipWith, hA, hB, Nat.min_self] at h1
    simp [List.getD_eq_getElem?_getD, List.getElem?_eq_getElem (hA ▸ h1),
      List.getElem?_eq_getElem (hB ▸ h1)]

theorem sum_zipWith_add (A B : List Nat) (h : A.length = B.length) :
    (List.zipWith (· + ·) A B).sum = A.sum + B.sum := by
  induction A generalizing B with
  | nil => cases B <;> simp_all
  | cons a A ih =>
    cases B with
    | nil => simp at h
    | cons b B =>
      simp at h
      simp [ih B h]; omega

theorem zipWith_append_map_length (A B : List (List α)) :
    (List.zipWith (· ++ ·) A B).map List.length =
      List.zipWith (· + ·) (A.map List.length) (B.map List.length) := by
  induction A generalizing B with
  | nil => simp
  | cons a A ih => cases B with
    | nil => simp
    | cons b B => simp [ih B]

/-- the assertion of `Optic::map_object` -/
theorem optic_object_panics (P : SOptic O1 A1 O2 A2) (a : List O1) (fa ra : IC (List O2))
    (hf : P.fwd.mapObject a = .ok fa) (hr : P.rev.mapObject a = .ok ra) (hlen : fa.len ≠ ra.len) :
    P.mapObject a = .panic "optic.map_object:assert" := by
  simp [SOptic.mapObject, hf, hr, hlen]

/-- `Optic::map_object`: each object `aᵢ` is mapped to `F(aᵢ) ● R(aᵢ)` — the `i`-th segment of the
    result is the `i`-th segment of the forward image followed by the `i`-th segment of the reverse
    image; none of the five `unwrap`/`expect` sites and neither the `+` nor the `- 1` can fail. -/
theorem optic_object_spec (P : SOptic O1 A1 O2 A2) (a : List O1) (fa ra : IC (List O2))
    (hf : P.fwd.mapObject a = .ok fa) (hr : P.rev.mapObject a = .ok ra)
    (hfv : fa.valid = true) (hrv : ra.valid = true) (hlen : fa.len = ra.len) :
    ∃ c, P.mapObject a = .ok c ∧ c.valid = true ∧ c.len = fa.len ∧
      c.segsL = List.zipWith (· ++ ·) fa.segsL ra.segsL := by
  obtain ⟨hf1, hf2⟩ := (IC.valid_iff fa).1 hfv
  obtain ⟨hr1, hr2⟩ := (IC.valid_iff ra).1 hrv
  have hlen' : fa.sources.table.length = ra.sources.table.length := hlen
  -- the paired family `FA + RA`
  have hpair := IC.coproductL_eq fa ra hfv hrv
  obtain ⟨paired, hpaired⟩ : ∃ q : IC (List O2), q = ⟨⟨fa.sources.table ++ ra.sources.table,
      (fa.sources.table ++ ra.sources.table).sum + 1⟩, fa.values ++ ra.values⟩ := ⟨_, rfl⟩
  rw [← hpaired] at hpair
  have hpv : paired.valid = true := by
    rw [IC.valid_iff, hpaired]; simp; simp at hf2 hr2; omega
  have hpsegs : paired.segsL = fa.segsL ++ ra.segsL := by
    rw [hpaired]
    simp only [IC.segsL]
    rw [splitSegs_append _ _ _ _ (by simpa using hf2)]
  -- the transposition
  obtain ⟨p, hp, hpt, hpl, hpi, hpwf⟩ := C06.transpose_spec 2 fa.len
  have hptab : p.table = (List.range (fa.len * 2)).map (fun i => (i % 2) * fa.len + i / 2) := by
    apply List.ext_getElem?
    intro i
    by_cases hi : i < fa.len * 2
    · rw [hpi i hi]; simp [hi]
    · rw [List.getElem?_eq_none (by omega), List.getElem?_eq_none (by simp; omega)]
  have hplen : p.target = paired.len := by
    rw [hpt, hpaired]
    show fa.sources.table.length * 2 = (fa.sources.table ++ ra.sources.table).length
    rw [List.length_append, ← hlen']; omega
  have hvals := IC.indexedValuesL_eq paired p hpv hpwf hplen
  -- the interleaved value array
  have hval : p.table.flatMap (fun j => paired.segsL.getD j []) =
      (List.zipWith (· ++ ·) fa.segsL ra.segsL).flatten := by
    rw [hptab, List.flatMap_map, range_two_flatMap, hpsegs,
      zipWith_eq_range_map _ fa.segsL ra.segsL [] [] fa.len (IC.segsL_length fa)
        (by rw [IC.segsL_length, hlen]), List.flatten_eq_flatMap, List.flatMap_map]
    apply List.flatMap_congr
    intro k hk
    have hk' : k < fa.len := List.mem_range.1 hk
    have hA : fa.segsL.length = fa.len := IC.segsL_length fa
    have e1 : 2 * k % 2 * fa.len + 2 * k / 2 = k := by simp
    have e2 : (2 * k + 1) % 2 * fa.len + (2 * k + 1) / 2 = fa.len + k := by
      have : (2 * k + 1) % 2 = 1 := by omega
      have : (2 * k + 1) / 2 = k := by omega
      simp [*]
    simp only [id, e1, e2]
    congr 1
    · simp [List.getD_eq_getElem?_getD, List.getElem?_append_left (hA ▸ hk')]
    · simp [List.getD_eq_getElem?_getD, List.getElem?_append_right, hA]
  -- sizes
  have hst : Prim.add fa.sources.table ra.sources.table =
      .ok (List.zipWith (· + ·) fa.sources.table ra.sources.table) := by
    simp [Prim.add, hlen']
  have hsum := sum_zipWith_add _ _ hlen'
  have htgt : checkedSub (fa.sources.target + ra.sources.target) 1 "optic.map_object:underflow" =
      .ok ((List.zipWith (· + ·) fa.sources.table ra.sources.table).sum + 1) := by
    unfold checkedSub
    rw [if_pos (by omega)]
    congr 1; omega
  have hnew : FinFun.new (List.zipWith (· + ·) fa.sources.table ra.sources.table)
      ((List.zipWith (· + ·) fa.sources.table ra.sources.table).sum + 1) =
      .ok ⟨List.zipWith (· + ·) fa.sources.table ra.sources.table,
        (List.zipWith (· + ·) fa.sources.table ra.sources.table).sum + 1⟩ := by
    apply IC.finfun_new_ok
    intro x hx
    have := le_sum_of_mem' _ x hx
    omega
  have hmaplen : (List.zipWith (· ++ ·) fa.segsL ra.segsL).map List.length =
      List.zipWith (· + ·) fa.sources.table ra.sources.table := by
    rw [zipWith_append_map_length, IC.segsL_map_length fa hfv, IC.segsL_map_length ra hrv]
  obtain ⟨c, hc⟩ : ∃ c : IC (List O2), c =
      ⟨⟨List.zipWith (· + ·) fa.sources.table ra.sources.table,
      (List.zipWith (· + ·) fa.sources.table ra.sources.table).sum + 1⟩,
      (List.zipWith (· ++ ·) fa.segsL ra.segsL).flatten⟩ := ⟨_, rfl⟩
  have hcv : c.valid = true := by
    rw [IC.valid_iff, hc]
    refine ⟨rfl, ?_⟩
    simp only [IC.len_list, List.length_flatten, hmaplen]
  refine ⟨c, ?_, hcv, ?_, ?_⟩
  · unfold SOptic.mapObject
    rw [hf, hr]
    simp only [Res.ok_bind]
    rw [if_neg (by simpa using hlen)]
    simp only [hpair, Res.unwrap_ok, Res.ok_bind, hp, hst, htgt, hnew, hvals, hval]
    rw [hc] at hcv ⊢
    simp [IC.new, IC.validate, hcv]
  · rw [hc]; simp [IC.len, FinFun.source, hlen']
  · rw [hc]; exact IC.segsL_eq_of _ _ hmaplen.symm rfl

/-- hypotheses are satisfiable non-trivially: forward images of size 2, reverse images of size 1 -/
example :
    let P : SOptic Nat Nat Nat Nat :=
      ⟨⟨fun a => .ok (IC.ofSegsL (a.map fun o => [o, o + 10])), fun _ => .none⟩,
       ⟨fun a => .ok (IC.ofSegsL (a.map fun o => [o + 100])), fun _ => .none⟩, fun _ => .none⟩
    (P.mapObject [1, 2]).isOk = true ∧
    ((P.mapObject [1, 2]) >>= fun c => .ok c.segsL) = .ok [[1, 11, 101], [2, 12, 102]] := by
  decide

end optic

/-! ## the full derivative clause (NOT proved here)

  `rev_correct_statement` is the complete C14 claim about the executable optic: for a lax optic `P`
  whose generator images are correct lenses, and every monogamous acyclic term `f`, evaluating
  `adapt (optic f)` on `x ++ dy` yields `f(x) ++ g` with `g` the reverse derivative of `f` at `x`
  against `dy`.  Its proof needs (a) the functor-application-is-substitution theorem (C12, quotient
  library) and (b) the evaluator characterisation (C16); the semantic core — that correctness of
  lenses is closed under the two compositions — is `comp_lens_correct` / `tensor_lens_correct`. -/

/-- batch interpreter induced by a generator-wise interpretation -/
def applyOf {A T : Type} (opfn : A → List T → List T) : Graph.Apply A T :=
  fun labels inputs => IC.ofSegsL (List.zipWith opfn labels inputs.segsL)

/-- the function a strict diagram denotes under the model evaluator (`[]` when evaluation fails) -/
def evalOr {O A T : Type} (B : Backend) (f : OHG O A) (dflt : T) (opfn : A → List T → List T)
    (s : List T) : List T :=
  match Graph.eval B f dflt s (applyOf opfn) with
  | .ok r => r
  | _ => []

/-- every generator is sent to a correct lens: the forward image computes the output and the
    residual, the reverse image computes the reverse derivative from the residual and `dy` -/
def GeneratorsCorrect {O1 A1 O2 A2 : Type} [DecidableEq O2] (B : Backend) (P : LOptic O1 A1 O2 A2)
    (semD : A1 → List (Dual R) → List (Dual R)) (sem2 : A2 → List R → List R) : Prop :=
  ∀ (a : A1) (s t : List O1) (x dy : List R),
    x.length = (s.flatMap P.fwdObject).length → dy.length = (t.flatMap P.revObject).length →
    ∃ (Fa Ra : LOHG O2 A2) (sFa sRa : OHG O2 A2) (y m g : List R),
      P.fwdOperation a s t = .ok Fa ∧ LOHG.toStrict B Fa = .ok sFa ∧
      P.revOperation a s t = .ok Ra ∧ LOHG.toStrict B Ra = .ok sRa ∧
      Graph.eval B sFa (0 : R) x (applyOf sem2) = .ok (y ++ m) ∧
      y.length = (t.flatMap P.fwdObject).length ∧ m.length = (P.residual a).length ∧
      Graph.eval B sRa (0 : R) (m ++ dy) (applyOf sem2) = .ok g ∧ g.length = x.length ∧
      (∀ v : List R, v.length = x.length → (semD a (dualize x v)).map Dual.re = y) ∧
      IsRevDeriv (semD a) x dy g

/-- the full statement of C14 (unproved; see the comment above) -/
def rev_correct_statement : Prop :=
  ∀ (R : Type) [CommRing R] (O1 A1 O2 A2 : Type) [DecidableEq O1] [DecidableEq O2]
    (B : Backend), B.Lawful →
  ∀ (P : LOptic O1 A1 O2 A2) (semD : A1 → List (Dual R) → List (Dual R)) (sem2 : A2 → List R → List R),
    GeneratorsCorrect B P semD sem2 →
  ∀ (f : LOHG O1 A1) (sf : OHG O1 A1), f.wf = true → LOHG.toStrict B f = .ok sf →
    Acyclic sf.toPlain → Monogamous sf.toPlain →
  ∀ (a b : List O1), sf.source = .ok a → sf.target = .ok b →
  ∀ (x dy : List R), x.length = (a.flatMap P.fwdObject).length →
    dy.length = (b.flatMap P.revObject).length →
    ∃ (g : LOHG O2 A2) (sg : OHG O2 A2) (y gx : List R),
      LOptic.mapAdapted B P f = .ok g ∧ LOHG.toStrict B g = .ok sg ∧ Monogamous sg.toPlain ∧
      Graph.eval B sg (0 : R) (x ++ dy) (applyOf sem2) = .ok (y ++ gx) ∧
      (∀ v : List R, v.length = x.length →
        (evalOr B sf (0 : Dual R) semD (dualize x v)).map Dual.re = y) ∧
      gx.length = x.length ∧
      IsRevDeriv (evalOr B sf (0 : Dual R) semD) x dy gx

end OH.C14
