/-
  C14 — derivative clause.

  "When the forward and reverse generators are the standard reverse-derivative lenses of a
   polynomial-circuit theory, the adapted optic of any circuit is evaluable and on (x, dy) returns
   (f(x), J_f(x)ᵀ·dy): reverse-mode differentiation by optic composition obeys the chain rule."

  HEADLINE (all for EVERY lawful backend, every commutative ring, arbitrary wiring / edge order):
  * `rev_correct_corrected : rev_correct_corrected_statement` — the full clause about the
    EXECUTABLE optic (`LOptic.mapAdapted`, `Graph.eval`): for a lax optic whose generators have good
    reverse-derivative images (`GenCorrect`), the adapted optic of every monogamous acyclic circuit is
    defined (no `unwrap` fires), strictifies, is MONOGAMOUS, is evaluated by the model evaluator
    (acyclic, single writer, arities) and on `x ++ dy` returns `y ++ gx` with `y` the real part of
    the dual-number evaluation of the circuit (for every tangent) and `gx`, of the arity of `x`,
    its reverse derivative at `x` against `dy`.
  * `rev_correct_statement_false : ¬ rev_correct_statement` — the statement of `Props/C14.lean` is
    FALSE as written (an ill-typed reverse image passes its hypothesis, the optic construction
    panics), and `generatorsCorrect_degenerate`: its hypothesis `GeneratorsCorrect` quantifies over
    all source/target types of a generator and therefore forces every forward object image to be
    empty.  The corrected statement differs from it in exactly these points: `GenCorrect` is asked
    for the typed operations OF THE CIRCUIT only, every object carries one ring element, and the
    generator images are well-typed, monogamous, acyclic, without bare wires and arity-respecting.
  * `adapt_monogamous : adapt_monogamous_statement` — the clause left open in `Props/C14Optic.lean`.
  SEMANTIC LEVEL (no optic):
  * `twoPass_correct` / `twoPass_core`, `cotangent_exists_unique` — on a monogamous acyclic circuit
    with correct generator lenses the reverse pass exists, is unique, and computes `Jᵀ·dy`.
  SYNTACTIC LINK (no semantics):
  * `optic_mapOperations_sem`, `optic_adapt_sem`, `optic_circuit_sem`, `optic_lax_sem`,
    `opticOK_of_gens` — the optic image of a batch, of a circuit, and its adapted form, described
    for every hyperedge predicate `Φ` (valuations, rankings, arities, free labellings) by a forward
    and a reverse labelling of the circuit's nodes around the generator images.
  INSTANCE: `mul_genCorrect` and the `example`s after it (multiplication, non-empty residual).
  Helper library: `OHVerif/Lemmas/RevDeriv.lean`.
-/
import OHVerif.Lemmas.RevDeriv
import OHVerif.Props.C14Optic
import OHVerif.Props.C12Subst

namespace OH.C14
open OH OH.Graph OH.RevDeriv OH.Optic OH.SFunctor

section semantic
variable {R : Type} [CommRing R] {O A : Type}

/-! ## 1. the two-pass computation on a circuit (semantic level) -/

/-- the forward interpretation of the generators induced by their lenses -/
def fwdOf (lens : A → Lens R) (a : A) (x : List R) : List R := ((lens a).fwd x).1

/-- `adj` is a cotangent labelling of `d` for the primal labelling `val` and the output cotangent
    `dy`: it carries `dy` on the output interface, and at every hyperedge the cotangents of the
    sources are the reverse image (with the residual of the forward pass at that hyperedge) of the
    cotangents of the targets -/
structure IsCotangent (d : PDiag O A) (lens : A → Lens R) (val adj : Nat → R) (dy : List R) :
    Prop where
  outs : d.outs.map adj = dy
  ops : ∀ e ∈ d.edges, e.src.map adj =
    (lens e.label).rev ((lens e.label).fwd (e.src.map val)).2 (e.tgt.map adj)

/-- every hyperedge of `d` is interpreted by a correct reverse-derivative lens of the right
    output arity, at every point of the right input arity -/
def LensesCorrect (d : PDiag O A) (lens : A → Lens R) (semD : A → List (Dual R) → List (Dual R)) :
    Prop :=
  ∀ e ∈ d.edges, ∀ x : List R, x.length = e.src.length →
    (lens e.label).Correct (semD e.label) x ∧ ((lens e.label).fwd x).1.length = e.tgt.length

theorem applyOf_eq {T : Type} (opfn : A → List T → List T) : applyOf opfn = Eval.applyOf opfn := rfl

theorem arityOK_of_lenses (f : OHG O A) (lens : A → Lens R)
    (semD : A → List (Dual R) → List (Dual R)) (h : LensesCorrect f.toPlain lens semD) :
    C16.ArityOK f semD ∧ C16.ArityOK f (fwdOf lens) := by
  refine ⟨?_, ?_⟩
  · intro e he args hargs
    obtain ⟨hc, hl⟩ := h e he (args.map Dual.re) (by simpa using hargs)
    have := hc.fwd_eq (args.map Dual.eps) (by simp)
    rw [dualize_re_eps] at this
    rw [← hl, ← this, List.length_map]
  · intro e he args hargs
    exact (h e he args hargs).2

/-- **the two-pass computation is reverse-mode differentiation.**
    Let `f` be a well-formed monogamous acyclic circuit whose generators are interpreted over the
    dual numbers by `semD` and carry correct reverse-derivative lenses `lens`.  Let `val` be the
    valuation of the forward pass on the input `x` and `adj` ANY cotangent labelling for the output
    cotangent `dy`.  Then (every lawful backend):
    * the model evaluator returns `val` on the output interface;
    * the dual-number evaluation of `f` on `x + vε` has real part `val` on the output interface,
      whatever the tangent `v`;
    * `adj` on the input interface has the arity of `x` and is the reverse derivative of the
      function `f` denotes (under the model evaluator, over the dual numbers) at `x` against `dy`:
      `⟨adj|ins, v⟩ = ⟨dy, Df(x)·v⟩` for every tangent `v`. -/
theorem twoPass_correct (B : Backend) (hB : B.Lawful) (f : OHG O A) (hf : f.wf = true)
    (hac : Acyclic f.toPlain) (hm : Monogamous f.toPlain)
    (lens : A → Lens R) (semD : A → List (Dual R) → List (Dual R))
    (hl : LensesCorrect f.toPlain lens semD)
    (x dy : List R) (hx : x.length = f.s.table.length)
    (val adj : Nat → R) (hval : IsValuation f.toPlain (fwdOf lens) (0 : R) x val)
    (hadj : IsCotangent f.toPlain lens val adj dy) :
    eval B f (0 : R) x (applyOf (fwdOf lens)) = .ok (f.t.table.map val) ∧
    (∀ v : List R, v.length = x.length →
      (evalOr B f (0 : Dual R) semD (dualize x v)).map Dual.re = f.t.table.map val) ∧
    (f.s.table.map adj).length = x.length ∧
    IsRevDeriv (evalOr B f (0 : Dual R) semD) x dy (f.s.table.map adj) := by
  have hwf := Eval.toPlain_wf f hf
  have hopac := opAcyclic_of_acyclic f hf hac
  have hsw := monogamous_singleWriter hwf hm
  obtain ⟨harD, harR⟩ := arityOK_of_lenses f lens semD hl
  obtain ⟨_, _, hedges⟩ := Eval.pdiag_wf_unpack hwf
  -- the dual-number evaluation
  have key : ∀ v : List R, v.length = x.length →
      ∃ valD : Nat → Dual R, IsValuation f.toPlain semD (0 : Dual R) (dualize x v) valD ∧
        evalOr B f (0 : Dual R) semD (dualize x v) = f.t.table.map valD ∧
        ∀ u, u < f.toPlain.n → (valD u).re = val u := by
    intro v hv
    obtain ⟨outs, valD, hev, hvalD, houts⟩ := C16.eval_spec B hB f hf semD (0 : Dual R)
      (dualize x v) hopac hsw harD (by rw [dualize_length x v hv, hx])
    refine ⟨valD, hvalD, ?_, ?_⟩
    · unfold evalOr
      rw [applyOf_eq, hev, houts]
    · -- the real part of the dual valuation is a valuation of the forward pass
      have hre : IsValuation f.toPlain (fwdOf lens) (0 : R) x (fun u => (valD u).re) := by
        refine ⟨?_, ?_, ?_⟩
        · have := congrArg (List.map Dual.re) hvalD.ins
          rw [dualize_map_re x v hv, List.map_map] at this
          exact this
        · intro e he
          have h1 := congrArg (List.map Dual.re) (hvalD.ops e he)
          rw [List.map_map] at h1
          have h2 := (hl e he ((e.src.map valD).map Dual.re) (by simp)).1.fwd_eq
            ((e.src.map valD).map Dual.eps) (by simp)
          rw [dualize_re_eps] at h2
          rw [List.map_map] at h2
          exact h1.trans h2
        · intro u hu hni hnt
          rw [hvalD.rest u hu hni hnt]
          rfl
      intro u hu
      exact Eval.valuation_unique hwf (noCycle_of_acyclic hac) hre hval u hu
  refine ⟨?_, ?_, ?_, ?_⟩
  · rw [applyOf_eq]
    exact C16.eval_eq_of_valuation B hB f hf (fwdOf lens) (0 : R) x hopac hsw harR hx hval
  · intro v hv
    obtain ⟨valD, _, hev, hre⟩ := key v hv
    rw [hev, List.map_map]
    apply List.map_congr_left
    intro u hu
    obtain ⟨_, _, htw, _, htt⟩ := Eval.ohg_wf_unpack f hf
    exact hre u (show u < f.h.w.length from htt ▸ htw u hu)
  · rw [List.length_map, hx]
  · intro v hv
    obtain ⟨valD, hvalD, hev, hre⟩ := key v hv
    have hsrc : ∀ e ∈ f.toPlain.edges, e.src.map (fun u => (valD u).re) = e.src.map val :=
      fun e he => List.map_congr_left (fun u hu => hre u ((hedges e he).1 u hu))
    have hcons := revDeriv_of_labellings hwf hm semD valD adj hvalD.ops (by
      intro e he
      rw [hsrc e he, hadj.ops e he]
      obtain ⟨hc, hlen⟩ := hl e he (e.src.map val) (by simp)
      exact hc.rev_eq _ (by rw [hlen, List.length_map]))
    have hins : f.toPlain.ins.map (fun u => (valD u).eps) = v := by
      have := congrArg (List.map Dual.eps) hvalD.ins
      rw [dualize_map_eps x v hv, List.map_map] at this
      exact this
    rw [hins, hadj.outs] at hcons
    rw [hev, List.map_map]
    exact hcons

/-! ### the reverse pass exists and is unique: it is the evaluation of the reversed diagram -/

/-- the reversed diagram of the reverse pass: every hyperedge `a : S → T` becomes
    `(a, residual) : T → S`, the interfaces are exchanged -/
def revDiag (d : PDiag O A) (lens : A → Lens R) (val : Nat → R) : PDiag O (A × List R) :=
  ⟨d.nodes, d.edges.map (fun e =>
    ⟨(e.label, ((lens e.label).fwd (e.src.map val)).2), e.tgt, e.src⟩), d.outs, d.ins⟩

/-- interpretation of the reversed hyperedges: the reverse map of the lens at the residual -/
def revFn (lens : A → Lens R) (p : A × List R) (dz : List R) : List R := (lens p.1).rev p.2 dz

omit [CommRing R] in
theorem revDiag_wf {d : PDiag O A} (lens : A → Lens R) (val : Nat → R) (hwf : d.wf = true) :
    (revDiag d lens val).wf = true := by
  obtain ⟨h1, h2, h3⟩ := Eval.pdiag_wf_unpack hwf
  refine (PDiag.wf_iff _).2 ⟨h2, h1, ?_⟩
  intro e he
  obtain ⟨e0, he0, rfl⟩ := List.mem_map.1 he
  exact ⟨(h3 e0 he0).2, (h3 e0 he0).1⟩

omit [CommRing R] in
theorem revDiag_opDep {d : PDiag O A} (lens : A → Lens R) (val : Nat → R) {x y : Nat}
    (h : opDep (revDiag d lens val) x y) : opDep d y x := by
  obtain ⟨ex, ey, v, hx, hy, hv1, hv2⟩ := h
  simp only [revDiag, List.getElem?_map, Option.map_eq_some_iff] at hx hy
  obtain ⟨ex0, hx0, rfl⟩ := hx
  obtain ⟨ey0, hy0, rfl⟩ := hy
  exact ⟨ey0, ex0, v, hy0, hx0, hv2, hv1⟩

theorem isCotangent_of_valuation {d : PDiag O A} {lens : A → Lens R} {val adj : Nat → R}
    {dy : List R} (h : IsValuation (revDiag d lens val) (revFn lens) (0 : R) dy adj) :
    IsCotangent d lens val adj dy :=
  ⟨h.ins, fun e he => h.ops _ (List.mem_map.2 ⟨e, he, rfl⟩)⟩

theorem valuation_of_isCotangent {d : PDiag O A} {lens : A → Lens R} {val adj : Nat → R}
    {dy : List R} (hwf : d.wf = true) (hm : Monogamous d) (h : IsCotangent d lens val adj dy) :
    IsValuation (revDiag d lens val) (revFn lens) (0 : R) dy adj := by
  refine ⟨h.outs, ?_, ?_⟩
  · intro e he
    obtain ⟨e0, he0, rfl⟩ := List.mem_map.1 he
    exact h.ops e0 he0
  · intro v hv hni hnt
    exfalso
    have : v ∈ readers d := (monogamous_readers_perm hwf hm).mem_iff.2 (List.mem_range.2 hv)
    rcases List.mem_append.1 this with h1 | h1
    · exact hni h1
    · obtain ⟨e, he, hve⟩ := List.mem_flatMap.1 h1
      exact hnt _ (List.mem_map.2 ⟨e, he, rfl⟩) hve

/-- **the reverse pass is evaluable and deterministic**: on a well-formed monogamous acyclic
    circuit with correct lenses there is a cotangent labelling for every output cotangent of the
    right arity, and any two agree on every node -/
theorem cotangent_exists_unique (f : OHG O A) (hf : f.wf = true)
    (hac : Acyclic f.toPlain) (hm : Monogamous f.toPlain)
    (lens : A → Lens R) (semD : A → List (Dual R) → List (Dual R))
    (hl : LensesCorrect f.toPlain lens semD) (val : Nat → R)
    (dy : List R) (hdy : dy.length = f.t.table.length) :
    (∃ adj, IsCotangent f.toPlain lens val adj dy) ∧
    ∀ adj adj', IsCotangent f.toPlain lens val adj dy → IsCotangent f.toPlain lens val adj' dy →
      ∀ v, v < f.h.w.length → adj v = adj' v := by
  have hwf := Eval.toPlain_wf f hf
  have hwf' := revDiag_wf lens val hwf
  obtain ⟨lay, hlay⟩ := Eval.exists_lay_of_noCycle f.toPlain (noCycle_of_acyclic hac)
  obtain ⟨L, hL⟩ := exists_bound lay f.toPlain.edges.length
  have hdep : ∀ x y, opDep (revDiag f.toPlain lens val) x y → L - lay x < L - lay y := by
    intro x y hxy
    have h1 := revDiag_opDep lens val hxy
    have h2 := hlay y x h1
    have h3 := hL x (Eval.opDep_lt h1).2
    omega
  refine ⟨?_, ?_⟩
  · have hsw : SingleWriter (revDiag f.toPlain lens val) := by
      have := (monogamous_readers_perm hwf hm).nodup_iff.2 List.nodup_range
      unfold readers at this
      unfold SingleWriter revDiag
      simpa [List.flatMap_map] using this
    have har : Eval.Arity (revDiag f.toPlain lens val) (revFn lens) := by
      intro e he args hargs
      obtain ⟨e0, he0, rfl⟩ := List.mem_map.1 he
      obtain ⟨hc, hlen⟩ := hl e0 he0 (e0.src.map val) (by simp)
      have := hc.rev_length args (by rw [hlen]; exact hargs)
      simpa [revFn] using this
    obtain ⟨adj, hadj⟩ := exists_valuation_of_lay (revDiag f.toPlain lens val) (revFn lens) (0 : R)
      dy hwf' hsw har hdy (fun y => L - lay y) hdep
    exact ⟨adj, isCotangent_of_valuation hadj⟩
  · intro adj adj' h h' v hv
    exact Eval.valuation_unique_of_lay (fun y => L - lay y) hwf' hdep
      (valuation_of_isCotangent hwf hm h) (valuation_of_isCotangent hwf hm h') v hv

end semantic

variable {O1 A1 O2 A2 : Type}

/-! ## 2. the optic image of a batch of operations, semantically -/

theorem split_mid {α : Type} {b1 dB yB c2 : List α} {k : Nat} (h : b1 ++ dB = yB ++ c2)
    (h1 : b1.length = yB.length + k) (h2 : c2.length = k + dB.length) :
    ∃ M, M.length = k ∧ b1 = yB ++ M ∧ c2 = M ++ dB := by
  refine ⟨b1.drop yB.length, by simp [h1], ?_, ?_⟩
  · have := congrArg (List.take yB.length) h
    rw [List.take_append_of_le_length (by omega), List.take_left'  rfl] at this
    conv_lhs => rw [← List.take_append_drop yB.length b1]
    rw [this]
  · have := congrArg (List.drop yB.length) h
    rw [List.drop_append_of_le_length (by omega), List.drop_left' rfl] at this
    exact this.symm

section
variable [DecidableEq O2]

theorem optic_mapOperations_sem (B : Backend) (hB : B.Lawful) (P : SOptic O1 A1 O2 A2)
    (ops : Operations O1 A1) (h : OpticOK P ops) (nA nB : Nat)
    (ufa : h.fa.sources.table = List.replicate nA 1) (ura : h.ra.sources.table = List.replicate nA 1)
    (ufb : h.fb.sources.table = List.replicate nB 1) (urb : h.rb.sources.table = List.replicate nB 1) :
    ∃ fx c : OHG O2 A2, SOptic.mapOperations B P ops = .ok fx ∧
      HasType fx (interleave h.fa.segsL h.ra.segsL) (interleave h.fb.segsL h.rb.segsL) ∧
      fx.h.x = h.fwd.h.x ++ h.rev.h.x ∧
      HasType c (h.fa.values ++ h.rb.values) (h.fb.values ++ h.ra.values) ∧
      fx.toPlain ≅ ⟨c.toPlain.nodes, c.toPlain.edges,
        il2 (c.toPlain.ins.take nA) (c.toPlain.outs.drop nB),
        il2 (c.toPlain.outs.take nB) (c.toPlain.ins.drop nA)⟩ ∧
      (Monogamous h.fwd.toPlain → Monogamous h.rev.toPlain → Monogamous c.toPlain) ∧
      (∀ (T : Type) [Inhabited T] (Φ : A2 → List T → List T → Prop) (x dB yB gA : List T),
        x.length = nA → dB.length = nB → yB.length = nB → gA.length = nA →
        (Den Φ c.toPlain (x ++ dB) (yB ++ gA) ↔ ∃ M, M.length = h.m.values.length ∧
          Den Φ h.fwd.toPlain x
            (interleave (splitSegs ((groupSegs ops.b h.fb).map List.length) yB)
              (splitSegs h.m.sources.table M)) ∧
          Den Φ h.rev.toPlain
            (interleave (splitSegs h.m.sources.table M)
              (splitSegs ((groupSegs ops.b h.rb).map List.length) dB)) gA)) := by
  obtain ⟨la, va⟩ := unit_family h.fa nA h.fa_valid ufa
  obtain ⟨la', va'⟩ := unit_family h.ra nA h.ra_valid ura
  obtain ⟨lb, vb⟩ := unit_family h.fb nB h.fb_valid ufb
  obtain ⟨lb', vb'⟩ := unit_family h.rb nB h.rb_valid urb
  -- the regrouped object images
  obtain ⟨bfb, hbfb, bfbV, bfbValid, bfbLen, bfbSegs⟩ :=
    C08.flatmapSources_specL ops.b h.fb h.b_valid h.fb_valid h.len_fb.symm
  obtain ⟨brb, hbrb, brbV, brbValid, brbLen, brbSegs⟩ :=
    C08.flatmapSources_specL ops.b h.rb h.b_valid h.rb_valid h.len_rb.symm
  have sB : bfb.sources.table = (groupSegs ops.b h.fb).map List.length := by
    rw [← IC.segsL_map_length bfb bfbValid, bfbSegs]; rfl
  have sB' : brb.sources.table = (groupSegs ops.b h.rb).map List.length := by
    rw [← IC.segsL_map_length brb brbValid, brbSegs]; rfl
  -- the interleavings
  obtain ⟨fwdIl0, e1, t1, x1, p1, _, m1, d1⟩ := il_sem (A := A2) bfb h.m bfbValid h.m_valid
    (bfbLen.trans h.len_m.symm)
  obtain ⟨revCo, e2, t2, x2, p2, m2, _, d2⟩ := il_sem (A := A2) h.m brb h.m_valid brbValid
    (h.len_m.trans brbLen.symm)
  rw [bfbV, bfbSegs] at t1
  rw [brbV, brbSegs] at t2
  -- identities
  obtain ⟨iFb, e5, t5, x5, _, i5a, i5b, m5⟩ := identity_sem (A := A2) h.fb.values
  obtain ⟨iRb, e6, t6, x6, _, i6a, i6b, m6⟩ := identity_sem (A := A2) h.rb.values
  have tfwd : HasType h.fwd h.fa.values (interleave (groupSegs ops.b h.fb) h.m.segsL) :=
    ⟨h.fwd_wf, h.fwd_src, h.fwd_tgt⟩
  have trev : HasType h.rev (interleave h.m.segsL (groupSegs ops.b h.rb)) h.ra.values :=
    ⟨h.rev_wf, h.rev_src, h.rev_tgt⟩
  obtain ⟨l1, e7, t7, x7, _, d7, m7⟩ := compose_sem B hB tfwd t1.dagger
  obtain ⟨lhs, e8, t8, x8, _, d8, m8⟩ := tensor_sem t7 t6
  obtain ⟨r1, e9, t9, x9, _, d9, m9⟩ := compose_sem B hB t2 trev
  obtain ⟨rhs, e10, t10, x10, _, d10, m10⟩ := tensor_sem t5 t9
  rw [List.append_assoc] at t8
  obtain ⟨c, e11, t11, x11, _, d11, m11⟩ := compose_sem B hB t8 t10
  -- bending
  obtain ⟨d, e12, td, dh, ds, dt⟩ := partialDagger_typed c h.fa h.fb h.ra h.rb _ _ _ _ t11 rfl rfl
    rfl rfl
  obtain ⟨il0, rhs2, e, fx, e3, e4, e13, e14, tfx, xfx, ifx⟩ := il_bend B hB h.fa h.ra h.fb h.rb
    h.fa_valid h.ra_valid h.fb_valid h.rb_valid nA nB ufa ura ufb urb d td
  refine ⟨fx, c, ?_, tfx, ?_, t11, ?_, ?_, ?_⟩
  · unfold SOptic.mapOperations
    simp only [h.fwd_eq, h.rev_eq, h.fa_eq, h.fb_eq, h.ra_eq, h.rb_eq, h.m_eq, hbfb, hbrb, e1, e2,
      e3, e4, e5, e6, e7, e8, e9, e10, e11, e12, e13, e14, Res.ok_bind, Res.unwrap_ok]
  · rw [xfx, dh, x11, x8, x10, x7, x9, x5, x6, x2]
    show ((h.fwd.h.x ++ fwdIl0.h.x) ++ []) ++ ([] ++ ([] ++ h.rev.h.x)) = _
    rw [x1]; simp
  · have hd : d.toPlain = ⟨c.toPlain.nodes, c.toPlain.edges,
        c.toPlain.ins.take nA ++ c.toPlain.outs.drop nB,
        c.toPlain.outs.take nB ++ c.toPlain.ins.drop nA⟩ := by
      show (⟨d.h.w, d.h.toPlainEdges, d.s.table, d.t.table⟩ : PDiag O2 A2) = _
      rw [dh, ds, dt, va, vb]; rfl
    rw [hd] at ifx
    have li : c.toPlain.ins.length = nA + nB := by
      rw [C03.plain_ins_length ((OHG.wf_iff c).2 t11.1) t11.2.1]; simp [va, vb']
    have lo : c.toPlain.outs.length = nB + nA := by
      rw [C03.plain_outs_length ((OHG.wf_iff c).2 t11.1) t11.2.2]; simp [vb, va']
    have e1 : (c.toPlain.ins.take nA ++ c.toPlain.outs.drop nB).take nA = c.toPlain.ins.take nA := by
      rw [List.take_left' (by rw [List.length_take]; omega)]
    have e2 : (c.toPlain.ins.take nA ++ c.toPlain.outs.drop nB).drop nA = c.toPlain.outs.drop nB := by
      rw [List.drop_left' (by rw [List.length_take]; omega)]
    have e3 : (c.toPlain.outs.take nB ++ c.toPlain.ins.drop nA).take nB = c.toPlain.outs.take nB := by
      rw [List.take_left' (by rw [List.length_take]; omega)]
    have e4 : (c.toPlain.outs.take nB ++ c.toPlain.ins.drop nA).drop nB = c.toPlain.ins.drop nA := by
      rw [List.drop_left' (by rw [List.length_take]; omega)]
    simp only [e1, e2, e3, e4] at ifx
    exact ifx
  · intro mf mr
    exact m11 (m8 (m7 mf m1) m6) (m10 m5 (m9 m2 mr))
  · intro T _ Φ x dB yB gA hx hdB hyB hgA
    have wfwd : h.fwd.wf = true := (OHG.wf_iff _).2 h.fwd_wf
    have wiFb : iFb.wf = true := (OHG.wf_iff _).2 t5.1
    have bv : bfb.values.length = nB := by rw [bfbV]; exact vb
    have brv : brb.values.length = nB := by rw [brbV]; exact vb'
    have sumB : bfb.sources.table.sum = yB.length := by
      have := ((IC.valid_iff bfb).1 bfbValid).2
      simp only [IC.len_list] at this
      rw [this, bv, hyB]
    have sumM : ∀ M : List T, M.length = h.m.values.length → h.m.sources.table.sum = M.length := by
      intro M hM
      have := ((IC.valid_iff h.m).1 h.m_valid).2
      simp only [IC.len_list] at this
      rw [this, hM]
    have lenM : h.m.sources.table.length = bfb.len := (bfbLen.trans h.len_m.symm).symm
    have lenB' : brb.sources.table.length = h.m.len := (h.len_m.trans brbLen.symm).symm
    have g1 : ∀ M : List T, M.length = h.m.values.length →
        Prim.gatherP (yB ++ M) (ilTable (bfb.sources.table ++ h.m.sources.table) bfb.len) =
        interleave (splitSegs ((groupSegs ops.b h.fb).map List.length) yB)
          (splitSegs h.m.sources.table M) := by
      intro M hM
      rw [← sB]
      exact gatherP_ilTable _ _ _ _ _ rfl lenM sumB
    have g2 : ∀ M : List T, M.length = h.m.values.length →
        Prim.gatherP (M ++ dB) (ilTable (h.m.sources.table ++ brb.sources.table) h.m.len) =
        interleave (splitSegs h.m.sources.table M)
          (splitSegs ((groupSegs ops.b h.rb).map List.length) dB) := by
      intro M hM
      rw [← sB']
      exact gatherP_ilTable _ _ _ _ _ rfl lenB' (sumM M hM)
    constructor
    · intro hc
      obtain ⟨mid, hl, hr⟩ := (d11 T Φ _ _).1 hc
      obtain ⟨a1, a2, b1, b2, hu, hmid, hl1, hid⟩ := (d8 T Φ _ _).1 hl
      obtain ⟨z, hfz, hz⟩ := (d7 T Φ _ _).1 hl1
      obtain ⟨hb1, hzg⟩ := ((d1 T Φ b1 z).2).1 hz
      have ha1 : a1.length = nA := by
        rw [(den_length hfz).1, C03.plain_ins_length wfwd h.fwd_src, va]
      obtain ⟨rfl, rfl⟩ := List.append_inj hu (by rw [hx, ha1])
      have := i6a T Φ _ _ hid
      subst this
      obtain ⟨c1, c2, d1', d2', hmid2, hw, hiF, hr1⟩ := (d10 T Φ _ _).1 hr
      have := i5a T Φ _ _ hiF
      subst this
      obtain ⟨z', hco, hrev⟩ := (d9 T Φ _ _).1 hr1
      obtain ⟨hc2, hzg'⟩ := ((d2 T Φ c2 z').1).1 hco
      have hc1 : c1.length = nB := by
        rw [(den_length hiF).1, C03.plain_ins_length wiFb t5.2.1, vb]
      obtain ⟨rfl, rfl⟩ := List.append_inj hw (by rw [hyB, hc1])
      rw [hmid] at hmid2
      obtain ⟨M, hM, rfl, rfl⟩ := split_mid (k := h.m.values.length) hmid2
        (by rw [hb1, List.length_append, bv, hyB])
        (by rw [hc2, List.length_append, brv, hdB])
      refine ⟨M, hM, ?_, ?_⟩
      · rw [← g1 M hM, ← hzg]; exact hfz
      · rw [← g2 M hM, ← hzg']; exact hrev
    · rintro ⟨M, hM, hf, hr⟩
      refine (d11 T Φ _ _).2 ⟨(yB ++ M) ++ dB, ?_, ?_⟩
      · refine (d8 T Φ _ _).2 ⟨x, dB, yB ++ M, dB, rfl, rfl, ?_, ?_⟩
        · refine (d7 T Φ _ _).2 ⟨_, hf, ?_⟩
          refine ((d1 T Φ (yB ++ M) _).2).2 ⟨?_, (g1 M hM).symm⟩
          rw [List.length_append, List.length_append, bv, hyB, hM]
        · exact i6b T Φ dB (by rw [hdB, vb'])
      · rw [List.append_assoc]
        refine (d10 T Φ _ _).2 ⟨yB, M ++ dB, yB, gA, rfl, rfl, ?_, ?_⟩
        · exact i5b T Φ yB (by rw [hyB, vb])
        · refine (d9 T Φ _ _).2 ⟨_, ?_, hr⟩
          refine ((d2 T Φ (M ++ dB) _).1).2 ⟨?_, (g2 M hM).symm⟩
          rw [List.length_append, List.length_append, brv, hdB, hM]

end

/-! ## 3. the optic image of a circuit and its adapted form -/

/-- both component functors of the strict optic send every object to ONE object: the forward
    functor `o ↦ fo o`, the reverse functor `o ↦ ro o` -/
structure UnitObj (sp : SOptic O1 A1 O2 A2) (fo ro : O1 → O2) : Prop where
  fwd : ∀ l : List O1, ∃ c, sp.fwd.mapObject l = .ok c ∧ C08.Valid c ∧ c.segsL = l.map (fun o => [fo o])
  rev : ∀ l : List O1, ∃ c, sp.rev.mapObject l = .ok c ∧ C08.Valid c ∧ c.segsL = l.map (fun o => [ro o])

theorem unit_of_segsL {α β : Type} (c : IC (List β)) (l : List α) (g : α → β) (hc : C08.Valid c)
    (hs : c.segsL = l.map (fun o => [g o])) :
    c.sources.table = List.replicate l.length 1 ∧ c.values = l.map g := by
  constructor
  · rw [← IC.segsL_map_length c hc, hs, List.map_map]
    apply List.ext_getElem <;> simp
  · rw [← IC.segsL_flatten c hc, hs]
    exact C12.flatten_map_singleton g l

theorem il2_eq_flatMap {α β : Type} (l : List α) (f g : α → β) :
    il2 (l.map f) (l.map g) = l.flatMap (fun o => [f o, g o]) := by
  induction l with
  | nil => rfl
  | cons x l ih => simp [il2, ih]

theorem interleave_units {α β : Type} (l : List α) (f g : α → β) :
    interleave (l.map (fun o => [f o])) (l.map (fun o => [g o])) =
      l.flatMap (fun o => [f o, g o]) := by
  have e1 : l.map (fun o => [f o]) = (l.map f).map (fun x => [x]) := by
    rw [List.map_map]; rfl
  have e2 : l.map (fun o => [g o]) = (l.map g).map (fun x => [x]) := by
    rw [List.map_map]; rfl
  rw [e1, e2, interleave_singletons, il2_eq_flatMap]

theorem interleave_units_length {α β : Type} (l : List α) (f g : α → β) :
    (interleave (l.map (fun o => [f o])) (l.map (fun o => [g o]))).length = 2 * l.length := by
  rw [interleave_units, ← il2_eq_flatMap, il2_length _ _ (by simp), List.length_map]

theorem zipWith_singletons {α β : Type} (l : List α) (f g : α → β) :
    List.zipWith (· ++ ·) (l.map (fun o => [f o])) (l.map (fun o => [g o])) =
      l.map (fun o => [f o, g o]) := by
  induction l with
  | nil => rfl
  | cons x l ih => simp [ih]

theorem sum_replicate_two (j : Nat) : (List.replicate j 2).sum = 2 * j := by
  induction j with
  | zero => rfl
  | succ j ih => rw [List.replicate_succ, List.sum_cons, ih]; omega

/-- with two-element blocks, the expansion of a list of node indices doubles it -/
theorem expand_pairs (fw : IC (List O2)) (n : Nat) (hv : fw.valid = true)
    (h2 : fw.sources.table = List.replicate n 2) (ids : List Nat) (hid : ∀ i ∈ ids, i < n) :
    C12.expand fw ids = dbl ids := by
  rw [Subst.expand_eq fw hv, dbl_eq_flatMap]
  apply List.flatMap_congr
  intro j hj
  have hjn := hid j hj
  unfold Subst.blockS
  have e1 : ((List.replicate n 2).take j).sum = 2 * j := by
    rw [List.take_replicate, Nat.min_eq_left (Nat.le_of_lt hjn)]
    exact sum_replicate_two j
  have e2 : (List.replicate n 2).getD j 0 = 2 := by
    simp [List.getD_eq_getElem?_getD, hjn]
  rw [h2, e1, e2]
  rfl

section
variable [DecidableEq O2]

omit [DecidableEq O2] in
/-- the optic's own object map on a list `l`: the segments `[fo o, ro o]` -/
theorem optic_unit_object (sp : SOptic O1 A1 O2 A2) (fo ro : O1 → O2) (hU : UnitObj sp fo ro)
    (l : List O1) :
    ∃ cF cR c, sp.fwd.mapObject l = .ok cF ∧ sp.rev.mapObject l = .ok cR ∧
      sp.mapObject l = .ok c ∧ C08.Valid cF ∧ C08.Valid cR ∧ C08.Valid c ∧
      cF.segsL = l.map (fun o => [fo o]) ∧ cR.segsL = l.map (fun o => [ro o]) ∧
      c.segsL = l.map (fun o => [fo o, ro o]) ∧
      cF.sources.table = List.replicate l.length 1 ∧ cR.sources.table = List.replicate l.length 1 ∧
      cF.values = l.map fo ∧ cR.values = l.map ro := by
  obtain ⟨cF, hF, vF, sF⟩ := hU.fwd l
  obtain ⟨cR, hR, vR, sR⟩ := hU.rev l
  obtain ⟨uF, wF⟩ := unit_of_segsL cF l fo vF sF
  obtain ⟨uR, wR⟩ := unit_of_segsL cR l ro vR sR
  have hlen : cF.len = cR.len := by
    show cF.sources.table.length = cR.sources.table.length
    rw [uF, uR]
  obtain ⟨c, hc, vc, _, sc⟩ := optic_object_spec sp l cF cR hF hR vF vR hlen
  refine ⟨cF, cR, c, hF, hR, hc, vF, vR, vc, sF, sR, ?_, uF, uR, wF, wR⟩
  rw [sc, sF, sR, zipWith_singletons]

theorem optic_adapt_sem (B : Backend) (hB : B.Lawful) (sp : SOptic O1 A1 O2 A2) (fo ro : O1 → O2)
    (hU : UnitObj sp fo ro) (sf : OHG O1 A1) (hf : sf.WF) (h : OpticOK sp (C12.opsOf sf)) :
    ∃ (fx ot r : OHG O2 A2) (a b : List O1) (W : List O2),
      SOptic.mapOperations B sp (C12.opsOf sf) = .ok fx ∧
      sf.source = .ok a ∧ sf.target = .ok b ∧
      SFunctor.mapArrow B (sp.toFunctor B) sf = .ok ot ∧ sp.adapt B ot a b = .ok r ∧
      HasType r (a.map fo ++ b.map ro) (b.map fo ++ a.map ro) ∧
      r.h.x = fx.h.x ∧ ot.wf = true ∧
      W.length = 2 * sf.h.w.length ∧
      IsQuot (Subst.substP W (dbl sf.s.table) (dbl sf.t.table) fx.toPlain)
        (Subst.substR W (dbl sf.h.s.values.table) (dbl sf.h.t.values.table) fx.toPlain)
        ot.toPlain ∧
      r.toPlain ≅ unbend ot.toPlain := by
  -- unit families of the batch
  obtain ⟨cF, cR, _, hF, hR, _, _, _, _, _, _, _, uF, uR, wF, wR⟩ :=
    optic_unit_object sp fo ro hU (C12.opsOf sf).a.values
  obtain ⟨cF', cR', _, hF', hR', _, _, _, _, _, _, _, uF', uR', wF', wR'⟩ :=
    optic_unit_object sp fo ro hU (C12.opsOf sf).b.values
  have e1 : cF = h.fa := by have := h.fa_eq; rw [hF] at this; exact Res.ok.inj this
  have e2 : cR = h.ra := by have := h.ra_eq; rw [hR] at this; exact Res.ok.inj this
  have e3 : cF' = h.fb := by have := h.fb_eq; rw [hF'] at this; exact Res.ok.inj this
  have e4 : cR' = h.rb := by have := h.rb_eq; rw [hR'] at this; exact Res.ok.inj this
  subst e1 e2 e3 e4
  obtain ⟨fx, c, hfx, tfx, xfx, _, _, _, _⟩ := optic_mapOperations_sem B hB sp (C12.opsOf sf) h
    _ _ uF uR uF' uR'
  -- the object image of the nodes
  obtain ⟨fwF, fwR, fw, _, _, hfw, _, _, vfw, sfwF, sfwR, sfw, _, _, _, _⟩ :=
    optic_unit_object sp fo ro hU sf.h.w
  have hobjlen : ∀ l : List O1, (l.map (fun o => [fo o, ro o])).map List.length =
      List.replicate l.length 2 := by
    intro l; apply List.ext_getElem <;> simp
  have hfw2 : fw.sources.table = List.replicate sf.h.w.length 2 := by
    rw [← IC.segsL_map_length fw vfw, sfw, hobjlen]
  have hfwv : fw.values = sf.h.w.flatMap (fun o => [fo o, ro o]) := by
    rw [← IC.segsL_flatten fw vfw, sfw, List.flatten_eq_flatMap, List.flatMap_map]; rfl
  have hWlen : fw.values.length = 2 * sf.h.w.length := by
    have := ((IC.valid_iff fw).1 vfw).2
    simp only [IC.len_list] at this
    rw [← this, hfw2, sum_replicate_two]
  -- the functor data
  have hsrcfx : fx.source = .ok ((C12.opsOf sf).a.values.flatMap (fun o => [fo o, ro o])) := by
    rw [tfx.2.1]
    obtain ⟨_, _, _, hF2, hR2, _, _, _, _, s1, s2, _⟩ :=
      optic_unit_object sp fo ro hU (C12.opsOf sf).a.values
    rw [h.fa_eq] at hF2; rw [h.ra_eq] at hR2
    cases hF2; cases hR2
    rw [s1, s2, interleave_units]
  have htgtfx : fx.target = .ok ((C12.opsOf sf).b.values.flatMap (fun o => [fo o, ro o])) := by
    rw [tfx.2.2]
    obtain ⟨_, _, _, hF2, hR2, _, _, _, _, s1, s2, _⟩ :=
      optic_unit_object sp fo ro hU (C12.opsOf sf).b.values
    rw [h.fb_eq] at hF2; rw [h.rb_eq] at hR2
    cases hF2; cases hR2
    rw [s1, s2, interleave_units]
  obtain ⟨hFOK, hexp⟩ := C12.functorOK_of_objHom (sp.toFunctor B) (fun o => [fo o, ro o]) sf hf fw fx
    hfw vfw sfw ⟨hfx, tfx.1, hsrcfx, htgtfx⟩
  obtain ⟨ot, hot, wot, sot, tot, qot⟩ := C12.mapArrow_subst B hB (sp.toFunctor B) sf fw fx hf hFOK
  -- boundary types
  have hsa := OHG.source_eq sf hf.src_wf hf.src_nodes
  have hsb := OHG.target_eq sf hf.tgt_wf hf.tgt_nodes
  obtain ⟨fa', ra', _, hfa', hra', _, vfa', vra', _, sfa', sra', _, ufa', ura', wfa', wra'⟩ :=
    optic_unit_object sp fo ro hU (Prim.gatherP sf.h.w sf.s.table)
  obtain ⟨fb', rb', _, hfb', hrb', _, vfb', vrb', _, sfb', srb', _, ufb', urb', wfb', wrb'⟩ :=
    optic_unit_object sp fo ro hU (Prim.gatherP sf.h.w sf.t.table)
  have tyot : HasType ot (interleave fa'.segsL ra'.segsL) (interleave fb'.segsL rb'.segsL) := by
    refine ⟨(OHG.wf_iff ot).1 wot, ?_, ?_⟩
    · rw [sot, hexp _ hf.src_lt, sfa', sra', interleave_units]
    · rw [tot, hexp _ hf.tgt_lt, sfb', srb', interleave_units]
  obtain ⟨lhs, r0, d1, d, el, er0, ed1, ed, td, xd, id⟩ := il_unbend B hB fa' ra' fb' rb' vfa' vra'
    vfb' vrb' _ _ ufa' ura' ufb' urb' ot tyot
  obtain ⟨r, er, tr, rh, rs, rt⟩ := partialDagger_typed d fa' fb' rb' ra' _ _ _ _ td rfl rfl rfl rfl
  have la : (Prim.gatherP sf.h.w sf.s.table).length = sf.s.table.length :=
    Prim.gatherP_length _ _ hf.src_lt
  have lb : (Prim.gatherP sf.h.w sf.t.table).length = sf.t.table.length :=
    Prim.gatherP_length _ _ hf.tgt_lt
  have nfa : fa'.values.length = sf.s.table.length := by rw [wfa', List.length_map, la]
  have nfb : fb'.values.length = sf.t.table.length := by rw [wfb', List.length_map, lb]
  refine ⟨fx, ot, r, _, _, fw.values, hfx, hsa, hsb, hot, ?_, ?_, ?_, wot, hWlen, ?_, ?_⟩
  · unfold SOptic.adapt
    simp only [hfa', hfb', hra', hrb', el, er0, ed1, ed, Res.ok_bind, Res.unwrap_ok]
    exact er
  · rw [← wfa', ← wrb', ← wfb', ← wra']; exact tr
  · rw [show r.h.x = d.h.x from by rw [rh], xd]
    obtain ⟨ot', hot', _, _, _, hx', _⟩ := C12.mapArrow_spec B hB (sp.toFunctor B) sf fw fx hf hFOK
    rw [hot] at hot'
    cases hot'
    exact hx'
  · rw [C12.substPre_eq, C12.substRel_eq] at qot
    rw [expand_pairs fw _ vfw hfw2 _ hf.src_lt, expand_pairs fw _ vfw hfw2 _ hf.tgt_lt,
      expand_pairs fw _ vfw hfw2 _ hf.hyper.src_lt, expand_pairs fw _ vfw hfw2 _ hf.hyper.tgt_lt]
      at qot
    exact qot
  · have hr : r.toPlain = pdPlain sf.s.table.length sf.t.table.length d.toPlain := by
      show (⟨r.h.w, r.h.toPlainEdges, r.s.table, r.t.table⟩ : PDiag O2 A2) = _
      rw [rh, rs, rt, nfa, nfb]; rfl
    rw [hr]
    refine C03.iso_of_eq_right (iso_pdPlain _ _ id) ?_
    have li : ot.toPlain.ins.length = 2 * sf.s.table.length := by
      rw [C03.plain_ins_length wot tyot.2.1, sfa', sra', interleave_units_length, la]
    have lo : ot.toPlain.outs.length = 2 * sf.t.table.length := by
      rw [C03.plain_outs_length wot tyot.2.2, sfb', srb', interleave_units_length, lb]
    have e1 := evens_length _ _ li
    have e2 := evens_length _ _ lo
    show (⟨_, _, (evens ot.toPlain.ins ++ odds ot.toPlain.ins).take _ ++
      (evens ot.toPlain.outs ++ odds ot.toPlain.outs).drop _,
      (evens ot.toPlain.outs ++ odds ot.toPlain.outs).take _ ++
      (evens ot.toPlain.ins ++ odds ot.toPlain.ins).drop _⟩ : PDiag O2 A2) = unbend ot.toPlain
    rw [List.take_left' e1, List.drop_left' e2, List.take_left' e2, List.drop_left' e1]
    rfl

end

/-! ## 4. the adapted optic image of a circuit: semantics and monogamy -/

theorem flat_srcs (sf : OHG O1 A1) (hf : sf.wf = true) :
    sf.toPlain.edges.flatMap (·.src) = sf.h.s.values.table ∧
    sf.toPlain.edges.flatMap (·.tgt) = sf.h.t.values.table := by
  have hw := (OHG.wf_iff_Wf sf).1 hf
  constructor
  · show sf.h.toPlainEdges.flatMap (·.src) = _
    rw [List.flatMap_def, HG.toPlainEdges_map_src sf.h hw.h, IC.segs_flatten _ hw.h.s.valid]
  · show sf.h.toPlainEdges.flatMap (·.tgt) = _
    rw [List.flatMap_def, HG.toPlainEdges_map_tgt sf.h hw.h, IC.segs_flatten _ hw.h.t.valid]

section
variable [DecidableEq O2]

/-- **the adapted optic image of a circuit.**  For a strict optic with unit object images and a
    well-typed batch image (`OpticOK`): the optic functor applied to `sf` and `adapt` are defined;
    the result `r` has type `F a ● R b → F b ● R a` and the hyperedges of the forward image followed
    by those of the reverse image; its denotation is given by a forward and a reverse labelling of
    the nodes of `sf` around the lens composite `c : F A ● R B → F B ● R A` of the batch, which in
    turn is the forward image glued to the reverse image along the residuals; `r` is monogamous
    as soon as `sf` and `c` are and the interface positions of `c` are distinct nodes. -/
theorem optic_circuit_sem (B : Backend) (hB : B.Lawful) (sp : SOptic O1 A1 O2 A2) (fo ro : O1 → O2)
    (hU : UnitObj sp fo ro) (sf : OHG O1 A1) (hf : sf.WF) (h : OpticOK sp (C12.opsOf sf)) :
    ∃ (c ot r : OHG O2 A2) (a b : List O1),
      sf.source = .ok a ∧ sf.target = .ok b ∧
      SFunctor.mapArrow B (sp.toFunctor B) sf = .ok ot ∧ sp.adapt B ot a b = .ok r ∧
      HasType r (a.map fo ++ b.map ro) (b.map fo ++ a.map ro) ∧
      r.h.x = h.fwd.h.x ++ h.rev.h.x ∧
      HasType c (h.fa.values ++ h.rb.values) (h.fb.values ++ h.ra.values) ∧
      (Monogamous h.fwd.toPlain → Monogamous h.rev.toPlain → Monogamous c.toPlain) ∧
      (∀ (T : Type) [Inhabited T] (Φ : A2 → List T → List T → Prop) (x dB yB gA : List T),
        x.length = sf.h.s.values.table.length → dB.length = sf.h.t.values.table.length →
        yB.length = sf.h.t.values.table.length → gA.length = sf.h.s.values.table.length →
        (Den Φ c.toPlain (x ++ dB) (yB ++ gA) ↔ ∃ M, M.length = h.m.values.length ∧
          Den Φ h.fwd.toPlain x
            (interleave (splitSegs ((groupSegs (C12.opsOf sf).b h.fb).map List.length) yB)
              (splitSegs h.m.sources.table M)) ∧
          Den Φ h.rev.toPlain
            (interleave (splitSegs h.m.sources.table M)
              (splitSegs ((groupSegs (C12.opsOf sf).b h.rb).map List.length) dB)) gA)) ∧
      (∀ (T : Type) [Inhabited T] (Φ : A2 → List T → List T → Prop) (xa db yb ga : List T),
        xa.length = sf.s.table.length → ga.length = sf.s.table.length →
        yb.length = sf.t.table.length → db.length = sf.t.table.length →
        (Den Φ r.toPlain (xa ++ db) (yb ++ ga) ↔ ∃ fv rv : Nat → T,
          sf.s.table.map fv = xa ∧ sf.t.table.map rv = db ∧ sf.t.table.map fv = yb ∧
          sf.s.table.map rv = ga ∧
          Den Φ c.toPlain
            (sf.h.s.values.table.map fv ++ sf.h.t.values.table.map rv)
            (sf.h.t.values.table.map fv ++ sf.h.s.values.table.map rv))) ∧
      (Monogamous sf.toPlain → Monogamous c.toPlain →
        (c.toPlain.ins ++ c.toPlain.outs).Nodup → Monogamous r.toPlain) := by
  have hfwf : sf.wf = true := (OHG.wf_iff sf).2 hf
  obtain ⟨fx, ot, r, a, b, W, hfx, hsa, hsb, hot, hr, tr, xr, wot, hW, qot, ir⟩ :=
    optic_adapt_sem B hB sp fo ro hU sf hf h
  -- unit families of the batch
  obtain ⟨cF, cR, _, hF, hR, _, _, _, _, _, _, _, uF, uR, wF, wR⟩ :=
    optic_unit_object sp fo ro hU (C12.opsOf sf).a.values
  obtain ⟨cF', cR', _, hF', hR', _, _, _, _, _, _, _, uF', uR', wF', wR'⟩ :=
    optic_unit_object sp fo ro hU (C12.opsOf sf).b.values
  have e1 : cF = h.fa := by have := h.fa_eq; rw [hF] at this; exact Res.ok.inj this
  have e2 : cR = h.ra := by have := h.ra_eq; rw [hR] at this; exact Res.ok.inj this
  have e3 : cF' = h.fb := by have := h.fb_eq; rw [hF'] at this; exact Res.ok.inj this
  have e4 : cR' = h.rb := by have := h.rb_eq; rw [hR'] at this; exact Res.ok.inj this
  subst e1 e2 e3 e4
  have nA : (C12.opsOf sf).a.values.length = sf.h.s.values.table.length :=
    Prim.gatherP_length _ _ hf.hyper.src_lt
  have nB : (C12.opsOf sf).b.values.length = sf.h.t.values.table.length :=
    Prim.gatherP_length _ _ hf.hyper.tgt_lt
  rw [nA] at uF uR
  rw [nB] at uF' uR'
  obtain ⟨fx', c, hfx', tfx, xfx, tc, ifx, mc, dc⟩ := optic_mapOperations_sem B hB sp
    (C12.opsOf sf) h _ _ uF uR uF' uR'
  rw [hfx] at hfx'
  cases hfx'
  have wc : c.wf = true := (OHG.wf_iff c).2 tc.1
  have wfx : fx.wf = true := (OHG.wf_iff fx).2 tfx.1
  have wr : r.wf = true := (OHG.wf_iff r).2 tr.1
  have vfa : h.fa.values.length = sf.h.s.values.table.length := by rw [wF, List.length_map, nA]
  have vra : h.ra.values.length = sf.h.s.values.table.length := by rw [wR, List.length_map, nA]
  have vfb : h.fb.values.length = sf.h.t.values.table.length := by rw [wF', List.length_map, nB]
  have vrb : h.rb.values.length = sf.h.t.values.table.length := by rw [wR', List.length_map, nB]
  have lci : c.toPlain.ins.length = sf.h.s.values.table.length + sf.h.t.values.table.length := by
    rw [C03.plain_ins_length wc tc.2.1, List.length_append, vfa, vrb]
  have lco : c.toPlain.outs.length = sf.h.t.values.table.length + sf.h.s.values.table.length := by
    rw [C03.plain_outs_length wc tc.2.2, List.length_append, vfb, vra]
  have lXi : fx.toPlain.ins.length = 2 * sf.h.s.values.table.length := by
    rw [C03.plain_ins_length wfx tfx.2.1]
    obtain ⟨_, _, _, hF2, hR2, _, _, _, _, s1, s2, _⟩ :=
      optic_unit_object sp fo ro hU (C12.opsOf sf).a.values
    rw [h.fa_eq] at hF2; rw [h.ra_eq] at hR2
    cases hF2; cases hR2
    rw [s1, s2, interleave_units_length, nA]
  have lXo : fx.toPlain.outs.length = 2 * sf.h.t.values.table.length := by
    rw [C03.plain_outs_length wfx tfx.2.2]
    obtain ⟨_, _, _, hF2, hR2, _, _, _, _, s1, s2, _⟩ :=
      optic_unit_object sp fo ro hU (C12.opsOf sf).b.values
    rw [h.fb_eq] at hF2; rw [h.rb_eq] at hR2
    cases hF2; cases hR2
    rw [s1, s2, interleave_units_length, nB]
  refine ⟨c, ot, r, a, b, hsa, hsb, hot, hr, tr, xr.trans xfx, tc, mc, ?_, ?_, ?_⟩
  · intro T _ Φ x dB yB gA h1 h2 h3 h4
    exact dc T Φ x dB yB gA h1 h2 h3 h4
  · intro T _ Φ xa db yb ga l1 l2 l3 l4
    rw [den_iso (C03.wfP wr) ir, den_adapted (Φ := Φ) sf.h.w.length (C03.wfP wfx) hW hf.src_lt hf.tgt_lt
      hf.hyper.src_lt hf.hyper.tgt_lt lXi lXo qot xa db yb ga l1 l2 l3 l4]
    constructor
    · rintro ⟨fv, rv, a1, a2, a3, a4, hd⟩
      refine ⟨fv, rv, a1, a2, a3, a4, ?_⟩
      rw [den_iso (C03.wfP wfx) ifx] at hd
      exact (den_bent _ _ c.toPlain lci lco _ _ _ _ (by simp) (by simp) (by simp) (by simp)).1 hd
    · rintro ⟨fv, rv, a1, a2, a3, a4, hd⟩
      refine ⟨fv, rv, a1, a2, a3, a4, ?_⟩
      rw [den_iso (C03.wfP wfx) ifx]
      exact (den_bent _ _ c.toPlain lci lco _ _ _ _ (by simp) (by simp) (by simp) (by simp)).2 hd
  · intro msf mcc hnd
    have hq := unbend_quot qot
    rw [unbend_substP] at hq
    obtain ⟨eS, eT⟩ := flat_srcs sf hfwf
    have iX : unbend fx.toPlain ≅ c.toPlain := by
      have := unbend_iso ifx
      rwa [show (⟨c.toPlain.nodes, c.toPlain.edges,
        il2 (c.toPlain.ins.take _) (c.toPlain.outs.drop _),
        il2 (c.toPlain.outs.take _) (c.toPlain.ins.drop _)⟩ : PDiag O2 A2) =
        bent sf.h.s.values.table.length sf.h.t.values.table.length c.toPlain from rfl,
        unbend_bent _ _ _ lci lco] at this
    have mX : Monogamous (unbend fx.toPlain) :=
      monogamous_iso (C03.wfP wc) (iso_symm (unbend_wf (C03.wfP wfx)) iX) mcc
    have hndX : (fx.toPlain.ins ++ fx.toPlain.outs).Nodup := by
      obtain ⟨π, ρ, _, _, _, _, hi, ho⟩ := ifx
      apply nodup_of_map π
      rw [List.map_append, ← hi, ← ho]
      exact (bent_iface_perm _ _ c.toPlain lci lco).nodup_iff.2 hnd
    have mQ : Monogamous (unbend ot.toPlain) := by
      refine monogamous_bend (sf := sf.toPlain) (C03.wfP hfwf) msf hW (C03.wfP wfx) ?_ ?_ mX hndX ?_
      · rw [eS]; exact lXi
      · rw [eT]; exact lXo
      · rw [eS, eT]; exact hq
    exact monogamous_iso (unbend_wf (C03.wfP wot)) (iso_symm (C03.wfP wr) ir) mQ

end

/-! ## 5. the batch images of the strict optic induced by a generator-wise lax optic -/

theorem zip3_map {α β γ δ : Type} (F : γ → List δ) (G : α → List δ) :
    ∀ (xs : List α) (as : List β) (bs : List γ), xs.length = as.length → xs.length = bs.length →
      (xs.zip (as.zip bs)).map (fun t => F t.2.2 ++ G t.1) =
        List.zipWith (· ++ ·) (bs.map F) (xs.map G)
  | [], _, _, _, _ => by simp
  | x :: xs, a :: as, b :: bs, h1, h2 => by
    simp only [List.length_cons, Nat.add_right_cancel_iff] at h1 h2
    simp [zip3_map F G xs as bs h1 h2]
  | x :: xs, [], _, h1, _ => by simp at h1
  | x :: xs, _ :: _, [], _, h2 => by simp at h2

theorem zip3_map' {α β γ δ : Type} (F : γ → List δ) (G : α → List δ) :
    ∀ (xs : List α) (as : List β) (bs : List γ), xs.length = as.length → xs.length = bs.length →
      (xs.zip (as.zip bs)).map (fun t => G t.1 ++ F t.2.2) =
        List.zipWith (· ++ ·) (xs.map G) (bs.map F)
  | [], _, _, _, _ => by simp
  | x :: xs, a :: as, b :: bs, h1, h2 => by
    simp only [List.length_cons, Nat.add_right_cancel_iff] at h1 h2
    simp [zip3_map' F G xs as bs h1 h2]
  | x :: xs, [], _, h1, _ => by simp at h1
  | x :: xs, _ :: _, [], _, h2 => by simp at h2

theorem flatMap_proj {α β γ : Type} (l : List α) (p : α → List β) (obj : β → List γ) :
    l.flatMap (fun t => (p t).flatMap obj) = ((l.map p).flatten).flatMap obj := by
  induction l with
  | nil => rfl
  | cons x l ih => simp [ih, List.flatMap_append]

/-- regrouping the object images of the target types per operation -/
theorem groupSegs_of_obj (b : IC (List O1)) (fb : IC (List O2)) (obj : O1 → List O2)
    (hs : fb.segsL = b.values.map obj) :
    groupSegs b fb = b.segsL.map (fun seg => seg.flatMap obj) := by
  unfold groupSegs IC.segsL
  rw [show splitSegs fb.sources.table fb.values = fb.segsL from rfl, hs, splitSegs_map,
    List.map_map]
  apply List.map_congr_left
  intro seg _
  simp [List.flatMap_def]

section
variable [DecidableEq O2]

/-- the residual family of a batch under the lax optic -/
theorem residual_spec (B : Backend) (P : LOptic O1 A1 O2 A2) (ops : Operations O1 A1) :
    ∃ m, (P.toStrictOptic B).residual ops = .ok m ∧ C08.Valid m ∧ m.len = ops.x.length ∧
      m.segsL = ops.x.map P.residual := by
  have hsum : ((ops.x.map P.residual).map List.length).sum =
      HasLen.len (ops.x.map P.residual).flatten := by
    simp [List.length_flatten]
  refine ⟨⟨⟨(ops.x.map P.residual).map List.length,
    HasLen.len (ops.x.map P.residual).flatten + 1⟩, (ops.x.map P.residual).flatten⟩, ?_, ?_, ?_, ?_⟩
  · simp only [LOptic.toStrictOptic]
    rw [IC.fromSemifinite_eq, if_pos hsum]
    rfl
  · exact IC.mk_valid _ _ (by simp [List.length_flatten]) hsum
  · simp [IC.len, FinFun.source]
  · exact IC.segsL_eq_of _ _ rfl rfl

/-- **the batch images of the induced strict optic.**  If every operation `x : s → t` of a valid
    batch has a forward image `F(s) → F(t) ● M_x` and a reverse image `M_x ● R(t) → R(s)` (defined,
    well-formed, strictifiable, of these types), the hypothesis bundle `OpticOK` of the typing
    clause holds, and the forward (reverse) image of the batch is, up to `≅`, the juxtaposition
    of the strictified forward (reverse) images of the operations. -/
theorem opticOK_of_gens (B : Backend) (hB : B.Lawful) (P : LOptic O1 A1 O2 A2)
    (ops : Operations O1 A1) (ha : ops.a.valid = true) (hb : ops.b.valid = true)
    (hla : ops.x.length = ops.a.len) (hlb : ops.x.length = ops.b.len)
    (imgF imgR : A1 → List O1 → List O1 → LOHG O2 A2)
    (sF sR : A1 → List O1 → List O1 → OHG O2 A2)
    (hF : ∀ t ∈ C12.opTriples ops, P.fwdOperation t.1 t.2.1 t.2.2 = .ok (imgF t.1 t.2.1 t.2.2) ∧
      (imgF t.1 t.2.1 t.2.2).wf = true ∧
      LOHG.toStrict B (imgF t.1 t.2.1 t.2.2) = .ok (sF t.1 t.2.1 t.2.2) ∧
      (sF t.1 t.2.1 t.2.2).source = .ok (t.2.1.flatMap P.fwdObject) ∧
      (sF t.1 t.2.1 t.2.2).target = .ok (t.2.2.flatMap P.fwdObject ++ P.residual t.1))
    (hR : ∀ t ∈ C12.opTriples ops, P.revOperation t.1 t.2.1 t.2.2 = .ok (imgR t.1 t.2.1 t.2.2) ∧
      (imgR t.1 t.2.1 t.2.2).wf = true ∧
      LOHG.toStrict B (imgR t.1 t.2.1 t.2.2) = .ok (sR t.1 t.2.1 t.2.2) ∧
      (sR t.1 t.2.1 t.2.2).source = .ok (P.residual t.1 ++ t.2.2.flatMap P.revObject) ∧
      (sR t.1 t.2.1 t.2.2).target = .ok (t.2.1.flatMap P.revObject)) :
    ∃ h : OpticOK (P.toStrictOptic B) ops,
      h.fwd.toPlain ≅ juxtR ((C12.opTriples ops).map (fun t => (sF t.1 t.2.1 t.2.2).toPlain)) ∧
      h.rev.toPlain ≅ juxtR ((C12.opTriples ops).map (fun t => (sR t.1 t.2.1 t.2.2).toPlain)) ∧
      h.m.segsL = ops.x.map P.residual ∧
      groupSegs ops.b h.fb = ops.b.segsL.map (fun seg => seg.flatMap P.fwdObject) ∧
      groupSegs ops.b h.rb = ops.b.segsL.map (fun seg => seg.flatMap P.revObject) := by
  obtain ⟨pa, pb, px⟩ := C12.opTriples_proj ops hla hlb
  -- object images
  obtain ⟨fa, efa, sfa, vfa, lfa, wfa⟩ :=
    C12.dyn_mapObject_spec B (⟨P.fwdObject, P.fwdOperation⟩ : LFunctor O1 A1 O2 A2) ops.a.values
  obtain ⟨fb, efb, sfb, vfb, lfb, wfb⟩ :=
    C12.dyn_mapObject_spec B (⟨P.fwdObject, P.fwdOperation⟩ : LFunctor O1 A1 O2 A2) ops.b.values
  obtain ⟨ra, era, sra, vra, lra, wra⟩ :=
    C12.dyn_mapObject_spec B (⟨P.revObject, P.revOperation⟩ : LFunctor O1 A1 O2 A2) ops.a.values
  obtain ⟨rb, erb, srb, vrb, lrb, wrb⟩ :=
    C12.dyn_mapObject_spec B (⟨P.revObject, P.revOperation⟩ : LFunctor O1 A1 O2 A2) ops.b.values
  obtain ⟨m, em, vm, lm, sm⟩ := residual_spec B P ops
  -- batch images
  obtain ⟨fwd, efwd, wfwd, sfwd, tfwd, ifwd⟩ := dyn_batch B hB
    (⟨P.fwdObject, P.fwdOperation⟩ : LFunctor O1 A1 O2 A2) imgF sF
    (fun t => t.2.1.flatMap P.fwdObject) (fun t => t.2.2.flatMap P.fwdObject ++ P.residual t.1)
    ops ha hb hF
  obtain ⟨rev, erev, wrev, srev, trev, irev⟩ := dyn_batch B hB
    (⟨P.revObject, P.revOperation⟩ : LFunctor O1 A1 O2 A2) imgR sR
    (fun t => P.residual t.1 ++ t.2.2.flatMap P.revObject) (fun t => t.2.1.flatMap P.revObject)
    ops ha hb hR
  have gF : groupSegs ops.b fb = ops.b.segsL.map (fun seg => seg.flatMap P.fwdObject) :=
    groupSegs_of_obj ops.b fb P.fwdObject sfb
  have gR : groupSegs ops.b rb = ops.b.segsL.map (fun seg => seg.flatMap P.revObject) :=
    groupSegs_of_obj ops.b rb P.revObject srb
  have la : ops.x.length = ops.a.segsL.length := by rw [IC.segsL_length]; exact hla
  have lb : ops.x.length = ops.b.segsL.length := by rw [IC.segsL_length]; exact hlb
  have flatA : ∀ obj : O1 → List O2,
      (C12.opTriples ops).flatMap (fun t => t.2.1.flatMap obj) = (ops.a.values.map obj).flatten := by
    intro obj
    rw [flatMap_proj (C12.opTriples ops) (fun t : A1 × List O1 × List O1 => t.2.1) obj, pa,
      IC.segsL_flatten _ ha, List.flatMap_def]
  refine ⟨⟨fwd, rev, fa, fb, ra, rb, m, efwd, erev, efa, efb, era, erb, em, hb, vfa, vfb, vra, vrb,
    vm, lfa.trans lra.symm, lfb, lrb, lm.trans hlb, wfwd, ?_, ?_, wrev, ?_, ?_⟩, ifwd, irev, sm, gF, gR⟩
  · rw [sfwd, flatA, wfa]
  · rw [tfwd, gF, sm]
    congr 1
    rw [List.flatMap_def]
    congr 1
    unfold C12.opTriples
    exact zip3_map (fun seg => seg.flatMap P.fwdObject) P.residual ops.x ops.a.segsL ops.b.segsL la lb
  · rw [srev, sm, gR]
    congr 1
    rw [List.flatMap_def]
    congr 1
    unfold C12.opTriples
    exact zip3_map' (fun seg => seg.flatMap P.revObject) P.residual ops.x ops.a.segsL ops.b.segsL
      la lb
  · rw [trev, flatA, wra]

end

/-! ## 6. the two-pass theorem for arbitrary forward / reverse labellings -/

section core
variable {R : Type} [CommRing R] {O A : Type}

/-- **core of the derivative clause** (no lenses, no optic): on a well-formed monogamous acyclic
    circuit, let `fv` be a valuation of the real parts (`opfn` is the real part of `semD`, which
    depends on real parts only) on the input `x`, and `rv` a labelling that is `dy` on the
    outputs and at every hyperedge the reverse derivative of the generator at the `fv`-values of
    the sources against the `rv`-values of the targets.  Then the dual-number evaluation of the
    circuit has real part `fv` on the outputs, and `rv` on the inputs is its reverse
    derivative at `x` against `dy`. -/
theorem twoPass_core (B : Backend) (hB : B.Lawful) (f : OHG O A) (hf : f.wf = true)
    (hac : Acyclic f.toPlain) (hm : Monogamous f.toPlain)
    (semD : A → List (Dual R) → List (Dual R)) (opfn : A → List R → List R)
    (harD : C16.ArityOK f semD)
    (hre : ∀ e ∈ f.toPlain.edges, ∀ X : List (Dual R), X.length = e.src.length →
      (semD e.label X).map Dual.re = opfn e.label (X.map Dual.re))
    (x dy : List R) (hx : x.length = f.s.table.length) (fv rv : Nat → R)
    (hins : f.toPlain.ins.map fv = x)
    (hfv : ∀ e ∈ f.toPlain.edges, e.tgt.map fv = opfn e.label (e.src.map fv))
    (houts : f.toPlain.outs.map rv = dy)
    (hrv : ∀ e ∈ f.toPlain.edges,
      IsRevDeriv (semD e.label) (e.src.map fv) (e.tgt.map rv) (e.src.map rv)) :
    (∀ v : List R, v.length = x.length →
      (evalOr B f (0 : Dual R) semD (dualize x v)).map Dual.re = f.t.table.map fv) ∧
    IsRevDeriv (evalOr B f (0 : Dual R) semD) x dy (f.s.table.map rv) := by
  have hwf := Eval.toPlain_wf f hf
  have hopac := opAcyclic_of_acyclic f hf hac
  have hsw := monogamous_singleWriter hwf hm
  obtain ⟨_, _, hedges⟩ := Eval.pdiag_wf_unpack hwf
  have hval : IsValuation f.toPlain opfn (0 : R) x fv := by
    refine ⟨hins, hfv, ?_⟩
    intro v hv hni hnt
    exfalso
    rcases monogamous_written hwf hm v hv with h | ⟨e, he, hve⟩
    · exact hni h
    · exact hnt e he hve
  have key : ∀ v : List R, v.length = x.length →
      ∃ valD : Nat → Dual R, IsValuation f.toPlain semD (0 : Dual R) (dualize x v) valD ∧
        evalOr B f (0 : Dual R) semD (dualize x v) = f.t.table.map valD ∧
        ∀ u, u < f.toPlain.n → (valD u).re = fv u := by
    intro v hv
    obtain ⟨outs, valD, hev, hvalD, houts'⟩ := C16.eval_spec B hB f hf semD (0 : Dual R)
      (dualize x v) hopac hsw harD (by rw [dualize_length x v hv, hx])
    refine ⟨valD, hvalD, ?_, ?_⟩
    · unfold evalOr
      rw [applyOf_eq, hev, houts']
    · have hre' : IsValuation f.toPlain opfn (0 : R) x (fun u => (valD u).re) := by
        refine ⟨?_, ?_, ?_⟩
        · have := congrArg (List.map Dual.re) hvalD.ins
          rw [dualize_map_re x v hv, List.map_map] at this
          exact this
        · intro e he
          have h1 := congrArg (List.map Dual.re) (hvalD.ops e he)
          rw [List.map_map] at h1
          have h2 := hre e he (e.src.map valD) (by simp)
          rw [List.map_map] at h2
          exact h1.trans h2
        · intro u hu hni hnt
          rw [hvalD.rest u hu hni hnt]
          rfl
      intro u hu
      exact Eval.valuation_unique hwf (noCycle_of_acyclic hac) hre' hval u hu
  refine ⟨?_, ?_⟩
  · intro v hv
    obtain ⟨valD, _, hev, hre2⟩ := key v hv
    rw [hev, List.map_map]
    apply List.map_congr_left
    intro u hu
    obtain ⟨_, _, htw, _, htt⟩ := Eval.ohg_wf_unpack f hf
    exact hre2 u (show u < f.h.w.length from htt ▸ htw u hu)
  · intro v hv
    obtain ⟨valD, hvalD, hev, hre2⟩ := key v hv
    have hsrc : ∀ e ∈ f.toPlain.edges, e.src.map (fun u => (valD u).re) = e.src.map fv :=
      fun e he => List.map_congr_left (fun u hu => hre2 u ((hedges e he).1 u hu))
    have hcons := revDeriv_of_labellings hwf hm semD valD rv hvalD.ops (by
      intro e he
      rw [hsrc e he]
      exact hrv e he)
    have hins' : f.toPlain.ins.map (fun u => (valD u).eps) = v := by
      have := congrArg (List.map Dual.eps) hvalD.ins
      rw [dualize_map_eps x v hv, List.map_map] at this
      exact this
    rw [hins', houts] at hcons
    rw [hev, List.map_map]
    exact hcons

end core

/-! ## 7. the adapted optic image of a circuit in terms of the generator images -/

theorem zip3_map_op {α β γ δ : Type} (op : δ → δ → δ) (F : γ → δ) (G : α → δ) :
    ∀ (xs : List α) (as : List β) (bs : List γ), xs.length = as.length → xs.length = bs.length →
      (xs.zip (as.zip bs)).map (fun t => op (F t.2.2) (G t.1)) =
        List.zipWith op (bs.map F) (xs.map G)
  | [], _, _, _, _ => by simp
  | x :: xs, a :: as, b :: bs, h1, h2 => by
    simp only [List.length_cons, Nat.add_right_cancel_iff] at h1 h2
    simp [zip3_map_op op F G xs as bs h1 h2]
  | x :: xs, [], _, h1, _ => by simp at h1
  | x :: xs, _ :: _, [], _, h2 => by simp at h2

theorem zip3_map_op' {α β γ δ : Type} (op : δ → δ → δ) (F : γ → δ) (G : α → δ) :
    ∀ (xs : List α) (as : List β) (bs : List γ), xs.length = as.length → xs.length = bs.length →
      (xs.zip (as.zip bs)).map (fun t => op (G t.1) (F t.2.2)) =
        List.zipWith op (xs.map G) (bs.map F)
  | [], _, _, _, _ => by simp
  | x :: xs, a :: as, b :: bs, h1, h2 => by
    simp only [List.length_cons, Nat.add_right_cancel_iff] at h1 h2
    simp [zip3_map_op' op F G xs as bs h1 h2]
  | x :: xs, [], _, h1, _ => by simp at h1
  | x :: xs, _ :: _, [], _, h2 => by simp at h2

theorem getD_map_nil {α β : Type} (f : α → β) (L : List (List α)) (k : Nat) :
    (L.map (List.map f)).getD k [] = (L.getD k []).map f := by
  simp only [List.getD_eq_getElem?_getD, List.getElem?_map]
  cases L[k]? <;> rfl

theorem flatMap_unit_length {α β : Type} (l : List α) (obj : α → List β)
    (h : ∀ o, (obj o).length = 1) : (l.flatMap obj).length = l.length := by
  induction l with
  | nil => rfl
  | cons x l ih => simp [ih, h x]; omega

theorem nodup_ranges4 (a b c d : Nat) :
    ((List.range' 0 a ++ List.range' a b) ++
      (List.range' (a + b) c ++ List.range' (a + b + c) d)).Nodup := by
  have e : (List.range' 0 a ++ List.range' a b) ++
      (List.range' (a + b) c ++ List.range' (a + b + c) d) = List.range' 0 (a + b + c + d) := by
    have h1 : List.range' 0 a ++ List.range' a b = List.range' 0 (a + b) := by
      have := @List.range'_append_1 0 a b
      simpa using this
    have h2 : List.range' (a + b) c ++ List.range' (a + b + c) d = List.range' (a + b) (c + d) :=
      List.range'_append_1
    rw [h1, h2]
    have := @List.range'_append_1 0 (a + b) (c + d)
    simp only [Nat.zero_add] at this
    rw [this, Nat.add_assoc (a + b)]
  rw [e]
  exact List.nodup_range' 1

theorem getD_mem {α : Type} (l : List α) (k : Nat) (d : α) (hk : k < l.length) : l.getD k d ∈ l := by
  rw [List.getD_eq_getElem?_getD, List.getElem?_eq_getElem hk]
  exact List.getElem_mem hk

theorem getD_map_lt {α β : Type} (f : α → β) (l : List α) (k : Nat) (hk : k < l.length) (d : α)
    (d' : β) : (l.map f).getD k d' = f (l.getD k d) := by
  simp [List.getD_eq_getElem?_getD, List.getElem?_eq_getElem hk]

theorem zipWith_add_getD (k1 k2 : List Nat) (k : Nat) (h1 : k < k1.length) (h2 : k < k2.length) :
    (List.zipWith (· + ·) k1 k2).getD k 0 = k1.getD k 0 + k2.getD k 0 := by
  simp [List.getD_eq_getElem?_getD, List.getElem?_zipWith, List.getElem?_eq_getElem h1,
    List.getElem?_eq_getElem h2]

section
variable [DecidableEq O2]

/-- the strictified forward images of the operations of `sf`, as plain diagrams, in order -/
def compsOf (sf : OHG O1 A1) (sF : A1 → List O1 → List O1 → OHG O2 A2) : List (PDiag O2 A2) :=
  (C12.opTriples (C12.opsOf sf)).map (fun t => (sF t.1 t.2.1 t.2.2).toPlain)

/-- **the adapted optic image of a circuit, in terms of the generator images.**
    `P` is a lax optic whose object maps send every object to one object; every operation
    `x : s → t` of the well-formed circuit `sf` has a forward image `F(s) → F(t) ● M_x` and a
    reverse image `M_x ● R(t) → R(s)` (defined, well-formed, strictifiable, so typed).  Then the
    optic functor of the induced strict optic and `adapt` are defined on `sf`; the result `r` is
    well-formed of type `F a ● R b → F b ● R a`; it is monogamous as soon as `sf` and all strictified
    generator images are and the interface positions of every generator image are distinct nodes;
    and, for EVERY hyperedge predicate `Φ`, its denotation is: a forward labelling `fv` and a
    reverse labelling `rv` of the nodes of `sf` and residual values `M`, such that every forward
    image relates `fv|sources` to `fv|targets ● M_x` and every reverse image relates
    `M_x ● rv|targets` to `rv|sources`. -/
theorem optic_lax_sem (B : Backend) (hB : B.Lawful) (P : LOptic O1 A1 O2 A2) (fo ro : O1 → O2)
    (hfo : ∀ o, P.fwdObject o = [fo o]) (hro : ∀ o, P.revObject o = [ro o])
    (sf : OHG O1 A1) (hf : sf.WF)
    (imgF imgR : A1 → List O1 → List O1 → LOHG O2 A2)
    (sF sR : A1 → List O1 → List O1 → OHG O2 A2)
    (hF : ∀ t ∈ C12.opTriples (C12.opsOf sf),
      P.fwdOperation t.1 t.2.1 t.2.2 = .ok (imgF t.1 t.2.1 t.2.2) ∧
      (imgF t.1 t.2.1 t.2.2).wf = true ∧
      LOHG.toStrict B (imgF t.1 t.2.1 t.2.2) = .ok (sF t.1 t.2.1 t.2.2) ∧
      (sF t.1 t.2.1 t.2.2).source = .ok (t.2.1.flatMap P.fwdObject) ∧
      (sF t.1 t.2.1 t.2.2).target = .ok (t.2.2.flatMap P.fwdObject ++ P.residual t.1))
    (hR : ∀ t ∈ C12.opTriples (C12.opsOf sf),
      P.revOperation t.1 t.2.1 t.2.2 = .ok (imgR t.1 t.2.1 t.2.2) ∧
      (imgR t.1 t.2.1 t.2.2).wf = true ∧
      LOHG.toStrict B (imgR t.1 t.2.1 t.2.2) = .ok (sR t.1 t.2.1 t.2.2) ∧
      (sR t.1 t.2.1 t.2.2).source = .ok (P.residual t.1 ++ t.2.2.flatMap P.revObject) ∧
      (sR t.1 t.2.1 t.2.2).target = .ok (t.2.1.flatMap P.revObject)) :
    ∃ (ot r : OHG O2 A2) (a b : List O1),
      sf.source = .ok a ∧ sf.target = .ok b ∧
      SFunctor.mapArrow B ((P.toStrictOptic B).toFunctor B) sf = .ok ot ∧
      (P.toStrictOptic B).adapt B ot a b = .ok r ∧
      HasType r (a.map fo ++ b.map ro) (b.map fo ++ a.map ro) ∧
      -- monogamy
      (Monogamous sf.toPlain →
        (∀ Q ∈ compsOf sf sF, Monogamous Q ∧ (Q.ins ++ Q.outs).Nodup) →
        (∀ Q ∈ compsOf sf sR, Monogamous Q ∧ (Q.ins ++ Q.outs).Nodup) → Monogamous r.toPlain) ∧
      -- denotation
      (∀ (T : Type) [Inhabited T] (Φ : A2 → List T → List T → Prop) (xa db yb ga : List T),
        xa.length = sf.s.table.length → ga.length = sf.s.table.length →
        yb.length = sf.t.table.length → db.length = sf.t.table.length →
        (Den Φ r.toPlain (xa ++ db) (yb ++ ga) ↔ ∃ (fv rv : Nat → T) (M : List T),
          sf.s.table.map fv = xa ∧ sf.t.table.map rv = db ∧ sf.t.table.map fv = yb ∧
          sf.s.table.map rv = ga ∧
          M.length = (sf.h.x.map (fun x => (P.residual x).length)).sum ∧
          ∀ k, k < sf.h.x.length →
            Den Φ ((compsOf sf sF).getD k PDiag.empty)
              ((sf.h.s.segs.getD k []).map fv)
              ((sf.h.t.segs.getD k []).map fv ++
                (splitSegs (sf.h.x.map (fun x => (P.residual x).length)) M).getD k []) ∧
            Den Φ ((compsOf sf sR).getD k PDiag.empty)
              ((splitSegs (sf.h.x.map (fun x => (P.residual x).length)) M).getD k [] ++
                (sf.h.t.segs.getD k []).map rv)
              ((sf.h.s.segs.getD k []).map rv))) := by
  have hfwf : sf.wf = true := (OHG.wf_iff sf).2 hf
  have hWf := (OHG.wf_iff_Wf sf).1 hfwf
  obtain ⟨va, vb⟩ := toOperations_valid sf hf
  have hla : (C12.opsOf sf).x.length = (C12.opsOf sf).a.len := hf.hyper.src_count.symm
  have hlb : (C12.opsOf sf).x.length = (C12.opsOf sf).b.len := hf.hyper.tgt_count.symm
  obtain ⟨h, ifwd, irev, hmS, gF, gR⟩ := opticOK_of_gens B hB P (C12.opsOf sf) va vb hla hlb imgF imgR
    sF sR hF hR
  have eF : P.fwdObject = fun o => [fo o] := funext hfo
  have eR : P.revObject = fun o => [ro o] := funext hro
  have hU : UnitObj (P.toStrictOptic B) fo ro := by
    constructor
    · intro l
      obtain ⟨c, hc, hs, hv, _⟩ :=
        C12.dyn_mapObject_spec B (⟨P.fwdObject, P.fwdOperation⟩ : LFunctor O1 A1 O2 A2) l
      exact ⟨c, hc, hv, by rw [hs]; show l.map P.fwdObject = _; rw [eF]⟩
    · intro l
      obtain ⟨c, hc, hs, hv, _⟩ :=
        C12.dyn_mapObject_spec B (⟨P.revObject, P.revOperation⟩ : LFunctor O1 A1 O2 A2) l
      exact ⟨c, hc, hv, by rw [hs]; show l.map P.revObject = _; rw [eR]⟩
  obtain ⟨c, ot, r, a, b, hsa, hsb, hot, hr, tr, xr, tc, mc, dc, dr, mr⟩ :=
    optic_circuit_sem B hB (P.toStrictOptic B) fo ro hU sf hf h
  -- the three families of sizes
  obtain ⟨pa, pb, px⟩ := C12.opTriples_proj (C12.opsOf sf) hla hlb
  have lenF : ∀ l : List O1, (l.flatMap P.fwdObject).length = l.length := fun l =>
    flatMap_unit_length l _ (fun o => by rw [hfo]; rfl)
  have lenR : ∀ l : List O1, (l.flatMap P.revObject).length = l.length := fun l =>
    flatMap_unit_length l _ (fun o => by rw [hro]; rfl)
  have segA : (C12.opsOf sf).a.segsL.map List.length = sf.h.s.sources.table :=
    IC.segsL_map_length _ va
  have segB : (C12.opsOf sf).b.segsL.map List.length = sf.h.t.sources.table :=
    IC.segsL_map_length _ vb
  have F2 : (groupSegs (C12.opsOf sf).b h.fb).map List.length = sf.h.t.sources.table := by
    rw [gF, List.map_map, ← segB]
    exact List.map_congr_left (fun seg _ => lenF seg)
  have F2' : (groupSegs (C12.opsOf sf).b h.rb).map List.length = sf.h.t.sources.table := by
    rw [gR, List.map_map, ← segB]
    exact List.map_congr_left (fun seg _ => lenR seg)
  have F3 : h.m.sources.table = sf.h.x.map (fun x => (P.residual x).length) := by
    rw [← IC.segsL_map_length h.m h.m_valid, hmS, List.map_map]; rfl
  have F3' : h.m.values.length = (sf.h.x.map (fun x => (P.residual x).length)).sum := by
    have := ((IC.valid_iff h.m).1 h.m_valid).2
    simp only [IC.len_list] at this
    rw [← this, F3]
  have lS : sf.h.s.sources.table.length = sf.h.x.length := hf.hyper.src_count
  have lT : sf.h.t.sources.table.length = sf.h.x.length := hf.hyper.tgt_count
  have sumS : sf.h.s.sources.table.sum = sf.h.s.values.table.length :=
    ((IC.valid_iff _).1 hWf.h.s.valid).2
  have sumT : sf.h.t.sources.table.sum = sf.h.t.values.table.length :=
    ((IC.valid_iff _).1 hWf.h.t.valid).2
  -- the components
  have wfF : ∀ Q ∈ compsOf sf sF, Q.wf = true := by
    intro Q hQ
    obtain ⟨t, ht, rfl⟩ := List.mem_map.1 hQ
    exact C03.wfP ((C10.toStrict_quotient B hB _ (hF t ht).2.1).2.2 _ (hF t ht).2.2.1).1
  have wfR : ∀ Q ∈ compsOf sf sR, Q.wf = true := by
    intro Q hQ
    obtain ⟨t, ht, rfl⟩ := List.mem_map.1 hQ
    exact C03.wfP ((C10.toStrict_quotient B hB _ (hR t ht).2.1).2.2 _ (hR t ht).2.2.1).1
  have swf : ∀ t ∈ C12.opTriples (C12.opsOf sf), (sF t.1 t.2.1 t.2.2).wf = true ∧
      (sR t.1 t.2.1 t.2.2).wf = true := fun t ht =>
    ⟨((C10.toStrict_quotient B hB _ (hF t ht).2.1).2.2 _ (hF t ht).2.2.1).1,
     ((C10.toStrict_quotient B hB _ (hR t ht).2.1).2.2 _ (hR t ht).2.2.1).1⟩
  have lx : (C12.opsOf sf).x.length = (C12.opsOf sf).a.segsL.length := by
    rw [IC.segsL_length]; exact hla
  have lx' : (C12.opsOf sf).x.length = (C12.opsOf sf).b.segsL.length := by
    rw [IC.segsL_length]; exact hlb
  have insF : (compsOf sf sF).map (·.ins.length) = sf.h.s.sources.table := by
    unfold compsOf
    rw [List.map_map, ← segA, ← pa, List.map_map]
    apply List.map_congr_left
    intro t ht
    show (sF t.1 t.2.1 t.2.2).toPlain.ins.length = _
    rw [C03.plain_ins_length (swf t ht).1 (hF t ht).2.2.2.1, lenF]; rfl
  have outsR : (compsOf sf sR).map (·.outs.length) = sf.h.s.sources.table := by
    unfold compsOf
    rw [List.map_map, ← segA, ← pa, List.map_map]
    apply List.map_congr_left
    intro t ht
    show (sR t.1 t.2.1 t.2.2).toPlain.outs.length = _
    rw [C03.plain_outs_length (swf t ht).2 (hR t ht).2.2.2.2, lenR]; rfl
  have outsF : (compsOf sf sF).map (·.outs.length) =
      List.zipWith (· + ·) sf.h.t.sources.table (sf.h.x.map (fun x => (P.residual x).length)) := by
    unfold compsOf
    rw [List.map_map, ← segB]
    have e : ∀ t ∈ C12.opTriples (C12.opsOf sf),
        ((fun Q : PDiag O2 A2 => Q.outs.length) ∘ fun t => (sF t.1 t.2.1 t.2.2).toPlain) t =
        (fun t : A1 × List O1 × List O1 => t.2.2.length + (P.residual t.1).length) t := by
      intro t ht
      show (sF t.1 t.2.1 t.2.2).toPlain.outs.length = _
      rw [C03.plain_outs_length (swf t ht).1 (hF t ht).2.2.2.2, List.length_append, lenF]
    rw [List.map_congr_left e]
    unfold C12.opTriples
    exact zip3_map_op (· + ·) List.length (fun x => (P.residual x).length) _ _ _ lx lx'
  have insR : (compsOf sf sR).map (·.ins.length) =
      List.zipWith (· + ·) (sf.h.x.map (fun x => (P.residual x).length)) sf.h.t.sources.table := by
    unfold compsOf
    rw [List.map_map, ← segB]
    have e : ∀ t ∈ C12.opTriples (C12.opsOf sf),
        ((fun Q : PDiag O2 A2 => Q.ins.length) ∘ fun t => (sR t.1 t.2.1 t.2.2).toPlain) t =
        (fun t : A1 × List O1 × List O1 => (P.residual t.1).length + t.2.2.length) t := by
      intro t ht
      show (sR t.1 t.2.1 t.2.2).toPlain.ins.length = _
      rw [C03.plain_ins_length (swf t ht).2 (hR t ht).2.2.2.1, List.length_append, lenR]
    rw [List.map_congr_left e]
    unfold C12.opTriples
    exact zip3_map_op' (· + ·) List.length (fun x => (P.residual x).length) _ _ _ lx lx'
  have lenC : (compsOf sf sF).length = sf.h.x.length := by
    have := congrArg List.length insF
    rwa [List.length_map, lS] at this
  have lenC' : (compsOf sf sR).length = sf.h.x.length := by
    have := congrArg List.length outsR
    rwa [List.length_map, lS] at this
  have wfwd : h.fwd.toPlain.wf = true := C03.wfP ((OHG.wf_iff _).2 h.fwd_wf)
  have wrev : h.rev.toPlain.wf = true := C03.wfP ((OHG.wf_iff _).2 h.rev_wf)
  have lkM : (sf.h.x.map (fun x => (P.residual x).length)).length = sf.h.x.length := by simp
  -- the two batch images, block-wise
  have batchF : ∀ (T : Type) [Inhabited T] (Φ : A2 → List T → List T → Prop) (x y M : List T),
      x.length = sf.h.s.values.table.length → y.length = sf.h.t.values.table.length →
      M.length = (sf.h.x.map (fun x => (P.residual x).length)).sum →
      (Den Φ h.fwd.toPlain x (interleave (splitSegs sf.h.t.sources.table y)
        (splitSegs (sf.h.x.map (fun x => (P.residual x).length)) M)) ↔
      ∀ k, k < sf.h.x.length → Den Φ ((compsOf sf sF).getD k PDiag.empty)
        ((splitSegs sf.h.s.sources.table x).getD k [])
        ((splitSegs sf.h.t.sources.table y).getD k [] ++
          (splitSegs (sf.h.x.map (fun x => (P.residual x).length)) M).getD k [])) := by
    intro T _ Φ x y M hx hy hM
    rw [den_batch_out (compsOf sf sF) wfwd wfF ifwd _ _ _ (lT.trans lkM.symm) insF outsF x y M
      (by rw [hx, sumS]) (by rw [sumT, hy]) hM.symm, lenC]
  have batchR : ∀ (T : Type) [Inhabited T] (Φ : A2 → List T → List T → Prop) (g y M : List T),
      g.length = sf.h.s.values.table.length → y.length = sf.h.t.values.table.length →
      M.length = (sf.h.x.map (fun x => (P.residual x).length)).sum →
      (Den Φ h.rev.toPlain (interleave (splitSegs (sf.h.x.map (fun x => (P.residual x).length)) M)
        (splitSegs sf.h.t.sources.table y)) g ↔
      ∀ k, k < sf.h.x.length → Den Φ ((compsOf sf sR).getD k PDiag.empty)
        ((splitSegs (sf.h.x.map (fun x => (P.residual x).length)) M).getD k [] ++
          (splitSegs sf.h.t.sources.table y).getD k [])
        ((splitSegs sf.h.s.sources.table g).getD k [])) := by
    intro T _ Φ g y M hg hy hM
    rw [den_batch_in (compsOf sf sR) wrev wfR irev _ _ _ (lkM.trans lT.symm) insR outsR g M y
      (by rw [hg, sumS]) hM.symm (by rw [sumT, hy]), lenC']
  -- the lens composite, block-wise
  have dcB : ∀ (T : Type) [Inhabited T] (Φ : A2 → List T → List T → Prop) (x dB yB gA : List T),
      x.length = sf.h.s.values.table.length → dB.length = sf.h.t.values.table.length →
      yB.length = sf.h.t.values.table.length → gA.length = sf.h.s.values.table.length →
      (Den Φ c.toPlain (x ++ dB) (yB ++ gA) ↔ ∃ M,
        M.length = (sf.h.x.map (fun x => (P.residual x).length)).sum ∧
        ∀ k, k < sf.h.x.length →
          Den Φ ((compsOf sf sF).getD k PDiag.empty)
            ((splitSegs sf.h.s.sources.table x).getD k [])
            ((splitSegs sf.h.t.sources.table yB).getD k [] ++
              (splitSegs (sf.h.x.map (fun x => (P.residual x).length)) M).getD k []) ∧
          Den Φ ((compsOf sf sR).getD k PDiag.empty)
            ((splitSegs (sf.h.x.map (fun x => (P.residual x).length)) M).getD k [] ++
              (splitSegs sf.h.t.sources.table dB).getD k [])
            ((splitSegs sf.h.s.sources.table gA).getD k [])) := by
    intro T _ Φ x dB yB gA h1 h2 h3 h4
    rw [dc T Φ x dB yB gA h1 h2 h3 h4, F2, F2', F3, F3']
    constructor
    · rintro ⟨M, hM, hfw, hrv⟩
      refine ⟨M, hM, fun k hk => ⟨?_, ?_⟩⟩
      · exact (batchF T Φ x yB M h1 h3 hM).1 hfw k hk
      · exact (batchR T Φ gA dB M h4 h2 hM).1 hrv k hk
    · rintro ⟨M, hM, hk⟩
      exact ⟨M, hM, (batchF T Φ x yB M h1 h3 hM).2 (fun k hk' => (hk k hk').1),
        (batchR T Φ gA dB M h4 h2 hM).2 (fun k hk' => (hk k hk').2)⟩
  refine ⟨ot, r, a, b, hsa, hsb, hot, hr, tr, ?_, ?_⟩
  · intro msf hQF hQR
    have mfwd : Monogamous h.fwd.toPlain :=
      monogamous_iso (juxtR_wf _ wfF) (iso_symm wfwd ifwd)
        (monogamous_juxtR _ (fun Q hQ => ⟨wfF Q hQ, (hQF Q hQ).1⟩))
    have mrev : Monogamous h.rev.toPlain :=
      monogamous_iso (juxtR_wf _ wfR) (iso_symm wrev irev)
        (monogamous_juxtR _ (fun Q hQ => ⟨wfR Q hQ, (hQR Q hQ).1⟩))
    have mcc := mc mfwd mrev
    apply mr msf mcc
    -- the interface positions of the lens composite are distinct nodes
    have hden : Den (fun _ _ _ => True) c.toPlain
        (List.range' 0 sf.h.s.values.table.length ++
          List.range' sf.h.s.values.table.length sf.h.t.values.table.length)
        (List.range' (sf.h.s.values.table.length + sf.h.t.values.table.length)
            sf.h.t.values.table.length ++
          List.range' (sf.h.s.values.table.length + sf.h.t.values.table.length +
            sf.h.t.values.table.length) sf.h.s.values.table.length) := by
      refine (dcB Nat _ _ _ _ _ (by simp) (by simp) (by simp) (by simp)).2
        ⟨List.replicate (sf.h.x.map (fun x => (P.residual x).length)).sum 0, by simp,
          fun k hk => ⟨?_, ?_⟩⟩
      · have hkC : k < (compsOf sf sF).length := by rw [lenC]; exact hk
        have hmem := getD_mem (compsOf sf sF) k PDiag.empty hkC
        apply den_top_of_nodup _ (hQF _ hmem).2
        · rw [splitSegs_getD_length _ _ (by simp [sumS]),
            ← getD_map_lt (fun Q : PDiag O2 A2 => Q.ins.length) _ k hkC PDiag.empty 0, insF]
        · rw [List.length_append, splitSegs_getD_length _ _ (by simp [sumT]),
            splitSegs_getD_length _ _ (by simp),
            ← getD_map_lt (fun Q : PDiag O2 A2 => Q.outs.length) _ k hkC PDiag.empty 0, outsF,
            zipWith_add_getD _ _ k (by rw [lT]; exact hk) (by rw [lkM]; exact hk)]
      · have hkC : k < (compsOf sf sR).length := by rw [lenC']; exact hk
        have hmem := getD_mem (compsOf sf sR) k PDiag.empty hkC
        apply den_top_of_nodup _ (hQR _ hmem).2
        · rw [List.length_append, splitSegs_getD_length _ _ (by simp),
            splitSegs_getD_length _ _ (by simp [sumT]),
            ← getD_map_lt (fun Q : PDiag O2 A2 => Q.ins.length) _ k hkC PDiag.empty 0, insR,
            zipWith_add_getD _ _ k (by rw [lkM]; exact hk) (by rw [lT]; exact hk)]
        · rw [splitSegs_getD_length _ _ (by simp [sumS]),
            ← getD_map_lt (fun Q : PDiag O2 A2 => Q.outs.length) _ k hkC PDiag.empty 0, outsR]
    exact nodup_of_den hden (nodup_ranges4 _ _ _ _)
  · intro T _ Φ xa db yb ga l1 l2 l3 l4
    rw [dr T Φ xa db yb ga l1 l2 l3 l4]
    have segS : ∀ (g : Nat → T) (k : Nat),
        (splitSegs sf.h.s.sources.table (sf.h.s.values.table.map g)).getD k [] =
          (sf.h.s.segs.getD k []).map g := by
      intro g k
      rw [splitSegs_map]
      exact getD_map_nil g _ k
    have segT : ∀ (g : Nat → T) (k : Nat),
        (splitSegs sf.h.t.sources.table (sf.h.t.values.table.map g)).getD k [] =
          (sf.h.t.segs.getD k []).map g := by
      intro g k
      rw [splitSegs_map]
      exact getD_map_nil g _ k
    constructor
    · rintro ⟨fv, rv, a1, a2, a3, a4, hd⟩
      obtain ⟨M, hM, hk⟩ := (dcB T Φ _ _ _ _ (by simp) (by simp) (by simp) (by simp)).1 hd
      refine ⟨fv, rv, M, a1, a2, a3, a4, hM, fun k hk' => ?_⟩
      have := hk k hk'
      rwa [segS, segT, segT, segS] at this
    · rintro ⟨fv, rv, M, a1, a2, a3, a4, hM, hk⟩
      refine ⟨fv, rv, a1, a2, a3, a4, ?_⟩
      refine (dcB T Φ _ _ _ _ (by simp) (by simp) (by simp) (by simp)).2 ⟨M, hM, fun k hk' => ?_⟩
      rw [segS, segT, segT, segS]
      exact hk k hk'

end

/-! ## 8. the derivative clause, corrected statement -/

/-- **ranks for the adapted optic of a ranked circuit**: from a ranking `ν` of the circuit (every
    source of operation `k` ranks below every target) and a slack `K`, forward ranks `fv`, reverse
    ranks `rv` and one residual rank `big` such that, for every operation `k`, with a level `L k`:
    forward sources `≤ L k`, forward targets and `big` are `> L k + K`; `big` and reverse targets
    are `≤ L' k`, reverse sources `> L' k + K` -/
theorem rank_assignment (m : Nat) (srcs tgts : Nat → List Nat) (ν : Nat → Nat) (N K : Nat)
    (hN : ∀ k, k < m → ∀ v, v ∈ srcs k ∨ v ∈ tgts k → ν v + 1 ≤ N)
    (hν : ∀ k, k < m → ∀ u ∈ srcs k, ∀ w ∈ tgts k, ν u < ν w) :
    ∃ (fv rv : Nat → Nat) (big : Nat) (L L' : Nat → Nat), ∀ k, k < m →
      (∀ x ∈ (srcs k).map fv, x ≤ L k) ∧
      (∀ y ∈ (tgts k).map fv, L k + K < y) ∧ L k + K < big ∧
      big ≤ L' k ∧ (∀ x ∈ (tgts k).map rv, x ≤ L' k) ∧
      (∀ y ∈ (srcs k).map rv, L' k + K < y) := by
  let D := K + 2
  let ℓ : Nat → Nat := fun k => listMax ((srcs k).map (fun v => ν v + 1))
  refine ⟨fun v => D * (ν v + 1), fun v => D * (N + 1) + D * (N + 2 - (ν v + 1)), D * (N + 1),
    fun k => D * ℓ k, fun k => D * (N + 1) + D * (N + 1 - ℓ k), ?_⟩
  intro k hk
  have hsrc : ∀ u ∈ srcs k, ν u + 1 ≤ ℓ k := fun u hu =>
    le_listMax (List.mem_map.2 ⟨u, hu, rfl⟩)
  have hℓN : ℓ k ≤ N := listMax_le (fun c hc => by
    obtain ⟨u, hu, rfl⟩ := List.mem_map.1 hc
    exact hN k hk u (Or.inl hu))
  have htgt : ∀ w ∈ tgts k, ℓ k + 1 ≤ ν w + 1 := by
    intro w hw
    have : ℓ k ≤ ν w := listMax_le (fun c hc => by
      obtain ⟨u, hu, rfl⟩ := List.mem_map.1 hc
      have := hν k hk u hu w hw
      omega)
    omega
  have mulD : ∀ a b : Nat, a ≤ b → D * a ≤ D * b := fun a b h => Nat.mul_le_mul_left D h
  have succD : ∀ a : Nat, D * (a + 1) = D * a + D := fun a => Nat.mul_succ D a
  have hD : D = K + 2 := rfl
  refine ⟨?_, ?_, ?_, ?_, ?_, ?_⟩
  · intro x hx
    obtain ⟨u, hu, rfl⟩ := List.mem_map.1 hx
    exact mulD _ _ (hsrc u hu)
  · intro y hy
    obtain ⟨w, hw, rfl⟩ := List.mem_map.1 hy
    have h1 := mulD _ _ (htgt w hw)
    have h2 := succD (ℓ k)
    show D * ℓ k + K < D * (ν w + 1)
    omega
  · have h1 := mulD (ℓ k + 1) (N + 1) (by omega)
    have h2 := succD (ℓ k)
    show D * ℓ k + K < D * (N + 1)
    omega
  · show D * (N + 1) ≤ D * (N + 1) + D * (N + 1 - ℓ k)
    omega
  · intro x hx
    obtain ⟨w, hw, rfl⟩ := List.mem_map.1 hx
    have h0 := htgt w hw
    have h1 := mulD (N + 2 - (ν w + 1)) (N + 1 - ℓ k) (by omega)
    show D * (N + 1) + D * (N + 2 - (ν w + 1)) ≤ D * (N + 1) + D * (N + 1 - ℓ k)
    omega
  · intro y hy
    obtain ⟨u, hu, rfl⟩ := List.mem_map.1 hy
    have h0 := hsrc u hu
    have h1 := mulD (N + 1 - ℓ k + 1) (N + 2 - (ν u + 1)) (by omega)
    have h2 := succD (N + 1 - ℓ k)
    show D * (N + 1) + D * (N + 1 - ℓ k) + K < D * (N + 1) + D * (N + 2 - (ν u + 1))
    omega


section final
variable {R : Type} [CommRing R]

/-- What the corrected statement asks of the strictified images `sFa`, `sRa` of a generator
    `a : s → t` (all objects carry one ring element).  Compared with `GeneratorsCorrect` of
    `Props/C14.lean`: the images must be WELL-TYPED (forward `F(s) → F(t) ● M_a`, reverse
    `M_a ● R(t) → R(s)`), MONOGAMOUS and ACYCLIC, no input of an image is at the same time an
    output (no bare wire), and the interpretation `sem2` respects their arities — all of which
    hold for the standard images (an operation, copies, constants) and none of which follows
    from the evaluation clauses alone. -/
structure GenFacts [DecidableEq O2] (B : Backend) (P : LOptic O1 A1 O2 A2)
    (semD : A1 → List (Dual R) → List (Dual R)) (sem2 : A2 → List R → List R)
    (a : A1) (s t : List O1) (sFa sRa : OHG O2 A2) : Prop where
  fwd_src : sFa.source = .ok (s.flatMap P.fwdObject)
  fwd_tgt : sFa.target = .ok (t.flatMap P.fwdObject ++ P.residual a)
  rev_src : sRa.source = .ok (P.residual a ++ t.flatMap P.revObject)
  rev_tgt : sRa.target = .ok (s.flatMap P.revObject)
  fwd_mono : Monogamous sFa.toPlain
  rev_mono : Monogamous sRa.toPlain
  fwd_acyc : Acyclic sFa.toPlain
  rev_acyc : Acyclic sRa.toPlain
  fwd_nopt : ∀ v ∈ sFa.s.table, v ∉ sFa.t.table
  rev_nopt : ∀ v ∈ sRa.s.table, v ∉ sRa.t.table
  fwd_ar : C16.ArityOK sFa sem2
  rev_ar : C16.ArityOK sRa sem2
  sem : ∀ (x dy : List R), x.length = s.length → dy.length = t.length →
      ∃ (y m g : List R),
        Graph.eval B sFa (0 : R) x (applyOf sem2) = .ok (y ++ m) ∧ y.length = t.length ∧
        Graph.eval B sRa (0 : R) (m ++ dy) (applyOf sem2) = .ok g ∧
        (∀ v : List R, v.length = x.length → (semD a (dualize x v)).map Dual.re = y) ∧
        IsRevDeriv (semD a) x dy g

/-- the generator `a : s → t` has good images under the lax optic `P` -/
def GenCorrect [DecidableEq O2] (B : Backend) (P : LOptic O1 A1 O2 A2)
    (semD : A1 → List (Dual R) → List (Dual R)) (sem2 : A2 → List R → List R)
    (a : A1) (s t : List O1) : Prop :=
  ∃ (Fa Ra : LOHG O2 A2) (sFa sRa : OHG O2 A2),
    P.fwdOperation a s t = .ok Fa ∧ Fa.wf = true ∧ LOHG.toStrict B Fa = .ok sFa ∧
    P.revOperation a s t = .ok Ra ∧ Ra.wf = true ∧ LOHG.toStrict B Ra = .ok sRa ∧
    GenFacts B P semD sem2 a s t sFa sRa

/-- the corrected full statement of the derivative clause of C14 -/
def rev_correct_corrected_statement : Prop :=
  ∀ (R : Type) [CommRing R] (O1 A1 O2 A2 : Type) [DecidableEq O1] [DecidableEq O2]
    (B : Backend), B.Lawful →
  ∀ (P : LOptic O1 A1 O2 A2) (semD : A1 → List (Dual R) → List (Dual R))
    (sem2 : A2 → List R → List R),
    (∀ o, (P.fwdObject o).length = 1 ∧ (P.revObject o).length = 1) →
  ∀ (f : LOHG O1 A1) (sf : OHG O1 A1), f.wf = true → LOHG.toStrict B f = .ok sf →
    Acyclic sf.toPlain → Monogamous sf.toPlain →
    (∀ t ∈ C12.opTriples (C12.opsOf sf), GenCorrect B P semD sem2 t.1 t.2.1 t.2.2) →
  ∀ (a b : List O1), sf.source = .ok a → sf.target = .ok b →
  ∀ (x dy : List R), x.length = (a.flatMap P.fwdObject).length →
    dy.length = (b.flatMap P.revObject).length →
    ∃ (g : LOHG O2 A2) (sg : OHG O2 A2) (y gx : List R),
      LOptic.mapAdapted B P f = .ok g ∧ LOHG.toStrict B g = .ok sg ∧ Monogamous sg.toPlain ∧
      Graph.eval B sg (0 : R) (x ++ dy) (applyOf sem2) = .ok (y ++ gx) ∧
      (∀ v : List R, v.length = x.length →
        (evalOr B sf (0 : Dual R) semD (dualize x v)).map Dual.re = y) ∧
      gx.length = x.length ∧
      IsRevDeriv (evalOr B sf (0 : Dual R) semD) x dy gx

/-- the generator image chosen by `P` (the empty diagram when undefined) -/
def fwdImg (P : LOptic O1 A1 O2 A2) (a : A1) (s t : List O1) : LOHG O2 A2 :=
  match P.fwdOperation a s t with
  | .ok d => d
  | _ => LOHG.empty

def revImg (P : LOptic O1 A1 O2 A2) (a : A1) (s t : List O1) : LOHG O2 A2 :=
  match P.revOperation a s t with
  | .ok d => d
  | _ => LOHG.empty

/-- strictification (the empty diagram when it fails) -/
def strictOr [DecidableEq O2] (B : Backend) (d : LOHG O2 A2) : OHG O2 A2 :=
  match LOHG.toStrict B d with
  | .ok r => r
  | _ => ⟨⟨[], 0⟩, ⟨[], 0⟩, HG.empty⟩

theorem genCorrect_imgs [DecidableEq O2] {B : Backend} {P : LOptic O1 A1 O2 A2}
    {semD : A1 → List (Dual R) → List (Dual R)} {sem2 : A2 → List R → List R}
    {a : A1} {s t : List O1} (h : GenCorrect B P semD sem2 a s t) :
    P.fwdOperation a s t = .ok (fwdImg P a s t) ∧ (fwdImg P a s t).wf = true ∧
    LOHG.toStrict B (fwdImg P a s t) = .ok (strictOr B (fwdImg P a s t)) ∧
    P.revOperation a s t = .ok (revImg P a s t) ∧ (revImg P a s t).wf = true ∧
    LOHG.toStrict B (revImg P a s t) = .ok (strictOr B (revImg P a s t)) ∧
    GenFacts B P semD sem2 a s t (strictOr B (fwdImg P a s t)) (strictOr B (revImg P a s t)) := by
  obtain ⟨Fa, Ra, sFa, sRa, h1, h2, h3, h4, h5, h6, h7⟩ := h
  have e1 : fwdImg P a s t = Fa := by simp [fwdImg, h1]
  have e2 : revImg P a s t = Ra := by simp [revImg, h4]
  have e3 : strictOr B Fa = sFa := by simp [strictOr, h3]
  have e4 : strictOr B Ra = sRa := by simp [strictOr, h6]
  rw [e1, e2, e3, e4]
  exact ⟨h1, h2, h3, h4, h5, h6, h7⟩

theorem getD_map_default {α β : Type} (f : α → β) (l : List α) (k : Nat) (d : α) :
    (l.map f).getD k (f d) = f (l.getD k d) := by
  simp only [List.getD_eq_getElem?_getD, List.getElem?_map]
  cases l[k]? <;> rfl

theorem length_getD_of_map_eq {α β : Type} (L : List (List α)) (L' : List (List β)) (k : Nat)
    (h : L.map List.length = L'.map List.length) : (L.getD k []).length = (L'.getD k []).length := by
  have e0 : (L.map List.length).getD k 0 = (L'.map List.length).getD k 0 := by rw [h]
  have e1 : (L.map List.length).getD k 0 = (L.getD k []).length :=
    getD_map_default List.length L k []
  have e2 : (L'.map List.length).getD k 0 = (L'.getD k []).length :=
    getD_map_default List.length L' k []
  exact e1.symm.trans (e0.trans e2)

theorem unit_list_eq (l l' : List Unit) (h : l.length = l'.length) : l = l' := by
  apply List.ext_getElem h
  intro i _ _
  rfl

theorem mem_splitSegs_getD {α : Type} (ks : List Nat) (vs : List α) (k : Nat) (y : α)
    (h : y ∈ (splitSegs ks vs).getD k []) : y ∈ vs := by
  rw [splitSegs_getD] at h
  exact List.mem_of_mem_drop (List.mem_of_mem_take h)

/-- a uniform slack for a list of components -/
theorem exists_uniform_slack {α : Type} (Qs : List α) (Pr : α → Nat → Prop)
    (hmono : ∀ Q K K', K ≤ K' → Pr Q K → Pr Q K') (h : ∀ Q ∈ Qs, ∃ K, Pr Q K) :
    ∃ K, ∀ Q ∈ Qs, Pr Q K := by
  induction Qs with
  | nil => exact ⟨0, fun Q hQ => by cases hQ⟩
  | cons Q Qs ih =>
    obtain ⟨K1, h1⟩ := h Q (by simp)
    obtain ⟨K2, h2⟩ := ih (fun Q' hQ' => h Q' (by simp [hQ']))
    refine ⟨max K1 K2, ?_⟩
    intro Q' hQ'
    rcases List.mem_cons.1 hQ' with rfl | hQ'
    · exact hmono _ _ _ (Nat.le_max_left _ _) h1
    · exact hmono _ _ _ (Nat.le_max_right _ _) (h2 Q' hQ')

/-- **THE DERIVATIVE CLAUSE OF C14** (corrected statement): for a lax optic whose generators are
    sent to good reverse-derivative lens images, the adapted optic of every monogamous acyclic
    circuit is defined, monogamous, evaluable by the model evaluator on every lawful backend, and
    on `(x, dy)` returns `(f(x), J_f(x)ᵀ·dy)`. -/
theorem rev_correct_corrected : rev_correct_corrected_statement := by
  intro R _ O1 A1 O2 A2 _ _ B hB P semD sem2 hunit f sf hfwf hts hac hm hgen a b hsa hsb x dy hx hdy
  classical
  -- unit objects
  obtain ⟨fo, hfo⟩ := Classical.axiom_of_choice
    (fun o => List.length_eq_one_iff.1 (hunit o).1)
  obtain ⟨ro, hro⟩ := Classical.axiom_of_choice
    (fun o => List.length_eq_one_iff.1 (hunit o).2)
  have lenF : ∀ l : List O1, (l.flatMap P.fwdObject).length = l.length := fun l =>
    flatMap_unit_length l _ (fun o => (hunit o).1)
  have lenR : ∀ l : List O1, (l.flatMap P.revObject).length = l.length := fun l =>
    flatMap_unit_length l _ (fun o => (hunit o).2)
  rw [lenF] at hx
  rw [lenR] at hdy
  have hsfwf : sf.wf = true := ((C10.toStrict_quotient B hB f hfwf).2.2 sf hts).1
  have hf : sf.WF := (OHG.wf_iff sf).1 hsfwf
  -- generator images
  have hF : ∀ t ∈ C12.opTriples (C12.opsOf sf),
      P.fwdOperation t.1 t.2.1 t.2.2 = .ok (fwdImg P t.1 t.2.1 t.2.2) ∧
      (fwdImg P t.1 t.2.1 t.2.2).wf = true ∧
      LOHG.toStrict B (fwdImg P t.1 t.2.1 t.2.2) = .ok (strictOr B (fwdImg P t.1 t.2.1 t.2.2)) ∧
      (strictOr B (fwdImg P t.1 t.2.1 t.2.2)).source = .ok (t.2.1.flatMap P.fwdObject) ∧
      (strictOr B (fwdImg P t.1 t.2.1 t.2.2)).target =
        .ok (t.2.2.flatMap P.fwdObject ++ P.residual t.1) := by
    intro t ht
    obtain ⟨h1, h2, h3, _, _, _, h7⟩ := genCorrect_imgs (hgen t ht)
    exact ⟨h1, h2, h3, h7.fwd_src, h7.fwd_tgt⟩
  have hR : ∀ t ∈ C12.opTriples (C12.opsOf sf),
      P.revOperation t.1 t.2.1 t.2.2 = .ok (revImg P t.1 t.2.1 t.2.2) ∧
      (revImg P t.1 t.2.1 t.2.2).wf = true ∧
      LOHG.toStrict B (revImg P t.1 t.2.1 t.2.2) = .ok (strictOr B (revImg P t.1 t.2.1 t.2.2)) ∧
      (strictOr B (revImg P t.1 t.2.1 t.2.2)).source =
        .ok (P.residual t.1 ++ t.2.2.flatMap P.revObject) ∧
      (strictOr B (revImg P t.1 t.2.1 t.2.2)).target = .ok (t.2.1.flatMap P.revObject) := by
    intro t ht
    obtain ⟨_, _, _, h4, h5, h6, h7⟩ := genCorrect_imgs (hgen t ht)
    exact ⟨h4, h5, h6, h7.rev_src, h7.rev_tgt⟩
  obtain ⟨ot, r, a', b', hsa', hsb', hot, hr, tr, mono, den⟩ := optic_lax_sem B hB P fo ro hfo hro
    sf hf (fwdImg P) (revImg P) (fun a s t => strictOr B (fwdImg P a s t))
    (fun a s t => strictOr B (revImg P a s t)) hF hR
  rw [hsa] at hsa'; rw [hsb] at hsb'
  cases hsa'; cases hsb'
  have wr : r.wf = true := (OHG.wf_iff r).2 tr.1
  obtain ⟨sg, hsg, wsg, isg, _⟩ := C10.to_from_strict_lawful B hB r wr
  have hfrom := (C10.fromStrict_spec r wr).1
  rw [hfrom] at hsg
  have hsg' : LOHG.toStrict B (LaxStrict.unpack r) = .ok sg := hsg
  have hmap : LOptic.mapAdapted B P f = .ok (LaxStrict.unpack r) := by
    unfold LOptic.mapAdapted
    simp only [hts, Res.ok_bind, hot, hsa, hsb, hr, hfrom]
  -- indexing the operations
  obtain ⟨va, vb⟩ := toOperations_valid sf hf
  have hla : (C12.opsOf sf).x.length = (C12.opsOf sf).a.len := hf.hyper.src_count.symm
  have hlb : (C12.opsOf sf).x.length = (C12.opsOf sf).b.len := hf.hyper.tgt_count.symm
  obtain ⟨pa, pb, px⟩ := C12.opTriples_proj (C12.opsOf sf) hla hlb
  have hWf := (OHG.wf_iff_Wf sf).1 hsfwf
  have lenTr : (C12.opTriples (C12.opsOf sf)).length = sf.h.x.length := by
    have := congrArg List.length px
    rw [List.length_map] at this
    exact this
  have idx : ∀ k (hk : k < sf.h.x.length), ∃ t ∈ C12.opTriples (C12.opsOf sf),
      t.1 = sf.h.x[k] ∧ t.2.1.length = (sf.h.s.segs.getD k []).length ∧
      t.2.2.length = (sf.h.t.segs.getD k []).length ∧
      (compsOf sf (fun a s t => strictOr B (fwdImg P a s t))).getD k PDiag.empty =
        (strictOr B (fwdImg P t.1 t.2.1 t.2.2)).toPlain ∧
      (compsOf sf (fun a s t => strictOr B (revImg P a s t))).getD k PDiag.empty =
        (strictOr B (revImg P t.1 t.2.1 t.2.2)).toPlain := by
    intro k hk
    have hk' : k < (C12.opTriples (C12.opsOf sf)).length := lenTr ▸ hk
    refine ⟨(C12.opTriples (C12.opsOf sf))[k], List.getElem_mem hk', ?_, ?_, ?_, ?_, ?_⟩
    · have := congrArg (fun l => l[k]?) px
      simp only [List.getElem?_map, List.getElem?_eq_getElem hk'] at this
      have h2 : (C12.opsOf sf).x[k]? = some sf.h.x[k] := List.getElem?_eq_getElem hk
      rw [h2] at this
      exact Option.some.inj this
    · have eA : (C12.opsOf sf).a.segsL.map List.length = sf.h.s.segs.map List.length :=
        (IC.segsL_map_length _ va).trans (IC.segs_map_length _ hWf.h.s.valid).symm
      have h1 : (C12.opsOf sf).a.segsL.getD k [] = (C12.opTriples (C12.opsOf sf))[k].2.1 := by
        rw [← pa]
        simp [List.getD_eq_getElem?_getD, List.getElem?_eq_getElem hk']
      rw [← h1]
      exact length_getD_of_map_eq _ _ k eA
    · have eB : (C12.opsOf sf).b.segsL.map List.length = sf.h.t.segs.map List.length :=
        (IC.segsL_map_length _ vb).trans (IC.segs_map_length _ hWf.h.t.valid).symm
      have h1 : (C12.opsOf sf).b.segsL.getD k [] = (C12.opTriples (C12.opsOf sf))[k].2.2 := by
        rw [← pb]
        simp [List.getD_eq_getElem?_getD, List.getElem?_eq_getElem hk']
      rw [← h1]
      exact length_getD_of_map_eq _ _ k eB
    · unfold compsOf
      rw [getD_map_lt _ _ k hk' (C12.opTriples (C12.opsOf sf))[k] PDiag.empty]
      simp [List.getD_eq_getElem?_getD, List.getElem?_eq_getElem hk']
    · unfold compsOf
      rw [getD_map_lt _ _ k hk' (C12.opTriples (C12.opsOf sf))[k] PDiag.empty]
      simp [List.getD_eq_getElem?_getD, List.getElem?_eq_getElem hk']
  -- lengths of the interface
  have la : sf.s.table.length = a.length := C03.plain_ins_length hsfwf hsa
  have lb : sf.t.table.length = b.length := C03.plain_outs_length hsfwf hsb
  -- facts about the components, by membership
  have compF : ∀ Q ∈ compsOf sf (fun a s t => strictOr B (fwdImg P a s t)),
      Monogamous Q ∧ (Q.ins ++ Q.outs).Nodup := by
    intro Q hQ
    obtain ⟨t, ht, rfl⟩ := List.mem_map.1 hQ
    obtain ⟨_, _, _, _, _, _, h7⟩ := genCorrect_imgs (hgen t ht)
    refine ⟨h7.fwd_mono, ?_⟩
    rw [List.nodup_append]
    exact ⟨h7.fwd_mono.1, h7.fwd_mono.2.1, fun u hu w hw huw => h7.fwd_nopt u hu (huw ▸ hw)⟩
  have compR : ∀ Q ∈ compsOf sf (fun a s t => strictOr B (revImg P a s t)),
      Monogamous Q ∧ (Q.ins ++ Q.outs).Nodup := by
    intro Q hQ
    obtain ⟨t, ht, rfl⟩ := List.mem_map.1 hQ
    obtain ⟨_, _, _, _, _, _, h7⟩ := genCorrect_imgs (hgen t ht)
    refine ⟨h7.rev_mono, ?_⟩
    rw [List.nodup_append]
    exact ⟨h7.rev_mono.1, h7.rev_mono.2.1, fun u hu w hw huw => h7.rev_nopt u hu (huw ▸ hw)⟩
  have hmono_r := mono hm compF compR
  have msg : Monogamous sg.toPlain := monogamous_iso (C03.wfP wr) isg hmono_r
  -- per-index facts
  have gen : ∀ k (hk : k < sf.h.x.length), ∃ t : A1 × List O1 × List O1,
      t.1 = sf.h.x[k] ∧ t.2.1.length = (sf.h.s.segs.getD k []).length ∧
      t.2.2.length = (sf.h.t.segs.getD k []).length ∧
      (compsOf sf (fun a s t => strictOr B (fwdImg P a s t))).getD k PDiag.empty =
        (strictOr B (fwdImg P t.1 t.2.1 t.2.2)).toPlain ∧
      (compsOf sf (fun a s t => strictOr B (revImg P a s t))).getD k PDiag.empty =
        (strictOr B (revImg P t.1 t.2.1 t.2.2)).toPlain ∧
      (strictOr B (fwdImg P t.1 t.2.1 t.2.2)).wf = true ∧
      (strictOr B (revImg P t.1 t.2.1 t.2.2)).wf = true ∧
      GenFacts B P semD sem2 t.1 t.2.1 t.2.2 (strictOr B (fwdImg P t.1 t.2.1 t.2.2))
        (strictOr B (revImg P t.1 t.2.1 t.2.2)) := by
    intro k hk
    obtain ⟨t, ht, e1, e2, e3, e4, e5⟩ := idx k hk
    obtain ⟨_, w1, s1, _, w2, s2, h7⟩ := genCorrect_imgs (hgen t ht)
    exact ⟨t, e1, e2, e3, e4, e5, ((C10.toStrict_quotient B hB _ w1).2.2 _ s1).1,
      ((C10.toStrict_quotient B hB _ w2).2.2 _ s2).1, h7⟩
  have kMk : ∀ k (hk : k < sf.h.x.length),
      (sf.h.x.map (fun x => (P.residual x).length)).getD k 0 = (P.residual sf.h.x[k]).length := by
    intro k hk
    simp [List.getD_eq_getElem?_getD, List.getElem?_eq_getElem hk]
  have lenMk : ∀ (T : Type) (M : List T) k,
      M.length = (sf.h.x.map (fun x => (P.residual x).length)).sum →
      ((splitSegs (sf.h.x.map (fun x => (P.residual x).length)) M).getD k []).length =
        (sf.h.x.map (fun x => (P.residual x).length)).getD k 0 := fun T M k hM =>
    splitSegs_getD_length _ _ (Nat.le_of_eq hM.symm) k
  -- component interface sizes
  have sizes : ∀ k (hk : k < sf.h.x.length) (t : A1 × List O1 × List O1),
      t.1 = sf.h.x[k] → t.2.1.length = (sf.h.s.segs.getD k []).length →
      t.2.2.length = (sf.h.t.segs.getD k []).length →
      (strictOr B (fwdImg P t.1 t.2.1 t.2.2)).wf = true →
      (strictOr B (revImg P t.1 t.2.1 t.2.2)).wf = true →
      GenFacts B P semD sem2 t.1 t.2.1 t.2.2 (strictOr B (fwdImg P t.1 t.2.1 t.2.2))
        (strictOr B (revImg P t.1 t.2.1 t.2.2)) →
      (strictOr B (fwdImg P t.1 t.2.1 t.2.2)).toPlain.ins.length =
        (sf.h.s.segs.getD k []).length ∧
      (strictOr B (fwdImg P t.1 t.2.1 t.2.2)).toPlain.outs.length =
        (sf.h.t.segs.getD k []).length +
          (sf.h.x.map (fun x => (P.residual x).length)).getD k 0 ∧
      (strictOr B (revImg P t.1 t.2.1 t.2.2)).toPlain.ins.length =
        (sf.h.x.map (fun x => (P.residual x).length)).getD k 0 +
          (sf.h.t.segs.getD k []).length ∧
      (strictOr B (revImg P t.1 t.2.1 t.2.2)).toPlain.outs.length =
        (sf.h.s.segs.getD k []).length := by
    intro k hk t e1 e2 e3 w1 w2 h7
    rw [kMk k hk, ← e1, ← e2, ← e3]
    refine ⟨?_, ?_, ?_, ?_⟩
    · rw [C03.plain_ins_length w1 h7.fwd_src, lenF]
    · rw [C03.plain_outs_length w1 h7.fwd_tgt, List.length_append, lenF]
    · rw [C03.plain_ins_length w2 h7.rev_src, List.length_append, lenR]
    · rw [C03.plain_outs_length w2 h7.rev_tgt, lenR]
  -- the hyperedges of `sf`, by index
  have edgeAt : ∀ k (hk : k < sf.h.x.length),
      sf.toPlain.edges[k]? = some (⟨sf.h.x[k], sf.h.s.segs.getD k [], sf.h.t.segs.getD k []⟩ :
        PEdge A1) := by
    intro k hk
    have h1 : k < sf.h.s.segs.length := by rw [IC.segs_length, hWf.h.slen]; exact hk
    have h2 : k < sf.h.t.segs.length := by rw [IC.segs_length, hWf.h.tlen]; exact hk
    show sf.h.toPlainEdges[k]? = _
    rw [HG.toPlainEdges_getElem?]
    simp [List.getElem?_eq_getElem hk, List.getElem?_eq_getElem h1, List.getElem?_eq_getElem h2,
      List.getD_eq_getElem?_getD]
  have edgeOf : ∀ e ∈ sf.toPlain.edges, ∃ k, ∃ hk : k < sf.h.x.length,
      e = ⟨sf.h.x[k], sf.h.s.segs.getD k [], sf.h.t.segs.getD k []⟩ := by
    intro e he
    obtain ⟨k, hk, rfl⟩ := List.getElem_of_mem he
    have hk' : k < sf.h.x.length := by
      rw [← HG.toPlainEdges_length sf.h hWf.h]; exact hk
    refine ⟨k, hk', ?_⟩
    have := edgeAt k hk'
    rw [List.getElem?_eq_getElem hk] at this
    exact Option.some.inj this
  -- arity discipline of the result
  have har : C16.ArityOK sg sem2 := by
    have hd : Den (arΦ sem2) r.toPlain
        (List.replicate sf.s.table.length () ++ List.replicate sf.t.table.length ())
        (List.replicate sf.t.table.length () ++ List.replicate sf.s.table.length ()) := by
      refine (den Unit (arΦ sem2) _ _ _ _ (by simp) (by simp) (by simp) (by simp)).2
        ⟨fun _ => (), fun _ => (),
          List.replicate (sf.h.x.map (fun x => (P.residual x).length)).sum (),
          unit_list_eq _ _ (by simp), unit_list_eq _ _ (by simp), unit_list_eq _ _ (by simp),
          unit_list_eq _ _ (by simp), by simp, fun k hk => ?_⟩
      obtain ⟨t, e1, e2, e3, e4, e5, w1, w2, h7⟩ := gen k hk
      obtain ⟨s1, s2, s3, s4⟩ := sizes k hk t e1 e2 e3 w1 w2 h7
      rw [e4, e5]
      refine ⟨den_ar_of_arityOK _ sem2 h7.fwd_ar _ _ ?_ ?_,
        den_ar_of_arityOK _ sem2 h7.rev_ar _ _ ?_ ?_⟩
      · rw [List.length_map, s1]
      · rw [List.length_append, List.length_map, lenMk Unit _ k (by simp), s2]
      · rw [List.length_append, List.length_map, lenMk Unit _ k (by simp), s3]
      · rw [List.length_map, s4]
    exact arityOK_of_den sg sem2 ((den_iso (C03.wfP wr) isg _ _).1 hd)
  -- acyclicity of the result: a ranking
  have hopac : C16.OpAcyclic sg := by
    obtain ⟨ν, hν⟩ := exists_rank_of_acyclic hac
    let Pr : PDiag O2 A2 → Nat → Prop := fun Q K => ∀ (a b : List Nat) (L : Nat),
      a.length = Q.ins.length → b.length = Q.outs.length → (∀ x ∈ a, x ≤ L) →
      (∀ y ∈ b, L + K < y) → Den rankΦ Q a b
    have hPmono : ∀ Q K K', K ≤ K' → Pr Q K → Pr Q K' :=
      fun Q K K' hK h a b L ha hb h1 h2 => h a b L ha hb h1 (fun y hy => by
        have := h2 y hy; omega)
    have slackOf : ∀ C : OHG O2 A2, C.wf = true → Monogamous C.toPlain → Acyclic C.toPlain →
        (C.toPlain.ins ++ C.toPlain.outs).Nodup → ∃ K, Pr C.toPlain K := by
      intro C wC mC aC nC
      have nW := monogamous_singleWriter (C03.wfP wC) mC
      have nR : (readers C.toPlain).Nodup :=
        (monogamous_readers_perm (C03.wfP wC) mC).nodup_iff.2 List.nodup_range
      exact den_rank_of_component (C03.wfP wC) aC nC
        (fun e he v hv hi =>
          (List.nodup_append.1 nW).2.2 v hi v (List.mem_flatMap.2 ⟨e, he, hv⟩) rfl)
        (fun e he v hv ho =>
          (List.nodup_append.1 nR).2.2 v ho v (List.mem_flatMap.2 ⟨e, he, hv⟩) rfl)
    obtain ⟨KF, hKF⟩ := exists_uniform_slack
      (compsOf sf (fun a s t => strictOr B (fwdImg P a s t))) Pr hPmono (by
        intro Q hQ
        have hnd := (compF Q hQ).2
        obtain ⟨t, ht, rfl⟩ := List.mem_map.1 hQ
        obtain ⟨_, w1, s1, _, _, _, h7⟩ := genCorrect_imgs (hgen t ht)
        exact slackOf _ ((C10.toStrict_quotient B hB _ w1).2.2 _ s1).1 h7.fwd_mono h7.fwd_acyc hnd)
    obtain ⟨KR, hKR⟩ := exists_uniform_slack
      (compsOf sf (fun a s t => strictOr B (revImg P a s t))) Pr hPmono (by
        intro Q hQ
        have hnd := (compR Q hQ).2
        obtain ⟨t, ht, rfl⟩ := List.mem_map.1 hQ
        obtain ⟨_, _, _, _, w2, s2, h7⟩ := genCorrect_imgs (hgen t ht)
        exact slackOf _ ((C10.toStrict_quotient B hB _ w2).2.2 _ s2).1 h7.rev_mono h7.rev_acyc hnd)
    have lenCF : (compsOf sf (fun a s t => strictOr B (fwdImg P a s t))).length = sf.h.x.length := by
      unfold compsOf; rw [List.length_map, lenTr]
    have lenCR : (compsOf sf (fun a s t => strictOr B (revImg P a s t))).length = sf.h.x.length := by
      unfold compsOf; rw [List.length_map, lenTr]
    have hwfP := C03.wfP hsfwf
    obtain ⟨_, _, hedges⟩ := Eval.pdiag_wf_unpack hwfP
    have hlt : ∀ k, k < sf.h.x.length → ∀ v,
        v ∈ sf.h.s.segs.getD k [] ∨ v ∈ sf.h.t.segs.getD k [] → v < sf.h.w.length := by
      intro k hk v hv
      have he := List.mem_of_getElem? (edgeAt k hk)
      rcases hv with hv | hv
      · exact (hedges _ he).1 v hv
      · exact (hedges _ he).2 v hv
    obtain ⟨fv, rv, big, L, L', hrk⟩ := rank_assignment sf.h.x.length
      (fun k => sf.h.s.segs.getD k []) (fun k => sf.h.t.segs.getD k []) ν
      (listMax ((List.range sf.h.w.length).map (fun v => ν v + 1))) (max KF KR)
      (fun k hk v hv => le_listMax (List.mem_map.2 ⟨v, List.mem_range.2 (hlt k hk v hv), rfl⟩))
      (fun k hk u hu w hw => hν _ (List.mem_of_getElem? (edgeAt k hk)) _
        (List.mem_map.2 ⟨u, hu, rfl⟩) _ (List.mem_map.2 ⟨w, hw, rfl⟩))
    have hd : Den rankΦ r.toPlain (sf.s.table.map fv ++ sf.t.table.map rv)
        (sf.t.table.map fv ++ sf.s.table.map rv) := by
      refine (den Nat rankΦ _ _ _ _ (by simp) (by simp) (by simp) (by simp)).2
        ⟨fv, rv, List.replicate (sf.h.x.map (fun x => (P.residual x).length)).sum big,
          rfl, rfl, rfl, rfl, by simp, fun k hk => ?_⟩
      obtain ⟨t, e1, e2, e3, e4, e5, w1, w2, h7⟩ := gen k hk
      obtain ⟨s1, s2, s3, s4⟩ := sizes k hk t e1 e2 e3 w1 w2 h7
      obtain ⟨r1, r2, r3, r4, r5, r6⟩ := hrk k hk
      have hMk : ∀ y ∈ (splitSegs (sf.h.x.map (fun x => (P.residual x).length))
          (List.replicate (sf.h.x.map (fun x => (P.residual x).length)).sum big)).getD k [],
          y = big := fun y hy => List.eq_of_mem_replicate (mem_splitSegs_getD _ _ _ _ hy)
      refine ⟨?_, ?_⟩
      · refine hPmono _ _ _ (Nat.le_max_left KF KR)
          (hKF _ (getD_mem _ k PDiag.empty (lenCF ▸ hk))) _ _ (L k) ?_ ?_ r1 ?_
        · rw [e4, List.length_map, s1]
        · rw [e4, List.length_append, List.length_map, lenMk Nat _ k (by simp), s2]
        · intro y hy
          rcases List.mem_append.1 hy with h1 | h1
          · exact r2 y h1
          · rw [hMk y h1]; exact r3
      · refine hPmono _ _ _ (Nat.le_max_right KF KR)
          (hKR _ (getD_mem _ k PDiag.empty (lenCR ▸ hk))) _ _ (L' k) ?_ ?_ ?_ r6
        · rw [e5, List.length_append, List.length_map, lenMk Nat _ k (by simp), s3]
        · rw [e5, List.length_map, s4]
        · intro y hy
          rcases List.mem_append.1 hy with h1 | h1
          · rw [hMk y h1]; exact r4
          · exact r5 y h1
    obtain ⟨lab, hlab, _, _⟩ := (den_iso (C03.wfP wr) isg _ _).1 hd
    exact opAcyclic_of_acyclic sg wsg (acyclic_of_rank hlab)
  -- evaluation of the result
  have : Inhabited R := ⟨0⟩
  have hsw := monogamous_singleWriter (C03.wfP wsg) msg
  have hsgs : sg.s.table.length = a.length + b.length := by
    obtain ⟨π, _, _, _, _, _, hi, _⟩ := isg
    have h1 : sg.s.table.length = r.toPlain.ins.length := by
      show sg.toPlain.ins.length = _
      rw [hi, List.length_map]
    rw [h1, C03.plain_ins_length wr tr.2.1]
    simp
  obtain ⟨outs, val, hev, hval, houts⟩ := C16.eval_spec B hB sg wsg sem2 (0 : R) (x ++ dy) hopac hsw
    har (by rw [List.length_append, hx, hdy, hsgs])
  have hdsg : Den (valΦ sem2) sg.toPlain (x ++ dy) outs := ⟨val, hval.ops, hval.ins, houts.symm⟩
  have hdr := (den_iso (C03.wfP wr) isg _ _).2 hdsg
  have louts : outs.length = b.length + a.length := by
    rw [(den_length hdr).2, C03.plain_outs_length wr tr.2.2]
    simp
  rw [← List.take_append_drop b.length outs] at hdr
  obtain ⟨fv, rv, M, i1, i2, i3, i4, hM, hk⟩ := (den R (valΦ sem2) x dy (outs.take b.length)
    (outs.drop b.length) (by rw [hx, la]) (by rw [List.length_drop, louts, la]; omega)
    (by rw [List.length_take, louts, lb]; omega) (by rw [hdy, lb])).1 hdr
  -- what the valuation says at every hyperedge of the circuit
  have edgeFacts : ∀ e ∈ sf.toPlain.edges,
      (∀ v : List R, v.length = e.src.length →
        (semD e.label (dualize (e.src.map fv) v)).map Dual.re = e.tgt.map fv) ∧
      IsRevDeriv (semD e.label) (e.src.map fv) (e.tgt.map rv) (e.src.map rv) := by
    intro e he
    obtain ⟨k, hk', rfl⟩ := edgeOf e he
    obtain ⟨t, e1, e2, e3, e4, e5, w1, w2, h7⟩ := gen k hk'
    obtain ⟨s1, s2, s3, s4⟩ := sizes k hk' t e1 e2 e3 w1 w2 h7
    obtain ⟨hdF, hdR⟩ := hk k hk'
    rw [e4] at hdF
    rw [e5] at hdR
    have evF := (den_val_iff_eval B hB _ w1 h7.fwd_acyc h7.fwd_mono sem2 h7.fwd_ar (0 : R) _ _ (by
      rw [List.length_map]; exact s1.symm)).1 hdF
    have evR := (den_val_iff_eval B hB _ w2 h7.rev_acyc h7.rev_mono sem2 h7.rev_ar (0 : R) _ _ (by
      rw [List.length_append, List.length_map, lenMk R M k hM]; exact s3.symm)).1 hdR
    obtain ⟨y, m, g, hy1, hy2, hy3, hy4, hy5⟩ := h7.sem ((sf.h.s.segs.getD k []).map fv)
      ((sf.h.t.segs.getD k []).map rv) (by rw [List.length_map, e2]) (by rw [List.length_map, e3])
    rw [applyOf_eq] at hy1 hy3
    rw [hy1] at evF
    obtain ⟨ey, em⟩ := List.append_inj (Res.ok.inj evF) (by rw [hy2, List.length_map, e3])
    rw [← em, hy3] at evR
    have eg := Res.ok.inj evR
    show (∀ v : List R, v.length = (sf.h.s.segs.getD k []).length →
        (semD sf.h.x[k] (dualize ((sf.h.s.segs.getD k []).map fv) v)).map Dual.re =
          (sf.h.t.segs.getD k []).map fv) ∧
      IsRevDeriv (semD sf.h.x[k]) ((sf.h.s.segs.getD k []).map fv)
        ((sf.h.t.segs.getD k []).map rv) ((sf.h.s.segs.getD k []).map rv)
    rw [← e1, ← ey, ← eg]
    exact ⟨fun v hv => hy4 v (by rw [List.length_map]; exact hv), hy5⟩
  -- arity and real parts of the dual-number interpretation
  have semFacts : ∀ e ∈ sf.toPlain.edges, ∀ X : List (Dual R), X.length = e.src.length →
      (semD e.label X).length = e.tgt.length ∧
      (semD e.label X).map Dual.re =
        (semD e.label (dualize (X.map Dual.re) ((X.map Dual.re).map (fun _ => 0)))).map Dual.re := by
    intro e he X hX
    obtain ⟨k, hk', rfl⟩ := edgeOf e he
    obtain ⟨t, e1, e2, e3, e4, e5, w1, w2, h7⟩ := gen k hk'
    obtain ⟨y, m, g, hy1, hy2, hy3, hy4, hy5⟩ := h7.sem (X.map Dual.re)
      (List.replicate t.2.2.length 0) (by rw [List.length_map, e2]; exact hX) (by simp)
    have h1 := hy4 (X.map Dual.eps) (by simp)
    rw [dualize_re_eps] at h1
    have h2 := hy4 ((X.map Dual.re).map (fun _ => 0)) (by simp)
    show (semD sf.h.x[k] X).length = (sf.h.t.segs.getD k []).length ∧
      (semD sf.h.x[k] X).map Dual.re = (semD sf.h.x[k] _).map Dual.re
    rw [← e1, h1, h2]
    refine ⟨?_, rfl⟩
    have := congrArg List.length h1
    rw [List.length_map] at this
    rw [this, hy2, e3]
  obtain ⟨c1, c2⟩ := twoPass_core B hB sf hsfwf hac hm semD
    (fun a xs => (semD a (dualize xs (xs.map (fun _ => 0)))).map Dual.re)
    (fun e he args hargs => (semFacts e he args hargs).1)
    (fun e he X hX => (semFacts e he X hX).2)
    x dy (by rw [hx, la]) fv rv i1
    (fun e he => by
      have := (edgeFacts e he).1 ((e.src.map fv).map (fun _ => 0)) (by simp)
      exact this.symm)
    i2 (fun e he => (edgeFacts e he).2)
  refine ⟨LaxStrict.unpack r, sg, outs.take b.length, outs.drop b.length, hmap, hsg', msg, ?_, ?_,
    ?_, ?_⟩
  · rw [applyOf_eq, hev, List.take_append_drop]
  · intro v hv
    rw [← i3]
    exact c1 v hv
  · rw [← i4, List.length_map, la, hx]
  · rw [← i4]
    exact c2

end final

/-! ## 9. an instance: the reverse-derivative optic of multiplication -/

section inst
variable {R : Type}

/-- the signature of polynomial circuits -/
inductive Poly (R : Type) where
  | add | mul | neg | copy | discard
  | const (k : R)

section
variable [CommRing R]

/-- dual-number interpretation -/
def polySemD : Poly R → List (Dual R) → List (Dual R)
  | .add => addD
  | .mul => mulD
  | .neg => negD
  | .copy => copyD
  | .discard => discardD
  | .const k => constD k

/-- interpretation over the ring -/
def polySem : Poly R → List R → List R
  | .add, [a, b] => [a + b]
  | .mul, [a, b] => [a * b]
  | .neg, [a] => [-a]
  | .copy, [a] => [a, a]
  | .const k, _ => [k]
  | _, _ => []

end

/-- forward image of `mul`: copy both arguments, multiply one pair of copies, keep the other pair
    as residual: `(x, y) ↦ (x·y, x, y)` -/
def mulF : LOHG Unit (Poly R) :=
  ⟨[0, 1], [6, 3, 5], ⟨List.replicate 7 (), [.copy, .copy, .mul],
    [⟨[0], [2, 3]⟩, ⟨[1], [4, 5]⟩, ⟨[2, 4], [6]⟩], ([], [])⟩⟩

/-- reverse image of `mul`: `(x, y, dz) ↦ (y·dz, x·dz)` -/
def mulR : LOHG Unit (Poly R) :=
  ⟨[0, 1, 2], [5, 6], ⟨List.replicate 7 (), [.copy, .mul, .mul],
    [⟨[2], [3, 4]⟩, ⟨[1, 3], [5]⟩, ⟨[0, 4], [6]⟩], ([], [])⟩⟩

/-- the lax optic (only `mul` has images in this instance) -/
def mulOptic : LOptic Unit (Poly R) Unit (Poly R) where
  fwdObject := fun _ => [()]
  revObject := fun _ => [()]
  fwdOperation := fun a _ _ => match a with
    | .mul => .ok mulF
    | _ => .none
  revOperation := fun a _ _ => match a with
    | .mul => .ok mulR
    | _ => .none
  residual := fun a => match a with
    | .mul => [(), ()]
    | _ => []

theorem mulF_wf : (mulF : LOHG Unit (Poly R)).wf = true := rfl
theorem mulR_wf : (mulR : LOHG Unit (Poly R)).wf = true := rfl

theorem mulF_plain : (LaxStrict.pack (mulF : LOHG Unit (Poly R))).toPlain =
    ⟨List.replicate 7 (), [⟨.copy, [0], [2, 3]⟩, ⟨.copy, [1], [4, 5]⟩, ⟨.mul, [2, 4], [6]⟩],
      [0, 1], [6, 3, 5]⟩ := rfl

theorem mulR_plain : (LaxStrict.pack (mulR : LOHG Unit (Poly R))).toPlain =
    ⟨List.replicate 7 (), [⟨.copy, [2], [3, 4]⟩, ⟨.mul, [1, 3], [5]⟩, ⟨.mul, [0, 4], [6]⟩],
      [0, 1, 2], [5, 6]⟩ := rfl

theorem mulF_mono : Monogamous (LaxStrict.pack (mulF : LOHG Unit (Poly R))).toPlain := by
  rw [mulF_plain]
  apply monogamous_of_perm
  · show ([0, 1, 2, 3, 4, 5, 6] : List Nat).Perm (List.range 7)
    decide
  · show ([6, 3, 5, 0, 1, 2, 4] : List Nat).Perm (List.range 7)
    decide

theorem mulR_mono : Monogamous (LaxStrict.pack (mulR : LOHG Unit (Poly R))).toPlain := by
  rw [mulR_plain]
  apply monogamous_of_perm
  · show ([0, 1, 2, 3, 4, 5, 6] : List Nat).Perm (List.range 7)
    decide
  · show ([5, 6, 2, 1, 3, 0, 4] : List Nat).Perm (List.range 7)
    decide

theorem mulF_acyclic : Acyclic (LaxStrict.pack (mulF : LOHG Unit (Poly R))).toPlain := by
  rw [mulF_plain]
  apply acyclic_of_rank (rk := fun v => [0, 0, 1, 1, 1, 1, 2].getD v 0)
  intro e he
  simp only [List.mem_cons, List.not_mem_nil, or_false] at he
  rcases he with rfl | rfl | rfl <;> intro x hx y hy <;> simp at hx hy <;> omega

theorem mulR_acyclic : Acyclic (LaxStrict.pack (mulR : LOHG Unit (Poly R))).toPlain := by
  rw [mulR_plain]
  apply acyclic_of_rank (rk := fun v => [0, 0, 0, 1, 1, 2, 2].getD v 0)
  intro e he
  simp only [List.mem_cons, List.not_mem_nil, or_false] at he
  rcases he with rfl | rfl | rfl <;> intro x hx y hy <;> simp at hx hy <;> omega

section
variable [CommRing R]

omit [CommRing R] in
theorem len1' {v : List R} (h : v.length = 1) : ∃ p, v = [p] := by
  match v, h with
  | [p], _ => exact ⟨p, rfl⟩

omit [CommRing R] in
theorem len2' {v : List R} (h : v.length = 2) : ∃ p q, v = [p, q] := by
  match v, h with
  | [p, q], _ => exact ⟨p, q, rfl⟩

theorem mulF_arity : C16.ArityOK (LaxStrict.pack (mulF : LOHG Unit (Poly R))) polySem := by
  intro e he args hargs
  rw [mulF_plain] at he
  simp only [List.mem_cons, List.not_mem_nil, or_false] at he
  rcases he with rfl | rfl | rfl
  · obtain ⟨p, rfl⟩ := len1' hargs; rfl
  · obtain ⟨p, rfl⟩ := len1' hargs; rfl
  · obtain ⟨p, q, rfl⟩ := len2' hargs; rfl

theorem mulR_arity : C16.ArityOK (LaxStrict.pack (mulR : LOHG Unit (Poly R))) polySem := by
  intro e he args hargs
  rw [mulR_plain] at he
  simp only [List.mem_cons, List.not_mem_nil, or_false] at he
  rcases he with rfl | rfl | rfl
  · obtain ⟨p, rfl⟩ := len1' hargs; rfl
  · obtain ⟨p, q, rfl⟩ := len2' hargs; rfl
  · obtain ⟨p, q, rfl⟩ := len2' hargs; rfl

omit [CommRing R] in
theorem mul_toStrict (d : LOHG Unit (Poly R)) (hwf : d.wf = true)
    (hq : d.hypergraph.quotient = ([], [])) :
    LOHG.toStrict vecBackend d = .ok (LaxStrict.pack d) ∧ (LaxStrict.pack d).wf = true := by
  obtain ⟨h1, h2, _⟩ := C10.toStrict_spec vecBackend C10.vecBackend_idCC d hwf hq
  exact ⟨h1, h2⟩

/-- **the hypotheses on generators are satisfiable**: `mul` with its standard forward and reverse
    images (copies, multiplications) -/
theorem mul_genCorrect :
    GenCorrect vecBackend (mulOptic : LOptic Unit (Poly R) Unit (Poly R)) polySemD polySem
      .mul [(), ()] [()] := by
  obtain ⟨tsF, wF⟩ := mul_toStrict (mulF : LOHG Unit (Poly R)) mulF_wf rfl
  obtain ⟨tsR, wR⟩ := mul_toStrict (mulR : LOHG Unit (Poly R)) mulR_wf rfl
  refine ⟨mulF, mulR, LaxStrict.pack mulF, LaxStrict.pack mulR, rfl, mulF_wf, tsF, rfl, mulR_wf, tsR,
    ⟨rfl, rfl, rfl, rfl, mulF_mono, mulR_mono, mulF_acyclic, mulR_acyclic, ?_, ?_, mulF_arity,
      mulR_arity, ?_⟩⟩
  · show ∀ v ∈ ([0, 1] : List Nat), v ∉ ([6, 3, 5] : List Nat)
    decide
  · show ∀ v ∈ ([0, 1, 2] : List Nat), v ∉ ([5, 6] : List Nat)
    decide
  · intro x dy hx hdy
    obtain ⟨p, q, rfl⟩ := len2' hx
    obtain ⟨dz, rfl⟩ := len1' hdy
    refine ⟨[p * q], [p, q], [q * dz, p * dz], ?_, rfl, ?_, ?_, ?_⟩
    · rw [applyOf_eq]
      refine (den_val_iff_eval vecBackend vecBackend_lawful _ wF mulF_acyclic mulF_mono polySem
        mulF_arity (0 : R) _ _ rfl).1 ?_
      rw [mulF_plain]
      refine ⟨fun v => [p, q, p, p, q, q, p * q].getD v 0, ?_, rfl, rfl⟩
      intro e he
      simp only [List.mem_cons, List.not_mem_nil, or_false] at he
      rcases he with rfl | rfl | rfl <;> rfl
    · rw [applyOf_eq]
      refine (den_val_iff_eval vecBackend vecBackend_lawful _ wR mulR_acyclic mulR_mono polySem
        mulR_arity (0 : R) _ _ rfl).1 ?_
      rw [mulR_plain]
      refine ⟨fun v => [p, q, dz, dz, dz, q * dz, p * dz].getD v 0, ?_, rfl, rfl⟩
      intro e he
      simp only [List.mem_cons, List.not_mem_nil, or_false] at he
      rcases he with rfl | rfl | rfl <;> rfl
    · intro v hv
      obtain ⟨a, b, rfl⟩ := len2' hv
      rfl
    · exact (mul_lens_correct p q).rev_eq [dz] rfl

/-- the circuit `(x, y) ↦ x·y` -/
def mulCircuit : LOHG Unit (Poly R) :=
  ⟨[0, 1], [2], ⟨[(), (), ()], [.mul], [⟨[0, 1], [2]⟩], ([], [])⟩⟩

omit [CommRing R] in
theorem mulCircuit_plain : (LaxStrict.pack (mulCircuit : LOHG Unit (Poly R))).toPlain =
    ⟨[(), (), ()], [⟨.mul, [0, 1], [2]⟩], [0, 1], [2]⟩ := rfl

/-- **the hypotheses of `rev_correct_corrected` are satisfiable by a non-trivial circuit** (one
    multiplication, two inputs, non-empty residual), over every commutative ring, on the Vec
    backend; the theorem then yields: the adapted optic of `(x, y) ↦ x·y` is defined, monogamous,
    evaluable, and on `(p, q, dz)` returns `(f(p, q), Jᵀ·dz)` -/
example (p q dz : R) :
    ∃ (g : LOHG Unit (Poly R)) (sg : OHG Unit (Poly R)) (y gx : List R),
      LOptic.mapAdapted vecBackend mulOptic mulCircuit = .ok g ∧
      LOHG.toStrict vecBackend g = .ok sg ∧ Monogamous sg.toPlain ∧
      Graph.eval vecBackend sg (0 : R) ([p, q] ++ [dz]) (applyOf polySem) = .ok (y ++ gx) ∧
      (∀ v : List R, v.length = [p, q].length →
        (evalOr vecBackend (LaxStrict.pack mulCircuit) (0 : Dual R) polySemD
          (dualize [p, q] v)).map Dual.re = y) ∧
      gx.length = [p, q].length ∧
      IsRevDeriv (evalOr vecBackend (LaxStrict.pack mulCircuit) (0 : Dual R) polySemD) [p, q] [dz]
        gx := by
  obtain ⟨ts, _⟩ := mul_toStrict (mulCircuit : LOHG Unit (Poly R)) rfl rfl
  refine rev_correct_corrected R Unit (Poly R) Unit (Poly R) vecBackend vecBackend_lawful mulOptic
    polySemD polySem (fun _ => ⟨rfl, rfl⟩) mulCircuit (LaxStrict.pack mulCircuit) rfl ts ?_ ?_ ?_
    [(), ()] [()] rfl rfl [p, q] [dz] rfl rfl
  · rw [mulCircuit_plain]
    apply acyclic_of_rank (rk := fun v => [0, 0, 1].getD v 0)
    intro e he
    simp only [List.mem_cons, List.not_mem_nil, or_false] at he
    subst he
    intro x hx y hy
    simp at hx hy
    omega
  · rw [mulCircuit_plain]
    apply monogamous_of_perm
    · show ([0, 1, 2] : List Nat).Perm (List.range 3)
      decide
    · show ([2, 0, 1] : List Nat).Perm (List.range 3)
      decide
  · intro t ht
    have : C12.opTriples (C12.opsOf (LaxStrict.pack (mulCircuit : LOHG Unit (Poly R)))) =
        [(.mul, [(), ()], [()])] := rfl
    rw [this] at ht
    simp only [List.mem_cons, List.not_mem_nil, or_false] at ht
    subst ht
    exact mul_genCorrect

end

end inst

/-! ## 10. discrepancies of `rev_correct_statement` as written in `Props/C14.lean` -/

section discrepancy
variable {R : Type} [CommRing R] {O1 A1 O2 A2 : Type}

/-- **`GeneratorsCorrect` is (almost) unsatisfiable.**  It quantifies over ALL source and target
    types `s`, `t` of a generator `a`, but the real part of `semD a` on a given input cannot have
    as many entries as `t` has for every `t`: as soon as there is one generator, every object has
    an EMPTY forward image — there is no wire carrying a ring element, and no polynomial-circuit
    optic satisfies the hypothesis. -/
theorem generatorsCorrect_degenerate [DecidableEq O2] (B : Backend) (P : LOptic O1 A1 O2 A2)
    (semD : A1 → List (Dual R) → List (Dual R)) (sem2 : A2 → List R → List R)
    (h : GeneratorsCorrect B P semD sem2) (a : A1) (o : O1) : P.fwdObject o = [] := by
  obtain ⟨_, _, _, _, y0, _, _, _, _, _, _, _, hy0, _, _, _, h0, _⟩ := h a [] [] [] [] rfl rfl
  obtain ⟨_, _, _, _, y1, _, _, _, _, _, _, _, hy1, _, _, _, h1, _⟩ :=
    h a [] [o] [] (List.replicate ([o].flatMap P.revObject).length 0) rfl (by simp)
  have e0 := h0 [] rfl
  have e1 := h1 [] rfl
  rw [e0] at e1
  rw [e1] at hy0
  rw [hy0] at hy1
  have : (P.fwdObject o).length = 0 := by simpa using hy1.symm
  exact List.eq_nil_of_length_eq_zero this

end discrepancy

/-! ## 11. the monogamy clause of the typing part (`adapt_monogamous_statement`) -/

theorem pdPlain_pdPlain {O A : Type} (k k' : Nat) (c : PDiag O A) (hk : k ≤ c.ins.length)
    (hk' : k' ≤ c.outs.length) : pdPlain k k' (pdPlain k k' c) = c := by
  have l1 : (c.ins.take k).length = k := by rw [List.length_take]; omega
  have l2 : (c.outs.take k').length = k' := by rw [List.length_take]; omega
  show (⟨c.nodes, c.edges, (c.ins.take k ++ c.outs.drop k').take k ++
      (c.outs.take k' ++ c.ins.drop k).drop k',
    (c.outs.take k' ++ c.ins.drop k).take k' ++ (c.ins.take k ++ c.outs.drop k').drop k⟩ :
      PDiag O A) = c
  rw [List.take_left' l1, List.drop_left' l2, List.take_left' l2, List.drop_left' l1,
    List.take_append_drop, List.take_append_drop]

/-- **the adapted optic image of a batch is monogamous** as soon as the forward and the reverse
    image of the batch are: the statement left open in `Props/C14Optic.lean`
    (`adapt_monogamous_statement`), for segments of arbitrary sizes and every lawful backend.
    The adapted image is, up to isomorphism, the lens composite
    `c = (fwd ; interleave†) ⊗ id ; id ⊗ (cointerleave ; rev)`. -/
theorem adapt_monogamous : adapt_monogamous_statement := by
  intro O1 A1 O2 A2 _ B hB P ops h mfwd mrev r hr
  -- the regrouped object images
  obtain ⟨bfb, hbfb, bfbV, bfbValid, bfbLen, bfbSegs⟩ :=
    C08.flatmapSources_specL ops.b h.fb h.b_valid h.fb_valid h.len_fb.symm
  obtain ⟨brb, hbrb, brbV, brbValid, brbLen, brbSegs⟩ :=
    C08.flatmapSources_specL ops.b h.rb h.b_valid h.rb_valid h.len_rb.symm
  obtain ⟨fwdIl0, e1, t1, x1, p1, _, m1, _⟩ := il_sem (A := A2) bfb h.m bfbValid h.m_valid
    (bfbLen.trans h.len_m.symm)
  obtain ⟨revCo, e2, t2, x2, p2, m2, _, _⟩ := il_sem (A := A2) h.m brb h.m_valid brbValid
    (h.len_m.trans brbLen.symm)
  rw [bfbV, bfbSegs] at t1
  rw [brbV, brbSegs] at t2
  obtain ⟨iFb, e5, t5, x5, _, _, _, m5⟩ := identity_sem (A := A2) h.fb.values
  obtain ⟨iRb, e6, t6, x6, _, _, _, m6⟩ := identity_sem (A := A2) h.rb.values
  have tfwd : HasType h.fwd h.fa.values (interleave (groupSegs ops.b h.fb) h.m.segsL) :=
    ⟨h.fwd_wf, h.fwd_src, h.fwd_tgt⟩
  have trev : HasType h.rev (interleave h.m.segsL (groupSegs ops.b h.rb)) h.ra.values :=
    ⟨h.rev_wf, h.rev_src, h.rev_tgt⟩
  obtain ⟨l1, e7, t7, x7, _, _, m7⟩ := compose_sem B hB tfwd t1.dagger
  obtain ⟨lhs, e8, t8, x8, _, _, m8⟩ := tensor_sem t7 t6
  obtain ⟨r1, e9, t9, x9, _, _, m9⟩ := compose_sem B hB t2 trev
  obtain ⟨rhs, e10, t10, x10, _, _, m10⟩ := tensor_sem t5 t9
  rw [List.append_assoc] at t8
  obtain ⟨c, e11, t11, x11, _, _, m11⟩ := compose_sem B hB t8 t10
  have mc : Monogamous c.toPlain := m11 (m8 (m7 mfwd m1) m6) (m10 m5 (m9 m2 mrev))
  obtain ⟨d, e12, td, dh, ds, dt⟩ := partialDagger_typed c h.fa h.fb h.ra h.rb _ _ _ _ t11 rfl rfl
    rfl rfl
  obtain ⟨il0, rhs2, e, fx, d1, d2, h0, h2, he, hfx, tfx, xfx, hd1, hd2, td2, xd2, id2⟩ :=
    il_roundtrip B hB h.fa h.ra h.fb h.rb h.fa_valid h.ra_valid h.fb_valid h.rb_valid h.len_a
      (h.len_fb.trans h.len_rb.symm) d td
  have hmo : SOptic.mapOperations B P ops = .ok fx := by
    unfold SOptic.mapOperations
    simp only [h.fwd_eq, h.rev_eq, h.fa_eq, h.fb_eq, h.ra_eq, h.rb_eq, h.m_eq, hbfb, hbrb, e1, e2,
      h0, h2, e5, e6, e7, e8, e9, e10, e11, e12, he, hfx, Res.ok_bind, Res.unwrap_ok]
  rw [hr] at hmo
  cases hmo
  obtain ⟨res, eres, tres, rh, rs, rt⟩ := partialDagger_typed d2 h.fa h.fb h.rb h.ra _ _ _ _ td2 rfl
    rfl rfl rfl
  refine ⟨res, ?_, tres.1, tres.2.1, tres.2.2, ?_⟩
  · unfold SOptic.adapt
    simp only [h.fa_eq, h.fb_eq, h.ra_eq, h.rb_eq, h0, h2, hd1, hd2, Res.ok_bind, Res.unwrap_ok]
    exact eres
  · have wc : c.wf = true := (OHG.wf_iff c).2 t11.1
    have wd2 : d2.wf = true := (OHG.wf_iff d2).2 td2.1
    have hres : res.toPlain = pdPlain h.fa.values.length h.fb.values.length d2.toPlain := by
      show (⟨res.h.w, res.h.toPlainEdges, res.s.table, res.t.table⟩ : PDiag O2 A2) = _
      rw [rh, rs, rt]; rfl
    have hd : d.toPlain = pdPlain h.fa.values.length h.fb.values.length c.toPlain := by
      show (⟨d.h.w, d.h.toPlainEdges, d.s.table, d.t.table⟩ : PDiag O2 A2) = _
      rw [dh, ds, dt]; rfl
    have iso1 := iso_pdPlain h.fa.values.length h.fb.values.length id2
    rw [hd, pdPlain_pdPlain _ _ _ (by
      rw [C03.plain_ins_length wc t11.2.1, List.length_append]; omega) (by
      rw [C03.plain_outs_length wc t11.2.2, List.length_append]; omega), ← hres] at iso1
    have wres : res.toPlain.wf = true := C03.wfP ((OHG.wf_iff res).2 tres.1)
    exact monogamous_iso (C03.wfP wc) (iso_symm wres iso1) mc

/-- the hypotheses of `adapt_monogamous` are satisfiable: the witness optic and batch of
    `Props/C14Optic.lean` (two operations of different arities, non-empty residuals) -/
example : ∃ r d, SOptic.mapOperations vecBackend exP exOps = .ok r ∧
    SOptic.adapt vecBackend exP r exOps.a.values exOps.b.values = .ok d ∧
    Monogamous d.toPlain := by
  obtain ⟨r, hr, _⟩ := optic_mapOperations_type vecBackend vecBackend_lawful exP exOps exOK
  have m1 : Monogamous exOK.fwd.toPlain := by
    apply monogamous_of_perm <;> decide
  have m2 : Monogamous exOK.rev.toPlain := by
    apply monogamous_of_perm <;> decide
  obtain ⟨d, hd, _, _, _, hm⟩ := adapt_monogamous Nat Nat Nat Nat vecBackend vecBackend_lawful exP
    exOps exOK m1 m2 r hr
  exact ⟨r, d, hr, hd, hm⟩

/-! ## 12. the semantic theorems on an instance -/

section
variable {R : Type} [CommRing R]

/-- the hypotheses of `twoPass_correct` (and of `cotangent_exists_unique`) are satisfiable
    non-trivially: the circuit `(x, y) ↦ x·y` with the multiplication lens; the theorem yields the
    gradient `(q·dz, p·dz)` -/
example (p q dz : R) :
    IsRevDeriv (evalOr vecBackend (LaxStrict.pack (mulCircuit : LOHG Unit (Poly R))) (0 : Dual R)
      (fun _ => mulD)) [p, q] [dz] [q * dz, p * dz] := by
  obtain ⟨_, wf⟩ := mul_toStrict (mulCircuit : LOHG Unit (Poly R)) rfl rfl
  have hac : Acyclic (LaxStrict.pack (mulCircuit : LOHG Unit (Poly R))).toPlain := by
    rw [mulCircuit_plain]
    apply acyclic_of_rank (rk := fun v => [0, 0, 1].getD v 0)
    intro e he
    simp only [List.mem_cons, List.not_mem_nil, or_false] at he
    subst he
    intro x hx y hy
    simp at hx hy
    omega
  have hm : Monogamous (LaxStrict.pack (mulCircuit : LOHG Unit (Poly R))).toPlain := by
    rw [mulCircuit_plain]
    apply monogamous_of_perm
    · show ([0, 1, 2] : List Nat).Perm (List.range 3)
      decide
    · show ([2, 0, 1] : List Nat).Perm (List.range 3)
      decide
  have hl : LensesCorrect (LaxStrict.pack (mulCircuit : LOHG Unit (Poly R))).toPlain
      (fun _ => (mulLens : Lens R)) (fun _ => mulD) := by
    rw [mulCircuit_plain]
    intro e he x hx
    simp only [List.mem_cons, List.not_mem_nil, or_false] at he
    subst he
    obtain ⟨a, b, rfl⟩ := len2' hx
    exact ⟨mul_lens_correct a b, rfl⟩
  have hval : IsValuation (LaxStrict.pack (mulCircuit : LOHG Unit (Poly R))).toPlain
      (fwdOf (fun _ => (mulLens : Lens R))) (0 : R) [p, q] (fun v => [p, q, p * q].getD v 0) := by
    rw [mulCircuit_plain]
    refine ⟨rfl, ?_, ?_⟩
    · intro e he
      simp only [List.mem_cons, List.not_mem_nil, or_false] at he
      subst he
      rfl
    · intro v hv hni hnt
      exfalso
      have hv' : v < 3 := hv
      have h2 : v = 2 := by
        have : v ≠ 0 := fun h => hni (by simp [h])
        have : v ≠ 1 := fun h => hni (by simp [h])
        omega
      exact hnt ⟨.mul, [0, 1], [2]⟩ (by simp) (by simp [h2])
  have hadj : IsCotangent (LaxStrict.pack (mulCircuit : LOHG Unit (Poly R))).toPlain
      (fun _ => (mulLens : Lens R)) (fun v => [p, q, p * q].getD v 0)
      (fun v => [q * dz, p * dz, dz].getD v 0) [dz] := by
    rw [mulCircuit_plain]
    refine ⟨rfl, ?_⟩
    intro e he
    simp only [List.mem_cons, List.not_mem_nil, or_false] at he
    subst he
    rfl
  exact (twoPass_correct vecBackend vecBackend_lawful _ wf hac hm (fun _ => (mulLens : Lens R))
    (fun _ => mulD) hl [p, q] [dz] rfl _ _ hval hadj).2.2.2

end

/-! ## 13. `rev_correct_statement` as written is FALSE -/

/-- a degenerate lax optic: empty forward object images, one-element reverse object images, and
    every generator sent to the EMPTY diagram on both sides (the reverse image is ill-typed: it
    should be a diagram `R(t) → R(s)`; the evaluator does not notice, `eval` ignores surplus
    inputs) -/
def badOptic : LOptic Unit Unit Unit Unit where
  fwdObject := fun _ => []
  revObject := fun _ => [()]
  fwdOperation := fun _ _ _ => .ok LOHG.empty
  revOperation := fun _ _ _ => .ok LOHG.empty
  residual := fun _ => []

/-- one operation `() : [()] → [()]` -/
def badCircuit : LOHG Unit Unit := ⟨[0], [1], ⟨[(), ()], [()], [⟨[0], [1]⟩], ([], [])⟩⟩

theorem badOptic_panics :
    LOptic.mapAdapted vecBackend badOptic badCircuit = .panic "optic.map_operations:unwrap-rhs" := by
  decide

theorem bad_generatorsCorrect :
    GeneratorsCorrect (R := BitVec 64) vecBackend badOptic (fun _ _ => []) (fun _ _ => []) := by
  intro a s t x dy hx hdy
  have hx0 : x = [] := by
    apply List.eq_nil_of_length_eq_zero
    rw [hx]
    induction s with
    | nil => rfl
    | cons o s ih => simp [badOptic]
  subst hx0
  obtain ⟨ts, wE, _⟩ := C10.toStrict_spec vecBackend C10.vecBackend_idCC
    (LOHG.empty : LOHG Unit Unit) rfl rfl
  have hev : ∀ inp : List (BitVec 64),
      Graph.eval vecBackend (LaxStrict.pack (LOHG.empty : LOHG Unit Unit)) (0 : BitVec 64) inp
        (applyOf (fun _ _ => [])) = .ok [] := by
    intro inp
    rw [C16.eval_input_normalised vecBackend vecBackend_lawful _ wE (0 : BitVec 64) inp _
      List.nodup_nil]
    have e : Eval.normInput (LaxStrict.pack (LOHG.empty : LOHG Unit Unit)).s.table.length
        (0 : BitVec 64) inp = [] := rfl
    rw [e, applyOf_eq]
    have hval : IsValuation (LaxStrict.pack (LOHG.empty : LOHG Unit Unit)).toPlain
        (fun (_ : Unit) (_ : List (BitVec 64)) => ([] : List (BitVec 64))) (0 : BitVec 64) []
        (fun _ => 0) :=
      ⟨rfl, (fun e he => by cases he), fun _ _ _ _ => rfl⟩
    rw [C16.eval_eq_of_valuation vecBackend vecBackend_lawful _ wE _ (0 : BitVec 64) []
      (fun y hy => absurd hy (Nat.not_lt_zero _)) (by show ([] : List Nat).Nodup; exact List.nodup_nil)
      (fun e he => absurd he (by show e ∉ ([] : List (PEdge Unit)); simp)) rfl hval]
    rfl
  refine ⟨LOHG.empty, LOHG.empty, _, _, [], [], [], rfl, ts, rfl, ts, hev _, ?_, rfl, hev _, rfl,
    fun _ _ => rfl, ?_⟩
  · induction t with
    | nil => rfl
    | cons o t ih => simp [badOptic]
  · intro v hv
    have : v = [] := List.eq_nil_of_length_eq_zero hv
    subst this
    simp

/-- **the statement of `Props/C14.lean` is false as written**: its hypothesis does not force the
    generator images to be well-typed, and on an ill-typed reverse image the optic construction
    panics (`compose` of mismatched types inside `Optic::map_operations`) -/
theorem rev_correct_statement_false : ¬ rev_correct_statement := by
  intro h
  obtain ⟨ts, _, _⟩ := C10.toStrict_spec vecBackend C10.vecBackend_idCC badCircuit rfl rfl
  have hac : Acyclic (LaxStrict.pack badCircuit).toPlain := by
    apply acyclic_of_rank (rk := fun v => v)
    intro e he
    have he' : e ∈ [(⟨(), [0], [1]⟩ : PEdge Unit)] := he
    simp only [List.mem_cons, List.not_mem_nil, or_false] at he'
    subst he'
    intro x hx y hy
    simp at hx hy
    omega
  have hm : Monogamous (LaxStrict.pack badCircuit).toPlain := by
    apply monogamous_of_perm <;> decide
  obtain ⟨g, _, _, _, hg, _⟩ := h (BitVec 64) Unit Unit Unit Unit vecBackend vecBackend_lawful
    badOptic (fun _ _ => []) (fun _ _ => []) bad_generatorsCorrect badCircuit
    (LaxStrict.pack badCircuit) rfl ts hac hm [()] [()] rfl rfl [] [0] rfl rfl
  rw [badOptic_panics] at hg
  cases hg

end OH.C14
