/-
  C14 — derivative clause.

  "When the forward and reverse generators are the standard reverse-derivative lenses of a
   polynomial-circuit theory, the adapted optic of any circuit is evaluable and on (x, dy) returns
   (f(x), J_f(x)ᵀ·dy): reverse-mode differentiation by optic composition obeys the chain rule."

  See the report at the end of the file for what is proved and what is open.
-/
import OHVerif.Lemmas.RevDeriv
import OHVerif.Props.C14Optic
import OHVerif.Props.C12Subst

namespace OH.C14
open OH OH.Graph OH.RevDeriv OH.Optic OH.SFunctor

section semantic
variable {R : Type} [CommRing R] {O A : Type}

/-! ## 1. the two-pass computation on a circuit (semantic level) -/

/-- the forward interpretation of the generators induced by their lenses -/
def fwdOf (lens : A → Lens R) (a : A) (x : List R) : List R := ((lens a).fwd x).1

/-- `adj` is a cotangent labelling of `d` for the primal labelling `val` and the output cotangent
    `dy`: it carries `dy` on the output interface, and at every hyperedge the cotangents of the
    sources are the reverse image (with the residual of the forward pass at that hyperedge) of the
    cotangents of the targets -/
structure IsCotangent (d : PDiag O A) (lens : A → Lens R) (val adj : Nat → R) (dy : List R) :
    Prop where
  outs : d.outs.map adj = dy
  ops : ∀ e ∈ d.edges, e.src.map adj =
    (lens e.label).rev ((lens e.label).fwd (e.src.map val)).2 (e.tgt.map adj)

/-- every hyperedge of `d` is interpreted by a correct reverse-derivative lens of the right
    output arity, at every point of the right input arity -/
def LensesCorrect (d : PDiag O A) (lens : A → Lens R) (semD : A → List (Dual R) → List (Dual R)) :
    Prop :=
  ∀ e ∈ d.edges, ∀ x : List R, x.length = e.src.length →
    (lens e.label).Correct (semD e.label) x ∧ ((lens e.label).fwd x).1.length = e.tgt.length

theorem applyOf_eq {T : Type} (opfn : A → List T → List T) : applyOf opfn = Eval.applyOf opfn := rfl

theorem arityOK_of_lenses (f : OHG O A) (lens : A → Lens R)
    (semD : A → List (Dual R) → List (Dual R)) (h : LensesCorrect f.toPlain lens semD) :
    C16.ArityOK f semD ∧ C16.ArityOK f (fwdOf lens) := by
  refine ⟨?_, ?_⟩
  · intro e he args hargs
    obtain ⟨hc, hl⟩ := h e he (args.map Dual.re) (by simpa using hargs)
    have := hc.fwd_eq (args.map Dual.eps) (by simp)
    rw [dualize_re_eps] at this
    rw [← hl, ← this, List.length_map]
  · intro e he args hargs
    exact (h e he args hargs).2

/-- **the two-pass computation is reverse-mode differentiation.**
    Let `f` be a well-formed monogamous acyclic circuit whose generators are interpreted over the
    dual numbers by `semD` and carry correct reverse-derivative lenses `lens`.  Let `val` be the
    valuation of the forward pass on the input `x` and `adj` ANY cotangent labelling for the output
    cotangent `dy`.  Then (every lawful backend):
    * the model evaluator returns `val` on the output interface;
    * the dual-number evaluation of `f` on `x + vε` has real part `val` on the output interface,
      whatever the tangent `v`;
    * `adj` on the input interface has the arity of `x` and is the reverse derivative of the
      function `f` denotes (under the model evaluator, over the dual numbers) at `x` against `dy`:
      `⟨adj|ins, v⟩ = ⟨dy, Df(x)·v⟩` for every tangent `v`. -/
theorem twoPass_correct (B : Backend) (hB : B.Lawful) (f : OHG O A) (hf : f.wf = true)
    (hac : Acyclic f.toPlain) (hm : Monogamous f.toPlain)
    (lens : A → Lens R) (semD : A → List (Dual R) → List (Dual R))
    (hl : LensesCorrect f.toPlain lens semD)
    (x dy : List R) (hx : x.length = f.s.table.length)
    (val adj : Nat → R) (hval : IsValuation f.toPlain (fwdOf lens) (0 : R) x val)
    (hadj : IsCotangent f.toPlain lens val adj dy) :
    eval B f (0 : R) x (applyOf (fwdOf lens)) = .ok (f.t.table.map val) ∧
    (∀ v : List R, v.length = x.length →
      (evalOr B f (0 : Dual R) semD (dualize x v)).map Dual.re = f.t.table.map val) ∧
    (f.s.table.map adj).length = x.length ∧
    IsRevDeriv (evalOr B f (0 : Dual R) semD) x dy (f.s.table.map adj) := by
  have hwf := Eval.toPlain_wf f hf
  have hopac := opAcyclic_of_acyclic f hf hac
  have hsw := monogamous_singleWriter hwf hm
  obtain ⟨harD, harR⟩ := arityOK_of_lenses f lens semD hl
  obtain ⟨_, _, hedges⟩ := Eval.pdiag_wf_unpack hwf
  -- the dual-number evaluation
  have key : ∀ v : List R, v.length = x.length →
      ∃ valD : Nat → Dual R, IsValuation f.toPlain semD (0 : Dual R) (dualize x v) valD ∧
        evalOr B f (0 : Dual R) semD (dualize x v) = f.t.table.map valD ∧
        ∀ u, u < f.toPlain.n → (valD u).re = val u := by
    intro v hv
    obtain ⟨outs, valD, hev, hvalD, houts⟩ := C16.eval_spec B hB f hf semD (0 : Dual R)
      (dualize x v) hopac hsw harD (by rw [dualize_length x v hv, hx])
    refine ⟨valD, hvalD, ?_, ?_⟩
    · unfold evalOr
      rw [applyOf_eq, hev, houts]
    · -- the real part of the dual valuation is a valuation of the forward pass
      have hre : IsValuation f.toPlain (fwdOf lens) (0 : R) x (fun u => (valD u).re) := by
        refine ⟨?_, ?_, ?_⟩
        · have := congrArg (List.map Dual.re) hvalD.ins
          rw [dualize_map_re x v hv, List.map_map] at this
          exact this
        · intro e he
          have h1 := congrArg (List.map Dual.re) (hvalD.ops e he)
          rw [List.map_map] at h1
          have h2 := (hl e he ((e.src.map valD).map Dual.re) (by simp)).1.fwd_eq
            ((e.src.map valD).map Dual.eps) (by simp)
          rw [dualize_re_eps] at h2
          rw [List.map_map] at h2
          exact h1.trans h2
        · intro u hu hni hnt
          rw [hvalD.rest u hu hni hnt]
          rfl
      intro u hu
      exact Eval.valuation_unique hwf (noCycle_of_acyclic hac) hre hval u hu
  refine ⟨?_, ?_, ?_, ?_⟩
  · rw [applyOf_eq]
    exact C16.eval_eq_of_valuation B hB f hf (fwdOf lens) (0 : R) x hopac hsw harR hx hval
  · intro v hv
    obtain ⟨valD, _, hev, hre⟩ := key v hv
    rw [hev, List.map_map]
    apply List.map_congr_left
    intro u hu
    obtain ⟨_, _, htw, _, htt⟩ := Eval.ohg_wf_unpack f hf
    exact hre u (show u < f.h.w.length from htt ▸ htw u hu)
  · rw [List.length_map, hx]
  · intro v hv
    obtain ⟨valD, hvalD, hev, hre⟩ := key v hv
    have hsrc : ∀ e ∈ f.toPlain.edges, e.src.map (fun u => (valD u).re) = e.src.map val :=
      fun e he => List.map_congr_left (fun u hu => hre u ((hedges e he).1 u hu))
    have hcons := revDeriv_of_labellings hwf hm semD valD adj hvalD.ops (by
      intro e he
      rw [hsrc e he, hadj.ops e he]
      obtain ⟨hc, hlen⟩ := hl e he (e.src.map val) (by simp)
      exact hc.rev_eq _ (by rw [hlen, List.length_map]))
    have hins : f.toPlain.ins.map (fun u => (valD u).eps) = v := by
      have := congrArg (List.map Dual.eps) hvalD.ins
      rw [dualize_map_eps x v hv, List.map_map] at this
      exact this
    rw [hins, hadj.outs] at hcons
    rw [hev, List.map_map]
    exact hcons

/-! ### the reverse pass exists and is unique: it is the evaluation of the reversed diagram -/

/-- the reversed diagram of the reverse pass: every hyperedge `a : S → T` becomes
    `(a, residual) : T → S`, the interfaces are exchanged -/
def revDiag (d : PDiag O A) (lens : A → Lens R) (val : Nat → R) : PDiag O (A × List R) :=
  ⟨d.nodes, d.edges.map (fun e =>
    ⟨(e.label, ((lens e.label).fwd (e.src.map val)).2), e.tgt, e.src⟩), d.outs, d.ins⟩

/-- interpretation of the reversed hyperedges: the reverse map of the lens at the residual -/
def revFn (lens : A → Lens R) (p : A × List R) (dz : List R) : List R := (lens p.1).rev p.2 dz

omit [CommRing R] in
theorem revDiag_wf {d : PDiag O A} (lens : A → Lens R) (val : Nat → R) (hwf : d.wf = true) :
    (revDiag d lens val).wf = true := by
  obtain ⟨h1, h2, h3⟩ := Eval.pdiag_wf_unpack hwf
  refine (PDiag.wf_iff _).2 ⟨h2, h1, ?_⟩
  intro e he
  obtain ⟨e0, he0, rfl⟩ := List.mem_map.1 he
  exact ⟨(h3 e0 he0).2, (h3 e0 he0).1⟩

omit [CommRing R] in
theorem revDiag_opDep {d : PDiag O A} (lens : A → Lens R) (val : Nat → R) {x y : Nat}
    (h : opDep (revDiag d lens val) x y) : opDep d y x := by
  obtain ⟨ex, ey, v, hx, hy, hv1, hv2⟩ := h
  simp only [revDiag, List.getElem?_map, Option.map_eq_some_iff] at hx hy
  obtain ⟨ex0, hx0, rfl⟩ := hx
  obtain ⟨ey0, hy0, rfl⟩ := hy
  exact ⟨ey0, ex0, v, hy0, hx0, hv2, hv1⟩

theorem isCotangent_of_valuation {d : PDiag O A} {lens : A → Lens R} {val adj : Nat → R}
    {dy : List R} (h : IsValuation (revDiag d lens val) (revFn lens) (0 : R) dy adj) :
    IsCotangent d lens val adj dy :=
  ⟨h.ins, fun e he => h.ops _ (List.mem_map.2 ⟨e, he, rfl⟩)⟩

theorem valuation_of_isCotangent {d : PDiag O A} {lens : A → Lens R} {val adj : Nat → R}
    {dy : List R} (hwf : d.wf = true) (hm : Monogamous d) (h : IsCotangent d lens val adj dy) :
    IsValuation (revDiag d lens val) (revFn lens) (0 : R) dy adj := by
  refine ⟨h.outs, ?_, ?_⟩
  · intro e he
    obtain ⟨e0, he0, rfl⟩ := List.mem_map.1 he
    exact h.ops e0 he0
  · intro v hv hni hnt
    exfalso
    have : v ∈ readers d := (monogamous_readers_perm hwf hm).mem_iff.2 (List.mem_range.2 hv)
    rcases List.mem_append.1 this with h1 | h1
    · exact hni h1
    · obtain ⟨e, he, hve⟩ := List.mem_flatMap.1 h1
      exact hnt _ (List.mem_map.2 ⟨e, he, rfl⟩) hve

/-- **the reverse pass is evaluable and deterministic**: on a well-formed monogamous acyclic
    circuit with correct lenses there is a cotangent labelling for every output cotangent of the
    right arity, and any two agree on every node -/
theorem cotangent_exists_unique (f : OHG O A) (hf : f.wf = true)
    (hac : Acyclic f.toPlain) (hm : Monogamous f.toPlain)
    (lens : A → Lens R) (semD : A → List (Dual R) → List (Dual R))
    (hl : LensesCorrect f.toPlain lens semD) (val : Nat → R)
    (dy : List R) (hdy : dy.length = f.t.table.length) :
    (∃ adj, IsCotangent f.toPlain lens val adj dy) ∧
    ∀ adj adj', IsCotangent f.toPlain lens val adj dy → IsCotangent f.toPlain lens val adj' dy →
      ∀ v, v < f.h.w.length → adj v = adj' v := by
  have hwf := Eval.toPlain_wf f hf
  have hwf' := revDiag_wf lens val hwf
  obtain ⟨lay, hlay⟩ := Eval.exists_lay_of_noCycle f.toPlain (noCycle_of_acyclic hac)
  obtain ⟨L, hL⟩ := exists_bound lay f.toPlain.edges.length
  have hdep : ∀ x y, opDep (revDiag f.toPlain lens val) x y → L - lay x < L - lay y := by
    intro x y hxy
    have h1 := revDiag_opDep lens val hxy
    have h2 := hlay y x h1
    have h3 := hL x (Eval.opDep_lt h1).2
    omega
  refine ⟨?_, ?_⟩
  · have hsw : SingleWriter (revDiag f.toPlain lens val) := by
      have := (monogamous_readers_perm hwf hm).nodup_iff.2 List.nodup_range
      unfold readers at this
      unfold SingleWriter revDiag
      simpa [List.flatMap_map] using this
    have har : Eval.Arity (revDiag f.toPlain lens val) (revFn lens) := by
      intro e he args hargs
      obtain ⟨e0, he0, rfl⟩ := List.mem_map.1 he
      obtain ⟨hc, hlen⟩ := hl e0 he0 (e0.src.map val) (by simp)
      have := hc.rev_length args (by rw [hlen]; exact hargs)
      simpa [revFn] using this
    obtain ⟨adj, hadj⟩ := exists_valuation_of_lay (revDiag f.toPlain lens val) (revFn lens) (0 : R)
      dy hwf' hsw har hdy (fun y => L - lay y) hdep
    exact ⟨adj, isCotangent_of_valuation hadj⟩
  · intro adj adj' h h' v hv
    exact Eval.valuation_unique_of_lay (fun y => L - lay y) hwf' hdep
      (valuation_of_isCotangent hwf hm h) (valuation_of_isCotangent hwf hm h') v hv

end semantic

variable {O1 A1 O2 A2 : Type}

/-! ## 2. the optic image of a batch of operations, semantically -/

theorem split_mid {α : Type} {b1 dB yB c2 : List α} {k : Nat} (h : b1 ++ dB = yB ++ c2)
    (h1 : b1.length = yB.length + k) (h2 : c2.length = k + dB.length) :
    ∃ M, M.length = k ∧ b1 = yB ++ M ∧ c2 = M ++ dB := by
  refine ⟨b1.drop yB.length, by simp [h1], ?_, ?_⟩
  · have := congrArg (List.take yB.length) h
    rw [List.take_append_of_le_length (by omega), List.take_left'  rfl] at this
    conv_lhs => rw [← List.take_append_drop yB.length b1]
    rw [this]
  · have := congrArg (List.drop yB.length) h
    rw [List.drop_append_of_le_length (by omega), List.drop_left' rfl] at this
    exact this.symm

section
variable [DecidableEq O2]

theorem optic_mapOperations_sem (B : Backend) (hB : B.Lawful) (P : SOptic O1 A1 O2 A2)
    (ops : Operations O1 A1) (h : OpticOK P ops) (nA nB : Nat)
    (ufa : h.fa.sources.table = List.replicate nA 1) (ura : h.ra.sources.table = List.replicate nA 1)
    (ufb : h.fb.sources.table = List.replicate nB 1) (urb : h.rb.sources.table = List.replicate nB 1) :
    ∃ fx c : OHG O2 A2, SOptic.mapOperations B P ops = .ok fx ∧
      HasType fx (interleave h.fa.segsL h.ra.segsL) (interleave h.fb.segsL h.rb.segsL) ∧
      fx.h.x = h.fwd.h.x ++ h.rev.h.x ∧
      HasType c (h.fa.values ++ h.rb.values) (h.fb.values ++ h.ra.values) ∧
      fx.toPlain ≅ ⟨c.toPlain.nodes, c.toPlain.edges,
        il2 (c.toPlain.ins.take nA) (c.toPlain.outs.drop nB),
        il2 (c.toPlain.outs.take nB) (c.toPlain.ins.drop nA)⟩ ∧
      (Monogamous h.fwd.toPlain → Monogamous h.rev.toPlain → Monogamous c.toPlain) ∧
      (∀ (T : Type) [Inhabited T] (Φ : A2 → List T → List T → Prop) (x dB yB gA : List T),
        x.length = nA → dB.length = nB → yB.length = nB → gA.length = nA →
        (Den Φ c.toPlain (x ++ dB) (yB ++ gA) ↔ ∃ M, M.length = h.m.values.length ∧
          Den Φ h.fwd.toPlain x
            (interleave (splitSegs ((groupSegs ops.b h.fb).map List.length) yB)
              (splitSegs h.m.sources.table M)) ∧
          Den Φ h.rev.toPlain
            (interleave (splitSegs h.m.sources.table M)
              (splitSegs ((groupSegs ops.b h.rb).map List.length) dB)) gA)) := by
  obtain ⟨la, va⟩ := unit_family h.fa nA h.fa_valid ufa
  obtain ⟨la', va'⟩ := unit_family h.ra nA h.ra_valid ura
  obtain ⟨lb, vb⟩ := unit_family h.fb nB h.fb_valid ufb
  obtain ⟨lb', vb'⟩ := unit_family h.rb nB h.rb_valid urb
  -- the regrouped object images
  obtain ⟨bfb, hbfb, bfbV, bfbValid, bfbLen, bfbSegs⟩ :=
    C08.flatmapSources_specL ops.b h.fb h.b_valid h.fb_valid h.len_fb.symm
  obtain ⟨brb, hbrb, brbV, brbValid, brbLen, brbSegs⟩ :=
    C08.flatmapSources_specL ops.b h.rb h.b_valid h.rb_valid h.len_rb.symm
  have sB : bfb.sources.table = (groupSegs ops.b h.fb).map List.length := by
    rw [← IC.segsL_map_length bfb bfbValid, bfbSegs]; rfl
  have sB' : brb.sources.table = (groupSegs ops.b h.rb).map List.length := by
    rw [← IC.segsL_map_length brb brbValid, brbSegs]; rfl
  -- the interleavings
  obtain ⟨fwdIl0, e1, t1, x1, p1, _, m1, d1⟩ := il_sem (A := A2) bfb h.m bfbValid h.m_valid
    (bfbLen.trans h.len_m.symm)
  obtain ⟨revCo, e2, t2, x2, p2, m2, _, d2⟩ := il_sem (A := A2) h.m brb h.m_valid brbValid
    (h.len_m.trans brbLen.symm)
  rw [bfbV, bfbSegs] at t1
  rw [brbV, brbSegs] at t2
  -- identities
  obtain ⟨iFb, e5, t5, x5, _, i5a, i5b, m5⟩ := identity_sem (A := A2) h.fb.values
  obtain ⟨iRb, e6, t6, x6, _, i6a, i6b, m6⟩ := identity_sem (A := A2) h.rb.values
  have tfwd : HasType h.fwd h.fa.values (interleave (groupSegs ops.b h.fb) h.m.segsL) :=
    ⟨h.fwd_wf, h.fwd_src, h.fwd_tgt⟩
  have trev : HasType h.rev (interleave h.m.segsL (groupSegs ops.b h.rb)) h.ra.values :=
    ⟨h.rev_wf, h.rev_src, h.rev_tgt⟩
  obtain ⟨l1, e7, t7, x7, _, d7, m7⟩ := compose_sem B hB tfwd t1.dagger
  obtain ⟨lhs, e8, t8, x8, _, d8, m8⟩ := tensor_sem t7 t6
  obtain ⟨r1, e9, t9, x9, _, d9, m9⟩ := compose_sem B hB t2 trev
  obtain ⟨rhs, e10, t10, x10, _, d10, m10⟩ := tensor_sem t5 t9
  rw [List.append_assoc] at t8
  obtain ⟨c, e11, t11, x11, _, d11, m11⟩ := compose_sem B hB t8 t10
  -- bending
  obtain ⟨d, e12, td, dh, ds, dt⟩ := partialDagger_typed c h.fa h.fb h.ra h.rb _ _ _ _ t11 rfl rfl
    rfl rfl
  obtain ⟨il0, rhs2, e, fx, e3, e4, e13, e14, tfx, xfx, ifx⟩ := il_bend B hB h.fa h.ra h.fb h.rb
    h.fa_valid h.ra_valid h.fb_valid h.rb_valid nA nB ufa ura ufb urb d td
  refine ⟨fx, c, ?_, tfx, ?_, t11, ?_, ?_, ?_⟩
  · unfold SOptic.mapOperations
    simp only [h.fwd_eq, h.rev_eq, h.fa_eq, h.fb_eq, h.ra_eq, h.rb_eq, h.m_eq, hbfb, hbrb, e1, e2,
      e3, e4, e5, e6, e7, e8, e9, e10, e11, e12, e13, e14, Res.ok_bind, Res.unwrap_ok]
  · rw [xfx, dh, x11, x8, x10, x7, x9, x5, x6, x2]
    show ((h.fwd.h.x ++ fwdIl0.h.x) ++ []) ++ ([] ++ ([] ++ h.rev.h.x)) = _
    rw [x1]; simp
  · have hd : d.toPlain = ⟨c.toPlain.nodes, c.toPlain.edges,
        c.toPlain.ins.take nA ++ c.toPlain.outs.drop nB,
        c.toPlain.outs.take nB ++ c.toPlain.ins.drop nA⟩ := by
      show (⟨d.h.w, d.h.toPlainEdges, d.s.table, d.t.table⟩ : PDiag O2 A2) = _
      rw [dh, ds, dt, va, vb]; rfl
    rw [hd] at ifx
    have li : c.toPlain.ins.length = nA + nB := by
      rw [C03.plain_ins_length ((OHG.wf_iff c).2 t11.1) t11.2.1]; simp [va, vb']
    have lo : c.toPlain.outs.length = nB + nA := by
      rw [C03.plain_outs_length ((OHG.wf_iff c).2 t11.1) t11.2.2]; simp [vb, va']
    have e1 : (c.toPlain.ins.take nA ++ c.toPlain.outs.drop nB).take nA = c.toPlain.ins.take nA := by
      rw [List.take_left' (by rw [List.length_take]; omega)]
    have e2 : (c.toPlain.ins.take nA ++ c.toPlain.outs.drop nB).drop nA = c.toPlain.outs.drop nB := by
      rw [List.drop_left' (by rw [List.length_take]; omega)]
    have e3 : (c.toPlain.outs.take nB ++ c.toPlain.ins.drop nA).take nB = c.toPlain.outs.take nB := by
      rw [List.take_left' (by rw [List.length_take]; omega)]
    have e4 : (c.toPlain.outs.take nB ++ c.toPlain.ins.drop nA).drop nB = c.toPlain.ins.drop nA := by
      rw [List.drop_left' (by rw [List.length_take]; omega)]
    simp only [e1, e2, e3, e4] at ifx
    exact ifx
  · intro mf mr
    exact m11 (m8 (m7 mf m1) m6) (m10 m5 (m9 m2 mr))
  · intro T _ Φ x dB yB gA hx hdB hyB hgA
    have wfwd : h.fwd.wf = true := (OHG.wf_iff _).2 h.fwd_wf
    have wiFb : iFb.wf = true := (OHG.wf_iff _).2 t5.1
    have bv : bfb.values.length = nB := by rw [bfbV]; exact vb
    have brv : brb.values.length = nB := by rw [brbV]; exact vb'
    have sumB : bfb.sources.table.sum = yB.length := by
      have := ((IC.valid_iff bfb).1 bfbValid).2
      simp only [IC.len_list] at this
      rw [this, bv, hyB]
    have sumM : ∀ M : List T, M.length = h.m.values.length → h.m.sources.table.sum = M.length := by
      intro M hM
      have := ((IC.valid_iff h.m).1 h.m_valid).2
      simp only [IC.len_list] at this
      rw [this, hM]
    have lenM : h.m.sources.table.length = bfb.len := (bfbLen.trans h.len_m.symm).symm
    have lenB' : brb.sources.table.length = h.m.len := (h.len_m.trans brbLen.symm).symm
    have g1 : ∀ M : List T, M.length = h.m.values.length →
        Prim.gatherP (yB ++ M) (ilTable (bfb.sources.table ++ h.m.sources.table) bfb.len) =
        interleave (splitSegs ((groupSegs ops.b h.fb).map List.length) yB)
          (splitSegs h.m.sources.table M) := by
      intro M hM
      rw [← sB]
      exact gatherP_ilTable _ _ _ _ _ rfl lenM sumB
    have g2 : ∀ M : List T, M.length = h.m.values.length →
        Prim.gatherP (M ++ dB) (ilTable (h.m.sources.table ++ brb.sources.table) h.m.len) =
        interleave (splitSegs h.m.sources.table M)
          (splitSegs ((groupSegs ops.b h.rb).map List.length) dB) := by
      intro M hM
      rw [← sB']
      exact gatherP_ilTable _ _ _ _ _ rfl lenB' (sumM M hM)
    constructor
    · intro hc
      obtain ⟨mid, hl, hr⟩ := (d11 T Φ _ _).1 hc
      obtain ⟨a1, a2, b1, b2, hu, hmid, hl1, hid⟩ := (d8 T Φ _ _).1 hl
      obtain ⟨z, hfz, hz⟩ := (d7 T Φ _ _).1 hl1
      obtain ⟨hb1, hzg⟩ := ((d1 T Φ b1 z).2).1 hz
      have ha1 : a1.length = nA := by
        rw [(den_length hfz).1, C03.plain_ins_length wfwd h.fwd_src, va]
      obtain ⟨rfl, rfl⟩ := List.append_inj hu (by rw [hx, ha1])
      have := i6a T Φ _ _ hid
      subst this
      obtain ⟨c1, c2, d1', d2', hmid2, hw, hiF, hr1⟩ := (d10 T Φ _ _).1 hr
      have := i5a T Φ _ _ hiF
      subst this
      obtain ⟨z', hco, hrev⟩ := (d9 T Φ _ _).1 hr1
      obtain ⟨hc2, hzg'⟩ := ((d2 T Φ c2 z').1).1 hco
      have hc1 : c1.length = nB := by
        rw [(den_length hiF).1, C03.plain_ins_length wiFb t5.2.1, vb]
      obtain ⟨rfl, rfl⟩ := List.append_inj hw (by rw [hyB, hc1])
      rw [hmid] at hmid2
      obtain ⟨M, hM, rfl, rfl⟩ := split_mid (k := h.m.values.length) hmid2
        (by rw [hb1, List.length_append, bv, hyB])
        (by rw [hc2, List.length_append, brv, hdB])
      refine ⟨M, hM, ?_, ?_⟩
      · rw [← g1 M hM, ← hzg]; exact hfz
      · rw [← g2 M hM, ← hzg']; exact hrev
    · rintro ⟨M, hM, hf, hr⟩
      refine (d11 T Φ _ _).2 ⟨(yB ++ M) ++ dB, ?_, ?_⟩
      · refine (d8 T Φ _ _).2 ⟨x, dB, yB ++ M, dB, rfl, rfl, ?_, ?_⟩
        · refine (d7 T Φ _ _).2 ⟨_, hf, ?_⟩
          refine ((d1 T Φ (yB ++ M) _).2).2 ⟨?_, (g1 M hM).symm⟩
          rw [List.length_append, List.length_append, bv, hyB, hM]
        · exact i6b T Φ dB (by rw [hdB, vb'])
      · rw [List.append_assoc]
        refine (d10 T Φ _ _).2 ⟨yB, M ++ dB, yB, gA, rfl, rfl, ?_, ?_⟩
        · exact i5b T Φ yB (by rw [hyB, vb])
        · refine (d9 T Φ _ _).2 ⟨_, ?_, hr⟩
          refine ((d2 T Φ (M ++ dB) _).1).2 ⟨?_, (g2 M hM).symm⟩
          rw [List.length_append, List.length_append, brv, hdB, hM]

end

/-! ## 3. the optic image of a circuit and its adapted form -/

/-- both component functors of the strict optic send every object to ONE object: the forward
    functor `o ↦ fo o`, the reverse functor `o ↦ ro o` -/
structure UnitObj (sp : SOptic O1 A1 O2 A2) (fo ro : O1 → O2) : Prop where
  fwd : ∀ l : List O1, ∃ c, sp.fwd.mapObject l = .ok c ∧ C08.Valid c ∧ c.segsL = l.map (fun o => [fo o])
  rev : ∀ l : List O1, ∃ c, sp.rev.mapObject l = .ok c ∧ C08.Valid c ∧ c.segsL = l.map (fun o => [ro o])

theorem unit_of_segsL {α β : Type} (c : IC (List β)) (l : List α) (g : α → β) (hc : C08.Valid c)
    (hs : c.segsL = l.map (fun o => [g o])) :
    c.sources.table = List.replicate l.length 1 ∧ c.values = l.map g := by
  constructor
  · rw [← IC.segsL_map_length c hc, hs, List.map_map]
    apply List.ext_getElem <;> simp
  · rw [← IC.segsL_flatten c hc, hs]
    exact C12.flatten_map_singleton g l

theorem il2_eq_flatMap {α β : Type} (l : List α) (f g : α → β) :
    il2 (l.map f) (l.map g) = l.flatMap (fun o => [f o, g o]) := by
  induction l with
  | nil => rfl
  | cons x l ih => simp [il2, ih]

theorem interleave_units {α β : Type} (l : List α) (f g : α → β) :
    interleave (l.map (fun o => [f o])) (l.map (fun o => [g o])) =
      l.flatMap (fun o => [f o, g o]) := by
  have e1 : l.map (fun o => [f o]) = (l.map f).map (fun x => [x]) := by
    rw [List.map_map]; rfl
  have e2 : l.map (fun o => [g o]) = (l.map g).map (fun x => [x]) := by
    rw [List.map_map]; rfl
  rw [e1, e2, interleave_singletons, il2_eq_flatMap]

theorem interleave_units_length {α β : Type} (l : List α) (f g : α → β) :
    (interleave (l.map (fun o => [f o])) (l.map (fun o => [g o]))).length = 2 * l.length := by
  rw [interleave_units, ← il2_eq_flatMap, il2_length _ _ (by simp), List.length_map]

theorem zipWith_singletons {α β : Type} (l : List α) (f g : α → β) :
    List.zipWith (· ++ ·) (l.map (fun o => [f o])) (l.map (fun o => [g o])) =
      l.map (fun o => [f o, g o]) := by
  induction l with
  | nil => rfl
  | cons x l ih => simp [ih]

theorem sum_replicate_two (j : Nat) : (List.replicate j 2).sum = 2 * j := by
  induction j with
  | zero => rfl
  | succ j ih => rw [List.replicate_succ, List.sum_cons, ih]; omega

/-- with two-element blocks, the expansion of a list of node indices doubles it -/
theorem expand_pairs (fw : IC (List O2)) (n : Nat) (hv : fw.valid = true)
    (h2 : fw.sources.table = List.replicate n 2) (ids : List Nat) (hid : ∀ i ∈ ids, i < n) :
    C12.expand fw ids = dbl ids := by
  rw [Subst.expand_eq fw hv, dbl_eq_flatMap]
  apply List.flatMap_congr
  intro j hj
  have hjn := hid j hj
  unfold Subst.blockS
  have e1 : ((List.replicate n 2).take j).sum = 2 * j := by
    rw [List.take_replicate, Nat.min_eq_left (Nat.le_of_lt hjn)]
    exact sum_replicate_two j
  have e2 : (List.replicate n 2).getD j 0 = 2 := by
    simp [List.getD_eq_getElem?_getD, hjn]
  rw [h2, e1, e2]
  rfl

section
variable [DecidableEq O2]

omit [DecidableEq O2] in
/-- the optic's own object map on a list `l`: the segments `[fo o, ro o]` -/
theorem optic_unit_object (sp : SOptic O1 A1 O2 A2) (fo ro : O1 → O2) (hU : UnitObj sp fo ro)
    (l : List O1) :
    ∃ cF cR c, sp.fwd.mapObject l = .ok cF ∧ sp.rev.mapObject l = .ok cR ∧
      sp.mapObject l = .ok c ∧ C08.Valid cF ∧ C08.Valid cR ∧ C08.Valid c ∧
      cF.segsL = l.map (fun o => [fo o]) ∧ cR.segsL = l.map (fun o => [ro o]) ∧
      c.segsL = l.map (fun o => [fo o, ro o]) ∧
      cF.sources.table = List.replicate l.length 1 ∧ cR.sources.table = List.replicate l.length 1 ∧
      cF.values = l.map fo ∧ cR.values = l.map ro := by
  obtain ⟨cF, hF, vF, sF⟩ := hU.fwd l
  obtain ⟨cR, hR, vR, sR⟩ := hU.rev l
  obtain ⟨uF, wF⟩ := unit_of_segsL cF l fo vF sF
  obtain ⟨uR, wR⟩ := unit_of_segsL cR l ro vR sR
  have hlen : cF.len = cR.len := by
    show cF.sources.table.length = cR.sources.table.length
    rw [uF, uR]
  obtain ⟨c, hc, vc, _, sc⟩ := optic_object_spec sp l cF cR hF hR vF vR hlen
  refine ⟨cF, cR, c, hF, hR, hc, vF, vR, vc, sF, sR, ?_, uF, uR, wF, wR⟩
  rw [sc, sF, sR, zipWith_singletons]

theorem optic_adapt_sem (B : Backend) (hB : B.Lawful) (sp : SOptic O1 A1 O2 A2) (fo ro : O1 → O2)
    (hU : UnitObj sp fo ro) (sf : OHG O1 A1) (hf : sf.WF) (h : OpticOK sp (C12.opsOf sf)) :
    ∃ (fx ot r : OHG O2 A2) (a b : List O1) (W : List O2),
      SOptic.mapOperations B sp (C12.opsOf sf) = .ok fx ∧
      sf.source = .ok a ∧ sf.target = .ok b ∧
      SFunctor.mapArrow B (sp.toFunctor B) sf = .ok ot ∧ sp.adapt B ot a b = .ok r ∧
      HasType r (a.map fo ++ b.map ro) (b.map fo ++ a.map ro) ∧
      r.h.x = fx.h.x ∧ ot.wf = true ∧
      W.length = 2 * sf.h.w.length ∧
      IsQuot (Subst.substP W (dbl sf.s.table) (dbl sf.t.table) fx.toPlain)
        (Subst.substR W (dbl sf.h.s.values.table) (dbl sf.h.t.values.table) fx.toPlain)
        ot.toPlain ∧
      r.toPlain ≅ unbend ot.toPlain := by
  -- unit families of the batch
  obtain ⟨cF, cR, _, hF, hR, _, _, _, _, _, _, _, uF, uR, wF, wR⟩ :=
    optic_unit_object sp fo ro hU (C12.opsOf sf).a.values
  obtain ⟨cF', cR', _, hF', hR', _, _, _, _, _, _, _, uF', uR', wF', wR'⟩ :=
    optic_unit_object sp fo ro hU (C12.opsOf sf).b.values
  have e1 : cF = h.fa := by have := h.fa_eq; rw [hF] at this; exact Res.ok.inj this
  have e2 : cR = h.ra := by have := h.ra_eq; rw [hR] at this; exact Res.ok.inj this
  have e3 : cF' = h.fb := by have := h.fb_eq; rw [hF'] at this; exact Res.ok.inj this
  have e4 : cR' = h.rb := by have := h.rb_eq; rw [hR'] at this; exact Res.ok.inj this
  subst e1 e2 e3 e4
  obtain ⟨fx, c, hfx, tfx, xfx, _, _, _, _⟩ := optic_mapOperations_sem B hB sp (C12.opsOf sf) h
    _ _ uF uR uF' uR'
  -- the object image of the nodes
  obtain ⟨fwF, fwR, fw, _, _, hfw, _, _, vfw, sfwF, sfwR, sfw, _, _, _, _⟩ :=
    optic_unit_object sp fo ro hU sf.h.w
  have hobjlen : ∀ l : List O1, (l.map (fun o => [fo o, ro o])).map List.length =
      List.replicate l.length 2 := by
    intro l; apply List.ext_getElem <;> simp
  have hfw2 : fw.sources.table = List.replicate sf.h.w.length 2 := by
    rw [← IC.segsL_map_length fw vfw, sfw, hobjlen]
  have hfwv : fw.values = sf.h.w.flatMap (fun o => [fo o, ro o]) := by
    rw [← IC.segsL_flatten fw vfw, sfw, List.flatten_eq_flatMap, List.flatMap_map]; rfl
  have hWlen : fw.values.length = 2 * sf.h.w.length := by
    have := ((IC.valid_iff fw).1 vfw).2
    simp only [IC.len_list] at this
    rw [← this, hfw2, sum_replicate_two]
  -- the functor data
  have hsrcfx : fx.source = .ok ((C12.opsOf sf).a.values.flatMap (fun o => [fo o, ro o])) := by
    rw [tfx.2.1]
    obtain ⟨_, _, _, hF2, hR2, _, _, _, _, s1, s2, _⟩ :=
      optic_unit_object sp fo ro hU (C12.opsOf sf).a.values
    rw [h.fa_eq] at hF2; rw [h.ra_eq] at hR2
    cases hF2; cases hR2
    rw [s1, s2, interleave_units]
  have htgtfx : fx.target = .ok ((C12.opsOf sf).b.values.flatMap (fun o => [fo o, ro o])) := by
    rw [tfx.2.2]
    obtain ⟨_, _, _, hF2, hR2, _, _, _, _, s1, s2, _⟩ :=
      optic_unit_object sp fo ro hU (C12.opsOf sf).b.values
    rw [h.fb_eq] at hF2; rw [h.rb_eq] at hR2
    cases hF2; cases hR2
    rw [s1, s2, interleave_units]
  obtain ⟨hFOK, hexp⟩ := C12.functorOK_of_objHom (sp.toFunctor B) (fun o => [fo o, ro o]) sf hf fw fx
    hfw vfw sfw ⟨hfx, tfx.1, hsrcfx, htgtfx⟩
  obtain ⟨ot, hot, wot, sot, tot, qot⟩ := C12.mapArrow_subst B hB (sp.toFunctor B) sf fw fx hf hFOK
  -- boundary types
  have hsa := OHG.source_eq sf hf.src_wf hf.src_nodes
  have hsb := OHG.target_eq sf hf.tgt_wf hf.tgt_nodes
  obtain ⟨fa', ra', _, hfa', hra', _, vfa', vra', _, sfa', sra', _, ufa', ura', wfa', wra'⟩ :=
    optic_unit_object sp fo ro hU (Prim.gatherP sf.h.w sf.s.table)
  obtain ⟨fb', rb', _, hfb', hrb', _, vfb', vrb', _, sfb', srb', _, ufb', urb', wfb', wrb'⟩ :=
    optic_unit_object sp fo ro hU (Prim.gatherP sf.h.w sf.t.table)
  have tyot : HasType ot (interleave fa'.segsL ra'.segsL) (interleave fb'.segsL rb'.segsL) := by
    refine ⟨(OHG.wf_iff ot).1 wot, ?_, ?_⟩
    · rw [sot, hexp _ hf.src_lt, sfa', sra', interleave_units]
    · rw [tot, hexp _ hf.tgt_lt, sfb', srb', interleave_units]
  obtain ⟨lhs, r0, d1, d, el, er0, ed1, ed, td, xd, id⟩ := il_unbend B hB fa' ra' fb' rb' vfa' vra'
    vfb' vrb' _ _ ufa' ura' ufb' urb' ot tyot
  obtain ⟨r, er, tr, rh, rs, rt⟩ := partialDagger_typed d fa' fb' rb' ra' _ _ _ _ td rfl rfl rfl rfl
  have la : (Prim.gatherP sf.h.w sf.s.table).length = sf.s.table.length :=
    Prim.gatherP_length _ _ hf.src_lt
  have lb : (Prim.gatherP sf.h.w sf.t.table).length = sf.t.table.length :=
    Prim.gatherP_length _ _ hf.tgt_lt
  have nfa : fa'.values.length = sf.s.table.length := by rw [wfa', List.length_map, la]
  have nfb : fb'.values.length = sf.t.table.length := by rw [wfb', List.length_map, lb]
  refine ⟨fx, ot, r, _, _, fw.values, hfx, hsa, hsb, hot, ?_, ?_, ?_, wot, hWlen, ?_, ?_⟩
  · unfold SOptic.adapt
    simp only [hfa', hfb', hra', hrb', el, er0, ed1, ed, Res.ok_bind, Res.unwrap_ok]
    exact er
  · rw [← wfa', ← wrb', ← wfb', ← wra']; exact tr
  · rw [show r.h.x = d.h.x from by rw [rh], xd]
    obtain ⟨ot', hot', _, _, _, hx', _⟩ := C12.mapArrow_spec B hB (sp.toFunctor B) sf fw fx hf hFOK
    rw [hot] at hot'
    cases hot'
    exact hx'
  · rw [C12.substPre_eq, C12.substRel_eq] at qot
    rw [expand_pairs fw _ vfw hfw2 _ hf.src_lt, expand_pairs fw _ vfw hfw2 _ hf.tgt_lt,
      expand_pairs fw _ vfw hfw2 _ hf.hyper.src_lt, expand_pairs fw _ vfw hfw2 _ hf.hyper.tgt_lt]
      at qot
    exact qot
  · have hr : r.toPlain = pdPlain sf.s.table.length sf.t.table.length d.toPlain := by
      show (⟨r.h.w, r.h.toPlainEdges, r.s.table, r.t.table⟩ : PDiag O2 A2) = _
      rw [rh, rs, rt, nfa, nfb]; rfl
    rw [hr]
    refine C03.iso_of_eq_right (iso_pdPlain _ _ id) ?_
    have li : ot.toPlain.ins.length = 2 * sf.s.table.length := by
      rw [C03.plain_ins_length wot tyot.2.1, sfa', sra', interleave_units_length, la]
    have lo : ot.toPlain.outs.length = 2 * sf.t.table.length := by
      rw [C03.plain_outs_length wot tyot.2.2, sfb', srb', interleave_units_length, lb]
    have e1 := evens_length _ _ li
    have e2 := evens_length _ _ lo
    show (⟨_, _, (evens ot.toPlain.ins ++ odds ot.toPlain.ins).take _ ++
      (evens ot.toPlain.outs ++ odds ot.toPlain.outs).drop _,
      (evens ot.toPlain.outs ++ odds ot.toPlain.outs).take _ ++
      (evens ot.toPlain.ins ++ odds ot.toPlain.ins).drop _⟩ : PDiag O2 A2) = unbend ot.toPlain
    rw [List.take_left' e1, List.drop_left' e2, List.take_left' e2, List.drop_left' e1]
    rfl

end

end OH.C14
