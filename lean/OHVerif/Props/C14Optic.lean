/-
  C14 — typing clauses of the strict optic (src/strict/functor/optic.rs).

  "The optic image of a diagram f: A→B built from a forward functor F, a reverse functor R and
   per-operation residuals has type interleave(F A, R A) → interleave(F B, R B) …; its adapted form
   has type F A ● R B → F B ● R A and is monogamous whenever f and the generator images are."

  Vocabulary: `Optic.interleave X Y = (zipWith (++) X Y).flatten` for two families of label
  segments; `Optic.HasType f X Y` = `f.WF ∧ f.source = .ok X ∧ f.target = .ok Y`;
  `Optic.ilTable ks n` = the target leg of `interleave_blocks` (blocks of sizes `ks` read in
  `2 × n`-transposed order); `Optic.pdResult c p p'` = the interface shuffle of `partial_dagger`.

  PROVED (every lawful backend):
  * `interleaveBlocks_spec` / `interleaveBlocks_panics` / `interleaveBlocks_ok_wf` — the discrete
    diagram `a ● b → interleave(a, b)`, identity source leg, bijective target leg;
  * `partialDagger_spec(_gen, _swapped)`, `partialDagger_panics` (the exact length requirements),
    `partialDagger_involutive` (the two bendings cancel), `partialDagger_iso` (preserves `≅`);
  * `adapt_type` — `F A ● R B → F B ● R A`, hyperedges unchanged;
  * `OpticOK`, `optic_mapOperations_type`, `optic_mapOperations_type_obj` — the optic image of a
    batch has type `interleave(F A, R A) → interleave(F B, R B)` = the optic's own object images;
  * `optic_mapOperations_congr`, `optic_mapOperations_indep` (= the statement left open in C20,
    whose validity hypotheses turn out to be superfluous), `optic_indep`;
  * `adapt_mapOperations_partial` — existence, well-formedness, type and edges of the adapted image.
  STATEMENT ONLY: `adapt_monogamous_statement` (monogamy of the adapted image).  The naive reading
  "adapt preserves monogamy" is FALSE (`adapt_not_monogamy_preserving`), and the optic image itself
  is in general not monogamous (witness below).
-/
import OHVerif.Lemmas.Optic
import OHVerif.Props.C14
import OHVerif.Props.C20

namespace OH.C14
open OH OH.Optic

variable {O1 A1 O2 A2 : Type}

/-! ## 1. `interleave_blocks` -/

section
variable [DecidableEq O2]

/-- typed form used internally -/
theorem interleaveBlocks_hasType (a b : IC (List O2)) (ha : C08.Valid a) (hb : C08.Valid b)
    (hl : a.len = b.len) :
    ∃ r : OHG O2 A2, SOptic.interleaveBlocks a b = .ok r ∧
      HasType r (a.values ++ b.values) (interleave a.segsL b.segsL) ∧ r.h.x = [] ∧
      r = ⟨⟨List.range (a.values ++ b.values).length, (a.values ++ b.values).length⟩,
           ⟨ilTable (a.sources.table ++ b.sources.table) a.len,
             (a.sources.table ++ b.sources.table).sum⟩,
           HG.discrete (a.values ++ b.values)⟩ := by
  obtain ⟨_, ha2⟩ := (IC.valid_iff a).1 ha
  obtain ⟨_, hb2⟩ := (IC.valid_iff b).1 hb
  simp only [IC.len_list] at ha2 hb2
  have hl' : a.sources.table.length = b.sources.table.length := hl
  have hsum : (a.sources.table ++ b.sources.table).sum = (a.values ++ b.values).length := by
    simp [ha2, hb2]
  have hlen : (a.sources.table ++ b.sources.table).length = a.len * 2 := by
    show _ = a.sources.table.length * 2
    rw [List.length_append, ← hl']; omega
  have hsW : (⟨List.range (a.values ++ b.values).length, (a.values ++ b.values).length⟩ :
      FinFun).WF := fun x hx => List.mem_range.1 hx
  have htW : (⟨ilTable (a.sources.table ++ b.sources.table) a.len,
      (a.sources.table ++ b.sources.table).sum⟩ : FinFun).WF := ilTable_lt _ _ hlen
  have hW : (⟨⟨List.range (a.values ++ b.values).length, (a.values ++ b.values).length⟩,
      ⟨ilTable (a.sources.table ++ b.sources.table) a.len,
        (a.sources.table ++ b.sources.table).sum⟩,
      HG.discrete (a.values ++ b.values)⟩ : OHG O2 A2).WF :=
    ⟨HG.discrete_WF _, hsW, htW, rfl, hsum⟩
  refine ⟨_, interleaveBlocks_eq a b ha hb hl, ⟨hW, ?_, ?_⟩, rfl, rfl⟩
  · rw [OHG.source_eq _ hsW rfl]
    exact congrArg Res.ok (Prim.gatherP_range _)
  · rw [OHG.target_eq _ htW hsum]
    show Res.ok (Prim.gatherP (a.values ++ b.values)
      (ilTable (a.sources.table ++ b.sources.table) a.len)) = _
    have h1 := gatherP_injections (a.sources.table ++ b.sources.table) (a.values ++ b.values)
      (trTable a.len)
    have h2 : splitSegs (a.sources.table ++ b.sources.table) (a.values ++ b.values) =
        a.segsL ++ b.segsL := splitSegs_append _ _ _ _ ha2
    rw [h2] at h1
    have h3 := trTable_flatMap_segs a.segsL b.segsL a.len (IC.segsL_length a)
      (by rw [IC.segsL_length, hl])
    exact congrArg Res.ok (h1.trans h3)

/-- **`interleave_blocks`** on two valid families of label segments with equally many segments
    (`a = [a₀, …, a_{n-1}]`, `b = [b₀, …, b_{n-1}]`): never fails; the result is the well-formed
    DISCRETE diagram (no hyperedges) on the nodes `a₀ ● … ● a_{n-1} ● b₀ ● … ● b_{n-1}` of type
    `a₀ ● … ● a_{n-1} ● b₀ ● … ● b_{n-1} → a₀ ● b₀ ● a₁ ● b₁ ● …`; its source leg is the identity
    and its target leg a permutation of the nodes — both legs are bijections. -/
theorem interleaveBlocks_spec (a b : IC (List O2)) (ha : C08.Valid a) (hb : C08.Valid b)
    (hl : a.len = b.len) :
    ∃ r : OHG O2 A2, SOptic.interleaveBlocks a b = .ok r ∧ r.WF ∧
      r.source = .ok (a.values ++ b.values) ∧
      r.target = .ok (List.zipWith (· ++ ·) a.segsL b.segsL).flatten ∧
      -- discrete
      r.h = HG.discrete (a.values ++ b.values) ∧ r.h.x = [] ∧ r.toPlain.edges = [] ∧
      r.toPlain.nodes = a.values ++ b.values ∧
      -- the source leg is the identity
      r.s = ⟨List.range (a.values.length + b.values.length), a.values.length + b.values.length⟩ ∧
      -- the target leg is a bijection
      r.t.target = a.values.length + b.values.length ∧
      r.t.table = ilTable (a.sources.table ++ b.sources.table) a.len ∧
      r.t.table.Perm (List.range (a.values.length + b.values.length)) ∧
      r.t.table.Nodup ∧ r.t.table.length = a.values.length + b.values.length := by
  obtain ⟨_, ha2⟩ := (IC.valid_iff a).1 ha
  obtain ⟨_, hb2⟩ := (IC.valid_iff b).1 hb
  simp only [IC.len_list] at ha2 hb2
  have hl' : a.sources.table.length = b.sources.table.length := hl
  have hsum : (a.sources.table ++ b.sources.table).sum = a.values.length + b.values.length := by
    simp [ha2, hb2]
  have hlen : (a.sources.table ++ b.sources.table).length = a.len * 2 := by
    show _ = a.sources.table.length * 2
    rw [List.length_append, ← hl']; omega
  obtain ⟨r, hr, ⟨hw, hs, ht⟩, hx, rfl⟩ := interleaveBlocks_hasType (A2 := A2) a b ha hb hl
  refine ⟨_, hr, hw, hs, ht, rfl, rfl, rfl, rfl, ?_, hsum, rfl, ?_, ?_, ?_⟩
  · simp
  · rw [← hsum]; exact ilTable_perm _ _ hlen
  · exact ilTable_nodup _ _ hlen
  · rw [← hsum]; exact ilTable_length _ _ hlen

/-- the hypotheses are satisfiable non-trivially (segments of different sizes, an empty one) -/
example :
    let a : IC (List String) := ⟨⟨[2, 1], 4⟩, ["a0", "a0'", "a1"]⟩
    let b : IC (List String) := ⟨⟨[0, 2], 3⟩, ["b1", "b1'"]⟩
    C08.Valid a ∧ C08.Valid b ∧ a.len = b.len ∧
    (SOptic.interleaveBlocks a b : Res (OHG String Nat)) =
      .ok ⟨⟨[0, 1, 2, 3, 4], 5⟩, ⟨[0, 1, 2, 3, 4], 5⟩,
        HG.discrete ["a0", "a0'", "a1", "b1", "b1'"]⟩ ∧
    ((SOptic.interleaveBlocks a b : Res (OHG String Nat)) >>= fun r => r.target) =
      .ok ["a0", "a0'", "a1", "b1", "b1'"] := ⟨by decide, by decide, rfl, rfl, by decide⟩

/-- … and with a genuinely permuting target leg -/
example :
    let a : IC (List String) := ⟨⟨[1, 1], 3⟩, ["a0", "a1"]⟩
    let b : IC (List String) := ⟨⟨[2, 1], 4⟩, ["b0", "b0'", "b1"]⟩
    C08.Valid a ∧ C08.Valid b ∧ a.len = b.len ∧
    (SOptic.interleaveBlocks a b : Res (OHG String Nat)) =
      .ok ⟨⟨[0, 1, 2, 3, 4], 5⟩, ⟨[0, 2, 3, 1, 4], 5⟩,
        HG.discrete ["a0", "a1", "b0", "b0'", "b1"]⟩ ∧
    ((SOptic.interleaveBlocks a b : Res (OHG String Nat)) >>= fun r => r.target) =
      .ok ["a0", "b0", "b0'", "a1", "b1"] := ⟨by decide, by decide, rfl, rfl, by decide⟩

/-- families with different numbers of segments: the `panic!` of `interleave_blocks` -/
theorem interleaveBlocks_panics (a b : IC (List O2)) (h : a.len ≠ b.len) :
    (SOptic.interleaveBlocks a b : Res (OHG O2 A2)) = .panic "interleave_blocks:unequal" :=
  interleaveBlocks_panic a b h

example : (SOptic.interleaveBlocks (⟨⟨[1, 1], 3⟩, ["x", "y"]⟩ : IC (List String))
    ⟨⟨[2], 3⟩, ["u", "v"]⟩ : Res (OHG String Nat)) = .panic "interleave_blocks:unequal" := rfl

/-- without any hypothesis: whatever `interleave_blocks` returns is a well-formed diagram without
    hyperedges -/
theorem interleaveBlocks_ok_wf (a b : IC (List O2)) (r : OHG O2 A2)
    (h : SOptic.interleaveBlocks a b = .ok r) : r.WF ∧ r.h.x = [] :=
  interleaveBlocks_ok_WF a b r h

end

/-! ## 2. `partial_dagger` -/

/-- **`partial_dagger(c, fa, fb, ra, rb)`**, exactly as the model (and the Rust code) reads its
    arguments: `c` must have `|fa| + |rb|` source positions and `|fb| + |ra|` target positions,
    i.e. be of type `X ● Y → Z ● W` with `|X| = |fa|, |Y| = |rb|, |Z| = |fb|, |W| = |ra|`
    (only the LENGTHS of the four value arrays are used).  Then no `unwrap` fires and the result is
    the well-formed diagram `X ● W → Z ● Y` on the SAME hypergraph: the `Y`-inputs have become
    outputs and the `W`-outputs inputs. -/
theorem partialDagger_spec_gen (c : OHG O2 A2) (fa fb ra rb : IC (List O2)) (X Y Z W : List O2)
    (hc : c.WF) (hs : c.source = .ok (X ++ Y)) (ht : c.target = .ok (Z ++ W))
    (hX : X.length = fa.values.length) (hY : Y.length = rb.values.length)
    (hZ : Z.length = fb.values.length) (hW : W.length = ra.values.length) :
    ∃ d, SOptic.partialDagger c fa fb ra rb = .ok d ∧ d.WF ∧ d.h = c.h ∧
      d.source = .ok (X ++ W) ∧ d.target = .ok (Z ++ Y) ∧
      d.s.table = c.s.table.take fa.values.length ++ c.t.table.drop fb.values.length ∧
      d.t.table = c.t.table.take fb.values.length ++ c.s.table.drop fa.values.length := by
  obtain ⟨d, hd, ⟨hw, s, t⟩, hh, h1, h2⟩ :=
    partialDagger_typed c fa fb ra rb X Y Z W ⟨hc, hs, ht⟩ hX hY hZ hW
  exact ⟨d, hd, hw, hh, s, t, h1, h2⟩

/-- the instance with the value arrays themselves.  NOTE the argument order: in the model
    `partial_dagger(c, fa, fb, ra, rb)` turns `c : FA ● RB → FB ● RA` into `FA ● RA → FB ● RB`
    (this is how `map_operations` uses it); `adapt` calls it with `rb` and `ra` exchanged to go
    back. -/
theorem partialDagger_spec (c : OHG O2 A2) (fa fb ra rb : IC (List O2)) (hc : c.WF)
    (hs : c.source = .ok (fa.values ++ rb.values)) (ht : c.target = .ok (fb.values ++ ra.values)) :
    ∃ d, SOptic.partialDagger c fa fb ra rb = .ok d ∧ d.WF ∧ d.h = c.h ∧
      d.source = .ok (fa.values ++ ra.values) ∧ d.target = .ok (fb.values ++ rb.values) ∧
      d.s.table = c.s.table.take fa.values.length ++ c.t.table.drop fb.values.length ∧
      d.t.table = c.t.table.take fb.values.length ++ c.s.table.drop fa.values.length :=
  partialDagger_spec_gen c fa fb ra rb _ _ _ _ hc hs ht rfl rfl rfl rfl

/-- the form requested for `adapt` (arguments `rb`, `ra` exchanged): `FA ● RA → FB ● RB` becomes
    `FA ● RB → FB ● RA` -/
theorem partialDagger_spec_swapped (c : OHG O2 A2) (fa fb ra rb : IC (List O2)) (hc : c.WF)
    (hs : c.source = .ok (fa.values ++ ra.values)) (ht : c.target = .ok (fb.values ++ rb.values)) :
    ∃ d, SOptic.partialDagger c fa fb rb ra = .ok d ∧ d.WF ∧ d.h = c.h ∧
      d.source = .ok (fa.values ++ rb.values) ∧ d.target = .ok (fb.values ++ ra.values) :=
  let ⟨d, h1, h2, h3, h4, h5, _⟩ := partialDagger_spec c fa fb rb ra hc hs ht
  ⟨d, h1, h2, h3, h4, h5⟩

/-- the exact length requirements: with the wrong number of source positions the first `unwrap`
    fires, with the right number of source but the wrong number of target positions the second -/
theorem partialDagger_panics (c : OHG O2 A2) (fa fb ra rb : IC (List O2)) :
    (c.s.source ≠ fa.values.length + rb.values.length →
      SOptic.partialDagger c fa fb ra rb = .panic "partial_dagger:unwrap-s_i") ∧
    (c.s.source = fa.values.length + rb.values.length →
      c.t.source ≠ fb.values.length + ra.values.length →
      SOptic.partialDagger c fa fb ra rb = .panic "partial_dagger:unwrap-s_o") :=
  ⟨partialDagger_panic_s c fa fb ra rb, partialDagger_panic_t c fa fb ra rb⟩

/-- `c : A B ● D → C ● E E'` with one operation; bending gives `A B ● E E' → C ● D` -/
example :
    let c : OHG String String :=
      ⟨⟨[0, 1, 2], 6⟩, ⟨[3, 4, 5], 6⟩,
       ⟨⟨⟨[3], 4⟩, ⟨[0, 1, 2], 6⟩⟩, ⟨⟨[3], 4⟩, ⟨[3, 4, 5], 6⟩⟩, ["A", "B", "D", "C", "E", "E'"], ["f"]⟩⟩
    let fa : IC (List String) := ⟨⟨[2], 3⟩, ["A", "B"]⟩
    let fb : IC (List String) := ⟨⟨[1], 2⟩, ["C"]⟩
    let ra : IC (List String) := ⟨⟨[2], 3⟩, ["E", "E'"]⟩
    let rb : IC (List String) := ⟨⟨[1], 2⟩, ["D"]⟩
    c.WF ∧ c.source = .ok (fa.values ++ rb.values) ∧ c.target = .ok (fb.values ++ ra.values) ∧
    SOptic.partialDagger c fa fb ra rb = .ok ⟨⟨[0, 1, 4, 5], 6⟩, ⟨[3, 2], 6⟩, c.h⟩ :=
  ⟨by decide, by decide, by decide, rfl⟩

/-- **the two partial daggers cancel**: bending the `rb`-inputs / `ra`-outputs round and then back
    (the second call with `rb`, `ra` exchanged, as in `adapt`) gives back `c` itself -/
theorem partialDagger_involutive (c : OHG O2 A2) (fa fb ra rb : IC (List O2)) (hc : c.WF)
    (hs : c.s.table.length = fa.values.length + rb.values.length)
    (ht : c.t.table.length = fb.values.length + ra.values.length) :
    (SOptic.partialDagger c fa fb ra rb >>= fun d => SOptic.partialDagger d fa fb rb ra) = .ok c := by
  have l1 : (c.s.table.take fa.values.length).length = fa.values.length := by
    rw [List.length_take]; omega
  have l2 : (c.t.table.take fb.values.length).length = fb.values.length := by
    rw [List.length_take]; omega
  rw [partialDagger_eq c fa fb ra rb hc hs ht, Res.ok_bind,
    partialDagger_eq _ fa fb rb ra (pdResult_WF c _ _ hc)
      (by simp [pdResult, List.length_append, List.length_take, List.length_drop]; omega)
      (by simp [pdResult, List.length_append, List.length_take, List.length_drop]; omega)]
  congr 1
  obtain ⟨⟨st, sg⟩, ⟨tt, tg⟩, h⟩ := c
  have e1 : sg = h.w.length := hc.src_nodes
  have e2 : tg = h.w.length := hc.tgt_nodes
  subst e1 e2
  simp only [pdResult] at l1 l2 ⊢
  rw [List.take_left' l1, List.drop_left' l2, List.take_left' l2, List.drop_left' l1,
    List.take_append_drop, List.take_append_drop]

/-- **partial dagger preserves isomorphism**: on isomorphic well-formed diagrams it returns
    isomorphic well-formed diagrams, or a panic at the same site -/
theorem partialDagger_iso (c c' : OHG O2 A2) (fa fb ra rb : IC (List O2)) (hc : c.WF) (hc' : c'.WF)
    (i : c.toPlain ≅ c'.toPlain) :
    C20.ResWfIso (SOptic.partialDagger c fa fb ra rb) (SOptic.partialDagger c' fa fb ra rb) := by
  obtain ⟨π, ρ, bn, be, nπ, eρ, insπ, outsπ⟩ := i
  have h1 : c'.s.table = c.s.table.map π := insπ
  have h2 : c'.t.table = c.t.table.map π := outsπ
  have l1 : c'.s.table.length = c.s.table.length := by rw [h1, List.length_map]
  have l2 : c'.t.table.length = c.t.table.length := by rw [h2, List.length_map]
  unfold C20.ResWfIso
  by_cases ls : c.s.table.length = fa.values.length + rb.values.length
  · by_cases lt : c.t.table.length = fb.values.length + ra.values.length
    · rw [partialDagger_eq c fa fb ra rb hc ls lt,
        partialDagger_eq c' fa fb ra rb hc' (l1.trans ls) (l2.trans lt)]
      refine ⟨(OHG.wf_iff _).2 (pdResult_WF c _ _ hc), (OHG.wf_iff _).2 (pdResult_WF c' _ _ hc'),
        π, ρ, bn, be, nπ, eρ, ?_, ?_⟩
      · show c'.s.table.take _ ++ c'.t.table.drop _ = (c.s.table.take _ ++ c.t.table.drop _).map π
        rw [h1, h2, List.map_append, List.map_take, List.map_drop]
      · show c'.t.table.take _ ++ c'.s.table.drop _ = (c.t.table.take _ ++ c.s.table.drop _).map π
        rw [h1, h2, List.map_append, List.map_take, List.map_drop]
    · rw [partialDagger_panic_t c fa fb ra rb ls lt,
        partialDagger_panic_t c' fa fb ra rb (l1.trans ls) (fun e => lt (l2.symm.trans e))]
      rfl
  · rw [partialDagger_panic_s c fa fb ra rb ls,
      partialDagger_panic_s c' fa fb ra rb (fun e => ls (l1.symm.trans e))]
    rfl

/-- two isomorphic (node order reversed) well-formed diagrams -/
example :
    let c : OHG String String := ⟨⟨[0, 1], 2⟩, ⟨[1, 0], 2⟩, HG.discrete ["A", "B"]⟩
    let c' : OHG String String := ⟨⟨[1, 0], 2⟩, ⟨[0, 1], 2⟩, HG.discrete ["B", "A"]⟩
    c.WF ∧ c'.WF ∧ c.toPlain ≅ c'.toPlain := by
  refine ⟨by decide, by decide, fun i => 1 - i, fun e => e, ⟨?_, ?_, ?_⟩, ⟨?_, ?_, ?_⟩, ?_, ?_,
    rfl, rfl⟩
  · intro i hi; show 1 - i < 2; omega
  · intro i j hi hj h
    have hi : i < 2 := hi
    have hj : j < 2 := hj
    have h : 1 - i = 1 - j := h
    omega
  · intro k hk
    have hk : k < 2 := hk
    exact ⟨1 - k, by show 1 - k < 2; omega, by show 1 - (1 - k) = k; omega⟩
  · intro e he; exact absurd (show e < 0 from he) (Nat.not_lt_zero _)
  · intro i j hi; exact absurd (show i < 0 from hi) (Nat.not_lt_zero _)
  · intro k hk; exact absurd (show k < 0 from hk) (Nat.not_lt_zero _)
  · intro i hi
    have hi : i < 2 := hi
    match i, hi with
    | 0, _ => rfl
    | 1, _ => rfl
  · intro e he; exact absurd (show e < 0 from he) (Nat.not_lt_zero _)

/-! ## 4. `adapt` -/

section
variable [DecidableEq O2]

/-- **`adapt`**: for valid object images with `F` and `R` agreeing on the number of segments, and a
    well-formed `c : interleave(F A, R A) → interleave(F B, R B)`, `adapt` never fails (on every
    lawful backend) and returns a well-formed diagram `F A ● R B → F B ● R A` with the hyperedges
    of `c`. -/
theorem adapt_type (B : Backend) (hB : B.Lawful) (P : SOptic O1 A1 O2 A2) (c : OHG O2 A2)
    (a b : List O1) (fa fb ra rb : IC (List O2))
    (hfa : P.fwd.mapObject a = .ok fa) (hfb : P.fwd.mapObject b = .ok fb)
    (hra : P.rev.mapObject a = .ok ra) (hrb : P.rev.mapObject b = .ok rb)
    (vfa : C08.Valid fa) (vfb : C08.Valid fb) (vra : C08.Valid ra) (vrb : C08.Valid rb)
    (la : fa.len = ra.len) (lb : fb.len = rb.len) (hc : c.WF)
    (hcs : c.source = .ok (List.zipWith (· ++ ·) fa.segsL ra.segsL).flatten)
    (hct : c.target = .ok (List.zipWith (· ++ ·) fb.segsL rb.segsL).flatten) :
    ∃ d, SOptic.adapt B P c a b = .ok d ∧ d.WF ∧ d.source = .ok (fa.values ++ rb.values) ∧
      d.target = .ok (fb.values ++ ra.values) ∧ d.h.x = c.h.x := by
  obtain ⟨lhs, hlhs, tl, xl, _⟩ := interleaveBlocks_hasType (A2 := A2) fa ra vfa vra la
  obtain ⟨r0, hr0, tr, xr, _⟩ := interleaveBlocks_hasType (A2 := A2) fb rb vfb vrb lb
  obtain ⟨d1, hd1, t1, x1⟩ := compose_hasType B hB tl (⟨hc, hcs, hct⟩ : HasType c _ _)
  obtain ⟨d, hd, t2, x2⟩ := compose_hasType B hB t1 tr.dagger
  obtain ⟨e, he, ew, eh, es, et, _⟩ := partialDagger_spec d fa fb rb ra t2.1 t2.2.1 t2.2.2
  refine ⟨e, ?_, ew, es, et, ?_⟩
  · unfold SOptic.adapt
    simp only [hfa, hfb, hra, hrb, hlhs, hr0, hd1, hd, Res.ok_bind, Res.unwrap_ok]
    exact he
  · rw [eh, x2, x1, xl]
    show ([] ++ c.h.x) ++ r0.h.x = c.h.x
    rw [xr]; simp

end

/-! ## 3. the optic's action on operations -/

/-- the object images regrouped per operation: segment `e` is `F(B_e)`, the concatenated images
    of the objects in the target type of operation `e` (what `ops.b.flatmap_sources(&fb)` is) -/
def groupSegs (b : IC (List O1)) (fb : IC (List O2)) : List (List O2) :=
  (splitSegs b.sources.table fb.segsL).map List.flatten

/-- The hypotheses under which `Optic::map_operations` is well typed, for the batch `ops` with
    source types `A_e` and target types `B_e` (`A = ops.a.values`, `B = ops.b.values`):
    the forward functor sends the batch to a well-formed diagram
    `F(A) → F(B_0) ● M_0 ● F(B_1) ● M_1 ● …` (every operation also emits its residual), the
    reverse functor to a well-formed diagram `M_0 ● R(B_0) ● M_1 ● R(B_1) ● … → R(A)`, all object
    images and the residual family are valid segmented arrays with the right numbers of segments
    (one per object, resp. one residual per operation). -/
structure OpticOK (P : SOptic O1 A1 O2 A2) (ops : Operations O1 A1) where
  fwd : OHG O2 A2
  rev : OHG O2 A2
  fa : IC (List O2)
  fb : IC (List O2)
  ra : IC (List O2)
  rb : IC (List O2)
  m : IC (List O2)
  fwd_eq : P.fwd.mapOperations ops = .ok fwd
  rev_eq : P.rev.mapOperations ops = .ok rev
  fa_eq : P.fwd.mapObject ops.a.values = .ok fa
  fb_eq : P.fwd.mapObject ops.b.values = .ok fb
  ra_eq : P.rev.mapObject ops.a.values = .ok ra
  rb_eq : P.rev.mapObject ops.b.values = .ok rb
  m_eq : P.residual ops = .ok m
  b_valid : C08.Valid ops.b
  fa_valid : C08.Valid fa
  fb_valid : C08.Valid fb
  ra_valid : C08.Valid ra
  rb_valid : C08.Valid rb
  m_valid : C08.Valid m
  /-- `F` and `R` produce equally many segments on `A` -/
  len_a : fa.len = ra.len
  /-- one segment per object of `B` -/
  len_fb : fb.len = ops.b.values.length
  len_rb : rb.len = ops.b.values.length
  /-- one residual per operation -/
  len_m : m.len = ops.b.len
  fwd_wf : fwd.WF
  fwd_src : fwd.source = .ok fa.values
  fwd_tgt : fwd.target = .ok (List.zipWith (· ++ ·) (groupSegs ops.b fb) m.segsL).flatten
  rev_wf : rev.WF
  rev_src : rev.source = .ok (List.zipWith (· ++ ·) m.segsL (groupSegs ops.b rb)).flatten
  rev_tgt : rev.target = .ok ra.values

section
variable [DecidableEq O2]

/-- **`Optic::map_operations` is well typed**: under `OpticOK`, on every lawful backend, none of
    the five `unwrap`s, neither assertion of `flatmap_sources` / `interleave_blocks` and no `unwrap`
    inside `partial_dagger` fires; the result is a well-formed diagram of type
    `interleave(F A, R A) → interleave(F B, R B)` (object by object: `F(A_0) ● R(A_0) ● F(A_1) ● …`)
    whose hyperedges are those of the forward image followed by those of the reverse image. -/
theorem optic_mapOperations_type (B : Backend) (hB : B.Lawful) (P : SOptic O1 A1 O2 A2)
    (ops : Operations O1 A1) (h : OpticOK P ops) :
    ∃ r, SOptic.mapOperations B P ops = .ok r ∧ r.WF ∧
      r.source = .ok (List.zipWith (· ++ ·) h.fa.segsL h.ra.segsL).flatten ∧
      r.target = .ok (List.zipWith (· ++ ·) h.fb.segsL h.rb.segsL).flatten ∧
      r.h.x = h.fwd.h.x ++ h.rev.h.x := by
  -- the regrouped object images
  obtain ⟨bfb, hbfb, bfbV, bfbValid, bfbLen, bfbSegs⟩ :=
    C08.flatmapSources_specL ops.b h.fb h.b_valid h.fb_valid h.len_fb.symm
  obtain ⟨brb, hbrb, brbV, brbValid, brbLen, brbSegs⟩ :=
    C08.flatmapSources_specL ops.b h.rb h.b_valid h.rb_valid h.len_rb.symm
  -- the four interleavings
  obtain ⟨fwdIl0, e1, t1, x1, _⟩ := interleaveBlocks_hasType (A2 := A2) bfb h.m bfbValid h.m_valid
    (bfbLen.trans h.len_m.symm)
  obtain ⟨revCo, e2, t2, x2, _⟩ := interleaveBlocks_hasType (A2 := A2) h.m brb h.m_valid brbValid
    (h.len_m.trans brbLen.symm)
  obtain ⟨il0, e3, t3, x3, _⟩ := interleaveBlocks_hasType (A2 := A2) h.fa h.ra h.fa_valid h.ra_valid
    h.len_a
  obtain ⟨rhs2, e4, t4, x4, _⟩ := interleaveBlocks_hasType (A2 := A2) h.fb h.rb h.fb_valid
    h.rb_valid (h.len_fb.trans h.len_rb.symm)
  rw [bfbV, bfbSegs] at t1
  rw [brbV, brbSegs] at t2
  -- identities
  obtain ⟨iFb, e5, t5, x5⟩ := identity_hasType (A := A2) h.fb.values
  obtain ⟨iRb, e6, t6, x6⟩ := identity_hasType (A := A2) h.rb.values
  -- the composite `c : F A ● R B → F B ● R A`
  have tfwd : HasType h.fwd h.fa.values (interleave (groupSegs ops.b h.fb) h.m.segsL) :=
    ⟨h.fwd_wf, h.fwd_src, h.fwd_tgt⟩
  have trev : HasType h.rev (interleave h.m.segsL (groupSegs ops.b h.rb)) h.ra.values :=
    ⟨h.rev_wf, h.rev_src, h.rev_tgt⟩
  obtain ⟨l1, e7, t7, x7⟩ := compose_hasType B hB tfwd t1.dagger
  obtain ⟨lhs, e8, t8, x8⟩ := tensor_hasType t7 t6
  obtain ⟨r1, e9, t9, x9⟩ := compose_hasType B hB t2 trev
  obtain ⟨rhs, e10, t10, x10⟩ := tensor_hasType t5 t9
  rw [List.append_assoc] at t8
  obtain ⟨c, e11, t11, x11⟩ := compose_hasType B hB t8 t10
  -- bending
  obtain ⟨d, e12, dw, dh, ds, dt, _⟩ := partialDagger_spec c h.fa h.fb h.ra h.rb t11.1 t11.2.1 t11.2.2
  -- final interleavings
  obtain ⟨e, e13, t13, x13⟩ := compose_hasType B hB t3.dagger (⟨dw, ds, dt⟩ : HasType d _ _)
  obtain ⟨r, e14, t14, x14⟩ := compose_hasType B hB t13 t4
  refine ⟨r, ?_, t14.1, t14.2.1, t14.2.2, ?_⟩
  · unfold SOptic.mapOperations
    simp only [h.fwd_eq, h.rev_eq, h.fa_eq, h.fb_eq, h.ra_eq, h.rb_eq, h.m_eq, hbfb, hbrb, e1, e2,
      e3, e4, e5, e6, e7, e8, e9, e10, e11, e12, e13, e14, Res.ok_bind, Res.unwrap_ok]
  · rw [x14, x13, dh, x11, x8, x10, x7, x9, x4, x5, x6, x2]
    show (il0.h.x ++ (((h.fwd.h.x ++ fwdIl0.h.x) ++ []) ++ ([] ++ ([] ++ h.rev.h.x)))) ++ [] = _
    rw [x3, x1]
    simp

/-- … and these boundary types are the optic's own object images: with `oa = Optic::map_object(A)`
    and `ob = Optic::map_object(B)`, the image has type `oa.values → ob.values` — exactly the shape
    `define_map_arrow` needs from `map_operations` -/
theorem optic_mapOperations_type_obj (B : Backend) (hB : B.Lawful) (P : SOptic O1 A1 O2 A2)
    (ops : Operations O1 A1) (h : OpticOK P ops) :
    ∃ r oa ob, SOptic.mapOperations B P ops = .ok r ∧ P.mapObject ops.a.values = .ok oa ∧
      P.mapObject ops.b.values = .ok ob ∧ C08.Valid oa ∧ C08.Valid ob ∧
      r.WF ∧ r.source = .ok oa.values ∧ r.target = .ok ob.values := by
  obtain ⟨r, hr, hw, hs, ht, _⟩ := optic_mapOperations_type B hB P ops h
  obtain ⟨oa, hoa, va, _, sa⟩ := optic_object_spec P ops.a.values h.fa h.ra h.fa_eq h.ra_eq
    h.fa_valid h.ra_valid h.len_a
  obtain ⟨ob, hob, vb, _, sb⟩ := optic_object_spec P ops.b.values h.fb h.rb h.fb_eq h.rb_eq
    h.fb_valid h.rb_valid (h.len_fb.trans h.len_rb.symm)
  refine ⟨r, oa, ob, hr, hoa, hob, va, vb, hw, ?_, ?_⟩
  · rw [hs, ← sa, IC.segsL_flatten oa va]
  · rw [ht, ← sb, IC.segsL_flatten ob vb]

end

/-! ## 6. backend independence of optic application -/

theorem dagger_wf' (f : OHG O2 A2) (h : f.wf = true) : f.dagger.wf = true := by
  rw [C04.dagger_wf]; exact h

section
variable [DecidableEq O2]

/-- the optic's action on one batch of operations, run on two lawful backends, returns well-formed
    isomorphic diagrams — or the same `none`, or a panic at the same site — as soon as the two
    component functors send the batch to well-formed diagrams (nothing else is needed:
    `interleave_blocks` only ever returns well-formed diagrams, `partial_dagger` preserves
    isomorphism, compositions and tensors are congruences, and every other step is backend-free) -/
theorem optic_mapOperations_congr (B₁ B₂ : Backend) (h₁ : B₁.Lawful) (h₂ : B₂.Lawful)
    (P : SOptic O1 A1 O2 A2) (ops : Operations O1 A1)
    (hfx : ∀ fx, P.fwd.mapOperations ops = .ok fx → fx.wf = true)
    (hrx : ∀ fx, P.rev.mapOperations ops = .ok fx → fx.wf = true) :
    C20.ResWfIso (P.mapOperations B₁ ops) (P.mapOperations B₂ ops) := by
  unfold C20.ResWfIso SOptic.mapOperations
  refine ResRel.bind_same _ (fun fwd hfwd => ?_)
  refine ResRel.bind_same _ (fun rev hrev => ?_)
  refine ResRel.bind_same _ (fun fa _ => ?_)
  refine ResRel.bind_same _ (fun fb _ => ?_)
  refine ResRel.bind_same _ (fun ra _ => ?_)
  refine ResRel.bind_same _ (fun rb _ => ?_)
  refine ResRel.bind_same _ (fun m _ => ?_)
  refine ResRel.bind_same _ (fun bfb _ => ?_)
  refine ResRel.bind_same _ (fun fwdIl0 h1 => ?_)
  refine ResRel.bind_same _ (fun brb _ => ?_)
  refine ResRel.bind_same _ (fun revCo h2 => ?_)
  refine ResRel.bind_same _ (fun iFb h3 => ?_)
  refine ResRel.bind_same _ (fun iRb h4 => ?_)
  have wfwd := hfx fwd hfwd
  have wrev := hrx rev hrev
  have w1 : fwdIl0.dagger.wf = true :=
    dagger_wf' _ ((OHG.wf_iff _).2 (interleaveBlocks_ok_WF _ _ _ h1).1)
  have w2 : revCo.wf = true := (OHG.wf_iff _).2 (interleaveBlocks_ok_WF _ _ _ h2).1
  have w3 : iFb.wf = true := (C20.identity_wf _ _ h3).1
  have w4 : iRb.wf = true := (C20.identity_wf _ _ h4).1
  -- l1 = fwd ; fwdInterleave
  refine ResRel.bind (ResRel.unwrap _ (C20.compose_congr B₁ B₂ h₁ h₂ fwd fwdIl0.dagger fwd
    fwdIl0.dagger wfwd w1 wfwd w1 (iso_refl _) (iso_refl _))) ?_
  rintro l1 l1' ⟨wl1, wl1', il1⟩
  -- lhs = l1 ⊗ id
  refine ResRel.bind (C20.tensor_congr l1 iRb l1' iRb wl1 w4 wl1' w4 il1 (iso_refl _)) ?_
  rintro lhs lhs' ⟨wlhs, wlhs', ilhs⟩
  -- r1 = revCointerleave ; rev
  refine ResRel.bind (ResRel.unwrap _ (C20.compose_congr B₁ B₂ h₁ h₂ revCo rev revCo rev w2 wrev
    w2 wrev (iso_refl _) (iso_refl _))) ?_
  rintro r1 r1' ⟨wr1, wr1', ir1⟩
  -- rhs = id ⊗ r1
  refine ResRel.bind (C20.tensor_congr iFb r1 iFb r1' w3 wr1 w3 wr1' (iso_refl _) ir1) ?_
  rintro rhs rhs' ⟨wrhs, wrhs', irhs⟩
  -- c = lhs ; rhs
  refine ResRel.bind (ResRel.unwrap _ (C20.compose_congr B₁ B₂ h₁ h₂ lhs rhs lhs' rhs' wlhs wrhs
    wlhs' wrhs' ilhs irhs)) ?_
  rintro c c' ⟨wc, wc', ic⟩
  -- d = partial dagger
  refine ResRel.bind (partialDagger_iso c c' fa fb ra rb ((OHG.wf_iff _).1 wc)
    ((OHG.wf_iff _).1 wc') ic) ?_
  rintro d d' ⟨wd, wd', id'⟩
  refine ResRel.bind_same _ (fun il0 h5 => ?_)
  refine ResRel.bind_same _ (fun rhs2 h6 => ?_)
  have w5 : il0.dagger.wf = true :=
    dagger_wf' _ ((OHG.wf_iff _).2 (interleaveBlocks_ok_WF _ _ _ h5).1)
  have w6 : rhs2.wf = true := (OHG.wf_iff _).2 (interleaveBlocks_ok_WF _ _ _ h6).1
  refine ResRel.bind (ResRel.unwrap _ (C20.compose_congr B₁ B₂ h₁ h₂ il0.dagger d il0.dagger d'
    w5 wd w5 wd' (iso_refl _) id')) ?_
  rintro e e' ⟨we, we', ie⟩
  exact ResRel.unwrap _ (C20.compose_congr B₁ B₂ h₁ h₂ e rhs2 e' rhs2 we w6 we' w6 ie (iso_refl _))

/-- **the clause left open in C20** (`C20.optic_mapOperations_indep_statement`), discharged; its
    validity hypotheses on the batch, the object images and the residuals turn out not to be
    needed. -/
theorem optic_mapOperations_indep : C20.optic_mapOperations_indep_statement := by
  intro O1 A1 O2 A2 _ B₁ B₂ h₁ h₂ P ops _ _ _ _ _ _ _ hfx hrx
  exact optic_mapOperations_congr B₁ B₂ h₁ h₂ P ops hfx hrx

/-- **optic application does not depend on the backend's choices**: for a strict optic whose
    component functors send the node labels of `f` to valid segmented arrays and the operations of
    `f` to well-formed diagrams, `map_arrow` of the induced functor on two lawful backends returns
    isomorphic diagrams — or the same `none`, or a panic at the same site (e.g. when the images
    have the wrong types). -/
theorem optic_indep (B₁ B₂ : Backend) (h₁ : B₁.Lawful) (h₂ : B₂.Lawful) (P : SOptic O1 A1 O2 A2)
    (f : OHG O1 A1) (hf : f.wf = true)
    (hF : ∀ fw, P.fwd.mapObject f.h.w = .ok fw → fw.valid = true)
    (hR : ∀ fw, P.rev.mapObject f.h.w = .ok fw → fw.valid = true)
    (hFx : ∀ ops fx, SFunctor.toOperations f = .ok ops → P.fwd.mapOperations ops = .ok fx →
      fx.wf = true)
    (hRx : ∀ ops fx, SFunctor.toOperations f = .ok ops → P.rev.mapOperations ops = .ok fx →
      fx.wf = true) :
    C20.ResIso (SFunctor.mapArrow B₁ (P.toFunctor B₁) f) (SFunctor.mapArrow B₂ (P.toFunctor B₂) f) := by
  apply C20.optic_indep_partial B₁ B₂ h₁ h₂ P f hf
  · intro fw hfw
    unfold SOptic.mapObject at hfw
    obtain ⟨fa, hfa, hfw⟩ := bind_eq_ok hfw
    obtain ⟨ra, hra, hfw⟩ := bind_eq_ok hfw
    by_cases hl : fa.len = ra.len
    · obtain ⟨c, hc, hv, _⟩ := optic_object_spec P f.h.w fa ra hfa hra (hF _ hfa) (hR _ hra) hl
      have : P.mapObject f.h.w = .ok fw := by
        unfold SOptic.mapObject
        rw [hfa, hra]
        exact hfw
      rw [hc] at this
      cases this
      exact hv
    · rw [if_pos hl] at hfw
      cases hfw
  · intro ops hops
    exact optic_mapOperations_congr B₁ B₂ h₁ h₂ P ops (fun fx => hFx ops fx hops)
      (fun fx => hRx ops fx hops)

end

/-! ## witnesses: a concrete optic -/

/-- an optic over labels `Nat`: `F` and `R` are the identity on objects; operation `x : A → B` has
    residual `M = A` (it remembers its inputs), forward image `x+1 : A → B ● A` and reverse image
    `x+2 : A ● B → A` (the shape of the reverse-derivative optic of a binary multiplication) -/
def exP : SOptic Nat Nat Nat Nat where
  fwd := ⟨fun a => IC.elements a, fun ops => OHG.tensorOperations
    ⟨ops.x.map (· + 1), ops.a, IC.ofSegsL (List.zipWith (· ++ ·) ops.b.segsL ops.a.segsL)⟩⟩
  rev := ⟨fun a => IC.elements a, fun ops => OHG.tensorOperations
    ⟨ops.x.map (· + 2), IC.ofSegsL (List.zipWith (· ++ ·) ops.a.segsL ops.b.segsL), ops.a⟩⟩
  residual := fun ops => .ok ops.a

/-- two operations `10 : [1, 2] → [4]` and `20 : [3] → [5]` -/
def exOps : Operations Nat Nat := ⟨[10, 20], ⟨⟨[2, 1], 4⟩, [1, 2, 3]⟩, ⟨⟨[1, 1], 3⟩, [4, 5]⟩⟩

/-- `OpticOK` is satisfiable non-trivially (two operations of different arities, non-empty
    residuals) -/
def exOK : OpticOK exP exOps where
  fwd := ⟨⟨[0, 1, 2], 8⟩, ⟨[3, 4, 5, 6, 7], 8⟩,
    ⟨⟨⟨[2, 1], 4⟩, ⟨[0, 1, 2], 8⟩⟩, ⟨⟨[3, 2], 6⟩, ⟨[3, 4, 5, 6, 7], 8⟩⟩, [1, 2, 3, 4, 1, 2, 5, 3],
      [11, 21]⟩⟩
  rev := ⟨⟨[0, 1, 2, 3, 4], 8⟩, ⟨[5, 6, 7], 8⟩,
    ⟨⟨⟨[3, 2], 6⟩, ⟨[0, 1, 2, 3, 4], 8⟩⟩, ⟨⟨[2, 1], 4⟩, ⟨[5, 6, 7], 8⟩⟩, [1, 2, 4, 3, 5, 1, 2, 3],
      [12, 22]⟩⟩
  fa := ⟨⟨[1, 1, 1], 4⟩, [1, 2, 3]⟩
  fb := ⟨⟨[1, 1], 3⟩, [4, 5]⟩
  ra := ⟨⟨[1, 1, 1], 4⟩, [1, 2, 3]⟩
  rb := ⟨⟨[1, 1], 3⟩, [4, 5]⟩
  m := ⟨⟨[2, 1], 4⟩, [1, 2, 3]⟩
  fwd_eq := rfl
  rev_eq := rfl
  fa_eq := rfl
  fb_eq := rfl
  ra_eq := rfl
  rb_eq := rfl
  m_eq := rfl
  b_valid := by decide
  fa_valid := by decide
  fb_valid := by decide
  ra_valid := by decide
  rb_valid := by decide
  m_valid := by decide
  len_a := rfl
  len_fb := rfl
  len_rb := rfl
  len_m := rfl
  fwd_wf := by decide
  fwd_src := by decide
  fwd_tgt := by decide
  rev_wf := by decide
  rev_src := by decide
  rev_tgt := by decide

/-- hence the optic image of the batch is well typed on the Vec backend … -/
example : ∃ r, SOptic.mapOperations vecBackend exP exOps = .ok r ∧ r.WF ∧
    r.source = .ok [1, 1, 2, 2, 3, 3] ∧ r.target = .ok [4, 4, 5, 5] ∧ r.h.x = [11, 21, 12, 22] :=
  optic_mapOperations_type vecBackend vecBackend_lawful exP exOps exOK

/-- … which direct evaluation confirms -/
example : (SOptic.mapOperations vecBackend exP exOps >>= fun r => r.source) =
      .ok [1, 1, 2, 2, 3, 3] ∧
    (SOptic.mapOperations vecBackend exP exOps >>= fun r => r.target) = .ok [4, 4, 5, 5] := by
  decide

/-- a diagram `interleave(F A, R A) → interleave(F B, R B)` for `A = [1, 2, 3]`, `B = [4, 5]`:
    one operation `99 : [1, 1, 2, 2, 3, 3] → [4, 4, 5, 5]` -/
def exC : OHG Nat Nat := ⟨⟨[0, 1, 2, 3, 4, 5], 10⟩, ⟨[6, 7, 8, 9], 10⟩,
  ⟨⟨⟨[6], 7⟩, ⟨[0, 1, 2, 3, 4, 5], 10⟩⟩, ⟨⟨[4], 5⟩, ⟨[6, 7, 8, 9], 10⟩⟩,
    [1, 1, 2, 2, 3, 3, 4, 4, 5, 5], [99]⟩⟩

/-- the hypotheses of `adapt_type` are satisfiable … -/
example : ∃ d, SOptic.adapt vecBackend exP exC [1, 2, 3] [4, 5] = .ok d ∧ d.WF ∧
    d.source = .ok [1, 2, 3, 4, 5] ∧ d.target = .ok [4, 5, 1, 2, 3] ∧ d.h.x = [99] :=
  adapt_type vecBackend vecBackend_lawful exP exC [1, 2, 3] [4, 5]
    ⟨⟨[1, 1, 1], 4⟩, [1, 2, 3]⟩ ⟨⟨[1, 1], 3⟩, [4, 5]⟩ ⟨⟨[1, 1, 1], 4⟩, [1, 2, 3]⟩ ⟨⟨[1, 1], 3⟩, [4, 5]⟩
    rfl rfl rfl rfl (by decide) (by decide) (by decide) (by decide) rfl rfl (by decide) (by decide)
    (by decide)

/-- … and direct evaluation agrees -/
example : (SOptic.adapt vecBackend exP exC [1, 2, 3] [4, 5] >>= fun d => d.source) =
      .ok [1, 2, 3, 4, 5] ∧
    (SOptic.adapt vecBackend exP exC [1, 2, 3] [4, 5] >>= fun d => d.target) =
      .ok [4, 5, 1, 2, 3] := by decide

/-- the diagram with the two operations of `exOps` -/
def exF : OHG Nat Nat := ⟨⟨[0, 1, 2], 5⟩, ⟨[3, 4], 5⟩,
  ⟨⟨⟨[2, 1], 4⟩, ⟨[0, 1, 2], 5⟩⟩, ⟨⟨[1, 1], 3⟩, ⟨[3, 4], 5⟩⟩, [1, 2, 3, 4, 5], [10, 20]⟩⟩

/-- the hypotheses of `optic_indep` are satisfiable -/
example : C20.ResIso (SFunctor.mapArrow vecBackend (exP.toFunctor vecBackend) exF)
    (SFunctor.mapArrow (C20.advBackend vecBackend) (exP.toFunctor (C20.advBackend vecBackend)) exF) := by
  have hops : SFunctor.toOperations exF = .ok exOps := rfl
  refine optic_indep vecBackend (C20.advBackend vecBackend) vecBackend_lawful
    (C20.advBackend_lawful _ vecBackend_lawful) exP exF (by decide) ?_ ?_ ?_ ?_
  · intro fw h; cases h; decide
  · intro fw h; cases h; decide
  · intro ops fx h1 h2
    rw [hops] at h1
    cases h1
    have : exP.fwd.mapOperations exOps = .ok exOK.fwd := rfl
    rw [this] at h2
    cases h2
    decide
  · intro ops fx h1 h2
    rw [hops] at h1
    cases h1
    have : exP.rev.mapOperations exOps = .ok exOK.rev := rfl
    rw [this] at h2
    cases h2
    decide

/-! ## 5. monogamy of the adapted form -/

/-- The statement "if `c` is monogamous then so is `adapt c`" is FALSE: for `A = B = [7]` and `F`,
    `R` the identity on objects, the symmetry `c : 7 ● 7 → 7 ● 7` (a monogamous diagram of type
    `interleave(F A, R A) → interleave(F B, R B)`) wires the `F A` input to the `R B` output, and
    bending that output round yields a diagram whose source interface mentions one node twice.
    (Conversely the optic image itself is in general NOT monogamous — `partial_dagger` turns
    inputs that feed an operation into outputs — while its adapted form is; see the next
    `example`.) -/
theorem adapt_not_monogamy_preserving :
    ∃ (c d : OHG Nat Nat), c.WF ∧ Monogamous c.toPlain ∧
      c.source = .ok [7, 7] ∧ c.target = .ok [7, 7] ∧
      SOptic.adapt vecBackend exP c [7] [7] = .ok d ∧ ¬ Monogamous d.toPlain := by
  refine ⟨⟨⟨[0, 1], 2⟩, ⟨[1, 0], 2⟩, HG.discrete [7, 7]⟩,
    ⟨⟨[0, 0], 2⟩, ⟨[1, 1], 2⟩, HG.discrete [7, 7]⟩, by decide, ?_, by decide, by decide, rfl, ?_⟩
  · obtain ⟨b, hb, hiff⟩ := C17.isMonogamous_spec
      (⟨⟨[0, 1], 2⟩, ⟨[1, 0], 2⟩, HG.discrete [7, 7]⟩ : OHG Nat Nat) (by decide)
    have : (⟨⟨[0, 1], 2⟩, ⟨[1, 0], 2⟩, HG.discrete [7, 7]⟩ : OHG Nat Nat).isMonogamous = .ok true := by
      decide
    rw [this] at hb
    cases hb
    exact hiff.1 rfl
  · intro h
    exact absurd h.1 (by decide)

/-- on the witness optic: the optic image of the batch is not monogamous, its adapted form is -/
example :
    (SOptic.mapOperations vecBackend exP exOps >>= fun r => r.isMonogamous) = .ok false ∧
    (SOptic.mapOperations vecBackend exP exOps >>= fun r =>
      SOptic.adapt vecBackend exP r [1, 2, 3] [4, 5] >>= fun d => d.isMonogamous) = .ok true := by
  decide

/-- The monogamy clause in the form that IS plausible (UNPROVED): under `OpticOK` with monogamous
    forward and reverse images, the adapted form of the optic image of the batch is monogamous.
    (Proof idea: `adapt (map_operations ops)` is isomorphic to the composite
    `c = (fwd ; interleave†) ⊗ id ; id ⊗ (cointerleave ; rev)` because `interleave ; interleave†` is
    an identity (both legs of `interleave_blocks` are bijections, `interleaveBlocks_spec`) and the
    two partial daggers cancel (`partialDagger_spec`); `c` is a composite / tensor of monogamous
    diagrams.  What is missing is closure of `Monogamous` under `compose` — not available in the
    libraries — and the cancellation up to `≅`.) -/
def adapt_monogamous_statement : Prop :=
  ∀ (O1 A1 O2 A2 : Type) [DecidableEq O2] (B : Backend), B.Lawful →
    ∀ (P : SOptic O1 A1 O2 A2) (ops : Operations O1 A1) (h : OpticOK P ops),
      Monogamous h.fwd.toPlain → Monogamous h.rev.toPlain →
      ∀ r, SOptic.mapOperations B P ops = .ok r →
        ∃ d, SOptic.adapt B P r ops.a.values ops.b.values = .ok d ∧ d.WF ∧
          d.source = .ok (h.fa.values ++ h.rb.values) ∧
          d.target = .ok (h.fb.values ++ h.ra.values) ∧ Monogamous d.toPlain

/-- PROVED PART of the monogamy clause: the adapted optic image exists, is well-formed and has
    type `F A ● R B → F B ● R A`, with the hyperedges of the forward and the reverse image -/
theorem adapt_mapOperations_partial [DecidableEq O2] (B : Backend) (hB : B.Lawful)
    (P : SOptic O1 A1 O2 A2) (ops : Operations O1 A1) (h : OpticOK P ops) :
    ∃ r d, SOptic.mapOperations B P ops = .ok r ∧
      SOptic.adapt B P r ops.a.values ops.b.values = .ok d ∧ d.WF ∧
      d.source = .ok (h.fa.values ++ h.rb.values) ∧
      d.target = .ok (h.fb.values ++ h.ra.values) ∧ d.h.x = h.fwd.h.x ++ h.rev.h.x := by
  obtain ⟨r, hr, hw, hs, ht, hx⟩ := optic_mapOperations_type B hB P ops h
  obtain ⟨d, hd, dw, ds, dt, dx⟩ := adapt_type B hB P r ops.a.values ops.b.values h.fa h.fb h.ra
    h.rb h.fa_eq h.fb_eq h.ra_eq h.rb_eq h.fa_valid h.fb_valid h.ra_valid h.rb_valid h.len_a
    (h.len_fb.trans h.len_rb.symm) hw hs ht
  exact ⟨r, d, hr, hd, dw, ds, dt, dx.trans hx⟩

end OH.C14
