/-
  C14 — the derivative theorem AT THE CONCRETE OPTIC AND SIGNATURE OF THE CORRESPONDENCE CHECK.

  The driver's `optic.deriv` operation (Model/DriverOptic.lean) runs, against the Rust library,
      `LOptic.mapAdapted B rdOptic f`, `LOHG.toStrict`, `Graph.eval … (x ++ dy) (applyOf Sig.opfn)`
  where `OH.RdO.rdOptic` (Model/RdOptic.lean) is the reverse-derivative optic of polynomial
  circuits built with the lax builder and `OH.Sig.opfn` (Model/Signature.lean) is wrapping `u64`
  arithmetic on naturals.  This file instantiates `rev_correct_corrected` (Props/C14Deriv.lean)
  at exactly these two definitions.

  THE RING.  `rev_correct_corrected` needs a commutative ring of values, and `ℕ` with arithmetic
  modulo `W = 2^64` is not one as a type (`Sig.opfn` is a function on ALL naturals, values `≥ W`
  included).  We take `Z64 := ZMod (2^64)` and connect the two with
    * `polyZ : Nat → List Z64 → List Z64`, the ring-valued reading of `Sig.opfn` (sum, product,
      negation, copy, discard, constants; the bitwise labels 6/7/8, which are NOT polynomial, are
      read through `ZMod.val`), and `polyD`, the same program over the dual numbers;
    * `opfn_val` — for EVERY label and argument list `Sig.opfn l (args.map val) = (polyZ l args).map val`
      (wrapping arithmetic IS arithmetic in `ℤ/2⁶⁴`), `opfn_cast` — `Sig.opfn` commutes with the
      reading `ℕ → Z64` on values `< 2^64`, `polyZ_re` — `polyD` extends `polyZ`;
    * `RdI.eval_map` (Lemmas/RdInstance.lean) — the model evaluator is natural in the value type —
      which transports the evaluation over `Z64` delivered by `rev_correct_corrected` to the
      evaluation over `ℕ` with `Sig.opfn` that the driver performs.

  HEADLINE
    * `rd_genCorrect` : every polynomial generator with its arity (`PolyGen`: add 2→1, mul 2→1,
      neg 1→1, copy 1→2, discard 1→0, constant `k` 0→1 with label `10 + k`) has good images under
      `rdOptic`, for EVERY lawful backend: `GenCorrect B rdOptic polyD polyZ a s t`.
      (The images of `mul` carry pending unification pairs: their strict forms are computed up to
      isomorphism as explicit quotients, `rdFwdMul_quot`, `rdRevMul_quot`.)
    * `rd_rev_correct` : for every well-formed lax circuit over the polynomial generators whose
      strict form is acyclic and monogamous, all inputs and cotangents `< 2^64` of the right
      lengths, every lawful backend: `mapAdapted B rdOptic f` is defined, strictifies, is
      monogamous, and `Graph.eval B sg 0 (x ++ dy) (Eval.applyOf Sig.opfn) = ok (y ++ gx)` where
      `y` is what `Graph.eval` returns on the circuit itself at `x` (same interpreter) and `gx`
      (length of `x`, entries `< 2^64`) read in `Z64` is the reverse derivative `J_f(x)ᵀ·dy` of the
      function the circuit denotes over the dual numbers of `Z64`.
    * `example`s: the circuit `(x, y) ↦ x·y + x` satisfies the hypotheses (Vec backend), and on
      `(3, 5; 1)` the adapted optic evaluates to `(18; 6, 3)`.
  Nothing is missing: all six generators are covered.  Labels 5 (constant 3) and 6/7/8 (bitwise)
  are outside `PolyGen`; `polyZ`/`polyD` are nevertheless total and the compatibility lemmas hold
  for them too (this is what lets `eval_map` apply without knowing the labels of the result).
-/
import OHVerif.Lemmas.RdInstance
import OHVerif.Model.RdOptic
import OHVerif.Model.Signature
import Mathlib.Data.ZMod.Basic

namespace OH.C14
open OH OH.Graph OH.RevDeriv OH.LaxStrict OH.LaxIso OH.RdO OH.RdI

/-! ## 1. the ring and the two readings of the signature -/

/-- the ring of wire values: integers modulo `2^64` -/
abbrev Z64 : Type := ZMod (2 ^ 64)

theorem W_eq : Sig.W = 2 ^ 64 := by decide

/-- the ring-valued reading of `Sig.opfn`: on the polynomial labels the ring operations of
    `ℤ/2⁶⁴` (same folds as `Sig.opfn`); the bitwise labels are read through `ZMod.val` -/
def polyZ (l : Nat) (args : List Z64) : List Z64 :=
  match l with
  | 0 => [args.foldl (· + ·) 0]
  | 1 => [args.foldl (· * ·) 1]
  | 2 => [- args.headD 0]
  | 3 => [args.headD 0, args.headD 0]
  | 4 => []
  | 5 => [((3 : Nat) : Z64)]
  | 6 => (Sig.opfn 6 (args.map ZMod.val)).map Nat.cast
  | 7 => (Sig.opfn 7 (args.map ZMod.val)).map Nat.cast
  | 8 => (Sig.opfn 8 (args.map ZMod.val)).map Nat.cast
  | l => [((l - 10 : Nat) : Z64)]

/-- the dual-number extension of `Sig.opfn`: the same program over the dual numbers of `ℤ/2⁶⁴`
    (the bitwise labels get derivative `0`) -/
def polyD (l : Nat) (args : List (Dual Z64)) : List (Dual Z64) :=
  match l with
  | 0 => [args.foldl (· + ·) 0]
  | 1 => [args.foldl (· * ·) 1]
  | 2 => [- args.headD 0]
  | 3 => [args.headD 0, args.headD 0]
  | 4 => []
  | 5 => [Dual.const ((3 : Nat) : Z64)]
  | 6 => (polyZ 6 (args.map Dual.re)).map Dual.const
  | 7 => (polyZ 7 (args.map Dual.re)).map Dual.const
  | 8 => (polyZ 8 (args.map Dual.re)).map Dual.const
  | l => [Dual.const ((l - 10 : Nat) : Z64)]

@[simp] theorem Dual.zero_re' : (0 : Dual Z64).re = 0 := rfl
@[simp] theorem Dual.zero_eps' : (0 : Dual Z64).eps = 0 := rfl
@[simp] theorem Dual.one_re' : (1 : Dual Z64).re = 1 := rfl
@[simp] theorem Dual.one_eps' : (1 : Dual Z64).eps = 0 := rfl

theorem foldl_add_re (args : List (Dual Z64)) (a : Dual Z64) :
    (args.foldl (· + ·) a).re = (args.map Dual.re).foldl (· + ·) a.re := by
  induction args generalizing a with
  | nil => rfl
  | cons x xs ih => simp only [List.foldl_cons, List.map_cons]; rw [ih]; rfl

theorem foldl_mul_re (args : List (Dual Z64)) (a : Dual Z64) :
    (args.foldl (· * ·) a).re = (args.map Dual.re).foldl (· * ·) a.re := by
  induction args generalizing a with
  | nil => rfl
  | cons x xs ih => simp only [List.foldl_cons, List.map_cons]; rw [ih]; rfl

theorem headD_re (args : List (Dual Z64)) : (args.headD 0).re = (args.map Dual.re).headD 0 := by
  cases args <;> rfl

/-- **`polyD` extends `polyZ`**: real parts commute, for every label and every argument list -/
theorem polyZ_re (l : Nat) (args : List (Dual Z64)) :
    polyZ l (args.map Dual.re) = (polyD l args).map Dual.re := by
  match l with
  | 0 => simp only [polyZ, polyD, List.map_cons, List.map_nil, foldl_add_re]; rfl
  | 1 => simp only [polyZ, polyD, List.map_cons, List.map_nil, foldl_mul_re]; rfl
  | 2 => simp only [polyZ, polyD, List.map_cons, List.map_nil, Dual.neg_re, headD_re]
  | 3 => simp only [polyZ, polyD, List.map_cons, List.map_nil, headD_re]
  | 4 => rfl
  | 5 => rfl
  | 6 => simp [polyD, Function.comp_def]
  | 7 => simp [polyD, Function.comp_def]
  | 8 => simp [polyD, Function.comp_def]
  | n + 9 => rfl

theorem val_cast_of_lt {n : Nat} (h : n < 2 ^ 64) : ((n : Z64)).val = n := by
  rw [ZMod.val_natCast, Nat.mod_eq_of_lt h]

theorem val_lt64 (a : Z64) : a.val < 2 ^ 64 := ZMod.val_lt a

theorem foldl_add_val (args : List Z64) (a : Z64) :
    (args.map ZMod.val).foldl (fun a b => (a + b) % 2 ^ 64) a.val = (args.foldl (· + ·) a).val := by
  induction args generalizing a with
  | nil => rfl
  | cons x xs ih =>
    simp only [List.foldl_cons, List.map_cons]
    rw [← ZMod.val_add, ih]

theorem foldl_mul_val (args : List Z64) (a : Z64) :
    (args.map ZMod.val).foldl (fun a b => (a * b) % 2 ^ 64) a.val = (args.foldl (· * ·) a).val := by
  induction args generalizing a with
  | nil => rfl
  | cons x xs ih =>
    simp only [List.foldl_cons, List.map_cons]
    rw [← ZMod.val_mul, ih]

theorem headD_val (args : List Z64) : (args.map ZMod.val).headD 0 = (args.headD 0).val := by
  cases args with
  | nil => exact ZMod.val_zero.symm
  | cons _ _ => rfl

theorem foldl_and_le (args : List Nat) (a : Nat) : args.foldl (fun a b => a &&& b) a ≤ a := by
  induction args generalizing a with
  | nil => exact Nat.le_refl _
  | cons x xs ih => exact Nat.le_trans (ih _) Nat.and_le_left

theorem foldl_xor_lt (args : List Nat) (a : Nat) (ha : a < 2 ^ 64) (h : ∀ x ∈ args, x < 2 ^ 64) :
    args.foldl (fun a b => a ^^^ b) a < 2 ^ 64 := by
  induction args generalizing a with
  | nil => exact ha
  | cons x xs ih =>
    exact ih _ (Nat.xor_lt_two_pow ha (h x (by simp))) (fun y hy => h y (by simp [hy]))

/-- **`Sig.opfn` is the `ZMod.val`-image of its ring-valued reading**, for EVERY label and EVERY
    argument list: wrapping `u64` arithmetic is arithmetic in `ℤ/2⁶⁴` -/
theorem opfn_val (l : Nat) (args : List Z64) :
    Sig.opfn l (args.map ZMod.val) = (polyZ l args).map ZMod.val := by
  match l with
  | 0 =>
    simp only [Sig.opfn, W_eq, polyZ, List.map_cons, List.map_nil]
    rw [← foldl_add_val, ZMod.val_zero]
  | 1 =>
    simp only [Sig.opfn, W_eq, polyZ, List.map_cons, List.map_nil]
    rw [← foldl_mul_val]
    congr 2
  | 2 =>
    simp only [Sig.opfn, W_eq, polyZ, List.map_cons, List.map_nil, headD_val]
    rw [ZMod.neg_val']
  | 3 => simp only [Sig.opfn, polyZ, List.map_cons, List.map_nil, headD_val]
  | 4 => rfl
  | 5 =>
    simp only [Sig.opfn, polyZ, List.map_cons, List.map_nil]
    rw [val_cast_of_lt (by decide)]
  | 6 =>
    simp only [Sig.opfn, W_eq, polyZ, List.map_cons, List.map_nil]
    rw [val_cast_of_lt]
    refine Nat.lt_of_le_of_lt (foldl_and_le _ _) ?_
    decide
  | 7 =>
    simp only [Sig.opfn, polyZ, List.map_cons, List.map_nil]
    rw [val_cast_of_lt]
    exact foldl_xor_lt _ _ (by decide) (fun x hx => by
      obtain ⟨a, _, rfl⟩ := List.mem_map.1 hx
      exact val_lt64 a)
  | 8 =>
    simp only [Sig.opfn, W_eq, polyZ, List.map_cons, List.map_nil]
    rw [val_cast_of_lt]
    rw [headD_val]
    exact Nat.xor_lt_two_pow (by decide) (val_lt64 _)
  | n + 9 =>
    simp only [Sig.opfn, W_eq, polyZ, List.map_cons, List.map_nil]
    rw [ZMod.val_natCast]

/-- reading a list of wire values in the ring and back -/
theorem map_val_cast (x : List Nat) (hx : ∀ v ∈ x, v < 2 ^ 64) :
    (x.map (Nat.cast : Nat → Z64)).map ZMod.val = x := by
  rw [List.map_map]
  conv_rhs => rw [← List.map_id x]
  exact List.map_congr_left (fun v hv => val_cast_of_lt (hx v hv))

theorem map_cast_val (x : List Z64) : (x.map ZMod.val).map (Nat.cast : Nat → Z64) = x := by
  rw [List.map_map]
  conv_rhs => rw [← List.map_id x]
  exact List.map_congr_left (fun v _ => ZMod.natCast_zmod_val v)

/-- **`Sig.opfn` commutes with reduction modulo `2^64`** (the reading `ℕ → ℤ/2⁶⁴`) on wire values,
    and its outputs are wire values again; in particular for the polynomial labels
    `0, 1, 2, 3, 4, 10 + k` -/
theorem opfn_cast (l : Nat) (args : List Nat) (h : ∀ v ∈ args, v < 2 ^ 64) :
    (Sig.opfn l args).map (Nat.cast : Nat → Z64) = polyZ l (args.map Nat.cast) ∧
    ∀ v ∈ Sig.opfn l args, v < 2 ^ 64 := by
  have e := opfn_val l (args.map Nat.cast)
  rw [map_val_cast args h] at e
  rw [e]
  refine ⟨map_cast_val _, ?_⟩
  intro v hv
  obtain ⟨z, _, rfl⟩ := List.mem_map.1 hv
  exact val_lt64 z

/-! ## 2. the images of `mul` (pending unification pairs) as explicit quotients -/

/-- the strictified forward image of `mul`, up to isomorphism: `(x, y) ↦ (x·y, x, y)` -/
def qFwdMul : PDiag Nat Nat :=
  ⟨List.replicate 7 0, [⟨3, [0], [1, 2]⟩, ⟨3, [3], [4, 5]⟩, ⟨1, [1, 4], [6]⟩], [0, 3], [6, 2, 5]⟩

/-- the strictified reverse image of `mul`, up to isomorphism: `(x, y, dz) ↦ (y·dz, x·dz)` -/
def qRevMul : PDiag Nat Nat :=
  ⟨List.replicate 7 0, [⟨3, [0], [1, 2]⟩, ⟨1, [3, 1], [4]⟩, ⟨1, [5, 2], [6]⟩], [5, 3, 0], [4, 6]⟩

theorem rdFwdMul_wf : rdFwdMul.wf = true := by decide
theorem rdRevMul_wf : rdRevMul.wf = true := by decide

theorem rdFwdMul_quot : IsQuot (plain rdFwdMul) (pairsRel rdFwdMul) qFwdMul := by
  refine isQuot_explicit rdFwdMul rdFwdMul_wf qFwdMul (fun i => [0, 1, 2, 3, 4, 5, 1, 4, 6].getD i 0)
    (fun k => [0, 1, 2, 3, 4, 5, 8].getD k 0) ?_ ?_ ?_ ?_ ?_ rfl rfl rfl <;> decide

theorem rdRevMul_quot : IsQuot (plain rdRevMul) (pairsRel rdRevMul) qRevMul := by
  refine isQuot_explicit rdRevMul rdRevMul_wf qRevMul (fun i => [0, 1, 2, 3, 1, 4, 5, 2, 6].getD i 0)
    (fun k => [0, 1, 2, 3, 5, 6, 8].getD k 0) ?_ ?_ ?_ ?_ ?_ rfl rfl rfl <;> decide

theorem qFwdMul_wf : qFwdMul.wf = true := by decide
theorem qRevMul_wf : qRevMul.wf = true := by decide

theorem qFwdMul_mono : Monogamous qFwdMul := by
  apply monogamous_of_perm
  · show ([0, 3, 1, 2, 4, 5, 6] : List Nat).Perm (List.range 7)
    decide
  · show ([6, 2, 5, 0, 3, 1, 4] : List Nat).Perm (List.range 7)
    decide

theorem qRevMul_mono : Monogamous qRevMul := by
  apply monogamous_of_perm
  · show ([5, 3, 0, 1, 2, 4, 6] : List Nat).Perm (List.range 7)
    decide
  · show ([4, 6, 0, 3, 1, 5, 2] : List Nat).Perm (List.range 7)
    decide

theorem qFwdMul_rank : Lab rankΦ qFwdMul (fun v => [0, 1, 1, 0, 1, 1, 2].getD v 0) := by
  intro e he
  simp only [qFwdMul, List.mem_cons, List.not_mem_nil, or_false] at he
  rcases he with rfl | rfl | rfl <;> intro x hx y hy <;> simp at hx hy <;> omega

theorem qRevMul_rank : Lab rankΦ qRevMul (fun v => [0, 1, 1, 0, 2, 0, 2].getD v 0) := by
  intro e he
  simp only [qRevMul, List.mem_cons, List.not_mem_nil, or_false] at he
  rcases he with rfl | rfl | rfl <;> intro x hx y hy <;> simp at hx hy <;> omega

theorem len1Z {T : Type} {v : List T} (h : v.length = 1) : ∃ p, v = [p] := by
  match v, h with
  | [p], _ => exact ⟨p, rfl⟩

theorem len2Z {T : Type} {v : List T} (h : v.length = 2) : ∃ p q, v = [p, q] := by
  match v, h with
  | [p, q], _ => exact ⟨p, q, rfl⟩

theorem len0Z {T : Type} {v : List T} (h : v.length = 0) : v = [] := List.eq_nil_of_length_eq_zero h

theorem qFwdMul_arity : Lab (arΦ polyZ) qFwdMul (fun _ => ()) := by
  intro e he
  simp only [qFwdMul, List.mem_cons, List.not_mem_nil, or_false] at he
  rcases he with rfl | rfl | rfl <;> intro args _ <;> rfl

theorem qRevMul_arity : Lab (arΦ polyZ) qRevMul (fun _ => ()) := by
  intro e he
  simp only [qRevMul, List.mem_cons, List.not_mem_nil, or_false] at he
  rcases he with rfl | rfl | rfl <;> intro args _ <;> rfl

/-! ## 3. the polynomial generators have good images under `rdOptic` -/

/-- the polynomial generators with their arities; every wire carries the one object `0` -/
inductive PolyGen : Nat → List Nat → List Nat → Prop
  | add : PolyGen 0 [0, 0] [0]
  | mul : PolyGen 1 [0, 0] [0]
  | neg : PolyGen 2 [0] [0]
  | copy : PolyGen 3 [0] [0, 0]
  | discard : PolyGen 4 [0] []
  | const (k : Nat) : PolyGen (10 + k) [] [0]

theorem flatMap_unit (l : List Nat) : l.flatMap (fun o => [o]) = l := by
  induction l with
  | nil => rfl
  | cons a l ih => simp only [List.flatMap_cons, ih]; rfl

/-- a generator other than `mul`: both images are one-operation diagrams, no residual -/
theorem genCorrect_singletons (B : Backend) (hB : B.Lawful) (a a' : Nat) (s t : List Nat)
    (ha : (a == 1) = false)
    (hrev : rdOptic.revOperation a s t = .ok (LOHG.singleton a' t s))
    (arF : ∀ args : List Z64, args.length = s.length → (polyZ a args).length = t.length)
    (arR : ∀ args : List Z64, args.length = t.length → (polyZ a' args).length = s.length)
    (sem : ∀ x dy : List Z64, x.length = s.length → dy.length = t.length →
      (∀ v : List Z64, v.length = x.length → (polyD a (dualize x v)).map Dual.re = polyZ a x) ∧
      IsRevDeriv (polyD a) x dy (polyZ a' dy)) :
    GenCorrect B rdOptic polyD polyZ a s t := by
  obtain ⟨sFa, hF, wF, isoF⟩ := singleton_strict B hB a s t
  obtain ⟨sRa, hR, wR, isoR⟩ := singleton_strict B hB a' t s
  have hfwd : rdOptic.fwdOperation a s t = .ok (LOHG.singleton a s t) := by
    show Res.ok (if (a == 1) = true then rdFwdMul else LOHG.singleton a s t) = _
    rw [ha]; rfl
  have hres : rdOptic.residual a = [] := by
    show (if (a == 1) = true then [0, 0] else []) = _
    rw [ha]; rfl
  have eF : ∀ l : List Nat, l.flatMap rdOptic.fwdObject = l := flatMap_unit
  have eR : ∀ l : List Nat, l.flatMap rdOptic.revObject = l := flatMap_unit
  refine ⟨_, _, sFa, sRa, hfwd, singleton_wf a s t, hF, hrev, singleton_wf a' t s, hR, ?_⟩
  refine genFacts_of_plain B hB rdOptic polyD polyZ a s t sFa sRa wF wR (sq a s t) (sq a' t s)
    (sq_wf _ _ _) (sq_wf _ _ _) isoF isoR (sq_mono _ _ _) (sq_mono _ _ _) _ _ (sq_rank _ _ _)
    (sq_rank _ _ _) (sq_nodup _ _ _) (sq_nodup _ _ _) (sq_arity a s t polyZ arF)
    (sq_arity a' t s polyZ arR) ?_ ?_ ?_ ?_ ?_ ?_ ?_
  · rw [eF]; exact (sq_types a s t).1
  · rw [eF, hres, List.append_nil]; exact (sq_types a s t).2
  · rw [eR, hres, List.nil_append]; exact (sq_types a' t s).1
  · rw [eR]; exact (sq_types a' t s).2
  · show (List.range s.length).length = _
    rw [List.length_range]
  · show (List.range t.length).length = _
    rw [List.length_range, hres]; simp
  · intro x dy hx hdy
    obtain ⟨h1, h2⟩ := sem x dy hx hdy
    refine ⟨polyZ a x, [], polyZ a' dy, ?_, arF x hx, by rw [hres]; rfl, ?_, h1, h2⟩
    · rw [List.append_nil]
      exact sq_den a s t polyZ 0 x hx (arF x hx)
    · rw [List.nil_append]
      exact sq_den a' t s polyZ 0 dy hdy (arR dy hdy)

/-- `mul`: images with pending unification pairs, residual `(x, y)` -/
theorem genCorrect_mul (B : Backend) (hB : B.Lawful) :
    GenCorrect B rdOptic polyD polyZ 1 [0, 0] [0] := by
  obtain ⟨sFa, hF, wF, isoF⟩ := strict_of_quot B hB rdFwdMul rdFwdMul_wf qFwdMul rdFwdMul_quot
  obtain ⟨sRa, hR, wR, isoR⟩ := strict_of_quot B hB rdRevMul rdRevMul_wf qRevMul rdRevMul_quot
  refine ⟨rdFwdMul, rdRevMul, sFa, sRa, rfl, rdFwdMul_wf, hF, rfl, rdRevMul_wf, hR, ?_⟩
  refine genFacts_of_plain B hB rdOptic polyD polyZ 1 [0, 0] [0] sFa sRa wF wR qFwdMul qRevMul
    qFwdMul_wf qRevMul_wf isoF isoR qFwdMul_mono qRevMul_mono _ _ qFwdMul_rank qRevMul_rank
    (by decide) (by decide) qFwdMul_arity qRevMul_arity rfl rfl rfl rfl rfl rfl ?_
  intro x dy hx hdy
  obtain ⟨p, q, rfl⟩ := len2Z hx
  obtain ⟨dz, rfl⟩ := len1Z hdy
  refine ⟨[1 * p * q], [p, q], [1 * q * dz, 1 * p * dz], ?_, rfl, rfl, ?_, ?_, ?_⟩
  · refine ⟨fun v => [p, p, p, q, q, q, 1 * p * q].getD v 0, ?_, rfl, rfl⟩
    intro e he
    simp only [qFwdMul, List.mem_cons, List.not_mem_nil, or_false] at he
    rcases he with rfl | rfl | rfl <;> rfl
  · refine ⟨fun v => [dz, dz, dz, q, 1 * q * dz, p, 1 * p * dz].getD v 0, ?_, rfl, rfl⟩
    intro e he
    simp only [qRevMul, List.mem_cons, List.not_mem_nil, or_false] at he
    rcases he with rfl | rfl | rfl <;> rfl
  · intro v hv
    obtain ⟨a, b, rfl⟩ := len2Z hv
    rfl
  · intro v hv
    obtain ⟨a, b, rfl⟩ := len2Z hv
    simp [polyD]
    ring

/-- **THE POLYNOMIAL GENERATORS HAVE GOOD REVERSE-DERIVATIVE IMAGES UNDER `rdOptic`**, for every
    lawful backend: the hypothesis `GenCorrect` of `rev_correct_corrected` at the concrete optic
    `rdOptic`, with `sem2 = polyZ` (the ring-valued reading of `Sig.opfn`) and `semD = polyD`
    (its dual-number extension) -/
theorem rd_genCorrect (B : Backend) (hB : B.Lawful) {a : Nat} {s t : List Nat}
    (h : PolyGen a s t) : GenCorrect B rdOptic polyD polyZ a s t := by
  cases h with
  | add =>
    refine genCorrect_singletons B hB 0 3 [0, 0] [0] rfl rfl (fun _ _ => rfl) (fun _ _ => rfl) ?_
    intro x dy hx hdy
    obtain ⟨p, q, rfl⟩ := len2Z hx
    obtain ⟨dz, rfl⟩ := len1Z hdy
    refine ⟨fun v hv => ?_, fun v hv => ?_⟩ <;> obtain ⟨a, b, rfl⟩ := len2Z hv
    · rfl
    · simp [polyD, polyZ]
      ring
  | mul => exact genCorrect_mul B hB
  | neg =>
    refine genCorrect_singletons B hB 2 2 [0] [0] rfl rfl (fun _ _ => rfl) (fun _ _ => rfl) ?_
    intro x dy hx hdy
    obtain ⟨p, rfl⟩ := len1Z hx
    obtain ⟨dz, rfl⟩ := len1Z hdy
    refine ⟨fun v hv => ?_, fun v hv => ?_⟩ <;> obtain ⟨a, rfl⟩ := len1Z hv
    · rfl
    · simp [polyD, polyZ]
  | copy =>
    refine genCorrect_singletons B hB 3 0 [0] [0, 0] rfl rfl (fun _ _ => rfl) (fun _ _ => rfl) ?_
    intro x dy hx hdy
    obtain ⟨p, rfl⟩ := len1Z hx
    obtain ⟨d1, d2, rfl⟩ := len2Z hdy
    refine ⟨fun v hv => ?_, fun v hv => ?_⟩ <;> obtain ⟨a, rfl⟩ := len1Z hv
    · rfl
    · simp [polyD, polyZ]
      ring
  | discard =>
    refine genCorrect_singletons B hB 4 10 [0] [] rfl rfl (fun _ _ => rfl) (fun _ _ => rfl) ?_
    intro x dy hx hdy
    obtain ⟨p, rfl⟩ := len1Z hx
    obtain rfl := len0Z hdy
    refine ⟨fun v hv => ?_, fun v hv => ?_⟩ <;> obtain ⟨a, rfl⟩ := len1Z hv
    · rfl
    · simp [polyD, polyZ]
  | const k =>
    rw [Nat.add_comm]
    refine genCorrect_singletons B hB (k + 10) 4 [] [0] rfl rfl (fun _ _ => rfl) (fun _ _ => rfl) ?_
    intro x dy hx hdy
    obtain rfl := len0Z hx
    obtain ⟨dz, rfl⟩ := len1Z hdy
    refine ⟨fun v hv => ?_, fun v hv => ?_⟩ <;> obtain rfl := len0Z hv
    · rfl
    · simp [polyD, polyZ]

/-- the hypotheses of `rd_genCorrect` are satisfiable: the Vec backend is lawful; e.g. the constant
    `7` (label `17`) and `mul` (whose images carry pending unification pairs) -/
example : GenCorrect vecBackend rdOptic polyD polyZ 17 [] [0] ∧
    GenCorrect vecBackend rdOptic polyD polyZ 1 [0, 0] [0] :=
  ⟨rd_genCorrect vecBackend vecBackend_lawful (.const 7), rd_genCorrect vecBackend vecBackend_lawful .mul⟩

/-! ## 4. the derivative theorem at `rdOptic` and `Sig.opfn` -/

/-- the batch interpreter of the driver (`Sig.applySig`, used by `evalLogged`) is the pointwise
    callback of `Sig.opfn` -/
theorem applySig_eq : Sig.applySig = Eval.applyOf Sig.opfn := rfl

/-- evaluation with `Sig.opfn` on wire values from evaluation with `polyZ` over `ℤ/2⁶⁴`
    (any diagram, any backend) -/
theorem eval_opfn_of_polyZ (B : Backend) (f : OHG Nat Nat) (x : List Nat)
    (hx : ∀ v ∈ x, v < 2 ^ 64) (out : List Z64)
    (h : Graph.eval B f (0 : Z64) (x.map Nat.cast) (Eval.applyOf polyZ) = .ok out) :
    Graph.eval B f 0 x (Eval.applyOf Sig.opfn) = .ok (out.map ZMod.val) := by
  have := eval_map B ZMod.val polyZ Sig.opfn opfn_val f (0 : Z64) (x.map Nat.cast)
  rw [h, map_val_cast x hx, ZMod.val_zero] at this
  exact this

/-- **THE DERIVATIVE CLAUSE OF C14 ON THE CODE PATH OF THE CORRESPONDENCE CHECK.**
    Let `f` be a well-formed lax circuit whose strict form `sf` (backend `B`, lawful) is acyclic and
    monogamous and all of whose operations are polynomial generators with their arities
    (`PolyGen`; in particular all their wires carry the object `0`).  Let `x`, `dy` be lists of
    `u64` values (naturals `< 2^64`) of the lengths of the input and output interfaces.  Then
    * `LOptic.mapAdapted B rdOptic f` is defined (no `unwrap` fires), its result strictifies to
      some `sg`, and `sg` is monogamous;
    * the model evaluator with the driver's interpreter `Sig.opfn` (wrapping arithmetic on
      naturals, default value `0`) returns on `x ++ dy` a list `y ++ gx`;
    * `y` is what the same evaluator with the same interpreter returns on the circuit `sf` itself
      at `x`:  `y = f(x)`;
    * `gx` has the length of `x`, all entries of `y ++ gx` are `u64` values, and, read in
      `Z64 = ℤ/2⁶⁴`, `gx` is the reverse derivative at `x` against `dy` of the function that `sf`
      denotes (under the model evaluator) over the dual numbers of `Z64` with the dual-number
      extension `polyD` of `Sig.opfn`:  `gx = J_f(x)ᵀ·dy  (mod 2^64)`; that function has real part
      `y` at `x`, whatever the tangent. -/
theorem rd_rev_correct (B : Backend) (hB : B.Lawful) (f : LOHG Nat Nat) (sf : OHG Nat Nat)
    (hf : f.wf = true) (hts : LOHG.toStrict B f = .ok sf)
    (hac : Acyclic sf.toPlain) (hm : Monogamous sf.toPlain)
    (hgen : ∀ t ∈ C12.opTriples (C12.opsOf sf), PolyGen t.1 t.2.1 t.2.2)
    (x dy : List Nat) (hx : x.length = sf.s.table.length) (hdy : dy.length = sf.t.table.length)
    (hxW : ∀ v ∈ x, v < 2 ^ 64) (hdyW : ∀ v ∈ dy, v < 2 ^ 64) :
    ∃ (g : LOHG Nat Nat) (sg : OHG Nat Nat) (y gx : List Nat),
      LOptic.mapAdapted B rdOptic f = .ok g ∧ LOHG.toStrict B g = .ok sg ∧ Monogamous sg.toPlain ∧
      Graph.eval B sg 0 (x ++ dy) (Eval.applyOf Sig.opfn) = .ok (y ++ gx) ∧
      Graph.eval B sf 0 x (Eval.applyOf Sig.opfn) = .ok y ∧
      gx.length = x.length ∧ (∀ v ∈ y ++ gx, v < 2 ^ 64) ∧
      (∀ v : List Z64, v.length = x.length →
        (evalOr B sf (0 : Dual Z64) polyD (dualize (x.map Nat.cast) v)).map Dual.re =
          y.map Nat.cast) ∧
      IsRevDeriv (evalOr B sf (0 : Dual Z64) polyD) (x.map Nat.cast) (dy.map Nat.cast)
        (gx.map Nat.cast) := by
  have hsfwf : sf.wf = true := ((C10.toStrict_quotient B hB f hf).2.2 sf hts).1
  obtain ⟨hsa, hsb⟩ := C01.types_defined sf hsfwf
  have la := C03.plain_ins_length hsfwf hsa
  have lb := C03.plain_outs_length hsfwf hsb
  have eF : ∀ l : List Nat, l.flatMap rdOptic.fwdObject = l := flatMap_unit
  have eR : ∀ l : List Nat, l.flatMap rdOptic.revObject = l := flatMap_unit
  obtain ⟨g, sg, yZ, gxZ, hmap, hsg, hmono, hev, hre, hlen, hrd⟩ :=
    rev_correct_corrected Z64 Nat Nat Nat Nat B hB rdOptic polyD polyZ (fun _ => ⟨rfl, rfl⟩)
      f sf hf hts hac hm (fun t ht => rd_genCorrect B hB (hgen t ht)) _ _ hsa hsb
      (x.map Nat.cast) (dy.map Nat.cast)
      (by rw [eF, List.length_map, hx]; exact la) (by rw [eR, List.length_map, hdy]; exact lb)
  -- the evaluation of the adapted optic, over the naturals
  have hxdy : ∀ v ∈ x ++ dy, v < 2 ^ 64 := by
    intro v hv
    rcases List.mem_append.1 hv with h | h
    · exact hxW v h
    · exact hdyW v h
  rw [applyOf_eq, ← List.map_append] at hev
  have hevN := eval_opfn_of_polyZ B sg (x ++ dy) hxdy _ hev
  rw [List.map_append] at hevN
  -- the evaluation of the circuit itself
  have hopac := opAcyclic_of_acyclic sf hsfwf hac
  obtain ⟨outsD, houtsD⟩ := (C16.eval_ok_iff B hB sf hsfwf (0 : Dual Z64)
    (dualize (x.map Nat.cast) ((x.map (Nat.cast : Nat → Z64)).map (fun _ => 0)))
    (Eval.applyOf polyD)).2 hopac
  have hreD : outsD.map Dual.re = yZ := by
    have := hre ((x.map (Nat.cast : Nat → Z64)).map (fun _ => 0)) (by simp)
    unfold evalOr at this
    rw [applyOf_eq, houtsD] at this
    exact this
  have hevZ : Graph.eval B sf (0 : Z64) (x.map Nat.cast) (Eval.applyOf polyZ) = .ok yZ := by
    have := eval_map B Dual.re polyD polyZ polyZ_re sf (0 : Dual Z64)
      (dualize (x.map Nat.cast) ((x.map (Nat.cast : Nat → Z64)).map (fun _ => 0)))
    rw [houtsD, dualize_map_re _ _ (by simp), Res.map_ok, hreD] at this
    exact this
  have hevNf := eval_opfn_of_polyZ B sf x hxW _ hevZ
  refine ⟨g, sg, yZ.map ZMod.val, gxZ.map ZMod.val, hmap, hsg, hmono, hevN, hevNf, ?_, ?_, ?_, ?_⟩
  · rw [List.length_map, hlen, List.length_map]
  · intro v hv
    rw [← List.map_append] at hv
    obtain ⟨z, _, rfl⟩ := List.mem_map.1 hv
    exact val_lt64 z
  · intro v hv
    rw [map_cast_val]
    exact hre v (by rw [List.length_map]; exact hv)
  · rw [map_cast_val]
    exact hrd

/-! ## 5. a worked circuit: `(x, y) ↦ x·y + x` -/

/-- the lax circuit `(x, y) ↦ x·y + x`: copy `x`, multiply one copy with `y`, add the other -/
def xyx : LOHG Nat Nat :=
  ⟨[0, 1], [5], ⟨[0, 0, 0, 0, 0, 0], [3, 1, 0],
    [⟨[0], [2, 3]⟩, ⟨[2, 1], [4]⟩, ⟨[4, 3], [5]⟩], ([], [])⟩⟩

theorem xyx_plain : (pack xyx).toPlain =
    ⟨[0, 0, 0, 0, 0, 0], [⟨3, [0], [2, 3]⟩, ⟨1, [2, 1], [4]⟩, ⟨0, [4, 3], [5]⟩], [0, 1], [5]⟩ := rfl

theorem xyx_strict : LOHG.toStrict vecBackend xyx = .ok (pack xyx) ∧ (pack xyx).wf = true := by
  obtain ⟨h1, h2, _⟩ := C10.toStrict_spec vecBackend C10.vecBackend_idCC xyx rfl rfl
  exact ⟨h1, h2⟩

theorem xyx_acyclic : Acyclic (pack xyx).toPlain := by
  rw [xyx_plain]
  apply acyclic_of_rank (rk := fun v => [0, 0, 1, 1, 2, 3].getD v 0)
  intro e he
  simp only [List.mem_cons, List.not_mem_nil, or_false] at he
  rcases he with rfl | rfl | rfl <;> intro x hx y hy <;> simp at hx hy <;> omega

theorem xyx_mono : Monogamous (pack xyx).toPlain := by
  rw [xyx_plain]
  apply monogamous_of_perm
  · show ([0, 1, 2, 3, 4, 5] : List Nat).Perm (List.range 6)
    decide
  · show ([5, 0, 2, 1, 4, 3] : List Nat).Perm (List.range 6)
    decide

theorem xyx_gens : ∀ t ∈ C12.opTriples (C12.opsOf (pack xyx)), PolyGen t.1 t.2.1 t.2.2 := by
  intro t ht
  have : C12.opTriples (C12.opsOf (pack xyx)) =
      [(3, [0], [0, 0]), (1, [0, 0], [0]), (0, [0, 0], [0])] := rfl
  rw [this] at ht
  simp only [List.mem_cons, List.not_mem_nil, or_false] at ht
  rcases ht with rfl | rfl | rfl
  · exact .copy
  · exact .mul
  · exact .add

/-- **the hypotheses of `rd_rev_correct` are satisfiable by a non-trivial circuit** (a copy, a
    multiplication with non-empty residual, an addition; Vec backend), for all `u64` inputs -/
example (p q dz : Nat) (hp : p < 2 ^ 64) (hq : q < 2 ^ 64) (hdz : dz < 2 ^ 64) :
    ∃ (g : LOHG Nat Nat) (sg : OHG Nat Nat) (y gx : List Nat),
      LOptic.mapAdapted vecBackend rdOptic xyx = .ok g ∧ LOHG.toStrict vecBackend g = .ok sg ∧
      Monogamous sg.toPlain ∧
      Graph.eval vecBackend sg 0 ([p, q] ++ [dz]) (Eval.applyOf Sig.opfn) = .ok (y ++ gx) ∧
      Graph.eval vecBackend (pack xyx) 0 [p, q] (Eval.applyOf Sig.opfn) = .ok y ∧
      gx.length = 2 := by
  obtain ⟨g, sg, y, gx, h1, h2, h3, h4, h5, h6, _⟩ := rd_rev_correct vecBackend vecBackend_lawful
    xyx (pack xyx) rfl xyx_strict.1 xyx_acyclic xyx_mono xyx_gens [p, q] [dz] rfl rfl
    (by
      intro v hv
      simp only [List.mem_cons, List.not_mem_nil, or_false] at hv
      rcases hv with rfl | rfl <;> assumption)
    (by
      intro v hv
      simp only [List.mem_cons, List.not_mem_nil, or_false] at hv
      subst hv; assumption)
  exact ⟨g, sg, y, gx, h1, h2, h3, h4, h5, h6⟩

theorem xyx_sw : SingleWriter (pack xyx).toPlain :=
  monogamous_singleWriter (C03.wfP xyx_strict.2) xyx_mono

theorem xyx_arity {T : Type} (sem : Nat → List T → List T)
    (h3 : ∀ a, (sem 3 [a]).length = 2) (h1 : ∀ a b, (sem 1 [a, b]).length = 1)
    (h0 : ∀ a b, (sem 0 [a, b]).length = 1) : C16.ArityOK (pack xyx) sem := by
  intro e he args hargs
  rw [xyx_plain] at he
  simp only [List.mem_cons, List.not_mem_nil, or_false] at he
  rcases he with rfl | rfl | rfl
  · obtain ⟨a, rfl⟩ := len1Z hargs; exact h3 a
  · obtain ⟨a, b, rfl⟩ := len2Z hargs; exact h1 a b
  · obtain ⟨a, b, rfl⟩ := len2Z hargs; exact h0 a b

theorem xyx_rest {T : Type} (val : Nat → T) (dflt : T) :
    ∀ v, v < (pack xyx).toPlain.n → v ∉ (pack xyx).toPlain.ins →
      (∀ e ∈ (pack xyx).toPlain.edges, v ∉ e.tgt) → val v = dflt := by
  intro v hv hni hnt
  exfalso
  rcases monogamous_written (C03.wfP xyx_strict.2) xyx_mono v hv with h | ⟨e, he, hve⟩
  · exact hni h
  · exact hnt e he hve

/-- the circuit at `(3, 5)`: `3·5 + 3 = 18` (model evaluator, wrapping interpreter) -/
theorem xyx_eval :
    Graph.eval vecBackend (pack xyx) 0 [3, 5] (Eval.applyOf Sig.opfn) = .ok [18] := by
  have hval : IsValuation (pack xyx).toPlain Sig.opfn 0 [3, 5]
      (fun v => [3, 5, 3, 3, 15, 18].getD v 0) := by
    refine ⟨rfl, ?_, xyx_rest _ _⟩
    rw [xyx_plain]
    intro e he
    simp only [List.mem_cons, List.not_mem_nil, or_false] at he
    rcases he with rfl | rfl | rfl <;> decide
  exact C16.eval_eq_of_valuation vecBackend vecBackend_lawful (pack xyx) xyx_strict.2 Sig.opfn 0
    [3, 5] (opAcyclic_of_acyclic _ xyx_strict.2 xyx_acyclic) xyx_sw
    (xyx_arity Sig.opfn (fun _ => rfl) (fun _ _ => rfl) (fun _ _ => rfl)) rfl hval

/-- the reverse derivative of the circuit at `(3, 5)` against `1`, over `ℤ/2⁶⁴`: `(5 + 1, 3)` -/
theorem xyx_revDeriv :
    IsRevDeriv (evalOr vecBackend (pack xyx) (0 : Dual Z64) polyD)
      (([3, 5] : List Nat).map Nat.cast) (([1] : List Nat).map Nat.cast)
      (([6, 3] : List Nat).map Nat.cast) := by
  intro v hv
  obtain ⟨a, b, rfl⟩ := len2Z (by simpa using hv)
  let X : Dual Z64 := ⟨((3 : Nat) : Z64), a⟩
  let Y : Dual Z64 := ⟨((5 : Nat) : Z64), b⟩
  have hval : IsValuation (pack xyx).toPlain polyD (0 : Dual Z64) [X, Y]
      (fun v => [X, Y, X, X, 1 * X * Y, 0 + 1 * X * Y + X].getD v 0) := by
    refine ⟨rfl, ?_, xyx_rest _ _⟩
    rw [xyx_plain]
    intro e he
    simp only [List.mem_cons, List.not_mem_nil, or_false] at he
    rcases he with rfl | rfl | rfl <;> rfl
  have hev := C16.eval_eq_of_valuation vecBackend vecBackend_lawful (pack xyx) xyx_strict.2 polyD
    (0 : Dual Z64) [X, Y] (opAcyclic_of_acyclic _ xyx_strict.2 xyx_acyclic) xyx_sw
    (xyx_arity polyD (fun _ => rfl) (fun _ _ => rfl) (fun _ _ => rfl)) rfl hval
  have : evalOr vecBackend (pack xyx) (0 : Dual Z64) polyD
      (dualize (([3, 5] : List Nat).map Nat.cast) [a, b]) = [0 + 1 * X * Y + X] := by
    unfold evalOr
    rw [applyOf_eq]
    have hd : dualize (([3, 5] : List Nat).map (Nat.cast : Nat → Z64)) [a, b] = [X, Y] := rfl
    rw [hd, hev]
    rfl
  rw [this]
  simp [X, Y]
  ring

/-- **the numbers**: on the circuit `(x, y) ↦ x·y + x`, input `(3, 5)` and cotangent `1`, the
    adapted optic of `rdOptic` is defined, monogamous, and the model evaluator with the driver's
    interpreter `Sig.opfn` returns `(18; 6, 3)` = `(f(3,5); ∂f/∂x, ∂f/∂y)` -/
example : ∃ (g : LOHG Nat Nat) (sg : OHG Nat Nat),
    LOptic.mapAdapted vecBackend rdOptic xyx = .ok g ∧ LOHG.toStrict vecBackend g = .ok sg ∧
    Monogamous sg.toPlain ∧
    Graph.eval vecBackend sg 0 ([3, 5] ++ [1]) (Eval.applyOf Sig.opfn) = .ok ([18] ++ [6, 3]) := by
  obtain ⟨g, sg, y, gx, h1, h2, h3, h4, h5, h6, h7, _, h9⟩ := rd_rev_correct vecBackend
    vecBackend_lawful xyx (pack xyx) rfl xyx_strict.1 xyx_acyclic xyx_mono xyx_gens [3, 5] [1] rfl
    rfl (by decide) (by decide)
  have hy : y = [18] := by
    rw [xyx_eval] at h5
    exact (Res.ok.inj h5).symm
  have hg : gx.map (Nat.cast : Nat → Z64) = ([6, 3] : List Nat).map Nat.cast :=
    IsRevDeriv.unique (by simp [h6]) (by simp) h9 xyx_revDeriv
  have hgx : gx = [6, 3] := by
    have := congrArg (List.map ZMod.val) hg
    rw [map_val_cast gx (fun v hv => h7 v (List.mem_append_right _ hv)),
      map_val_cast [6, 3] (by decide)] at this
    exact this
  rw [hy, hgx] at h4
  exact ⟨g, sg, h1, h2, h3, h4⟩

end OH.C14
