/-
  C14 — THE REFERENCE ORACLE OF `optic.deriv` REFLECTED.

  The driver's `optic.deriv` branch (Model/DriverOptic.lean, `opticG`) accepts the implementation's
  answer only if it also equals `Drv.refRevDeriv B sf x dy`: `(f x, Jᵀ·dy)` computed on the ORIGINAL
  circuit by forward-mode dual numbers over `ℕ × ℕ` with wrapping arithmetic modulo `W = 2^64`
  (`Drv.opfnDual`, `Drv.applyDual`), one run per input coordinate.  This file connects that
  oracle to the model-side theorem `C14.rd_rev_correct` (Props/C14Poly.lean).

  HEADLINE
    * `opfnDual_fst`, `applyDual_fst` — first components of the oracle's interpreter are the primal
      interpreter `Sig.opfn`/`Sig.applySig`, on every label except the bitwise gates 6/7/8
      (`PolyLabel`).  DISCREPANCY (outside the polynomial signature): on 6/7/8 `opfnDual` is the
      constant 0, e.g. `opfnDual 6 [(3,0),(5,0)] = [(0,0)]` while `Sig.opfn 6 [3,5] = [1]`.
    * `refRevDeriv_closed` — on a well-formed diagram, lawful backend, the oracle always returns
      (it does not test for cycles) and is given in closed form.
    * `refRevDeriv_fst`, `refRevDeriv_fst_evalLogged` — its first component is `Graph.eval`/
      `evalLogged` of the circuit at `x` (acyclic, no bitwise gate; every lawful backend).
    * `opfnDual_polyD` — `opfnDual` is the `ZMod.val`-image of `C14.polyD`, the dual-number
      semantics of `rd_rev_correct`; `revGen_isRevDeriv`, `opfnDual_snd` — adjointness
      `⟨rev(x,dy), v⟩ = ⟨dy, snd(opfnDual a (x+vε))⟩` for add, mul, neg, copy, discard, constants,
      with `rev` the reverse maps `rdOptic` assigns.  No generator is off.
    * `refRevDeriv_agrees_model` — under the hypotheses of `rd_rev_correct` the oracle returns
      EXACTLY the pair `(y, gx)` that the model's adapted optic evaluates to: no false alarm.
      (No chain rule for the dual-number runs was needed: `rd_rev_correct` already provides a
      reverse derivative `gx` of the denoted dual-number function, and testing it against the unit
      tangents yields the oracle's columns.)
-/
import OHVerif.Model.DriverOptic
import OHVerif.Props.C14Poly
import OHVerif.Props.C16

namespace OH.C14RefOracle
open OH OH.Prim OH.Graph OH.C14 OH.RdI OH.RevDeriv OH.RdO OH.LaxStrict OH.LaxIso

/-- the oracle's dual numbers: pairs of naturals (`Drv.Dual`) -/
abbrev ND : Type := Nat × Nat

/-- the labels on which the oracle's dual-number rule is defined as the extension of `Sig.opfn`:
    everything except the three bitwise gates (and 6, xor 7, not 8) -/
def PolyLabel (l : Nat) : Prop := l ≠ 6 ∧ l ≠ 7 ∧ l ≠ 8

instance (l : Nat) : Decidable (PolyLabel l) := by unfold PolyLabel; exact inferInstance

/-! ## 1. first components: the dual-number evaluation projects to the `u64` evaluation -/

theorem foldl_add_fst (args : List ND) (a : ND) :
    (args.foldl (fun a b => ((a.1 + b.1) % Sig.W, (a.2 + b.2) % Sig.W)) a).1 =
      (args.map Prod.fst).foldl (fun a b => (a + b) % Sig.W) a.1 := by
  induction args generalizing a with
  | nil => rfl
  | cons x xs ih => simp only [List.foldl_cons, List.map_cons]; rw [ih]

theorem foldl_mul_fst (args : List ND) (a : ND) :
    (args.foldl (fun a b => ((a.1 * b.1) % Sig.W, (a.1 * b.2 + a.2 * b.1) % Sig.W)) a).1 =
      (args.map Prod.fst).foldl (fun a b => (a * b) % Sig.W) a.1 := by
  induction args generalizing a with
  | nil => rfl
  | cons x xs ih => simp only [List.foldl_cons, List.map_cons]; rw [ih]

theorem headD_fst (args : List ND) : (args.map Prod.fst).headD 0 = (args.headD (0, 0)).1 := by
  cases args <;> rfl

/-- **generator level**: on every label except the bitwise gates 6/7/8, the first components of
    `opfnDual` are `Sig.opfn` of the first components (for EVERY argument list, any tangents) -/
theorem opfnDual_fst (l : Nat) (hl : PolyLabel l) (args : List ND) :
    Sig.opfn l (args.map Prod.fst) = (Drv.opfnDual l args).map Prod.fst := by
  match l, hl with
  | 0, _ => simp only [Sig.opfn, Drv.opfnDual, List.map_cons, List.map_nil, foldl_add_fst]
  | 1, _ => simp only [Sig.opfn, Drv.opfnDual, List.map_cons, List.map_nil, foldl_mul_fst]
  | 2, _ => simp only [Sig.opfn, Drv.opfnDual, List.map_cons, List.map_nil, headD_fst]
  | 3, _ => simp only [Sig.opfn, Drv.opfnDual, List.map_cons, List.map_nil, headD_fst]
  | 4, _ => rfl
  | 5, _ => rfl
  | 6, h => exact absurd rfl h.1
  | 7, h => exact absurd rfl h.2.1
  | 8, h => exact absurd rfl h.2.2
  | n + 9, _ => rfl

/-- DISCREPANCY (benign for polynomial circuits): on the bitwise labels the oracle's rule is the
    constant `(l - 10) % W = 0`, not the gate -/
example : Drv.opfnDual 6 [(3, 0), (5, 0)] = [(0, 0)] ∧ Sig.opfn 6 [3, 5] = [1] := by decide

/-! ### naturality of `evalOrder` for interpretations that commute on the labels OF THE DIAGRAM -/

section natural
variable {O A T T' : Type}

theorem applyOf_map_on (h : T → T') (opfn : A → List T → List T) (opfn' : A → List T' → List T')
    (labels : List A) (hc : ∀ l ∈ labels, ∀ args, opfn' l (args.map h) = (opfn l args).map h)
    (c : IC (List T)) :
    Eval.applyOf opfn' labels ⟨c.sources, c.values.map h⟩ =
      ⟨(Eval.applyOf opfn labels c).sources, (Eval.applyOf opfn labels c).values.map h⟩ := by
  unfold Eval.applyOf IC.segsL IC.ofSegsL
  simp only
  rw [splitSegs_map]
  have : List.zipWith opfn' labels ((splitSegs c.sources.table c.values).map (List.map h)) =
      (List.zipWith opfn labels (splitSegs c.sources.table c.values)).map (List.map h) := by
    generalize splitSegs c.sources.table c.values = L
    induction labels generalizing L with
    | nil => simp
    | cons l ls ih =>
      cases L with
      | nil => simp
      | cons a L =>
        simp only [List.map_cons, List.zipWith_cons_cons]
        rw [hc l (by simp), ih (fun l' hl' => hc l' (by simp [hl']))]
  rw [this]
  simp [List.map_flatten]

theorem mem_of_composeSemi {α : Type} (ff : FinFun) (xs labels : List α) (site : String)
    (h : (FinFun.composeSemi ff xs).unwrap site = .ok labels) : ∀ l ∈ labels, l ∈ xs := by
  unfold FinFun.composeSemi gather at h
  split at h
  · split at h
    · simp only [Res.unwrap_ok] at h
      injection h with h
      subst h
      intro l hl
      unfold gatherP at hl
      obtain ⟨i, _, hi⟩ := List.mem_filterMap.1 hl
      exact List.mem_of_getElem? hi
    · cases h
  · cases h

theorem evalBody_map_on (h : T → T') (opfn : A → List T → List T) (opfn' : A → List T' → List T')
    (f : OHG O A) (hc : ∀ l ∈ f.h.x, ∀ args, opfn' l (args.map h) = (opfn l args).map h)
    (mem : List T) (g : List Nat) :
    Eval.evalBody f (Eval.applyOf opfn') (mem.map h) g =
      List.map h <$> Eval.evalBody f (Eval.applyOf opfn) mem g := by
  unfold Eval.evalBody
  simp only
  cases hlab : (FinFun.composeSemi ⟨g, f.h.x.length⟩ f.h.x).unwrap "eval:unwrap-labels" with
  | none => rfl
  | panic s => rfl
  | ok labels =>
    have hmem := mem_of_composeSemi _ _ _ _ hlab
    simp only [Res.ok_bind]
    cases (IC.mapIndexes f.h.s ⟨g, f.h.x.length⟩).unwrap "eval:unwrap-in-indexes" with
    | none => rfl
    | panic s => rfl
    | ok inIdx =>
      simp only [Res.ok_bind]
      unfold IC.mapSemifinite
      rw [composeSemi_map]
      cases FinFun.composeSemi inIdx.values mem with
      | none => rfl
      | panic s => rfl
      | ok v =>
        simp only [Res.map_ok, Res.ok_bind, Res.pure_eq, Res.unwrap_ok]
        cases (IC.mapIndexes f.h.t ⟨g, f.h.x.length⟩).unwrap "eval:unwrap-out-indexes" with
        | none => rfl
        | panic s => rfl
        | ok outIdx =>
          simp only [Res.ok_bind]
          rw [applyOf_map_on h opfn opfn' labels (fun l hl => hc l (hmem l hl)) ⟨inIdx.sources, v⟩]
          exact scatterAssign_map h mem _ _

theorem foldlM_evalBody_map_on (h : T → T') (opfn : A → List T → List T)
    (opfn' : A → List T' → List T') (f : OHG O A)
    (hc : ∀ l ∈ f.h.x, ∀ args, opfn' l (args.map h) = (opfn l args).map h) :
    ∀ (order : List (List Nat)) (mem : List T),
      order.foldlM (Eval.evalBody f (Eval.applyOf opfn')) (mem.map h) =
        List.map h <$> order.foldlM (Eval.evalBody f (Eval.applyOf opfn)) mem
  | [], mem => rfl
  | g :: order, mem => by
    rw [List.foldlM_cons, List.foldlM_cons, evalBody_map_on h opfn opfn' f hc, map_bind]
    cases Eval.evalBody f (Eval.applyOf opfn) mem g with
    | none => rfl
    | panic s => rfl
    | ok m => exact foldlM_evalBody_map_on h opfn opfn' f hc order m

/-- `evalOrder` is natural in the value type for two interpretations that commute with `h` on the
    labels that OCCUR in the diagram (cf. `RdI.evalOrder_map`, which asks it of all labels) -/
theorem evalOrder_map_on (h : T → T') (opfn : A → List T → List T) (opfn' : A → List T' → List T')
    (f : OHG O A) (hc : ∀ l ∈ f.h.x, ∀ args, opfn' l (args.map h) = (opfn l args).map h)
    (dflt : T) (s : List T) (order : List (List Nat)) :
    evalOrder f (h dflt) (s.map h) order (Eval.applyOf opfn') =
      (fun r => (r.1.map h, r.2.map h)) <$> evalOrder f dflt s order (Eval.applyOf opfn) := by
  rw [Eval.evalOrder_unfold, Eval.evalOrder_unfold]
  have : List.replicate f.h.w.length (h dflt) = (List.replicate f.h.w.length dflt).map h := by simp
  rw [this, scatterAssign_map]
  cases scatterAssign (List.replicate f.h.w.length dflt) f.s.table s with
  | none => rfl
  | panic s => rfl
  | ok mem1 =>
    simp only [Res.map_ok, Res.ok_bind]
    rw [foldlM_evalBody_map_on h opfn opfn' f hc]
    cases order.foldlM (Eval.evalBody f (Eval.applyOf opfn)) mem1 with
    | none => rfl
    | panic s => rfl
    | ok mem =>
      simp only [Res.map_ok, Res.ok_bind]
      rw [gather_map]
      cases gather mem f.t.table with
      | none => rfl
      | panic s => rfl
      | ok outs => rfl

end natural

theorem applyDual_eq : Drv.applyDual = Eval.applyOf Drv.opfnDual := rfl

/-- **(1) `applyDual` projects to `applySig`**: for a batch of operations none of which is a bitwise
    gate, the first components of the oracle's batch interpreter are the driver's primal batch
    interpreter `Sig.applySig` (the one `evalLogged`/`eval.eval` use) on the first components -/
theorem applyDual_fst (labels : List Nat) (hl : ∀ l ∈ labels, PolyLabel l) (c : IC (List ND)) :
    Sig.applySig labels ⟨c.sources, c.values.map Prod.fst⟩ =
      ⟨(Drv.applyDual labels c).sources, (Drv.applyDual labels c).values.map Prod.fst⟩ :=
  applyOf_map_on Prod.fst Drv.opfnDual Sig.opfn labels
    (fun l h args => opfnDual_fst l (hl l h) args) c

/-! ## 2. the oracle in closed form; its first component is `f x` -/

/-- the `i`-th seeded input of the oracle: `x` with tangent the `i`-th unit vector -/
def tangentInput (x : List Nat) (i : Nat) : List ND :=
  (x.zip (List.range x.length)).map (fun p => (p.1, if p.2 == i then 1 else 0))

/-- the oracle's pairing of the cotangent with a column of output tangents, modulo `W` -/
def pairW (dy : List Nat) (col : List ND) : Nat :=
  (List.zipWith (fun d o => (d * o.2) % Sig.W) dy col).foldl (fun a b => (a + b) % Sig.W) 0

/-- `refRevDeriv` once the layering and the `|x| + 1` dual-number runs are known -/
theorem refRevDeriv_eq_of (B : Backend) (f : OHG Nat Nat) (x dy : List Nat) (order : FinFun)
    (unv : List Nat) (groups : List (List Nat)) (hl : layer B f = .ok (order, unv))
    (hc : converseIter B order = .ok groups) (memc : Nat → List ND) (col : Nat → List ND)
    (memb base : List ND)
    (hcols : ∀ i, i < x.length →
      evalOrder f (0, 0) (tangentInput x i) groups Drv.applyDual = .ok (memc i, col i))
    (hbase : evalOrder f (0, 0) (x.map (fun v => (v, 0))) groups Drv.applyDual = .ok (memb, base)) :
    Drv.refRevDeriv B f x dy =
      .ok (base.map Prod.fst, (List.range x.length).map (fun i => pairW dy (col i))) := by
  unfold Drv.refRevDeriv
  rw [hl]
  simp only [Res.ok_bind, hc]
  rw [Res.mapM_ok _ col]
  · simp only [Res.ok_bind, hbase, List.map_map]
    rfl
  · intro i hi
    have := hcols i (List.mem_range.1 hi)
    unfold tangentInput at this
    rw [this]
    rfl

/-- the outputs of a dual-number run on a well-formed diagram, in closed form -/
def runOuts (f : OHG Nat Nat) (groups : List (List Nat)) (s : List ND) : List ND :=
  f.t.table.map (Eval.rd (0, 0)
    (groups.foldl (Eval.stepM f (0, 0) Drv.applyDual) (Eval.initM f (0, 0) s)))

/-- **the oracle is total**: on a well-formed diagram and a lawful backend `refRevDeriv` returns
    (never `none`, never a panic — also on a cyclic diagram, the oracle does not test for cycles),
    and its value is determined by the layering `groups` that `eval` uses -/
theorem refRevDeriv_closed (B : Backend) (hB : B.Lawful) (f : OHG Nat Nat) (hf : f.wf = true)
    (x dy : List Nat) :
    ∃ order unv groups, layer B f = .ok (⟨order, f.h.x.length⟩, unv) ∧
      converseIter B ⟨order, f.h.x.length⟩ = .ok groups ∧
      (∀ s, ∃ m, evalOrder f (0, 0) s groups Drv.applyDual = .ok (m, runOuts f groups s)) ∧
      Drv.refRevDeriv B f x dy =
        .ok ((runOuts f groups (x.map (fun v => (v, 0)))).map Prod.fst,
          (List.range x.length).map (fun i => pairW dy (runOuts f groups (tangentInput x i)))) := by
  obtain ⟨order, unv, groups, hl, hc, hol, _, _, _, hcount, _⟩ := Eval.eval_layers B hB f hf
  have hrange := Eval.groups_in_range hol hcount
  have hev : ∀ s, evalOrder f (0, 0) s groups Drv.applyDual = .ok (_, runOuts f groups s) :=
    fun s => Eval.evalOrder_eq f hf (0, 0) s groups hrange Drv.applyDual
  refine ⟨order, unv, groups, hl, hc, fun s => ⟨_, hev s⟩, ?_⟩
  exact refRevDeriv_eq_of B f x dy _ unv groups hl hc _ _ _ _ (fun i _ => hev _) (hev _)

theorem map_pair_fst (x : List Nat) : (x.map (fun v => ((v, 0) : ND))).map Prod.fst = x := by
  rw [List.map_map]
  conv_rhs => rw [← List.map_id x]
  rfl

/-- **(2) the first component of the oracle is `f x`**: on a well-formed diagram without bitwise
    gates whose dependency relation is acyclic, for every lawful backend, the `fx` the oracle returns
    is what the model evaluator `Graph.eval` with the driver's primal interpreter `Sig.applySig`
    (i.e. the outputs of `evalLogged`, the `eval.eval` operation) returns on `x`; no hypothesis on
    the lengths of `x`, `dy`, on single writers or arities -/
theorem refRevDeriv_fst (B : Backend) (hB : B.Lawful) (f : OHG Nat Nat) (hf : f.wf = true)
    (hlab : ∀ l ∈ f.h.x, PolyLabel l) (hac : C16.OpAcyclic f) (x dy : List Nat)
    (fx g : List Nat) (h : Drv.refRevDeriv B f x dy = .ok (fx, g)) :
    Graph.eval B f 0 x Sig.applySig = .ok fx := by
  obtain ⟨order, unv, groups, hl, hc, hev, hcl⟩ := refRevDeriv_closed B hB f hf x dy
  rw [hcl] at h
  injection h with h
  injection h with hfx _
  obtain ⟨m, hm⟩ := hev (x.map (fun v => (v, 0)))
  have hnat := evalOrder_map_on Prod.fst Drv.opfnDual Sig.opfn f
    (fun l hl args => opfnDual_fst l (hlab l hl) args) (0, 0) (x.map (fun v => (v, 0))) groups
  rw [map_pair_fst, ← applyDual_eq, hm, Res.map_ok] at hnat
  obtain ⟨outs, houts⟩ := (C16.eval_ok_iff B hB f hf 0 x Sig.applySig).2 hac
  have hu := Eval.eval_unfold B f 0 x Sig.applySig _ unv groups hl hc
  rw [houts] at hu
  split at hu
  · rw [applySig_eq, hnat] at hu
    rw [houts, hu, ← hfx]
    rfl
  · cases hu

theorem bind_ok_inv {α β : Type} (x : Res α) (k : α → Res β) (b : β) (h : x >>= k = .ok b) :
    ∃ a, x = .ok a ∧ k a = .ok b := by
  cases x with
  | ok a => exact ⟨a, rfl, h⟩
  | none => cases h
  | panic s => cases h

/-- the same for the driver's logged interpreter: the outputs `evalLogged` reports are `fx` -/
theorem refRevDeriv_fst_evalLogged (B : Backend) (hB : B.Lawful) (f : OHG Nat Nat)
    (hf : f.wf = true) (hlab : ∀ l ∈ f.h.x, PolyLabel l) (hac : C16.OpAcyclic f)
    (x dy : List Nat) (fx g : List Nat) (h : Drv.refRevDeriv B f x dy = .ok (fx, g))
    (outs : List Nat) (log : List (List (Nat × List Nat)))
    (he : Drv.evalLogged B f x = .ok (outs, log)) : outs = fx := by
  have h1 := refRevDeriv_fst B hB f hf hlab hac x dy fx g h
  unfold Drv.evalLogged at he
  rw [h1] at he
  simp only [Res.ok_bind] at he
  obtain ⟨p, _, he⟩ := bind_ok_inv _ _ _ he
  obtain ⟨lay, _, he⟩ := bind_ok_inv _ _ _ he
  obtain ⟨mem1, _, he⟩ := bind_ok_inv _ _ _ he
  obtain ⟨q, _, he⟩ := bind_ok_inv _ _ _ he
  obtain ⟨q1, q2⟩ := q
  simp only [Res.pure_eq] at he
  injection he with he
  injection he with he _
  exact he.symm

/-! ## 3. second components: `opfnDual` is the `ZMod.val`-image of `polyD`, the dual-number
       semantics `rd_rev_correct` is stated against; adjointness per generator -/

/-- reading a dual number over `ℤ/2⁶⁴` as a pair of `u64` values -/
def hD (d : Dual Z64) : ND := (d.re.val, d.eps.val)

theorem hD_zero : hD (0 : Dual Z64) = (0, 0) := by
  show ((0 : Z64).val, (0 : Z64).val) = (0, 0)
  rw [ZMod.val_zero]

theorem hD_add (a x : Dual Z64) :
    (((hD a).1 + (hD x).1) % 2 ^ 64, ((hD a).2 + (hD x).2) % 2 ^ 64) = hD (a + x) := by
  show ((a.re.val + x.re.val) % 2 ^ 64, (a.eps.val + x.eps.val) % 2 ^ 64) =
    ((a.re + x.re).val, (a.eps + x.eps).val)
  rw [ZMod.val_add, ZMod.val_add]

theorem hD_mul (a x : Dual Z64) :
    (((hD a).1 * (hD x).1) % 2 ^ 64, ((hD a).1 * (hD x).2 + (hD a).2 * (hD x).1) % 2 ^ 64) =
      hD (a * x) := by
  show ((a.re.val * x.re.val) % 2 ^ 64, (a.re.val * x.eps.val + a.eps.val * x.re.val) % 2 ^ 64) =
    ((a.re * x.re).val, (a.re * x.eps + a.eps * x.re).val)
  rw [ZMod.val_add, ZMod.val_mul, ZMod.val_mul, ZMod.val_mul, ← Nat.add_mod]

theorem foldl_add_hD (args : List (Dual Z64)) (a : Dual Z64) :
    (args.map hD).foldl (fun a b => ((a.1 + b.1) % 2 ^ 64, (a.2 + b.2) % 2 ^ 64)) (hD a) =
      hD (args.foldl (· + ·) a) := by
  induction args generalizing a with
  | nil => rfl
  | cons x xs ih => simp only [List.foldl_cons, List.map_cons]; rw [hD_add, ih]

theorem foldl_mul_hD (args : List (Dual Z64)) (a : Dual Z64) :
    (args.map hD).foldl (fun a b => ((a.1 * b.1) % 2 ^ 64, (a.1 * b.2 + a.2 * b.1) % 2 ^ 64))
      (hD a) = hD (args.foldl (· * ·) a) := by
  induction args generalizing a with
  | nil => rfl
  | cons x xs ih => simp only [List.foldl_cons, List.map_cons]; rw [hD_mul, ih]

theorem headD_hD (args : List (Dual Z64)) : (args.map hD).headD (0, 0) = hD (args.headD 0) := by
  cases args with
  | nil => exact hD_zero.symm
  | cons _ _ => rfl

theorem val_one64 : (1 : Z64).val = 1 := val_cast_of_lt (n := 1) (by decide) ▸ by simp

theorem hD_one : hD (1 : Dual Z64) = (1, 0) := by
  show ((1 : Z64).val, (0 : Z64).val) = (1, 0)
  rw [val_one64, ZMod.val_zero]

/-- **(3a) `opfnDual` IS `polyD` read through `ZMod.val`**, on every label except the bitwise
    gates and every argument list: both components — the value and the directional derivative —
    of the oracle's generator rule are those of the dual-number extension `polyD` of `Sig.opfn`
    over `ℤ/2⁶⁴`, which is the semantics `rd_genCorrect`/`rd_rev_correct` are stated against -/
theorem opfnDual_polyD (l : Nat) (hl : PolyLabel l) (args : List (Dual Z64)) :
    Drv.opfnDual l (args.map hD) = (polyD l args).map hD := by
  match l, hl with
  | 0, _ =>
    simp only [Drv.opfnDual, W_eq, polyD, List.map_cons, List.map_nil]
    rw [← hD_zero, foldl_add_hD]
  | 1, _ =>
    simp only [Drv.opfnDual, W_eq, polyD, List.map_cons, List.map_nil]
    rw [← hD_one, foldl_mul_hD]
  | 2, _ =>
    simp only [Drv.opfnDual, W_eq, polyD, List.map_cons, List.map_nil, headD_hD]
    congr 1
  | 3, _ => simp only [Drv.opfnDual, polyD, List.map_cons, List.map_nil, headD_hD]
  | 4, _ => rfl
  | 5, _ =>
    simp only [Drv.opfnDual, polyD, List.map_cons, List.map_nil]
    congr 1
  | 6, h => exact absurd rfl h.1
  | 7, h => exact absurd rfl h.2.1
  | 8, h => exact absurd rfl h.2.2
  | n + 9, _ =>
    simp only [Drv.opfnDual, W_eq, polyD, List.map_cons, List.map_nil]
    congr 1

/-- the reverse maps of the generators, as `rdOptic` assigns them (`rdOptic.revOperation`): add ↦ copy
    (label 3), neg ↦ neg (2), copy ↦ add (0), discard ↦ the constant 0 (label 10), a constant ↦
    discard (4), each read with `polyZ`; mul ↦ `rdRevMul`, whose strict form denotes
    `(x, y, dz) ↦ (y·dz, x·dz)` (`genCorrect_mul`, `qRevMul`) -/
def revGen (a : Nat) (x dy : List Z64) : List Z64 :=
  match a with
  | 0 => polyZ 3 dy
  | 1 => [1 * x.getD 1 0 * dy.headD 0, 1 * x.headD 0 * dy.headD 0]
  | 2 => polyZ 2 dy
  | 3 => polyZ 0 dy
  | 4 => polyZ 10 dy
  | _ => polyZ 4 dy

/-- `revGen` uses the labels of `rdOptic.revOperation` -/
example : rdOptic.revOperation 0 [0, 0] [0] = .ok (LOHG.singleton 3 [0] [0, 0]) ∧
    rdOptic.revOperation 2 [0] [0] = .ok (LOHG.singleton 2 [0] [0]) ∧
    rdOptic.revOperation 3 [0] [0, 0] = .ok (LOHG.singleton 0 [0, 0] [0]) ∧
    rdOptic.revOperation 4 [0] [] = .ok (LOHG.singleton 10 [] [0]) ∧
    rdOptic.revOperation 17 [] [0] = .ok (LOHG.singleton 4 [0] []) ∧
    rdOptic.revOperation 1 [0, 0] [0] = .ok rdRevMul := ⟨rfl, rfl, rfl, rfl, rfl, rfl⟩

/-- the reverse map of every polynomial generator is the reverse derivative of `polyD` -/
theorem revGen_isRevDeriv {a : Nat} {s t : List Nat} (hg : PolyGen a s t) (x dy : List Z64)
    (hx : x.length = s.length) (hdy : dy.length = t.length) :
    IsRevDeriv (polyD a) x dy (revGen a x dy) := by
  intro v hv
  cases hg with
  | add =>
    obtain ⟨p, q, rfl⟩ := len2Z hx
    obtain ⟨dz, rfl⟩ := len1Z hdy
    obtain ⟨a, b, rfl⟩ := len2Z hv
    simp [polyD, polyZ, revGen]
    ring
  | mul =>
    obtain ⟨p, q, rfl⟩ := len2Z hx
    obtain ⟨dz, rfl⟩ := len1Z hdy
    obtain ⟨a, b, rfl⟩ := len2Z hv
    simp [polyD, revGen]
    ring
  | neg =>
    obtain ⟨p, rfl⟩ := len1Z hx
    obtain ⟨dz, rfl⟩ := len1Z hdy
    obtain ⟨a, rfl⟩ := len1Z hv
    simp [polyD, polyZ, revGen]
  | copy =>
    obtain ⟨p, rfl⟩ := len1Z hx
    obtain ⟨d1, d2, rfl⟩ := len2Z hdy
    obtain ⟨a, rfl⟩ := len1Z hv
    simp [polyD, polyZ, revGen]
    ring
  | discard =>
    obtain ⟨p, rfl⟩ := len1Z hx
    obtain rfl := len0Z hdy
    obtain ⟨a, rfl⟩ := len1Z hv
    simp [polyD, polyZ, revGen]
  | const k =>
    obtain rfl := len0Z hx
    obtain ⟨dz, rfl⟩ := len1Z hdy
    obtain rfl := len0Z hv
    rw [Nat.add_comm 10 k]
    simp [polyD, polyZ, revGen]

theorem polyGen_polyLabel {a : Nat} {s t : List Nat} (hg : PolyGen a s t) : PolyLabel a := by
  cases hg <;> (unfold PolyLabel; omega)

/-- **(3) ADJOINTNESS, generator by generator** (add, mul, neg, copy, discard, constants): the
    second components of `opfnDual` on the point `x` seeded with the tangent `v` are the forward
    (tangent) map of the generator, and it is the transpose of the reverse map `revGen` the model's
    optic uses:  `⟨rev(x, dy), v⟩ = ⟨dy, snd (opfnDual a (x + vε))⟩` in `ℤ/2⁶⁴` -/
theorem opfnDual_snd {a : Nat} {s t : List Nat} (hg : PolyGen a s t) (x v dy : List Z64)
    (hx : x.length = s.length) (hv : v.length = x.length) (hdy : dy.length = t.length) :
    dot (revGen a x dy) v =
      dot dy ((Drv.opfnDual a ((dualize x v).map hD)).map (fun p => ((p.2 : Nat) : Z64))) := by
  rw [opfnDual_polyD a (polyGen_polyLabel hg), List.map_map]
  have : ((fun p : ND => ((p.2 : Nat) : Z64)) ∘ hD) = Dual.eps := by
    funext d
    exact ZMod.natCast_zmod_val d.eps
  rw [this]
  exact revGen_isRevDeriv hg x dy hx hdy v hv

/-! ## 4. the oracle agrees with the model: no false alarm -/

theorem evalOrder_of_eval {T : Type} (B : Backend) (f : OHG Nat Nat) (dflt : T) (s : List T)
    (apply : Apply Nat T) (order : FinFun) (unv : List Nat) (groups : List (List Nat))
    (hl : layer B f = .ok (order, unv)) (hc : converseIter B order = .ok groups) (outs : List T)
    (h : eval B f dflt s apply = .ok outs) :
    ∃ m, evalOrder f dflt s groups apply = .ok (m, outs) := by
  rw [Eval.eval_unfold B f dflt s apply order unv groups hl hc] at h
  split at h
  · obtain ⟨r, hr, hr2⟩ := bind_ok_inv _ _ _ h
    injection hr2 with hr2
    exact ⟨r.1, by rw [hr, ← hr2]⟩
  · cases h

/-- the unit vectors as the oracle writes them -/
theorem unitVec (n k i : Nat) :
    (List.range' k n).map (fun j => if j == k + i then (1 : Z64) else 0) = basis n i := by
  induction n generalizing k i with
  | zero => rfl
  | succ n ih =>
    rw [List.range'_succ, List.map_cons]
    cases i with
    | zero =>
      simp only [basis, Nat.add_zero, beq_self_eq_true, if_true]
      congr 1
      rw [List.eq_replicate_iff]
      refine ⟨by simp, ?_⟩
      intro b hb
      obtain ⟨j, hj, rfl⟩ := List.mem_map.1 hb
      have := (List.mem_range'_1.1 hj).1
      have hne : (j == k) = false := by
        rw [beq_eq_false_iff_ne]; omega
      simp [hne]
    | succ i =>
      have hne : (k == k + (i + 1)) = false := by
        rw [beq_eq_false_iff_ne]; omega
      rw [hne]
      simp only [basis]
      congr 1
      have : k + (i + 1) = k + 1 + i := by omega
      rw [this]
      exact ih (k + 1) i

theorem inputs_hD (x : List Nat) (hx : ∀ v ∈ x, v < 2 ^ 64) (τ : Nat → Nat)
    (hτ : ∀ j, τ j < 2 ^ 64) (k : Nat) :
    (x.zip (List.range' k x.length)).map (fun p => ((p.1, τ p.2) : ND)) =
      (dualize (x.map (Nat.cast : Nat → Z64))
        ((List.range' k x.length).map (fun j => ((τ j : Nat) : Z64)))).map hD := by
  induction x generalizing k with
  | nil => rfl
  | cons a x ih =>
    simp only [List.length_cons, List.range'_succ, List.zip_cons_cons, List.map_cons, dualize_cons]
    congr 1
    · show (a, τ k) = (((a : Nat) : Z64).val, ((τ k : Nat) : Z64).val)
      rw [val_cast_of_lt (hx a (by simp)), val_cast_of_lt (hτ k)]
    · exact ih (fun v hv => hx v (by simp [hv])) (k + 1)

theorem tangentInput_hD (x : List Nat) (hx : ∀ v ∈ x, v < 2 ^ 64) (i : Nat) :
    tangentInput x i = (dualize (x.map (Nat.cast : Nat → Z64)) (basis x.length i)).map hD := by
  unfold tangentInput
  rw [List.range_eq_range']
  have h := inputs_hD x hx (fun j => if j == i then 1 else 0)
    (fun j => by split <;> decide) 0
  rw [← unitVec x.length 0 i]
  simp only [Nat.zero_add]
  rw [h]
  congr 2
  apply List.map_congr_left
  intro j _
  split <;> simp

theorem baseInput_hD (x : List Nat) (hx : ∀ v ∈ x, v < 2 ^ 64) :
    x.map (fun v => ((v, 0) : ND)) =
      (dualize (x.map (Nat.cast : Nat → Z64))
        ((x.map (Nat.cast : Nat → Z64)).map (fun _ => 0))).map hD := by
  induction x with
  | nil => rfl
  | cons a x ih =>
    simp only [List.map_cons, dualize_cons]
    congr 1
    · show (a, 0) = (((a : Nat) : Z64).val, (0 : Z64).val)
      rw [val_cast_of_lt (hx a (by simp)), ZMod.val_zero]
    · exact ih (fun v hv => hx v (by simp [hv]))

theorem foldl_mod_lt (l : List Nat) (acc : Nat) (h : acc < 2 ^ 64) :
    l.foldl (fun a b => (a + b) % 2 ^ 64) acc < 2 ^ 64 := by
  induction l generalizing acc with
  | nil => exact h
  | cons b l ih => exact ih _ (Nat.mod_lt _ (by decide))

theorem pairW_lt (dy : List Nat) (col : List ND) : pairW dy col < 2 ^ 64 := by
  unfold pairW
  simp only [W_eq]
  exact foldl_mod_lt _ 0 (by decide)

theorem foldl_pair_cast (dy : List Nat) (l : List (Dual Z64)) (acc : Nat) :
    (((List.zipWith (fun d o => (d * o.2) % 2 ^ 64) dy (l.map hD)).foldl
      (fun a b => (a + b) % 2 ^ 64) acc : Nat) : Z64) =
      (acc : Z64) + dot (dy.map (Nat.cast : Nat → Z64)) (l.map Dual.eps) := by
  induction dy generalizing l acc with
  | nil => simp
  | cons d dy ih =>
    cases l with
    | nil => simp
    | cons o l =>
      simp only [List.map_cons, List.zipWith_cons_cons, List.foldl_cons, dot_cons]
      rw [ih]
      have h1 : (((acc + d * (hD o).2 % 2 ^ 64) % 2 ^ 64 : Nat) : Z64) =
          (acc : Z64) + (d : Z64) * o.eps := by
        rw [ZMod.natCast_mod, Nat.cast_add, ZMod.natCast_mod, Nat.cast_mul]
        show _ + _ * ((o.eps.val : Nat) : Z64) = _
        rw [ZMod.natCast_zmod_val]
      rw [h1]
      ring

/-- the oracle's pairing is the pairing `dot` of `ℤ/2⁶⁴` -/
theorem pairW_cast (dy : List Nat) (l : List (Dual Z64)) :
    ((pairW dy (l.map hD) : Nat) : Z64) = dot (dy.map (Nat.cast : Nat → Z64)) (l.map Dual.eps) := by
  unfold pairW
  simp only [W_eq]
  rw [foldl_pair_cast]
  simp

theorem labels_of_gens (sf : OHG Nat Nat) (hsf : sf.wf = true)
    (hgen : ∀ t ∈ C12.opTriples (C12.opsOf sf), PolyGen t.1 t.2.1 t.2.2) :
    ∀ l ∈ sf.h.x, PolyLabel l := by
  obtain ⟨_, _, hsl, htl, _, _⟩ := hg_wf_unpack sf.h (C15.ohg_wf_h sf hsf)
  obtain ⟨_, _, hx⟩ := C12.opTriples_proj (C12.opsOf sf) hsl.symm htl.symm
  intro l hl
  have hl' : l ∈ (C12.opTriples (C12.opsOf sf)).map (·.1) := by rw [hx]; exact hl
  obtain ⟨t, ht, rfl⟩ := List.mem_map.1 hl'
  exact polyGen_polyLabel (hgen t ht)

/-- **(4) THE ORACLE CAN NEVER REJECT THE MODEL'S OWN ANSWER.**  Under the hypotheses of
    `C14.rd_rev_correct` (well-formed lax circuit `f` over the polynomial generators whose strict form
    `sf` is acyclic and monogamous, `u64` inputs and cotangents of the right lengths, lawful backend)
    the adapted optic of `rdOptic` is defined, strictifies to a monogamous `sg`, the model evaluator
    returns `y ++ gx` on `x ++ dy`, AND the reference oracle run on the ORIGINAL circuit returns
    exactly the same pair: `refRevDeriv B sf x dy = ok (y, gx)`.  Both are `(f x, J_f(x)ᵀ·dy)`:
    `y` is `Graph.eval` of `sf` at `x`, and `gx`, read in `ℤ/2⁶⁴`, is the reverse derivative of the
    function `sf` denotes over the dual numbers. -/
theorem refRevDeriv_agrees_model (B : Backend) (hB : B.Lawful) (f : LOHG Nat Nat) (sf : OHG Nat Nat)
    (hf : f.wf = true) (hts : LOHG.toStrict B f = .ok sf)
    (hac : Acyclic sf.toPlain) (hm : Monogamous sf.toPlain)
    (hgen : ∀ t ∈ C12.opTriples (C12.opsOf sf), PolyGen t.1 t.2.1 t.2.2)
    (x dy : List Nat) (hx : x.length = sf.s.table.length) (hdy : dy.length = sf.t.table.length)
    (hxW : ∀ v ∈ x, v < 2 ^ 64) (hdyW : ∀ v ∈ dy, v < 2 ^ 64) :
    ∃ (g : LOHG Nat Nat) (sg : OHG Nat Nat) (y gx : List Nat),
      LOptic.mapAdapted B rdOptic f = .ok g ∧ LOHG.toStrict B g = .ok sg ∧ Monogamous sg.toPlain ∧
      Graph.eval B sg 0 (x ++ dy) (Eval.applyOf Sig.opfn) = .ok (y ++ gx) ∧
      Drv.refRevDeriv B sf x dy = .ok (y, gx) ∧
      Graph.eval B sf 0 x (Eval.applyOf Sig.opfn) = .ok y ∧
      gx.length = x.length ∧
      IsRevDeriv (evalOr B sf (0 : Dual Z64) polyD) (x.map Nat.cast) (dy.map Nat.cast)
        (gx.map Nat.cast) := by
  obtain ⟨g, sg, y, gx, h1, h2, h3, h4, h5, h6, h7, h8, h9⟩ :=
    rd_rev_correct B hB f sf hf hts hac hm hgen x dy hx hdy hxW hdyW
  refine ⟨g, sg, y, gx, h1, h2, h3, h4, ?_, h5, h6, h9⟩
  have hsf : sf.wf = true := ((C10.toStrict_quotient B hB f hf).2.2 sf hts).1
  have hlab := labels_of_gens sf hsf hgen
  have hopac := opAcyclic_of_acyclic sf hsf hac
  obtain ⟨order, unv, groups, hl, hc, hev, hcl⟩ := refRevDeriv_closed B hB sf hsf x dy
  -- every dual-number run of the oracle is the `ZMod.val`-image of the run over `Dual Z64`
  have hrun : ∀ s : List (Dual Z64),
      runOuts sf groups (s.map hD) = (evalOr B sf (0 : Dual Z64) polyD s).map hD := by
    intro s
    obtain ⟨outs, houts⟩ := (C16.eval_ok_iff B hB sf hsf (0 : Dual Z64) s (Eval.applyOf polyD)).2 hopac
    obtain ⟨m, hm'⟩ := evalOrder_of_eval B sf _ s _ _ unv groups hl hc outs houts
    have hnat := evalOrder_map_on hD polyD Drv.opfnDual sf
      (fun l hl' args => opfnDual_polyD l (hlab l hl') args) (0 : Dual Z64) s groups
    rw [hm', Res.map_ok, hD_zero, ← applyDual_eq] at hnat
    obtain ⟨m2, hm2⟩ := hev (s.map hD)
    rw [hm2] at hnat
    injection hnat with hnat
    injection hnat with _ hnat
    rw [hnat]
    unfold evalOr
    rw [applyOf_eq, houts]
  rw [hcl]
  congr 2
  · -- the primal outputs
    rw [baseInput_hD x hxW, hrun, List.map_map]
    have := h8 ((x.map (Nat.cast : Nat → Z64)).map (fun _ => 0)) (by simp)
    have e : (Prod.fst ∘ hD) = (ZMod.val ∘ Dual.re) := rfl
    rw [e, ← List.map_map, this]
    exact map_val_cast y (fun v hv => h7 v (List.mem_append_left _ hv))
  · -- the gradient, coordinate by coordinate
    apply List.ext_getElem
    · rw [List.length_map, List.length_range, h6]
    · intro i hi1 hi2
      rw [List.getElem_map, List.getElem_range]
      have hi : i < x.length := by simpa using hi1
      rw [tangentInput_hD x hxW i, hrun]
      have hc1 := pairW_cast dy (evalOr B sf (0 : Dual Z64) polyD
        (dualize (x.map (Nat.cast : Nat → Z64)) (basis x.length i)))
      have hb := h9 (basis x.length i) (by rw [basis_length, List.length_map])
      have hlen : (gx.map (Nat.cast : Nat → Z64)).length = x.length := by
        rw [List.length_map, h6]
      have hi' : i < (gx.map (Nat.cast : Nat → Z64)).length := by rw [hlen]; exact hi
      have hdb := dot_basis (gx.map (Nat.cast : Nat → Z64)) i hi'
      rw [hlen] at hdb
      rw [hdb] at hb
      rw [← hb, List.getElem_map] at hc1
      have := congrArg ZMod.val hc1
      rw [val_cast_of_lt (pairW_lt _ _),
        val_cast_of_lt (h7 _ (List.mem_append_right _ (List.getElem_mem hi2)))] at this
      exact this

/-! ## 5. examples -/

/-- the hypotheses of `refRevDeriv_agrees_model` are satisfiable by a non-trivial circuit, and the
    theorems determine the oracle's value: on `(x, y) ↦ x·y + x` (a copy, a multiplication, an
    addition), input `(3, 5)`, cotangent `1`, the oracle returns `(18; 6, 3)` -/
example : Drv.refRevDeriv vecBackend (pack xyx) [3, 5] [1] = .ok ([18], [6, 3]) := by
  obtain ⟨g, sg, y, gx, _, _, _, _, h5, h6, h7, h9⟩ := refRevDeriv_agrees_model vecBackend
    vecBackend_lawful xyx (pack xyx) rfl xyx_strict.1 xyx_acyclic xyx_mono xyx_gens [3, 5] [1] rfl
    rfl (by decide) (by decide)
  have hy : y = [18] := by
    rw [xyx_eval] at h6
    exact (Res.ok.inj h6).symm
  have hg : gx.map (Nat.cast : Nat → Z64) = ([6, 3] : List Nat).map Nat.cast :=
    IsRevDeriv.unique (by simp [h7]) (by simp) h9 xyx_revDeriv
  obtain ⟨a, b, rfl⟩ := len2Z (v := gx) (by simpa using h7)
  have hvals : ∀ v ∈ [a, b], v < 2 ^ 64 := by
    intro v hv
    have h4' := refRevDeriv_closed vecBackend vecBackend_lawful (pack xyx) xyx_strict.2 [3, 5] [1]
    obtain ⟨_, _, _, _, _, _, hcl⟩ := h4'
    rw [hcl] at h5
    injection h5 with h5
    injection h5 with _ h5
    rw [← h5] at hv
    obtain ⟨i, _, rfl⟩ := List.mem_map.1 hv
    exact pairW_lt _ _
  have hgx : [a, b] = [6, 3] := by
    have := congrArg (List.map ZMod.val) hg
    rw [map_val_cast [a, b] hvals, map_val_cast [6, 3] (by decide)] at this
    exact this
  rw [h5, hy, hgx]

/-- `x·y` with `x` copied and one copy discarded -/
def cxy : OHG Nat Nat :=
  ⟨⟨[0, 1], 5⟩, ⟨[4], 5⟩,
    ⟨⟨⟨[1, 2, 1], 5⟩, ⟨[0, 2, 1, 3], 5⟩⟩, ⟨⟨[2, 1, 0], 4⟩, ⟨[2, 3, 4], 5⟩⟩,
     [0, 0, 0, 0, 0], [3, 1, 4]⟩⟩

/-- NOTE `decide`/`decide +kernel` do not reduce `refRevDeriv vecBackend …` (the layering goes
    through `List.mergeSort` and well-founded loops).  The dual-number runs themselves reduce once
    the layering is given: on `cxy` at `(3, 5)` the two seeded runs and the base run return
    `15 + 5ε`, `15 + 3ε`, `15`, i.e. the oracle's answer is `(15; 5·1, 3·1)` -/
example : (Prod.snd <$> evalOrder cxy (0, 0) (tangentInput [3, 5] 0) [[0], [1, 2]] Drv.applyDual) =
      Res.ok [(15, 5)] ∧
    (Prod.snd <$> evalOrder cxy (0, 0) (tangentInput [3, 5] 1) [[0], [1, 2]] Drv.applyDual) =
      Res.ok [(15, 3)] ∧
    (Prod.snd <$> evalOrder cxy (0, 0) ([3, 5].map (fun v => (v, 0))) [[0], [1, 2]] Drv.applyDual) =
      Res.ok [(15, 0)] ∧
    pairW [1] [(15, 5)] = 5 ∧ pairW [1] [(15, 3)] = 3 := by
  decide

/-- generator rules on numbers: `(3 + ε)·(5 + 0ε) = 15 + 5ε`, wrapping negation, copy -/
example : Drv.opfnDual 1 [(3, 1), (5, 0)] = [(15, 5)] ∧
    Drv.opfnDual 2 [(1, 1)] = [(Sig.W - 1, Sig.W - 1)] ∧
    Drv.opfnDual 3 [(7, 1)] = [(7, 1), (7, 1)] ∧ Drv.opfnDual 12 [] = [(2, 0)] := by decide

end OH.C14RefOracle
