/-
  C15 — layering of the operations of an open hypergraph (`layer`, `layered_operations`,
  src/strict/layer.rs).

  With "y depends on x" meaning that some target node of x is a source node of y
  (`opDep f.toPlain x y`):
  * `layer` returns for every well-formed diagram and every lawful backend (`layer_ok`);
  * exactly the operations on or downstream of a dependency cycle are marked unvisited (1), all
    others are marked visited (0) and receive as layer the length of the longest dependency chain
    ending in them; unvisited operations keep the initial layer 0 (`layer_spec`);
  * consequently a visited operation lies strictly above everything it depends on, layer 0 are
    exactly the visited operations without dependencies, the layer is the least possible, and the
    layers in use are `0..m` where `m` is the length of the longest chain among visited
    operations (`visited_of_dep`, `layer_respects_deps`, `layer_zero_iff`, `layer_tight`,
    `layers_used`);
  * the grouped form has one group per possible layer and lists every operation exactly once, in
    the group of its layer number (`layeredOperations_spec`); NOTE that unvisited operations carry
    layer number 0 and therefore appear in group 0 together with the visited operations of
    layer 0 (`layeredOperations_unvisited`).
-/
import OHVerif.Lemmas.Adjacency
import OHVerif.Lemmas.VecBackend

namespace OH.C15
open OH OH.Graph OH.Kahn Relation

variable {O A : Type}

/-- the dependency relation on the operations of `f` -/
abbrev dep (f : OHG O A) : Nat → Nat → Prop := opDep f.toPlain

theorem ohg_wf_h (f : OHG O A) (hf : f.wf = true) : f.h.wf = true := by
  simp only [OHG.wf, Bool.and_eq_true] at hf
  exact hf.1.1.1.1

theorem dep_lt (f : OHG O A) (hf : f.wf = true) {x y : Nat} (h : dep f x y) :
    x < f.h.x.length ∧ y < f.h.x.length := by
  obtain ⟨ex, ey, _, hx, hy, _, _⟩ := h
  have hlen := toPlainEdges_length f.h (ohg_wf_h f hf)
  exact ⟨hlen ▸ (List.getElem?_eq_some_iff.1 hx).1, hlen ▸ (List.getElem?_eq_some_iff.1 hy).1⟩

/-- everything about `layer` in one statement -/
theorem layer_core (B : Backend) (hB : B.Lawful) (f : OHG O A) (hf : f.wf = true) :
    ∃ order unv, layer B f = .ok (⟨order, f.h.x.length⟩, unv) ∧
      order.length = f.h.x.length ∧ unv.length = f.h.x.length ∧ (∀ k ∈ order, k < f.h.x.length) ∧
      ∀ y, y < f.h.x.length →
        (unv[y]? = some 1 ↔ OnOrAfterCycle (dep f) y) ∧
        (unv[y]? = some 0 ↔ ¬ OnOrAfterCycle (dep f) y) ∧
        (unv[y]? = some 0 → ∃ k, order[y]? = some k ∧ HasDepth (dep f) y k) ∧
        (unv[y]? = some 1 → order[y]? = some 0) := by
  obtain ⟨a, ha, haw, halen, _, hdep⟩ := operationAdjacency_spec B hB f.h (ohg_wf_h f hf)
  have hrel : adjDep a = dep f := by
    funext x y
    exact propext (hdep x y)
  obtain ⟨order, unv, hk, hol, hul, hspec⟩ := kahn_spec B hB a haw
  obtain ⟨order', unv', hk', hlt⟩ := kahn_order_lt B hB a haw
  rw [hk] at hk'
  injection hk' with hk'
  injection hk' with ho hu
  subst ho
  rw [halen] at hol hul hlt hspec
  rw [hrel] at hspec
  refine ⟨order, unv, ?_, hol, hul, hlt, hspec⟩
  unfold layer
  rw [ha, Res.ok_bind, hk, Res.ok_bind]
  simp only [IC.finfun_new_ok _ _ hlt, Res.unwrap_ok, Res.ok_bind, Res.pure_eq]

/-- **`layer` returns for every well-formed diagram**: an assignment of layer numbers below the
    number of operations (so the final checked construction cannot fail) and one mark per
    operation -/
theorem layer_ok (B : Backend) (hB : B.Lawful) (f : OHG O A) (hf : f.wf = true) :
    ∃ order unv, layer B f = .ok (order, unv) ∧ order.target = f.h.x.length ∧
      order.table.length = f.h.x.length ∧ order.WF ∧ unv.length = f.h.x.length := by
  obtain ⟨order, unv, hl, hol, hul, hlt, _⟩ := layer_core B hB f hf
  exact ⟨⟨order, _⟩, unv, hl, rfl, hol, hlt, hul⟩

/-- **what `layer` computes**: an operation is marked unvisited (1) iff it is on or downstream of
    a dependency cycle and visited (0) otherwise; a visited operation's layer is the length of
    the longest dependency chain ending in it; an unvisited operation has layer number 0 -/
theorem layer_spec (B : Backend) (hB : B.Lawful) (f : OHG O A) (hf : f.wf = true)
    (order : FinFun) (unv : List Nat) (hl : layer B f = .ok (order, unv)) :
    ∀ y, y < f.h.x.length →
      (unv[y]? = some 1 ↔ OnOrAfterCycle (dep f) y) ∧
      (unv[y]? = some 0 ↔ ¬ OnOrAfterCycle (dep f) y) ∧
      (unv[y]? = some 0 ∨ unv[y]? = some 1) ∧
      (unv[y]? = some 0 → ∃ k, order.table[y]? = some k ∧ HasDepth (dep f) y k) ∧
      (unv[y]? = some 1 → order.table[y]? = some 0) := by
  obtain ⟨order', unv', hl', _, _, _, hspec⟩ := layer_core B hB f hf
  rw [hl] at hl'
  injection hl' with hl'
  injection hl' with ho hu
  subst ho hu
  intro y hy
  obtain ⟨h1, h0, hd, hz⟩ := hspec y hy
  refine ⟨h1, h0, ?_, hd, hz⟩
  by_cases hc : OnOrAfterCycle (dep f) y
  · exact Or.inr (h1.2 hc)
  · exact Or.inl (h0.2 hc)

/-- a well-formed diagram with a two-cycle (operations 0 and 1), an operation downstream of it
    (2), and an independent chain (3 → 4) -/
example : (⟨⟨[], 5⟩, ⟨[], 5⟩,
    ⟨⟨⟨[1, 1, 1, 0, 1], 5⟩, ⟨[0, 1, 1, 3], 5⟩⟩, ⟨⟨[1, 1, 1, 1, 0], 5⟩, ⟨[1, 0, 2, 3], 5⟩⟩,
      ["a", "b", "c", "d", "e"], ["f", "g", "h", "i", "j"]⟩⟩ : OHG String String).wf = true := by
  decide

/-- the theorems apply to the Vec backend on that diagram -/
example : ∃ order unv, layer vecBackend (⟨⟨[], 5⟩, ⟨[], 5⟩,
    ⟨⟨⟨[1, 1, 1, 0, 1], 5⟩, ⟨[0, 1, 1, 3], 5⟩⟩, ⟨⟨[1, 1, 1, 1, 0], 5⟩, ⟨[1, 0, 2, 3], 5⟩⟩,
      ["a", "b", "c", "d", "e"], ["f", "g", "h", "i", "j"]⟩⟩ : OHG String String) =
      .ok (order, unv) ∧ order.target = 5 ∧ order.table.length = 5 ∧ order.WF ∧ unv.length = 5 :=
  layer_ok vecBackend vecBackend_lawful _ (by decide)

section corollaries

variable (B : Backend) (hB : B.Lawful) (f : OHG O A) (hf : f.wf = true)
  (order : FinFun) (unv : List Nat) (hl : layer B f = .ok (order, unv))
include hB hf hl

/-- whatever a visited operation depends on is visited too -/
theorem visited_of_dep {x y : Nat} (hy : unv[y]? = some 0) (hxy : dep f x y) :
    unv[x]? = some 0 := by
  obtain ⟨hx', hy'⟩ := dep_lt f hf hxy
  have hsy := layer_spec B hB f hf order unv hl y hy'
  have hsx := layer_spec B hB f hf order unv hl x hx'
  apply hsx.2.1.2
  rintro ⟨c, hcc, hcx⟩
  exact hsy.2.1.1 hy ⟨c, hcc, hcx.tail hxy⟩

/-- a visited operation's layer is strictly greater than the layer of every operation it depends
    on (all of which are visited) -/
theorem layer_respects_deps {x y : Nat} (hy : unv[y]? = some 0) (hxy : dep f x y) :
    ∃ i j, order.table[x]? = some i ∧ order.table[y]? = some j ∧ i < j := by
  obtain ⟨hx', hy'⟩ := dep_lt f hf hxy
  have hx := visited_of_dep B hB f hf order unv hl hy hxy
  obtain ⟨j, hj, hdj⟩ := (layer_spec B hB f hf order unv hl y hy').2.2.2.1 hy
  obtain ⟨i, hi, hdi⟩ := (layer_spec B hB f hf order unv hl x hx').2.2.2.1 hx
  refine ⟨i, j, hi, hj, ?_⟩
  by_contra hlt
  exact hdj.2 (chainTo_mono (by omega) (ChainTo.snoc x y i hdi.1 hxy))

/-- layers are numbered from 0: a visited operation is in layer 0 iff it depends on nothing -/
theorem layer_zero_iff {y : Nat} (hy' : y < f.h.x.length) (hy : unv[y]? = some 0) :
    order.table[y]? = some 0 ↔ ¬ ∃ x, dep f x y := by
  obtain ⟨k, hk, hdk⟩ := (layer_spec B hB f hf order unv hl y hy').2.2.2.1 hy
  rw [← hasDepth_zero_iff]
  constructor
  · intro h0
    rw [hk] at h0
    injection h0 with h0
    subst h0
    exact hdk
  · intro h0
    rw [hk, hasDepth_unique hdk h0]

/-- the layer is the least one compatible with `layer_respects_deps`: a visited operation in
    layer `k + 1` depends on a (visited) operation in layer `k` -/
theorem layer_tight {y k : Nat} (hy' : y < f.h.x.length) (hy : unv[y]? = some 0)
    (hk : order.table[y]? = some (k + 1)) :
    ∃ x, dep f x y ∧ unv[x]? = some 0 ∧ order.table[x]? = some k := by
  obtain ⟨k', hk', hdk⟩ := (layer_spec B hB f hf order unv hl y hy').2.2.2.1 hy
  rw [hk] at hk'
  injection hk' with hk'
  subst hk'
  obtain ⟨⟨x, hxy, hdx⟩, _⟩ := hasDepth_succ_iff.1 hdk
  have hx := visited_of_dep B hB f hf order unv hl hy hxy
  obtain ⟨i, hi, hdi⟩ := (layer_spec B hB f hf order unv hl x (dep_lt f hf hxy).1).2.2.2.1 hx
  exact ⟨x, hxy, hx, by rw [hi, hasDepth_unique hdi hdx]⟩

/-- the number of layers used: if `m` is the largest layer of a visited operation then every
    layer `0..m` contains a visited operation, some visited operation ends a dependency chain of
    `m` steps (`m + 1` operations) and no visited operation ends a longer one -/
theorem layers_used (m : Nat)
    (hmax : ∃ y, y < f.h.x.length ∧ unv[y]? = some 0 ∧ order.table[y]? = some m)
    (hle : ∀ y k, y < f.h.x.length → unv[y]? = some 0 → order.table[y]? = some k → k ≤ m) :
    (∀ j, j ≤ m → ∃ x, x < f.h.x.length ∧ unv[x]? = some 0 ∧ order.table[x]? = some j) ∧
    (∃ y, y < f.h.x.length ∧ unv[y]? = some 0 ∧ ChainTo (dep f) y m) ∧
    (∀ y, y < f.h.x.length → unv[y]? = some 0 → ¬ ChainTo (dep f) y (m + 1)) := by
  obtain ⟨y0, hy0', hy0, hm⟩ := hmax
  obtain ⟨k0, hk0, hd0⟩ := (layer_spec B hB f hf order unv hl y0 hy0').2.2.2.1 hy0
  rw [hm] at hk0
  injection hk0 with hk0
  subst hk0
  refine ⟨?_, ⟨y0, hy0', hy0, hd0.1⟩, ?_⟩
  · intro j hj
    obtain ⟨x, hdx, hor⟩ := hasDepth_downward hd0 hj
    have hx' : x < f.h.x.length := by
      rcases hor with rfl | ⟨z, hxz⟩
      · exact hy0'
      · exact (dep_lt f hf hxz).1
    have hsx := layer_spec B hB f hf order unv hl x hx'
    have hx : unv[x]? = some 0 :=
      hsx.2.1.2 (fun hc => hdx.2 (chainTo_of_onOrAfterCycle hc (j + 1)))
    obtain ⟨i, hi, hdi⟩ := hsx.2.2.2.1 hx
    exact ⟨x, hx', hx, by rw [hi, hasDepth_unique hdi hdx]⟩
  · intro y hy' hy hc
    obtain ⟨k, hk, hdk⟩ := (layer_spec B hB f hf order unv hl y hy').2.2.2.1 hy
    have := hle y k hy' hy hk
    exact hdk.2 (chainTo_mono (by omega) hc)

end corollaries

/-! ### the grouped form -/

theorem sum_indicator (n k : Nat) :
    ((List.range n).map (fun i => if k = i then 1 else 0)).sum = if k < n then 1 else 0 := by
  induction n with
  | zero => rfl
  | succ n ih =>
    rw [List.range_succ, List.map_append, List.sum_append, ih]
    by_cases h1 : k < n
    · have h2 : ¬ k = n := by omega
      have h3 : k < n + 1 := by omega
      simp [h1, h2, h3]
    · by_cases h2 : k = n
      · subst h2; simp
      · have h3 : ¬ k < n + 1 := by omega
        simp [h1, h2, h3]

/-- everything about `layered_operations` in one statement -/
theorem layeredOperations_core (B : Backend) (hB : B.Lawful) (f : OHG O A) (hf : f.wf = true) :
    ∃ order unv groups, layer B f = .ok (⟨order, f.h.x.length⟩, unv) ∧
      layeredOperations B f = .ok (groups, unv) ∧ groups.length = f.h.x.length ∧
      order.length = f.h.x.length ∧ (∀ k ∈ order, k < f.h.x.length) ∧
      ∀ i y, (groups.getD i []).count y = if order[y]? = some i then 1 else 0 := by
  obtain ⟨order, unv, hl, hol, hul, hlt, _⟩ := layer_core B hB f hf
  obtain ⟨e, he, hesegs, hev, hevals⟩ := C08.elements_spec ⟨order, f.h.x.length⟩
  have hewf : e.wf = true := by
    apply wf_of_valid_segs e hev
    intro seg hseg y hy
    rw [hesegs] at hseg
    obtain ⟨t, ht, rfl⟩ := List.mem_map.1 hseg
    rw [List.mem_singleton] at hy
    subst hy
    rw [hevals]
    exact hlt y ht
  obtain ⟨c, hc, hcwf, hclen, _, _, hccount, _⟩ := converse_spec B hB e hewf
  obtain ⟨hcv, _, _⟩ := wf_unpack' c hcwf
  obtain ⟨tr, htr, _, htrsegs, _, _⟩ := C08.iterTrace_spec c.sources.table c.values.table
    ((IC.valid_iff c).1 hcv).2 (c.len + 1) (Nat.le_refl _)
  refine ⟨order, unv, c.segs, hl, ?_, ?_, hol, hlt, ?_⟩
  · unfold layeredOperations converseIter
    rw [hl, Res.ok_bind]
    simp only [he, hc, htr, Res.ok_bind, Res.pure_eq, htrsegs]
    rfl
  · rw [IC.segs_length, hclen, hevals]
  · intro i y
    rw [hccount, hesegs, List.getD_eq_getElem?_getD, List.getElem?_map]
    cases hy : order[y]? with
    | none => simp
    | some k =>
      by_cases hki : k = i <;> simp [hki]

theorem layeredOperations_ok (B : Backend) (hB : B.Lawful) (f : OHG O A) (hf : f.wf = true) :
    ∃ groups unv, layeredOperations B f = .ok (groups, unv) := by
  obtain ⟨_, unv, groups, _, h, _⟩ := layeredOperations_core B hB f hf
  exact ⟨groups, unv, h⟩

/-- **the grouped form**: `layered_operations` returns the marks of `layer` together with one
    group per possible layer number (as many groups as operations); operation `y` occurs in group
    `i` exactly once if `i` is its layer number and not at all otherwise.  Hence group `i` is a
    duplicate-free list of exactly the operations with layer number `i` (in an order that depends
    on the tie-breaking of `argsort`), and all groups together list every operation exactly
    once. -/
theorem layeredOperations_spec (B : Backend) (hB : B.Lawful) (f : OHG O A) (hf : f.wf = true)
    (groups : List (List Nat)) (unv : List Nat)
    (hg : layeredOperations B f = .ok (groups, unv)) :
    ∃ order, layer B f = .ok (order, unv) ∧ groups.length = f.h.x.length ∧
      (∀ i y, (groups.getD i []).count y = if order.table[y]? = some i then 1 else 0) ∧
      (∀ i y, y ∈ groups.getD i [] ↔ order.table[y]? = some i) ∧
      (∀ i, (groups.getD i []).Perm
        ((List.range f.h.x.length).filter (fun y => order.table[y]? = some i))) ∧
      groups.flatten.Perm (List.range f.h.x.length) := by
  obtain ⟨order, unv', groups', hl, hg', hlen, hol, hlt, hcount⟩ :=
    layeredOperations_core B hB f hf
  rw [hg] at hg'
  injection hg' with hg'
  injection hg' with h1 h2
  subst h1 h2
  refine ⟨⟨order, _⟩, hl, hlen, hcount, ?_, ?_, ?_⟩
  · intro i y
    rw [← List.count_pos_iff, hcount]
    by_cases h : order[y]? = some i <;> simp [h]
  · intro i
    rw [List.perm_iff_count]
    intro y
    rw [hcount]
    by_cases h : order[y]? = some i
    · have hy : y < f.h.x.length := hol ▸ (List.getElem?_eq_some_iff.1 h).1
      rw [List.count_filter (by simpa using h), List.count_range]
      simp [h, hy]
    · rw [if_neg h]
      symm
      rw [List.count_eq_zero]
      intro hmem
      exact h (by simpa using (List.mem_filter.1 hmem).2)
  · rw [List.perm_iff_count]
    intro y
    rw [List.count_flatten, ← IC.range_map_getD groups, List.map_map, hlen, List.count_range]
    simp only [Function.comp_def, hcount]
    cases hy : order[y]? with
    | none =>
      have : ¬ y < f.h.x.length := by
        intro hlt
        rw [List.getElem?_eq_none_iff] at hy
        omega
      simp [this]
    | some k =>
      have hy' : y < f.h.x.length := hol ▸ (List.getElem?_eq_some_iff.1 hy).1
      have hk : k < f.h.x.length := hlt k (List.mem_of_getElem? hy)
      simp only [Option.some.injEq]
      rw [sum_indicator]
      simp [hy', hk]

/-- in terms of the dependency relation: a visited operation is listed exactly once, namely in
    the group whose number is the length of the longest dependency chain ending in it -/
theorem layeredOperations_visited (B : Backend) (hB : B.Lawful) (f : OHG O A) (hf : f.wf = true)
    (groups : List (List Nat)) (unv : List Nat)
    (hg : layeredOperations B f = .ok (groups, unv)) {y k : Nat} (hy' : y < f.h.x.length)
    (hy : unv[y]? = some 0) (hk : HasDepth (dep f) y k) :
    ∀ i, (groups.getD i []).count y = if i = k then 1 else 0 := by
  obtain ⟨order, hl, _, hcount, _⟩ := layeredOperations_spec B hB f hf groups unv hg
  obtain ⟨k', hk', hdk⟩ := (layer_spec B hB f hf order unv hl y hy').2.2.2.1 hy
  intro i
  rw [hcount, hk', hasDepth_unique hdk hk]
  by_cases h : i = k
  · subst h; simp
  · have : ¬ k = i := fun e => h e.symm
    simp [h, this]

/-- NOTE: an unvisited operation (one on or downstream of a cycle) keeps the layer number 0 and is
    therefore listed, once, in group 0 next to the visited operations of layer 0; the grouped form
    alone does not tell them apart, the marks do -/
theorem layeredOperations_unvisited (B : Backend) (hB : B.Lawful) (f : OHG O A) (hf : f.wf = true)
    (groups : List (List Nat)) (unv : List Nat)
    (hg : layeredOperations B f = .ok (groups, unv)) {y : Nat} (hy' : y < f.h.x.length)
    (hy : unv[y]? = some 1) :
    ∀ i, (groups.getD i []).count y = if i = 0 then 1 else 0 := by
  obtain ⟨order, hl, _, hcount, _⟩ := layeredOperations_spec B hB f hf groups unv hg
  have h0 := (layer_spec B hB f hf order unv hl y hy').2.2.2.2 hy
  intro i
  rw [hcount, h0]
  by_cases h : i = 0
  · subst h; simp
  · have : ¬ 0 = i := fun e => h e.symm
    simp [h, this]

end OH.C15
