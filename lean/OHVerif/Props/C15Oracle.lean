/-
  C15 — the correspondence driver's oracle `Drv.validLayering` (Model/DriverStrict.lean) decides
  exactly the criteria of property C15 on an answer `(order, unvisited)`.

  * `opDepB_iff`            : `Drv.opDepB` decides `opDep` (no side conditions);
  * `validLayering_iff`     : Boolean-to-Prop reflection of the oracle;
  * `layersUsed_spec`       : `Drv.layersUsed` is the least strict upper bound of the visited layers;
  * `layersUsed_longestChain`: on the model's answer it is the number of operations of the longest
                              dependency chain among visited operations (`LongestChain`, unique);
  * `validLayering_model`   : the model's own answer is accepted;
  * `validLayering_sound`   : an accepted answer meets clauses (a) marks, (b) dependencies strictly
                              increase the layer, (c) layers of visited operations = `0 … Lc-1`;
  * `validLayering_complete`: EVERY answer meeting the model-free statement `C15Answer` is accepted;
  * `validLayering_exact`   : accepted ↔ `C15Answer`.
-/
import OHVerif.Props.C15
import OHVerif.Model.DriverStrict

namespace OH.C15Oracle
open OH OH.Graph OH.Kahn OH.C15 Relation

variable {O A : Type}

/-! ### 1. the Boolean dependency test -/

/-- `Drv.opDepB` decides the Spec relation `opDep` ("`y` depends on `x`"), without side
    conditions (both are false when `x` or `y` is not an operation) -/
theorem opDepB_iff (pd : PDiag O A) (x y : Nat) : Drv.opDepB pd x y = true ↔ opDep pd x y := by
  unfold Drv.opDepB opDep
  cases hx : pd.edges[x]? with
  | none => simp
  | some ex =>
    cases hy : pd.edges[y]? with
    | none => simp
    | some ey => simp [List.any_eq_true]

/-! ### 2. Boolean-to-Prop reflection of the oracle -/

/-- the oracle's criteria, as a proposition -/
def Criteria (pd : PDiag O A) (mUnv : List Nat) (nLayers : Nat) (iOrder iUnv : List Nat) : Prop :=
  iUnv = mUnv ∧ iOrder.length = pd.edges.length ∧
  (∀ x y, x < pd.edges.length → y < pd.edges.length → mUnv.getD x 1 = 0 → mUnv.getD y 1 = 0 →
    opDep pd x y → iOrder.getD x 0 < iOrder.getD y 0) ∧
  (∀ e, e < pd.edges.length → mUnv.getD e 1 = 0 → iOrder.getD e 0 < nLayers) ∧
  (∀ k, k < nLayers → ∃ e, e < pd.edges.length ∧ mUnv.getD e 1 = 0 ∧ iOrder.getD e 0 = k)

theorem validLayering_iff (pd : PDiag O A) (mUnv : List Nat) (nLayers : Nat)
    (iOrder iUnv : List Nat) :
    Drv.validLayering pd mUnv nLayers iOrder iUnv = true ↔
      (iUnv = mUnv ∧ iOrder.length = pd.edges.length ∧
       (∀ x y, x < pd.edges.length → y < pd.edges.length → mUnv.getD x 1 = 0 →
          mUnv.getD y 1 = 0 → opDep pd x y → iOrder.getD x 0 < iOrder.getD y 0) ∧
       (∀ e, e < pd.edges.length → mUnv.getD e 1 = 0 → iOrder.getD e 0 < nLayers) ∧
       (∀ k, k < nLayers →
          ∃ e, e < pd.edges.length ∧ mUnv.getD e 1 = 0 ∧ iOrder.getD e 0 = k)) := by
  unfold Drv.validLayering
  simp only [Bool.and_eq_true, List.all_eq_true, List.any_eq_true, List.mem_filter, List.mem_range,
    beq_iff_eq, Bool.or_eq_true, Bool.not_eq_true', decide_eq_true_eq, and_imp, and_assoc]
  constructor
  · rintro ⟨h1, h2, h3, h4, h5⟩
    refine ⟨h1, h2, ?_, h4, ?_⟩
    · intro x y hx hy vx vy hd
      rcases h3 x hx vx y hy vy with h | h
      · rw [← Bool.not_eq_true, opDepB_iff] at h
        exact absurd hd h
      · exact h
    · exact h5
  · rintro ⟨h1, h2, h3, h4, h5⟩
    refine ⟨h1, h2, ?_, h4, ?_⟩
    · intro x hx vx y hy vy
      by_cases hd : opDep pd x y
      · exact Or.inr (h3 x y hx hy vx vy hd)
      · left
        rw [← Bool.not_eq_true, opDepB_iff]
        exact hd
    · exact h5

/-! ### list helpers -/

theorem getD_one_eq_zero_iff (l : List Nat) (e : Nat) : l.getD e 1 = 0 ↔ l[e]? = some 0 := by
  rw [List.getD_eq_getElem?_getD]
  cases l[e]? <;> simp

theorem getElem?_eq_some_getD (l : List Nat) (e : Nat) (h : e < l.length) :
    l[e]? = some (l.getD e 0) := by
  simp [List.getD_eq_getElem?_getD, List.getElem?_eq_getElem h]

theorem getD_of_getElem? {l : List Nat} {e k : Nat} (h : l[e]? = some k) : l.getD e 0 = k := by
  simp [List.getD_eq_getElem?_getD, h]

theorem foldl_max_le (l : List Nat) (a : Nat) :
    a ≤ l.foldl max a ∧ ∀ x ∈ l, x ≤ l.foldl max a := by
  induction l generalizing a with
  | nil => simp
  | cons b l ih =>
    simp only [List.foldl_cons, List.mem_cons]
    obtain ⟨h1, h2⟩ := ih (max a b)
    refine ⟨by omega, ?_⟩
    rintro x (rfl | hx)
    · omega
    · exact h2 x hx

theorem foldl_max_mem (l : List Nat) (a : Nat) : l.foldl max a = a ∨ l.foldl max a ∈ l := by
  induction l generalizing a with
  | nil => simp
  | cons b l ih =>
    simp only [List.foldl_cons, List.mem_cons]
    rcases ih (max a b) with h | h
    · rw [h]
      rcases Nat.le_total a b with hab | hab
      · right; left; omega
      · left; omega
    · right; right; exact h

/-- `Drv.layersUsed mo mu` is the least strict upper bound of the layers `mo[e]` of the visited
    positions `e < mo.length` (`0` when nothing is visited) -/
theorem layersUsed_spec (mo mu : List Nat) :
    (∀ e, e < mo.length → mu.getD e 1 = 0 → mo.getD e 0 < Drv.layersUsed mo mu) ∧
    (∀ m, Drv.layersUsed mo mu = m + 1 →
      ∃ e, e < mo.length ∧ mu.getD e 1 = 0 ∧ mo.getD e 0 = m) := by
  unfold Drv.layersUsed
  generalize hused : ((List.range mo.length).filter (fun e => mu.getD e 1 == 0)).map
    (fun e => mo.getD e 0) = used
  have hmem : ∀ v, v ∈ used ↔ ∃ e, e < mo.length ∧ mu.getD e 1 = 0 ∧ mo.getD e 0 = v := by
    intro v
    rw [← hused]
    simp [and_assoc]
  constructor
  · intro e he hv
    have hin : mo.getD e 0 ∈ used := (hmem _).2 ⟨e, he, hv, rfl⟩
    have hle := (foldl_max_le used 0).2 _ hin
    cases used with
    | nil => simp at hin
    | cons b l =>
      simp only [List.isEmpty_cons, Bool.false_eq_true, if_false]
      omega
  · intro m hm
    cases used with
    | nil => simp at hm
    | cons b l =>
      simp only [List.isEmpty_cons, Bool.false_eq_true, if_false, Nat.add_right_cancel_iff] at hm
      rcases foldl_max_mem (b :: l) 0 with h0 | hin
      · rw [hm] at h0
        have hb := (foldl_max_le (b :: l) 0).2 b (List.mem_cons_self)
        rw [hm, h0] at hb
        obtain rfl : b = 0 := by omega
        rw [h0]
        exact (hmem 0).1 List.mem_cons_self
      · rw [hm] at hin
        exact (hmem m).1 hin

/-! ### the length of the longest dependency chain -/

/-- `L` is the number of operations of the longest dependency chain ending in an operation
    satisfying `P` (a chain of `m` steps has `m + 1` operations): chains of every number of steps
    below `L` exist, a chain of `L` steps does not.  `L = 0` iff no operation satisfies `P`. -/
def LongestChain (dep : Nat → Nat → Prop) (P : Nat → Prop) (L : Nat) : Prop :=
  (∀ m, m < L → ∃ y, P y ∧ ChainTo dep y m) ∧ (∀ y, P y → ¬ ChainTo dep y L)

theorem LongestChain.unique {dep : Nat → Nat → Prop} {P : Nat → Prop} {L L' : Nat}
    (h : LongestChain dep P L) (h' : LongestChain dep P L') : L = L' := by
  rcases Nat.lt_trichotomy L L' with hlt | heq | hgt
  · obtain ⟨y, hy, hc⟩ := h'.1 L hlt
    exact absurd hc (h.2 y hy)
  · exact heq
  · obtain ⟨y, hy, hc⟩ := h.1 L' hgt
    exact absurd hc (h'.2 y hy)

section model

variable (B : Backend) (hB : B.Lawful) (f : OHG O A) (hwf : f.wf = true)
  (mo : FinFun) (mu : List Nat) (hm : layer B f = .ok (mo, mu))
include hB hwf hm

theorem model_lengths : mo.table.length = f.h.x.length ∧ mu.length = f.h.x.length := by
  obtain ⟨o, u, hl, _, hol, _, hul⟩ := layer_ok B hB f hwf
  rw [hm] at hl
  injection hl with hl
  injection hl with h1 h2
  subst h1 h2
  exact ⟨hol, hul⟩

omit hB hm in
theorem edges_length : f.toPlain.edges.length = f.h.x.length :=
  toPlainEdges_length f.h (ohg_wf_h f hwf)

theorem visited_lt {y : Nat} (hy : mu[y]? = some 0) : y < f.h.x.length := by
  rw [← (model_lengths B hB f hwf mo mu hm).2]
  exact (List.getElem?_eq_some_iff.1 hy).1

/-- the model's layer of a visited operation is its chain depth -/
theorem model_depth {y : Nat} (hy : mu[y]? = some 0) :
    ∃ k, mo.table[y]? = some k ∧ HasDepth (dep f) y k :=
  (layer_spec B hB f hwf mo mu hm y (visited_lt B hB f hwf mo mu hm hy)).2.2.2.1 hy

/-- a dependency chain into a visited operation runs through visited operations only, so
    "the longest chain among visited operations" is "the longest chain into a visited operation" -/
theorem chainTo_visited_iff {y m : Nat} (hy : mu[y]? = some 0) :
    ChainTo (fun x z => dep f x z ∧ mu[x]? = some 0 ∧ mu[z]? = some 0) y m ↔
      ChainTo (dep f) y m := by
  constructor
  · intro h
    induction h with
    | nil y => exact ChainTo.nil y
    | snoc x y k _ hxy ih => exact ChainTo.snoc x y k (ih hxy.2.1) hxy.1
  · intro h
    induction h with
    | nil y => exact ChainTo.nil y
    | snoc x y k _ hxy ih =>
      have hx := visited_of_dep B hB f hwf mo mu hm hy hxy
      exact ChainTo.snoc x y k (ih hx) ⟨hxy, hx, hy⟩

/-- **the number `Drv.layersUsed mo.table mu` the driver passes to the oracle is the length
    (number of operations) of the longest dependency chain among visited operations** -/
theorem layersUsed_longestChain :
    LongestChain (dep f) (fun y : Nat => mu[y]? = some 0) (Drv.layersUsed mo.table mu) := by
  obtain ⟨hlt, hatt⟩ := layersUsed_spec mo.table mu
  obtain ⟨hol, hul⟩ := model_lengths B hB f hwf mo mu hm
  constructor
  · intro m hmL
    obtain ⟨M, hM⟩ : ∃ M, Drv.layersUsed mo.table mu = M + 1 := ⟨_, (Nat.succ_pred_eq_of_pos
      (Nat.lt_of_le_of_lt (Nat.zero_le _) hmL)).symm⟩
    obtain ⟨e, _, hev, heM⟩ := hatt M hM
    rw [getD_one_eq_zero_iff] at hev
    obtain ⟨k, hk, hdk⟩ := model_depth B hB f hwf mo mu hm hev
    rw [getD_of_getElem? hk] at heM
    subst heM
    exact ⟨e, hev, chainTo_mono (by omega) hdk.1⟩
  · intro y hy hc
    have hy' := visited_lt B hB f hwf mo mu hm hy
    obtain ⟨k, hk, hdk⟩ := model_depth B hB f hwf mo mu hm hy
    have := hlt y (by omega) ((getD_one_eq_zero_iff _ _).2 hy)
    rw [getD_of_getElem? hk] at this
    exact hdk.2 (chainTo_mono (by omega) hc)

/-! ### 4. the model's own answer is accepted -/

theorem validLayering_model :
    Drv.validLayering f.toPlain mu (Drv.layersUsed mo.table mu) mo.table mu = true := by
  obtain ⟨hlt, hatt⟩ := layersUsed_spec mo.table mu
  obtain ⟨hol, hul⟩ := model_lengths B hB f hwf mo mu hm
  have hlen := edges_length f hwf
  rw [validLayering_iff, hlen]
  refine ⟨rfl, hol, ?_, ?_, ?_⟩
  · intro x y _ _ _ vy hd
    rw [getD_one_eq_zero_iff] at vy
    obtain ⟨i, j, hi, hj, hij⟩ := layer_respects_deps B hB f hwf mo mu hm vy hd
    rw [getD_of_getElem? hi, getD_of_getElem? hj]
    exact hij
  · intro e he ve
    exact hlt e (by omega) ve
  · intro k hk
    obtain ⟨M, hM⟩ : ∃ M, Drv.layersUsed mo.table mu = M + 1 := ⟨_, (Nat.succ_pred_eq_of_pos
      (Nat.lt_of_le_of_lt (Nat.zero_le _) hk)).symm⟩
    obtain ⟨e, he, hev, heM⟩ := hatt M hM
    rw [getD_one_eq_zero_iff] at hev
    have heM' : mo.table[e]? = some M := by
      rw [getElem?_eq_some_getD _ _ he, heM]
    obtain ⟨hall, _, _⟩ := layers_used B hB f hwf mo mu hm M ⟨e, by omega, hev, heM'⟩ (by
      intro y k' hy hyv hk'
      have := hlt y (by omega) ((getD_one_eq_zero_iff _ _).2 hyv)
      rw [getD_of_getElem? hk'] at this
      omega)
    obtain ⟨x, hx, hxv, hxk⟩ := hall k (by omega)
    exact ⟨x, hx, (getD_one_eq_zero_iff _ _).2 hxv, getD_of_getElem? hxk⟩

/-! ### 3. soundness: an accepted answer satisfies every clause of C15 -/

theorem validLayering_sound (io iu : List Nat)
    (h : Drv.validLayering f.toPlain mu (Drv.layersUsed mo.table mu) io iu = true) :
    -- (a) exactly the operations on or downstream of a dependency cycle are marked unvisited (1),
    --     all the others visited (0)
    (iu.length = f.h.x.length ∧ ∀ y, y < f.h.x.length →
      (iu[y]? = some 1 ↔ OnOrAfterCycle (dep f) y) ∧
      (iu[y]? = some 0 ↔ ¬ OnOrAfterCycle (dep f) y)) ∧
    -- (b) every operation has a layer; whatever a visited operation depends on is visited and
    --     lies in a strictly smaller layer
    (io.length = f.h.x.length ∧ ∀ x y, iu[y]? = some 0 → dep f x y →
      iu[x]? = some 0 ∧ ∃ i j, io[x]? = some i ∧ io[y]? = some j ∧ i < j) ∧
    -- (c) with `Lc` the length of the longest dependency chain among visited operations, the
    --     layers of the visited operations are exactly `0, …, Lc - 1`
    (LongestChain (dep f) (fun y : Nat => iu[y]? = some 0) (Drv.layersUsed mo.table mu) ∧
      (∀ e : Nat, iu[e]? = some 0 → ∃ k, io[e]? = some k ∧ k < Drv.layersUsed mo.table mu) ∧
      (∀ k, k < Drv.layersUsed mo.table mu → ∃ e : Nat, iu[e]? = some 0 ∧ io[e]? = some k)) := by
  obtain ⟨hol, hul⟩ := model_lengths B hB f hwf mo mu hm
  have hlen := edges_length f hwf
  rw [validLayering_iff, hlen] at h
  obtain ⟨rfl, hio, h3, h4, h5⟩ := h
  refine ⟨⟨hul, fun y hy => ?_⟩, ⟨hio, fun x y hy hxy => ?_⟩,
    layersUsed_longestChain B hB f hwf mo iu hm, fun e he => ?_, fun k hk => ?_⟩
  · have hs := layer_spec B hB f hwf mo iu hm y hy
    exact ⟨hs.1, hs.2.1⟩
  · have hx := visited_of_dep B hB f hwf mo iu hm hy hxy
    obtain ⟨hx', hy'⟩ := dep_lt f hwf hxy
    refine ⟨hx, io.getD x 0, io.getD y 0, getElem?_eq_some_getD _ _ (by omega),
      getElem?_eq_some_getD _ _ (by omega), ?_⟩
    exact h3 x y hx' hy' ((getD_one_eq_zero_iff _ _).2 hx) ((getD_one_eq_zero_iff _ _).2 hy) hxy
  · have he' := visited_lt B hB f hwf mo iu hm he
    exact ⟨io.getD e 0, getElem?_eq_some_getD _ _ (by omega),
      h4 e he' ((getD_one_eq_zero_iff _ _).2 he)⟩
  · obtain ⟨e, he, hev, hek⟩ := h5 k hk
    refine ⟨e, (getD_one_eq_zero_iff _ _).1 hev, ?_⟩
    rw [getElem?_eq_some_getD _ _ (by omega), hek]

end model

/-! ### C15's criteria on an answer, stated without reference to the model -/

/-- the clauses of C15 about an answer `(io, iu)` (layers, marks) for the diagram `f`, purely in
    Spec vocabulary: (a) marks, (b) dependencies strictly increase the layer, (c) the layers of
    the visited operations are exactly `0 … Lc - 1`, `Lc` the length of the longest dependency
    chain among visited operations.  Nothing is said about the layer of an unvisited operation,
    about earliest-possible placement, or about a codomain. -/
def C15Answer (f : OHG O A) (io iu : List Nat) : Prop :=
  (iu.length = f.h.x.length ∧ ∀ y, y < f.h.x.length →
    (iu[y]? = some 1 ↔ OnOrAfterCycle (dep f) y) ∧
    (iu[y]? = some 0 ↔ ¬ OnOrAfterCycle (dep f) y)) ∧
  (io.length = f.h.x.length ∧ ∀ x y, iu[y]? = some 0 → dep f x y →
    ∃ i j, io[x]? = some i ∧ io[y]? = some j ∧ i < j) ∧
  ∃ Lc, LongestChain (dep f) (fun y : Nat => iu[y]? = some 0) Lc ∧
    (∀ e : Nat, iu[e]? = some 0 → ∃ k, io[e]? = some k ∧ k < Lc) ∧
    (∀ k, k < Lc → ∃ e : Nat, iu[e]? = some 0 ∧ io[e]? = some k)

section exact

variable (B : Backend) (hB : B.Lawful) (f : OHG O A) (hwf : f.wf = true)
  (mo : FinFun) (mu : List Nat) (hm : layer B f = .ok (mo, mu))
include hB hwf hm

/-- completeness: EVERY answer meeting C15's clauses is accepted by the oracle (not only the
    model's own answer) -/
theorem validLayering_complete (io iu : List Nat) (h : C15Answer f io iu) :
    Drv.validLayering f.toPlain mu (Drv.layersUsed mo.table mu) io iu = true := by
  obtain ⟨⟨hiul, ha⟩, ⟨hiol, hb⟩, Lc, hL, hc1, hc2⟩ := h
  obtain ⟨hol, hul⟩ := model_lengths B hB f hwf mo mu hm
  have hlen := edges_length f hwf
  have hiu : iu = mu := by
    apply List.ext_getElem?
    intro y
    by_cases hy : y < f.h.x.length
    · have hs := layer_spec B hB f hwf mo mu hm y hy
      by_cases hc : OnOrAfterCycle (dep f) y
      · rw [(ha y hy).1.2 hc, hs.1.2 hc]
      · rw [(ha y hy).2.2 hc, hs.2.1.2 hc]
    · rw [List.getElem?_eq_none (by omega), List.getElem?_eq_none (by omega)]
  subst hiu
  have hLc : Drv.layersUsed mo.table iu = Lc :=
    (layersUsed_longestChain B hB f hwf mo iu hm).unique hL
  rw [validLayering_iff, hlen, hLc]
  refine ⟨rfl, hiol, ?_, ?_, ?_⟩
  · intro x y _ _ _ vy hd
    obtain ⟨i, j, hi, hj, hij⟩ := hb x y ((getD_one_eq_zero_iff _ _).1 vy) hd
    rw [getD_of_getElem? hi, getD_of_getElem? hj]
    exact hij
  · intro e _ ve
    obtain ⟨k, hk, hkl⟩ := hc1 e ((getD_one_eq_zero_iff _ _).1 ve)
    rw [getD_of_getElem? hk]
    exact hkl
  · intro k hk
    obtain ⟨e, hev, hek⟩ := hc2 k hk
    exact ⟨e, visited_lt B hB f hwf mo iu hm hev, (getD_one_eq_zero_iff _ _).2 hev,
      getD_of_getElem? hek⟩

/-- **the oracle, as called by the driver, decides exactly C15's criteria** -/
theorem validLayering_exact (io iu : List Nat) :
    Drv.validLayering f.toPlain mu (Drv.layersUsed mo.table mu) io iu = true ↔
      C15Answer f io iu := by
  constructor
  · intro h
    obtain ⟨ha, ⟨hiol, hb⟩, hL, hc1, hc2⟩ := validLayering_sound B hB f hwf mo mu hm io iu h
    exact ⟨ha, ⟨hiol, fun x y hy hxy => (hb x y hy hxy).2⟩, _, hL, hc1, hc2⟩
  · exact validLayering_complete B hB f hwf mo mu hm io iu

/-- in particular the model's own answer meets C15's criteria -/
theorem model_C15Answer : C15Answer f mo.table mu :=
  (validLayering_exact B hB f hwf mo mu hm mo.table mu).1
    (validLayering_model B hB f hwf mo mu hm)

end exact

/-- the well-formed diagram of `Props/C15.lean`: a two-cycle `0 ⇄ 1`, operation `2` downstream of
    it, an independent chain `3 → 4` -/
def exF : OHG String String := ⟨⟨[], 5⟩, ⟨[], 5⟩,
    ⟨⟨⟨[1, 1, 1, 0, 1], 5⟩, ⟨[0, 1, 1, 3], 5⟩⟩, ⟨⟨[1, 1, 1, 1, 0], 5⟩, ⟨[1, 0, 2, 3], 5⟩⟩,
      ["a", "b", "c", "d", "e"], ["f", "g", "h", "i", "j"]⟩⟩

example : exF.wf = true := by decide

/-- the hypotheses are satisfiable (Vec backend on `exF`); the model's own answer is accepted and
    meets `C15Answer` -/
example : ∃ mo mu, layer vecBackend exF = .ok (mo, mu) ∧
    Drv.validLayering exF.toPlain mu (Drv.layersUsed mo.table mu) mo.table mu = true ∧
    C15Answer exF mo.table mu := by
  have hwf : exF.wf = true := by decide
  obtain ⟨mo, mu, h, _⟩ := layer_ok vecBackend vecBackend_lawful exF hwf
  exact ⟨mo, mu, h, validLayering_model _ vecBackend_lawful _ hwf _ _ h,
    model_C15Answer _ vecBackend_lawful _ hwf _ _ h⟩

/-- the oracle on `exF` itself (marks and chain length as `layer_spec` determines them: operations
    0, 1, 2 unvisited, chain `3 → 4` of two operations) -/
example :
    Drv.validLayering exF.toPlain [1, 1, 1, 0, 0] 2 [0, 0, 0, 0, 1] [1, 1, 1, 0, 0] = true ∧
    Drv.validLayering exF.toPlain [1, 1, 1, 0, 0] 2 [3, 3, 3, 0, 1] [1, 1, 1, 0, 0] = true ∧
    Drv.validLayering exF.toPlain [1, 1, 1, 0, 0] 2 [0, 0, 0, 1, 0] [1, 1, 1, 0, 0] = false := by
  decide

/-! ### 5. the oracle on hand-written answers -/

/-- a chain `0 → 1 → 2` and an isolated operation `3` (fed by nothing, feeding nothing) -/
def chainIso : PDiag Nat Nat :=
  ⟨[0, 0, 0, 0, 0, 0], [⟨0, [0], [1]⟩, ⟨1, [1], [2]⟩, ⟨2, [2], [3]⟩, ⟨3, [4], [5]⟩], [0, 4], [3, 5]⟩

/-- a chain `0 → 1 → 2` and a slack operation `3` feeding operation `2` only -/
def chainSlack : PDiag Nat Nat :=
  ⟨[0, 0, 0, 0, 0, 0], [⟨0, [0], [1]⟩, ⟨1, [1], [2]⟩, ⟨2, [2, 5], [3]⟩, ⟨3, [4], [5]⟩], [0, 4], [3]⟩

/-- a two-cycle `0 ⇄ 1`, operation `2` downstream of it, and an independent chain `3 → 4` -/
def cycChain : PDiag Nat Nat :=
  ⟨[0, 0, 0, 0, 0, 0], [⟨0, [1], [0]⟩, ⟨1, [0], [1, 2]⟩, ⟨2, [2], [3]⟩, ⟨3, [4], [5]⟩, ⟨4, [5], []⟩],
    [], []⟩

example :
    -- the dependency test
    Drv.opDepB chainSlack 3 2 = true ∧ Drv.opDepB chainSlack 2 3 = false ∧
    Drv.opDepB chainSlack 0 2 = false ∧ Drv.opDepB chainSlack 0 7 = false ∧
    -- isolated slack operation: as early as possible, as late as possible, in between
    Drv.validLayering chainIso [0, 0, 0, 0] 3 [0, 1, 2, 0] [0, 0, 0, 0] = true ∧
    Drv.validLayering chainIso [0, 0, 0, 0] 3 [0, 1, 2, 2] [0, 0, 0, 0] = true ∧
    Drv.validLayering chainIso [0, 0, 0, 0] 3 [0, 1, 2, 1] [0, 0, 0, 0] = true ∧
    -- slack operation feeding operation 2: earliest (0) and latest (1) accepted, 2 is too late
    Drv.validLayering chainSlack [0, 0, 0, 0] 3 [0, 1, 2, 0] [0, 0, 0, 0] = true ∧
    Drv.validLayering chainSlack [0, 0, 0, 0] 3 [0, 1, 2, 1] [0, 0, 0, 0] = true ∧
    Drv.validLayering chainSlack [0, 0, 0, 0] 3 [0, 1, 2, 2] [0, 0, 0, 0] = false ∧
    -- a dependency violated (operation 1 not above operation 0; all of 0, 1, 2 still used)
    Drv.validLayering chainIso [0, 0, 0, 0] 3 [0, 0, 2, 1] [0, 0, 0, 0] = false ∧
    Drv.validLayering chainIso [0, 0, 0, 0] 3 [1, 0, 2, 1] [0, 0, 0, 0] = false ∧
    -- a layer number skipped (2 unused, 3 used instead)
    Drv.validLayering chainIso [0, 0, 0, 0] 3 [0, 1, 3, 0] [0, 0, 0, 0] = false ∧
    -- more layers claimed than the longest chain has operations: layer 3 is unused
    Drv.validLayering chainIso [0, 0, 0, 0] 4 [0, 1, 2, 0] [0, 0, 0, 0] = false ∧
    -- wrong flags
    Drv.validLayering chainIso [0, 0, 0, 0] 3 [0, 1, 2, 0] [0, 0, 0, 1] = false ∧
    Drv.validLayering chainIso [0, 0, 0, 0] 3 [0, 1, 2, 0] [0, 0, 0] = false ∧
    -- wrong length of the layer table
    Drv.validLayering chainIso [0, 0, 0, 0] 3 [0, 1, 2] [0, 0, 0, 0] = false ∧
    -- with a cycle: the layers of the unvisited operations 0, 1, 2 are free
    Drv.validLayering cycChain [1, 1, 1, 0, 0] 2 [0, 0, 0, 0, 1] [1, 1, 1, 0, 0] = true ∧
    Drv.validLayering cycChain [1, 1, 1, 0, 0] 2 [7, 9, 4, 0, 1] [1, 1, 1, 0, 0] = true ∧
    Drv.validLayering cycChain [1, 1, 1, 0, 0] 2 [0, 0, 0, 1, 0] [1, 1, 1, 0, 0] = false ∧
    Drv.validLayering cycChain [1, 1, 1, 0, 0] 2 [0, 0, 0, 0, 1] [1, 1, 0, 0, 0] = false ∧
    -- the number of layers the driver computes from the model's answer
    Drv.layersUsed [0, 1, 2, 0] [0, 0, 0, 0] = 3 ∧ Drv.layersUsed [0, 0, 0, 0, 1] [1, 1, 1, 0, 0] = 2 ∧
    Drv.layersUsed [0, 0] [1, 1] = 0 ∧ Drv.layersUsed [] [] = 0 := by
  decide

end OH.C15Oracle
