/-
  C16 — evaluation of an open hypergraph with a user-supplied interpreter (`eval`,
  src/strict/eval.rs).

  Setting: a well-formed diagram `f`, a lawful backend `B`, input values `s`, a default value
  `dflt`.  "y depends on x" means that some target node of x is a source node of y
  (`opDep f.toPlain x y`).

  For an ARBITRARY callback `apply` (no hypothesis on it, on `s` or on the shape of `f`):
  * `eval` never panics (`eval_no_panic`, `eval_total`): every `unwrap` in `eval_order` is safe
    and every `scatter_assign`/`gather` index is in range;
  * `eval` returns no result iff the dependency relation has a cycle (`eval_none_iff`,
    `eval_none_iff_cycle`, `eval_ok_iff`);
  * NOTE `eval` does not check the length of the input list nor the number of values the callback
    returns (`scatter_assign` zips): for a duplicate-free input interface the result is that of
    the input list cut or padded with the default (`eval_input_normalised`,
    `eval_spec_any_input`).

  For the pointwise callback `applyOf opfn` (operation `k` of the batch is interpreted by `opfn`
  on its own argument list), an interpreter respecting the arities (`ArityOK`), an acyclic
  dependency relation (`OpAcyclic`), every node written at most once (`SingleWriter`) and one
  input value per input position:
  * `eval_spec`: `eval` returns the values at the output interface of a valuation: inputs carry
    `s`, the targets of every hyperedge carry `opfn label (values of its sources)`, all other nodes
    carry `dflt`;
  * `valuation_unique`: such a valuation is unique (no single-writer hypothesis needed), hence
    `eval_eq_of_valuation`: `eval` returns the output values of EVERY valuation;
  * `eval_backend_independent`: the result does not depend on the (lawful) backend — also when
    there is a cycle;
  * `eval_iso_invariant`: the result does not depend on how nodes and hyperedges are numbered
    (hypotheses on one of the two diagrams suffice: `opAcyclic_of_iso`, `singleWriter_of_iso`,
    `arityOK_of_iso`);
  * `eval_any_order`: interpreting the hyperedges one at a time in ANY dependency-respecting
    order computes the same values.
-/
import OHVerif.Lemmas.Eval

namespace OH.C16
open OH OH.Graph OH.Eval Relation

variable {O A T : Type}

/-- no operation of `f` lies on or downstream of a dependency cycle -/
def OpAcyclic (f : OHG O A) : Prop :=
  ∀ y, y < f.h.x.length → ¬ OnOrAfterCycle (opDep f.toPlain) y

/-- the arity discipline of the interpreter: on an argument list of the right length every
    operation of `f` returns one value per target position -/
def ArityOK (f : OHG O A) (opfn : A → List T → List T) : Prop :=
  ∀ e ∈ f.toPlain.edges, ∀ args : List T, args.length = e.src.length →
    (opfn e.label args).length = e.tgt.length

/-! ### cycles -/

/-- some operation is on or after a cycle iff there is a cycle -/
theorem exists_onOrAfterCycle_iff (dep : Nat → Nat → Prop) :
    (∃ y, OnOrAfterCycle dep y) ↔ ∃ c, TransGen dep c c :=
  Eval.exists_onOrAfterCycle_iff dep

theorem opAcyclic_iff_noCycle (f : OHG O A) (hf : f.wf = true) :
    OpAcyclic f ↔ NoCycle f.toPlain := by
  unfold OpAcyclic NoCycle
  rw [toPlain_edges_length f hf]

/-- `OpAcyclic` says that the dependency relation of the operations has no cycle -/
theorem opAcyclic_iff (f : OHG O A) (hf : f.wf = true) :
    OpAcyclic f ↔ ¬ ∃ c, TransGen (opDep f.toPlain) c c := by
  rw [opAcyclic_iff_noCycle f hf, noCycle_iff]

theorem not_opAcyclic_iff (f : OHG O A) :
    ¬ OpAcyclic f ↔ ∃ y, y < f.h.x.length ∧ OnOrAfterCycle (opDep f.toPlain) y := by
  unfold OpAcyclic
  constructor
  · intro h
    by_contra hno
    apply h
    intro y hy hc
    exact hno ⟨y, hy, hc⟩
  · rintro ⟨y, hy, hc⟩ h
    exact h y hy hc

/-! ### totality: no panic, `none` iff cyclic (arbitrary callback) -/

section arbitrary

variable (B : Backend) (hB : B.Lawful) (f : OHG O A) (hf : f.wf = true) (dflt : T) (s : List T)
  (apply : Apply A T)
include hB hf

/-- **no result iff the dependency relation has a cycle** (for every callback, every input list) -/
theorem eval_none_iff :
    eval B f dflt s apply = .none ↔
      ∃ y, y < f.h.x.length ∧ OnOrAfterCycle (opDep f.toPlain) y := by
  obtain ⟨_, _, _, _, _, _, _, hnone, hok⟩ := eval_cases B hB f hf dflt s apply
  constructor
  · intro h
    rw [← not_opAcyclic_iff]
    intro hac
    rw [(hok hac).2] at h
    cases h
  · exact hnone

theorem eval_none_iff_cycle :
    eval B f dflt s apply = .none ↔ ∃ c, TransGen (opDep f.toPlain) c c := by
  rw [eval_none_iff B hB f hf, ← toPlain_edges_length f hf, exists_lt_onOrAfterCycle_iff]

/-- `eval` returns a result iff the dependency relation is acyclic -/
theorem eval_ok_iff :
    (∃ outs, eval B f dflt s apply = .ok outs) ↔ OpAcyclic f := by
  obtain ⟨_, _, _, _, _, _, _, hnone, hok⟩ := eval_cases B hB f hf dflt s apply
  constructor
  · rintro ⟨outs, h⟩
    by_contra hac
    rw [hnone ((not_opAcyclic_iff f).1 hac)] at h
    cases h
  · intro hac
    exact ⟨_, (hok hac).2⟩

/-- **`eval` never panics** on a well-formed diagram: whatever the callback returns and whatever
    the input list is, every `unwrap` of `eval_order` succeeds and every index handed to
    `scatter_assign` and `gather` is in range -/
theorem eval_no_panic (site : String) : eval B f dflt s apply ≠ .panic site := by
  obtain ⟨_, _, _, _, _, _, _, hnone, hok⟩ := eval_cases B hB f hf dflt s apply
  intro h
  by_cases hac : OpAcyclic f
  · rw [(hok hac).2] at h
    cases h
  · rw [hnone ((not_opAcyclic_iff f).1 hac)] at h
    cases h

/-- the result has one value per output position -/
theorem eval_total :
    (OpAcyclic f ∧ ∃ outs, eval B f dflt s apply = .ok outs ∧ outs.length = f.t.table.length) ∨
    (¬ OpAcyclic f ∧ eval B f dflt s apply = .none) := by
  obtain ⟨_, _, _, _, _, _, _, hnone, hok⟩ := eval_cases B hB f hf dflt s apply
  by_cases hac : OpAcyclic f
  · exact Or.inl ⟨hac, _, (hok hac).2, by rw [List.length_map]⟩
  · exact Or.inr ⟨hac, hnone ((not_opAcyclic_iff f).1 hac)⟩

end arbitrary

/-! ### what `eval` computes -/

/-- **the values `eval` returns**: under the hypotheses (acyclic dependencies, every node written
    at most once, arity discipline, one input value per input position) `eval` returns the values
    at the output interface of a valuation `val` of the diagram: `val` is `s` on the input
    interface, on the targets of every hyperedge it is `opfn label` applied to the values of the
    sources, and it is `dflt` on every node that is neither an input nor a target -/
theorem eval_spec (B : Backend) (hB : B.Lawful) (f : OHG O A) (hf : f.wf = true)
    (opfn : A → List T → List T) (dflt : T) (s : List T)
    (hac : OpAcyclic f) (hsw : SingleWriter f.toPlain) (har : ArityOK f opfn)
    (hs : s.length = f.s.table.length) :
    ∃ outs val, eval B f dflt s (applyOf opfn) = .ok outs ∧
      IsValuation f.toPlain opfn dflt s val ∧ outs = f.t.table.map val := by
  obtain ⟨order, groups, hglen, hol, hlt, hcount, hrange, _, hok⟩ :=
    eval_cases B hB f hf dflt s (applyOf opfn)
  obtain ⟨hl, hev⟩ := hok hac
  have hlay := isLayering_of_layer B hB f hf order groups hl hglen hol hlt hcount
  obtain ⟨_, hval⟩ := runLayers_valuation (opfn := opfn) (dflt := dflt) (s := s) hsw har
    (toPlain_wf f hf) hs hlay
  rw [foldl_stepM_applyOf f hf opfn dflt groups _ hrange] at hev
  exact ⟨_, rd dflt (runLayers f.toPlain opfn dflt s groups), hev, hval, rfl⟩

/-- **valuations are unique** on an acyclic diagram (no single-writer hypothesis is needed for
    uniqueness, only for existence) -/
theorem valuation_unique (f : OHG O A) (hf : f.wf = true) (opfn : A → List T → List T)
    (dflt : T) (s : List T) (hac : OpAcyclic f) {val val' : Nat → T}
    (h : IsValuation f.toPlain opfn dflt s val) (h' : IsValuation f.toPlain opfn dflt s val') :
    ∀ v, v < f.h.w.length → val v = val' v :=
  Eval.valuation_unique (toPlain_wf f hf) ((opAcyclic_iff_noCycle f hf).1 hac) h h'

/-- `eval` returns the output values of EVERY valuation -/
theorem eval_eq_of_valuation (B : Backend) (hB : B.Lawful) (f : OHG O A) (hf : f.wf = true)
    (opfn : A → List T → List T) (dflt : T) (s : List T)
    (hac : OpAcyclic f) (hsw : SingleWriter f.toPlain) (har : ArityOK f opfn)
    (hs : s.length = f.s.table.length) {val : Nat → T}
    (hval : IsValuation f.toPlain opfn dflt s val) :
    eval B f dflt s (applyOf opfn) = .ok (f.t.table.map val) := by
  obtain ⟨outs, val0, hev, hval0, houts⟩ := eval_spec B hB f hf opfn dflt s hac hsw har hs
  obtain ⟨_, _, htw, _, htt⟩ := ohg_wf_unpack f hf
  rw [hev, houts]
  congr 1
  apply List.map_congr_left
  intro v hv
  exact valuation_unique f hf opfn dflt s hac hval0 hval v (htt ▸ htw v hv)

/-- **the result does not depend on the backend** (also when there is a cycle: both are `none`) -/
theorem eval_backend_independent (B₁ B₂ : Backend) (h₁ : B₁.Lawful) (h₂ : B₂.Lawful)
    (f : OHG O A) (hf : f.wf = true) (opfn : A → List T → List T) (dflt : T) (s : List T)
    (hsw : SingleWriter f.toPlain) (har : ArityOK f opfn) (hs : s.length = f.s.table.length) :
    eval B₁ f dflt s (applyOf opfn) = eval B₂ f dflt s (applyOf opfn) := by
  by_cases hac : OpAcyclic f
  · obtain ⟨outs, val, hev, hval, houts⟩ := eval_spec B₁ h₁ f hf opfn dflt s hac hsw har hs
    rw [hev, houts, eval_eq_of_valuation B₂ h₂ f hf opfn dflt s hac hsw har hs hval]
  · have hc := (not_opAcyclic_iff f).1 hac
    rw [(eval_none_iff B₁ h₁ f hf dflt s _).2 hc, (eval_none_iff B₂ h₂ f hf dflt s _).2 hc]

/-- the sequential interpreter along ANY order `σ` of all operations that respects the
    dependencies computes a valuation, and `eval` returns its values at the output interface -/
theorem eval_any_order (B : Backend) (hB : B.Lawful) (f : OHG O A) (hf : f.wf = true)
    (opfn : A → List T → List T) (dflt : T) (s : List T)
    (hac : OpAcyclic f) (hsw : SingleWriter f.toPlain) (har : ArityOK f opfn)
    (hs : s.length = f.s.table.length) (σ : List Nat)
    (hperm : σ.Perm (List.range f.h.x.length))
    (hresp : ∀ x y, opDep f.toPlain x y → σ.idxOf x < σ.idxOf y) :
    IsValuation f.toPlain opfn dflt s (rd dflt (seqRun f.toPlain opfn dflt s σ)) ∧
    eval B f dflt s (applyOf opfn) =
      .ok (f.t.table.map (rd dflt (seqRun f.toPlain opfn dflt s σ))) := by
  have hlay := isLayering_of_order f.toPlain σ (by rw [toPlain_edges_length f hf]; exact hperm) hresp
  obtain ⟨_, hval⟩ := runLayers_valuation (opfn := opfn) (dflt := dflt) (s := s) hsw har
    (toPlain_wf f hf) hs hlay
  rw [← seqRun_eq_runLayers] at hval
  exact ⟨hval, eval_eq_of_valuation B hB f hf opfn dflt s hac hsw har hs hval⟩

/-! ### the input list is not length-checked -/

/-- NOTE: `eval` does not compare the length of the input list with the input interface
    (`scatter_assign` zips): for a duplicate-free input interface, surplus values are ignored and
    missing values are read as the default — the result is that of the list cut or padded with
    `dflt` to the length of the interface.  (Arbitrary callback.) -/
theorem eval_input_normalised (B : Backend) (hB : B.Lawful) (f : OHG O A) (hf : f.wf = true)
    (dflt : T) (s : List T) (apply : Apply A T) (hn : f.s.table.Nodup) :
    eval B f dflt s apply = eval B f dflt (normInput f.s.table.length dflt s) apply := by
  obtain ⟨_, hsw, _, hst, _⟩ := ohg_wf_unpack f hf
  apply eval_congr_input B hB f hf
  exact (initMem_normInput f.toPlain dflt s hn (fun v hv => by
    show v < f.h.w.length
    rw [← hst]
    exact hsw v hv)).symm

/-- `eval_spec` without the hypothesis on the length of the input list -/
theorem eval_spec_any_input (B : Backend) (hB : B.Lawful) (f : OHG O A) (hf : f.wf = true)
    (opfn : A → List T → List T) (dflt : T) (s : List T)
    (hac : OpAcyclic f) (hsw : SingleWriter f.toPlain) (har : ArityOK f opfn) :
    ∃ outs val, eval B f dflt s (applyOf opfn) = .ok outs ∧
      IsValuation f.toPlain opfn dflt (normInput f.s.table.length dflt s) val ∧
      outs = f.t.table.map val := by
  rw [eval_input_normalised B hB f hf dflt s _ (sw_ins_nodup hsw)]
  exact eval_spec B hB f hf opfn dflt _ hac hsw har (normInput_length _ _ _)

/-! ### independence of the numbering -/

section iso

variable {f f' : OHG O A}

/-- the hypotheses are invariant under isomorphism -/
theorem opAcyclic_of_iso (hf : f.wf = true) (hf' : f'.wf = true) (hiso : f.toPlain ≅ f'.toPlain)
    (hac : OpAcyclic f) : OpAcyclic f' :=
  (opAcyclic_iff_noCycle f' hf').2
    (noCycle_of_iso hiso (toPlain_wf f hf) ((opAcyclic_iff_noCycle f hf).1 hac))

theorem singleWriter_of_iso (hf : f.wf = true) (hiso : f.toPlain ≅ f'.toPlain)
    (hsw : SingleWriter f.toPlain) : SingleWriter f'.toPlain :=
  Eval.singleWriter_of_iso hiso (toPlain_wf f hf) hsw

theorem arityOK_of_iso {opfn : A → List T → List T} (hiso : f.toPlain ≅ f'.toPlain)
    (har : ArityOK f opfn) : ArityOK f' opfn :=
  arity_of_iso hiso har

/-- **the result does not depend on how nodes and hyperedges are numbered** (nor on the backend):
    isomorphic well-formed diagrams evaluate to the same result; the hypotheses are needed for one
    of the two diagrams only -/
theorem eval_iso_invariant (B B' : Backend) (hB : B.Lawful) (hB' : B'.Lawful)
    (f f' : OHG O A) (hf : f.wf = true) (hf' : f'.wf = true) (hiso : f.toPlain ≅ f'.toPlain)
    (opfn : A → List T → List T) (dflt : T) (s : List T)
    (hac : OpAcyclic f) (hsw : SingleWriter f.toPlain) (har : ArityOK f opfn)
    (hs : s.length = f.s.table.length) :
    eval B f dflt s (applyOf opfn) = eval B' f' dflt s (applyOf opfn) := by
  have hac' := opAcyclic_of_iso hf hf' hiso hac
  have hsw' := singleWriter_of_iso hf hiso hsw
  have har' := arityOK_of_iso hiso har
  have hs' : s.length = f'.s.table.length := by
    obtain ⟨π, _, _, _, _, _, hins, _⟩ := hiso
    have : f'.s.table = f.s.table.map π := hins
    rw [this, List.length_map, hs]
  obtain ⟨outs', val', hev', hval', houts'⟩ :=
    eval_spec B' hB' f' hf' opfn dflt s hac' hsw' har' hs'
  obtain ⟨π, _, houts, hvalπ⟩ := valuation_of_iso hiso (toPlain_wf f hf) hval'
  rw [hev', houts', eval_eq_of_valuation B hB f hf opfn dflt s hac hsw har hs hvalπ]
  have : f'.t.table = f.t.table.map π := houts
  rw [this, List.map_map]
  rfl

end iso

/-! ### examples -/

namespace Example

/-- interpreter: `"add"` sums its arguments, `"dup"` returns the sum of its arguments twice -/
def opfn (l : String) (args : List Nat) : List Nat :=
  if l = "add" then [args.sum] else if l = "dup" then [args.sum, args.sum] else []

/-- six nodes; inputs 0, 1; operations (numbered against the dependency order):
    0 = add(2,3)→4, 1 = dup(0)→(2,3), 2 = add(4,1)→5; outputs 5, 2 -/
def f : OHG String String :=
  ⟨⟨[0, 1], 6⟩, ⟨[5, 2], 6⟩,
   ⟨⟨⟨[2, 1, 2], 6⟩, ⟨[2, 3, 0, 4, 1], 6⟩⟩, ⟨⟨[1, 2, 1], 5⟩, ⟨[4, 2, 3, 5], 6⟩⟩,
    ["n0", "n1", "n2", "n3", "n4", "n5"], ["add", "dup", "add"]⟩⟩

/-- the same diagram with nodes renumbered by `v ↦ 5 - v` and the operations listed in the
    order dup, add, add -/
def f' : OHG String String :=
  ⟨⟨[5, 4], 6⟩, ⟨[0, 3], 6⟩,
   ⟨⟨⟨[1, 2, 2], 6⟩, ⟨[5, 3, 2, 1, 4], 6⟩⟩, ⟨⟨[2, 1, 1], 5⟩, ⟨[3, 2, 1, 0], 6⟩⟩,
    ["n5", "n4", "n3", "n2", "n1", "n0"], ["dup", "add", "add"]⟩⟩

/-- operations 0 and 1 feed each other -/
def cyc : OHG String String :=
  ⟨⟨[], 2⟩, ⟨[0], 2⟩,
   ⟨⟨⟨[1, 1], 3⟩, ⟨[0, 1], 2⟩⟩, ⟨⟨[1, 1], 3⟩, ⟨[1, 0], 2⟩⟩, ["a", "b"], ["add", "add"]⟩⟩

theorem f_wf : f.wf = true := by decide
theorem f'_wf : f'.wf = true := by decide
theorem cyc_wf : cyc.wf = true := by decide

theorem f_singleWriter : SingleWriter f.toPlain := by
  unfold SingleWriter
  decide

theorem f_acyclic : OpAcyclic f :=
  (opAcyclic_iff_noCycle f f_wf).2
    (noCycle_of_check f.toPlain (fun j => [1, 0, 2].getD j 0) (by decide))

theorem f_arity : ArityOK f opfn := by
  intro e he args _
  have : e ∈ [(⟨"add", [2, 3], [4]⟩ : PEdge String), ⟨"dup", [0], [2, 3]⟩, ⟨"add", [4, 1], [5]⟩] := he
  simp only [List.mem_cons, List.not_mem_nil, or_false] at this
  rcases this with rfl | rfl | rfl <;> rfl

/-- the valuation of `f` on the inputs `[10, 7]` -/
def val (v : Nat) : Nat := [10, 7, 10, 10, 20, 27].getD v 0

theorem f_valuation : IsValuation f.toPlain opfn 0 [10, 7] val :=
  ⟨by decide, by decide, by decide⟩

/-- the hypotheses of `eval_spec` are satisfiable, and the theorems determine the result for
    every lawful backend -/
example (B : Backend) (hB : B.Lawful) : eval B f 0 [10, 7] (applyOf opfn) = .ok [27, 10] :=
  eval_eq_of_valuation B hB f f_wf opfn 0 [10, 7] f_acyclic f_singleWriter f_arity rfl f_valuation

/-- `f'` is `f` renumbered -/
theorem bijOn_of_check (n m : Nat) (π : Nat → Nat) (h1 : ∀ i, i < n → π i < m)
    (h2 : ∀ i, i < n → ∀ j, j < n → π i = π j → i = j) (h3 : ∀ k, k < m → ∃ i, i < n ∧ π i = k) :
    BijOn n m π :=
  ⟨h1, fun i j hi hj => h2 i hi j hj, h3⟩

theorem f_iso_f' : f.toPlain ≅ f'.toPlain := by
  refine ⟨fun v => 5 - v, fun e => [1, 0, 2].getD e 0,
    bijOn_of_check _ _ _ (by decide) (by decide) (by decide),
    bijOn_of_check _ _ _ (by decide) (by decide) (by decide),
    by decide, by decide, by decide, by decide⟩

example (B B' : Backend) (hB : B.Lawful) (hB' : B'.Lawful) :
    eval B' f' 0 [10, 7] (applyOf opfn) = .ok [27, 10] := by
  rw [← eval_iso_invariant B B' hB hB' f f' f_wf f'_wf f_iso_f' opfn 0 [10, 7] f_acyclic
    f_singleWriter f_arity rfl]
  exact eval_eq_of_valuation B hB f f_wf opfn 0 [10, 7] f_acyclic f_singleWriter f_arity rfl
    f_valuation

/-- any dependency-respecting order: here dup, add, add -/
example (B : Backend) (hB : B.Lawful) :
    eval B f 0 [10, 7] (applyOf opfn) =
      .ok (f.t.table.map (rd 0 (seqRun f.toPlain opfn 0 [10, 7] [1, 0, 2]))) :=
  (eval_any_order B hB f f_wf opfn 0 [10, 7] f_acyclic f_singleWriter f_arity rfl [1, 0, 2]
    (by decide) (by
      intro x y hxy
      obtain ⟨hx, hy⟩ := opDep_lt hxy
      have hb := (opDep_iff_depB _ x y).1 hxy
      have key : ∀ x, x < f.toPlain.edges.length → ∀ y, y < f.toPlain.edges.length →
          depB f.toPlain x y = true → [1, 0, 2].idxOf x < [1, 0, 2].idxOf y := by decide
      exact key x hx y hy hb)).2

/-- a cyclic diagram: no result, for every backend, callback and input list; never a panic -/
example (B : Backend) (hB : B.Lawful) (apply : Apply String Nat) (s : List Nat) :
    eval B cyc 0 s apply = .none := by
  rw [eval_none_iff_cycle B hB cyc cyc_wf]
  refine ⟨0, TransGen.tail (TransGen.single (b := 1) ?_) ?_⟩
  · exact (opDep_iff_depB _ 0 1).2 (by decide)
  · exact (opDep_iff_depB _ 1 0).2 (by decide)

example : eval vecBackend cyc 0 [] (applyOf opfn) = .none ∧
    ∀ site, eval vecBackend f 0 [1] (fun _ _ => ⟨⟨[], 0⟩, [3, 4, 5, 6, 7, 8, 9]⟩) ≠ .panic site :=
  ⟨(eval_none_iff_cycle vecBackend vecBackend_lawful cyc cyc_wf 0 [] _).2
      ⟨0, TransGen.tail (TransGen.single (b := 1) ((opDep_iff_depB _ 0 1).2 (by decide)))
        ((opDep_iff_depB _ 1 0).2 (by decide))⟩,
    eval_no_panic vecBackend vecBackend_lawful f f_wf 0 [1] _⟩

example (B : Backend) (hB : B.Lawful) :
    eval B f 0 [10, 7] (applyOf opfn) = eval vecBackend f 0 [10, 7] (applyOf opfn) :=
  eval_backend_independent B vecBackend hB vecBackend_lawful f f_wf opfn 0 [10, 7]
    f_singleWriter f_arity rfl

/-- a surplus input value is ignored, a missing one is read as the default -/
example (B : Backend) (hB : B.Lawful) (apply : Apply String Nat) :
    eval B f 0 [10, 7, 99] apply = eval B f 0 [10, 7] apply ∧
    eval B f 0 [10] apply = eval B f 0 [10, 0] apply :=
  ⟨eval_input_normalised B hB f f_wf 0 [10, 7, 99] apply (by decide),
   eval_input_normalised B hB f f_wf 0 [10] apply (by decide)⟩

end Example

end OH.C16
