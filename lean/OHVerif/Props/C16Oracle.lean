/-
  C16 — the correspondence driver's comparison for evaluation (`Drv.evalLogged` and the
  `"eval.eval"` case of `Drv.evalG`, Model/DriverStrict.lean): outputs exact, the log of interpreter
  calls compared as ONE multiset of `(label, args)` pairs over all calls.

  1. `logAgree_iff`            : the Boolean log test of `evalG` (equal length and, for every entry of
                                 the model's flattened log, equal counts) is `List.Perm`;
  2. `evalLogged_outputs`      : `evalLogged B f s >>= (ok ∘ fst) = Graph.eval B f 0 s Sig.applySig` for
                                 EVERY backend, diagram and input (same outputs, same `none`, same
                                 panic site); `evalLogged_ok_outputs`, `evalLogged_of_eval_ok` (pointwise
                                 forms); `evalLogged_none_iff` (`none` iff cycle, never a panic);
  3. `evalLogged_closed`       : closed form of a successful run (lawful backend, well-formed diagram):
                                 outputs and log of a layering of the plain diagram;
     `evalLogged_log_mem`      : (no single-writer/arity hypothesis) the flattened log is a permutation
                                 of "every hyperedge once on the FINAL memory's values of its sources";
     `evalLogged_log_spec`     : under C16's hypotheses the outputs are the valuation at the output
                                 interface, the log has one entry per layer and the flattened log is a
                                 permutation of `allCalls f val` = every hyperedge exactly once with THE
                                 valuation's values at its source nodes (`allCalls_eq_range`: the same
                                 list written over `List.range f.h.x.length`);
     `evalLogged_spec`         : existence form; `evalLogged_log_backend_independent`;
     `evalG_agree_iff`         : the exact Boolean `ag` of `evalG` accepts an implementation answer
                                 `(io, il)` iff `io` is the valuation at the outputs and `il.flatten` is a
                                 permutation of `allCalls f val`;
  4. examples: a concrete diagram meeting all hypotheses, accepted re-batchings, rejected wrong
     argument / duplicated / dropped / relabelled calls.

  Invariant used for the log (plain diagrams, `logFrom_perm`): along a layering no source node of an
  operation of layer `k` is written by a layer `≥ k` (`SrcStable`, from `IsLayering.dep`), so the
  value a call reads is the value in the final memory; with `Eval.runLayers_valuation` and
  `C16.valuation_unique` the final memory is THE valuation.
-/
import OHVerif.Props.C16
import OHVerif.Props.Comparators
import OHVerif.Model.DriverStrict

namespace OH.C16Oracle
open OH OH.Prim OH.Graph OH.Eval OH.C16

/-! ### 1. the log comparison is multiset equality -/

theorem perm_of_count_on_left' {α : Type} [BEq α] [LawfulBEq α] : ∀ (a b : List α),
    a.length = b.length → (∀ x ∈ a, a.count x = b.count x) → a.Perm b := by
  intro a
  induction a with
  | nil =>
    intro b hl _
    have : b = [] := List.eq_nil_of_length_eq_zero (by simpa using hl.symm)
    subst this; exact List.Perm.refl _
  | cons x a ih =>
    intro b hl hc
    have hx : x ∈ b := by
      have := hc x List.mem_cons_self
      rw [List.count_cons_self] at this
      exact List.count_pos_iff.mp (by omega)
    have hb : b.Perm (x :: b.erase x) := List.perm_cons_erase hx
    refine List.Perm.trans (List.Perm.cons x ?_) hb.symm
    apply ih
    · have := List.length_erase_of_mem hx
      simp only [List.length_cons] at hl
      omega
    · intro y hy
      have := hc y (List.mem_cons_of_mem _ hy)
      rw [List.count_cons, List.count_erase] at *
      by_cases hyx : y = x
      · subst hyx; simp at this ⊢; omega
      · have h1 : (x == y) = false := by simp [Ne.symm hyx]
        simp [h1] at this ⊢; omega

theorem logAgree_iff (fm fi : List (Nat × List Nat)) :
    (fm.length == fi.length && fm.all (fun x => fm.count x == fi.count x)) = true ↔
      fm.Perm fi := by
  simp only [Bool.and_eq_true, beq_iff_eq, List.all_eq_true]
  constructor
  · intro h
    exact perm_of_count_on_left' fm fi h.1 h.2
  · intro h
    exact ⟨h.length_eq, fun x _ => h.count_eq x⟩

abbrev Log := List (List (Nat × List Nat))

def logBody (f : Drv.F) (acc : List Nat × Log) (opIx : List Nat) : Res (List Nat × Log) := do
  let (mem, log) := acc
  let opFF : FinFun := ⟨opIx, f.h.x.length⟩
  let labels ← (FinFun.composeSemi opFF f.h.x).unwrap "eval:unwrap-labels"
  let inIdx ← (IC.mapIndexes f.h.s opFF).unwrap "eval:unwrap-in-indexes"
  let inVals ← (IC.mapSemifinite inIdx mem).unwrap "eval:unwrap-in-values"
  let outputs := Sig.applySig labels inVals
  let outIdx ← (IC.mapIndexes f.h.t opFF).unwrap "eval:unwrap-out-indexes"
  let mem' ← Prim.scatterAssign mem outIdx.values.table outputs.values
  pure (mem', log ++ [labels.zip inVals.segsL])

theorem evalLogged_unfold (B : Backend) (f : Drv.F) (s : List Nat) :
    Drv.evalLogged B f s = (do
      let outs ← Graph.eval B f 0 s Sig.applySig
      let (order, _) ← Graph.layer B f
      let layering ← Graph.converseIter B order
      let mem1 ← Prim.scatterAssign (List.replicate f.h.w.length 0) f.s.table s
      let (_, log) ← layering.foldlM (logBody f) (mem1, [])
      pure (outs, log)) := rfl


/-! ### 2. the logged evaluator returns the outputs of `Graph.eval` -/

/-- one loop iteration of the logged evaluator does to the memory what the loop body of
    `eval_order` does (same successes, same panics) -/
theorem logBody_sim {β : Type} (f : Drv.F) (mem : List Nat) (log : Log) (g : List Nat)
    (k : List Nat → Res β) :
    (logBody f (mem, log) g >>= fun r => k r.1) = (evalBody f Sig.applySig mem g >>= k) := by
  unfold logBody evalBody
  dsimp only
  cases (FinFun.composeSemi ⟨g, f.h.x.length⟩ f.h.x).unwrap "eval:unwrap-labels" with
  | none => rfl
  | panic _ => rfl
  | ok labels =>
    simp only [Res.ok_bind]
    cases (IC.mapIndexes f.h.s ⟨g, f.h.x.length⟩).unwrap "eval:unwrap-in-indexes" with
    | none => rfl
    | panic _ => rfl
    | ok inIdx =>
      simp only [Res.ok_bind]
      cases (IC.mapSemifinite inIdx mem).unwrap "eval:unwrap-in-values" with
      | none => rfl
      | panic _ => rfl
      | ok inVals =>
        simp only [Res.ok_bind]
        cases (IC.mapIndexes f.h.t ⟨g, f.h.x.length⟩).unwrap "eval:unwrap-out-indexes" with
        | none => rfl
        | panic _ => rfl
        | ok outIdx =>
          simp only [Res.ok_bind]
          cases Prim.scatterAssign mem outIdx.values.table
              (Sig.applySig labels inVals).values with
          | none => rfl
          | panic _ => rfl
          | ok mem' => rfl

theorem foldlM_logBody_sim {β : Type} (f : Drv.F) (k : List Nat → Res β) :
    ∀ (groups : List (List Nat)) (mem : List Nat) (log : Log),
      (groups.foldlM (logBody f) (mem, log) >>= fun r => k r.1) =
        (groups.foldlM (evalBody f Sig.applySig) mem >>= k) := by
  intro groups
  induction groups with
  | nil => intro mem log; rfl
  | cons g groups ih =>
    intro mem log
    rw [List.foldlM_cons, List.foldlM_cons, bind_assoc, bind_assoc]
    have : (fun acc : List Nat × Log => groups.foldlM (logBody f) acc >>= fun r => k r.1) =
        fun acc => (fun m => groups.foldlM (evalBody f Sig.applySig) m >>= k) acc.1 := by
      funext acc
      exact ih acc.1 acc.2
    rw [this]
    exact logBody_sim f mem log g (fun m => groups.foldlM (evalBody f Sig.applySig) m >>= k)


/-- what a successful run of `eval` went through -/
theorem eval_ok_inv {T : Type} (B : Backend) (f : OHG Nat Nat) (dflt : T) (s : List T)
    (apply : Apply Nat T) (outs : List T) (he : Graph.eval B f dflt s apply = .ok outs) :
    ∃ order unv layering mem1 mem, Graph.layer B f = .ok (order, unv) ∧
      Graph.converseIter B order = .ok layering ∧
      Prim.scatterAssign (List.replicate f.h.w.length dflt) f.s.table s = .ok mem1 ∧
      layering.foldlM (evalBody f apply) mem1 = .ok mem := by
  cases hl : Graph.layer B f with
  | none => unfold Graph.eval at he; rw [hl] at he; cases he
  | panic _ => unfold Graph.eval at he; rw [hl] at he; cases he
  | ok ou =>
    obtain ⟨order, unv⟩ := ou
    cases hc : Graph.converseIter B order with
    | none => unfold Graph.eval at he; rw [hl] at he; simp only [Res.ok_bind, hc] at he; cases he
    | panic _ => unfold Graph.eval at he; rw [hl] at he; simp only [Res.ok_bind, hc] at he; cases he
    | ok layering =>
      rw [eval_unfold B f dflt s apply order unv layering hl hc] at he
      split at he
      · rw [evalOrder_unfold] at he
        cases h1 : Prim.scatterAssign (List.replicate f.h.w.length dflt) f.s.table s with
        | none => rw [h1] at he; cases he
        | panic _ => rw [h1] at he; cases he
        | ok mem1 =>
          rw [h1, Res.ok_bind] at he
          cases h2 : layering.foldlM (evalBody f apply) mem1 with
          | none => rw [h2] at he; cases he
          | panic _ => rw [h2] at he; cases he
          | ok mem => exact ⟨order, unv, layering, mem1, mem, rfl, hc, rfl, h2⟩
      · cases he

/-- **the logged evaluator returns exactly the outputs of the modelled `Graph.eval`**, for every
    backend, diagram and input list (no hypothesis): same outputs, same `none`, same panic site -/
theorem evalLogged_outputs (B : Backend) (f : Drv.F) (s : List Nat) :
    (Drv.evalLogged B f s >>= fun r => .ok r.1) = Graph.eval B f 0 s Sig.applySig := by
  rw [evalLogged_unfold]
  cases he : Graph.eval B f 0 s Sig.applySig with
  | none => rfl
  | panic _ => rfl
  | ok outs =>
    obtain ⟨order, unv, layering, mem1, mem, hl, hc, h1, h2⟩ := eval_ok_inv B f 0 s _ outs he
    have hsim := foldlM_logBody_sim f (fun m => Res.ok m) layering mem1 []
    rw [h2] at hsim
    cases h3 : layering.foldlM (logBody f) (mem1, []) with
    | none => rw [h3] at hsim; cases hsim
    | panic _ => rw [h3] at hsim; cases hsim
    | ok r =>
      simp only [Res.ok_bind, hl, hc, h1, h3]
      rfl

/-- pointwise form: if the logged evaluator returns `(outs, log)` then `Graph.eval` returns `outs` -/
theorem evalLogged_ok_outputs (B : Backend) (f : Drv.F) (s : List Nat) (outs : List Nat) (log : Log)
    (h : Drv.evalLogged B f s = .ok (outs, log)) :
    Graph.eval B f 0 s Sig.applySig = .ok outs := by
  rw [← evalLogged_outputs, h]
  rfl

/-- conversely, whenever `Graph.eval` returns, the logged evaluator returns the same outputs together
    with some log -/
theorem evalLogged_of_eval_ok (B : Backend) (f : Drv.F) (s : List Nat) (outs : List Nat)
    (h : Graph.eval B f 0 s Sig.applySig = .ok outs) :
    ∃ log, Drv.evalLogged B f s = .ok (outs, log) := by
  have := evalLogged_outputs B f s
  rw [h] at this
  cases h3 : Drv.evalLogged B f s with
  | none => rw [h3] at this; cases this
  | panic _ => rw [h3] at this; cases this
  | ok r =>
    rw [h3] at this
    injection this with this
    exact ⟨r.2, by rw [← this]⟩


/-! ### 3. the log: every hyperedge interpreted exactly once on the values of its source nodes -/

section plain

variable {O A T : Type}

/-- the interpreter call of hyperedge `e` under the node values `val` -/
def callOf (val : Nat → T) (e : PEdge A) : A × List T := (e.label, e.src.map val)

/-- the calls of one layer `g` (a list of operation numbers) on the memory `mem` -/
def layerCalls (d : PDiag O A) (dflt : T) (mem : List T) (g : List Nat) : List (A × List T) :=
  (gatherP d.edges g).map (callOf (rd dflt mem))

/-- the log of the layers `gs`, started on the memory `mem` -/
def logFrom (d : PDiag O A) (opfn : A → List T → List T) (dflt : T) :
    List T → List (List Nat) → List (List (A × List T))
  | _, [] => []
  | mem, g :: gs => layerCalls d dflt mem g :: logFrom d opfn dflt (layerStep d opfn dflt mem g) gs

theorem logFrom_length (d : PDiag O A) (opfn : A → List T → List T) (dflt : T) :
    ∀ (gs : List (List Nat)) (mem : List T), (logFrom d opfn dflt mem gs).length = gs.length := by
  intro gs
  induction gs with
  | nil => intro _; rfl
  | cons g gs ih => intro mem; simp [logFrom, ih]

/-- a node that is not a target of any operation of the layers `gs` keeps its value -/
theorem foldl_layerStep_rd_of_not_mem (d : PDiag O A) (opfn : A → List T → List T) (dflt : T)
    (v : Nat) : ∀ (gs : List (List Nat)) (mem : List T), v ∉ gs.flatten.flatMap (tgtOf d) →
      rd dflt (gs.foldl (layerStep d opfn dflt) mem) v = rd dflt mem v := by
  intro gs
  induction gs with
  | nil => intro _ _; rfl
  | cons g gs ih =>
    intro mem hv
    rw [List.flatten_cons, List.flatMap_append, List.mem_append, not_or] at hv
    rw [List.foldl_cons, ih _ hv.2, layerStep_rd_of_not_mem dflt mem g v hv.1]

/-- no source node of an operation of a layer is written by that layer or a later one -/
def SrcStable (d : PDiag O A) : List (List Nat) → Prop
  | [] => True
  | g :: gs => (∀ e ∈ gatherP d.edges g, ∀ v ∈ e.src, v ∉ (g :: gs).flatten.flatMap (tgtOf d)) ∧
      SrcStable d gs

/-- if sources are stable, every logged call reads the FINAL values of its source nodes -/
theorem logFrom_eq (d : PDiag O A) (opfn : A → List T → List T) (dflt : T) :
    ∀ (gs : List (List Nat)) (mem : List T), SrcStable d gs →
      logFrom d opfn dflt mem gs =
        gs.map (layerCalls d dflt (gs.foldl (layerStep d opfn dflt) mem)) := by
  intro gs
  induction gs with
  | nil => intro _ _; rfl
  | cons g gs ih =>
    intro mem hst
    obtain ⟨hhead, htail⟩ := hst
    rw [logFrom, List.map_cons, List.foldl_cons, ih _ htail]
    congr 1
    unfold layerCalls
    apply List.map_congr_left
    intro e he
    unfold callOf
    congr 1
    apply List.map_congr_left
    intro v hv
    have := foldl_layerStep_rd_of_not_mem d opfn dflt v (g :: gs) mem (hhead e he v hv)
    rw [List.foldl_cons] at this
    exact this.symm

theorem srcStable_of_index (d : PDiag O A) : ∀ (gs : List (List Nat)),
    (∀ i i' j j' e e', i ≤ i' → j ∈ gs.getD i [] → j' ∈ gs.getD i' [] → d.edges[j]? = some e →
      d.edges[j']? = some e' → ∀ v ∈ e.src, v ∉ e'.tgt) → SrcStable d gs := by
  intro gs
  induction gs with
  | nil => intro _; trivial
  | cons g gs ih =>
    intro h
    refine ⟨?_, ih ?_⟩
    · intro e he v hv hmem
      obtain ⟨j, hj, hje⟩ := List.mem_filterMap.1 he
      obtain ⟨j', hj', hvj'⟩ := List.mem_flatMap.1 hmem
      obtain ⟨g', hg', hj'g'⟩ := List.mem_flatten.1 hj'
      obtain ⟨i', hi', rfl⟩ := List.getElem_of_mem hg'
      obtain ⟨e', he', hve'⟩ := mem_tgtOf hvj'
      refine h 0 i' j j' e e' (Nat.zero_le _) (by simpa using hj) ?_ hje he' v hv hve'
      rw [List.getD_eq_getElem?_getD, List.getElem?_eq_getElem hi']
      exact hj'g'
    · intro i i' j j' e e' hii' hj hj'
      exact h (i + 1) (i' + 1) j j' e e' (by omega) (by simpa using hj) (by simpa using hj')

theorem srcStable_of_layering {d : PDiag O A} {lay : Nat → Nat} {groups : List (List Nat)}
    (hl : IsLayering d lay groups) : SrcStable d groups := by
  apply srcStable_of_index
  intro i i' j j' e e' hii' hj hj' he he' v hv hv'
  have h1 := ((hl.mem_iff i j).1 hj).2
  have h2 := ((hl.mem_iff i' j').1 hj').2
  have := hl.dep j' j ⟨e', e, v, he', he, hv', hv⟩
  omega

/-- the layers of a layering list every operation exactly once -/
theorem flatten_perm_of_layering {d : PDiag O A} {lay : Nat → Nat} {groups : List (List Nat)}
    (hl : IsLayering d lay groups) : groups.flatten.Perm (List.range d.edges.length) := by
  have hget : ∀ i (hi : i < groups.length), groups[i] = groups.getD i [] := by
    intro i hi
    rw [List.getD_eq_getElem?_getD, List.getElem?_eq_getElem hi]
    rfl
  rw [List.perm_ext_iff_of_nodup _ List.nodup_range]
  · intro y
    rw [List.mem_range, List.mem_flatten]
    constructor
    · rintro ⟨g, hg, hy⟩
      obtain ⟨i, hi, rfl⟩ := List.getElem_of_mem hg
      rw [hget i hi] at hy
      exact ((hl.mem_iff i y).1 hy).1
    · intro hy
      have hi := hl.lt y hy
      refine ⟨groups[lay y], List.getElem_mem hi, ?_⟩
      rw [hget _ hi]
      exact (hl.mem_iff (lay y) y).2 ⟨hy, rfl⟩
  · rw [List.nodup_flatten]
    refine ⟨?_, ?_⟩
    · intro g hg
      obtain ⟨i, hi, rfl⟩ := List.getElem_of_mem hg
      rw [hget i hi]
      exact hl.nodup i
    · rw [List.pairwise_iff_getElem]
      intro i j hi hj hij y hyi hyj
      rw [hget i hi] at hyi
      rw [hget j hj] at hyj
      have h1 := ((hl.mem_iff i y).1 hyi).2
      have h2 := ((hl.mem_iff j y).1 hyj).2
      omega

theorem filterMap_getElem?_range {α : Type} : ∀ (l : List α),
    (List.range l.length).filterMap (fun i => l[i]?) = l
  | [] => rfl
  | x :: l => by
    rw [List.length_cons, List.range_succ_eq_map, List.filterMap_cons, List.filterMap_map]
    simp only [List.getElem?_cons_zero]
    congr 1
    exact filterMap_getElem?_range l

theorem flatten_map_layerCalls (d : PDiag O A) (dflt : T) (mem : List T) (gs : List (List Nat)) :
    (gs.map (layerCalls d dflt mem)).flatten =
      (gatherP d.edges gs.flatten).map (callOf (rd dflt mem)) := by
  induction gs with
  | nil => rfl
  | cons g gs ih =>
    rw [List.map_cons, List.flatten_cons, ih, List.flatten_cons]
    unfold layerCalls gatherP
    rw [List.filterMap_append, List.map_append]

/-- **the log of a layering**: the calls of all layers, flattened, are — up to order — the
    hyperedges of the diagram, each exactly once, on the FINAL values of their source nodes
    (no single-writer or arity hypothesis) -/
theorem logFrom_perm {d : PDiag O A} (opfn : A → List T → List T) (dflt : T) {lay : Nat → Nat}
    {groups : List (List Nat)} (hl : IsLayering d lay groups) (mem : List T) :
    (logFrom d opfn dflt mem groups).flatten.Perm
      (d.edges.map (callOf (rd dflt (groups.foldl (layerStep d opfn dflt) mem)))) := by
  rw [logFrom_eq d opfn dflt groups mem (srcStable_of_layering hl), flatten_map_layerCalls]
  apply List.Perm.map
  have := (flatten_perm_of_layering hl).filterMap (fun i => d.edges[i]?)
  rw [filterMap_getElem?_range] at this
  exact this

end plain

/-! #### the model's loop -/

/-- labels zipped with argument lists = the calls of the layer on the plain diagram -/
theorem zip_labels_args (f : Drv.F) (hf : f.wf = true) (mem : List Nat) (g : List Nat)
    (hg : ∀ j ∈ g, j < f.h.x.length) :
    (gatherP f.h.x g).zip (g.map (fun j => (f.h.s.segs.getD j []).map (rd 0 mem))) =
      layerCalls f.toPlain 0 mem g := by
  unfold layerCalls
  induction g with
  | nil => rfl
  | cons j g ih =>
    have hj := hg j (by simp)
    have ih' := ih (fun i hi => hg i (by simp [hi]))
    have hhead : gatherP f.h.x (j :: g) = f.h.x[j] :: gatherP f.h.x g := by
      simp [gatherP, List.getElem?_eq_getElem hj]
    have hhead' : gatherP f.toPlain.edges (j :: g) =
        ⟨f.h.x[j], f.h.s.segs.getD j [], f.h.t.segs.getD j []⟩ :: gatherP f.toPlain.edges g := by
      simp [gatherP, toPlain_edges_getElem? f hf j hj]
    rw [hhead, hhead', List.map_cons, List.zip_cons_cons, ih', List.map_cons]
    rfl

/-- closed form of one iteration of the logged loop -/
theorem logBody_eq (f : Drv.F) (hf : f.wf = true) (mem : List Nat)
    (hmem : mem.length = f.h.w.length) (log : Log) (g : List Nat)
    (hg : ∀ j ∈ g, j < f.h.x.length) :
    logBody f (mem, log) g =
      .ok (layerStep f.toPlain Sig.opfn 0 mem g, log ++ [layerCalls f.toPlain 0 mem g]) := by
  obtain ⟨hs, ht, hsl, htl, hst, htt⟩ := hg_wf_unpack f.h (C15.ohg_wf_h f hf)
  obtain ⟨ei, hei, heiv, heiw, heit, heisegs, _⟩ := mapIndexes_group f.h.s hs g _ hsl.symm hg
  obtain ⟨eo, heo, _, heow, heot, _, heoflat⟩ := mapIndexes_group f.h.t ht g _ htl.symm hg
  obtain ⟨ev, hev, hevv, _, _, hevsegs⟩ :=
    C08.mapSemifinite_spec ei mem heiv heiw (by rw [heit, hst, hmem])
  have hevsegs' := hevsegs (rd 0 mem) (by
    intro i hi
    unfold rd
    rw [List.getD_eq_getElem?_getD, List.getElem?_eq_getElem hi]
    rfl)
  have hsegsL : ev.segsL = g.map (fun j => (f.h.s.segs.getD j []).map (rd 0 mem)) := by
    rw [hevsegs', heisegs, List.map_map]
    rfl
  have hevEq : ev = IC.ofSegsL (g.map (fun j => (f.h.s.segs.getD j []).map (rd 0 mem))) := by
    rw [← IC.ofSegsL_segsL ev hevv, hsegsL]
  have hlab : FinFun.composeSemi ⟨g, f.h.x.length⟩ f.h.x = .ok (gatherP f.h.x g) :=
    FinFun.composeSemi_ok ⟨g, f.h.x.length⟩ f.h.x (fun j hj => hg j hj) rfl
  unfold logBody
  simp only [hlab, hei, hev, heo, Res.unwrap_ok, Res.ok_bind]
  rw [scatterAssign_ok]
  · rw [hsegsL, zip_labels_args f hf mem g hg, ← stepM_applyOf f hf Sig.opfn 0 mem g hg, hevEq,
      heoflat]
    rfl
  · intro p hp
    have := heow p.1 (List.of_mem_zip (a := p.1) (b := p.2) hp).1
    rw [heot, htt, ← hmem] at this
    exact this

/-- closed form of the logged loop -/
theorem foldlM_logBody_eq (f : Drv.F) (hf : f.wf = true) :
    ∀ (groups : List (List Nat)) (mem : List Nat) (log : Log), mem.length = f.h.w.length →
      (∀ g ∈ groups, ∀ j ∈ g, j < f.h.x.length) →
      groups.foldlM (logBody f) (mem, log) =
        .ok (groups.foldl (layerStep f.toPlain Sig.opfn 0) mem,
          log ++ logFrom f.toPlain Sig.opfn 0 mem groups) := by
  intro groups
  induction groups with
  | nil => intro mem log _ _; simp [logFrom]
  | cons g groups ih =>
    intro mem log hmem hg
    rw [List.foldlM_cons, logBody_eq f hf mem hmem log g (hg g (by simp)), Res.ok_bind,
      ih _ _ (by rw [layerStep_length, hmem]) (fun g' hg' => hg g' (by simp [hg']))]
    simp [logFrom]

theorem scatter_init (f : Drv.F) (hf : f.wf = true) (s : List Nat) :
    scatterAssign (List.replicate f.h.w.length 0) f.s.table s = .ok (initMem f.toPlain 0 s) := by
  obtain ⟨_, hsw, _, hst, _⟩ := ohg_wf_unpack f hf
  have : scatterAssign (List.replicate f.h.w.length 0) f.s.table s = .ok (initM f 0 s) := by
    apply scatterAssign_ok
    intro p hp
    have := hsw p.1 (List.of_mem_zip (a := p.1) (b := p.2) hp).1
    rw [List.length_replicate, ← hst]
    exact this
  rw [this]
  rfl

/-- **closed form of a successful run of the logged evaluator** (lawful backend, well-formed
    diagram; nothing else): the operations were processed along a layering of the plain diagram;
    the outputs are the final memory read at the output interface and the log is the log of that
    layering -/
theorem evalLogged_closed (B : Backend) (hB : B.Lawful) (f : Drv.F) (hf : f.wf = true)
    (s : List Nat) (outs : List Nat) (log : Log) (h : Drv.evalLogged B f s = .ok (outs, log)) :
    ∃ lay groups, IsLayering f.toPlain lay groups ∧ groups.length = f.h.x.length ∧
      outs = f.t.table.map (rd 0 (runLayers f.toPlain Sig.opfn 0 s groups)) ∧
      log = logFrom f.toPlain Sig.opfn 0 (initMem f.toPlain 0 s) groups := by
  have he := evalLogged_ok_outputs B f s outs log h
  obtain ⟨order, unv, groups, hl, hc, hol, hul, hlt, hglen, hcount, hspec⟩ :=
    eval_layers B hB f hf
  have hrange := groups_in_range hol hcount
  have hev := eval_unfold B f 0 s Sig.applySig _ unv groups hl hc
  rw [he] at hev
  have hmax : (Prim.max unv).getD 0 = 0 := by
    by_contra hne
    rw [if_neg hne] at hev
    cases hev
  rw [if_pos hmax] at hev
  have hall := (max_unvisited_eq_zero_iff unv).1 hmax
  have hunv : unv = List.replicate f.h.x.length 0 := by
    apply List.ext_getElem?
    intro y
    by_cases hy : y < unv.length
    · rw [hall y hy, List.getElem?_replicate, if_pos (hul ▸ hy)]
    · rw [List.getElem?_eq_none (by omega), List.getElem?_eq_none (by
        rw [List.length_replicate]; omega)]
  have hlay := isLayering_of_layer B hB f hf order groups (by rw [hl, hunv]) hglen hol hlt hcount
  refine ⟨_, groups, hlay, hglen, ?_, ?_⟩
  · have hap : Sig.applySig = applyOf Sig.opfn := rfl
    rw [hap, evalOrder_applyOf f hf Sig.opfn 0 s groups hrange] at hev
    injection hev with hev
  · rw [evalLogged_unfold, he, hl] at h
    simp only [Res.ok_bind, hc, scatter_init f hf s] at h
    have hlen0 : (initMem f.toPlain 0 s).length = f.h.w.length := by
      unfold initMem
      rw [writeAll_length, List.length_replicate]
      rfl
    rw [foldlM_logBody_eq f hf groups _ [] hlen0 hrange] at h
    simp only [Res.ok_bind, Res.pure_eq, List.nil_append] at h
    injection h with h
    injection h with _ h
    exact h.symm

/-! #### headline theorems about the log -/

/-- "every hyperedge interpreted exactly once on the values `val` of its source nodes": the list
    of `(label, args)` pairs, one per hyperedge of the diagram -/
def allCalls (f : Drv.F) (val : Nat → Nat) : List (Nat × List Nat) :=
  f.toPlain.edges.map (callOf val)

/-- the same list written with the arrays of the diagram: hyperedge `e` has label `f.h.x[e]` and
    source nodes `f.h.s.segs[e]` -/
theorem allCalls_eq_range (f : Drv.F) (hf : f.wf = true) (val : Nat → Nat) :
    allCalls f val = (List.range f.h.x.length).map
      (fun e => (f.h.x.getD e 0, (f.h.s.segs.getD e []).map val)) := by
  unfold allCalls
  apply List.ext_getElem?
  intro i
  by_cases hi : i < f.h.x.length
  · rw [List.getElem?_map, toPlain_edges_getElem? f hf i hi, List.getElem?_map,
      List.getElem?_range hi]
    simp [callOf, List.getD_eq_getElem?_getD, List.getElem?_eq_getElem hi]
  · rw [List.getElem?_eq_none (by rw [List.length_map, toPlain_edges_length f hf]; omega),
      List.getElem?_eq_none (by rw [List.length_map, List.length_range]; omega)]

/-- the log without any hypothesis on writers or arities: for a lawful backend and a well-formed
    diagram, a successful run logs one entry per layer (the model produces as many layers as there
    are hyperedges, the surplus ones empty) and the calls of all entries are — up to order — the
    hyperedges, each exactly once, on the values that their source nodes carry in the FINAL memory
    (the memory whose values at the output interface are returned) -/
theorem evalLogged_log_mem (B : Backend) (hB : B.Lawful) (f : Drv.F) (hf : f.wf = true)
    (s : List Nat) (outs : List Nat) (log : Log) (h : Drv.evalLogged B f s = .ok (outs, log)) :
    ∃ lay groups, IsLayering f.toPlain lay groups ∧
      outs = f.t.table.map (rd 0 (runLayers f.toPlain Sig.opfn 0 s groups)) ∧
      log.length = f.h.x.length ∧
      log.flatten.Perm (allCalls f (rd 0 (runLayers f.toPlain Sig.opfn 0 s groups))) := by
  obtain ⟨lay, groups, hlay, hglen, houts, hlog⟩ := evalLogged_closed B hB f hf s outs log h
  refine ⟨lay, groups, hlay, houts, ?_, ?_⟩
  · rw [hlog, logFrom_length, hglen]
  · rw [hlog]
    exact logFrom_perm Sig.opfn 0 hlay _

/-- a successful run means the dependency relation is acyclic -/
theorem opAcyclic_of_evalLogged_ok (B : Backend) (hB : B.Lawful) (f : Drv.F) (hf : f.wf = true)
    (s : List Nat) (outs : List Nat) (log : Log) (h : Drv.evalLogged B f s = .ok (outs, log)) :
    OpAcyclic f :=
  (eval_ok_iff B hB f hf 0 s Sig.applySig).1 ⟨outs, evalLogged_ok_outputs B f s outs log h⟩

/-- **the log of the model's evaluator** (C16's hypotheses: lawful backend, well-formed diagram,
    every node written at most once, arity-correct interpreter, one input value per input position;
    acyclicity follows from the run being successful).  If `Drv.evalLogged B f s = .ok (outs, log)`
    then for THE valuation `val` of the diagram (`IsValuation`; unique by `C16.valuation_unique`):
    the outputs are the valuation at the output interface, the log has one entry per layer, and its
    calls are — up to order — every hyperedge exactly once with the valuation's values at its
    source nodes. -/
theorem evalLogged_log_spec (B : Backend) (hB : B.Lawful) (f : Drv.F) (hf : f.wf = true)
    (s : List Nat) (hsw : SingleWriter f.toPlain) (har : ArityOK f Sig.opfn)
    (hs : s.length = f.s.table.length) (outs : List Nat) (log : Log)
    (h : Drv.evalLogged B f s = .ok (outs, log)) (val : Nat → Nat)
    (hval : IsValuation f.toPlain Sig.opfn 0 s val) :
    outs = f.t.table.map val ∧ log.length = f.h.x.length ∧
      log.flatten.Perm (allCalls f val) := by
  have hac := opAcyclic_of_evalLogged_ok B hB f hf s outs log h
  obtain ⟨lay, groups, hlay, houts, hlen, hperm⟩ := evalLogged_log_mem B hB f hf s outs log h
  obtain ⟨_, hval0⟩ := runLayers_valuation (opfn := Sig.opfn) (dflt := 0) (s := s) hsw har
    (toPlain_wf f hf) hs hlay
  have huniq := valuation_unique f hf Sig.opfn 0 s hac hval0 hval
  obtain ⟨_, _, htw, _, htt⟩ := ohg_wf_unpack f hf
  obtain ⟨_, _, hedges⟩ := pdiag_wf_unpack (toPlain_wf f hf)
  have hcalls : allCalls f (rd 0 (runLayers f.toPlain Sig.opfn 0 s groups)) = allCalls f val := by
    unfold allCalls
    apply List.map_congr_left
    intro e he
    unfold callOf
    congr 1
    apply List.map_congr_left
    intro v hv
    exact huniq v ((hedges e he).1 v hv)
  refine ⟨?_, hlen, hcalls ▸ hperm⟩
  rw [houts]
  apply List.map_congr_left
  intro v hv
  exact huniq v (htt ▸ htw v hv)

/-- existence form: under all of C16's hypotheses the logged evaluator returns, and what it returns
    is described by the valuation -/
theorem evalLogged_spec (B : Backend) (hB : B.Lawful) (f : Drv.F) (hf : f.wf = true)
    (s : List Nat) (hac : OpAcyclic f) (hsw : SingleWriter f.toPlain) (har : ArityOK f Sig.opfn)
    (hs : s.length = f.s.table.length) :
    ∃ outs log val, Drv.evalLogged B f s = .ok (outs, log) ∧
      IsValuation f.toPlain Sig.opfn 0 s val ∧ outs = f.t.table.map val ∧
      log.length = f.h.x.length ∧ log.flatten.Perm (allCalls f val) := by
  obtain ⟨outs, val, hev, hval, _⟩ := eval_spec B hB f hf Sig.opfn 0 s hac hsw har hs
  obtain ⟨log, hlog⟩ := evalLogged_of_eval_ok B f s outs hev
  obtain ⟨h1, h2, h3⟩ := evalLogged_log_spec B hB f hf s hsw har hs outs log hlog val hval
  exact ⟨outs, log, val, hlog, hval, h1, h2, h3⟩

/-- the multiset of logged calls (and the outputs) do not depend on the lawful backend -/
theorem evalLogged_log_backend_independent (B₁ B₂ : Backend) (h₁ : B₁.Lawful) (h₂ : B₂.Lawful)
    (f : Drv.F) (hf : f.wf = true) (s : List Nat) (hsw : SingleWriter f.toPlain)
    (har : ArityOK f Sig.opfn) (hs : s.length = f.s.table.length)
    (o₁ o₂ : List Nat) (l₁ l₂ : Log) (e₁ : Drv.evalLogged B₁ f s = .ok (o₁, l₁))
    (e₂ : Drv.evalLogged B₂ f s = .ok (o₂, l₂)) :
    o₁ = o₂ ∧ l₁.length = l₂.length ∧ l₁.flatten.Perm l₂.flatten := by
  have hac := opAcyclic_of_evalLogged_ok B₁ h₁ f hf s o₁ l₁ e₁
  obtain ⟨_, val, _, hval, _⟩ := eval_spec B₁ h₁ f hf Sig.opfn 0 s hac hsw har hs
  obtain ⟨a1, a2, a3⟩ := evalLogged_log_spec B₁ h₁ f hf s hsw har hs o₁ l₁ e₁ val hval
  obtain ⟨b1, b2, b3⟩ := evalLogged_log_spec B₂ h₂ f hf s hsw har hs o₂ l₂ e₂ val hval
  exact ⟨a1.trans b1.symm, a2.trans b2.symm, a3.trans b3.symm⟩

/-- no result iff the dependency relation has a cycle; never a panic -/
theorem evalLogged_none_iff (B : Backend) (hB : B.Lawful) (f : Drv.F) (hf : f.wf = true)
    (s : List Nat) :
    (Drv.evalLogged B f s = .none ↔ ∃ c, Relation.TransGen (opDep f.toPlain) c c) ∧
    ∀ site, Drv.evalLogged B f s ≠ .panic site := by
  have hout := evalLogged_outputs B f s
  refine ⟨?_, ?_⟩
  · rw [← eval_none_iff_cycle B hB f hf 0 s Sig.applySig, ← hout]
    cases Drv.evalLogged B f s with
    | ok r => exact ⟨fun h => (by cases h), fun h => (by cases h)⟩
    | none => exact ⟨fun _ => rfl, fun _ => rfl⟩
    | panic _ => exact ⟨fun h => (by cases h), fun h => (by cases h)⟩
  · intro site h
    rw [h] at hout
    exact eval_no_panic B hB f hf 0 s Sig.applySig site hout.symm

/-- **what the comparison of `evalG` accepts** (relation `"outputs-exact+log-multiset"`): under
    C16's hypotheses, an implementation answer `(io, il)` is accepted against the model's answer
    `(mo, ml)` iff its outputs are the valuation at the output interface and the calls of its log,
    however batched and ordered, are every hyperedge exactly once on the valuation's values at its
    source nodes -/
theorem evalG_agree_iff (B : Backend) (hB : B.Lawful) (f : Drv.F) (hf : f.wf = true)
    (s : List Nat) (hsw : SingleWriter f.toPlain) (har : ArityOK f Sig.opfn)
    (hs : s.length = f.s.table.length) (mo : List Nat) (ml : Log)
    (h : Drv.evalLogged B f s = .ok (mo, ml)) (val : Nat → Nat)
    (hval : IsValuation f.toPlain Sig.opfn 0 s val) (io : List Nat) (il : Log) :
    (mo == io && ml.flatten.length == il.flatten.length &&
      ml.flatten.all (fun x => ml.flatten.count x == il.flatten.count x)) = true ↔
    (io = f.t.table.map val ∧ il.flatten.Perm (allCalls f val)) := by
  obtain ⟨h1, _, h3⟩ := evalLogged_log_spec B hB f hf s hsw har hs mo ml h val hval
  rw [Bool.and_assoc, Bool.and_eq_true, logAgree_iff, beq_iff_eq, ← h1]
  constructor
  · rintro ⟨rfl, hp⟩
    exact ⟨rfl, hp.symm.trans h3⟩
  · rintro ⟨rfl, hp⟩
    exact ⟨rfl, h3.trans hp.symm⟩

/-! ### 4. examples -/

namespace Example

/-- six nodes; inputs 0, 1; operations over the test signature (numbered against the dependency
    order): 0 = add(2,3)→4, 1 = copy(0)→(2,3), 2 = add(4,1)→5; outputs 5, 2
    (`C16.Example.f` with the labels of `Sig.opfn`: 0 = wrapping sum, 3 = copy) -/
def f : Drv.F :=
  ⟨⟨[0, 1], 6⟩, ⟨[5, 2], 6⟩,
   ⟨⟨⟨[2, 1, 2], 6⟩, ⟨[2, 3, 0, 4, 1], 6⟩⟩, ⟨⟨[1, 2, 1], 5⟩, ⟨[4, 2, 3, 5], 6⟩⟩,
    [0, 0, 0, 0, 0, 0], [0, 3, 0]⟩⟩

theorem f_wf : f.wf = true := by decide

theorem f_singleWriter : SingleWriter f.toPlain := by
  unfold SingleWriter
  decide

theorem f_acyclic : OpAcyclic f :=
  (opAcyclic_iff_noCycle f f_wf).2
    (noCycle_of_check f.toPlain (fun j => [1, 0, 2].getD j 0) (by decide))

theorem f_arity : ArityOK f Sig.opfn := by
  intro e he args _
  have : e ∈ [(⟨0, [2, 3], [4]⟩ : PEdge Nat), ⟨3, [0], [2, 3]⟩, ⟨0, [4, 1], [5]⟩] := he
  simp only [List.mem_cons, List.not_mem_nil, or_false] at this
  rcases this with rfl | rfl | rfl <;> rfl

/-- the valuation of `f` on the inputs `[10, 7]` -/
def val (v : Nat) : Nat := [10, 7, 10, 10, 20, 27].getD v 0

theorem f_valuation : IsValuation f.toPlain Sig.opfn 0 [10, 7] val :=
  ⟨by decide, by decide, by decide⟩

/-- the hypotheses of `evalLogged_log_spec` / `evalLogged_spec` are satisfiable, and they determine
    the outputs and the multiset of logged calls for EVERY lawful backend -/
example (B : Backend) (hB : B.Lawful) :
    ∃ log, Drv.evalLogged B f [10, 7] = .ok ([27, 10], log) ∧ log.length = 3 ∧
      log.flatten.Perm [(0, [10, 10]), (3, [10]), (0, [20, 7])] := by
  obtain ⟨outs, log, val', h, hval', houts, hlen, hperm⟩ :=
    evalLogged_spec B hB f f_wf [10, 7] f_acyclic f_singleWriter f_arity rfl
  obtain ⟨h1, h2, h3⟩ :=
    evalLogged_log_spec B hB f f_wf [10, 7] f_singleWriter f_arity rfl outs log h val f_valuation
  refine ⟨log, ?_, h2, h3⟩
  rw [h, h1]
  rfl

/-- an implementation that interprets one hyperedge per call, in the order copy, add, add, and one
    that batches differently are both accepted; outputs must be exact -/
example (B : Backend) (hB : B.Lawful) (mo : List Nat) (ml : Log)
    (h : Drv.evalLogged B f [10, 7] = .ok (mo, ml)) (il : Log)
    (hil : il = [[(3, [10])], [(0, [10, 10])], [(0, [20, 7])]] ∨
      il = [[(3, [10])], [], [(0, [20, 7]), (0, [10, 10])]]) :
    (mo == [27, 10] && ml.flatten.length == il.flatten.length &&
      ml.flatten.all (fun x => ml.flatten.count x == il.flatten.count x)) = true := by
  rw [evalG_agree_iff B hB f f_wf [10, 7] f_singleWriter f_arity rfl mo ml h val f_valuation]
  refine ⟨rfl, ?_⟩
  rw [← logAgree_iff]
  rcases hil with rfl | rfl <;> decide

/-- the exact Boolean of `evalG` on literal logs: two logs that batch the same calls differently are
    accepted after flattening … -/
example :
    let ml : Log := [[(0, [1, 2]), (1, [3])], [(0, [4, 5])]]
    let il : Log := [[(1, [3])], [(0, [1, 2])], [(0, [4, 5])], []]
    (ml.flatten.length == il.flatten.length &&
      ml.flatten.all (fun x => ml.flatten.count x == il.flatten.count x)) = true := by decide

example : ([[(0, [1, 2]), (1, [3])], [(0, [4, 5])]] : Log).flatten.Perm
    ([[(1, [3])], [(0, [1, 2])], [(0, [4, 5])], []] : Log).flatten :=
  (logAgree_iff _ _).1 (by decide)

/-- … a wrong argument is rejected … -/
example :
    let ml : Log := [[(0, [1, 2]), (1, [3])], [(0, [4, 5])]]
    let il : Log := [[(1, [3])], [(0, [1, 2])], [(0, [4, 6])], []]
    (ml.flatten.length == il.flatten.length &&
      ml.flatten.all (fun x => ml.flatten.count x == il.flatten.count x)) = false := by decide

/-- … a duplicated call is rejected (by the length test; also when another call is dropped
    instead, by the counts) … -/
example :
    let ml : Log := [[(0, [1, 2]), (1, [3])], [(0, [4, 5])]]
    let il : Log := [[(1, [3])], [(0, [1, 2])], [(0, [4, 5])], [(1, [3])]]
    let il' : Log := [[(1, [3])], [(0, [1, 2])], [(1, [3])]]
    (ml.flatten.length == il.flatten.length &&
      ml.flatten.all (fun x => ml.flatten.count x == il.flatten.count x)) = false ∧
    (ml.flatten.length == il'.flatten.length &&
      ml.flatten.all (fun x => ml.flatten.count x == il'.flatten.count x)) = false := by decide

/-- … and so is a swapped label or a reordered argument list (calls are compared as pairs) -/
example :
    let ml : Log := [[(0, [1, 2]), (1, [3])], [(0, [4, 5])]]
    let il : Log := [[(0, [3])], [(1, [1, 2])], [(0, [4, 5])]]
    let il' : Log := [[(1, [3])], [(0, [2, 1])], [(0, [4, 5])]]
    (ml.flatten.length == il.flatten.length &&
      ml.flatten.all (fun x => ml.flatten.count x == il.flatten.count x)) = false ∧
    (ml.flatten.length == il'.flatten.length &&
      ml.flatten.all (fun x => ml.flatten.count x == il'.flatten.count x)) = false := by decide

end Example

end OH.C16Oracle
