/-
  C17 — the predicates on diagrams: acyclicity test, monogamy test, degree queries.

  "The acyclicity test is true iff no node can reach itself by following hyperedges from a source
   node to a target node;" (`isAcyclic_spec`, for every lawful backend, via the Kahn library)

  "the monogamy test is true iff both interface maps are injective and every node has in-degree 1,
   or in-degree 0 and is an input, and out-degree 1, or out-degree 0 and is an output; degree
   queries count occurrences with multiplicity.  Each of them returns an answer for every
   well-formed diagram, including ones with isolated nodes, dangling nodes, repeated incidences and
   many parallel connections, in debug and release builds alike."

  The model of `is_monogamous` (after the repair) contains no subtraction, so the only panic
  sites are the `bincount` index checks and the `add` length asserts; `isMonogamous_spec` shows
  none of them fires on a well-formed diagram (`ok`), which is the "debug and release alike"
  clause: there is no arithmetic whose overflow behaviour could differ.
-/
import OHVerif.Lemmas.Predicates
import OHVerif.Lemmas.Adjacency

namespace OH.C17

variable {O A : Type}

/-! ## monogamy -/

theorem isMonogamous_spec (f : OHG O A) (hwf : f.wf = true) :
    ∃ b, f.isMonogamous = .ok b ∧ (b = true ↔ Monogamous f.toPlain) := by
  have hw := (OHG.wf_iff_Wf f).1 hwf
  obtain ⟨b, hb, hiff⟩ := OHG.isMonogamous_closed f hw
  refine ⟨b, hb, hiff.trans ?_⟩
  have hin := inDeg_eq_count f.h.w f.s.table f.t.table f.h hw.h
  have hout := outDeg_eq_count f.h.w f.s.table f.t.table f.h hw.h
  have hcount : ∀ (l : List Nat), l.Nodup → ∀ v, (v ∈ l ∧ l.count v = 1) ∨ (v ∉ l ∧ l.count v = 0) := by
    intro l hl v
    by_cases hm : v ∈ l
    · have h1 := List.nodup_iff_count.1 hl v
      have h2 := List.count_pos_iff.2 hm
      exact Or.inl ⟨hm, by omega⟩
    · exact Or.inr ⟨hm, List.count_eq_zero_of_not_mem hm⟩
  unfold Monogamous
  simp only [OHG.toPlain, PDiag.n] at hin hout ⊢
  constructor
  · rintro ⟨n1, n2, h1, h2⟩
    refine ⟨n1, n2, fun v hv => ⟨?_, ?_⟩⟩
    · have := h1 v hv
      rw [hin v]
      rcases hcount _ n1 v with ⟨hm, hc⟩ | ⟨hm, hc⟩
      · exact Or.inr ⟨by omega, hm⟩
      · exact Or.inl ⟨by omega, hm⟩
    · have := h2 v hv
      rw [hout v]
      rcases hcount _ n2 v with ⟨hm, hc⟩ | ⟨hm, hc⟩
      · exact Or.inr ⟨by omega, hm⟩
      · exact Or.inl ⟨by omega, hm⟩
  · rintro ⟨n1, n2, h⟩
    refine ⟨n1, n2, fun v hv => ?_, fun v hv => ?_⟩
    · have := (h v hv).1
      rw [hin v] at this
      rcases hcount _ n1 v with ⟨hm, hc⟩ | ⟨hm, hc⟩
      · rcases this with ⟨_, h'⟩ | ⟨h0, _⟩
        · exact absurd hm h'
        · omega
      · rcases this with ⟨h1, _⟩ | ⟨_, h'⟩
        · omega
        · exact absurd h' hm
    · have := (h v hv).2
      rw [hout v] at this
      rcases hcount _ n2 v with ⟨hm, hc⟩ | ⟨hm, hc⟩
      · rcases this with ⟨_, h'⟩ | ⟨h0, _⟩
        · exact absurd hm h'
        · omega
      · rcases this with ⟨h1, _⟩ | ⟨_, h'⟩
        · omega
        · exact absurd h' hm

/-- the test never panics and never answers `none` on a well-formed diagram -/
theorem isMonogamous_total (f : OHG O A) (hwf : f.wf = true) : ∃ b, f.isMonogamous = .ok b :=
  let ⟨b, hb, _⟩ := isMonogamous_spec f hwf
  ⟨b, hb⟩

/-- witnesses.  `d1`: nodes 0,1,2,3; one edge `0 ↦ 1`; node 2 isolated (so it must be both an
    input and an output); node 3 dangling (nothing attached, not on the interface) — well-formed,
    the test answers `false`.  `d2`: the same without node 3 — monogamous.  `d3`: repeated
    incidence (`[0,0] ↦ [1,1]`) and two parallel edges — well-formed, answers `false`. -/
def d1 : OHG Nat Nat := ⟨⟨[0, 2], 4⟩, ⟨[1, 2], 4⟩, ⟨⟨⟨[1], 2⟩, ⟨[0], 4⟩⟩, ⟨⟨[1], 2⟩, ⟨[1], 4⟩⟩, [7, 7, 8, 9], [5]⟩⟩
def d2 : OHG Nat Nat := ⟨⟨[0, 2], 3⟩, ⟨[1, 2], 3⟩, ⟨⟨⟨[1], 2⟩, ⟨[0], 3⟩⟩, ⟨⟨[1], 2⟩, ⟨[1], 3⟩⟩, [7, 7, 8], [5]⟩⟩
def d3 : OHG Nat Nat :=
  ⟨⟨[0], 2⟩, ⟨[1], 2⟩, ⟨⟨⟨[2, 2], 5⟩, ⟨[0, 0, 0, 0], 2⟩⟩, ⟨⟨[2, 2], 5⟩, ⟨[1, 1, 1, 1], 2⟩⟩, [7, 7], [5, 5]⟩⟩

example : d1.wf = true ∧ d1.isMonogamous = .ok false := by decide
example : d2.wf = true ∧ d2.isMonogamous = .ok true := by decide
example : d3.wf = true ∧ d3.isMonogamous = .ok false := by decide

/-! ## degree queries -/

/-- the hypergraph part of a strict diagram as a plain diagram without interfaces -/
def plainOf (h : HG O A) : PDiag O A := ⟨h.w, h.toPlainEdges, [], []⟩

/-- `in_degree(v)` for a node of a well-formed hypergraph: the number of occurrences of `v` in
    all target lists, with multiplicity. -/
theorem inDegree_spec (h : HG O A) (hwf : h.wf = true) (v : Nat) (hv : v < h.w.length) :
    h.inDegree v = .ok (inDeg (plainOf h) v) ∧
    inDeg (plainOf h) v = (h.t.segs.map (fun l => l.count v)).sum ∧
    inDeg (plainOf h) v = h.t.values.table.count v := by
  have hw := (HG.wf_iff_Wf h).1 hwf
  have hc := inDeg_eq_count h.w [] [] h hw v
  have hti : ∀ x ∈ h.t.values.table, x < h.w.length := fun x hx => hw.ttgt ▸ hw.t.values x hx
  refine ⟨?_, ?_, hc⟩
  · unfold HG.inDegree
    rw [if_pos hv, Prim.bincount_ok _ _ hti]
    simp only [Res.ok_bind, Prim.get, Prim.bincount_getElem? _ _ _ hv, Res.ofOption]
    rw [plainOf, hc]
  · rw [plainOf, hc, sum_map_count_flatten, IC.segs_flatten _ hw.t.valid]

theorem outDegree_spec (h : HG O A) (hwf : h.wf = true) (v : Nat) (hv : v < h.w.length) :
    h.outDegree v = .ok (outDeg (plainOf h) v) ∧
    outDeg (plainOf h) v = (h.s.segs.map (fun l => l.count v)).sum ∧
    outDeg (plainOf h) v = h.s.values.table.count v := by
  have hw := (HG.wf_iff_Wf h).1 hwf
  have hc := outDeg_eq_count h.w [] [] h hw v
  have hsi : ∀ x ∈ h.s.values.table, x < h.w.length := fun x hx => hw.stgt ▸ hw.s.values x hx
  refine ⟨?_, ?_, hc⟩
  · unfold HG.outDegree
    rw [if_pos hv, Prim.bincount_ok _ _ hsi]
    simp only [Res.ok_bind, Prim.get, Prim.bincount_getElem? _ _ _ hv, Res.ofOption]
    rw [plainOf, hc]
  · rw [plainOf, hc, sum_map_count_flatten, IC.segs_flatten _ hw.s.valid]

/-- the documented `assert!(node < n)` -/
theorem degree_out_of_range (h : HG O A) (v : Nat) (hv : ¬ v < h.w.length) :
    h.inDegree v = .panic "in_degree:assert" ∧ h.outDegree v = .panic "out_degree:assert" := by
  simp [HG.inDegree, HG.outDegree, hv]

/-- the degrees of the open diagram `f.toPlain` are those of its hypergraph -/
theorem degree_toPlain (f : OHG O A) (hwf : f.wf = true) (v : Nat) (hv : v < f.h.w.length) :
    f.h.inDegree v = .ok (inDeg f.toPlain v) ∧ f.h.outDegree v = .ok (outDeg f.toPlain v) := by
  have hw := (OHG.wf_iff_Wf f).1 hwf
  have hh : f.h.wf = true := (HG.wf_iff_Wf _).2 hw.h
  rw [(inDegree_spec f.h hh v hv).1, (outDegree_spec f.h hh v hv).1]
  simp only [OHG.toPlain, plainOf, inDeg_eq_count _ _ _ f.h hw.h, outDeg_eq_count _ _ _ f.h hw.h,
    and_self]

example : d3.h.wf = true ∧ d3.h.inDegree 1 = .ok 4 ∧ d3.h.outDegree 1 = .ok 0 ∧
    d3.h.outDegree 0 = .ok 4 ∧ d3.h.inDegree 2 = .panic "in_degree:assert" ∧
    d1.h.wf = true ∧ d1.h.inDegree 3 = .ok 0 ∧ d1.h.outDegree 3 = .ok 0 := by decide

/-! ## acyclicity -/

theorem natSum_eq_zero_iff (l : List Nat) : l.sum = 0 ↔ ∀ x ∈ l, x = 0 := by
  induction l with
  | nil => simp
  | cons a l ih => simp only [List.sum_cons, List.mem_cons, forall_eq_or_imp, ← ih]; omega

/-- `is_acyclic` returns an answer (no panic, not `none`) for every lawful backend and every
    well-formed hypergraph — including the empty one, isolated nodes, repeated incidences and
    parallel edges — and the answer is `true` iff no node reaches itself along
    (source node of a hyperedge) → (target node of the same hyperedge) steps. -/
theorem isAcyclic_spec (B : Backend) (hB : B.Lawful) (h : HG O A) (hwf : h.wf = true) :
    ∃ b, Graph.isAcyclic B h = .ok b ∧ (b = true ↔ Acyclic (plainOf h)) := by
  obtain ⟨a, ha, hawf, halen, _, hdep⟩ := Graph.nodeAdjacency_spec B hB h hwf
  have hrel : nodeStep (plainOf h) = Graph.adjDep a := by
    funext v w; exact propext (hdep v w).symm
  have hhead : ∀ v, Relation.TransGen (Graph.adjDep a) v v → v < a.len := by
    intro v hv
    obtain ⟨w, hw, _⟩ := Relation.TransGen.head'_iff.1 hv
    exact Graph.adjDep_lt_left hw
  unfold Graph.isAcyclic Acyclic
  rw [hrel]
  by_cases h0 : h.w.length = 0
  · rw [if_pos h0]
    refine ⟨true, rfl, ?_⟩
    simp only [true_iff]
    rintro ⟨v, hv⟩
    have := hhead v hv
    omega
  · rw [if_neg h0, ha]
    obtain ⟨order, unv, hk, _, hlu, hall⟩ := Graph.kahn_spec B hB a hawf
    simp only [Res.ok_bind, hk, Res.pure_eq]
    refine ⟨_, rfl, ?_⟩
    rw [beq_iff_eq, Prim.sum_eq, natSum_eq_zero_iff]
    constructor
    · rintro hz ⟨v, hv⟩
      have hlt := hhead v hv
      have h1 := (hall v hlt).1.2 ⟨v, hv, Relation.ReflTransGen.refl⟩
      have := hz 1 (List.mem_of_getElem? h1)
      omega
    · intro hac x hx
      obtain ⟨y, hy, rfl⟩ := List.getElem_of_mem hx
      have hy' : y < a.len := hlu ▸ hy
      have hno : ¬ OnOrAfterCycle (Graph.adjDep a) y := fun ⟨c, hc, _⟩ => hac ⟨c, hc⟩
      have := (hall y hy').2.1.2 hno
      rw [List.getElem?_eq_getElem hy] at this
      exact Option.some.inj this

example : vecBackend.Lawful := vecBackend_lawful

/-- a cyclic hypergraph with a repeated incidence and an isolated node (nodes 0,1,2; edges
    `[0,0] → [1]`, `[1] → [0]`): well-formed -/
example : (⟨⟨⟨[2, 1], 4⟩, ⟨[0, 0, 1], 3⟩⟩, ⟨⟨[1, 1], 3⟩, ⟨[1, 0], 3⟩⟩, [7, 8, 9], [5, 6]⟩ :
    HG Nat Nat).wf = true := by decide

end OH.C17
