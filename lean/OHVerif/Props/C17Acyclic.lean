/-
  C17 (acyclicity test) — `is_acyclic` (src/strict/hypergraph/acyclic.rs) returns for every
  well-formed hypergraph and every lawful backend, and answers `true` exactly when no node can
  reach itself along hyperedges (a hyperedge leads from each of its source nodes to each of its
  target nodes).
-/
import OHVerif.Lemmas.Adjacency

namespace OH.C17
open OH OH.Graph OH.Kahn Relation

variable {O A : Type}

theorem transGen_exists_step {r : Nat → Nat → Prop} {a b : Nat} (h : TransGen r a b) :
    ∃ c, r a c := by
  induction h with
  | single h => exact ⟨_, h⟩
  | tail _ _ ih => exact ih

theorem nodeStep_lt (h : HG O A) (hwf : h.wf = true) {v w : Nat}
    (hs : nodeStep (⟨h.w, h.toPlainEdges, [], []⟩ : PDiag O A) v w) : v < h.w.length := by
  obtain ⟨hswf, _, _, _, hst, _⟩ := hg_wf_unpack h hwf
  obtain ⟨e, he, hv, _⟩ := hs
  obtain ⟨x, _, _, hsrc, _⟩ := (mem_toPlainEdges h hwf e).1 he
  rw [← hst]
  exact (mem_segs_getD_lt h.s hswf x v (hsrc ▸ hv)).2

/-- **`is_acyclic`** returns for every well-formed hypergraph, and returns `true` iff the
    hypergraph is acyclic -/
theorem isAcyclic_spec (B : Backend) (hB : B.Lawful) (h : HG O A) (hwf : h.wf = true) :
    ∃ b, isAcyclic B h = .ok b ∧
      (b = true ↔ Acyclic (⟨h.w, h.toPlainEdges, [], []⟩ : PDiag O A)) := by
  by_cases h0 : h.w.length = 0
  · refine ⟨true, by simp [isAcyclic, h0], ?_⟩
    simp only [true_iff]
    rintro ⟨v, hv⟩
    obtain ⟨w, hvw⟩ := transGen_exists_step hv
    have := nodeStep_lt h hwf hvw
    omega
  · obtain ⟨a, ha, haw, halen, _, hdep⟩ := nodeAdjacency_spec B hB h hwf
    have hrel : adjDep a = nodeStep (⟨h.w, h.toPlainEdges, [], []⟩ : PDiag O A) := by
      funext v w
      exact propext (hdep v w)
    obtain ⟨order, unv, hk, _, hul, hspec⟩ := kahn_spec B hB a haw
    rw [hrel, halen] at hspec
    rw [halen] at hul
    refine ⟨Prim.sum unv == 0, ?_, ?_⟩
    · unfold isAcyclic
      rw [if_neg h0, ha, Res.ok_bind, hk]
      rfl
    · rw [beq_iff_eq, Prim.sum_eq, List.sum_eq_zero_iff_forall_eq_nat]
      constructor
      · rintro hall ⟨c, hcc⟩
        obtain ⟨w, hcw⟩ := transGen_exists_step hcc
        have hc := nodeStep_lt h hwf hcw
        have h1 := (hspec c hc).1.2 ⟨c, hcc, ReflTransGen.refl⟩
        have := hall 1 (List.mem_of_getElem? h1)
        omega
      · intro hac x hx
        obtain ⟨y, hy, rfl⟩ := List.getElem_of_mem hx
        have h0' := (hspec y (hul ▸ hy)).2.1.2 (fun ⟨c, hcc, _⟩ => hac ⟨c, hcc⟩)
        rw [List.getElem?_eq_getElem hy] at h0'
        injection h0'

/-- a well-formed hypergraph with five nodes and a cycle through nodes 0 and 1 -/
example : (⟨⟨⟨[1, 1, 1, 0, 1], 5⟩, ⟨[0, 1, 1, 3], 5⟩⟩, ⟨⟨[1, 1, 1, 1, 0], 5⟩, ⟨[1, 0, 2, 3], 5⟩⟩,
    ["a", "b", "c", "d", "e"], ["f", "g", "h", "i", "j"]⟩ : HG String String).wf = true := by
  decide

/-- the empty hypergraph is handled by the early return -/
example (B : Backend) : isAcyclic B (HG.empty : HG String String) = .ok true := rfl

end OH.C17
