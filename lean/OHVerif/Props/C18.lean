/-
  C18 — hypergraph morphisms.

  "A pair of maps on nodes and on hyperedges between two hypergraphs is accepted as a morphism iff
   it preserves node labels and edge labels and sends the ordered source list and the ordered
   target list of every hyperedge elementwise onto those of its image; a rejection names a
   condition that actually fails.  The monomorphism test is true iff both maps are injective."

  Hypotheses throughout (`Hyp m`): source and target hypergraphs deeply well-formed, both tables
  below their stated codomain sizes.  NO typing of the maps against the hypergraphs is assumed:
  `validate` itself checks `m.w.target = |target nodes|` and `m.x.target = |target edges|`
  explicitly, and checks the DOMAIN sizes implicitly (`g.w ≠ cw` compares whole label lists, so
  `m.w.source = |source nodes|` is forced, likewise for `x`); a domain-size mismatch is therefore
  reported as `NotNaturalW` / `NotNaturalX`.

  Third clause (convexity): `isConvexSubgraph_spec`, for every lawful backend.
-/
import OHVerif.Lemmas.Predicates
import OHVerif.Spec.Lawful

namespace OH.C18

open OH.Graph OH.Graph.HArrow

variable {O A : Type}

/-- the plain diagram (no interfaces) of a strict hypergraph -/
def plainOf (h : HG O A) : PDiag O A := ⟨h.w, h.toPlainEdges, [], []⟩

/-- hypotheses of the C18 theorems -/
def Hyp (m : HArrow O A) : Prop :=
  m.source.wf = true ∧ m.target.wf = true ∧ m.w.WF ∧ m.x.WF

theorem Hyp.toWf {m : HArrow O A} (h : Hyp m) : m.Wf :=
  ⟨(HG.wf_iff_Wf _).1 h.1, (HG.wf_iff_Wf _).1 h.2.1, h.2.2.1, h.2.2.2⟩

/-! ## the monomorphism test -/

theorem getD_inj_iff (l : List Nat) :
    l.Nodup ↔ InjOn l.length (fun i => l.getD i 0) := by
  rw [FinFun.nodup_iff_inj]
  unfold InjOn
  constructor
  · intro h i j hi hj hij
    apply h i j hi hj
    simp only [List.getD_eq_getElem?_getD, List.getElem?_eq_getElem hi, List.getElem?_eq_getElem hj,
      Option.getD_some] at hij
    rw [List.getElem?_eq_getElem hi, List.getElem?_eq_getElem hj, hij]
  · intro h i j hi hj hij
    apply h i j hi hj
    rw [List.getElem?_eq_getElem hi, List.getElem?_eq_getElem hj, Option.some.injEq] at hij
    simp only [List.getD_eq_getElem?_getD, List.getElem?_eq_getElem hi, List.getElem?_eq_getElem hj,
      Option.getD_some, hij]

/-- `is_monomorphism` never panics on tables below their codomain and is true iff both the node
    map and the edge map are injective (no typing against the hypergraphs needed). -/
theorem isMonomorphism_spec (m : HArrow O A) (hw : m.w.WF) (hx : m.x.WF) :
    ∃ b, m.isMonomorphism = .ok b ∧
      (b = true ↔ m.w.table.Nodup ∧ m.x.table.Nodup) ∧
      (b = true ↔ InjOn m.w.source m.wFn ∧ InjOn m.x.source m.xFn) := by
  refine ⟨decide m.w.table.Nodup && decide m.x.table.Nodup, ?_, by simp, ?_⟩
  · unfold HArrow.isMonomorphism
    rw [FinFun.isInjective_ok m.w hw, FinFun.isInjective_ok m.x hx]
    by_cases h : m.w.table.Nodup <;> simp [h]
  · rw [Bool.and_eq_true, decide_eq_true_iff, decide_eq_true_iff, getD_inj_iff, getD_inj_iff]
    rfl

example :
    let m : HArrow Nat Nat := ⟨HG.discrete [], HG.discrete [], ⟨[2, 0, 3], 4⟩, ⟨[1, 1], 2⟩⟩
    m.w.WF ∧ m.x.WF ∧ m.isMonomorphism = .ok false := by decide
example :
    let m : HArrow Nat Nat := ⟨HG.discrete [], HG.discrete [], ⟨[2, 0, 3], 4⟩, ⟨[1, 0], 2⟩⟩
    m.w.WF ∧ m.x.WF ∧ m.isMonomorphism = .ok true := by decide

/-! ## validate -/

section
variable [DecidableEq O] [DecidableEq A] (m : HArrow O A)

/-- full characterisation: `validate` returns (never panics, never `none`) the first failing
    condition of the cascade TypedW, NatW, TypedX, NatX, NatS, NatT (`HArrow.verdict`). -/
theorem validate_closed (h : Hyp m) : m.validate = .ok m.verdict := validate_eq h.toWf

theorem validate_never_panics (h : Hyp m) : ∃ r, m.validate = .ok r := ⟨_, validate_closed m h⟩

omit [DecidableEq O] [DecidableEq A] in
theorem verdict_ok_iff :
    m.verdict = .ok () ↔ m.TypedW ∧ m.NatW ∧ m.TypedX ∧ m.NatX ∧ m.NatS ∧ m.NatT := by
  unfold verdict
  by_cases h1 : m.TypedW <;> by_cases h2 : m.NatW <;> by_cases h3 : m.TypedX <;>
    by_cases h4 : m.NatX <;> by_cases h5 : m.NatS <;> by_cases h6 : m.NatT <;>
    simp [h1, h2, h3, h4, h5, h6]

/-- ACCEPTANCE.  `(w, x)` is accepted iff the four domain/codomain sizes are right and the pair is
    a morphism of the plain diagrams: node labels preserved, and every edge `e` of the source has
    an image edge `x e` with the same label whose ordered source / target lists are the elementwise
    images of those of `e`. -/
theorem validate_accept_iff (h : Hyp m) :
    m.validate = .ok (.ok ()) ↔
      (m.w.source = m.source.w.length ∧ m.w.target = m.target.w.length ∧
       m.x.source = m.source.x.length ∧ m.x.target = m.target.x.length ∧
       IsMorphism (plainOf m.source) (plainOf m.target)
         (fun i => m.w.table.getD i 0) (fun e => m.x.table.getD e 0)) := by
  rw [validate_closed m h, Res.ok.injEq, verdict_ok_iff]
  have hm := isMorphism_iff h.toWf
  unfold plainOf
  have e : IsMorphism ⟨m.source.w, m.source.toPlainEdges, [], []⟩
      ⟨m.target.w, m.target.toPlainEdges, [], []⟩
      (fun i => m.w.table.getD i 0) (fun e => m.x.table.getD e 0) ↔ _ := hm
  rw [e]
  unfold NatW NatX TypedW TypedX
  constructor
  · rintro ⟨a, ⟨b1, b2⟩, c, ⟨d1, d2⟩, e, f⟩
    exact ⟨b1, a, d1, c, b2, d2, e, f⟩
  · rintro ⟨b1, a, d1, c, b2, d2, e, f⟩
    exact ⟨a, ⟨b1, b2⟩, c, ⟨d1, d2⟩, e, f⟩

/-- the condition an error variant names -/
def Named : ArrowErr → Prop
  | .typeMismatchW => m.TypedW
  | .notNaturalW => m.NatW
  | .typeMismatchX => m.TypedX
  | .notNaturalX => m.NatX
  | .notNaturalS => m.NatS
  | .notNaturalT => m.NatT

/-- the conditions checked before the one an error variant names -/
def Earlier : ArrowErr → Prop
  | .typeMismatchW => True
  | .notNaturalW => m.TypedW
  | .typeMismatchX => m.TypedW ∧ m.NatW
  | .notNaturalX => m.TypedW ∧ m.NatW ∧ m.TypedX
  | .notNaturalS => m.TypedW ∧ m.NatW ∧ m.TypedX ∧ m.NatX
  | .notNaturalT => m.TypedW ∧ m.NatW ∧ m.TypedX ∧ m.NatX ∧ m.NatS

omit [DecidableEq O] [DecidableEq A] in
theorem verdict_error_iff (e : ArrowErr) :
    m.verdict = .error e ↔ Earlier m e ∧ ¬ Named m e := by
  unfold verdict
  by_cases h1 : m.TypedW <;> by_cases h2 : m.NatW <;> by_cases h3 : m.TypedX <;>
    by_cases h4 : m.NatX <;> by_cases h5 : m.NatS <;> by_cases h6 : m.NatT <;>
    cases e <;> simp [h1, h2, h3, h4, h5, h6, Named, Earlier]

/-- REJECTION.  `validate` rejects with `e` iff the condition named by `e` fails and all the
    conditions checked before it hold; in particular the named condition actually fails. -/
theorem validate_reject_iff (h : Hyp m) (e : ArrowErr) :
    m.validate = .ok (.error e) ↔ Earlier m e ∧ ¬ Named m e := by
  rw [validate_closed m h, Res.ok.injEq, verdict_error_iff]

theorem validate_reject_named (h : Hyp m) (e : ArrowErr) (hr : m.validate = .ok (.error e)) :
    ¬ Named m e :=
  ((validate_reject_iff m h e).1 hr).2

/-! ### the six variants spelled out -/

theorem reject_typeMismatchW (h : Hyp m) :
    m.validate = .ok (.error .typeMismatchW) ↔ m.w.target ≠ m.target.w.length := by
  rw [validate_reject_iff m h]; simp [Named, Earlier, TypedW]

/-- `NotNaturalW`: typed, but the node map has the wrong number of entries or some node's label is
    not preserved -/
theorem reject_notNaturalW (h : Hyp m) :
    m.validate = .ok (.error .notNaturalW) ↔
      m.w.target = m.target.w.length ∧
      (m.w.source ≠ m.source.w.length ∨
        ∃ i, i < m.source.w.length ∧ m.target.w[m.wFn i]? ≠ m.source.w[i]?) := by
  rw [validate_reject_iff m h]
  simp only [Named, Earlier, TypedW, NatW, not_and, Classical.not_forall, exists_prop]
  constructor
  · rintro ⟨a, b⟩
    refine ⟨a, ?_⟩
    by_cases hs : m.w.source = m.source.w.length
    · exact Or.inr (b hs)
    · exact Or.inl hs
  · rintro ⟨a, b | b⟩
    · exact ⟨a, fun hs => absurd hs b⟩
    · exact ⟨a, fun _ => b⟩

theorem reject_typeMismatchX (h : Hyp m) :
    m.validate = .ok (.error .typeMismatchX) ↔
      m.TypedW ∧ m.NatW ∧ m.x.target ≠ m.target.x.length := by
  rw [validate_reject_iff m h]; simp [Named, Earlier, TypedX, and_assoc]

theorem reject_notNaturalX (h : Hyp m) :
    m.validate = .ok (.error .notNaturalX) ↔
      m.TypedW ∧ m.NatW ∧ m.x.target = m.target.x.length ∧
      (m.x.source ≠ m.source.x.length ∨
        ∃ e, e < m.source.x.length ∧ m.target.x[m.xFn e]? ≠ m.source.x[e]?) := by
  rw [validate_reject_iff m h]
  simp only [Named, Earlier, TypedX, NatX, not_and, Classical.not_forall, exists_prop, and_assoc]
  constructor
  · rintro ⟨a, a', c, b⟩
    refine ⟨a, a', c, ?_⟩
    by_cases hs : m.x.source = m.source.x.length
    · exact Or.inr (b hs)
    · exact Or.inl hs
  · rintro ⟨a, a', c, b | b⟩
    · exact ⟨a, a', c, fun hs => absurd hs b⟩
    · exact ⟨a, a', c, fun _ => b⟩

/-- `NotNaturalS`: everything before holds (so the re-indexing IS defined: on well-formed
    hypergraphs the `None` branches of `map_values` / `map_indexes` are unreachable at this point)
    and some edge's ordered source list is not mapped elementwise onto that of its image. -/
theorem reject_notNaturalS (h : Hyp m) :
    m.validate = .ok (.error .notNaturalS) ↔
      m.TypedW ∧ m.NatW ∧ m.TypedX ∧ m.NatX ∧
      ∃ e, e < m.source.x.length ∧
        m.target.s.segs[m.xFn e]? ≠ (m.source.s.segs[e]?).map (·.map m.wFn) := by
  rw [validate_reject_iff m h]
  simp only [Named, Earlier, NatS, Classical.not_forall, exists_prop, and_assoc]

theorem reject_notNaturalT (h : Hyp m) :
    m.validate = .ok (.error .notNaturalT) ↔
      m.TypedW ∧ m.NatW ∧ m.TypedX ∧ m.NatX ∧ m.NatS ∧
      ∃ e, e < m.source.x.length ∧
        m.target.t.segs[m.xFn e]? ≠ (m.source.t.segs[e]?).map (·.map m.wFn) := by
  rw [validate_reject_iff m h]
  simp only [Named, Earlier, NatT, Classical.not_forall, exists_prop, and_assoc]

/-- plain-diagram reading of `NotNaturalS`: there is an edge `e` of the source, with image edge
    `x e` in the target (it exists and carries the same label, as `NotNaturalX` did not fire),
    whose ordered source list is NOT the elementwise image of that of `e`. -/
theorem reject_notNaturalS_plain (h : Hyp m) (hr : m.validate = .ok (.error .notNaturalS)) :
    ∃ e ge he, (plainOf m.source).edges[e]? = some ge ∧
      (plainOf m.target).edges[m.xFn e]? = some he ∧ he.label = ge.label ∧
      he.src ≠ ge.src.map m.wFn := by
  obtain ⟨_, _, _, nx, e, hlt, hne⟩ := (reject_notNaturalS m h).1 hr
  have hW := h.toWf
  have h1 : e < m.source.s.segs.length := by rw [IC.segs_length, hW.source.slen]; exact hlt
  have h2 : e < m.source.t.segs.length := by rw [IC.segs_length, hW.source.tlen]; exact hlt
  have hx := nx.2 e hlt
  rw [List.getElem?_eq_getElem hlt] at hx
  have hxe : m.xFn e < m.target.x.length := (List.getElem?_eq_some_iff.1 hx).1
  have h3 : m.xFn e < m.target.s.segs.length := by rw [IC.segs_length, hW.target.slen]; exact hxe
  have h4 : m.xFn e < m.target.t.segs.length := by rw [IC.segs_length, hW.target.tlen]; exact hxe
  refine ⟨e, ⟨m.source.x[e], m.source.s.segs[e], m.source.t.segs[e]⟩,
    ⟨m.source.x[e], m.target.s.segs[m.xFn e], m.target.t.segs[m.xFn e]⟩, ?_, ?_, rfl, ?_⟩
  · exact (HG.toPlainEdges_getElem?_eq_some _ _ _).2
      ⟨List.getElem?_eq_getElem hlt, List.getElem?_eq_getElem h1, List.getElem?_eq_getElem h2⟩
  · exact (HG.toPlainEdges_getElem?_eq_some _ _ _).2
      ⟨hx, List.getElem?_eq_getElem h3, List.getElem?_eq_getElem h4⟩
  · intro heq
    apply hne
    rw [List.getElem?_eq_getElem h3, List.getElem?_eq_getElem h1]
    exact congrArg some heq

theorem reject_notNaturalT_plain (h : Hyp m) (hr : m.validate = .ok (.error .notNaturalT)) :
    ∃ e ge he, (plainOf m.source).edges[e]? = some ge ∧
      (plainOf m.target).edges[m.xFn e]? = some he ∧ he.label = ge.label ∧
      he.src = ge.src.map m.wFn ∧ he.tgt ≠ ge.tgt.map m.wFn := by
  obtain ⟨_, _, _, nx, ns, e, hlt, hne⟩ := (reject_notNaturalT m h).1 hr
  have hW := h.toWf
  have h1 : e < m.source.s.segs.length := by rw [IC.segs_length, hW.source.slen]; exact hlt
  have h2 : e < m.source.t.segs.length := by rw [IC.segs_length, hW.source.tlen]; exact hlt
  have hx := nx.2 e hlt
  rw [List.getElem?_eq_getElem hlt] at hx
  have hxe : m.xFn e < m.target.x.length := (List.getElem?_eq_some_iff.1 hx).1
  have h3 : m.xFn e < m.target.s.segs.length := by rw [IC.segs_length, hW.target.slen]; exact hxe
  have h4 : m.xFn e < m.target.t.segs.length := by rw [IC.segs_length, hW.target.tlen]; exact hxe
  have hs := ns e hlt
  rw [List.getElem?_eq_getElem h3, List.getElem?_eq_getElem h1] at hs
  refine ⟨e, ⟨m.source.x[e], m.source.s.segs[e], m.source.t.segs[e]⟩,
    ⟨m.source.x[e], m.target.s.segs[m.xFn e], m.target.t.segs[m.xFn e]⟩, ?_, ?_, rfl,
    Option.some.inj hs, ?_⟩
  · exact (HG.toPlainEdges_getElem?_eq_some _ _ _).2
      ⟨List.getElem?_eq_getElem hlt, List.getElem?_eq_getElem h1, List.getElem?_eq_getElem h2⟩
  · exact (HG.toPlainEdges_getElem?_eq_some _ _ _).2
      ⟨hx, List.getElem?_eq_getElem h3, List.getElem?_eq_getElem h4⟩
  · intro heq
    apply hne
    rw [List.getElem?_eq_getElem h4, List.getElem?_eq_getElem h2]
    exact congrArg some heq

/-- every rejection refutes the acceptance condition (soundness of rejection as a whole) -/
theorem reject_not_morphism (h : Hyp m) (e : ArrowErr) (hr : m.validate = .ok (.error e)) :
    ¬ (m.w.source = m.source.w.length ∧ m.w.target = m.target.w.length ∧
       m.x.source = m.source.x.length ∧ m.x.target = m.target.x.length ∧
       IsMorphism (plainOf m.source) (plainOf m.target)
         (fun i => m.w.table.getD i 0) (fun e => m.x.table.getD e 0)) := by
  rw [← validate_accept_iff m h, hr]
  intro hc
  cases hc

end

/-! ### witnesses -/

/-- `g`: nodes `[7, 8]`, one edge `5 : [0] → [1]`;
    `k`: nodes `[7, 8, 7]`, edges `5 : [0] → [1]`, `5 : [1, 1] → [2]` (repeated incidence). -/
def g : HG Nat Nat := ⟨⟨⟨[1], 2⟩, ⟨[0], 2⟩⟩, ⟨⟨[1], 2⟩, ⟨[1], 2⟩⟩, [7, 8], [5]⟩
def k : HG Nat Nat := ⟨⟨⟨[1, 2], 4⟩, ⟨[0, 1, 1], 3⟩⟩, ⟨⟨[1, 1], 3⟩, ⟨[1, 2], 3⟩⟩, [7, 8, 7], [5, 5]⟩

def mOk : HArrow Nat Nat := ⟨g, k, ⟨[0, 1], 3⟩, ⟨[0], 2⟩⟩
def mBadS : HArrow Nat Nat := ⟨g, k, ⟨[0, 1], 3⟩, ⟨[1], 2⟩⟩
def mBadW : HArrow Nat Nat := ⟨g, k, ⟨[1, 0], 3⟩, ⟨[0], 2⟩⟩
def mShort : HArrow Nat Nat := ⟨g, k, ⟨[0], 3⟩, ⟨[0], 2⟩⟩
def mTypeX : HArrow Nat Nat := ⟨g, k, ⟨[0, 1], 3⟩, ⟨[0], 5⟩⟩

example : Hyp mOk ∧ Hyp mBadS ∧ Hyp mBadW ∧ Hyp mShort ∧ Hyp mTypeX := by
  simp only [Hyp]; decide

example : mOk.validate = .ok (.ok ()) := by rfl
example : mBadS.validate = .ok (.error .notNaturalS) := by rfl
example : mBadW.validate = .ok (.error .notNaturalW) := by rfl
/-- a domain-size mismatch (one entry for two nodes) is reported as `NotNaturalW` -/
example : mShort.validate = .ok (.error .notNaturalW) := by rfl
example : mTypeX.validate = .ok (.error .typeMismatchX) := by rfl

/-! ## convexity -/

/-- CONVEXITY.  For every lawful backend, on well-formed hypergraphs and a pair of maps typed
    against them (domains and codomains of the right sizes — `validate` enforces exactly these),
    `is_convex_subgraph` returns an answer (no panic — in particular the `2n + 2` round budget of
    the search is never exhausted — and not `none`), and the answer is `true` iff both maps are
    injective and no directed path of the target that uses at least one hyperedge outside the
    image leads from an image node to an image node. -/
theorem isConvexSubgraph_spec (B : Backend) (hB : B.Lawful) (m : HArrow O A) (h : Hyp m)
    (h1 : m.w.source = m.source.w.length) (h2 : m.w.target = m.target.w.length)
    (h3 : m.x.source = m.source.x.length) (h4 : m.x.target = m.target.x.length) :
    ∃ b, m.isConvexSubgraph B = .ok b ∧
      (b = true ↔ Convex (plainOf m.source) (plainOf m.target) m.wFn m.xFn) :=
  HArrow.isConvexSubgraph_spec B hB m h.toWf h1 h2 h3 h4

example : vecBackend.Lawful := vecBackend_lawful
example : Hyp mOk ∧ mOk.w.source = mOk.source.w.length ∧ mOk.w.target = mOk.target.w.length ∧
    mOk.x.source = mOk.source.x.length ∧ mOk.x.target = mOk.target.x.length := by
  simp only [Hyp]; decide

/-- the typing hypotheses are needed: with an edge map whose stated codomain is not the target's
    edge count the re-indexing `map_indexes` is undefined and the `unwrap` panics -/
example : Hyp mTypeX ∧
    (∃ s, mTypeX.isConvexSubgraph vecBackend = .panic s) := by
  refine ⟨by simp only [Hyp]; decide, "convex:unwrap-s-in", by rfl⟩

end OH.C18
