/-
  C19 — forgetting `Var` operations (src/lax/var/forget.rs): `all_elements_equal` (repaired),
  `Forget::map_operation`, `ForgetMonogamous::map_operation`.
-/
import OHVerif.Model.Functor
import OHVerif.Lemmas.Segs

namespace OH.C19
open OH

variable {O A T : Type}

/-! ### `all_elements_equal` -/

/-- the repaired `all_elements_equal`: true iff every two elements of the concatenation agree -/
theorem allElementsEqual_iff [DecidableEq T] (a b : List T) :
    Var.allElementsEqual a b = true ↔ ∀ x ∈ a ++ b, ∀ y ∈ a ++ b, x = y := by
  unfold Var.allElementsEqual
  cases h : a ++ b with
  | nil => simp
  | cons x rest =>
    simp only [List.all_eq_true, decide_eq_true_eq, List.mem_cons]
    constructor
    · intro hall u hu v hv
      have hu' : u = x := by rcases hu with rfl | hu; rfl; exact hall u hu
      have hv' : v = x := by rcases hv with rfl | hv; rfl; exact hall v hv
      rw [hu', hv']
    · intro hall u hu
      exact hall u (Or.inr hu) x (Or.inl rfl)

/-- the previously failing input (`a` empty, `b` with two different labels) -/
example : Var.allElementsEqual ([] : List Nat) [1, 2] = false := by decide
example : Var.allElementsEqual ([] : List Nat) [2, 2] = true := by decide
example : Var.allElementsEqual [3] ([3, 3] : List Nat) = true := by decide
example : Var.allElementsEqual [3] ([3, 4] : List Nat) = false := by decide

/-- equivalent form: all elements equal a common label `l`, the head of `a ++ b` -/
theorem allElementsEqual_head [DecidableEq T] (a b : List T) (l : T) (rest : List T)
    (h : a ++ b = l :: rest) :
    Var.allElementsEqual a b = true ↔ ∀ x ∈ a ++ b, x = l := by
  rw [allElementsEqual_iff]
  constructor
  · intro hall x hx
    exact hall x hx l (by rw [h]; simp)
  · intro hall x hx y hy
    rw [hall x hx, hall y hy]

/-! ### structure of `singleton` -/

theorem newNodes_eq (h : LHG O A) (ts : List O) :
    h.newNodes ts = ({ h with nodes := h.nodes ++ ts }, List.range' h.nodes.length ts.length) := by
  induction ts generalizing h with
  | nil => simp [LHG.newNodes]
  | cons t ts ih =>
    simp only [LHG.newNodes, LHG.newNode, ih, List.length_append, List.length_cons, List.length_nil,
      List.append_assoc, List.cons_append, List.nil_append, List.range'_succ]

/-- `singleton x s t`: the nodes are `s ++ t`, one edge from the first `|s|` to the last `|t|` nodes -/
theorem singleton_eq (x : A) (s t : List O) :
    (LOHG.singleton x s t : LOHG O A) =
      ⟨List.range s.length, List.range' s.length t.length,
       ⟨s ++ t, [x], [⟨List.range s.length, List.range' s.length t.length⟩], ([], [])⟩⟩ := by
  simp [LOHG.singleton, LHG.newOperation, newNodes_eq, LHG.newEdge, LHG.empty, List.range_eq_range']

theorem get_eq_ok {α : Type} (xs : List α) (i : Nat) (h : i < xs.length) :
    Prim.get xs i = .ok xs[i] := by
  simp [Prim.get, Res.ofOption, List.getElem?_eq_getElem h]

theorem mapM_get {α : Type} (xs : List α) (idx : List Nat) (ys : List α)
    (h : idx.map (fun i => xs[i]?) = ys.map some) :
    idx.mapM (fun i => Prim.get xs i) = .ok ys := by
  induction idx generalizing ys with
  | nil => cases ys <;> simp_all
  | cons i idx ih =>
    cases ys with
    | nil => simp at h
    | cons y ys =>
      simp only [List.map_cons, List.cons.injEq] at h
      rw [List.mapM_cons, ih ys h.2]
      simp [Prim.get, h.1, Res.ofOption]

theorem mapM_get_range' {α : Type} (pre xs post : List α) :
    (List.range' pre.length xs.length).mapM (fun i => Prim.get (pre ++ xs ++ post) i) = .ok xs := by
  apply mapM_get
  apply List.ext_getElem?
  intro i
  by_cases hi : i < xs.length
  · simp [hi, List.getElem?_append_right, List.getElem?_append_left]
  · simp [hi]

/-- the type of a `singleton` is the type it was built from -/
theorem singleton_type (x : A) (s t : List O) :
    (LOHG.singleton x s t : LOHG O A).wf = true ∧
    (LOHG.singleton x s t : LOHG O A).source = .ok s ∧
    (LOHG.singleton x s t : LOHG O A).target = .ok t := by
  rw [singleton_eq]
  refine ⟨?_, ?_, ?_⟩
  · simp [LOHG.wf, LHG.wf, List.mem_range'_1]
    intros; omega
  · simp only [LOHG.source, List.range_eq_range']
    have := mapM_get_range' ([] : List O) s t
    simpa using this
  · simp only [LOHG.target]
    have := mapM_get_range' s t ([] : List O)
    simpa using this

/-! ### the spider replacing a variable edge -/

/-- the one-node spider `m → 1 ← n` labelled `l` -/
def oneNodeSpider (m n : Nat) (l : O) : LOHG O A :=
  ⟨List.replicate m 0, List.replicate n 0, ⟨[l], [], [], ([], [])⟩⟩

theorem oneNodeSpider_wf (m n : Nat) (l : O) : (oneNodeSpider m n l : LOHG O A).wf = true := by
  simp [oneNodeSpider, LOHG.wf, LHG.wf]

theorem oneNodeSpider_source (m n : Nat) (l : O) :
    (oneNodeSpider m n l : LOHG O A).source = .ok (List.replicate m l) := by
  simp only [oneNodeSpider, LOHG.source]
  apply mapM_get
  simp

theorem oneNodeSpider_target (m n : Nat) (l : O) :
    (oneNodeSpider m n l : LOHG O A).target = .ok (List.replicate n l) := by
  simp only [oneNodeSpider, LOHG.target]
  apply mapM_get
  simp

/-! ### `Forget::map_operation` -/

section forget
variable [DecidableEq O] [DecidableEq A]

/-- exact case analysis of `Forget::map_operation`.
    (i) a variable edge `0 → 0` becomes the empty diagram;
    (ii) a variable edge whose `m` sources and `n` targets all carry the same label `l`
         (the head of `s ++ t`), not both empty, becomes the one-node spider `m → 1 ← n` labelled `l`
         — the `target[0]`/`source[0]` index and the `spider(..).unwrap()` never panic;
    (iii) every other operation is left intact. -/
theorem forgetOperation_cases (var a : A) (s t : List O) :
    (a = var → s = [] → t = [] → Var.forgetOperation var a s t = .ok LOHG.empty) ∧
    (∀ l rest, a = var → s ++ t = l :: rest → (∀ x ∈ s ++ t, x = l) →
        Var.forgetOperation var a s t = .ok (oneNodeSpider s.length t.length l)) ∧
    (¬ (a = var ∧ ∀ x ∈ s ++ t, ∀ y ∈ s ++ t, x = y) →
        Var.forgetOperation var a s t = .ok (LOHG.singleton a s t)) := by
  refine ⟨?_, ?_, ?_⟩
  · rintro rfl rfl rfl
    simp [Var.forgetOperation, Var.allElementsEqual]
  · intro l rest ha hst hall
    have heq : Var.allElementsEqual s t = true := (allElementsEqual_head s t l rest hst).2 hall
    unfold Var.forgetOperation
    rw [if_pos ⟨ha, heq⟩]
    cases s with
    | nil =>
      cases t with
      | nil => simp at hst
      | cons y t =>
        simp only [List.nil_append, List.cons.injEq] at hst
        simp [LOHG.spider, FinFun.terminal, oneNodeSpider, LHG.discrete, LHG.empty, hst.1]
    | cons y s =>
      simp only [List.cons_append, List.cons.injEq] at hst
      simp [LOHG.spider, FinFun.terminal, oneNodeSpider, LHG.discrete, LHG.empty, hst.1]
  · intro h
    unfold Var.forgetOperation
    rw [if_neg]
    rw [allElementsEqual_iff]
    exact h

/-- the three cases are exhaustive, so `Forget::map_operation` never panics and never returns `None` -/
theorem forget_never_panics_on_operations (var a : A) (s t : List O) :
    ∃ r, Var.forgetOperation var a s t = .ok r := by
  obtain ⟨h1, h2, h3⟩ := forgetOperation_cases var a s t
  by_cases h : a = var ∧ ∀ x ∈ s ++ t, ∀ y ∈ s ++ t, x = y
  · cases hst : s ++ t with
    | nil =>
      simp only [List.append_eq_nil_iff] at hst
      exact ⟨_, h1 h.1 hst.1 hst.2⟩
    | cons l rest =>
      refine ⟨_, h2 l rest h.1 hst (fun x hx => h.2 x hx l ?_)⟩
      rw [hst]; simp
  · exact ⟨_, h3 h⟩

/-- `Forget::map_operation` preserves the type of the operation it is applied to: in every case the
    image is a well-formed lax open hypergraph with source type `s` and target type `t`. -/
theorem forgetOperation_type (var a : A) (s t : List O) :
    ∃ r, Var.forgetOperation var a s t = .ok r ∧ r.wf = true ∧ r.source = .ok s ∧ r.target = .ok t := by
  obtain ⟨h1, h2, h3⟩ := forgetOperation_cases var a s t
  by_cases h : a = var ∧ ∀ x ∈ s ++ t, ∀ y ∈ s ++ t, x = y
  · cases hst : s ++ t with
    | nil =>
      simp only [List.append_eq_nil_iff] at hst
      refine ⟨_, h1 h.1 hst.1 hst.2, ?_⟩
      rw [hst.1, hst.2]
      exact ⟨rfl, rfl, rfl⟩
    | cons l rest =>
      have hall : ∀ x ∈ s ++ t, x = l := fun x hx => h.2 x hx l (by rw [hst]; simp)
      refine ⟨_, h2 l rest h.1 hst hall, oneNodeSpider_wf _ _ _, ?_, ?_⟩
      · rw [oneNodeSpider_source]
        congr 1
        apply List.ext_getElem (by simp)
        intro i h1 h2
        simp only [List.getElem_replicate]
        exact (hall _ (List.mem_append_left _ (List.getElem_mem h2))).symm
      · rw [oneNodeSpider_target]
        congr 1
        apply List.ext_getElem (by simp)
        intro i h1 h2
        simp only [List.getElem_replicate]
        exact (hall _ (List.mem_append_right _ (List.getElem_mem h2))).symm
  · exact ⟨_, h3 h, singleton_type a s t⟩

example : Var.forgetOperation (O := Nat) (A := Nat) 0 0 [7, 7] [7] = .ok (oneNodeSpider 2 1 7) := by decide
example : Var.forgetOperation (O := Nat) (A := Nat) 0 0 [] [7, 7] = .ok (oneNodeSpider 0 2 7) := by decide
example : Var.forgetOperation (O := Nat) (A := Nat) 0 0 [] [] = .ok LOHG.empty := by decide
example : Var.forgetOperation (O := Nat) (A := Nat) 0 0 [] [1, 2] = .ok (LOHG.singleton 0 [] [1, 2]) := by
  decide
example : Var.forgetOperation (O := Nat) (A := Nat) 0 5 [7] [7] = .ok (LOHG.singleton 5 [7] [7]) := by
  decide

/-! ### `ForgetMonogamous::map_operation` -/

/-- only the `1 → 1` variable edges with equal source and target label are replaced (by the identity
    wire on one node); every other operation — in particular every variable edge of another arity —
    is left intact. -/
theorem forgetMonogamousOperation_cases (var a : A) (s t : List O) :
    (∀ x, a = var → s = [x] → t = [x] →
        Var.forgetMonogamousOperation var a s t = .ok (oneNodeSpider 1 1 x)) ∧
    (¬ (∃ x, a = var ∧ s = [x] ∧ t = [x]) →
        Var.forgetMonogamousOperation var a s t = .ok (LOHG.singleton a s t)) := by
  obtain ⟨_, h2, h3⟩ := forgetOperation_cases var a s t
  refine ⟨?_, ?_⟩
  · rintro x ha rfl rfl
    unfold Var.forgetMonogamousOperation
    rw [if_neg (by simp)]
    exact h2 x [x] ha rfl (by simp)
  · intro hne
    unfold Var.forgetMonogamousOperation
    split
    · rfl
    · rename_i hlen
      have hs : s.length = 1 := by omega
      have ht : t.length = 1 := by omega
      obtain ⟨x, rfl⟩ := List.length_eq_one_iff.1 hs
      obtain ⟨y, rfl⟩ := List.length_eq_one_iff.1 ht
      apply h3
      rintro ⟨ha, hall⟩
      apply hne
      refine ⟨x, ha, rfl, ?_⟩
      rw [hall y (by simp) x (by simp)]

theorem forgetMonogamousOperation_type (var a : A) (s t : List O) :
    ∃ r, Var.forgetMonogamousOperation var a s t = .ok r ∧ r.wf = true ∧ r.source = .ok s ∧
      r.target = .ok t := by
  unfold Var.forgetMonogamousOperation
  split
  · exact ⟨_, rfl, singleton_type a s t⟩
  · exact forgetOperation_type var a s t

example : Var.forgetMonogamousOperation (O := Nat) (A := Nat) 0 0 [7] [7] = .ok (oneNodeSpider 1 1 7) := by
  decide
example : Var.forgetMonogamousOperation (O := Nat) (A := Nat) 0 0 [7, 7] [7] =
    .ok (LOHG.singleton 0 [7, 7] [7]) := by decide
example : Var.forgetMonogamousOperation (O := Nat) (A := Nat) 0 0 [7] [8] =
    .ok (LOHG.singleton 0 [7] [8]) := by decide

end forget

end OH.C19
