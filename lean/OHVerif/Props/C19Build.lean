/-
  C19 (first clause) — the term built through the variable and operator interface
  (src/lax/var/var.rs `Var::new / new_source / new_target / build`, operators.rs `operation`;
  model: Model/VarBuild.lean).

  "A term built through the variable and operator interface contains one hyperedge per applied
   operator, wired so that every use of a variable reads the value produced for it, with the declared
   inputs and outputs as interfaces in order; variable edges uniformly labelled."

  Organisation
    Part 0  low-level abstract states `concH kinds log labs` and the closed form of the four
            primitive builder calls on them;
    Part A  abstract builder states `AS` (edge kinds, variable handles, node log), the invariant
            `Good`, the symbolic execution `symStep`, and `build_sym`: the machine computes
            `builtTerm`;
    (`varBuildProg inLabels prog outs`: one input variable per entry of `inLabels`, carrying that
     entry as its node label; `nIn := inLabels.length`.)
    Part B  closed-form vocabulary (`varLabels`, `edgeLabels`, `varEdge`, `opEdge`, `nodeVars`,
            `nodeIsSrc`, `nodeBase`, `varBase`), `WellScoped`, and the headline theorems
              `build_ok`, `build_panics`, `build_ok_iff`   — the builder returns iff well scoped;
              `build_shape`                                 — the full closed form of the result;
              `node_unique_var_edge`, `node_atmost_one_op`, `var_edge_one_source`,
              `var_edge_uniform`, `var_edge_labels`, `forget_replaces_var_edges`,
              `varEdge_inj`, `opEdge_inj`, `varEdge_ne_opEdge`, `edge_cover`.
    Part C  the boundary type of the built term (`built_type`) and `forget` applied to it
            (`forget_built_ok_type`, through C12's typing theorem for `DynFunctor`).
-/
import OHVerif.Props.C19
import OHVerif.Props.C11
import OHVerif.Lemmas.LaxEdit
import OHVerif.Model.VarBuild
import OHVerif.Props.C12Type

namespace OH.C19
open OH OH.VarB OH.LaxEdit

/-! ## Part 0: low-level abstract states -/

/-- positions (increasing) of the entry `(e, b)` in a log -/
def pos (log : List (Nat × Bool)) (e : Nat) (b : Bool) : List Nat :=
  (List.range log.length).filter (fun n => decide (log[n]? = some (e, b)))

theorem pos_snoc (log : List (Nat × Bool)) (x : Nat × Bool) (e : Nat) (b : Bool) :
    pos (log ++ [x]) e b = pos log e b ++ (if x = (e, b) then [log.length] else []) := by
  unfold pos
  rw [List.length_append, List.length_singleton, List.range_succ, List.filter_append]
  congr 1
  · apply List.filter_congr
    intro n hn
    have := List.mem_range.1 hn
    rw [List.getElem?_append_left this]
  · by_cases h : x = (e, b) <;> simp [h]

theorem pos_lt (log : List (Nat × Bool)) (e : Nat) (b : Bool) : ∀ n ∈ pos log e b, n < log.length := by
  intro n hn
  exact List.mem_range.1 (List.mem_filter.1 hn).1

theorem pos_eq_nil (log : List (Nat × Bool)) (e : Nat) (b : Bool) (h : ∀ x ∈ log, x.1 ≠ e) :
    pos log e b = [] := by
  unfold pos
  rw [List.filter_eq_nil_iff]
  intro n hn
  have hl := List.mem_range.1 hn
  simp only [decide_eq_true_eq]
  intro hc
  exact h _ (List.mem_of_getElem? hc) rfl

/-- kind of an edge: its label, and for operator edges the hyperedge it was created with -/
abbrev Kind := Nat × Option LEdge

def adjEntry (log : List (Nat × Bool)) (e : Nat) (k : Kind) : LEdge :=
  match k.2 with
  | some ed => ed
  | none => ⟨pos log e true, pos log e false⟩

def concH (kinds : List Kind) (log : List (Nat × Bool)) (labs : List Nat) : LHG Nat Nat :=
  ⟨labs, kinds.map (·.1), kinds.mapIdx (fun e k => adjEntry log e k), ([], [])⟩

theorem concH_adj_getElem? (kinds : List Kind) (log : List (Nat × Bool)) (labs : List Nat) (e : Nat) :
    (concH kinds log labs).adjacency[e]? = kinds[e]?.map (adjEntry log e) := by
  simp [concH, List.getElem?_mapIdx]

theorem varNew_concH (kinds : List Kind) (log : List (Nat × Bool)) (labs : List Nat) (s t : List Nat)
    (l : Nat) (hlog : ∀ x ∈ log, x.1 < kinds.length) :
    varNew ⟨s, t, concH kinds log labs⟩ l =
      (⟨s, t, concH (kinds ++ [(99, none)]) log labs⟩, ⟨kinds.length, l⟩) := by
  unfold varNew
  rw [newOperation_eq]
  have h1 : ∀ b, pos log kinds.length b = [] := fun b =>
    pos_eq_nil log _ b (fun x hx => Nat.ne_of_lt (hlog x hx))
  simp [concH, List.mapIdx_append, adjEntry, h1]

theorem adjEntry_snoc_var (log : List (Nat × Bool)) (x : Nat × Bool) (e : Nat) (l : Nat) :
    adjEntry (log ++ [x]) e (l, none) =
      ⟨pos log e true ++ (if x = (e, true) then [log.length] else []),
       pos log e false ++ (if x = (e, false) then [log.length] else [])⟩ := by
  simp [adjEntry, pos_snoc]

theorem adjEntry_op (log : List (Nat × Bool)) (e : Nat) (l : Nat) (ed : LEdge) :
    adjEntry log e (l, some ed) = ed := rfl

theorem adjEntry_snoc_ne (log : List (Nat × Bool)) (x : Nat × Bool) (e : Nat) (k : Kind)
    (h : x.1 ≠ e) : adjEntry (log ++ [x]) e k = adjEntry log e k := by
  obtain ⟨l, o⟩ := k
  cases o with
  | some ed => rfl
  | none =>
    rw [adjEntry_snoc_var]
    have h1 : ∀ b, x ≠ (e, b) := by
      intro b hc; apply h; rw [hc]
    simp [adjEntry, h1]

theorem varNewSource_concH (kinds : List Kind) (log : List (Nat × Bool)) (labs : List Nat)
    (s t : List Nat) (e l lab : Nat) (hk : kinds[e]? = some (lab, none)) (hlen : labs.length = log.length) :
    varNewSource ⟨s, t, concH kinds log labs⟩ ⟨e, l⟩ =
      .ok (⟨s, t, concH kinds (log ++ [(e, true)]) (labs ++ [l])⟩, log.length) := by
  have he : e < kinds.length := (List.getElem?_eq_some_iff.1 hk).1
  have he' : e < (concH kinds log labs).adjacency.length := by simp [concH, he]
  unfold varNewSource
  simp only
  rw [addEdgeSource_ok _ e l he']
  simp only [Res.bind, concH, Res.ok.injEq, Prod.mk.injEq, LOHG.mk.injEq, LHG.mk.injEq, true_and, and_true]
  refine ⟨?_, hlen⟩
  apply List.ext_getElem?
  intro i
  by_cases hi : i = e
  · subst hi
    have hke : kinds[i] = (lab, none) := (List.getElem?_eq_some_iff.1 hk).2
    simp [he, hke, adjEntry, hlen, pos_snoc]
  · rw [List.getElem?_set_ne (Ne.symm hi)]
    simp only [List.getElem?_mapIdx]
    cases hki : kinds[i]? with
    | none => rfl
    | some k =>
      simp only [Option.map_some]
      rw [adjEntry_snoc_ne _ _ _ _ (Ne.symm hi)]

theorem varNewTarget_concH (kinds : List Kind) (log : List (Nat × Bool)) (labs : List Nat)
    (s t : List Nat) (e l lab : Nat) (hk : kinds[e]? = some (lab, none)) (hlen : labs.length = log.length) :
    varNewTarget ⟨s, t, concH kinds log labs⟩ ⟨e, l⟩ =
      .ok (⟨s, t, concH kinds (log ++ [(e, false)]) (labs ++ [l])⟩, log.length) := by
  have he : e < kinds.length := (List.getElem?_eq_some_iff.1 hk).1
  have he' : e < (concH kinds log labs).adjacency.length := by simp [concH, he]
  unfold varNewTarget
  simp only
  rw [addEdgeTarget_ok _ e l he']
  simp only [Res.bind, concH, Res.ok.injEq, Prod.mk.injEq, LOHG.mk.injEq, LHG.mk.injEq, true_and, and_true]
  refine ⟨?_, hlen⟩
  apply List.ext_getElem?
  intro i
  by_cases hi : i = e
  · subst hi
    have hke : kinds[i] = (lab, none) := (List.getElem?_eq_some_iff.1 hk).2
    simp [he, hke, adjEntry, hlen, pos_snoc]
  · rw [List.getElem?_set_ne (Ne.symm hi)]
    simp only [List.getElem?_mapIdx]
    cases hki : kinds[i]? with
    | none => rfl
    | some k =>
      simp only [Option.map_some]
      rw [adjEntry_snoc_ne _ _ _ _ (Ne.symm hi)]

theorem newEdge_concH (kinds : List Kind) (log : List (Nat × Bool)) (labs : List Nat)
    (op : Nat) (ed : LEdge) :
    (concH kinds log labs).newEdge op ed = (concH (kinds ++ [(op, some ed)]) log labs, kinds.length) := by
  simp [LHG.newEdge, concH, List.mapIdx_append, adjEntry]

/-! ## Part A: abstract builder states and the symbolic execution -/

/-- abstract state: the kind of every edge, the handle of every variable, and for every node the
    variable it was attached to and the side (`true` = pushed on the SOURCES of the variable edge) -/
structure AS where
  kinds : List Kind
  vars : List VarH
  log : List (Nat × Bool)

def dflt : VarH := ⟨0, 0⟩

def AS.elog (st : AS) : List (Nat × Bool) := st.log.map (fun x => ((st.vars.getD x.1 dflt).edgeId, x.2))
def AS.labs (st : AS) : List Nat := st.log.map (fun x => (st.vars.getD x.1 dflt).label)

/-- the lax open hypergraph denoted by an abstract state -/
def concF (st : AS) (s t : List Nat) : LF := ⟨s, t, concH st.kinds st.elog st.labs⟩

def AS.empty : AS := ⟨[], [], []⟩

theorem concF_empty : concF AS.empty [] [] = LOHG.empty := rfl

def AS.attach (st : AS) (ks : List Nat) (b : Bool) : AS :=
  { st with log := st.log ++ ks.map (fun k => (k, b)) }

def AS.addVars (st : AS) (ts : List Nat) : AS :=
  { st with kinds := st.kinds ++ List.replicate ts.length (99, none),
            vars := st.vars ++ List.zipWith VarH.mk (List.range' st.kinds.length ts.length) ts }

def AS.addOp (st : AS) (l : Nat) (ed : LEdge) : AS :=
  { st with kinds := st.kinds ++ [(l, some ed)] }

structure Good (st : AS) : Prop where
  inScope : ∀ x ∈ st.log, x.1 < st.vars.length
  isVar : ∀ v ∈ st.vars, st.kinds[v.edgeId]? = some (99, none)
  opOK : ∀ l ed, (l, some ed) ∈ st.kinds → EdgeOK st.log.length ed

theorem good_empty : Good AS.empty := ⟨by simp [AS.empty], by simp [AS.empty], by simp [AS.empty]⟩

theorem Good.attach {st : AS} (h : Good st) (ks : List Nat) (b : Bool)
    (hks : ∀ k ∈ ks, k < st.vars.length) : Good (st.attach ks b) := by
  refine ⟨?_, h.isVar, ?_⟩
  · intro x hx
    simp only [AS.attach, List.mem_append, List.mem_map] at hx
    rcases hx with hx | ⟨k, hk, rfl⟩
    · exact h.inScope x hx
    · exact hks k hk
  · intro l ed hm
    exact (h.opOK l ed hm).mono (by simp [AS.attach])

theorem mem_zipWith_mk {es ts : List Nat} {v : VarH} (hv : v ∈ List.zipWith VarH.mk es ts) :
    v.edgeId ∈ es := by
  induction es generalizing ts with
  | nil => simp at hv
  | cons e es ih =>
    cases ts with
    | nil => simp at hv
    | cons t ts =>
      simp only [List.zipWith_cons_cons, List.mem_cons] at hv ⊢
      rcases hv with rfl | hv
      · exact Or.inl rfl
      · exact Or.inr (ih hv)

theorem Good.addVars {st : AS} (h : Good st) (ts : List Nat) : Good (st.addVars ts) := by
  refine ⟨?_, ?_, ?_⟩
  · intro x hx
    have := h.inScope x hx
    simp only [AS.addVars, List.length_append]
    omega
  · intro v hv
    simp only [AS.addVars, List.mem_append] at hv ⊢
    rcases hv with hv | hv
    · have h1 := h.isVar v hv
      have h2 : v.edgeId < st.kinds.length := (List.getElem?_eq_some_iff.1 h1).1
      rw [List.getElem?_append_left h2]; exact h1
    · have h1 := List.mem_range'_1.1 (mem_zipWith_mk hv)
      rw [List.getElem?_append_right h1.1, List.getElem?_replicate]
      rw [if_pos (by omega)]
  · intro l ed hm
    simp only [AS.addVars, List.mem_append, List.mem_replicate] at hm
    rcases hm with hm | ⟨_, hm⟩
    · exact h.opOK l ed hm
    · cases hm

theorem Good.addOp {st : AS} (h : Good st) (l : Nat) (ed : LEdge) (hed : EdgeOK st.log.length ed) :
    Good (st.addOp l ed) := by
  refine ⟨h.inScope, ?_, ?_⟩
  · intro v hv
    have h1 := h.isVar v hv
    have h2 : v.edgeId < st.kinds.length := (List.getElem?_eq_some_iff.1 h1).1
    simp only [AS.addOp]
    rw [List.getElem?_append_left h2]; exact h1
  · intro l' ed' hm
    simp only [AS.addOp, List.mem_append, List.mem_singleton, Prod.mk.injEq, Option.some.injEq] at hm
    rcases hm with hm | ⟨_, rfl⟩
    · exact h.opOK l' ed' hm
    · exact hed

theorem Good.elog_lt {st : AS} (h : Good st) : ∀ x ∈ st.elog, x.1 < st.kinds.length := by
  intro x hx
  simp only [AS.elog, List.mem_map] at hx
  obtain ⟨y, hy, rfl⟩ := hx
  have h1 := h.inScope y hy
  have h2 := h.isVar (st.vars.getD y.1 dflt) (by
    rw [List.getD_eq_getElem?_getD, List.getElem?_eq_getElem h1]; simp)
  exact (List.getElem?_eq_some_iff.1 h2).1

theorem labs_length (st : AS) : st.labs.length = st.elog.length := by simp [AS.labs, AS.elog]

theorem getD_append_left' (vars more : List VarH) (k : Nat) (hk : k < vars.length) :
    (vars ++ more).getD k dflt = vars.getD k dflt := by
  simp [List.getD_eq_getElem?_getD, List.getElem?_append_left hk]

theorem elog_addVars {st : AS} (h : Good st) (ts : List Nat) : (st.addVars ts).elog = st.elog := by
  simp only [AS.elog, AS.addVars]
  apply List.map_congr_left
  intro x hx
  rw [getD_append_left' _ _ _ (h.inScope x hx)]

theorem labs_addVars {st : AS} (h : Good st) (ts : List Nat) : (st.addVars ts).labs = st.labs := by
  simp only [AS.labs, AS.addVars]
  apply List.map_congr_left
  intro x hx
  rw [getD_append_left' _ _ _ (h.inScope x hx)]

/-- `|ts|` calls of `Var::new` -/
theorem foldl_varNew_concH (kinds : List Kind) (elog : List (Nat × Bool)) (labs s t : List Nat)
    (ts : List Nat) (acc : List VarH) (hlog : ∀ x ∈ elog, x.1 < kinds.length) :
    ts.foldl (fun (acc : LF × List VarH) t =>
        let (f', v) := varNew acc.1 t
        (f', acc.2 ++ [v])) (⟨s, t, concH kinds elog labs⟩, acc) =
      (⟨s, t, concH (kinds ++ List.replicate ts.length (99, none)) elog labs⟩,
       acc ++ List.zipWith VarH.mk (List.range' kinds.length ts.length) ts) := by
  induction ts generalizing kinds acc with
  | nil => simp
  | cons a ts ih =>
    rw [List.foldl_cons, varNew_concH _ _ _ _ _ _ hlog]
    simp only
    rw [ih]
    · simp [List.replicate_succ, List.range'_succ]
    · intro x hx
      have := hlog x hx
      simp only [List.length_append, List.length_singleton]; omega

theorem foldl_varNew (st : AS) (h : Good st) (s t : List Nat) (ts : List Nat) (acc : List VarH) :
    ts.foldl (fun (acc : LF × List VarH) t =>
        let (f', v) := varNew acc.1 t
        (f', acc.2 ++ [v])) (concF st s t, acc) =
      (concF (st.addVars ts) s t,
       acc ++ List.zipWith VarH.mk (List.range' st.kinds.length ts.length) ts) := by
  unfold concF
  rw [foldl_varNew_concH _ _ _ _ _ _ _ h.elog_lt, elog_addVars h, labs_addVars h]
  rfl

/-- one `new_source` / `new_target` per listed variable -/
theorem foldlM_attach_src (ks : List Nat) (st : AS) (h : Good st) (s t : List Nat) (acc : List Nat)
    (hks : ∀ k ∈ ks, k < st.vars.length) :
    (ks.map (fun k => st.vars.getD k dflt)).foldlM (fun (acc : LF × List Nat) v => do
        let (f', n) ← varNewSource acc.1 v
        pure (f', acc.2 ++ [n])) (concF st s t, acc) =
      .ok (concF (st.attach ks true) s t, acc ++ List.range' st.log.length ks.length) := by
  induction ks generalizing st acc with
  | nil => simp [AS.attach]
  | cons k ks ih =>
    have hk : k < st.vars.length := hks k (by simp)
    have hv := h.isVar (st.vars.getD k dflt) (by
      rw [List.getD_eq_getElem?_getD, List.getElem?_eq_getElem hk]; simp)
    rw [List.map_cons, List.foldlM_cons]
    have h2 : concF (st.attach [k] true) s t =
        ⟨s, t, concH st.kinds (st.elog ++ [((st.vars.getD k dflt).edgeId, true)])
          (st.labs ++ [(st.vars.getD k dflt).label])⟩ := by
      simp [concF, AS.attach, AS.elog, AS.labs]
    have h1 : varNewSource (concF st s t) (st.vars.getD k dflt) =
        .ok (concF (st.attach [k] true) s t, st.elog.length) := by
      rw [h2]
      exact varNewSource_concH st.kinds st.elog st.labs s t (st.vars.getD k dflt).edgeId
        (st.vars.getD k dflt).label 99 hv (labs_length st)
    rw [h1]
    show (Res.ok (concF (st.attach [k] true) s t, acc ++ [st.elog.length]) >>= _) = _
    rw [Res.ok_bind]
    have h3 := ih (st.attach [k] true) (h.attach [k] true (by simpa using hk)) (acc ++ [st.elog.length])
      (fun k' hk' => hks k' (by simp [hk']))
    have h4 : (st.attach [k] true).vars = st.vars := rfl
    rw [h4] at h3
    rw [h3]
    simp [AS.attach, AS.elog, List.range'_succ]

theorem foldlM_attach_tgt (ks : List Nat) (st : AS) (h : Good st) (s t : List Nat) (acc : List Nat)
    (hks : ∀ k ∈ ks, k < st.vars.length) :
    (ks.map (fun k => st.vars.getD k dflt)).foldlM (fun (acc : LF × List Nat) v => do
        let (f', n) ← varNewTarget acc.1 v
        pure (f', acc.2 ++ [n])) (concF st s t, acc) =
      .ok (concF (st.attach ks false) s t, acc ++ List.range' st.log.length ks.length) := by
  induction ks generalizing st acc with
  | nil => simp [AS.attach]
  | cons k ks ih =>
    have hk : k < st.vars.length := hks k (by simp)
    have hv := h.isVar (st.vars.getD k dflt) (by
      rw [List.getD_eq_getElem?_getD, List.getElem?_eq_getElem hk]; simp)
    rw [List.map_cons, List.foldlM_cons]
    have h2 : concF (st.attach [k] false) s t =
        ⟨s, t, concH st.kinds (st.elog ++ [((st.vars.getD k dflt).edgeId, false)])
          (st.labs ++ [(st.vars.getD k dflt).label])⟩ := by
      simp [concF, AS.attach, AS.elog, AS.labs]
    have h1 : varNewTarget (concF st s t) (st.vars.getD k dflt) =
        .ok (concF (st.attach [k] false) s t, st.elog.length) := by
      rw [h2]
      exact varNewTarget_concH st.kinds st.elog st.labs s t (st.vars.getD k dflt).edgeId
        (st.vars.getD k dflt).label 99 hv (labs_length st)
    rw [h1]
    show (Res.ok (concF (st.attach [k] false) s t, acc ++ [st.elog.length]) >>= _) = _
    rw [Res.ok_bind]
    have h3 := ih (st.attach [k] false) (h.attach [k] false (by simpa using hk)) (acc ++ [st.elog.length])
      (fun k' hk' => hks k' (by simp [hk']))
    have h4 : (st.attach [k] false).vars = st.vars := rfl
    rw [h4] at h3
    rw [h3]
    simp [AS.attach, AS.elog, List.range'_succ]

/-- symbolic execution of one instruction -/
def symStep (st : AS) : VarIns → AS
  | .op label args rts =>
    (((st.attach args false).addVars rts).attach (List.range' st.vars.length rts.length) true).addOp label
      ⟨List.range' st.log.length args.length, List.range' (st.log.length + args.length) rts.length⟩

theorem eq_map_getD_append (vars more : List VarH) :
    more = (List.range' vars.length more.length).map (fun k => (vars ++ more).getD k dflt) := by
  apply List.ext_getElem (by simp)
  intro i h1 h2
  simp [List.getD_eq_getElem?_getD, h1]

theorem varOperation_sym (st : AS) (h : Good st) (s t : List Nat) (label : Nat) (args rts : List Nat)
    (hargs : ∀ a ∈ args, a < st.vars.length) :
    varOperation (concF st s t) (args.map (fun k => st.vars.getD k dflt)) rts label =
      .ok (concF (symStep st (.op label args rts)) s t,
           List.zipWith VarH.mk (List.range' st.kinds.length rts.length) rts) := by
  unfold varOperation
  rw [foldlM_attach_tgt args st h s t [] hargs]
  rw [Res.ok_bind]
  simp only
  have h1 := h.attach args false hargs
  rw [foldl_varNew _ h1 s t rts []]
  simp only [List.nil_append]
  have h2 := h1.addVars rts
  have hlen : (List.zipWith VarH.mk (List.range' (st.attach args false).kinds.length rts.length) rts).length
      = rts.length := by simp
  have h3 := eq_map_getD_append (st.attach args false).vars
    (List.zipWith VarH.mk (List.range' (st.attach args false).kinds.length rts.length) rts)
  rw [hlen] at h3
  have h4 : ((st.attach args false).addVars rts).vars = (st.attach args false).vars ++
    List.zipWith VarH.mk (List.range' (st.attach args false).kinds.length rts.length) rts := rfl
  rw [← h4] at h3
  conv => lhs; arg 1; arg 3; rw [h3]
  rw [foldlM_attach_src _ _ h2 s t []]
  · rw [Res.ok_bind]
    simp only [List.nil_append]
    unfold concF
    simp only
    rw [newEdge_concH]
    simp only [symStep, AS.attach, AS.addVars, AS.addOp, AS.elog, AS.labs, List.length_append,
      List.length_map, List.length_range', Res.pure_eq]
  · intro k hk
    have := List.mem_range'_1.1 hk
    simp only [AS.addVars, AS.attach, List.length_append, List.length_zipWith, List.length_range',
      Nat.min_self] at this ⊢
    omega

def insLabel : VarIns → Nat | .op l _ _ => l
def insArgs : VarIns → List Nat | .op _ a _ => a
def insRts : VarIns → List Nat | .op _ _ r => r

theorem symStep_vars (st : AS) (ins : VarIns) :
    (symStep st ins).vars = st.vars ++
      List.zipWith VarH.mk (List.range' st.kinds.length (insRts ins).length) (insRts ins) := by
  cases ins; rfl

theorem symStep_vars_length (st : AS) (ins : VarIns) :
    (symStep st ins).vars.length = st.vars.length + (insRts ins).length := by
  rw [symStep_vars]; simp

theorem symStep_good (st : AS) (h : Good st) (ins : VarIns)
    (hargs : ∀ a ∈ insArgs ins, a < st.vars.length) : Good (symStep st ins) := by
  cases ins with
  | op label args rts =>
    have h1 := h.attach args false hargs
    have h2 := h1.addVars rts
    have h3 := h2.attach (List.range' st.vars.length rts.length) true (by
      intro k hk
      have := List.mem_range'_1.1 hk
      simp only [AS.addVars, AS.attach, List.length_append, List.length_zipWith, List.length_range',
        Nat.min_self] at this ⊢
      omega)
    apply h3.addOp
    constructor
    · intro v hv
      have := List.mem_range'_1.1 hv
      simp only [AS.addVars, AS.attach, List.length_append, List.length_map, List.length_range']
      omega
    · intro v hv
      have := List.mem_range'_1.1 hv
      simp only [AS.addVars, AS.attach, List.length_append, List.length_map, List.length_range']
      omega

theorem mapM_getVar (vars : List VarH) (args : List Nat) (h : ∀ a ∈ args, a < vars.length) :
    args.mapM (getVar vars) = .ok (args.map (fun k => vars.getD k dflt)) := by
  induction args with
  | nil => rfl
  | cons a args ih =>
    have ha : a < vars.length := h a (by simp)
    rw [List.mapM_cons, ih (fun b hb => h b (by simp [hb]))]
    simp [getVar, Res.ofOption, List.getElem?_eq_getElem ha, List.getD_eq_getElem?_getD]

theorem runVarIns_sym (st : AS) (h : Good st) (s t : List Nat) (ins : VarIns)
    (hargs : ∀ a ∈ insArgs ins, a < st.vars.length) :
    runVarIns (concF st s t) st.vars ins = .ok (concF (symStep st ins) s t, (symStep st ins).vars) := by
  cases ins with
  | op label args rts =>
    have hargs' : ∀ a ∈ args, a < st.vars.length := hargs
    unfold runVarIns
    simp only
    rw [mapM_getVar _ _ hargs', Res.ok_bind, varOperation_sym st h s t label args rts hargs, Res.ok_bind]
    rfl

def scopedFrom (nv : Nat) : List VarIns → Bool
  | [] => true
  | ins :: rest => (insArgs ins).all (· < nv) && scopedFrom (nv + (insRts ins).length) rest

theorem foldlM_prog (rest : List VarIns) (st : AS) (h : Good st) (s t : List Nat)
    (hs : scopedFrom st.vars.length rest = true) :
    rest.foldlM (fun (acc : LF × List VarH) ins => runVarIns acc.1 acc.2 ins) (concF st s t, st.vars) =
      .ok (concF (rest.foldl symStep st) s t, (rest.foldl symStep st).vars) ∧
    Good (rest.foldl symStep st) := by
  induction rest generalizing st with
  | nil => exact ⟨rfl, h⟩
  | cons ins rest ih =>
    simp only [scopedFrom, Bool.and_eq_true, List.all_eq_true, decide_eq_true_eq] at hs
    rw [List.foldlM_cons, List.foldl_cons]
    simp only
    rw [runVarIns_sym st h s t ins hs.1, Res.ok_bind]
    apply ih _ (symStep_good st h ins hs.1)
    rw [symStep_vars_length]; exact hs.2

/-! ### the whole `build` -/

def initState (inLabels : List Nat) : AS := AS.empty.addVars inLabels
def progState (inLabels : List Nat) (prog : List VarIns) : AS := prog.foldl symStep (initState inLabels)
def finalState (inLabels : List Nat) (prog : List VarIns) (outs : List Nat) : AS :=
  ((progState inLabels prog).attach (List.range inLabels.length) true).attach outs false

/-- number of nodes created while running the program -/
def progNodes (inLabels : List Nat) (prog : List VarIns) : Nat := (progState inLabels prog).log.length

/-- the term `build` returns -/
def builtTerm (inLabels : List Nat) (prog : List VarIns) (outs : List Nat) : LF :=
  concF (finalState inLabels prog outs) (List.range' (progNodes inLabels prog) inLabels.length)
    (List.range' (progNodes inLabels prog + inLabels.length) outs.length)

theorem foldl_symStep_vars (rest : List VarIns) (st : AS) :
    ∃ more, (rest.foldl symStep st).vars = st.vars ++ more := by
  induction rest generalizing st with
  | nil => exact ⟨[], by simp⟩
  | cons ins rest ih =>
    obtain ⟨more, hm⟩ := ih (symStep st ins)
    rw [List.foldl_cons, hm, symStep_vars, List.append_assoc]
    exact ⟨_, rfl⟩

theorem eq_map_getD_prefix (vs more : List VarH) :
    vs = (List.range vs.length).map (fun k => (vs ++ more).getD k dflt) := by
  apply List.ext_getElem (by simp)
  intro i h1 h2
  simp [List.getD_eq_getElem?_getD, List.getElem?_append_left h1, List.getElem?_eq_getElem h1]

theorem initState_vars_length (inLabels : List Nat) : (initState inLabels).vars.length = inLabels.length := by
  simp [initState, AS.addVars, AS.empty]

theorem good_init (inLabels : List Nat) : Good (initState inLabels) := good_empty.addVars _

def srcStep (acc : LF × List Nat) (v : VarH) : Res (LF × List Nat) := do
  let (f', n) ← varNewSource acc.1 v
  pure (f', acc.2 ++ [n])

def tgtStep (acc : LF × List Nat) (v : VarH) : Res (LF × List Nat) := do
  let (f', n) ← varNewTarget acc.1 v
  pure (f', acc.2 ++ [n])

def newStep (acc : LF × List VarH) (t : Nat) : LF × List VarH :=
  let (f', v) := varNew acc.1 t
  (f', acc.2 ++ [v])

def progStep (acc : LF × List VarH) (ins : VarIns) : Res (LF × List VarH) := runVarIns acc.1 acc.2 ins

/-- `varBuildProg` with the pattern matches replaced by projections and the loop bodies named -/
theorem varBuildProg_eq (inLabels : List Nat) (prog : List VarIns) (outs : List Nat) :
    varBuildProg inLabels prog outs =
      ((prog.foldlM progStep (inLabels.foldl newStep ((LOHG.empty : LF), []))) >>=
        fun q => (outs.mapM (getVar q.2)) >>=
        fun outv => ((inLabels.foldl newStep ((LOHG.empty : LF), [])).2.foldlM
            srcStep (q.1, [])) >>=
        fun r => (outv.foldlM tgtStep (({ r.1 with sources := r.2 } : LF), [])) >>=
        fun r2 => Res.ok ({ r2.1 with targets := r2.2 } : LF)) := rfl

theorem build_sym (inLabels : List Nat) (prog : List VarIns) (outs : List Nat)
    (hs : scopedFrom inLabels.length prog = true) (ho : ∀ o ∈ outs, o < (progState inLabels prog).vars.length) :
    varBuildProg inLabels prog outs = .ok (builtTerm inLabels prog outs) ∧ Good (finalState inLabels prog outs) := by
  have e1 : inLabels.foldl newStep ((LOHG.empty : LF), []) =
      (concF (initState inLabels) [] [], (initState inLabels).vars) := by
    rw [← concF_empty]
    refine (foldl_varNew _ good_empty [] [] _ []).trans ?_
    simp [initState, AS.addVars, AS.empty]
  have hs' : scopedFrom (initState inLabels).vars.length prog = true := by
    rw [initState_vars_length]; exact hs
  obtain ⟨e2, g2⟩ := foldlM_prog prog (initState inLabels) (good_init inLabels) [] [] hs'
  replace e2 : prog.foldlM progStep (concF (initState inLabels) [] [], (initState inLabels).vars) =
      .ok (concF (progState inLabels prog) [] [], (progState inLabels prog).vars) := e2
  obtain ⟨more, hm⟩ := foldl_symStep_vars prog (initState inLabels)
  have e3 : (initState inLabels).vars =
      (List.range inLabels.length).map (fun k => (progState inLabels prog).vars.getD k dflt) := by
    have := eq_map_getD_prefix (initState inLabels).vars more
    rw [initState_vars_length, ← hm] at this
    exact this
  have hin : ∀ k ∈ List.range inLabels.length, k < (progState inLabels prog).vars.length := by
    intro k hk
    have := List.mem_range.1 hk
    unfold progState
    rw [hm, List.length_append, initState_vars_length]; omega
  have g3 := g2.attach (List.range inLabels.length) true hin
  have g4 := g3.attach outs false ho
  refine ⟨?_, g4⟩
  have e4 : (initState inLabels).vars.foldlM srcStep (concF (progState inLabels prog) [] [], []) =
      .ok (concF ((progState inLabels prog).attach (List.range inLabels.length) true) [] [],
        [] ++ List.range' (progState inLabels prog).log.length (List.range inLabels.length).length) := by
    rw [e3]
    exact foldlM_attach_src (List.range inLabels.length) (progState inLabels prog) g2 [] [] [] hin
  have e5 : ∀ s, (outs.map (fun k => (progState inLabels prog).vars.getD k dflt)).foldlM tgtStep
        (concF ((progState inLabels prog).attach (List.range inLabels.length) true) s [], []) =
      .ok (concF (finalState inLabels prog outs) s [],
        [] ++ List.range' ((progState inLabels prog).attach (List.range inLabels.length) true).log.length outs.length) :=
    fun s => foldlM_attach_tgt outs ((progState inLabels prog).attach (List.range inLabels.length) true) g3 s [] [] ho
  rw [varBuildProg_eq, e1, e2, Res.ok_bind]
  simp only
  rw [mapM_getVar _ _ ho, Res.ok_bind, e4, Res.ok_bind]
  have e6 : ∀ s, ({ concF ((progState inLabels prog).attach (List.range inLabels.length) true) [] [] with sources := s } : LF) =
      concF ((progState inLabels prog).attach (List.range inLabels.length) true) s [] := fun _ => rfl
  simp only [e6]
  rw [e5, Res.ok_bind]
  simp [builtTerm, concF, progNodes, AS.attach]

/-! ## Part B: closed-form vocabulary -/

/-- number of variables created by the instructions -/
def numRes (prog : List VarIns) : Nat := (prog.map (fun i => (insRts i).length)).sum
/-- total number of variables: the inputs, then every result of every instruction -/
def numVars (inLabels : List Nat) (prog : List VarIns) : Nat := inLabels.length + numRes prog
/-- number of nodes created by the instructions: one per argument use and one per result -/
def numProgNodes (prog : List VarIns) : Nat :=
  (prog.map (fun i => (insArgs i).length + (insRts i).length)).sum
/-- number of edges created by the instructions: one per result variable and one operator edge -/
def numProgEdges (prog : List VarIns) : Nat := (prog.map (fun i => (insRts i).length + 1)).sum

/-- label of variable `k` -/
def varLabels (inLabels : List Nat) (prog : List VarIns) : List Nat := inLabels ++ prog.flatMap insRts

/-- the edge labels, in creation order -/
def edgeLabels (inLabels : List Nat) (prog : List VarIns) : List Nat :=
  List.replicate inLabels.length 99 ++
    prog.flatMap (fun ins => List.replicate (insRts ins).length 99 ++ [insLabel ins])

/-- edge ids of the result variables of a program whose first edge gets id `eb` -/
def progVarEdges (eb : Nat) : List VarIns → List Nat
  | [] => []
  | ins :: rest => List.range' eb (insRts ins).length ++ progVarEdges (eb + (insRts ins).length + 1) rest

/-- edge id of every variable -/
def varEdges (inLabels : List Nat) (prog : List VarIns) : List Nat := List.range inLabels.length ++ progVarEdges inLabels.length prog
def varEdge (inLabels : List Nat) (prog : List VarIns) (k : Nat) : Nat := (varEdges inLabels prog).getD k 0

/-- edge id of the operator edge of instruction `j` -/
def opEdge (inLabels : List Nat) (prog : List VarIns) (j : Nat) : Nat :=
  inLabels.length + numProgEdges (prog.take j) + (prog[j]?.map (fun i => (insRts i).length)).getD 0

/-- first node created by instruction `j` -/
def nodeBase (prog : List VarIns) (j : Nat) : Nat := numProgNodes (prog.take j)
/-- first variable created by instruction `j` -/
def varBase (inLabels : List Nat) (prog : List VarIns) (j : Nat) : Nat := numVars inLabels (prog.take j)

/-- for every node created by the program (first variable id `vb`): the variable it is attached to
    and the side (`false`: a use, pushed on the TARGETS of the variable edge; `true`: the
    definition, pushed on its SOURCES) -/
def progLog (vb : Nat) : List VarIns → List (Nat × Bool)
  | [] => []
  | ins :: rest =>
    (insArgs ins).map (fun k => (k, false)) ++ (List.range' vb (insRts ins).length).map (fun k => (k, true)) ++
      progLog (vb + (insRts ins).length) rest

def fullLog (inLabels : List Nat) (prog : List VarIns) (outs : List Nat) : List (Nat × Bool) :=
  progLog inLabels.length prog ++ (List.range inLabels.length).map (fun k => (k, true)) ++ outs.map (fun k => (k, false))

/-- the variable each node is attached to, in node-creation order -/
def nodeVars (inLabels : List Nat) (prog : List VarIns) (outs : List Nat) : List Nat := (fullLog inLabels prog outs).map (·.1)
/-- whether the node was pushed on the SOURCES of its variable edge -/
def nodeIsSrc (inLabels : List Nat) (prog : List VarIns) (outs : List Nat) : List Bool := (fullLog inLabels prog outs).map (·.2)

def progKinds (nb : Nat) : List VarIns → List Kind
  | [] => []
  | ins :: rest =>
    List.replicate (insRts ins).length (99, none) ++
      [(insLabel ins, some ⟨List.range' nb (insArgs ins).length,
          List.range' (nb + (insArgs ins).length) (insRts ins).length⟩)] ++
      progKinds (nb + (insArgs ins).length + (insRts ins).length) rest

theorem foldl_symStep_eq (rest : List VarIns) (st : AS) :
    rest.foldl symStep st =
      ⟨st.kinds ++ progKinds st.log.length rest,
       st.vars ++ List.zipWith VarH.mk (progVarEdges st.kinds.length rest) (rest.flatMap insRts),
       st.log ++ progLog st.vars.length rest⟩ := by
  induction rest generalizing st with
  | nil => simp [progKinds, progVarEdges, progLog]
  | cons ins rest ih =>
    rw [List.foldl_cons, ih]
    cases ins with
    | op label args rts =>
      simp [symStep, AS.attach, AS.addVars, AS.addOp, progKinds, progVarEdges, progLog, insArgs, insRts,
        insLabel, List.zipWith_append, Nat.add_assoc]

theorem numRes_cons (ins : VarIns) (rest : List VarIns) :
    numRes (ins :: rest) = (insRts ins).length + numRes rest := by simp [numRes]
theorem numProgNodes_cons (ins : VarIns) (rest : List VarIns) :
    numProgNodes (ins :: rest) = (insArgs ins).length + (insRts ins).length + numProgNodes rest := by
  simp [numProgNodes]
theorem numProgEdges_cons (ins : VarIns) (rest : List VarIns) :
    numProgEdges (ins :: rest) = (insRts ins).length + 1 + numProgEdges rest := by simp [numProgEdges]

theorem progVarEdges_length (eb : Nat) (prog : List VarIns) : (progVarEdges eb prog).length = numRes prog := by
  induction prog generalizing eb with
  | nil => rfl
  | cons ins rest ih => simp [progVarEdges, numRes_cons, ih]

theorem flatMap_rts_length (prog : List VarIns) : (prog.flatMap insRts).length = numRes prog := by
  induction prog with
  | nil => rfl
  | cons ins rest ih => simp [numRes_cons, ih]

theorem progLog_length (vb : Nat) (prog : List VarIns) : (progLog vb prog).length = numProgNodes prog := by
  induction prog generalizing vb with
  | nil => rfl
  | cons ins rest ih => simp [progLog, numProgNodes_cons, ih]; omega

theorem progKinds_length (nb : Nat) (prog : List VarIns) : (progKinds nb prog).length = numProgEdges prog := by
  induction prog generalizing nb with
  | nil => rfl
  | cons ins rest ih => simp [progKinds, numProgEdges_cons, ih]; omega

theorem varEdges_length (inLabels : List Nat) (prog : List VarIns) : (varEdges inLabels prog).length = numVars inLabels prog := by
  simp [varEdges, numVars, progVarEdges_length]

theorem varLabels_length (inLabels : List Nat) (prog : List VarIns) : (varLabels inLabels prog).length = numVars inLabels prog := by
  simp only [varLabels, numVars, List.length_append, flatMap_rts_length]

/-- the abstract state after the program -/
theorem progState_eq (inLabels : List Nat) (prog : List VarIns) :
    progState inLabels prog =
      ⟨List.replicate inLabels.length (99, none) ++ progKinds 0 prog,
       List.zipWith VarH.mk (varEdges inLabels prog) (varLabels inLabels prog),
       progLog inLabels.length prog⟩ := by
  unfold progState
  rw [foldl_symStep_eq]
  simp [initState, AS.addVars, AS.empty, varEdges, varLabels, List.zipWith_append, List.range_eq_range']

theorem progState_vars_length (inLabels : List Nat) (prog : List VarIns) :
    (progState inLabels prog).vars.length = numVars inLabels prog := by
  rw [progState_eq]; simp [varEdges_length, varLabels_length]

theorem progNodes_eq (inLabels : List Nat) (prog : List VarIns) : progNodes inLabels prog = numProgNodes prog := by
  unfold progNodes; rw [progState_eq]; simp [progLog_length]

theorem zipWith_mk_getD (es ls : List Nat) (h : es.length = ls.length) (k : Nat) :
    (List.zipWith VarH.mk es ls).getD k dflt = ⟨es.getD k 0, ls.getD k 0⟩ := by
  simp only [List.getD_eq_getElem?_getD, List.getElem?_zipWith]
  by_cases hk : k < es.length
  · have hk' : k < ls.length := h ▸ hk
    simp [List.getElem?_eq_getElem hk, List.getElem?_eq_getElem hk']
  · have hk' : ¬ k < ls.length := h ▸ hk
    simp [List.getElem?_eq_none (Nat.le_of_not_lt hk), List.getElem?_eq_none (Nat.le_of_not_lt hk'), dflt]

/-- the handle of variable `k` -/
theorem progState_var (inLabels : List Nat) (prog : List VarIns) (k : Nat) :
    (progState inLabels prog).vars.getD k dflt = ⟨varEdge inLabels prog k, (varLabels inLabels prog).getD k 0⟩ := by
  rw [progState_eq]
  exact zipWith_mk_getD _ _ (by rw [varEdges_length, varLabels_length]) k

theorem finalState_eq (inLabels : List Nat) (prog : List VarIns) (outs : List Nat) :
    finalState inLabels prog outs =
      ⟨List.replicate inLabels.length (99, none) ++ progKinds 0 prog,
       List.zipWith VarH.mk (varEdges inLabels prog) (varLabels inLabels prog),
       fullLog inLabels prog outs⟩ := by
  unfold finalState
  rw [progState_eq]
  simp [AS.attach, fullLog]

theorem finalState_vars (inLabels : List Nat) (prog : List VarIns) (outs : List Nat) :
    (finalState inLabels prog outs).vars = (progState inLabels prog).vars := rfl

theorem finalState_elog (inLabels : List Nat) (prog : List VarIns) (outs : List Nat) :
    (finalState inLabels prog outs).elog = (fullLog inLabels prog outs).map (fun x => (varEdge inLabels prog x.1, x.2)) := by
  unfold AS.elog
  rw [finalState_vars]
  simp only [progState_var]
  rw [finalState_eq]

theorem finalState_labs (inLabels : List Nat) (prog : List VarIns) (outs : List Nat) :
    (finalState inLabels prog outs).labs = (fullLog inLabels prog outs).map (fun x => (varLabels inLabels prog).getD x.1 0) := by
  unfold AS.labs
  rw [finalState_vars]
  simp only [progState_var]
  rw [finalState_eq]

/-! ## well-scoped programs -/

/-- every argument of instruction `j` names a variable that exists when the instruction runs (an
    input or a result of an EARLIER instruction), and every output names an existing variable -/
def WellScoped (inLabels : List Nat) (prog : List VarIns) (outs : List Nat) : Prop :=
  (∀ j (h : j < prog.length), ∀ a ∈ insArgs prog[j], a < numVars inLabels (prog.take j)) ∧
  ∀ o ∈ outs, o < numVars inLabels prog

instance (inLabels : List Nat) (prog : List VarIns) (outs : List Nat) : Decidable (WellScoped inLabels prog outs) := by
  unfold WellScoped; infer_instance

def wellScopedB (inLabels : List Nat) (prog : List VarIns) (outs : List Nat) : Bool :=
  scopedFrom inLabels.length prog && outs.all (· < numVars inLabels prog)

theorem scopedFrom_iff (nv : Nat) (prog : List VarIns) :
    scopedFrom nv prog = true ↔
      ∀ j (h : j < prog.length), ∀ a ∈ insArgs prog[j], a < nv + numRes (prog.take j) := by
  induction prog generalizing nv with
  | nil => simp [scopedFrom]
  | cons ins rest ih =>
    simp only [scopedFrom, Bool.and_eq_true, List.all_eq_true, decide_eq_true_eq, ih]
    constructor
    · rintro ⟨h0, h1⟩ j hj a ha
      cases j with
      | zero => simpa [numRes] using h0 a ha
      | succ j =>
        have := h1 j (by simpa using hj) a (by simpa using ha)
        simp only [List.take_succ_cons, numRes_cons]; omega
    · intro h
      refine ⟨fun a ha => ?_, fun j hj a ha => ?_⟩
      · simpa [numRes] using h 0 (by simp) a (by simpa using ha)
      · have := h (j + 1) (by simpa using hj) a (by simpa using ha)
        simp only [List.take_succ_cons, numRes_cons] at this; omega

theorem wellScoped_iff (inLabels : List Nat) (prog : List VarIns) (outs : List Nat) :
    WellScoped inLabels prog outs ↔ wellScopedB inLabels prog outs = true := by
  unfold WellScoped wellScopedB
  rw [Bool.and_eq_true, scopedFrom_iff, List.all_eq_true]
  constructor
  · rintro ⟨h1, h2⟩
    exact ⟨h1, fun x hx => decide_eq_true (h2 x hx)⟩
  · rintro ⟨h1, h2⟩
    exact ⟨h1, fun x hx => of_decide_eq_true (h2 x hx)⟩

theorem concF_wf (st : AS) (h : Good st) (s t : List Nat) (hs : ∀ v ∈ s, v < st.log.length)
    (ht : ∀ v ∈ t, v < st.log.length) : (concF st s t).wf = true := by
  have hN : (concF st s t).hypergraph.nodes.length = st.log.length := by simp [concF, concH, AS.labs]
  rw [owf_iff]
  refine ⟨⟨?_, ?_, rfl, ?_, ?_⟩, ?_, ?_⟩
  · simp [concF, concH]
  · intro e he
    rw [hN]
    obtain ⟨i, hi⟩ := List.mem_iff_getElem?.1 he
    have hi' : (concH st.kinds st.elog st.labs).adjacency[i]? = some e := hi
    rw [concH_adj_getElem?] at hi'
    cases hk : st.kinds[i]? with
    | none => rw [hk] at hi'; cases hi'
    | some k =>
      rw [hk] at hi'
      simp only [Option.map_some, Option.some.injEq] at hi'
      obtain ⟨l, o⟩ := k
      cases o with
      | some ed =>
        have : e = ed := hi'.symm
        rw [this]
        exact h.opOK l ed (List.mem_of_getElem? hk)
      | none =>
        have : e = ⟨pos st.elog i true, pos st.elog i false⟩ := hi'.symm
        rw [this]
        have hl : st.elog.length = st.log.length := by simp [AS.elog]
        constructor
        · intro v hv; rw [← hl]; exact pos_lt _ _ _ v hv
        · intro v hv; rw [← hl]; exact pos_lt _ _ _ v hv
  · intro v hv; cases hv
  · intro v hv; cases hv
  · intro v hv; rw [hN]; exact hs v hv
  · intro v hv; rw [hN]; exact ht v hv

/-- **the builder never panics on a well-scoped program** (and returns `builtTerm`, a well-formed
    lax open hypergraph) -/
theorem build_eq (inLabels : List Nat) (prog : List VarIns) (outs : List Nat) (h : WellScoped inLabels prog outs) :
    varBuildProg inLabels prog outs = .ok (builtTerm inLabels prog outs) ∧ Good (finalState inLabels prog outs) ∧
    (builtTerm inLabels prog outs).wf = true := by
  have hb := (wellScoped_iff inLabels prog outs).1 h
  simp only [wellScopedB, Bool.and_eq_true, List.all_eq_true, decide_eq_true_eq] at hb
  have ho : ∀ o ∈ outs, o < (progState inLabels prog).vars.length := by
    rw [progState_vars_length]; exact hb.2
  obtain ⟨h1, h2⟩ := build_sym inLabels prog outs hb.1 ho
  refine ⟨h1, h2, ?_⟩
  have hlen : (finalState inLabels prog outs).log.length = progNodes inLabels prog + inLabels.length + outs.length := by
    simp [finalState, AS.attach, progNodes]; omega
  apply concF_wf _ h2
  · intro v hv
    have := List.mem_range'_1.1 hv
    omega
  · intro v hv
    have := List.mem_range'_1.1 hv
    omega

theorem build_ok (inLabels : List Nat) (prog : List VarIns) (outs : List Nat) (h : WellScoped inLabels prog outs) :
    ∃ t, varBuildProg inLabels prog outs = .ok t ∧ t.wf = true :=
  ⟨_, (build_eq inLabels prog outs h).1, (build_eq inLabels prog outs h).2.2⟩

example : WellScoped [0, 1] [.op 7 [0, 1] [5], .op 8 [2, 2] [6, 6]] [3, 0] := by decide
example : wellScopedB [0, 1] [.op 7 [0, 1] [5], .op 8 [2, 2] [6, 6]] [3, 0] = true := by decide
example : ¬ WellScoped [0, 1] [.op 7 [0, 2] [5]] [] := by decide
example : varBuildProg [0, 1] [.op 7 [0, 1] [5], .op 8 [2, 2] [6, 6]] [3, 0] =
    .ok ⟨[7, 8], [9, 10],
      ⟨[0, 1, 5, 5, 5, 6, 6, 0, 1, 6, 0], [99, 99, 99, 7, 99, 99, 8],
       [⟨[7], [0, 10]⟩, ⟨[8], [1]⟩, ⟨[2], [3, 4]⟩, ⟨[0, 1], [2]⟩, ⟨[5], [9]⟩, ⟨[6], []⟩, ⟨[3, 4], [5, 6]⟩],
       ([], [])⟩⟩ := by decide

/-! ### ill-scoped programs panic -/

theorem mapM_getVar_fail (vars : List VarH) (args : List Nat) (h : ¬ ∀ a ∈ args, a < vars.length) :
    args.mapM (getVar vars) = .panic "var:index" := by
  induction args with
  | nil => exact absurd (by simp) h
  | cons a args ih =>
    rw [List.mapM_cons]
    by_cases ha : a < vars.length
    · have hrest : ¬ ∀ b ∈ args, b < vars.length := by
        intro hc; apply h; intro b hb
        rcases List.mem_cons.1 hb with rfl | hb
        · exact ha
        · exact hc b hb
      rw [ih hrest]
      simp [getVar, Res.ofOption, List.getElem?_eq_getElem ha]
    · simp [getVar, Res.ofOption, List.getElem?_eq_none (Nat.le_of_not_lt ha)]

theorem foldlM_prog_fail (rest : List VarIns) (st : AS) (h : Good st) (s t : List Nat)
    (hs : scopedFrom st.vars.length rest = false) :
    rest.foldlM progStep (concF st s t, st.vars) = .panic "var:index" := by
  induction rest generalizing st with
  | nil => simp [scopedFrom] at hs
  | cons ins rest ih =>
    rw [List.foldlM_cons]
    by_cases hargs : ∀ a ∈ insArgs ins, a < st.vars.length
    · have h1 : progStep (concF st s t, st.vars) ins =
          .ok (concF (symStep st ins) s t, (symStep st ins).vars) := runVarIns_sym st h s t ins hargs
      rw [h1, Res.ok_bind]
      apply ih _ (symStep_good st h ins hargs)
      rw [symStep_vars_length]
      have hall : (insArgs ins).all (· < st.vars.length) = true := by
        rw [List.all_eq_true]; intro a ha; exact decide_eq_true (hargs a ha)
      simp only [scopedFrom, hall, Bool.true_and] at hs
      exact hs
    · have h1 : progStep (concF st s t, st.vars) ins = .panic "var:index" := by
        cases ins with
        | op label args rts =>
          have hargs' : ¬ ∀ a ∈ args, a < st.vars.length := hargs
          unfold progStep runVarIns
          simp only
          rw [mapM_getVar_fail _ _ hargs', Res.panic_bind]
      rw [h1, Res.panic_bind]

/-- **exact panic condition of the builder**: an ill-scoped program (an argument naming a variable
    that does not exist yet, or an output naming a variable that does not exist) makes the handle
    lookup panic -/
theorem build_panics (inLabels : List Nat) (prog : List VarIns) (outs : List Nat) (h : ¬ WellScoped inLabels prog outs) :
    varBuildProg inLabels prog outs = .panic "var:index" := by
  have e1 : inLabels.foldl newStep ((LOHG.empty : LF), []) =
      (concF (initState inLabels) [] [], (initState inLabels).vars) := by
    rw [← concF_empty]
    refine (foldl_varNew _ good_empty [] [] _ []).trans ?_
    simp [initState, AS.addVars, AS.empty]
  rw [varBuildProg_eq, e1]
  by_cases hs : scopedFrom inLabels.length prog = true
  · have hs' : scopedFrom (initState inLabels).vars.length prog = true := by
      rw [initState_vars_length]; exact hs
    obtain ⟨e2, _⟩ := foldlM_prog prog (initState inLabels) (good_init inLabels) [] [] hs'
    replace e2 : prog.foldlM progStep (concF (initState inLabels) [] [], (initState inLabels).vars) =
        .ok (concF (progState inLabels prog) [] [], (progState inLabels prog).vars) := e2
    rw [e2, Res.ok_bind]
    simp only
    have ho : ¬ ∀ o ∈ outs, o < (progState inLabels prog).vars.length := by
      rw [progState_vars_length]
      intro hc
      apply h
      rw [wellScoped_iff]
      simp only [wellScopedB, hs, Bool.true_and, List.all_eq_true]
      intro x hx; exact decide_eq_true (hc x hx)
    rw [mapM_getVar_fail _ _ ho, Res.panic_bind]
  · have hs' : scopedFrom (initState inLabels).vars.length prog = false := by
      rw [initState_vars_length]; simpa using hs
    rw [foldlM_prog_fail prog (initState inLabels) (good_init inLabels) [] [] hs', Res.panic_bind]

/-- the builder returns iff the program is well scoped -/
theorem build_ok_iff (inLabels : List Nat) (prog : List VarIns) (outs : List Nat) :
    (∃ t, varBuildProg inLabels prog outs = .ok t) ↔ WellScoped inLabels prog outs := by
  constructor
  · rintro ⟨t, ht⟩
    apply Classical.byContradiction
    intro hn
    rw [build_panics inLabels prog outs hn] at ht
    cases ht
  · intro h
    exact ⟨_, (build_eq inLabels prog outs h).1⟩

/-! ## the shape of the built term -/

section shape
variable (inLabels : List Nat) (prog : List VarIns) (outs : List Nat)

theorem progKinds_labels (nb : Nat) (prog : List VarIns) :
    (progKinds nb prog).map (·.1) =
      prog.flatMap (fun ins => List.replicate (insRts ins).length 99 ++ [insLabel ins]) := by
  induction prog generalizing nb with
  | nil => rfl
  | cons ins rest ih => simp [progKinds, ih]

/-- (edges) one edge labelled 99 per variable and one edge per applied operator, interleaved in
    creation order -/
theorem built_edges : (builtTerm inLabels prog outs).hypergraph.edges = edgeLabels inLabels prog := by
  simp [builtTerm, concF, concH, finalState_eq, edgeLabels, progKinds_labels]

theorem built_edges_length :
    (builtTerm inLabels prog outs).hypergraph.edges.length = numVars inLabels prog + prog.length := by
  simp only [builtTerm, concF, concH, finalState_eq, List.length_map, List.length_append,
    List.length_replicate, progKinds_length, numVars]
  have : ∀ p : List VarIns, numProgEdges p = numRes p + p.length := by
    intro p
    induction p with
    | nil => rfl
    | cons i p ih => rw [numProgEdges_cons, numRes_cons, ih, List.length_cons]; omega
  rw [this]; omega

/-- (nodes) one node per use and per definition, labelled like its variable -/
theorem built_nodes :
    (builtTerm inLabels prog outs).hypergraph.nodes =
      (nodeVars inLabels prog outs).map (fun k => (varLabels inLabels prog).getD k 0) := by
  show (finalState inLabels prog outs).labs = _
  rw [finalState_labs, nodeVars, List.map_map]
  rfl

theorem fullLog_length : (fullLog inLabels prog outs).length = numProgNodes prog + inLabels.length + outs.length := by
  simp [fullLog, progLog_length]; omega

/-- number of nodes = number of uses + number of definitions -/
theorem built_nodes_length :
    (builtTerm inLabels prog outs).hypergraph.nodes.length = numProgNodes prog + inLabels.length + outs.length := by
  rw [built_nodes, List.length_map, nodeVars, List.length_map, fullLog_length]

/-- (interfaces) the declared inputs and outputs in order: the last `inLabels.length + |outs|` nodes -/
theorem built_sources : (builtTerm inLabels prog outs).sources = List.range' (numProgNodes prog) inLabels.length := by
  simp [builtTerm, concF, progNodes_eq]

theorem built_targets :
    (builtTerm inLabels prog outs).targets = List.range' (numProgNodes prog + inLabels.length) outs.length := by
  simp [builtTerm, concF, progNodes_eq]

theorem built_quotient : (builtTerm inLabels prog outs).hypergraph.quotient = ([], []) := rfl

/-- the `k`-th source node is attached, on the SOURCE side, to input variable `k` -/
theorem fullLog_source (k : Nat) (hk : k < inLabels.length) :
    (fullLog inLabels prog outs)[numProgNodes prog + k]? = some (k, true) := by
  unfold fullLog
  rw [List.append_assoc, List.getElem?_append_right (by rw [progLog_length]; omega), progLog_length,
    Nat.add_sub_cancel_left, List.getElem?_append_left (by simpa using hk)]
  simp [hk]

/-- the `i`-th target node is attached, on the TARGET side, to variable `outs[i]` -/
theorem fullLog_target (i : Nat) (hi : i < outs.length) :
    (fullLog inLabels prog outs)[numProgNodes prog + inLabels.length + i]? = some (outs[i], false) := by
  unfold fullLog
  rw [List.getElem?_append_right (by simp [progLog_length])]
  simp [progLog_length, hi]

/-! ### variable edges -/

theorem progVarEdges_props (eb : Nat) (prog : List VarIns) :
    (progVarEdges eb prog).Pairwise (· < ·) ∧ ∀ e ∈ progVarEdges eb prog, eb ≤ e := by
  induction prog generalizing eb with
  | nil => simp [progVarEdges]
  | cons ins rest ih =>
    obtain ⟨h1, h2⟩ := ih (eb + (insRts ins).length + 1)
    simp only [progVarEdges]
    refine ⟨?_, ?_⟩
    · rw [List.pairwise_append]
      refine ⟨List.pairwise_lt_range', h1, ?_⟩
      intro a ha b hb
      have := List.mem_range'_1.1 ha
      have := h2 b hb
      omega
    · intro e he
      rcases List.mem_append.1 he with he | he
      · exact (List.mem_range'_1.1 he).1
      · have := h2 e he; omega

/-- variable edge ids are strictly increasing in the variable index -/
theorem varEdges_pairwise : (varEdges inLabels prog).Pairwise (· < ·) := by
  unfold varEdges
  rw [List.pairwise_append]
  refine ⟨List.pairwise_lt_range, (progVarEdges_props inLabels.length prog).1, ?_⟩
  intro a ha b hb
  have := List.mem_range.1 ha
  have := (progVarEdges_props inLabels.length prog).2 b hb
  omega

theorem varEdges_nodup : (varEdges inLabels prog).Nodup :=
  (varEdges_pairwise inLabels prog).imp (fun h => Nat.ne_of_lt h)

/-- distinct variables have distinct edges -/
theorem varEdge_inj {k k' : Nat} (hk : k < numVars inLabels prog) (hk' : k' < numVars inLabels prog)
    (h : varEdge inLabels prog k = varEdge inLabels prog k') : k = k' := by
  have h1 : k < (varEdges inLabels prog).length := by rw [varEdges_length]; exact hk
  have h2 : k' < (varEdges inLabels prog).length := by rw [varEdges_length]; exact hk'
  apply (List.getElem?_inj h1 (varEdges_nodup inLabels prog)).1
  unfold varEdge at h
  rw [List.getD_eq_getElem?_getD, List.getD_eq_getElem?_getD, List.getElem?_eq_getElem h1,
    List.getElem?_eq_getElem h2] at h
  rw [List.getElem?_eq_getElem h1, List.getElem?_eq_getElem h2]
  simpa using h

theorem pos_map_inj (log : List (Nat × Bool)) (f : Nat → Nat) (k : Nat) (b : Bool)
    (hinj : ∀ x ∈ log, f x.1 = f k → x.1 = k) :
    pos (log.map (fun x => (f x.1, x.2))) (f k) b = pos log k b := by
  unfold pos
  rw [List.length_map]
  apply List.filter_congr
  intro n hn
  rw [List.getElem?_map]
  cases hx : log[n]? with
  | none => simp
  | some x =>
    have hm := List.mem_of_getElem? hx
    obtain ⟨x1, x2⟩ := x
    simp only [Option.map_some, Option.some.injEq, Prod.mk.injEq, decide_eq_decide]
    constructor
    · rintro ⟨h1, h2⟩; exact ⟨hinj _ hm h1, h2⟩
    · rintro ⟨h1, h2⟩; exact ⟨by rw [h1], h2⟩

theorem mem_pos_iff (log : List (Nat × Bool)) (k : Nat) (b : Bool) (n : Nat) :
    n ∈ pos log k b ↔ log[n]? = some (k, b) := by
  unfold pos
  simp only [List.mem_filter, List.mem_range, decide_eq_true_eq]
  constructor
  · exact fun h => h.2
  · exact fun h => ⟨(List.getElem?_eq_some_iff.1 h).1, h⟩

theorem pos_nodup (log : List (Nat × Bool)) (k : Nat) (b : Bool) : (pos log k b).Nodup :=
  List.Nodup.sublist List.filter_sublist List.nodup_range

theorem pos_pairwise (log : List (Nat × Bool)) (k : Nat) (b : Bool) : (pos log k b).Pairwise (· < ·) :=
  List.Pairwise.sublist List.filter_sublist List.pairwise_lt_range

/-- `pos` in terms of `nodeVars` / `nodeIsSrc` -/
theorem pos_fullLog (k : Nat) (b : Bool) :
    pos (fullLog inLabels prog outs) k b =
      (List.range (nodeVars inLabels prog outs).length).filter (fun n =>
        decide ((nodeVars inLabels prog outs)[n]? = some k ∧ (nodeIsSrc inLabels prog outs)[n]? = some b)) := by
  unfold pos nodeVars nodeIsSrc
  rw [List.length_map]
  apply List.filter_congr
  intro n _
  simp only [List.getElem?_map]
  cases (fullLog inLabels prog outs)[n]? with
  | none => simp
  | some x => obtain ⟨x1, x2⟩ := x; simp

theorem fullLog_inScope (h : WellScoped inLabels prog outs) :
    ∀ x ∈ fullLog inLabels prog outs, x.1 < numVars inLabels prog := by
  have hg := (build_eq inLabels prog outs h).2.1
  intro x hx
  have := hg.inScope x (by rw [finalState_eq]; exact hx)
  rwa [finalState_vars, progState_vars_length] at this

theorem nodeVars_inScope (h : WellScoped inLabels prog outs) :
    ∀ k ∈ nodeVars inLabels prog outs, k < numVars inLabels prog := by
  intro k hk
  obtain ⟨x, hx, rfl⟩ := List.mem_map.1 hk
  exact fullLog_inScope inLabels prog outs h x hx

/-- the edge of variable `k` is labelled 99 -/
theorem built_var_edge_label (h : WellScoped inLabels prog outs) (k : Nat) (hk : k < numVars inLabels prog) :
    (builtTerm inLabels prog outs).hypergraph.edges[varEdge inLabels prog k]? = some 99 ∧
    (finalState inLabels prog outs).kinds[varEdge inLabels prog k]? = some (99, none) := by
  have hg := (build_eq inLabels prog outs h).2.1
  have hm : (progState inLabels prog).vars.getD k dflt ∈ (finalState inLabels prog outs).vars := by
    rw [finalState_vars, List.getD_eq_getElem?_getD,
      List.getElem?_eq_getElem (by rw [progState_vars_length]; exact hk)]
    simp
  have h1 := hg.isVar _ hm
  rw [progState_var] at h1
  refine ⟨?_, h1⟩
  simp only [builtTerm, concF, concH, List.getElem?_map]
  simp only at h1
  rw [h1]; rfl

/-- (variable edges) the edge of variable `k` has as sources exactly the nodes attached to `k` on the
    source side and as targets exactly the nodes attached to `k` on the target side, in increasing
    order -/
theorem built_var_adjacency (h : WellScoped inLabels prog outs) (k : Nat) (hk : k < numVars inLabels prog) :
    (builtTerm inLabels prog outs).hypergraph.adjacency[varEdge inLabels prog k]? =
      some ⟨pos (fullLog inLabels prog outs) k true, pos (fullLog inLabels prog outs) k false⟩ := by
  have h1 := (built_var_edge_label inLabels prog outs h k hk).2
  show (concH _ _ _).adjacency[_]? = _
  rw [concH_adj_getElem?, h1, finalState_elog]
  have hinj : ∀ x ∈ fullLog inLabels prog outs, varEdge inLabels prog x.1 = varEdge inLabels prog k → x.1 = k :=
    fun x hx he => varEdge_inj inLabels prog (fullLog_inScope inLabels prog outs h x hx) hk he
  simp only [Option.map_some, adjEntry]
  rw [pos_map_inj _ (varEdge inLabels prog) k true hinj, pos_map_inj _ (varEdge inLabels prog) k false hinj]

/-! ### operator edges -/

theorem numProgNodes_append (a b : List VarIns) :
    numProgNodes (a ++ b) = numProgNodes a + numProgNodes b := by simp [numProgNodes]
theorem numProgEdges_append (a b : List VarIns) :
    numProgEdges (a ++ b) = numProgEdges a + numProgEdges b := by simp [numProgEdges]
theorem numRes_append (a b : List VarIns) : numRes (a ++ b) = numRes a + numRes b := by simp [numRes]

theorem progKinds_append (nb : Nat) (a b : List VarIns) :
    progKinds nb (a ++ b) = progKinds nb a ++ progKinds (nb + numProgNodes a) b := by
  induction a generalizing nb with
  | nil => simp [progKinds, numProgNodes]
  | cons ins a ih =>
    have e : nb + (insArgs ins).length + (insRts ins).length + numProgNodes a =
        nb + ((insArgs ins).length + (insRts ins).length + numProgNodes a) := by omega
    simp only [List.cons_append, progKinds, ih, numProgNodes_cons, List.append_assoc, e]

theorem progLog_append (vb : Nat) (a b : List VarIns) :
    progLog vb (a ++ b) = progLog vb a ++ progLog (vb + numRes a) b := by
  induction a generalizing vb with
  | nil => simp [progLog, numRes]
  | cons ins a ih =>
    have e : vb + (insRts ins).length + numRes a = vb + ((insRts ins).length + numRes a) := by omega
    simp only [List.cons_append, progLog, ih, numRes_cons, List.append_assoc, e]

theorem prog_split (j : Nat) (hj : j < prog.length) :
    prog = prog.take j ++ prog[j] :: prog.drop (j + 1) := by
  rw [List.getElem_cons_drop, List.take_append_drop]

theorem opEdge_eq (j : Nat) (hj : j < prog.length) :
    opEdge inLabels prog j = inLabels.length + numProgEdges (prog.take j) + (insRts prog[j]).length := by
  simp [opEdge, List.getElem?_eq_getElem hj]

theorem kinds_opEdge (j : Nat) (hj : j < prog.length) :
    (List.replicate inLabels.length ((99, none) : Kind) ++ progKinds 0 prog)[opEdge inLabels prog j]? =
      some (insLabel prog[j], some ⟨List.range' (nodeBase prog j) (insArgs prog[j]).length,
        List.range' (nodeBase prog j + (insArgs prog[j]).length) (insRts prog[j]).length⟩) := by
  rw [opEdge_eq inLabels prog j hj]
  conv => lhs; arg 1; arg 2; rw [prog_split prog j hj]
  rw [progKinds_append]
  simp only [progKinds, Nat.zero_add, nodeBase]
  rw [List.getElem?_append_right (by simp; omega)]
  rw [List.getElem?_append_right (by simp [progKinds_length]; omega)]
  rw [List.append_assoc, List.getElem?_append_right (by simp [progKinds_length]; omega)]
  simp [progKinds_length]
  have : inLabels.length + numProgEdges (List.take j prog) + (insRts prog[j]).length - inLabels.length -
      numProgEdges (List.take j prog) - (insRts prog[j]).length = 0 := by omega
  rw [this]
  rfl

/-- (operator edges) instruction `j` owns exactly one edge, carrying its label; its sources are the
    `|args_j|` nodes created for its argument uses and its targets the `|rts_j|` nodes created for
    its results, in order -/
theorem built_op_adjacency (j : Nat) (hj : j < prog.length) :
    (builtTerm inLabels prog outs).hypergraph.edges[opEdge inLabels prog j]? = some (insLabel prog[j]) ∧
    (builtTerm inLabels prog outs).hypergraph.adjacency[opEdge inLabels prog j]? =
      some ⟨List.range' (nodeBase prog j) (insArgs prog[j]).length,
            List.range' (nodeBase prog j + (insArgs prog[j]).length) (insRts prog[j]).length⟩ := by
  have hk := kinds_opEdge inLabels prog j hj
  constructor
  · simp only [builtTerm, concF, concH, finalState_eq, List.getElem?_map, hk]; rfl
  · show (concH _ _ _).adjacency[_]? = _
    rw [concH_adj_getElem?]
    simp only [finalState_eq, hk]; rfl

/-- the `i`-th source node of operator `j` is attached, on the TARGET side (a use), to the variable
    `args_j[i]` -/
theorem fullLog_arg (j : Nat) (hj : j < prog.length) (i : Nat) (hi : i < (insArgs prog[j]).length) :
    (fullLog inLabels prog outs)[nodeBase prog j + i]? = some ((insArgs prog[j])[i], false) := by
  unfold fullLog nodeBase
  rw [List.append_assoc]
  conv => lhs; arg 1; arg 1; rw [prog_split prog j hj]
  rw [progLog_append]
  simp only [progLog, List.append_assoc]
  rw [List.getElem?_append_right (by simp [progLog_length])]
  rw [List.getElem?_append_left (by simp [progLog_length]; exact hi)]
  simp [progLog_length, hi]

/-- the `r`-th target node of operator `j` is attached, on the SOURCE side (the definition), to the
    `r`-th result variable of instruction `j` -/
theorem fullLog_res (j : Nat) (hj : j < prog.length) (r : Nat) (hr : r < (insRts prog[j]).length) :
    (fullLog inLabels prog outs)[nodeBase prog j + (insArgs prog[j]).length + r]? =
      some (varBase inLabels prog j + r, true) := by
  unfold fullLog nodeBase varBase numVars
  rw [List.append_assoc]
  conv => lhs; arg 1; arg 1; rw [prog_split prog j hj]
  rw [progLog_append]
  simp only [progLog, List.append_assoc]
  rw [List.getElem?_append_right (by simp [progLog_length]; omega)]
  rw [List.getElem?_append_right (by simp [progLog_length]; omega)]
  rw [List.getElem?_append_left (by simp [progLog_length]; omega)]
  simp only [progLog_length, List.length_map, List.getElem?_map]
  have : numProgNodes (List.take j prog) + (insArgs prog[j]).length + r - numProgNodes (List.take j prog) -
      (insArgs prog[j]).length = r := by omega
  rw [this, List.getElem?_range' hr]
  simp

/-! ### every edge is a variable edge or an operator edge -/

theorem edge_cover_aux (eb : Nat) (prog : List VarIns) (e : Nat) (h1 : eb ≤ e)
    (h2 : e < eb + numProgEdges prog) :
    e ∈ progVarEdges eb prog ∨
      ∃ j, ∃ hj : j < prog.length, e = eb + numProgEdges (prog.take j) + (insRts prog[j]).length := by
  induction prog generalizing eb with
  | nil => simp [numProgEdges] at h2; omega
  | cons ins rest ih =>
    rw [numProgEdges_cons] at h2
    by_cases hlt : e < eb + (insRts ins).length
    · left
      simp only [progVarEdges, List.mem_append]
      left
      exact List.mem_range'_1.2 ⟨h1, hlt⟩
    · by_cases heq : e = eb + (insRts ins).length
      · right
        exact ⟨0, by simp, by simp [numProgEdges, heq]⟩
      · rcases ih (eb + (insRts ins).length + 1) (by omega) (by omega) with hm | ⟨j, hj, hjeq⟩
        · left
          simp only [progVarEdges, List.mem_append]
          exact Or.inr hm
        · right
          refine ⟨j + 1, by simpa using hj, ?_⟩
          simp only [List.take_succ_cons, numProgEdges_cons, List.getElem_cons_succ]
          omega

/-- every edge of the built term is the edge of a variable or the edge of an instruction -/
theorem edge_cover (e : Nat) (he : e < (builtTerm inLabels prog outs).hypergraph.edges.length) :
    (∃ k, k < numVars inLabels prog ∧ varEdge inLabels prog k = e) ∨
    (∃ j, j < prog.length ∧ opEdge inLabels prog j = e) := by
  have hlen : (builtTerm inLabels prog outs).hypergraph.edges.length = inLabels.length + numProgEdges prog := by
    simp [builtTerm, concF, concH, finalState_eq, progKinds_length]
  rw [hlen] at he
  have key : e ∈ varEdges inLabels prog ∨ ∃ j, j < prog.length ∧ opEdge inLabels prog j = e := by
    by_cases h0 : e < inLabels.length
    · left; unfold varEdges; exact List.mem_append_left _ (List.mem_range.2 h0)
    · rcases edge_cover_aux inLabels.length prog e (by omega) he with hm | ⟨j, hj, hjeq⟩
      · left; unfold varEdges; exact List.mem_append_right _ hm
      · right; exact ⟨j, hj, by rw [opEdge_eq inLabels prog j hj, hjeq]⟩
  rcases key with hm | hop
  · left
    obtain ⟨k, hk, hke⟩ := List.getElem_of_mem hm
    refine ⟨k, by rwa [varEdges_length] at hk, ?_⟩
    unfold varEdge
    rw [List.getD_eq_getElem?_getD, List.getElem?_eq_getElem hk]
    simpa using hke
  · exact Or.inr hop

/-- a variable edge is never the edge of an instruction (even when the instruction is labelled 99) -/
theorem varEdge_ne_opEdge (h : WellScoped inLabels prog outs) (k : Nat) (hk : k < numVars inLabels prog)
    (j : Nat) (hj : j < prog.length) : varEdge inLabels prog k ≠ opEdge inLabels prog j := by
  intro he
  have h1 := (built_var_edge_label inLabels prog outs h k hk).2
  have h2 := kinds_opEdge inLabels prog j hj
  rw [finalState_eq, he] at h1
  simp only at h1
  rw [h2] at h1
  injection h1 with h1
  injection h1 with _ h1
  cases h1

theorem numProgEdges_take_mono (prog : List VarIns) {j j' : Nat} (h : j ≤ j') :
    numProgEdges (prog.take j) ≤ numProgEdges (prog.take j') := by
  induction prog generalizing j j' with
  | nil => simp
  | cons ins rest ih =>
    cases j with
    | zero => simp [numProgEdges]
    | succ j =>
      cases j' with
      | zero => omega
      | succ j' =>
        simp only [List.take_succ_cons, numProgEdges_cons]
        have := ih (j := j) (j' := j') (by omega)
        omega

theorem numProgNodes_take_mono (prog : List VarIns) {j j' : Nat} (h : j ≤ j') :
    numProgNodes (prog.take j) ≤ numProgNodes (prog.take j') := by
  induction prog generalizing j j' with
  | nil => simp
  | cons ins rest ih =>
    cases j with
    | zero => simp [numProgNodes]
    | succ j =>
      cases j' with
      | zero => omega
      | succ j' =>
        simp only [List.take_succ_cons, numProgNodes_cons]
        have := ih (j := j) (j' := j') (by omega)
        omega

theorem take_succ_eq (prog : List VarIns) (j : Nat) (hj : j < prog.length) :
    prog.take (j + 1) = prog.take j ++ [prog[j]] := by
  induction prog generalizing j with
  | nil => simp at hj
  | cons ins rest ih =>
    cases j with
    | zero => simp
    | succ j =>
      rw [List.take_succ_cons, ih j (by simpa using hj), List.take_succ_cons, List.getElem_cons_succ]
      rfl

theorem nodeBase_succ (j : Nat) (hj : j < prog.length) :
    nodeBase prog (j + 1) = nodeBase prog j + (insArgs prog[j]).length + (insRts prog[j]).length := by
  unfold nodeBase
  rw [take_succ_eq prog j hj, numProgNodes_append]
  simp [numProgNodes]; omega

/-- distinct instructions have distinct edges -/
theorem opEdge_inj {j j' : Nat} (hj : j < prog.length) (hj' : j' < prog.length)
    (h : opEdge inLabels prog j = opEdge inLabels prog j') : j = j' := by
  have key : ∀ a b, a < b → (hb : b < prog.length) → opEdge inLabels prog a < opEdge inLabels prog b := by
    intro a b hab hb
    have ha : a < prog.length := by omega
    rw [opEdge_eq inLabels prog a ha, opEdge_eq inLabels prog b hb]
    have h1 := numProgEdges_take_mono prog (j := a + 1) (j' := b) hab
    have hs : numProgEdges [prog[a]] = (insRts prog[a]).length + 1 := by simp [numProgEdges]
    rw [take_succ_eq prog a ha, numProgEdges_append, hs] at h1
    omega
  rcases Nat.lt_trichotomy j j' with hlt | heq | hgt
  · have := key j j' hlt hj'; omega
  · exact heq
  · have := key j' j hgt hj; omega

/-! ### corollaries -/

theorem count_pos (log : List (Nat × Bool)) (k : Nat) (b : Bool) (n : Nat) :
    (pos log k b).count n = if log[n]? = some (k, b) then 1 else 0 := by
  rw [(pos_nodup log k b).count]
  simp only [mem_pos_iff]

/-- every node is incident to exactly one variable edge, on exactly one side, exactly once: node `n`
    occurs once in the side `nodeIsSrc[n]` of the edge of `nodeVars[n]` and nowhere else in any
    variable edge -/
theorem node_unique_var_edge (h : WellScoped inLabels prog outs) (n : Nat)
    (hn : n < (builtTerm inLabels prog outs).hypergraph.nodes.length) :
    ∃ k b, k < numVars inLabels prog ∧ (nodeVars inLabels prog outs)[n]? = some k ∧
      (nodeIsSrc inLabels prog outs)[n]? = some b ∧
      ∀ k', k' < numVars inLabels prog → ∀ ed,
        (builtTerm inLabels prog outs).hypergraph.adjacency[varEdge inLabels prog k']? = some ed →
        ed.sources.count n = (if k' = k ∧ b = true then 1 else 0) ∧
        ed.targets.count n = (if k' = k ∧ b = false then 1 else 0) := by
  rw [built_nodes_length, ← fullLog_length inLabels prog outs] at hn
  have hx : (fullLog inLabels prog outs)[n]? = some (fullLog inLabels prog outs)[n] := List.getElem?_eq_getElem hn
  rcases hxx : (fullLog inLabels prog outs)[n] with ⟨k, b⟩
  rw [hxx] at hx
  have hk : k < numVars inLabels prog := fullLog_inScope inLabels prog outs h (k, b) (List.mem_of_getElem? hx)
  refine ⟨k, b, hk, by simp [nodeVars, hx], by simp [nodeIsSrc, hx], ?_⟩
  intro k' hk' ed hed
  rw [built_var_adjacency inLabels prog outs h k' hk'] at hed
  cases hed
  simp only [count_pos, hx, Option.some.injEq, Prod.mk.injEq]
  constructor
  · congr 1; apply propext; constructor
    · rintro ⟨rfl, rfl⟩; exact ⟨rfl, rfl⟩
    · rintro ⟨rfl, rfl⟩; exact ⟨rfl, rfl⟩
  · congr 1; apply propext; constructor
    · rintro ⟨rfl, rfl⟩; exact ⟨rfl, rfl⟩
    · rintro ⟨rfl, rfl⟩; exact ⟨rfl, rfl⟩

/-- the nodes of operator edge `j` are the interval `[nodeBase j, nodeBase (j+1))`, each once -/
theorem op_edge_nodes (j : Nat) (hj : j < prog.length) (ed : LEdge)
    (hed : (builtTerm inLabels prog outs).hypergraph.adjacency[opEdge inLabels prog j]? = some ed) :
    ed.sources ++ ed.targets =
      List.range' (nodeBase prog j) ((insArgs prog[j]).length + (insRts prog[j]).length) := by
  rw [(built_op_adjacency inLabels prog outs j hj).2] at hed
  cases hed
  simp only
  rw [List.range'_append_1]

/-- every node is incident to at most one operator edge, at most once; the interface nodes are
    incident to none -/
theorem node_atmost_one_op (n : Nat) (j : Nat) (hj : j < prog.length) (ed : LEdge)
    (hed : (builtTerm inLabels prog outs).hypergraph.adjacency[opEdge inLabels prog j]? = some ed)
    (hn : n ∈ ed.sources ++ ed.targets) :
    (ed.sources ++ ed.targets).count n = 1 ∧ n < numProgNodes prog ∧
    ∀ j', j' < prog.length → ∀ ed',
      (builtTerm inLabels prog outs).hypergraph.adjacency[opEdge inLabels prog j']? = some ed' →
      n ∈ ed'.sources ++ ed'.targets → j' = j := by
  have h1 := op_edge_nodes inLabels prog outs j hj ed hed
  have hn1 := hn
  rw [h1] at hn1
  have hr := List.mem_range'_1.1 hn1
  have hs := nodeBase_succ prog j hj
  have hP : nodeBase prog (j + 1) ≤ numProgNodes prog := by
    have := numProgNodes_take_mono prog (j := j + 1) (j' := prog.length) hj
    simpa [nodeBase] using this
  refine ⟨?_, by omega, ?_⟩
  · have hnd : (ed.sources ++ ed.targets).Nodup := by rw [h1]; exact List.nodup_range'
    rw [hnd.count, if_pos hn]
  · intro j' hj' ed' hed' hn'
    rw [op_edge_nodes inLabels prog outs j' hj' ed' hed'] at hn'
    have hr' := List.mem_range'_1.1 hn'
    have hs' := nodeBase_succ prog j' hj'
    rcases Nat.lt_trichotomy j' j with hlt | heq | hgt
    · have := numProgNodes_take_mono prog (j := j' + 1) (j' := j) hlt
      unfold nodeBase at *; omega
    · exact heq
    · have := numProgNodes_take_mono prog (j := j + 1) (j' := j') hgt
      unfold nodeBase at *; omega

/-- all nodes incident to the edge of variable `k` carry the label of `k` -/
theorem var_edge_uniform (h : WellScoped inLabels prog outs) (k : Nat) (hk : k < numVars inLabels prog)
    (ed : LEdge) (hed : (builtTerm inLabels prog outs).hypergraph.adjacency[varEdge inLabels prog k]? = some ed) :
    ∀ n ∈ ed.sources ++ ed.targets,
      (builtTerm inLabels prog outs).hypergraph.nodes[n]? = some ((varLabels inLabels prog).getD k 0) := by
  rw [built_var_adjacency inLabels prog outs h k hk] at hed
  cases hed
  intro n hn
  have : ∃ b, (fullLog inLabels prog outs)[n]? = some (k, b) := by
    rcases List.mem_append.1 hn with hn | hn
    · exact ⟨true, (mem_pos_iff _ _ _ _).1 hn⟩
    · exact ⟨false, (mem_pos_iff _ _ _ _).1 hn⟩
  obtain ⟨b, hb⟩ := this
  rw [built_nodes, nodeVars, List.map_map, List.getElem?_map, hb]
  rfl

/-! ### every variable has exactly one definition -/

theorem progLog_srcVars (vb : Nat) (prog : List VarIns) :
    ((progLog vb prog).filter (·.2)).map (·.1) = List.range' vb (numRes prog) := by
  induction prog generalizing vb with
  | nil => rfl
  | cons ins rest ih =>
    have h1 : ((insArgs ins).map (fun k => (k, false))).filter (·.2) = [] := by
      rw [List.filter_eq_nil_iff]; intro x hx
      obtain ⟨k, _, rfl⟩ := List.mem_map.1 hx; simp
    have h2 : ((List.range' vb (insRts ins).length).map (fun k => (k, true))).filter (·.2) =
        (List.range' vb (insRts ins).length).map (fun k => (k, true)) := by
      rw [List.filter_eq_self]; intro x hx
      obtain ⟨k, _, rfl⟩ := List.mem_map.1 hx; rfl
    simp only [progLog, List.filter_append, h1, h2, List.nil_append, List.map_append, List.map_map, ih,
      numRes_cons]
    rw [← List.range'_append_1]
    congr 1
    exact List.map_id' _

/-- the source-side nodes, in creation order, are attached to: every result variable, then every
    input variable — each variable exactly once -/
theorem fullLog_srcVars :
    ((fullLog inLabels prog outs).filter (·.2)).map (·.1) = List.range' inLabels.length (numRes prog) ++ List.range inLabels.length := by
  have h1 : (outs.map (fun k => (k, false))).filter (·.2) = [] := by
    rw [List.filter_eq_nil_iff]; intro x hx
    obtain ⟨k, _, rfl⟩ := List.mem_map.1 hx; simp
  have h2 : ((List.range inLabels.length).map (fun k => (k, true))).filter (·.2) =
      (List.range inLabels.length).map (fun k => (k, true)) := by
    rw [List.filter_eq_self]; intro x hx
    obtain ⟨k, _, rfl⟩ := List.mem_map.1 hx; rfl
  simp only [fullLog, List.filter_append, h1, h2, List.append_nil, List.map_append, progLog_srcVars,
    List.map_map]
  congr 1
  exact List.map_id' _

theorem count_src (log : List (Nat × Bool)) (k : Nat) :
    log.count (k, true) = ((log.filter (·.2)).map (·.1)).count k := by
  induction log with
  | nil => rfl
  | cons x log ih =>
    obtain ⟨x1, x2⟩ := x
    cases x2 with
    | false => simp [ih]
    | true => simp [List.count_cons, ih]

theorem pos_length (log : List (Nat × Bool)) (k : Nat) (b : Bool) :
    (pos log k b).length = log.count (k, b) := by
  have key : ∀ n (log : List (Nat × Bool)), log.length = n → (pos log k b).length = log.count (k, b) := by
    intro n
    induction n with
    | zero =>
      intro log hl
      have : log = [] := List.eq_nil_of_length_eq_zero hl
      subst this; rfl
    | succ n ih =>
      intro log hl
      rcases List.eq_nil_or_concat log with h0 | ⟨log', x, rfl⟩
      · subst h0; simp at hl
      · rw [List.concat_eq_append] at hl ⊢
        have hl' : log'.length = n := by simpa using hl
        rw [pos_snoc, List.length_append, ih log' hl', List.count_append]
        by_cases hx : x = (k, b)
        · simp [hx]
        · simp [hx]
  exact key _ log rfl

/-- **every variable edge has exactly one source node** (the value produced for the variable: the
    result node of the defining operator, or the interface node of an input) -/
theorem var_edge_one_source (k : Nat) (hk : k < numVars inLabels prog) :
    (pos (fullLog inLabels prog outs) k true).length = 1 := by
  rw [pos_length, count_src, fullLog_srcVars]
  have hnd : (List.range' inLabels.length (numRes prog) ++ List.range inLabels.length).Nodup := by
    rw [List.nodup_append]
    refine ⟨List.nodup_range', List.nodup_range, ?_⟩
    intro a ha b hb
    have := List.mem_range'_1.1 ha
    have := List.mem_range.1 hb
    omega
  rw [hnd.count, if_pos]
  rw [List.mem_append, List.mem_range'_1, List.mem_range]
  unfold numVars at hk
  omega

/-! ### forgetting the variable edges -/

/-- labels of the source / target nodes of edge `e`: the type at which `map_arrow` applies
    `map_operation` to the edge -/
def edgeSrcLabels (t : LF) (e : Nat) : List Nat :=
  ((t.hypergraph.adjacency[e]?).getD ⟨[], []⟩).sources.map (fun n => t.hypergraph.nodes.getD n 0)
def edgeTgtLabels (t : LF) (e : Nat) : List Nat :=
  ((t.hypergraph.adjacency[e]?).getD ⟨[], []⟩).targets.map (fun n => t.hypergraph.nodes.getD n 0)

/-- number of uses of variable `k`: as an argument of an instruction or as a declared output -/
def numUses (inLabels : List Nat) (prog : List VarIns) (outs : List Nat) (k : Nat) : Nat :=
  (fullLog inLabels prog outs).count (k, false)

/-- the edge of variable `k` has type `[l] → [l, …, l]` (one entry per use), `l` the label of `k` -/
theorem var_edge_labels (h : WellScoped inLabels prog outs) (k : Nat) (hk : k < numVars inLabels prog) :
    edgeSrcLabels (builtTerm inLabels prog outs) (varEdge inLabels prog k) = [(varLabels inLabels prog).getD k 0] ∧
    edgeTgtLabels (builtTerm inLabels prog outs) (varEdge inLabels prog k) =
      List.replicate (numUses inLabels prog outs k) ((varLabels inLabels prog).getD k 0) := by
  have hadj := built_var_adjacency inLabels prog outs h k hk
  have hu := var_edge_uniform inLabels prog outs h k hk _ hadj
  have hget : ∀ n, n ∈ pos (fullLog inLabels prog outs) k true ++ pos (fullLog inLabels prog outs) k false →
      (builtTerm inLabels prog outs).hypergraph.nodes.getD n 0 = (varLabels inLabels prog).getD k 0 := by
    intro n hn
    rw [List.getD_eq_getElem?_getD, hu n hn]; rfl
  unfold edgeSrcLabels edgeTgtLabels numUses
  rw [hadj]
  simp only [Option.getD_some]
  constructor
  · have h1 := var_edge_one_source inLabels prog outs k hk
    have : List.map (fun n => (builtTerm inLabels prog outs).hypergraph.nodes.getD n 0)
        (pos (fullLog inLabels prog outs) k true) = List.replicate 1 ((varLabels inLabels prog).getD k 0) := by
      rw [List.eq_replicate_iff]
      refine ⟨by simp [h1], ?_⟩
      intro x hx
      obtain ⟨n, hn, rfl⟩ := List.mem_map.1 hx
      exact hget n (List.mem_append_left _ hn)
    rw [this]; rfl
  · rw [List.eq_replicate_iff]
    refine ⟨by simp [pos_length], ?_⟩
    intro x hx
    obtain ⟨n, hn, rfl⟩ := List.mem_map.1 hx
    exact hget n (List.mem_append_right _ hn)

/-- `Forget` replaces the edge of every variable `k` by the one-node spider `1 → 1 ← uses(k)`
    labelled like `k`.  (The case "no nodes ↦ empty diagram" of `Forget::map_operation` never arises
    for a built term: every variable edge has its definition node.)  Variable edges are identified
    by EDGE ID — see the remark below on instructions labelled 99. -/
theorem forget_replaces_var_edges (h : WellScoped inLabels prog outs) (k : Nat) (hk : k < numVars inLabels prog) :
    let s := edgeSrcLabels (builtTerm inLabels prog outs) (varEdge inLabels prog k)
    let t := edgeTgtLabels (builtTerm inLabels prog outs) (varEdge inLabels prog k)
    (builtTerm inLabels prog outs).hypergraph.edges[varEdge inLabels prog k]? = some 99 ∧
    Var.allElementsEqual s t = true ∧
    s.length = 1 ∧ t.length = numUses inLabels prog outs k ∧
    Var.forgetOperation 99 99 s t =
      .ok (oneNodeSpider s.length t.length ((varLabels inLabels prog).getD k 0)) := by
  intro s t
  obtain ⟨hs, ht⟩ := var_edge_labels inLabels prog outs h k hk
  have hs' : s = [(varLabels inLabels prog).getD k 0] := hs
  have ht' : t = List.replicate (numUses inLabels prog outs k) ((varLabels inLabels prog).getD k 0) := ht
  have hall : ∀ x ∈ s ++ t, x = (varLabels inLabels prog).getD k 0 := by
    intro x hx
    rw [hs', ht'] at hx
    simp only [List.cons_append, List.nil_append, List.mem_cons, List.mem_replicate] at hx
    rcases hx with rfl | ⟨_, rfl⟩ <;> rfl
  have hcons : s ++ t = (varLabels inLabels prog).getD k 0 :: t := by rw [hs']; rfl
  refine ⟨(built_var_edge_label inLabels prog outs h k hk).1, ?_, by rw [hs']; rfl, by rw [ht']; simp, ?_⟩
  · exact (allElementsEqual_head s t _ _ hcons).2 hall
  · exact (forgetOperation_cases (99 : Nat) 99 s t).2.1 _ _ rfl hcons hall

theorem nodeVars_of_fullLog {n k : Nat} {b : Bool} (hx : (fullLog inLabels prog outs)[n]? = some (k, b)) :
    (nodeVars inLabels prog outs)[n]? = some k ∧ (nodeIsSrc inLabels prog outs)[n]? = some b := by
  simp [nodeVars, nodeIsSrc, hx]

/-- **C19, first clause: the closed form of the term built through the `Var` interface.** -/
theorem build_shape (h : WellScoped inLabels prog outs) :
    ∃ t, varBuildProg inLabels prog outs = .ok t ∧ t.wf = true ∧
      -- edges: one per variable (labelled 99) and one per applied operator, in creation order
      t.hypergraph.edges = edgeLabels inLabels prog ∧
      t.hypergraph.edges.length = numVars inLabels prog + prog.length ∧
      (∀ e, e < t.hypergraph.edges.length →
        (∃ k, k < numVars inLabels prog ∧ varEdge inLabels prog k = e) ∨
        (∃ j, j < prog.length ∧ opEdge inLabels prog j = e)) ∧
      -- nodes: one per use and one per definition, labelled like the variable
      t.hypergraph.nodes = (nodeVars inLabels prog outs).map (fun k => (varLabels inLabels prog).getD k 0) ∧
      t.hypergraph.nodes.length = numProgNodes prog + inLabels.length + outs.length ∧
      -- variable edges
      (∀ k, k < numVars inLabels prog →
        t.hypergraph.edges[varEdge inLabels prog k]? = some 99 ∧
        t.hypergraph.adjacency[varEdge inLabels prog k]? = some
          ⟨(List.range (nodeVars inLabels prog outs).length).filter (fun n =>
              decide ((nodeVars inLabels prog outs)[n]? = some k ∧ (nodeIsSrc inLabels prog outs)[n]? = some true)),
           (List.range (nodeVars inLabels prog outs).length).filter (fun n =>
              decide ((nodeVars inLabels prog outs)[n]? = some k ∧ (nodeIsSrc inLabels prog outs)[n]? = some false))⟩) ∧
      -- operator edges
      (∀ j (hj : j < prog.length),
        t.hypergraph.edges[opEdge inLabels prog j]? = some (insLabel prog[j]) ∧
        t.hypergraph.adjacency[opEdge inLabels prog j]? = some
          ⟨List.range' (nodeBase prog j) (insArgs prog[j]).length,
           List.range' (nodeBase prog j + (insArgs prog[j]).length) (insRts prog[j]).length⟩) ∧
      -- wiring: the i-th source of operator j is a use of `args_j[i]`, its r-th target the
      -- definition of its r-th result
      (∀ j (hj : j < prog.length) i (hi : i < (insArgs prog[j]).length),
        (nodeVars inLabels prog outs)[nodeBase prog j + i]? = some (insArgs prog[j])[i] ∧
        (nodeIsSrc inLabels prog outs)[nodeBase prog j + i]? = some false) ∧
      (∀ j (hj : j < prog.length) r, r < (insRts prog[j]).length →
        (nodeVars inLabels prog outs)[nodeBase prog j + (insArgs prog[j]).length + r]? =
          some (varBase inLabels prog j + r) ∧
        (nodeIsSrc inLabels prog outs)[nodeBase prog j + (insArgs prog[j]).length + r]? = some true) ∧
      -- interfaces: the declared inputs and outputs, in order
      t.sources = List.range' (numProgNodes prog) inLabels.length ∧
      t.targets = List.range' (numProgNodes prog + inLabels.length) outs.length ∧
      (∀ k, k < inLabels.length →
        (nodeVars inLabels prog outs)[numProgNodes prog + k]? = some k ∧
        (nodeIsSrc inLabels prog outs)[numProgNodes prog + k]? = some true) ∧
      (∀ i (hi : i < outs.length),
        (nodeVars inLabels prog outs)[numProgNodes prog + inLabels.length + i]? = some outs[i] ∧
        (nodeIsSrc inLabels prog outs)[numProgNodes prog + inLabels.length + i]? = some false) ∧
      -- nothing is identified
      t.hypergraph.quotient = ([], []) := by
  obtain ⟨h1, _, h3⟩ := build_eq inLabels prog outs h
  refine ⟨builtTerm inLabels prog outs, h1, h3, built_edges inLabels prog outs, built_edges_length inLabels prog outs,
    edge_cover inLabels prog outs, built_nodes inLabels prog outs, built_nodes_length inLabels prog outs, ?_,
    built_op_adjacency inLabels prog outs, ?_, ?_, built_sources inLabels prog outs, built_targets inLabels prog outs,
    ?_, ?_, rfl⟩
  · intro k hk
    refine ⟨(built_var_edge_label inLabels prog outs h k hk).1, ?_⟩
    rw [built_var_adjacency inLabels prog outs h k hk, pos_fullLog, pos_fullLog]
  · intro j hj i hi
    exact nodeVars_of_fullLog inLabels prog outs (fullLog_arg inLabels prog outs j hj i hi)
  · intro j hj r hr
    exact nodeVars_of_fullLog inLabels prog outs (fullLog_res inLabels prog outs j hj r hr)
  · intro k hk
    exact nodeVars_of_fullLog inLabels prog outs (fullLog_source inLabels prog outs k hk)
  · intro i hi
    exact nodeVars_of_fullLog inLabels prog outs (fullLog_target inLabels prog outs i hi)

end shape

/-! ### the running example -/

section example_
/-- `x0 : 0`, `x1 : 1` inputs (two different sorts); `x2 := op7(x0, x1) : 5`;
    `(x3, x4) := op8(x2, x2) : (6, 6)`; outputs `x3, x0` -/
def exProg : List VarIns := [.op 7 [0, 1] [5], .op 8 [2, 2] [6, 6]]

example : WellScoped [0, 1] exProg [3, 0] := by decide
example : varLabels [0, 1] exProg = [0, 1, 5, 6, 6] := by decide
example : edgeLabels [0, 1] exProg = [99, 99, 99, 7, 99, 99, 8] := by decide
example : varEdges [0, 1] exProg = [0, 1, 2, 4, 5] ∧ opEdge [0, 1] exProg 0 = 3 ∧ opEdge [0, 1] exProg 1 = 6 := by decide
example : nodeVars [0, 1] exProg [3, 0] = [0, 1, 2, 2, 2, 3, 4, 0, 1, 3, 0] := by decide
example : nodeIsSrc [0, 1] exProg [3, 0] =
    [false, false, true, false, false, true, true, true, true, false, false] := by decide
example : nodeBase exProg 0 = 0 ∧ nodeBase exProg 1 = 3 ∧ numProgNodes exProg = 7 := by decide
example : builtTerm [0, 1] exProg [3, 0] =
    ⟨[7, 8], [9, 10],
      ⟨[0, 1, 5, 5, 5, 6, 6, 0, 1, 6, 0], [99, 99, 99, 7, 99, 99, 8],
       [⟨[7], [0, 10]⟩, ⟨[8], [1]⟩, ⟨[2], [3, 4]⟩, ⟨[0, 1], [2]⟩, ⟨[5], [9]⟩, ⟨[6], []⟩, ⟨[3, 4], [5, 6]⟩],
       ([], [])⟩⟩ := by decide
example : varBuildProg [0, 1] exProg [3, 0] = .ok (builtTerm [0, 1] exProg [3, 0]) := by decide
/-- variable 2 (label 5, defined by op7, used twice by op8): edge 2 = `[2] → [3, 4]`, forgotten to
    the spider `1 → 1 ← 2` -/
example : edgeSrcLabels (builtTerm [0, 1] exProg [3, 0]) (varEdge [0, 1] exProg 2) = [5] ∧
    edgeTgtLabels (builtTerm [0, 1] exProg [3, 0]) (varEdge [0, 1] exProg 2) = [5, 5] ∧
    numUses [0, 1] exProg [3, 0] 2 = 2 ∧
    Var.forgetOperation 99 99 [5] [5, 5] = .ok (oneNodeSpider 1 2 (5 : Nat) : LOHG Nat Nat) := by decide
/-- an unused variable (x4) still has its definition node: edge 5 = `[6] → []` -/
example : edgeSrcLabels (builtTerm [0, 1] exProg [3, 0]) (varEdge [0, 1] exProg 4) = [6] ∧
    edgeTgtLabels (builtTerm [0, 1] exProg [3, 0]) (varEdge [0, 1] exProg 4) = [] := by decide

/-- ill-scoped programs: a forward reference, a self reference and a bad output all panic -/
example : varBuildProg [0, 1] [.op 7 [0, 3] [5], .op 8 [2] [6]] [] = .panic "var:index" := by decide
example : varBuildProg [0] [.op 7 [1] [5]] [] = .panic "var:index" := by decide
example : varBuildProg [0] [] [1] = .panic "var:index" := by decide

/-! **Remark (modelling observation).**  Variable edges must be identified by EDGE ID (`varEdge k`),
    not by their label: an instruction may itself carry the label 99 (`A::var()`), and the theorems
    above hold for such programs too (`varEdge_ne_opEdge`).  `Forget::map_operation`, however, looks
    only at the label and at the uniformity of the type, so an OPERATOR labelled 99 with a uniform
    type is erased as well.  The Rust code has the same conflation: `HasVar::var()` is an ordinary
    value of the operation type `A`, and `operation(builder, vars, result_types, op)` accepts any
    `op : A`, including `A::var()`. -/
example : WellScoped [0] [.op 99 [0] [0]] [1] ∧
    (builtTerm [0] [.op 99 [0] [0]] [1]).hypergraph.edges = [99, 99, 99] ∧
    opEdge [0] [.op 99 [0] [0]] 0 = 2 ∧
    edgeSrcLabels (builtTerm [0] [.op 99 [0] [0]] [1]) 2 = [0] ∧
    edgeTgtLabels (builtTerm [0] [.op 99 [0] [0]] [1]) 2 = [0] ∧
    Var.forgetOperation 99 99 [0] [0] = .ok (oneNodeSpider 1 1 (0 : Nat) : LOHG Nat Nat) := by decide

end example_

/-! ## Part C: the type of a built term, and `forget` applied to it -/

section forget_link
variable (inLabels : List Nat) (prog : List VarIns) (outs : List Nat)

/-- the boundary type of the built term: the declared input labels `inLabels` (one entry per
    declared input, in order) and one entry per declared output, labelled like the output variable,
    in order -/
theorem built_type (h : WellScoped inLabels prog outs) :
    (builtTerm inLabels prog outs).source = .ok inLabels ∧
    (builtTerm inLabels prog outs).target =
      .ok (outs.map (fun k => (varLabels inLabels prog).getD k 0)) := by
  obtain ⟨_, _, hwf⟩ := build_eq inLabels prog outs h
  obtain ⟨hs, ht⟩ := LaxType.source_ok _ hwf
  have hnodes : (builtTerm inLabels prog outs).hypergraph.nodes =
      (progLog inLabels.length prog).map (fun x => (varLabels inLabels prog).getD x.1 0) ++
      ((List.range inLabels.length).map (fun k => (varLabels inLabels prog).getD k 0) ++
      outs.map (fun k => (varLabels inLabels prog).getD k 0)) := by
    rw [built_nodes]
    simp [nodeVars, fullLog, List.map_map, Function.comp_def]
  have e1 : ((progLog inLabels.length prog).map
      (fun x => (varLabels inLabels prog).getD x.1 0)).length = numProgNodes prog := by
    simp [progLog_length]
  have hin : (List.range inLabels.length).map (fun k => (varLabels inLabels prog).getD k 0) =
      inLabels := by
    apply List.ext_getElem (by simp)
    intro k h1 h2
    have hk : k < inLabels.length := by simpa using h1
    simp [varLabels, List.getD_eq_getElem?_getD, List.getElem?_append_left hk,
      List.getElem?_eq_getElem hk]
  constructor
  · rw [hs, built_sources, gatherP_range', hnodes, List.drop_left' e1,
      List.take_left' (by simp), hin]
  · rw [ht, built_targets, gatherP_range', hnodes, ← List.append_assoc,
      List.drop_left' (by simp [progLog_length]), List.take_of_length_le (by simp)]

/-- `forget` (= `Forget.map_arrow`, i.e. lax `define_map_arrow` through the strict representation)
    applied to a term built through the `Var` interface, for every lawful backend: defined,
    well-formed, without pending unifications, and of the type of the built term — the declared
    input labels `inLabels` and the labels of the declared outputs. -/
theorem forget_built_ok_type (B : Backend) (hB : B.Lawful) (h : WellScoped inLabels prog outs) :
    ∃ r, LFunctor.mapArrowViaStrict B (C12.forgetL (O := Nat) (99 : Nat)) (builtTerm inLabels prog outs) =
        .ok r ∧ r.wf = true ∧ r.hypergraph.quotient = ([], []) ∧
      r.source = .ok inLabels ∧
      r.target = .ok (outs.map (fun k => (varLabels inLabels prog).getD k 0)) := by
  obtain ⟨_, _, hwf⟩ := build_eq inLabels prog outs h
  obtain ⟨hs, ht⟩ := built_type inLabels prog outs h
  obtain ⟨r, h1, h2, h3, h4, h5⟩ := C12.forget_lax_ok_type B hB (99 : Nat) (builtTerm inLabels prog outs) hwf
    (LaxType.labelConsistent_of_nopending _ (built_quotient inLabels prog outs))
  exact ⟨r, h1, h2, h3, by rw [h4, hs], by rw [h5, ht]⟩

/-- on the running example `forget` leaves exactly the two operator edges -/
example : (LFunctor.mapArrowViaStrict vecBackend (C12.forgetL (O := Nat) (99 : Nat))
    (builtTerm [0, 1] exProg [3, 0])).bind (fun r => .ok (r.hypergraph.edges, r.source, r.target)) =
      .ok ([7, 8], .ok [0, 1], .ok [6, 0]) := by decide

end forget_link

end OH.C19
