/-
  C19 (first clause) — the term built through the `Var` interface.
-/
import OHVerif.Props.C19
import OHVerif.Props.C11
import OHVerif.Lemmas.LaxEdit
import OHVerif.Model.VarBuild

namespace OH.C19
open OH OH.VarB OH.LaxEdit

/-! ## Part 0: low-level abstract states -/

/-- positions (increasing) of the entry `(e, b)` in a log -/
def pos (log : List (Nat × Bool)) (e : Nat) (b : Bool) : List Nat :=
  (List.range log.length).filter (fun n => decide (log[n]? = some (e, b)))

theorem pos_snoc (log : List (Nat × Bool)) (x : Nat × Bool) (e : Nat) (b : Bool) :
    pos (log ++ [x]) e b = pos log e b ++ (if x = (e, b) then [log.length] else []) := by
  unfold pos
  rw [List.length_append, List.length_singleton, List.range_succ, List.filter_append]
  congr 1
  · apply List.filter_congr
    intro n hn
    have := List.mem_range.1 hn
    rw [List.getElem?_append_left this]
  · by_cases h : x = (e, b) <;> simp [h]

theorem pos_lt (log : List (Nat × Bool)) (e : Nat) (b : Bool) : ∀ n ∈ pos log e b, n < log.length := by
  intro n hn
  exact List.mem_range.1 (List.mem_filter.1 hn).1

theorem pos_eq_nil (log : List (Nat × Bool)) (e : Nat) (b : Bool) (h : ∀ x ∈ log, x.1 ≠ e) :
    pos log e b = [] := by
  unfold pos
  rw [List.filter_eq_nil_iff]
  intro n hn
  have hl := List.mem_range.1 hn
  simp only [decide_eq_true_eq]
  intro hc
  exact h _ (List.mem_of_getElem? hc) rfl

/-- kind of an edge: its label, and for operator edges the hyperedge it was created with -/
abbrev Kind := Nat × Option LEdge

def adjEntry (log : List (Nat × Bool)) (e : Nat) (k : Kind) : LEdge :=
  match k.2 with
  | some ed => ed
  | none => ⟨pos log e true, pos log e false⟩

def concH (kinds : List Kind) (log : List (Nat × Bool)) (labs : List Nat) : LHG Nat Nat :=
  ⟨labs, kinds.map (·.1), kinds.mapIdx (fun e k => adjEntry log e k), ([], [])⟩

theorem concH_adj_getElem? (kinds : List Kind) (log : List (Nat × Bool)) (labs : List Nat) (e : Nat) :
    (concH kinds log labs).adjacency[e]? = kinds[e]?.map (adjEntry log e) := by
  simp [concH, List.getElem?_mapIdx]

theorem varNew_concH (kinds : List Kind) (log : List (Nat × Bool)) (labs : List Nat) (s t : List Nat)
    (l : Nat) (hlog : ∀ x ∈ log, x.1 < kinds.length) :
    varNew ⟨s, t, concH kinds log labs⟩ l =
      (⟨s, t, concH (kinds ++ [(99, none)]) log labs⟩, ⟨kinds.length, l⟩) := by
  unfold varNew
  rw [newOperation_eq]
  have h1 : ∀ b, pos log kinds.length b = [] := fun b =>
    pos_eq_nil log _ b (fun x hx => Nat.ne_of_lt (hlog x hx))
  simp [concH, List.mapIdx_append, adjEntry, h1]

theorem adjEntry_snoc_var (log : List (Nat × Bool)) (x : Nat × Bool) (e : Nat) (l : Nat) :
    adjEntry (log ++ [x]) e (l, none) =
      ⟨pos log e true ++ (if x = (e, true) then [log.length] else []),
       pos log e false ++ (if x = (e, false) then [log.length] else [])⟩ := by
  simp [adjEntry, pos_snoc]

theorem adjEntry_op (log : List (Nat × Bool)) (e : Nat) (l : Nat) (ed : LEdge) :
    adjEntry log e (l, some ed) = ed := rfl

theorem adjEntry_snoc_ne (log : List (Nat × Bool)) (x : Nat × Bool) (e : Nat) (k : Kind)
    (h : x.1 ≠ e) : adjEntry (log ++ [x]) e k = adjEntry log e k := by
  obtain ⟨l, o⟩ := k
  cases o with
  | some ed => rfl
  | none =>
    rw [adjEntry_snoc_var]
    have h1 : ∀ b, x ≠ (e, b) := by
      intro b hc; apply h; rw [hc]
    simp [adjEntry, h1]

theorem varNewSource_concH (kinds : List Kind) (log : List (Nat × Bool)) (labs : List Nat)
    (s t : List Nat) (e l lab : Nat) (hk : kinds[e]? = some (lab, none)) (hlen : labs.length = log.length) :
    varNewSource ⟨s, t, concH kinds log labs⟩ ⟨e, l⟩ =
      .ok (⟨s, t, concH kinds (log ++ [(e, true)]) (labs ++ [l])⟩, log.length) := by
  have he : e < kinds.length := (List.getElem?_eq_some_iff.1 hk).1
  have he' : e < (concH kinds log labs).adjacency.length := by simp [concH, he]
  unfold varNewSource
  simp only
  rw [addEdgeSource_ok _ e l he']
  simp only [Res.bind, concH, Res.ok.injEq, Prod.mk.injEq, LOHG.mk.injEq, LHG.mk.injEq, true_and, and_true]
  refine ⟨?_, hlen⟩
  apply List.ext_getElem?
  intro i
  by_cases hi : i = e
  · subst hi
    have hke : kinds[i] = (lab, none) := (List.getElem?_eq_some_iff.1 hk).2
    simp [he, hke, adjEntry, hlen, pos_snoc]
  · rw [List.getElem?_set_ne (Ne.symm hi)]
    simp only [List.getElem?_mapIdx]
    cases hki : kinds[i]? with
    | none => rfl
    | some k =>
      simp only [Option.map_some]
      rw [adjEntry_snoc_ne _ _ _ _ (Ne.symm hi)]

theorem varNewTarget_concH (kinds : List Kind) (log : List (Nat × Bool)) (labs : List Nat)
    (s t : List Nat) (e l lab : Nat) (hk : kinds[e]? = some (lab, none)) (hlen : labs.length = log.length) :
    varNewTarget ⟨s, t, concH kinds log labs⟩ ⟨e, l⟩ =
      .ok (⟨s, t, concH kinds (log ++ [(e, false)]) (labs ++ [l])⟩, log.length) := by
  have he : e < kinds.length := (List.getElem?_eq_some_iff.1 hk).1
  have he' : e < (concH kinds log labs).adjacency.length := by simp [concH, he]
  unfold varNewTarget
  simp only
  rw [addEdgeTarget_ok _ e l he']
  simp only [Res.bind, concH, Res.ok.injEq, Prod.mk.injEq, LOHG.mk.injEq, LHG.mk.injEq, true_and, and_true]
  refine ⟨?_, hlen⟩
  apply List.ext_getElem?
  intro i
  by_cases hi : i = e
  · subst hi
    have hke : kinds[i] = (lab, none) := (List.getElem?_eq_some_iff.1 hk).2
    simp [he, hke, adjEntry, hlen, pos_snoc]
  · rw [List.getElem?_set_ne (Ne.symm hi)]
    simp only [List.getElem?_mapIdx]
    cases hki : kinds[i]? with
    | none => rfl
    | some k =>
      simp only [Option.map_some]
      rw [adjEntry_snoc_ne _ _ _ _ (Ne.symm hi)]

theorem newEdge_concH (kinds : List Kind) (log : List (Nat × Bool)) (labs : List Nat)
    (op : Nat) (ed : LEdge) :
    (concH kinds log labs).newEdge op ed = (concH (kinds ++ [(op, some ed)]) log labs, kinds.length) := by
  simp [LHG.newEdge, concH, List.mapIdx_append, adjEntry]

/-! ## Part A: abstract builder states and the symbolic execution -/

/-- abstract state: the kind of every edge, the handle of every variable, and for every node the
    variable it was attached to and the side (`true` = pushed on the SOURCES of the variable edge) -/
structure AS where
  kinds : List Kind
  vars : List VarH
  log : List (Nat × Bool)

def dflt : VarH := ⟨0, 0⟩

def AS.elog (st : AS) : List (Nat × Bool) := st.log.map (fun x => ((st.vars.getD x.1 dflt).edgeId, x.2))
def AS.labs (st : AS) : List Nat := st.log.map (fun x => (st.vars.getD x.1 dflt).label)

/-- the lax open hypergraph denoted by an abstract state -/
def concF (st : AS) (s t : List Nat) : LF := ⟨s, t, concH st.kinds st.elog st.labs⟩

def AS.empty : AS := ⟨[], [], []⟩

theorem concF_empty : concF AS.empty [] [] = LOHG.empty := rfl

def AS.attach (st : AS) (ks : List Nat) (b : Bool) : AS :=
  { st with log := st.log ++ ks.map (fun k => (k, b)) }

def AS.addVars (st : AS) (ts : List Nat) : AS :=
  { st with kinds := st.kinds ++ List.replicate ts.length (99, none),
            vars := st.vars ++ List.zipWith VarH.mk (List.range' st.kinds.length ts.length) ts }

def AS.addOp (st : AS) (l : Nat) (ed : LEdge) : AS :=
  { st with kinds := st.kinds ++ [(l, some ed)] }

structure Good (st : AS) : Prop where
  inScope : ∀ x ∈ st.log, x.1 < st.vars.length
  isVar : ∀ v ∈ st.vars, st.kinds[v.edgeId]? = some (99, none)
  opOK : ∀ l ed, (l, some ed) ∈ st.kinds → EdgeOK st.log.length ed

theorem good_empty : Good AS.empty := ⟨by simp [AS.empty], by simp [AS.empty], by simp [AS.empty]⟩

theorem Good.attach {st : AS} (h : Good st) (ks : List Nat) (b : Bool)
    (hks : ∀ k ∈ ks, k < st.vars.length) : Good (st.attach ks b) := by
  refine ⟨?_, h.isVar, ?_⟩
  · intro x hx
    simp only [AS.attach, List.mem_append, List.mem_map] at hx
    rcases hx with hx | ⟨k, hk, rfl⟩
    · exact h.inScope x hx
    · exact hks k hk
  · intro l ed hm
    exact (h.opOK l ed hm).mono (by simp [AS.attach])

theorem mem_zipWith_mk {es ts : List Nat} {v : VarH} (hv : v ∈ List.zipWith VarH.mk es ts) :
    v.edgeId ∈ es := by
  induction es generalizing ts with
  | nil => simp at hv
  | cons e es ih =>
    cases ts with
    | nil => simp at hv
    | cons t ts =>
      simp only [List.zipWith_cons_cons, List.mem_cons] at hv ⊢
      rcases hv with rfl | hv
      · exact Or.inl rfl
      · exact Or.inr (ih hv)

theorem Good.addVars {st : AS} (h : Good st) (ts : List Nat) : Good (st.addVars ts) := by
  refine ⟨?_, ?_, ?_⟩
  · intro x hx
    have := h.inScope x hx
    simp only [AS.addVars, List.length_append]
    omega
  · intro v hv
    simp only [AS.addVars, List.mem_append] at hv ⊢
    rcases hv with hv | hv
    · have h1 := h.isVar v hv
      have h2 : v.edgeId < st.kinds.length := (List.getElem?_eq_some_iff.1 h1).1
      rw [List.getElem?_append_left h2]; exact h1
    · have h1 := List.mem_range'_1.1 (mem_zipWith_mk hv)
      rw [List.getElem?_append_right h1.1, List.getElem?_replicate]
      rw [if_pos (by omega)]
  · intro l ed hm
    simp only [AS.addVars, List.mem_append, List.mem_replicate] at hm
    rcases hm with hm | ⟨_, hm⟩
    · exact h.opOK l ed hm
    · cases hm

theorem Good.addOp {st : AS} (h : Good st) (l : Nat) (ed : LEdge) (hed : EdgeOK st.log.length ed) :
    Good (st.addOp l ed) := by
  refine ⟨h.inScope, ?_, ?_⟩
  · intro v hv
    have h1 := h.isVar v hv
    have h2 : v.edgeId < st.kinds.length := (List.getElem?_eq_some_iff.1 h1).1
    simp only [AS.addOp]
    rw [List.getElem?_append_left h2]; exact h1
  · intro l' ed' hm
    simp only [AS.addOp, List.mem_append, List.mem_singleton, Prod.mk.injEq, Option.some.injEq] at hm
    rcases hm with hm | ⟨_, rfl⟩
    · exact h.opOK l' ed' hm
    · exact hed

theorem Good.elog_lt {st : AS} (h : Good st) : ∀ x ∈ st.elog, x.1 < st.kinds.length := by
  intro x hx
  simp only [AS.elog, List.mem_map] at hx
  obtain ⟨y, hy, rfl⟩ := hx
  have h1 := h.inScope y hy
  have h2 := h.isVar (st.vars.getD y.1 dflt) (by
    rw [List.getD_eq_getElem?_getD, List.getElem?_eq_getElem h1]; simp)
  exact (List.getElem?_eq_some_iff.1 h2).1

theorem labs_length (st : AS) : st.labs.length = st.elog.length := by simp [AS.labs, AS.elog]

end OH.C19
