/-
  C19 (second half, and the semantic reading of the first half) — `forget`
  (src/lax/var/forget.rs, `Forget.map_arrow` = lax `define_map_arrow` through the strict
  representation), for EVERY lawful backend.

  "Forgetting replaces exactly the variable-labelled hyperedges whose incident nodes all carry one
   label by a single merged node (by nothing when it has no incident nodes), leaves every other
   hyperedge intact, preserves the type of the term, returns for every well-formed term, and the
   result evaluates to the same function as the original with variable hyperedges read as copies."

  Vocabulary (Lemmas/ForgetSem.lean):
    `Erased var w e`        the hyperedge `e` carries the variable label and all its incident nodes
                            carry one label (`w` the node labels);
    `forgetPre var d`       same nodes, the hyperedges that are NOT erased (labels, ordered source /
                            target lists untouched), same interfaces;
    `forgetRel var d a b`   `a`, `b` are incident to a common erased hyperedge;
    `IsCopyValuation`       a valuation in which every erased hyperedge is read as a copy.

  Headlines
    `forget_spec`           structure: defined, well-formed, no pending unification, same type, and
                            the result IS the quotient `forgetPre / forgetRel` of the strict form of
                            the term; `toStrict` of the result is isomorphic to it;
    `forget_spec_nopending` the same presentation relative to the plain reading of a term without
                            pending unifications (e.g. a term built through the `Var` interface);
    `forget_eval`           evaluation: the forgotten term is acyclic and single-writer, and `eval`
                            on it returns the output values of EVERY valuation of the original
                            term in which the erased variable edges are read as copies (such a
                            valuation exists);
    `forget_eval_nopending` the same with all hypotheses read on the plain reading of a term without
                            pending unifications (backend independent);
    `forget_eval_annot`     the same as an equation between two `eval`s: the original is evaluated
                            with its erased edges tagged by their number of targets
                            (`annotate`), interpreted by `opfnCopy opfn`;
    `build_sem`             the term built through the `Var` interface from a well-scoped program
                            (no instruction labelled 99), forgotten and evaluated, computes the
                            denotation `denote` of the straight-line program; on the way:
                            `built_acyclic`, `built_singleWriter`, `built_oneSource`,
                            `built_copyValuation`.

  Modelling remarks (reported as discrepancies with the informal clause):
    * `eval` passes the interpreter only the LABEL of an operation and the values of its sources.
      Whether a variable-labelled edge is erased depends on the labels of its incident NODES, and a
      copy must return one value per TARGET; neither is visible to the interpreter.  "The original
      with variable hyperedges read as copies" therefore cannot be an `eval` of the original term
      with a label-only interpreter: it is stated with valuations (`IsCopyValuation`), and as an
      `eval` of the tagged term (`annotate`).
    * reading an erased edge as a copy needs EXACTLY ONE source (`OneSource`): an erased edge `0 → n`
      leaves its merged node unwritten (default value), an erased edge `m → n`, `m ≥ 2`, merges
      several written nodes (the forgotten term is then not single-writer).  Terms built through
      the `Var` interface satisfy it (`var_edge_one_source`), provided no instruction itself
      carries the variable label (`Forget` erases such an instruction too if its type is uniform).
-/
import OHVerif.Lemmas.ForgetSem
import OHVerif.Props.C19Build

namespace OH.C19
open OH OH.VarB OH.ForgetSem OH.LaxStrict OH.LaxIso Relation

variable {O A T : Type}

section spec
variable [DecidableEq O] [DecidableEq A]

/-- `forget` for the variable label `var`: `Forget.map_arrow` -/
abbrev forgetV (B : Backend) (var : A) (t : LOHG O A) : Res (LOHG O A) :=
  LFunctor.mapArrowViaStrict B (C12.forgetL var) t

/-- **C19, structure of `forget`** (every lawful backend, every well-formed label-consistent lax
    term `t`, pending unifications allowed).  `forget t` is defined (no panic, no `None`),
    well-formed, carries no pending unification and has the type of `t`.  With `s` the strict form
    of `t`: the plain reading of the result IS the quotient of
      `forgetPre var s` — the nodes of `s`, the hyperedges of `s` that are not erased, with their
                          labels and ordered source / target lists, the interfaces of `s` —
    by
      `forgetRel var s` — two nodes are identified iff they are incident to a common erased
                          hyperedge
    (so an erased hyperedge is replaced by ONE merged node, and by nothing when it has no incident
    node; every other hyperedge is kept, in order).  The strict form of the result is isomorphic to
    that quotient. -/
theorem forget_spec (B : Backend) (hB : B.Lawful) (var : A) (t : LOHG O A) (ht : t.wf = true)
    (hc : C09.LabelConsistent t.hypergraph) :
    ∃ r s sr, forgetV B var t = .ok r ∧ r.wf = true ∧ r.hypergraph.quotient = ([], []) ∧
      r.source = t.source ∧ r.target = t.target ∧
      LOHG.toStrict B t = .ok s ∧ s.wf = true ∧
      IsQuot (forgetPre var s.toPlain) (forgetRel var s.toPlain) (plain r) ∧
      LOHG.toStrict B r = .ok sr ∧ sr.wf = true ∧ plain r ≅ sr.toPlain := by
  obtain ⟨s, hs, hsw, _, _⟩ := toStrict_isQuot B hB t ht hc
  obtain ⟨sg, hsg, hsgw, _, _, hq⟩ := forget_strict_spec B hB var s hsw
  obtain ⟨r, hr, hrw, hrq, hrs, hrt⟩ := C12.forget_lax_ok_type B hB var t ht hc
  have hfs := (C10.fromStrict_spec sg hsgw).1
  have hr' : forgetV B var t = .ok (unpack sg) := by
    show LFunctor.mapArrowViaStrict B (C12.forgetL var) t = _
    unfold LFunctor.mapArrowViaStrict
    rw [hs]
    simp only [Res.ok_bind]
    rw [hsg]
    exact hfs
  have hru : r = unpack sg := by
    have : forgetV B var t = .ok r := hr
    rw [hr'] at this
    exact (Res.ok.inj this).symm
  subst hru
  obtain ⟨sr, hsr, hsrw, hiso, _⟩ := C10.toStrict_lawful_spec B hB (unpack sg) hrw hrq
  refine ⟨unpack sg, s, sr, hr', hrw, hrq, hrs, hrt, hs, hsw, ?_, hsr, hsrw, hiso⟩
  rw [unpack_plain sg hsgw]
  exact hq

omit [DecidableEq A] in
/-- a strict form of a lax term without pending unifications is its plain reading with the nodes
    renumbered, hyperedges in place -/
theorem toStrict_isoVia_nopending (B : Backend) (hB : B.Lawful) (t : LOHG O A) (ht : t.wf = true)
    (hq0 : t.hypergraph.quotient = ([], [])) (s : OHG O A) (hs : LOHG.toStrict B t = .ok s) :
    ∃ σ, IsoVia (plain t) s.toPlain σ (fun e => e) := by
  obtain ⟨_, _, hq, _⟩ := toStrict_quot_of_ok B hB t s ht hs
  have hq' : IsQuot (plain t) (fun _ _ => False) s.toPlain := by
    refine IsQuot.congr hq ?_
    intro a b _ _
    constructor
    · rintro ⟨k, h1, _⟩
      rw [hq0] at h1
      simp at h1
    · exact False.elim
  obtain ⟨σ, hσ, hk⟩ := (isQuot_iff _ _ _).1 hq'
  exact ⟨σ, hσ.isoVia (fun i j hi hj hij => (kernel_id _ i j).2 ((hk i j hi hj).1 hij))⟩

/-- **C19, structure of `forget` on a term without pending unifications** (e.g. one built through
    the `Var` interface): the presentation of `forget_spec`, relative to the plain reading of the
    term itself -/
theorem forget_spec_nopending (B : Backend) (hB : B.Lawful) (var : A) (t : LOHG O A)
    (ht : t.wf = true) (hq0 : t.hypergraph.quotient = ([], [])) :
    ∃ r sr, forgetV B var t = .ok r ∧ r.wf = true ∧ r.hypergraph.quotient = ([], []) ∧
      r.source = t.source ∧ r.target = t.target ∧
      IsQuot (forgetPre var (plain t)) (forgetRel var (plain t)) (plain r) ∧
      LOHG.toStrict B r = .ok sr ∧ sr.wf = true ∧ plain r ≅ sr.toPlain := by
  obtain ⟨r, s, sr, h1, h2, h3, h4, h5, hs, _, hq, h6, h7, h8⟩ :=
    forget_spec B hB var t ht (LaxType.labelConsistent_of_nopending _ hq0)
  refine ⟨r, sr, h1, h2, h3, h4, h5, ?_, h6, h7, h8⟩
  obtain ⟨σ, hσ⟩ := toStrict_isoVia_nopending B hB t ht hq0 s hs
  obtain ⟨hiso, hrel⟩ := forgetPre_isoVia var (plain_wf t ht) hσ
  exact IsQuot.congr (isQuot_pullback hiso hq) (fun a b ha hb => hrel a b ha hb)

/-! ### evaluation -/

/-- evaluation of (the strict form `sr` of) a lax diagram `r` that presents the forgotten `d` -/
theorem eval_of_presentation (B : Backend) (hB : B.Lawful) (var : A) (d : PDiag O A)
    (r : LOHG O A) (sr : OHG O A) (hd : d.wf = true) (hrw : r.wf = true)
    (hQ : IsQuot (forgetPre var d) (forgetRel var d) (plain r)) (hsrw : sr.wf = true)
    (hiso : plain r ≅ sr.toPlain)
    (hac : Acyclic d) (hsw : SingleWriter d) (h1 : OneSource var d)
    (opfn : A → List T → List T) (dflt : T) (inp : List T) (har : KeptArity var d opfn)
    (hin : inp.length = d.ins.length) :
    C16.OpAcyclic sr ∧ SingleWriter sr.toPlain ∧ C16.ArityOK sr opfn ∧
    (∃ val, IsCopyValuation var d opfn dflt inp val) ∧
    ∀ val, IsCopyValuation var d opfn dflt inp val →
      Graph.eval B sr dflt inp (Eval.applyOf opfn) = .ok (d.outs.map val) := by
  rw [← pack_toPlain] at hQ hiso
  have hpw := pack_wf r hrw
  obtain ⟨a1, a2, a3, a4, a5⟩ := forget_eval_core B hB (pack r) hpw hd hQ hac hsw h1 opfn dflt inp
    har hin
  obtain ⟨q, hq, _⟩ := (isQuot_iff _ _ _).1 hQ
  have hs' : inp.length = (pack r).s.table.length := by
    have : (pack r).s.table = d.ins.map q := hq.ins
    rw [this, List.length_map]; exact hin
  refine ⟨C16.opAcyclic_of_iso hpw hsrw hiso a1, C16.singleWriter_of_iso hpw hiso a2,
    C16.arityOK_of_iso hiso a3, a4, ?_⟩
  intro val hval
  rw [← C16.eval_iso_invariant B B hB hB (pack r) sr hpw hsrw hiso opfn dflt inp a1 a2 a3 hs']
  exact a5 val hval

/-- **C19, evaluation of `forget`** (every lawful backend).  Let `s` be the strict form of the
    well-formed, label-consistent lax term `t`.  If `s` is acyclic and single-writer, every erased
    variable edge of `s` has exactly one source, and the interpreter `opfn` respects the arities of
    the hyperedges that are kept, then for every input list of the right length:
      * `forget t` is defined and its strict form `sr` is acyclic and single-writer (so `eval` on it
        is specified by `C16.eval_spec`);
      * `s` has a valuation in which the erased variable edges are read as copies (every target
        carries the value of the source) and all other hyperedges are interpreted by `opfn`;
      * `eval` on `sr` returns the values of EVERY such valuation at the output interface of `s`:
        the forgotten term computes the same function as the original with the variable
        hyperedges read as copies. -/
theorem forget_eval (B : Backend) (hB : B.Lawful) (var : A) (t : LOHG O A) (ht : t.wf = true)
    (hc : C09.LabelConsistent t.hypergraph) (s : OHG O A) (hs : LOHG.toStrict B t = .ok s)
    (hac : Acyclic s.toPlain) (hsw : SingleWriter s.toPlain) (h1 : OneSource var s.toPlain)
    (opfn : A → List T → List T) (dflt : T) (inp : List T)
    (har : KeptArity var s.toPlain opfn) (hin : inp.length = s.s.table.length) :
    ∃ r sr, forgetV B var t = .ok r ∧ LOHG.toStrict B r = .ok sr ∧ sr.wf = true ∧
      C16.OpAcyclic sr ∧ SingleWriter sr.toPlain ∧ C16.ArityOK sr opfn ∧
      (∃ val, IsCopyValuation var s.toPlain opfn dflt inp val) ∧
      ∀ val, IsCopyValuation var s.toPlain opfn dflt inp val →
        Graph.eval B sr dflt inp (Eval.applyOf opfn) = .ok (s.t.table.map val) := by
  obtain ⟨r, s', sr, h1', h2, _, _, _, hs', hsw', hq, h6, h7, h8⟩ := forget_spec B hB var t ht hc
  rw [hs] at hs'
  cases hs'
  obtain ⟨a1, a2, a3, a4, a5⟩ := eval_of_presentation B hB var s.toPlain r sr (C03.wfP hsw') h2 hq h7
    h8 hac hsw h1 opfn dflt inp har hin
  exact ⟨r, sr, h1', h6, h7, a1, a2, a3, a4, a5⟩

/-- the same for a term without pending unifications, with all hypotheses and the valuation read on
    the plain reading of the term itself (no reference to the backend-dependent strict form) -/
theorem forget_eval_nopending (B : Backend) (hB : B.Lawful) (var : A) (t : LOHG O A)
    (ht : t.wf = true) (hq0 : t.hypergraph.quotient = ([], []))
    (hac : Acyclic (plain t)) (hsw : SingleWriter (plain t)) (h1 : OneSource var (plain t))
    (opfn : A → List T → List T) (dflt : T) (inp : List T)
    (har : KeptArity var (plain t) opfn) (hin : inp.length = t.sources.length) :
    ∃ r sr, forgetV B var t = .ok r ∧ LOHG.toStrict B r = .ok sr ∧ sr.wf = true ∧
      C16.OpAcyclic sr ∧ SingleWriter sr.toPlain ∧ C16.ArityOK sr opfn ∧
      (∃ val, IsCopyValuation var (plain t) opfn dflt inp val) ∧
      ∀ val, IsCopyValuation var (plain t) opfn dflt inp val →
        Graph.eval B sr dflt inp (Eval.applyOf opfn) = .ok (t.targets.map val) := by
  obtain ⟨r, sr, h1', h2, _, _, _, hq, h6, h7, h8⟩ := forget_spec_nopending B hB var t ht hq0
  obtain ⟨a1, a2, a3, a4, a5⟩ := eval_of_presentation B hB var (plain t) r sr (plain_wf t ht) h2 hq
    h7 h8 hac hsw h1 opfn dflt inp har hin
  exact ⟨r, sr, h1', h6, h7, a1, a2, a3, a4, a5⟩

/-! ### the same as an equation between two evaluations

  `eval` hands the interpreter the LABEL of an operation and the values of its sources — neither the
  labels of the incident nodes (on which `Forget::map_operation` decides) nor the number of
  targets.  A label-only interpreter therefore cannot "read a variable edge as a copy".  To state
  the clause as an equation `eval (forget t) = eval t` the erased edges of the original are tagged
  with their number of targets. -/

/-- the tag of a hyperedge: `some n` for an erased variable edge with `n` targets -/
def copyFlag (var : A) (w : List O) (e : PEdge A) : Option Nat :=
  if Erased var w e then some e.tgt.length else none

/-- the diagram `f` with every hyperedge label paired with its tag -/
def annotate (var : A) (f : OHG O A) : OHG O (A × Option Nat) :=
  ⟨f.s, f.t, ⟨f.h.s, f.h.t, f.h.w, f.toPlain.edges.map (fun e => (e.label, copyFlag var f.h.w e))⟩⟩

/-- the interpreter reading tagged edges as copies of their first argument -/
def opfnCopy (opfn : A → List T → List T) (dflt : T) : A × Option Nat → List T → List T
  | (a, none), args => opfn a args
  | (_, some n), args => List.replicate n (args.headD dflt)

/-- the tagged hyperedge -/
def tagEdge (var : A) (w : List O) (e : PEdge A) : PEdge (A × Option Nat) :=
  ⟨(e.label, copyFlag var w e), e.src, e.tgt⟩

omit [DecidableEq A] in
theorem zipWith_retag {β : Type} (g : PEdge A → β) :
    ∀ (xs : List A) (ST : List (List Nat × List Nat)),
      List.zipWith (fun x st => (⟨x, st.1, st.2⟩ : PEdge β))
        ((List.zipWith (fun x st => (⟨x, st.1, st.2⟩ : PEdge A)) xs ST).map g) ST =
      (List.zipWith (fun x st => (⟨x, st.1, st.2⟩ : PEdge A)) xs ST).map
        (fun e => ⟨g e, e.src, e.tgt⟩)
  | [], _ => by simp
  | _ :: _, [] => by simp
  | a :: xs, st :: ST => by
    simp only [List.zipWith_cons_cons, List.map_cons]
    rw [zipWith_retag g xs ST]

theorem annotate_toPlain (var : A) (f : OHG O A) :
    (annotate var f).toPlain =
      ⟨f.h.w, f.toPlain.edges.map (tagEdge var f.h.w), f.s.table, f.t.table⟩ := by
  show PDiag.mk _ _ _ _ = PDiag.mk _ _ _ _
  congr 1
  exact zipWith_retag (fun e => (e.label, copyFlag var f.h.w e)) f.h.x (f.h.s.segs.zip f.h.t.segs)

theorem annotate_wf (var : A) (f : OHG O A) (hf : f.wf = true) : (annotate var f).wf = true := by
  have hW := (OHG.wf_iff_Wf f).1 hf
  have hl : (f.toPlain.edges.map (fun e => (e.label, copyFlag var f.h.w e))).length = f.h.x.length := by
    rw [List.length_map]; exact HG.toPlainEdges_length f.h hW.h
  obtain ⟨a1, a2, a3, a4, a5⟩ := (ohg_wf_iff f).1 hf
  obtain ⟨b1, b2, b3, b4, b5, b6⟩ := (hg_wf_iff f.h).1 a1
  refine (ohg_wf_iff _).2 ⟨(hg_wf_iff _).2 ⟨b1, b2, ?_, ?_, b5, b6⟩, a2, a3, a4, a5⟩
  · exact b3.trans hl.symm
  · exact b4.trans hl.symm

theorem nodeStep_annotate (var : A) (f : OHG O A) {a b : Nat}
    (h : nodeStep (annotate var f).toPlain a b) : nodeStep f.toPlain a b := by
  rw [annotate_toPlain] at h
  obtain ⟨e', he', ha, hb⟩ := h
  obtain ⟨e, he, rfl⟩ := List.mem_map.1 he'
  exact ⟨e, he, ha, hb⟩

theorem acyclic_annotate (var : A) (f : OHG O A) (h : Acyclic f.toPlain) :
    Acyclic (annotate var f).toPlain := by
  rintro ⟨v, hv⟩
  have key : ∀ a b, TransGen (nodeStep (annotate var f).toPlain) a b →
      TransGen (nodeStep f.toPlain) a b := by
    intro a b hab
    induction hab with
    | single h1 => exact TransGen.single (nodeStep_annotate var f h1)
    | tail _ h2 ih => exact ih.tail (nodeStep_annotate var f h2)
  exact h ⟨v, key v v hv⟩

theorem singleWriter_annotate (var : A) (f : OHG O A) (h : SingleWriter f.toPlain) :
    SingleWriter (annotate var f).toPlain := by
  rw [annotate_toPlain]
  unfold SingleWriter at h ⊢
  have : (f.toPlain.edges.map (tagEdge var f.h.w)).flatMap (·.tgt) =
      f.toPlain.edges.flatMap (·.tgt) := by
    rw [List.flatMap_map]; rfl
  show (f.s.table ++ _).Nodup
  rw [this]
  exact h

theorem arity_annotate (var : A) (f : OHG O A) (opfn : A → List T → List T) (dflt : T)
    (har : KeptArity var f.toPlain opfn) :
    C16.ArityOK (annotate var f) (opfnCopy opfn dflt) := by
  intro e' he' args hargs
  rw [annotate_toPlain] at he'
  obtain ⟨e, he, rfl⟩ := List.mem_map.1 he'
  by_cases hE : Erased var f.h.w e
  · simp [tagEdge, copyFlag, hE, opfnCopy]
  · have := har e he hE args hargs
    simpa [tagEdge, copyFlag, hE, opfnCopy] using this

/-- a valuation of the tagged diagram under `opfnCopy` is a valuation with copies -/
theorem copyValuation_of_annotate (var : A) (f : OHG O A) (h1 : OneSource var f.toPlain)
    (opfn : A → List T → List T) (dflt : T) (inp : List T) (val : Nat → T)
    (hv : IsValuation (annotate var f).toPlain (opfnCopy opfn dflt) dflt inp val) :
    IsCopyValuation var f.toPlain opfn dflt inp val := by
  rw [annotate_toPlain] at hv
  refine ⟨hv.ins, ?_, ?_, ?_⟩
  · intro e he hE
    have := hv.ops _ (List.mem_map_of_mem (f := tagEdge var f.h.w) he)
    have hE' : ¬ Erased var f.h.w e := hE
    simpa [tagEdge, copyFlag, hE', opfnCopy] using this
  · intro e he hE u hu v hv'
    have := hv.ops _ (List.mem_map_of_mem (f := tagEdge var f.h.w) he)
    have hE' : Erased var f.h.w e := hE
    obtain ⟨a, ha⟩ := List.length_eq_one_iff.1 (h1 e he hE)
    have hua : u = a := by rw [ha] at hu; simpa using hu
    subst hua
    have h2 : e.tgt.map val = List.replicate e.tgt.length (val u) := by
      simpa [tagEdge, copyFlag, hE', opfnCopy, ha] using this
    have : val v ∈ e.tgt.map val := List.mem_map_of_mem hv'
    rw [h2] at this
    exact List.eq_of_mem_replicate this
  · intro v hvn hvi hvt
    apply hv.rest v hvn hvi
    intro e' he' hve'
    obtain ⟨e, he, rfl⟩ := List.mem_map.1 he'
    exact hvt e he hve'

/-- **C19, evaluation of `forget`, as an equation**: under the hypotheses of `forget_eval`, `eval`
    on the forgotten term returns the same result as `eval` on the original term whose erased
    variable edges are tagged and interpreted as copies -/
theorem forget_eval_annot (B : Backend) (hB : B.Lawful) (var : A) (t : LOHG O A) (ht : t.wf = true)
    (hc : C09.LabelConsistent t.hypergraph) (s : OHG O A) (hs : LOHG.toStrict B t = .ok s)
    (hac : Acyclic s.toPlain) (hsw : SingleWriter s.toPlain) (h1 : OneSource var s.toPlain)
    (opfn : A → List T → List T) (dflt : T) (inp : List T)
    (har : KeptArity var s.toPlain opfn) (hin : inp.length = s.s.table.length) :
    ∃ r sr outs, forgetV B var t = .ok r ∧ LOHG.toStrict B r = .ok sr ∧
      Graph.eval B sr dflt inp (Eval.applyOf opfn) = .ok outs ∧
      Graph.eval B (annotate var s) dflt inp (Eval.applyOf (opfnCopy opfn dflt)) = .ok outs := by
  obtain ⟨r, sr, a1, a2, _, _, _, _, _, a8⟩ := forget_eval B hB var t ht hc s hs hac hsw h1 opfn dflt
    inp har hin
  obtain ⟨_, hsw', _, _⟩ := toStrict_quot_of_ok B hB t s ht hs
  have hwA := annotate_wf var s hsw'
  have hacA : C16.OpAcyclic (annotate var s) :=
    (C16.opAcyclic_iff_noCycle _ hwA).2 (noCycle_of_nodeAcyclic (acyclic_annotate var s hac))
  obtain ⟨outs, val, hev, hval, houts⟩ := C16.eval_spec B hB (annotate var s) hwA
    (opfnCopy opfn dflt) dflt inp hacA (singleWriter_annotate var s hsw)
    (arity_annotate var s opfn dflt har) hin
  refine ⟨r, sr, outs, a1, a2, ?_, hev⟩
  rw [a8 val (copyValuation_of_annotate var s h1 opfn dflt inp val hval), houts]
  rfl

end spec

/-! ### examples: the hypotheses are satisfiable, the conclusions determine the result -/

/-- a numbering of the nodes that increases along every hyperedge witnesses acyclicity -/
theorem acyclic_of_rank (d : PDiag O A) (rank : Nat → Nat)
    (h : ∀ e ∈ d.edges, ∀ u ∈ e.src, ∀ v ∈ e.tgt, rank u < rank v) : Acyclic d := by
  rintro ⟨v, hv⟩
  have key : ∀ a b, TransGen (nodeStep d) a b → rank a < rank b := by
    intro a b hab
    induction hab with
    | single h1 =>
      obtain ⟨e, he, ha, hb⟩ := h1
      exact h e he _ ha _ hb
    | tail _ h2 ih =>
      obtain ⟨e, he, ha, hb⟩ := h2
      exact Nat.lt_trans ih (h e he _ ha _ hb)
  exact Nat.lt_irrefl _ (key v v hv)

namespace SemExample

/-- input node `0 : 7`; a variable edge `[0] → [1, 2]` (uniform, a copy); the operation
    `5 : [1] → [3]` with `3 : 8`; a variable-labelled edge `[3] → [4]` with `4 : 9` (NOT uniform:
    kept); outputs `4, 2` -/
def t2 : LOHG Nat Nat :=
  ⟨[0], [4, 2], ⟨[7, 7, 7, 8, 9], [99, 5, 99], [⟨[0], [1, 2]⟩, ⟨[1], [3]⟩, ⟨[3], [4]⟩], ([], [])⟩⟩

/-- its strict form (Vec backend) -/
def s2 : OHG Nat Nat :=
  ⟨⟨[0], 5⟩, ⟨[4, 2], 5⟩,
   ⟨⟨⟨[1, 1, 1], 4⟩, ⟨[0, 1, 3], 5⟩⟩, ⟨⟨[2, 1, 1], 5⟩, ⟨[1, 2, 3, 4], 5⟩⟩, [7, 7, 7, 8, 9], [99, 5, 99]⟩⟩

/-- every operation returns one value: the sum of its arguments plus its label -/
def opfn2 (a : Nat) (args : List Nat) : List Nat := [args.sum + a]

/-- the valuation with copies on the input `[10]` -/
def val2 (v : Nat) : Nat := [10, 10, 10, 15, 114].getD v 0

theorem t2_consistent : C09.LabelConsistent t2.hypergraph :=
  LaxType.labelConsistent_of_nopending _ rfl

theorem t2_acyclic : Acyclic (plain t2) :=
  acyclic_of_rank _ (fun v => [0, 1, 1, 2, 3].getD v 0) (by decide)

theorem t2_keptArity : KeptArity 99 (plain t2) opfn2 := by
  intro e he hE args _
  have : e ∈ [(⟨99, [0], [1, 2]⟩ : PEdge Nat), ⟨5, [1], [3]⟩, ⟨99, [3], [4]⟩] := he
  simp only [List.mem_cons, List.not_mem_nil, or_false] at this
  rcases this with rfl | rfl | rfl
  · exact absurd (by decide) hE
  · rfl
  · rfl

/-- the hypotheses of `forget_spec` / `forget_eval` / `forget_eval_annot` (Vec backend) -/
example : t2.wf = true ∧ C09.LabelConsistent t2.hypergraph ∧
    LOHG.toStrict vecBackend t2 = .ok s2 ∧ s2.toPlain = plain t2 ∧
    Acyclic s2.toPlain ∧ SingleWriter s2.toPlain ∧ OneSource 99 s2.toPlain ∧
    KeptArity 99 s2.toPlain opfn2 ∧ [10].length = s2.s.table.length :=
  ⟨by decide, t2_consistent, rfl, by decide, t2_acyclic, by unfold SingleWriter; decide,
    by unfold OneSource; decide, t2_keptArity, rfl⟩

/-- the presentation: the copy edge is deleted and its three incident nodes are identified; the
    operation and the non-uniform variable-labelled edge are kept -/
example : forgetPre 99 (plain t2) = ⟨[7, 7, 7, 8, 9], [⟨5, [1], [3]⟩, ⟨99, [3], [4]⟩], [0], [4, 2]⟩ ∧
    forgetRel 99 (plain t2) 0 2 ∧ ¬ forgetRel 99 (plain t2) 3 4 ∧
    ((forgetV vecBackend 99 t2).bind fun r => .ok (plain r)) =
      .ok ⟨[7, 8, 9], [⟨5, [0], [1]⟩, ⟨99, [1], [2]⟩], [0], [2, 0]⟩ := by
  refine ⟨by decide, ⟨⟨99, [0], [1, 2]⟩, by decide, by decide, by decide, by decide⟩, ?_, by decide⟩
  rintro ⟨e, he, hE, h3, h4⟩
  have : e ∈ [(⟨99, [0], [1, 2]⟩ : PEdge Nat), ⟨5, [1], [3]⟩, ⟨99, [3], [4]⟩] := he
  simp only [List.mem_cons, List.not_mem_nil, or_false] at this
  rcases this with rfl | rfl | rfl
  · exact absurd h3 (by decide)
  · exact absurd h4 (by decide)
  · exact absurd hE (by decide)

theorem val2_copyValuation : IsCopyValuation 99 (plain t2) opfn2 0 [10] val2 :=
  ⟨by decide, by decide, by decide, by decide⟩

/-- for EVERY lawful backend `forget t2`, evaluated on `[10]`, returns `[114, 10]` -/
example (B : Backend) (hB : B.Lawful) :
    ∃ r sr, forgetV B 99 t2 = .ok r ∧ LOHG.toStrict B r = .ok sr ∧
      Graph.eval B sr 0 [10] (Eval.applyOf opfn2) = .ok [114, 10] := by
  obtain ⟨r, sr, h1, h2, _, _, _, _, _, h8⟩ := forget_eval_nopending B hB 99 t2 (by decide) rfl
    t2_acyclic (by unfold SingleWriter; decide) (by unfold OneSource; decide) opfn2 0 [10]
    t2_keptArity rfl
  exact ⟨r, sr, h1, h2, h8 val2 val2_copyValuation⟩

/-- … and on the Vec backend so does the original with its copy edge tagged (`forget_eval_annot`) -/
example : ∃ r sr, forgetV vecBackend 99 t2 = .ok r ∧ LOHG.toStrict vecBackend r = .ok sr ∧
    Graph.eval vecBackend sr 0 [10] (Eval.applyOf opfn2) = .ok [114, 10] ∧
    Graph.eval vecBackend (annotate 99 s2) 0 [10] (Eval.applyOf (opfnCopy opfn2 0)) =
      .ok [114, 10] := by
  have hs : LOHG.toStrict vecBackend t2 = .ok s2 := rfl
  have hp : s2.toPlain = plain t2 := by decide
  obtain ⟨r, sr, outs, h1, h2, h3, h4⟩ := forget_eval_annot vecBackend vecBackend_lawful 99 t2
    (by decide) t2_consistent s2 hs (hp ▸ t2_acyclic) (by unfold SingleWriter; decide)
    (by unfold OneSource; decide) opfn2 0 [10] (hp ▸ t2_keptArity) rfl
  obtain ⟨r', sr', h1', h2', _, _, _, _, _, h8⟩ := forget_eval vecBackend vecBackend_lawful 99 t2
    (by decide) t2_consistent s2 hs (hp ▸ t2_acyclic) (by unfold SingleWriter; decide)
    (by unfold OneSource; decide) opfn2 0 [10] (hp ▸ t2_keptArity) rfl
  rw [h1] at h1'; cases h1'
  rw [h2] at h2'; cases h2'
  have h9 := h8 val2 (hp ▸ val2_copyValuation)
  rw [h3] at h9
  have : outs = [114, 10] := Res.ok.inj h9
  subst this
  exact ⟨r, sr, h1, h2, h3, h4⟩

/-- the hypothesis `OneSource` of `forget_eval` cannot be dropped: a uniform variable edge with TWO
    sources `[0, 1] → [2]` (both inputs) is erased, the two input nodes are merged, and the
    forgotten term has the input interface `[0, 0]` — it is not single-writer, "copy" has no
    meaning for it -/
example :
    let t3 : LOHG Nat Nat := ⟨[0, 1], [2], ⟨[7, 7, 7], [99], [⟨[0, 1], [2]⟩], ([], [])⟩⟩
    t3.wf = true ∧ SingleWriter (plain t3) ∧ ¬ OneSource 99 (plain t3) ∧
    ((forgetV vecBackend 99 t3).bind fun r => .ok (plain r)) = .ok ⟨[7], [], [0, 0], [0]⟩ ∧
    ¬ SingleWriter (⟨[7], [], [0, 0], [0]⟩ : PDiag Nat Nat) := by
  refine ⟨by decide, by unfold SingleWriter; decide, by unfold OneSource; decide, by decide,
    by unfold SingleWriter; decide⟩

end SemExample

/-! ## the built term computes the straight-line program -/

section denote
variable {T : Type}

/-- one instruction on the environment (the list of the values of all variables so far): append
    the results of the operator applied to the values of its arguments -/
def stepIns (opfn : Nat → List T → List T) (dflt : T) (env : List T) (ins : VarIns) : List T :=
  env ++ opfn (insLabel ins) ((insArgs ins).map (env.getD · dflt))

/-- the environment after the program: the inputs, then the results of every instruction -/
def runProg (opfn : Nat → List T → List T) (dflt : T) (prog : List VarIns) (inputs : List T) :
    List T := prog.foldl (stepIns opfn dflt) inputs

/-- the denotation of the straight-line program: the values of the output variables -/
def denote (opfn : Nat → List T → List T) (dflt : T) (prog : List VarIns) (inputs : List T)
    (outs : List Nat) : List T := outs.map ((runProg opfn dflt prog inputs).getD · dflt)

/-- the interpreter returns one value per declared result of every instruction -/
def ProgArity (prog : List VarIns) (opfn : Nat → List T → List T) : Prop :=
  ∀ ins ∈ prog, ∀ args : List T, args.length = (insArgs ins).length →
    (opfn (insLabel ins) args).length = (insRts ins).length

variable (opfn : Nat → List T → List T) (dflt : T)

theorem runProg_length (prog : List VarIns) (inputs : List T) (ha : ProgArity prog opfn) :
    (runProg opfn dflt prog inputs).length = inputs.length + numRes prog := by
  induction prog generalizing inputs with
  | nil => simp [runProg, numRes]
  | cons ins rest ih =>
    show (runProg opfn dflt rest (stepIns opfn dflt inputs ins)).length = _
    rw [ih _ (fun i hi => ha i (by simp [hi])), numRes_cons]
    unfold stepIns
    rw [List.length_append, ha ins (by simp) _ (by simp)]
    omega

theorem runProg_append (p q : List VarIns) (inputs : List T) :
    runProg opfn dflt (p ++ q) inputs = runProg opfn dflt q (runProg opfn dflt p inputs) := by
  unfold runProg; rw [List.foldl_append]

theorem runProg_extends (prog : List VarIns) (inputs : List T) :
    ∃ more, runProg opfn dflt prog inputs = inputs ++ more := by
  induction prog generalizing inputs with
  | nil => exact ⟨[], by simp [runProg]⟩
  | cons ins rest ih =>
    obtain ⟨more, hm⟩ := ih (stepIns opfn dflt inputs ins)
    refine ⟨opfn (insLabel ins) ((insArgs ins).map (inputs.getD · dflt)) ++ more, ?_⟩
    show runProg opfn dflt rest (stepIns opfn dflt inputs ins) = _
    rw [hm]; unfold stepIns; rw [List.append_assoc]

/-- the environment around instruction `j`: the final environment is the environment before `j`,
    then the results of `j`, then the rest -/
theorem runProg_split (prog : List VarIns) (inputs : List T) (j : Nat) (hj : j < prog.length) :
    ∃ more, runProg opfn dflt prog inputs =
      runProg opfn dflt (prog.take j) inputs ++
        opfn (insLabel prog[j]) ((insArgs prog[j]).map
          ((runProg opfn dflt (prog.take j) inputs).getD · dflt)) ++ more := by
  have e : prog = prog.take j ++ ([prog[j]] ++ prog.drop (j + 1)) := by
    rw [List.singleton_append, List.getElem_cons_drop, List.take_append_drop]
  obtain ⟨more, hm⟩ := runProg_extends opfn dflt (prog.drop (j + 1))
    (runProg opfn dflt [prog[j]] (runProg opfn dflt (prog.take j) inputs))
  refine ⟨more, ?_⟩
  conv => lhs; rw [e]
  rw [runProg_append, runProg_append, hm]
  rfl

end denote
section built
variable (inLabels : List Nat) (prog : List VarIns) (outs : List Nat)

theorem plain_edges_getElem? (t : LOHG Nat Nat) (i : Nat) :
    (plain t).edges[i]? = (t.hypergraph.edges[i]?).bind fun x =>
      (t.hypergraph.adjacency[i]?).map fun a => ⟨x, a.sources, a.targets⟩ := by
  simp only [plain, List.getElem?_zipWith]
  cases t.hypergraph.edges[i]? <;> cases t.hypergraph.adjacency[i]? <;> rfl

/-- the plain hyperedge of variable `k` -/
theorem plainEdge_var (h : WellScoped inLabels prog outs) (k : Nat)
    (hk : k < numVars inLabels prog) :
    (plain (builtTerm inLabels prog outs)).edges[varEdge inLabels prog k]? =
      some ⟨99, pos (fullLog inLabels prog outs) k true, pos (fullLog inLabels prog outs) k false⟩ := by
  rw [plain_edges_getElem?, (built_var_edge_label inLabels prog outs h k hk).1,
    built_var_adjacency inLabels prog outs h k hk]
  rfl

/-- the plain hyperedge of instruction `j` -/
theorem plainEdge_op (j : Nat) (hj : j < prog.length) :
    (plain (builtTerm inLabels prog outs)).edges[opEdge inLabels prog j]? =
      some ⟨insLabel prog[j], List.range' (nodeBase prog j) (insArgs prog[j]).length,
        List.range' (nodeBase prog j + (insArgs prog[j]).length) (insRts prog[j]).length⟩ := by
  rw [plain_edges_getElem?, (built_op_adjacency inLabels prog outs j hj).1,
    (built_op_adjacency inLabels prog outs j hj).2]
  rfl

/-- every plain hyperedge is the edge of a variable or of an instruction -/
theorem plainEdge_cases (i : Nat)
    (hi : i < (plain (builtTerm inLabels prog outs)).edges.length) :
    (∃ k, k < numVars inLabels prog ∧ i = varEdge inLabels prog k) ∨
    (∃ j, j < prog.length ∧ i = opEdge inLabels prog j) := by
  have hl : i < (builtTerm inLabels prog outs).hypergraph.edges.length := by
    have : (plain (builtTerm inLabels prog outs)).edges.length ≤
        (builtTerm inLabels prog outs).hypergraph.edges.length := by
      simp only [plain, List.length_zipWith]; omega
    omega
  rcases edge_cover inLabels prog outs i hl with ⟨k, hk, rfl⟩ | ⟨j, hj, rfl⟩
  · exact Or.inl ⟨k, hk, rfl⟩
  · exact Or.inr ⟨j, hj, rfl⟩

/-- membership form -/
theorem plainEdge_mem (h : WellScoped inLabels prog outs) (e : PEdge Nat)
    (he : e ∈ (plain (builtTerm inLabels prog outs)).edges) :
    (∃ k, k < numVars inLabels prog ∧
      e = ⟨99, pos (fullLog inLabels prog outs) k true, pos (fullLog inLabels prog outs) k false⟩) ∨
    (∃ j, ∃ hj : j < prog.length, e = ⟨insLabel prog[j],
      List.range' (nodeBase prog j) (insArgs prog[j]).length,
      List.range' (nodeBase prog j + (insArgs prog[j]).length) (insRts prog[j]).length⟩) := by
  obtain ⟨i, hi, hie⟩ := List.getElem_of_mem he
  have hie' : (plain (builtTerm inLabels prog outs)).edges[i]? = some e := by
    rw [List.getElem?_eq_getElem hi, hie]
  rcases plainEdge_cases inLabels prog outs i hi with ⟨k, hk, rfl⟩ | ⟨j, hj, rfl⟩
  · rw [plainEdge_var inLabels prog outs h k hk] at hie'
    exact Or.inl ⟨k, hk, (Option.some.inj hie').symm⟩
  · rw [plainEdge_op inLabels prog outs j hj] at hie'
    exact Or.inr ⟨j, hj, (Option.some.inj hie').symm⟩

/-- the instruction that created node `n` -/
theorem node_creator (prog : List VarIns) (n : Nat) (hn : n < numProgNodes prog) :
    ∃ j, ∃ hj : j < prog.length, nodeBase prog j ≤ n ∧
      n < nodeBase prog j + (insArgs prog[j]).length + (insRts prog[j]).length := by
  induction prog generalizing n with
  | nil => simp [numProgNodes] at hn
  | cons ins rest ih =>
    rw [numProgNodes_cons] at hn
    by_cases h0 : n < (insArgs ins).length + (insRts ins).length
    · exact ⟨0, by simp, by simp [nodeBase, numProgNodes], by simp [nodeBase, numProgNodes]; omega⟩
    · obtain ⟨j, hj, h1, h2⟩ := ih (n - ((insArgs ins).length + (insRts ins).length)) (by omega)
      refine ⟨j + 1, by simpa using hj, ?_, ?_⟩
      · simp only [nodeBase, List.take_succ_cons, numProgNodes_cons] at h1 ⊢
        omega
      · simp only [nodeBase, List.take_succ_cons, numProgNodes_cons, List.getElem_cons_succ] at h1 h2 ⊢
        omega

theorem nodeBase_succ_le (j : Nat) (hj : j < prog.length) :
    nodeBase prog j + (insArgs prog[j]).length + (insRts prog[j]).length ≤ numProgNodes prog := by
  rw [← nodeBase_succ prog j hj]
  have := numProgNodes_take_mono prog (j := j + 1) (j' := prog.length) hj
  simpa [nodeBase] using this

/-- a node attached on the SOURCE side of its variable edge (a definition) is a result node of an
    instruction or an input interface node -/
theorem log_def (n k : Nat) (hL : (fullLog inLabels prog outs)[n]? = some (k, true)) :
    (∃ j, ∃ hj : j < prog.length, ∃ r, r < (insRts prog[j]).length ∧
      n = nodeBase prog j + (insArgs prog[j]).length + r ∧ k = varBase inLabels prog j + r) ∨
    (∃ k', k' < inLabels.length ∧ n = numProgNodes prog + k' ∧ k = k') := by
  have hn : n < numProgNodes prog + inLabels.length + outs.length := by
    rw [← fullLog_length]; exact (List.getElem?_eq_some_iff.1 hL).1
  by_cases h1 : n < numProgNodes prog
  · obtain ⟨j, hj, a1, a2⟩ := node_creator prog n h1
    by_cases h2 : n - nodeBase prog j < (insArgs prog[j]).length
    · have := fullLog_arg inLabels prog outs j hj (n - nodeBase prog j) h2
      rw [show nodeBase prog j + (n - nodeBase prog j) = n by omega, hL] at this
      simp at this
    · have hr : n - nodeBase prog j - (insArgs prog[j]).length < (insRts prog[j]).length := by omega
      have := fullLog_res inLabels prog outs j hj _ hr
      rw [show nodeBase prog j + (insArgs prog[j]).length +
        (n - nodeBase prog j - (insArgs prog[j]).length) = n by omega, hL] at this
      simp only [Option.some.injEq, Prod.mk.injEq, and_true] at this
      exact Or.inl ⟨j, hj, _, hr, by omega, this⟩
  · by_cases h2 : n < numProgNodes prog + inLabels.length
    · have := fullLog_source inLabels prog outs (n - numProgNodes prog) (by omega)
      rw [show numProgNodes prog + (n - numProgNodes prog) = n by omega, hL] at this
      simp only [Option.some.injEq, Prod.mk.injEq, and_true] at this
      exact Or.inr ⟨_, by omega, by omega, this⟩
    · have := fullLog_target inLabels prog outs (n - numProgNodes prog - inLabels.length) (by omega)
      rw [show numProgNodes prog + inLabels.length + (n - numProgNodes prog - inLabels.length) = n
        by omega, hL] at this
      simp at this

/-- a numbering of the nodes: definitions of variable `k` at `2k`, uses at `2k+1` -/
def nodeRank (inLabels : List Nat) (prog : List VarIns) (outs : List Nat) (n : Nat) : Nat :=
  match (fullLog inLabels prog outs)[n]? with
  | some (k, b) => 2 * k + (if b then 0 else 1)
  | none => 0

theorem nodeRank_of {n k : Nat} {b : Bool} (h : (fullLog inLabels prog outs)[n]? = some (k, b)) :
    nodeRank inLabels prog outs n = 2 * k + (if b then 0 else 1) := by
  unfold nodeRank; rw [h]

/-- the built term is acyclic -/
theorem built_acyclic (h : WellScoped inLabels prog outs) :
    Acyclic (plain (builtTerm inLabels prog outs)) := by
  apply acyclic_of_rank _ (nodeRank inLabels prog outs)
  intro e he u hu v hv
  rcases plainEdge_mem inLabels prog outs h e he with ⟨k, hk, rfl⟩ | ⟨j, hj, rfl⟩
  · rw [nodeRank_of inLabels prog outs ((mem_pos_iff _ _ _ _).1 hu),
      nodeRank_of inLabels prog outs ((mem_pos_iff _ _ _ _).1 hv)]
    simp
  · obtain ⟨hu1, hu2⟩ := List.mem_range'_1.1 hu
    obtain ⟨hv1, hv2⟩ := List.mem_range'_1.1 hv
    have e1 := fullLog_arg inLabels prog outs j hj (u - nodeBase prog j) (by omega)
    rw [show nodeBase prog j + (u - nodeBase prog j) = u by omega] at e1
    have e2 := fullLog_res inLabels prog outs j hj
      (v - nodeBase prog j - (insArgs prog[j]).length) (by omega)
    rw [show nodeBase prog j + (insArgs prog[j]).length +
      (v - nodeBase prog j - (insArgs prog[j]).length) = v by omega] at e2
    rw [nodeRank_of inLabels prog outs e1, nodeRank_of inLabels prog outs e2]
    have ha : (insArgs prog[j])[u - nodeBase prog j] < varBase inLabels prog j :=
      h.1 j hj _ (List.getElem_mem _)
    simp
    omega

/-- the edge of a variable is erased by `Forget`; the edge of an instruction not labelled 99 is not -/
theorem var_edge_erased (h : WellScoped inLabels prog outs) (k : Nat)
    (hk : k < numVars inLabels prog) :
    Erased 99 (plain (builtTerm inLabels prog outs)).nodes
      ⟨99, pos (fullLog inLabels prog outs) k true, pos (fullLog inLabels prog outs) k false⟩ := by
  refine ⟨rfl, ?_⟩
  intro u hu v hv
  have hu' := var_edge_uniform inLabels prog outs h k hk _
    (built_var_adjacency inLabels prog outs h k hk) u hu
  have hv' := var_edge_uniform inLabels prog outs h k hk _
    (built_var_adjacency inLabels prog outs h k hk) v hv
  show (builtTerm inLabels prog outs).hypergraph.nodes[u]? = _
  rw [hu']; exact hv'.symm

theorem built_oneSource (h : WellScoped inLabels prog outs)
    (hno : ∀ ins ∈ prog, insLabel ins ≠ 99) :
    OneSource 99 (plain (builtTerm inLabels prog outs)) := by
  intro e he hE
  rcases plainEdge_mem inLabels prog outs h e he with ⟨k, hk, rfl⟩ | ⟨j, hj, rfl⟩
  · exact var_edge_one_source inLabels prog outs k hk
  · exact absurd hE.1 (hno _ (List.getElem_mem hj))

theorem built_singleWriter (h : WellScoped inLabels prog outs) :
    SingleWriter (plain (builtTerm inLabels prog outs)) := by
  unfold SingleWriter
  rw [List.nodup_append]
  -- what it means to be a target of the edge with index `i`
  have tgtKey : ∀ i e n, (plain (builtTerm inLabels prog outs)).edges[i]? = some e → n ∈ e.tgt →
      (∃ k, k < numVars inLabels prog ∧ i = varEdge inLabels prog k ∧
        (fullLog inLabels prog outs)[n]? = some (k, false)) ∨
      (∃ j, ∃ hj : j < prog.length, i = opEdge inLabels prog j ∧
        nodeBase prog j + (insArgs prog[j]).length ≤ n ∧
        n < nodeBase prog j + (insArgs prog[j]).length + (insRts prog[j]).length ∧
        ∃ kk, (fullLog inLabels prog outs)[n]? = some (kk, true)) := by
    intro i e n hie hn
    have hi : i < (plain (builtTerm inLabels prog outs)).edges.length :=
      (List.getElem?_eq_some_iff.1 hie).1
    rcases plainEdge_cases inLabels prog outs i hi with ⟨k, hk, rfl⟩ | ⟨j, hj, rfl⟩
    · rw [plainEdge_var inLabels prog outs h k hk] at hie
      cases hie
      exact Or.inl ⟨k, hk, rfl, (mem_pos_iff _ _ _ _).1 hn⟩
    · rw [plainEdge_op inLabels prog outs j hj] at hie
      cases hie
      obtain ⟨h1, h2⟩ := List.mem_range'_1.1 hn
      have e2 := fullLog_res inLabels prog outs j hj
        (n - nodeBase prog j - (insArgs prog[j]).length) (by omega)
      rw [show nodeBase prog j + (insArgs prog[j]).length +
        (n - nodeBase prog j - (insArgs prog[j]).length) = n by omega] at e2
      exact Or.inr ⟨j, hj, rfl, h1, by omega, _, e2⟩
  refine ⟨?_, ?_, ?_⟩
  · show (builtTerm inLabels prog outs).sources.Nodup
    rw [built_sources]; exact List.nodup_range'
  · rw [List.nodup_flatMap]
    constructor
    · intro e he
      rcases plainEdge_mem inLabels prog outs h e he with ⟨k, hk, rfl⟩ | ⟨j, hj, rfl⟩
      · exact pos_nodup _ _ _
      · exact List.nodup_range'
    · rw [List.pairwise_iff_getElem]
      intro i j hi hj hij n hn1 hn2
      have hie := List.getElem?_eq_getElem hi
      have hje := List.getElem?_eq_getElem hj
      rcases tgtKey i _ n hie hn1 with ⟨k, hk, rfl, l1⟩ | ⟨a, ha, rfl, a1, a2, kk, l1⟩ <;>
      rcases tgtKey j _ n hje hn2 with ⟨k', hk', rfl, l2⟩ | ⟨b, hb, rfl, b1, b2, kk', l2⟩
      · rw [l1] at l2
        have : k = k' := by simpa using l2
        subst this; omega
      · rw [l1] at l2; simp at l2
      · rw [l1] at l2; simp at l2
      · rcases Nat.lt_trichotomy a b with hlt | heq | hgt
        · have := numProgNodes_take_mono prog (j := a + 1) (j' := b) hlt
          have hs := nodeBase_succ prog a ha
          unfold nodeBase at *; omega
        · subst heq; omega
        · have := numProgNodes_take_mono prog (j := b + 1) (j' := a) hgt
          have hs := nodeBase_succ prog b hb
          unfold nodeBase at *; omega
  · intro a ha b hb hab
    subst hab
    have ha' : a ∈ (builtTerm inLabels prog outs).sources := ha
    rw [built_sources] at ha'
    obtain ⟨a1, a2⟩ := List.mem_range'_1.1 ha'
    have hsrc := fullLog_source inLabels prog outs (a - numProgNodes prog) (by omega)
    rw [show numProgNodes prog + (a - numProgNodes prog) = a by omega] at hsrc
    obtain ⟨e, he, hae⟩ := List.mem_flatMap.1 hb
    obtain ⟨i, hi, hie⟩ := List.getElem_of_mem he
    have hie' : (plain (builtTerm inLabels prog outs)).edges[i]? = some e := by
      rw [List.getElem?_eq_getElem hi, hie]
    rcases tgtKey i e a hie' hae with ⟨k, hk, rfl, l1⟩ | ⟨j, hj, rfl, b1, b2, _⟩
    · rw [hsrc] at l1; simp at l1
    · have := nodeBase_succ_le prog j hj
      omega

end built

section sem
variable {T : Type} (inLabels : List Nat) (prog : List VarIns) (outs : List Nat)
  (opfn : Nat → List T → List T) (dflt : T) (inputs : List T)

/-- the value carried by a node: the value of the variable it is attached to -/
def nodeVal (n : Nat) : T :=
  (runProg opfn dflt prog inputs).getD ((nodeVars inLabels prog outs).getD n 0) dflt

theorem nodeVal_of {n k : Nat} {b : Bool} (h : (fullLog inLabels prog outs)[n]? = some (k, b)) :
    nodeVal inLabels prog outs opfn dflt inputs n = (runProg opfn dflt prog inputs).getD k dflt := by
  unfold nodeVal nodeVars
  rw [List.getD_eq_getElem?_getD (l := List.map _ _), List.getElem?_map, h]
  rfl

theorem progArity_take (j : Nat) (ha : ProgArity prog opfn) : ProgArity (prog.take j) opfn :=
  fun ins hi => ha ins (List.mem_of_mem_take hi)

theorem getD_append_left'' (l m : List T) (a : Nat) (h : a < l.length) :
    (l ++ m).getD a dflt = l.getD a dflt := by
  rw [List.getD_eq_getElem?_getD, List.getD_eq_getElem?_getD, List.getElem?_append_left h]

theorem getD_append_right'' (l m : List T) (r : Nat) :
    (l ++ m).getD (l.length + r) dflt = m.getD r dflt := by
  rw [List.getD_eq_getElem?_getD, List.getD_eq_getElem?_getD,
    List.getElem?_append_right (by omega), Nat.add_sub_cancel_left]

/-- the results of instruction `j` in the final environment -/
theorem env_op (h : WellScoped inLabels prog outs) (ha : ProgArity prog opfn)
    (hin : inputs.length = inLabels.length) (j : Nat) (hj : j < prog.length) :
    (List.range (insRts prog[j]).length).map
      (fun r => (runProg opfn dflt prog inputs).getD (varBase inLabels prog j + r) dflt) =
    opfn (insLabel prog[j]) ((insArgs prog[j]).map ((runProg opfn dflt prog inputs).getD · dflt)) := by
  obtain ⟨more, hm⟩ := runProg_split opfn dflt prog inputs j hj
  have hE : (runProg opfn dflt (prog.take j) inputs).length = varBase inLabels prog j := by
    rw [runProg_length opfn dflt _ _ (progArity_take prog opfn j ha), hin]; rfl
  have hargs : (insArgs prog[j]).map ((runProg opfn dflt prog inputs).getD · dflt) =
      (insArgs prog[j]).map ((runProg opfn dflt (prog.take j) inputs).getD · dflt) := by
    apply List.map_congr_left
    intro a haa
    have : a < varBase inLabels prog j := h.1 j hj a haa
    show (runProg opfn dflt prog inputs).getD a dflt = _
    rw [hm, List.append_assoc, getD_append_left'' dflt _ _ a (by omega)]
  rw [hargs]
  have hlen := ha prog[j] (List.getElem_mem hj)
    ((insArgs prog[j]).map ((runProg opfn dflt (prog.take j) inputs).getD · dflt)) (by simp)
  apply List.ext_getElem (by rw [List.length_map, List.length_range, hlen])
  intro r h1 h2
  simp only [List.getElem_map, List.getElem_range]
  rw [hm, List.append_assoc, ← hE, getD_append_right'', getD_append_left'' dflt _ _ r h2,
    List.getD_eq_getElem?_getD, List.getElem?_eq_getElem h2]
  rfl

theorem env_input (hin : inputs.length = inLabels.length) (k : Nat) (hk : k < inLabels.length) :
    (runProg opfn dflt prog inputs).getD k dflt = inputs.getD k dflt := by
  obtain ⟨more, hm⟩ := runProg_extends opfn dflt prog inputs
  rw [hm, getD_append_left'' dflt _ _ k (by omega)]

/-- the variable values, read on the nodes, are a valuation of the built term with the variable
    edges read as copies -/
theorem built_copyValuation (h : WellScoped inLabels prog outs)
    (hno : ∀ ins ∈ prog, insLabel ins ≠ 99) (ha : ProgArity prog opfn)
    (hin : inputs.length = inLabels.length) :
    IsCopyValuation 99 (plain (builtTerm inLabels prog outs)) opfn dflt inputs
      (nodeVal inLabels prog outs opfn dflt inputs) := by
  refine ⟨?_, ?_, ?_, ?_⟩
  · show (builtTerm inLabels prog outs).sources.map _ = inputs
    rw [built_sources]
    apply List.ext_getElem (by simp [hin])
    intro i h1 h2
    have hi : i < inLabels.length := by simpa using h1
    simp only [List.getElem_map, List.getElem_range', Nat.one_mul]
    rw [nodeVal_of inLabels prog outs opfn dflt inputs (fullLog_source inLabels prog outs i hi),
      env_input inLabels prog opfn dflt inputs hin i hi, List.getD_eq_getElem?_getD,
      List.getElem?_eq_getElem h2]
    rfl
  · intro e he hE
    rcases plainEdge_mem inLabels prog outs h e he with ⟨k, hk, rfl⟩ | ⟨j, hj, rfl⟩
    · exact absurd (var_edge_erased inLabels prog outs h k hk) hE
    · show (List.range' _ _).map _ = opfn _ ((List.range' _ _).map _)
      have hs : (List.range' (nodeBase prog j) (insArgs prog[j]).length).map
          (nodeVal inLabels prog outs opfn dflt inputs) =
          (insArgs prog[j]).map ((runProg opfn dflt prog inputs).getD · dflt) := by
        apply List.ext_getElem (by simp)
        intro i h1 h2
        have hi : i < (insArgs prog[j]).length := by simpa using h1
        simp only [List.getElem_map, List.getElem_range', Nat.one_mul]
        rw [nodeVal_of inLabels prog outs opfn dflt inputs (fullLog_arg inLabels prog outs j hj i hi)]
      have ht : (List.range' (nodeBase prog j + (insArgs prog[j]).length)
          (insRts prog[j]).length).map (nodeVal inLabels prog outs opfn dflt inputs) =
          (List.range (insRts prog[j]).length).map
            (fun r => (runProg opfn dflt prog inputs).getD (varBase inLabels prog j + r) dflt) := by
        apply List.ext_getElem (by simp)
        intro i h1 h2
        have hi : i < (insRts prog[j]).length := by simpa using h1
        simp only [List.getElem_map, List.getElem_range', List.getElem_range, Nat.one_mul]
        rw [nodeVal_of inLabels prog outs opfn dflt inputs (fullLog_res inLabels prog outs j hj i hi)]
      rw [hs, ht]
      exact env_op inLabels prog outs opfn dflt inputs h ha hin j hj
  · intro e he hE u hu v hv
    rcases plainEdge_mem inLabels prog outs h e he with ⟨k, hk, rfl⟩ | ⟨j, hj, rfl⟩
    · rw [nodeVal_of inLabels prog outs opfn dflt inputs ((mem_pos_iff _ _ _ _).1 hu),
        nodeVal_of inLabels prog outs opfn dflt inputs ((mem_pos_iff _ _ _ _).1 hv)]
    · exact absurd hE.1 (hno _ (List.getElem_mem hj))
  · intro v hvn hvi hvt
    exfalso
    have hvn' : v < (fullLog inLabels prog outs).length := by
      rw [fullLog_length, ← built_nodes_length inLabels prog outs]; exact hvn
    have hx : (fullLog inLabels prog outs)[v]? = some (fullLog inLabels prog outs)[v] :=
      List.getElem?_eq_getElem hvn'
    rcases hxx : (fullLog inLabels prog outs)[v] with ⟨k, b⟩
    rw [hxx] at hx
    have hk : k < numVars inLabels prog :=
      fullLog_inScope inLabels prog outs h (k, b) (List.mem_of_getElem? hx)
    cases b with
    | false =>
      exact hvt _ (List.mem_of_getElem? (plainEdge_var inLabels prog outs h k hk))
        ((mem_pos_iff _ _ _ _).2 hx)
    | true =>
      rcases log_def inLabels prog outs v k hx with ⟨j, hj, r, hr, rfl, _⟩ | ⟨k', hk', rfl, _⟩
      · exact hvt _ (List.mem_of_getElem? (plainEdge_op inLabels prog outs j hj))
          (List.mem_range'_1.2 ⟨by omega, by omega⟩)
      · apply hvi
        show _ ∈ (builtTerm inLabels prog outs).sources
        rw [built_sources]
        exact List.mem_range'_1.2 ⟨by omega, by omega⟩

/-- **C19, semantic reading of the builder**: for a well-scoped program none of whose instructions
    carries the variable label, an interpreter respecting the declared result arities, and one
    input value per declared input — the term built through the `Var` interface, forgotten and
    evaluated (every lawful backend), computes the denotation of the straight-line program: every
    use of a variable reads the value produced for it. -/
theorem build_sem (B : Backend) (hB : B.Lawful) (h : WellScoped inLabels prog outs)
    (hno : ∀ ins ∈ prog, insLabel ins ≠ 99) (ha : ProgArity prog opfn)
    (hin : inputs.length = inLabels.length) :
    ∃ t r sr, varBuildProg inLabels prog outs = .ok t ∧ forgetV B 99 t = .ok r ∧
      LOHG.toStrict B r = .ok sr ∧
      Graph.eval B sr dflt inputs (Eval.applyOf opfn) = .ok (denote opfn dflt prog inputs outs) := by
  obtain ⟨hb, _, hwf⟩ := build_eq inLabels prog outs h
  have hka : KeptArity 99 (plain (builtTerm inLabels prog outs)) opfn := by
    intro e he hE args hargs
    rcases plainEdge_mem inLabels prog outs h e he with ⟨k, hk, rfl⟩ | ⟨j, hj, rfl⟩
    · exact absurd (var_edge_erased inLabels prog outs h k hk) hE
    · have := ha prog[j] (List.getElem_mem hj) args (by simpa using hargs)
      simpa using this
  obtain ⟨r, sr, h1, h2, _, _, _, _, _, h8⟩ := forget_eval_nopending B hB 99
    (builtTerm inLabels prog outs) hwf (built_quotient inLabels prog outs)
    (built_acyclic inLabels prog outs h) (built_singleWriter inLabels prog outs h)
    (built_oneSource inLabels prog outs h hno) opfn dflt inputs hka
    (by rw [built_sources]; simpa using hin)
  refine ⟨_, r, sr, hb, h1, h2, ?_⟩
  rw [h8 _ (built_copyValuation inLabels prog outs opfn dflt inputs h hno ha hin), built_targets]
  congr 1
  unfold denote
  apply List.ext_getElem (by simp)
  intro i h1' h2'
  have hi : i < outs.length := by simpa using h1'
  simp only [List.getElem_map, List.getElem_range', Nat.one_mul]
  rw [nodeVal_of inLabels prog outs opfn dflt inputs (fullLog_target inLabels prog outs i hi)]

end sem
/-- the running example of `Props/C19Build.lean`: `x2 := op7(x0, x1)`, `(x3, x4) := op8(x2, x2)`,
    outputs `x3, x0`; `op7` sums, `op8` returns the sum and the sum plus one -/
def exOpfn (l : Nat) (args : List Nat) : List Nat :=
  if l = 7 then [args.sum] else [args.sum, args.sum + 1]

example : WellScoped [0, 1] exProg [3, 0] ∧ (∀ ins ∈ exProg, insLabel ins ≠ 99) ∧
    ProgArity exProg exOpfn ∧ denote exOpfn 0 exProg [10, 20] [3, 0] = [60, 10] := by
  refine ⟨by decide, by decide, ?_, by decide⟩
  intro ins hi args _
  have : ins ∈ [VarIns.op 7 [0, 1] [5], VarIns.op 8 [2, 2] [6, 6]] := hi
  simp only [List.mem_cons, List.not_mem_nil, or_false] at this
  rcases this with rfl | rfl <;> rfl

/-- for EVERY lawful backend the built, forgotten term evaluates to `[60, 10]` on `[10, 20]` -/
example (B : Backend) (hB : B.Lawful) :
    ∃ t r sr, varBuildProg [0, 1] exProg [3, 0] = .ok t ∧ forgetV B 99 t = .ok r ∧
      LOHG.toStrict B r = .ok sr ∧
      Graph.eval B sr 0 [10, 20] (Eval.applyOf exOpfn) = .ok [60, 10] := by
  have hd : denote exOpfn 0 exProg [10, 20] [3, 0] = [60, 10] := by decide
  rw [← hd]
  apply build_sem [0, 1] exProg [3, 0] exOpfn 0 [10, 20] B hB (by decide) (by decide) ?_ rfl
  intro ins hi args _
  have : ins ∈ [VarIns.op 7 [0, 1] [5], VarIns.op 8 [2, 2] [6, 6]] := hi
  simp only [List.mem_cons, List.not_mem_nil, or_false] at this
  rcases this with rfl | rfl <;> rfl

end OH.C19
