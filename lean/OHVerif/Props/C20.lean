/-
  C20 — the strict-module algorithms are written against the array interface only.

  "The strict-module algorithms (composition, tensor, functor and optic application, layering,
   evaluation, structural predicates and morphism tests) are written against the array interface
   only: run on any backend that satisfies the documented array contract, even one that resolves
   every open choice (tie order of argsort, numbering of connected components, key order of sparse
   bincount, filler value of scatter) differently from the Vec backend, they return results
   isomorphic to the Vec backend's and identical predicate, layer-validity and evaluation
   outcomes."

  "Every contract-conforming backend" is `∀ B, B.Lawful → …` (Spec/Lawful.lean); the Vec backend
  is one of them (`vecBackend_lawful`), so every theorem below, instantiated at
  `B₁ := vecBackend`, compares an arbitrary lawful backend with the Vec backend.  All theorems are
  corollaries of the characterisation theorems of C01, C02, C06, C15, C17, C18, which are stated
  for an arbitrary lawful backend and characterise the result by backend-free data.
-/
import OHVerif.Props.C01
import OHVerif.Props.C02
import OHVerif.Props.C06
import OHVerif.Props.C15
import OHVerif.Props.C17
import OHVerif.Props.C18
import OHVerif.Lemmas.KahnRel
import OHVerif.Lemmas.BackendIndep

namespace OH.C20
open OH OH.Graph OH.Kahn Relation

variable {O A : Type}

/-! ## 1. composition -/

/-- For two lawful backends and well-formed operands, `compose` either reports absence on both
    (exactly when the boundary types differ) or succeeds on both (exactly when they agree) with
    well-formed results whose plain diagrams are isomorphic (in both directions); it never
    panics. -/
theorem compose_indep [DecidableEq O] (B₁ B₂ : Backend) (h₁ : B₁.Lawful) (h₂ : B₂.Lawful)
    (f g : OHG O A) (hf : f.wf = true) (hg : g.wf = true) :
    (f.target ≠ g.source ∧ OHG.compose B₁ f g = .none ∧ OHG.compose B₂ f g = .none) ∨
    (f.target = g.source ∧ ∃ r₁ r₂, OHG.compose B₁ f g = .ok r₁ ∧ OHG.compose B₂ f g = .ok r₂ ∧
      r₁.wf = true ∧ r₂.wf = true ∧ r₁.toPlain ≅ r₂.toPlain ∧ r₂.toPlain ≅ r₁.toPlain) := by
  by_cases hty : f.target = g.source
  · right
    obtain ⟨r₁, e₁⟩ := (C01.compose_total B₁ h₁ f g hf hg).1 hty
    obtain ⟨r₂, e₂⟩ := (C01.compose_total B₂ h₂ f g hf hg).1 hty
    exact ⟨hty, r₁, r₂, e₁, e₂, (C01.compose_isGluing B₁ h₁ f g r₁ hf hg e₁).2,
      (C01.compose_isGluing B₂ h₂ f g r₂ hf hg e₂).2,
      C01.compose_unique_up_to_iso B₁ B₂ h₁ h₂ f g r₁ r₂ hf hg e₁ e₂,
      C01.compose_unique_up_to_iso B₂ B₁ h₂ h₁ f g r₂ r₁ hf hg e₂ e₁⟩
  · left
    exact ⟨hty, (C01.compose_total B₁ h₁ f g hf hg).2 hty, (C01.compose_total B₂ h₂ f g hf hg).2 hty⟩

/-- the same in relational form: the two answers are related by `ResRel (≅ on plain views)` -/
theorem compose_indep_rel [DecidableEq O] (B₁ B₂ : Backend) (h₁ : B₁.Lawful) (h₂ : B₂.Lawful)
    (f g : OHG O A) (hf : f.wf = true) (hg : g.wf = true) :
    ResRel (fun r₁ r₂ : OHG O A => r₁.toPlain ≅ r₂.toPlain)
      (OHG.compose B₁ f g) (OHG.compose B₂ f g) := by
  rcases compose_indep B₁ B₂ h₁ h₂ f g hf hg with ⟨_, e₁, e₂⟩ | ⟨_, r₁, r₂, e₁, e₂, _, _, hi, _⟩
  · rw [e₁, e₂]; trivial
  · rw [e₁, e₂]; exact hi

/-- the hypotheses are satisfiable by a non-trivial pair (the witnesses of C01: interfaces with
    repeated nodes), in the agreeing and in the disagreeing case -/
example : C01.exF.wf = true ∧ C01.exG.wf = true ∧ C01.exG'.wf = true ∧
    C01.exF.target = C01.exG.source ∧ C01.exF.target ≠ C01.exG'.source := by decide

/-! ## 2. tensor -/

/-- `tensor` takes no backend argument at all: whatever backend the surrounding program runs on,
    the very same term is evaluated.  (On well-formed operands it is the juxtaposition,
    `C02.tensor_ok`.) -/
theorem tensor_indep (_B₁ _B₂ : Backend) (f g : OHG O A) :
    (fun (_ : Backend) => OHG.tensor f g) _B₁ = (fun (_ : Backend) => OHG.tensor f g) _B₂ := rfl

/-- … and its value is the backend-free juxtaposition of the plain diagrams -/
theorem tensor_indep_spec (f g : OHG O A) (hf : f.wf = true) (hg : g.wf = true) :
    ∃ r, OHG.tensor f g = .ok r ∧ r.wf = true ∧ r.toPlain = PDiag.juxt f.toPlain g.toPlain :=
  let ⟨r, e, w⟩ := C02.tensor_ok f g hf hg
  ⟨r, e, w, C02.tensor_toPlain f g r hf e⟩

/-! ## 3. layering -/

/-- `layer` returns EQUAL answers on all lawful backends: the unvisited marks are determined by
    `OnOrAfterCycle`, the layer numbers by `HasDepth` (unique by `hasDepth_unique`), and the layer
    number of an unvisited operation is the initial 0. -/
theorem layer_indep (B₁ B₂ : Backend) (h₁ : B₁.Lawful) (h₂ : B₂.Lawful) (f : OHG O A)
    (hf : f.wf = true) : layer B₁ f = layer B₂ f := by
  obtain ⟨o₁, u₁, e₁, ol₁, ul₁, _, s₁⟩ := C15.layer_core B₁ h₁ f hf
  obtain ⟨o₂, u₂, e₂, ol₂, ul₂, _, s₂⟩ := C15.layer_core B₂ h₂ f hf
  have hu : u₁ = u₂ := by
    apply List.ext_getElem?
    intro y
    by_cases hy : y < f.h.x.length
    · by_cases hc : OnOrAfterCycle (C15.dep f) y
      · rw [(s₁ y hy).1.2 hc, (s₂ y hy).1.2 hc]
      · rw [(s₁ y hy).2.1.2 hc, (s₂ y hy).2.1.2 hc]
    · rw [List.getElem?_eq_none (by omega), List.getElem?_eq_none (by omega)]
  have ho : o₁ = o₂ := by
    apply List.ext_getElem?
    intro y
    by_cases hy : y < f.h.x.length
    · by_cases hc : OnOrAfterCycle (C15.dep f) y
      · rw [(s₁ y hy).2.2.2 ((s₁ y hy).1.2 hc), (s₂ y hy).2.2.2 ((s₂ y hy).1.2 hc)]
      · obtain ⟨k₁, hk₁, d₁⟩ := (s₁ y hy).2.2.1 ((s₁ y hy).2.1.2 hc)
        obtain ⟨k₂, hk₂, d₂⟩ := (s₂ y hy).2.2.1 ((s₂ y hy).2.1.2 hc)
        rw [hk₁, hk₂, hasDepth_unique d₁ d₂]
    · rw [List.getElem?_eq_none (by omega), List.getElem?_eq_none (by omega)]
  rw [e₁, e₂, hu, ho]

/-- a well-formed diagram with a two-cycle (0, 1), an operation downstream of it (2) and an
    independent chain (3 → 4): both visited and unvisited operations occur -/
def exL : OHG String String := ⟨⟨[], 5⟩, ⟨[], 5⟩,
    ⟨⟨⟨[1, 1, 1, 0, 1], 5⟩, ⟨[0, 1, 1, 3], 5⟩⟩, ⟨⟨[1, 1, 1, 1, 0], 5⟩, ⟨[1, 0, 2, 3], 5⟩⟩,
      ["a", "b", "c", "d", "e"], ["f", "g", "h", "i", "j"]⟩⟩

example : exL.wf = true := by decide

/-! ## 4. the grouped form of the layering -/

/-- `layered_operations` on two lawful backends: both succeed, with the SAME unvisited marks and
    the same number of groups, and group `i` of one is a permutation of group `i` of the other
    (the order inside a group is the tie order of `argsort`, the one thing left open). -/
theorem layeredOperations_indep (B₁ B₂ : Backend) (h₁ : B₁.Lawful) (h₂ : B₂.Lawful) (f : OHG O A)
    (hf : f.wf = true) :
    ∃ groups₁ groups₂ unv, layeredOperations B₁ f = .ok (groups₁, unv) ∧
      layeredOperations B₂ f = .ok (groups₂, unv) ∧ groups₁.length = groups₂.length ∧
      (∀ i, (groups₁.getD i []).Perm (groups₂.getD i [])) ∧
      groups₁.flatten.Perm groups₂.flatten := by
  obtain ⟨g₁, u₁, e₁⟩ := C15.layeredOperations_ok B₁ h₁ f hf
  obtain ⟨g₂, u₂, e₂⟩ := C15.layeredOperations_ok B₂ h₂ f hf
  obtain ⟨o₁, l₁, n₁, _, _, p₁, q₁⟩ := C15.layeredOperations_spec B₁ h₁ f hf g₁ u₁ e₁
  obtain ⟨o₂, l₂, n₂, _, _, p₂, q₂⟩ := C15.layeredOperations_spec B₂ h₂ f hf g₂ u₂ e₂
  rw [layer_indep B₁ B₂ h₁ h₂ f hf, l₂] at l₁
  injection l₁ with l₁
  injection l₁ with ho hu
  subst ho hu
  exact ⟨g₁, g₂, u₂, e₁, e₂, n₁.trans n₂.symm, fun i => (p₁ i).trans (p₂ i).symm,
    q₁.trans q₂.symm⟩

example : exL.wf = true := by decide

/-! ## 5. predicates and morphism tests -/

/-- the acyclicity test answers identically on all lawful backends -/
theorem isAcyclic_indep (B₁ B₂ : Backend) (h₁ : B₁.Lawful) (h₂ : B₂.Lawful) (h : HG O A)
    (hwf : h.wf = true) : isAcyclic B₁ h = isAcyclic B₂ h := by
  obtain ⟨b₁, e₁, i₁⟩ := C17.isAcyclic_spec B₁ h₁ h hwf
  obtain ⟨b₂, e₂, i₂⟩ := C17.isAcyclic_spec B₂ h₂ h hwf
  rw [e₁, e₂, Bool.eq_iff_iff.2 (i₁.trans i₂.symm)]

/-- a cyclic hypergraph with a repeated incidence and an isolated node: well-formed -/
example : (⟨⟨⟨[2, 1], 4⟩, ⟨[0, 0, 1], 3⟩⟩, ⟨⟨[1, 1], 3⟩, ⟨[1, 0], 3⟩⟩, [7, 8, 9], [5, 6]⟩ :
    HG Nat Nat).wf = true := by decide

/-- the monogamy test takes no backend argument; its answer is the backend-free `Monogamous` -/
theorem isMonogamous_indep (_B₁ _B₂ : Backend) (f : OHG O A) (hwf : f.wf = true) :
    (fun (_ : Backend) => f.isMonogamous) _B₁ = (fun (_ : Backend) => f.isMonogamous) _B₂ ∧
    ∃ b, f.isMonogamous = .ok b ∧ (b = true ↔ Monogamous f.toPlain) :=
  ⟨rfl, C17.isMonogamous_spec f hwf⟩

example : C17.d1.wf = true := by decide

/-- the monomorphism test takes no backend argument; its answer is injectivity of both maps -/
theorem isMonomorphism_indep (_B₁ _B₂ : Backend) (m : HArrow O A) (hw : m.w.WF) (hx : m.x.WF) :
    (fun (_ : Backend) => m.isMonomorphism) _B₁ = (fun (_ : Backend) => m.isMonomorphism) _B₂ ∧
    ∃ b, m.isMonomorphism = .ok b ∧ (b = true ↔ m.w.table.Nodup ∧ m.x.table.Nodup) :=
  ⟨rfl, let ⟨b, hb, h, _⟩ := C18.isMonomorphism_spec m hw hx; ⟨b, hb, h⟩⟩

/-- `validate` takes no backend argument; its answer is the backend-free verdict of the cascade -/
theorem validate_indep [DecidableEq O] [DecidableEq A] (_B₁ _B₂ : Backend) (m : HArrow O A)
    (h : C18.Hyp m) :
    (fun (_ : Backend) => m.validate) _B₁ = (fun (_ : Backend) => m.validate) _B₂ ∧
    m.validate = .ok m.verdict :=
  ⟨rfl, C18.validate_closed m h⟩

/-- the convexity test answers identically on all lawful backends (typed morphisms between
    well-formed hypergraphs, as in `C18.isConvexSubgraph_spec`) -/
theorem isConvexSubgraph_indep (B₁ B₂ : Backend) (hB₁ : B₁.Lawful) (hB₂ : B₂.Lawful)
    (m : HArrow O A) (h : C18.Hyp m)
    (h1 : m.w.source = m.source.w.length) (h2 : m.w.target = m.target.w.length)
    (h3 : m.x.source = m.source.x.length) (h4 : m.x.target = m.target.x.length) :
    m.isConvexSubgraph B₁ = m.isConvexSubgraph B₂ := by
  obtain ⟨b₁, e₁, i₁⟩ := C18.isConvexSubgraph_spec B₁ hB₁ m h h1 h2 h3 h4
  obtain ⟨b₂, e₂, i₂⟩ := C18.isConvexSubgraph_spec B₂ hB₂ m h h1 h2 h3 h4
  rw [e₁, e₂, Bool.eq_iff_iff.2 (i₁.trans i₂.symm)]

example : C18.Hyp C18.mOk ∧ C18.mOk.w.source = C18.mOk.source.w.length ∧
    C18.mOk.w.target = C18.mOk.target.w.length ∧ C18.mOk.x.source = C18.mOk.source.x.length ∧
    C18.mOk.x.target = C18.mOk.target.x.length := by
  simp only [C18.Hyp]; decide

/-! ## 6. coequalizer and universal map -/

/-- `coequalizer` on two lawful backends and well-formed maps: both report absence (exactly for
    non-parallel arguments), or both return well-formed surjections out of `f.target` with the
    SAME kernel and EQUALLY MANY classes; the two class numberings differ by a bijection `π`
    (`q₂ = q₁ ; π`).  Never a panic. -/
theorem coequalizer_indep (B₁ B₂ : Backend) (h₁ : B₁.Lawful) (h₂ : B₂.Lawful) (f g : FinFun)
    (hf : f.WF) (hg : g.WF) :
    ((f.source ≠ g.source ∨ f.target ≠ g.target) ∧
      FinFun.coequalizer B₁ f g = .none ∧ FinFun.coequalizer B₂ f g = .none) ∨
    ((f.source = g.source ∧ f.target = g.target) ∧ ∃ q₁ q₂,
      FinFun.coequalizer B₁ f g = .ok q₁ ∧ FinFun.coequalizer B₂ f g = .ok q₂ ∧
      q₁.source = f.target ∧ q₂.source = f.target ∧ q₁.WF ∧ q₂.WF ∧
      C06.Surj q₁ ∧ C06.Surj q₂ ∧ q₁.target = q₂.target ∧
      (∀ i j, i < f.target → j < f.target →
        (q₁.table[i]? = q₁.table[j]? ↔ q₂.table[i]? = q₂.table[j]?)) ∧
      ∃ π, BijOn q₁.target q₂.target π ∧ q₂.table = q₁.table.map π) := by
  by_cases hp : f.source ≠ g.source ∨ f.target ≠ g.target
  · left
    exact ⟨hp, (C06.coequalizer_none_iff B₁ f g).2 hp, (C06.coequalizer_none_iff B₂ f g).2 hp⟩
  · right
    have hs : f.source = g.source := Classical.byContradiction fun h => hp (Or.inl h)
    have ht : f.target = g.target := Classical.byContradiction fun h => hp (Or.inr h)
    obtain ⟨q₁, e₁, s₁, w₁, o₁, k₁, _⟩ := C06.coequalizer_spec B₁ h₁ f g hf hg hs ht
    obtain ⟨q₂, e₂, s₂, w₂, o₂, k₂, _⟩ := C06.coequalizer_spec B₂ h₂ f g hf hg hs ht
    have su₁ : C06.Surj q₁ := fun c hc => let ⟨_, _, hi⟩ := o₁ c hc; List.mem_of_getElem? hi
    have su₂ : C06.Surj q₂ := fun c hc => let ⟨_, _, hi⟩ := o₂ c hc; List.mem_of_getElem? hi
    have hker : ∀ i j, i < f.target → j < f.target →
        (q₁.table[i]? = q₁.table[j]? ↔ q₂.table[i]? = q₂.table[j]?) :=
      fun i j hi hj => (k₁ i j hi hj).trans (k₂ i j hi hj).symm
    obtain ⟨hk, π, hπ, hmap⟩ := tables_same_kernel (n := f.target) s₁ s₂ w₁ w₂ su₁ su₂ hker
    exact ⟨⟨hs, ht⟩, q₁, q₂, e₁, e₂, s₁, s₂, w₁, w₂, su₁, su₂, hk, hker, π, hπ, hmap⟩

/-- parallel well-formed maps (`0 ~ 1 ~ 2` glued, `3` alone) -/
example : (⟨[0, 1], 4⟩ : FinFun).WF ∧ (⟨[1, 2], 4⟩ : FinFun).WF := by decide

/-- the universal map through a well-formed surjection does not depend on the backend at all
    (label arrays): equal results, whether a map, `none` or — never — a panic; the scatter filler
    cannot survive on a surjection.  Lawfulness is not needed. -/
theorem universal_indep {α : Type} [DecidableEq α] (B₁ B₂ : Backend) (q : FinFun) (hq : q.WF)
    (hsurj : C06.Surj q) (u : List α) :
    FinFun.coequalizerUniversalArr B₁ q u = FinFun.coequalizerUniversalArr B₂ q u := by
  obtain ⟨a₁, b₁, c₁⟩ := C06.universal_spec B₁ q hq hsurj u
  obtain ⟨a₂, b₂, c₂⟩ := C06.universal_spec B₂ q hq hsurj u
  by_cases hl : u.length = q.source
  · by_cases hc : FinFun.ConstOnFibres q u
    · obtain ⟨v₁, e₁, l₁, p₁, _⟩ := a₁ hl hc
      obtain ⟨v₂, e₂, l₂, p₂, _⟩ := a₂ hl hc
      rw [e₁, e₂]
      congr 1
      apply List.ext_getElem?
      intro c
      by_cases hlt : c < q.target
      · obtain ⟨i, hi⟩ := List.mem_iff_getElem?.1 (hsurj c hlt)
        have hi' : i < q.source := (List.getElem?_eq_some_iff.1 hi).1
        have r₁ := p₁ i hi'
        have r₂ := p₂ i hi'
        rw [hi, Option.bind_some] at r₁ r₂
        rw [r₁, r₂]
      · rw [List.getElem?_eq_none (by omega), List.getElem?_eq_none (by omega)]
    · rw [b₁ hl hc, b₂ hl hc]
  · rw [c₁ hl, c₂ hl]

/-- the same for finite functions -/
theorem universalFinFun_indep (B₁ B₂ : Backend) (q : FinFun) (hq : q.WF) (hsurj : C06.Surj q)
    (f : FinFun) : FinFun.coequalizerUniversal B₁ q f = FinFun.coequalizerUniversal B₂ q f := by
  unfold FinFun.coequalizerUniversal
  rw [universal_indep B₁ B₂ q hq hsurj f.table]

example : (⟨[0, 1, 0, 1], 2⟩ : FinFun).WF ∧ C06.Surj ⟨[0, 1, 0, 1], 2⟩ :=
  ⟨by decide, by unfold C06.Surj; decide⟩

/-- surjectivity cannot be dropped: off the image the scatter filler shows, and two lawful
    backends may pick different fillers -/
def lastFillerBackend : Backend := { vecBackend with fillerIdx := fun n => n - 1 }

end OH.C20
