/-
  C20 — the strict-module algorithms are written against the array interface only.

  "The strict-module algorithms (composition, tensor, functor and optic application, layering,
   evaluation, structural predicates and morphism tests) are written against the array interface
   only: run on any backend that satisfies the documented array contract, even one that resolves
   every open choice (tie order of argsort, numbering of connected components, key order of sparse
   bincount, filler value of scatter) differently from the Vec backend, they return results
   isomorphic to the Vec backend's and identical predicate, layer-validity and evaluation
   outcomes."

  "Every contract-conforming backend" is `∀ B, B.Lawful → …` (Spec/Lawful.lean); the Vec backend
  is one of them (`vecBackend_lawful`), so every theorem below, instantiated at
  `B₁ := vecBackend`, compares an arbitrary lawful backend with the Vec backend.  The theorems are
  corollaries of the characterisation theorems of C01, C02, C06, C15, C17, C18, which are stated
  for an arbitrary lawful backend and characterise the result by backend-free data.

  PROVED: `compose_indep`, `compose_congr` (isomorphic operands), `tensor_indep`, `layer_indep`
  (EQUAL), `layeredOperations_indep` (groupwise permutation), `isAcyclic_indep`,
  `isMonogamous_indep`, `isMonomorphism_indep`, `validate_indep`, `isConvexSubgraph_indep` (EQUAL),
  `coequalizer_indep` (same kernel, same number of classes, bijective renumbering),
  `universal_indep` (EQUAL), `functor_indep` = `mapArrow_indep_of_compose` (strict functor
  application, up to `≅`), `advBackend_lawful` + witnesses (§9),
  `eval_validity_indep`, `eval_indep` (EQUAL; restating Props/C16).
  PARTIAL / STATEMENT ONLY: optics (`optic_indep_partial`: reduction to the optic's action on
  operations; `optic_mapOperations_indep_statement`).
-/
import OHVerif.Props.C01
import OHVerif.Props.C02
import OHVerif.Props.C04
import OHVerif.Props.C06
import OHVerif.Props.C12
import OHVerif.Props.C15
import OHVerif.Props.C16
import OHVerif.Props.C17
import OHVerif.Props.C18
import OHVerif.Lemmas.KahnRel
import OHVerif.Model.Functor
import OHVerif.Lemmas.BackendIndep

namespace OH.C20
open OH OH.Graph OH.Kahn Relation

variable {O A : Type}

/-! ## 1. composition -/

/-- For two lawful backends and well-formed operands, `compose` either reports absence on both
    (exactly when the boundary types differ) or succeeds on both (exactly when they agree) with
    well-formed results whose plain diagrams are isomorphic (in both directions); it never
    panics. -/
theorem compose_indep [DecidableEq O] (B₁ B₂ : Backend) (h₁ : B₁.Lawful) (h₂ : B₂.Lawful)
    (f g : OHG O A) (hf : f.wf = true) (hg : g.wf = true) :
    (f.target ≠ g.source ∧ OHG.compose B₁ f g = .none ∧ OHG.compose B₂ f g = .none) ∨
    (f.target = g.source ∧ ∃ r₁ r₂, OHG.compose B₁ f g = .ok r₁ ∧ OHG.compose B₂ f g = .ok r₂ ∧
      r₁.wf = true ∧ r₂.wf = true ∧ r₁.toPlain ≅ r₂.toPlain ∧ r₂.toPlain ≅ r₁.toPlain) := by
  by_cases hty : f.target = g.source
  · right
    obtain ⟨r₁, e₁⟩ := (C01.compose_total B₁ h₁ f g hf hg).1 hty
    obtain ⟨r₂, e₂⟩ := (C01.compose_total B₂ h₂ f g hf hg).1 hty
    exact ⟨hty, r₁, r₂, e₁, e₂, (C01.compose_isGluing B₁ h₁ f g r₁ hf hg e₁).2,
      (C01.compose_isGluing B₂ h₂ f g r₂ hf hg e₂).2,
      C01.compose_unique_up_to_iso B₁ B₂ h₁ h₂ f g r₁ r₂ hf hg e₁ e₂,
      C01.compose_unique_up_to_iso B₂ B₁ h₂ h₁ f g r₂ r₁ hf hg e₂ e₁⟩
  · left
    exact ⟨hty, (C01.compose_total B₁ h₁ f g hf hg).2 hty, (C01.compose_total B₂ h₂ f g hf hg).2 hty⟩

/-- the same in relational form: the two answers are related by `ResRel (≅ on plain views)` -/
theorem compose_indep_rel [DecidableEq O] (B₁ B₂ : Backend) (h₁ : B₁.Lawful) (h₂ : B₂.Lawful)
    (f g : OHG O A) (hf : f.wf = true) (hg : g.wf = true) :
    ResRel (fun r₁ r₂ : OHG O A => r₁.toPlain ≅ r₂.toPlain)
      (OHG.compose B₁ f g) (OHG.compose B₂ f g) := by
  rcases compose_indep B₁ B₂ h₁ h₂ f g hf hg with ⟨_, e₁, e₂⟩ | ⟨_, r₁, r₂, e₁, e₂, _, _, hi, _⟩
  · rw [e₁, e₂]; trivial
  · rw [e₁, e₂]; exact hi

/-- the hypotheses are satisfiable by a non-trivial pair (the witnesses of C01: interfaces with
    repeated nodes), in the agreeing and in the disagreeing case -/
example : C01.exF.wf = true ∧ C01.exG.wf = true ∧ C01.exG'.wf = true ∧
    C01.exF.target = C01.exG.source ∧ C01.exF.target ≠ C01.exG'.source := by decide

/-! ## 2. tensor -/

/-- `tensor` takes no backend argument at all: whatever backend the surrounding program runs on,
    the very same term is evaluated.  (On well-formed operands it is the juxtaposition,
    `C02.tensor_ok`.) -/
theorem tensor_indep (_B₁ _B₂ : Backend) (f g : OHG O A) :
    (fun (_ : Backend) => OHG.tensor f g) _B₁ = (fun (_ : Backend) => OHG.tensor f g) _B₂ := rfl

/-- … and its value is the backend-free juxtaposition of the plain diagrams -/
theorem tensor_indep_spec (f g : OHG O A) (hf : f.wf = true) (hg : g.wf = true) :
    ∃ r, OHG.tensor f g = .ok r ∧ r.wf = true ∧ r.toPlain = PDiag.juxt f.toPlain g.toPlain :=
  let ⟨r, e, w⟩ := C02.tensor_ok f g hf hg
  ⟨r, e, w, C02.tensor_toPlain f g r hf e⟩

/-! ## 3. layering -/

/-- `layer` returns EQUAL answers on all lawful backends: the unvisited marks are determined by
    `OnOrAfterCycle`, the layer numbers by `HasDepth` (unique by `hasDepth_unique`), and the layer
    number of an unvisited operation is the initial 0. -/
theorem layer_indep (B₁ B₂ : Backend) (h₁ : B₁.Lawful) (h₂ : B₂.Lawful) (f : OHG O A)
    (hf : f.wf = true) : layer B₁ f = layer B₂ f := by
  obtain ⟨o₁, u₁, e₁, ol₁, ul₁, _, s₁⟩ := C15.layer_core B₁ h₁ f hf
  obtain ⟨o₂, u₂, e₂, ol₂, ul₂, _, s₂⟩ := C15.layer_core B₂ h₂ f hf
  have hu : u₁ = u₂ := by
    apply List.ext_getElem?
    intro y
    by_cases hy : y < f.h.x.length
    · by_cases hc : OnOrAfterCycle (C15.dep f) y
      · rw [(s₁ y hy).1.2 hc, (s₂ y hy).1.2 hc]
      · rw [(s₁ y hy).2.1.2 hc, (s₂ y hy).2.1.2 hc]
    · rw [List.getElem?_eq_none (by omega), List.getElem?_eq_none (by omega)]
  have ho : o₁ = o₂ := by
    apply List.ext_getElem?
    intro y
    by_cases hy : y < f.h.x.length
    · by_cases hc : OnOrAfterCycle (C15.dep f) y
      · rw [(s₁ y hy).2.2.2 ((s₁ y hy).1.2 hc), (s₂ y hy).2.2.2 ((s₂ y hy).1.2 hc)]
      · obtain ⟨k₁, hk₁, d₁⟩ := (s₁ y hy).2.2.1 ((s₁ y hy).2.1.2 hc)
        obtain ⟨k₂, hk₂, d₂⟩ := (s₂ y hy).2.2.1 ((s₂ y hy).2.1.2 hc)
        rw [hk₁, hk₂, hasDepth_unique d₁ d₂]
    · rw [List.getElem?_eq_none (by omega), List.getElem?_eq_none (by omega)]
  rw [e₁, e₂, hu, ho]

/-- a well-formed diagram with a two-cycle (0, 1), an operation downstream of it (2) and an
    independent chain (3 → 4): both visited and unvisited operations occur -/
def exL : OHG String String := ⟨⟨[], 5⟩, ⟨[], 5⟩,
    ⟨⟨⟨[1, 1, 1, 0, 1], 5⟩, ⟨[0, 1, 1, 3], 5⟩⟩, ⟨⟨[1, 1, 1, 1, 0], 5⟩, ⟨[1, 0, 2, 3], 5⟩⟩,
      ["a", "b", "c", "d", "e"], ["f", "g", "h", "i", "j"]⟩⟩

example : exL.wf = true := by decide

/-! ## 4. the grouped form of the layering -/

/-- `layered_operations` on two lawful backends: both succeed, with the SAME unvisited marks and
    the same number of groups, and group `i` of one is a permutation of group `i` of the other
    (the order inside a group is the tie order of `argsort`, the one thing left open). -/
theorem layeredOperations_indep (B₁ B₂ : Backend) (h₁ : B₁.Lawful) (h₂ : B₂.Lawful) (f : OHG O A)
    (hf : f.wf = true) :
    ∃ groups₁ groups₂ unv, layeredOperations B₁ f = .ok (groups₁, unv) ∧
      layeredOperations B₂ f = .ok (groups₂, unv) ∧ groups₁.length = groups₂.length ∧
      (∀ i, (groups₁.getD i []).Perm (groups₂.getD i [])) ∧
      groups₁.flatten.Perm groups₂.flatten := by
  obtain ⟨g₁, u₁, e₁⟩ := C15.layeredOperations_ok B₁ h₁ f hf
  obtain ⟨g₂, u₂, e₂⟩ := C15.layeredOperations_ok B₂ h₂ f hf
  obtain ⟨o₁, l₁, n₁, _, _, p₁, q₁⟩ := C15.layeredOperations_spec B₁ h₁ f hf g₁ u₁ e₁
  obtain ⟨o₂, l₂, n₂, _, _, p₂, q₂⟩ := C15.layeredOperations_spec B₂ h₂ f hf g₂ u₂ e₂
  rw [layer_indep B₁ B₂ h₁ h₂ f hf, l₂] at l₁
  injection l₁ with l₁
  injection l₁ with ho hu
  subst ho hu
  exact ⟨g₁, g₂, u₂, e₁, e₂, n₁.trans n₂.symm, fun i => (p₁ i).trans (p₂ i).symm,
    q₁.trans q₂.symm⟩

example : exL.wf = true := by decide

/-! ## 5. predicates and morphism tests -/

/-- the acyclicity test answers identically on all lawful backends -/
theorem isAcyclic_indep (B₁ B₂ : Backend) (h₁ : B₁.Lawful) (h₂ : B₂.Lawful) (h : HG O A)
    (hwf : h.wf = true) : isAcyclic B₁ h = isAcyclic B₂ h := by
  obtain ⟨b₁, e₁, i₁⟩ := C17.isAcyclic_spec B₁ h₁ h hwf
  obtain ⟨b₂, e₂, i₂⟩ := C17.isAcyclic_spec B₂ h₂ h hwf
  rw [e₁, e₂, Bool.eq_iff_iff.2 (i₁.trans i₂.symm)]

/-- a cyclic hypergraph with a repeated incidence and an isolated node: well-formed -/
example : (⟨⟨⟨[2, 1], 4⟩, ⟨[0, 0, 1], 3⟩⟩, ⟨⟨[1, 1], 3⟩, ⟨[1, 0], 3⟩⟩, [7, 8, 9], [5, 6]⟩ :
    HG Nat Nat).wf = true := by decide

/-- the monogamy test takes no backend argument; its answer is the backend-free `Monogamous` -/
theorem isMonogamous_indep (_B₁ _B₂ : Backend) (f : OHG O A) (hwf : f.wf = true) :
    (fun (_ : Backend) => f.isMonogamous) _B₁ = (fun (_ : Backend) => f.isMonogamous) _B₂ ∧
    ∃ b, f.isMonogamous = .ok b ∧ (b = true ↔ Monogamous f.toPlain) :=
  ⟨rfl, C17.isMonogamous_spec f hwf⟩

example : C17.d1.wf = true := by decide

/-- the monomorphism test takes no backend argument; its answer is injectivity of both maps -/
theorem isMonomorphism_indep (_B₁ _B₂ : Backend) (m : HArrow O A) (hw : m.w.WF) (hx : m.x.WF) :
    (fun (_ : Backend) => m.isMonomorphism) _B₁ = (fun (_ : Backend) => m.isMonomorphism) _B₂ ∧
    ∃ b, m.isMonomorphism = .ok b ∧ (b = true ↔ m.w.table.Nodup ∧ m.x.table.Nodup) :=
  ⟨rfl, let ⟨b, hb, h, _⟩ := C18.isMonomorphism_spec m hw hx; ⟨b, hb, h⟩⟩

/-- `validate` takes no backend argument; its answer is the backend-free verdict of the cascade -/
theorem validate_indep [DecidableEq O] [DecidableEq A] (_B₁ _B₂ : Backend) (m : HArrow O A)
    (h : C18.Hyp m) :
    (fun (_ : Backend) => m.validate) _B₁ = (fun (_ : Backend) => m.validate) _B₂ ∧
    m.validate = .ok m.verdict :=
  ⟨rfl, C18.validate_closed m h⟩

/-- the convexity test answers identically on all lawful backends (typed morphisms between
    well-formed hypergraphs, as in `C18.isConvexSubgraph_spec`) -/
theorem isConvexSubgraph_indep (B₁ B₂ : Backend) (hB₁ : B₁.Lawful) (hB₂ : B₂.Lawful)
    (m : HArrow O A) (h : C18.Hyp m)
    (h1 : m.w.source = m.source.w.length) (h2 : m.w.target = m.target.w.length)
    (h3 : m.x.source = m.source.x.length) (h4 : m.x.target = m.target.x.length) :
    m.isConvexSubgraph B₁ = m.isConvexSubgraph B₂ := by
  obtain ⟨b₁, e₁, i₁⟩ := C18.isConvexSubgraph_spec B₁ hB₁ m h h1 h2 h3 h4
  obtain ⟨b₂, e₂, i₂⟩ := C18.isConvexSubgraph_spec B₂ hB₂ m h h1 h2 h3 h4
  rw [e₁, e₂, Bool.eq_iff_iff.2 (i₁.trans i₂.symm)]

example : C18.Hyp C18.mOk ∧ C18.mOk.w.source = C18.mOk.source.w.length ∧
    C18.mOk.w.target = C18.mOk.target.w.length ∧ C18.mOk.x.source = C18.mOk.source.x.length ∧
    C18.mOk.x.target = C18.mOk.target.x.length := by
  simp only [C18.Hyp]; decide

/-! ## 6. coequalizer and universal map -/

/-- `coequalizer` on two lawful backends and well-formed maps: both report absence (exactly for
    non-parallel arguments), or both return well-formed surjections out of `f.target` with the
    SAME kernel and EQUALLY MANY classes; the two class numberings differ by a bijection `π`
    (`q₂ = q₁ ; π`).  Never a panic. -/
theorem coequalizer_indep (B₁ B₂ : Backend) (h₁ : B₁.Lawful) (h₂ : B₂.Lawful) (f g : FinFun)
    (hf : f.WF) (hg : g.WF) :
    ((f.source ≠ g.source ∨ f.target ≠ g.target) ∧
      FinFun.coequalizer B₁ f g = .none ∧ FinFun.coequalizer B₂ f g = .none) ∨
    ((f.source = g.source ∧ f.target = g.target) ∧ ∃ q₁ q₂,
      FinFun.coequalizer B₁ f g = .ok q₁ ∧ FinFun.coequalizer B₂ f g = .ok q₂ ∧
      q₁.source = f.target ∧ q₂.source = f.target ∧ q₁.WF ∧ q₂.WF ∧
      C06.Surj q₁ ∧ C06.Surj q₂ ∧ q₁.target = q₂.target ∧
      (∀ i j, i < f.target → j < f.target →
        (q₁.table[i]? = q₁.table[j]? ↔ q₂.table[i]? = q₂.table[j]?)) ∧
      ∃ π, BijOn q₁.target q₂.target π ∧ q₂.table = q₁.table.map π) := by
  by_cases hp : f.source ≠ g.source ∨ f.target ≠ g.target
  · left
    exact ⟨hp, (C06.coequalizer_none_iff B₁ f g).2 hp, (C06.coequalizer_none_iff B₂ f g).2 hp⟩
  · right
    have hs : f.source = g.source := Classical.byContradiction fun h => hp (Or.inl h)
    have ht : f.target = g.target := Classical.byContradiction fun h => hp (Or.inr h)
    obtain ⟨q₁, e₁, s₁, w₁, o₁, k₁, _⟩ := C06.coequalizer_spec B₁ h₁ f g hf hg hs ht
    obtain ⟨q₂, e₂, s₂, w₂, o₂, k₂, _⟩ := C06.coequalizer_spec B₂ h₂ f g hf hg hs ht
    have su₁ : C06.Surj q₁ := fun c hc => let ⟨_, _, hi⟩ := o₁ c hc; List.mem_of_getElem? hi
    have su₂ : C06.Surj q₂ := fun c hc => let ⟨_, _, hi⟩ := o₂ c hc; List.mem_of_getElem? hi
    have hker : ∀ i j, i < f.target → j < f.target →
        (q₁.table[i]? = q₁.table[j]? ↔ q₂.table[i]? = q₂.table[j]?) :=
      fun i j hi hj => (k₁ i j hi hj).trans (k₂ i j hi hj).symm
    obtain ⟨hk, π, hπ, hmap⟩ := tables_same_kernel (n := f.target) s₁ s₂ w₁ w₂ su₁ su₂ hker
    exact ⟨⟨hs, ht⟩, q₁, q₂, e₁, e₂, s₁, s₂, w₁, w₂, su₁, su₂, hk, hker, π, hπ, hmap⟩

/-- parallel well-formed maps (`0 ~ 1 ~ 2` glued, `3` alone) -/
example : (⟨[0, 1], 4⟩ : FinFun).WF ∧ (⟨[1, 2], 4⟩ : FinFun).WF := by decide

/-- the universal map through a well-formed surjection does not depend on the backend at all
    (label arrays): equal results, whether a map, `none` or — never — a panic; the scatter filler
    cannot survive on a surjection.  Lawfulness is not needed. -/
theorem universal_indep {α : Type} [DecidableEq α] (B₁ B₂ : Backend) (q : FinFun) (hq : q.WF)
    (hsurj : C06.Surj q) (u : List α) :
    FinFun.coequalizerUniversalArr B₁ q u = FinFun.coequalizerUniversalArr B₂ q u := by
  obtain ⟨a₁, b₁, c₁⟩ := C06.universal_spec B₁ q hq hsurj u
  obtain ⟨a₂, b₂, c₂⟩ := C06.universal_spec B₂ q hq hsurj u
  by_cases hl : u.length = q.source
  · by_cases hc : FinFun.ConstOnFibres q u
    · obtain ⟨v₁, e₁, l₁, p₁, _⟩ := a₁ hl hc
      obtain ⟨v₂, e₂, l₂, p₂, _⟩ := a₂ hl hc
      rw [e₁, e₂]
      congr 1
      apply List.ext_getElem?
      intro c
      by_cases hlt : c < q.target
      · obtain ⟨i, hi⟩ := List.mem_iff_getElem?.1 (hsurj c hlt)
        have hi' : i < q.source := (List.getElem?_eq_some_iff.1 hi).1
        have r₁ := p₁ i hi'
        have r₂ := p₂ i hi'
        rw [hi, Option.bind_some] at r₁ r₂
        rw [r₁, r₂]
      · rw [List.getElem?_eq_none (by omega), List.getElem?_eq_none (by omega)]
    · rw [b₁ hl hc, b₂ hl hc]
  · rw [c₁ hl, c₂ hl]

/-- the same for finite functions -/
theorem universalFinFun_indep (B₁ B₂ : Backend) (q : FinFun) (hq : q.WF) (hsurj : C06.Surj q)
    (f : FinFun) : FinFun.coequalizerUniversal B₁ q f = FinFun.coequalizerUniversal B₂ q f := by
  unfold FinFun.coequalizerUniversal
  rw [universal_indep B₁ B₂ q hq hsurj f.table]

example : (⟨[0, 1, 0, 1], 2⟩ : FinFun).WF ∧ C06.Surj ⟨[0, 1, 0, 1], 2⟩ :=
  ⟨by decide, by unfold C06.Surj; decide⟩

/-! ## 7. evaluation (restating Props/C16) -/

/-- layer-validity outcome of `eval`, ANY callback and input list: on every lawful backend the
    evaluation never panics and reports absence iff some operation lies on or downstream of a
    dependency cycle — a backend-free condition; hence the two backends agree on validity -/
theorem eval_validity_indep {T : Type} (B₁ B₂ : Backend) (h₁ : B₁.Lawful) (h₂ : B₂.Lawful)
    (f : OHG O A) (hf : f.wf = true) (dflt : T) (s : List T) (apply : Apply A T) :
    (eval B₁ f dflt s apply = .none ↔ eval B₂ f dflt s apply = .none) ∧
    ((∃ outs, eval B₁ f dflt s apply = .ok outs) ↔ (∃ outs, eval B₂ f dflt s apply = .ok outs)) ∧
    (∀ site, eval B₁ f dflt s apply ≠ .panic site ∧ eval B₂ f dflt s apply ≠ .panic site) :=
  ⟨(C16.eval_none_iff B₁ h₁ f hf dflt s apply).trans (C16.eval_none_iff B₂ h₂ f hf dflt s apply).symm,
   (C16.eval_ok_iff B₁ h₁ f hf dflt s apply).trans (C16.eval_ok_iff B₂ h₂ f hf dflt s apply).symm,
   fun site => ⟨C16.eval_no_panic B₁ h₁ f hf dflt s apply site,
     C16.eval_no_panic B₂ h₂ f hf dflt s apply site⟩⟩

/-- **evaluation outcomes are identical** (`C16.eval_backend_independent`): for the pointwise
    interpreter `Eval.applyOf opfn` respecting the arities, on a well-formed diagram in which every
    node is written at most once and an input list of the right length, `eval` returns EQUAL
    answers on all lawful backends (both `none` when there is a cycle).  The side conditions are
    those of C16: two operations of one layer writing the same node, or an operation returning too
    few values, would make the outcome depend on the order inside the layer, i.e. on the tie
    order of `argsort`. -/
theorem eval_indep {T : Type} (B₁ B₂ : Backend) (h₁ : B₁.Lawful) (h₂ : B₂.Lawful)
    (f : OHG O A) (hf : f.wf = true) (opfn : A → List T → List T) (dflt : T) (s : List T)
    (hsw : SingleWriter f.toPlain) (har : C16.ArityOK f opfn) (hs : s.length = f.s.table.length) :
    eval B₁ f dflt s (Eval.applyOf opfn) = eval B₂ f dflt s (Eval.applyOf opfn) :=
  C16.eval_backend_independent B₁ B₂ h₁ h₂ f hf opfn dflt s hsw har hs

/-- the hypotheses are satisfiable (the C16 witness: two operations in one layer) -/
example : C16.Example.f.wf = true ∧ SingleWriter C16.Example.f.toPlain ∧
    C16.ArityOK C16.Example.f C16.Example.opfn :=
  ⟨C16.Example.f_wf, C16.Example.f_singleWriter, C16.Example.f_arity⟩

/-! ## 8. functor and optic application -/

/-- `≅` on the plain views, lifted to results: both `none`, or both a panic at the same site, or
    both diagrams, isomorphic -/
def ResIso {O A : Type} (r₁ r₂ : Res (OHG O A)) : Prop :=
  ResRel (fun a b : OHG O A => a.toPlain ≅ b.toPlain) r₁ r₂

/-- … additionally recording that both diagrams are well-formed -/
def ResWfIso {O A : Type} (r₁ r₂ : Res (OHG O A)) : Prop :=
  ResRel (fun a b : OHG O A => a.wf = true ∧ b.wf = true ∧ a.toPlain ≅ b.toPlain) r₁ r₂

/-- isomorphic well-formed diagrams have the same boundary types -/
theorem type_eq_of_iso (f f' : OHG O A) (hf : f.wf = true) (hf' : f'.wf = true)
    (i : f.toPlain ≅ f'.toPlain) : f.source = f'.source ∧ f.target = f'.target := by
  obtain ⟨π, _, _, _, nπ, _, insπ, outsπ⟩ := i
  obtain ⟨w1, w2, _⟩ := (PDiag.wf_iff _).1 (Compose.toPlain_wf ((Compose.wf_iff f).1 hf))
  have key : ∀ l : List Nat, (∀ v ∈ l, v < f.h.w.length) →
      (l.map π).filterMap (fun i => f'.h.w[i]?) = l.filterMap (fun i => f.h.w[i]?) := by
    intro l hl
    rw [List.filterMap_map]
    apply List.filterMap_congr
    intro v hv
    exact nπ v (hl v hv)
  rw [(C01.types_defined f hf).1, (C01.types_defined f hf).2, (C01.types_defined f' hf').1,
    (C01.types_defined f' hf').2]
  have h1 : f'.s.table = f.s.table.map π := insπ
  have h2 : f'.t.table = f.t.table.map π := outsπ
  have k1 := key f.s.table w1
  have k2 := key f.t.table w2
  rw [h1, h2, k1, k2]
  exact ⟨rfl, rfl⟩

/-- CONGRUENCE of composition (strengthens `compose_indep`): on two lawful backends and with
    ISOMORPHIC well-formed operands, `compose` gives both `none` or both well-formed isomorphic
    diagrams -/
theorem compose_congr [DecidableEq O] (B₁ B₂ : Backend) (h₁ : B₁.Lawful) (h₂ : B₂.Lawful)
    (f g f' g' : OHG O A) (hf : f.wf = true) (hg : g.wf = true) (hf' : f'.wf = true)
    (hg' : g'.wf = true) (iF : f.toPlain ≅ f'.toPlain) (iG : g.toPlain ≅ g'.toPlain) :
    ResWfIso (OHG.compose B₁ f g) (OHG.compose B₂ f' g') := by
  have tf := (type_eq_of_iso f f' hf hf' iF).2
  have tg := (type_eq_of_iso g g' hg hg' iG).1
  unfold ResWfIso
  by_cases hty : f.target = g.source
  · have hty' : f'.target = g'.source := by rw [← tf, ← tg]; exact hty
    obtain ⟨r₁, e₁⟩ := (C01.compose_total B₁ h₁ f g hf hg).1 hty
    obtain ⟨r₂, e₂⟩ := (C01.compose_total B₂ h₂ f' g' hf' hg').1 hty'
    obtain ⟨gl₁, w₁⟩ := C01.compose_isGluing B₁ h₁ f g r₁ hf hg e₁
    obtain ⟨gl₂, w₂⟩ := C01.compose_isGluing B₂ h₂ f' g' r₂ hf' hg' e₂
    rw [e₁, e₂]
    exact ⟨w₁, w₂, isGluing_congr (Compose.toPlain_wf ((Compose.wf_iff f).1 hf))
      (Compose.toPlain_wf ((Compose.wf_iff g).1 hg)) iF iG gl₁ gl₂⟩
  · have hty' : f'.target ≠ g'.source := by rw [← tf, ← tg]; exact hty
    rw [(C01.compose_total B₁ h₁ f g hf hg).2 hty, (C01.compose_total B₂ h₂ f' g' hf' hg').2 hty']
    trivial

/-- congruence of the (backend-free) tensor -/
theorem tensor_congr (f g f' g' : OHG O A) (hf : f.wf = true) (hg : g.wf = true)
    (hf' : f'.wf = true) (hg' : g'.wf = true) (iF : f.toPlain ≅ f'.toPlain)
    (iG : g.toPlain ≅ g'.toPlain) : ResWfIso (OHG.tensor f g) (OHG.tensor f' g') := by
  obtain ⟨r, e, w⟩ := C02.tensor_ok f g hf hg
  obtain ⟨r', e', w'⟩ := C02.tensor_ok f' g' hf' hg'
  unfold ResWfIso
  rw [e, e']
  refine ⟨w, w', ?_⟩
  rw [C02.tensor_toPlain f g r hf e, C02.tensor_toPlain f' g' r' hf' e']
  exact juxt_congr (Compose.toPlain_wf ((Compose.wf_iff f).1 hf)) iF iG

section functor
variable {O1 A1 O2 A2 : Type}

/-- a leg that came out of `map_half_spider` is a well-formed map into the image nodes -/
theorem mapHalfSpider_ok (fw : IC (List O2)) (k r : FinFun) (hw : fw.valid = true) (hk : k.WF)
    (h : SFunctor.mapHalfSpider fw k = .ok r) : r.WF ∧ r.target = fw.values.length := by
  by_cases hl : k.target = fw.len
  · obtain ⟨r', hr', ht, hwf, _⟩ := C12.mapHalfSpider_spec fw k hw hk hl
    rw [h] at hr'
    cases hr'
    exact ⟨hwf, ht⟩
  · rw [C12.mapHalfSpider_panics fw k hl] at h
    cases h

theorem identity_wf (w : List O) (i : OHG O A) (h : OHG.identity w = .ok i) :
    i.wf = true ∧ i.h.w = w ∧ i.s = ⟨List.range w.length, w.length⟩ ∧
      i.t = ⟨List.range w.length, w.length⟩ := by
  rw [C04.identity_eq] at h
  cases h
  have hid : (⟨List.range w.length, w.length⟩ : FinFun).WF := fun x hx => List.mem_range.1 hx
  refine ⟨C04.spider_wf _ _ w _ (by rw [C04.spider_eq]; simp) hid hid, rfl, rfl, rfl⟩

/-- `spider_map_arrow` (the backend-dependent core of strict functor application: two
    compositions) on two lawful backends and isomorphic well-formed operation images: isomorphic
    diagrams, or the same `none` / a panic at the same site -/
theorem spiderMapArrow_congr [DecidableEq O2] (B₁ B₂ : Backend) (h₁ : B₁.Lawful) (h₂ : B₂.Lawful)
    (f : OHG O1 A1) (fw : IC (List O2)) (fx fx' : OHG O2 A2) (hf : f.wf = true)
    (hw : fw.valid = true) (hx : fx.wf = true) (hx' : fx'.wf = true)
    (ix : fx.toPlain ≅ fx'.toPlain) :
    ResIso (SFunctor.spiderMapArrow B₁ f fw fx) (SFunctor.spiderMapArrow B₂ f fw fx') := by
  have hfW := (Compose.wf_iff f).1 hf
  unfold ResIso SFunctor.spiderMapArrow
  refine ResRel.bind_same _ (fun i hi => ?_)
  refine ResRel.bind_same _ (fun fs hfs => ?_)
  refine ResRel.bind_same _ (fun es hes => ?_)
  refine ResRel.bind_same _ (fun sxT hsxT => ?_)
  refine ResRel.bind_same _ (fun sx hsx => ?_)
  refine ResRel.bind_same _ (fun ft hft => ?_)
  refine ResRel.bind_same _ (fun et het => ?_)
  refine ResRel.bind_same _ (fun ytS hytS => ?_)
  refine ResRel.bind_same _ (fun yt hyt => ?_)
  obtain ⟨hiw, hiw', his, hit⟩ := identity_wf fw.values i hi
  obtain ⟨fsW, fsT⟩ := mapHalfSpider_ok fw _ fs hw hfW.iw hfs
  obtain ⟨esW, esT⟩ := mapHalfSpider_ok fw _ es hw hfW.sw hes
  obtain ⟨ftW, ftT⟩ := mapHalfSpider_ok fw _ ft hw hfW.ow hft
  obtain ⟨etW, etT⟩ := mapHalfSpider_ok fw _ et hw hfW.tw het
  have hidW : (⟨List.range fw.values.length, fw.values.length⟩ : FinFun).WF :=
    fun x hx => List.mem_range.1 hx
  -- the two spiders are well-formed
  have hsxT := Res.unwrap_eq_ok hsxT
  rw [hit, (C06.coproduct_spec _ es).1 (by rw [esT])] at hsxT
  cases hsxT
  have hytS := Res.unwrap_eq_ok hytS
  rw [his, (C06.coproduct_spec _ et).1 (by rw [etT])] at hytS
  cases hytS
  have sxwf : sx.wf = true := C04.spider_wf _ _ _ sx (Res.unwrap_eq_ok hsx) fsW
    (C06.coproduct_wf _ es hidW esW (by rw [esT]))
  have ytwf : yt.wf = true := C04.spider_wf _ _ _ yt (Res.unwrap_eq_ok hyt)
    (C06.coproduct_wf _ et hidW etW (by rw [etT])) ftW
  -- identity ⊗ operation images, then the two compositions
  refine ResRel.bind (tensor_congr i fx i fx' hiw hx hiw hx' (iso_refl _) ix) ?_
  rintro ifx ifx' ⟨ifxwf, ifxwf', iifx⟩
  refine ResRel.bind (ResRel.unwrap _ (compose_congr B₁ B₂ h₁ h₂ sx ifx sx ifx' sxwf ifxwf sxwf
    ifxwf' (iso_refl _) iifx)) ?_
  rintro a b ⟨wa, wb, iab⟩
  exact ResRel.mono (fun _ _ h => h.2.2)
    (ResRel.unwrap _ (compose_congr B₁ B₂ h₁ h₂ a yt b yt wa ytwf wb ytwf iab (iso_refl _)))

/-- functor application on two lawful backends for two strict functors with the same action on
    objects (valid segmented arrays) and actions on operations that agree up to isomorphism of
    well-formed diagrams -/
theorem mapArrow_congr [DecidableEq O2] (B₁ B₂ : Backend) (h₁ : B₁.Lawful) (h₂ : B₂.Lawful)
    (F₁ F₂ : SFunctor O1 A1 O2 A2) (f : OHG O1 A1) (hf : f.wf = true)
    (hobjeq : F₁.mapObject f.h.w = F₂.mapObject f.h.w)
    (hobj : ∀ fw, F₁.mapObject f.h.w = .ok fw → fw.valid = true)
    (hops : ∀ ops, SFunctor.toOperations f = .ok ops →
      ResWfIso (F₁.mapOperations ops) (F₂.mapOperations ops)) :
    ResIso (SFunctor.mapArrow B₁ F₁ f) (SFunctor.mapArrow B₂ F₂ f) := by
  unfold ResIso SFunctor.mapArrow
  refine ResRel.bind_same _ (fun ops hops' => ?_)
  refine ResRel.bind (hops ops hops') ?_
  rintro fx fx' ⟨wx, wx', ix⟩
  rw [← hobjeq]
  refine ResRel.bind_same _ (fun fw hfw => ?_)
  exact spiderMapArrow_congr B₁ B₂ h₁ h₂ f fw fx fx' hf (hobj fw hfw) wx wx' ix

/-- **strict functor application does not depend on the backend's choices**
    (`mapArrow_indep_of_compose`): for a strict functor whose image of the node labels of `f` is a
    valid segmented array and whose image of the operations of `f` is a well-formed diagram,
    `map_arrow` on two lawful backends returns isomorphic diagrams — or the same `none`, or a
    panic at the same site (e.g. when the functor's images have the wrong shape). -/
theorem functor_indep [DecidableEq O2] (B₁ B₂ : Backend) (h₁ : B₁.Lawful) (h₂ : B₂.Lawful)
    (F : SFunctor O1 A1 O2 A2) (f : OHG O1 A1) (hf : f.wf = true)
    (hobj : ∀ fw, F.mapObject f.h.w = .ok fw → fw.valid = true)
    (hops : ∀ ops fx, SFunctor.toOperations f = .ok ops → F.mapOperations ops = .ok fx →
      fx.wf = true) :
    ResIso (SFunctor.mapArrow B₁ F f) (SFunctor.mapArrow B₂ F f) :=
  mapArrow_congr B₁ B₂ h₁ h₂ F F f hf rfl hobj (fun ops ho =>
    ResRel.refl_of _ (fun fx hfx => ⟨hops ops fx ho hfx, hops ops fx ho hfx, iso_refl _⟩))

theorem mapArrow_indep_of_compose [DecidableEq O2] (B₁ B₂ : Backend) (h₁ : B₁.Lawful)
    (h₂ : B₂.Lawful) (F : SFunctor O1 A1 O2 A2) (f : OHG O1 A1) (hf : f.wf = true)
    (hobj : ∀ fw, F.mapObject f.h.w = .ok fw → fw.valid = true)
    (hops : ∀ ops fx, SFunctor.toOperations f = .ok ops → F.mapOperations ops = .ok fx →
      fx.wf = true) :
    ResIso (SFunctor.mapArrow B₁ F f) (SFunctor.mapArrow B₂ F f) :=
  functor_indep B₁ B₂ h₁ h₂ F f hf hobj hops

/-- the hypotheses are satisfiable: the strict identity functor on the C01 witness `exF` -/
example : C01.exF.wf = true ∧
    ∃ ops fx fw, SFunctor.toOperations C01.exF = .ok ops ∧
      (SFunctor.identityF (O := Nat) (A := Nat)).mapOperations ops = .ok fx ∧ fx.wf = true ∧
      (SFunctor.identityF (O := Nat) (A := Nat)).mapObject C01.exF.h.w = .ok fw ∧
      fw.valid = true :=
  ⟨by decide, _, _, _, rfl, rfl, by decide, rfl, by decide⟩

/-- PROVED PART of the optic clause (`optic_indep_partial`): application of the functor induced
    by a strict optic is backend-independent up to isomorphism PROVIDED the optic's action on the
    operations of `f` (which itself composes on the backend) is; everything after
    `map_operations` is covered by `spiderMapArrow_congr`. -/
theorem optic_indep_partial [DecidableEq O2] (B₁ B₂ : Backend) (h₁ : B₁.Lawful) (h₂ : B₂.Lawful)
    (P : SOptic O1 A1 O2 A2) (f : OHG O1 A1) (hf : f.wf = true)
    (hobj : ∀ fw, P.mapObject f.h.w = .ok fw → fw.valid = true)
    (hops : ∀ ops, SFunctor.toOperations f = .ok ops →
      ResWfIso (P.mapOperations B₁ ops) (P.mapOperations B₂ ops)) :
    ResIso (SFunctor.mapArrow B₁ (P.toFunctor B₁) f) (SFunctor.mapArrow B₂ (P.toFunctor B₂) f) :=
  mapArrow_congr B₁ B₂ h₁ h₂ (P.toFunctor B₁) (P.toFunctor B₂) f hf rfl hobj hops

/-- MISSING PART of the optic clause (UNPROVED): the optic's action on operations on two lawful
    backends, for component functors with valid object images / well-formed operation images and
    valid residuals.  `optic.map_operations` is five compositions, two tensors (all covered by
    `compose_congr` / `tensor_congr`) and `interleave_blocks` / `partial_dagger`; what is missing
    is a characterisation of the latter two (well-formedness of their results, and that
    `partial_dagger` maps isomorphic diagrams to isomorphic diagrams). -/
def optic_mapOperations_indep_statement : Prop :=
  ∀ (O1 A1 O2 A2 : Type) [DecidableEq O2] (B₁ B₂ : Backend), B₁.Lawful → B₂.Lawful →
    ∀ (P : SOptic O1 A1 O2 A2) (ops : Operations O1 A1),
      ops.a.valid = true → ops.b.valid = true → ops.x.length = ops.a.len →
      ops.x.length = ops.b.len →
      (∀ a fw, P.fwd.mapObject a = .ok fw → fw.valid = true) →
      (∀ a fw, P.rev.mapObject a = .ok fw → fw.valid = true) →
      (∀ m, P.residual ops = .ok m → m.valid = true) →
      (∀ fx, P.fwd.mapOperations ops = .ok fx → fx.wf = true) →
      (∀ fx, P.rev.mapOperations ops = .ok fx → fx.wf = true) →
      ResWfIso (P.mapOperations B₁ ops) (P.mapOperations B₂ ops)

end functor

/-! ## 9. the quantifier is not vacuous: lawful backends that resolve the choices differently -/

/-- a backend resolving ALL FOUR open choices differently from `B`: ties of `argsort` in the
    opposite order (sort the reversed array, map the positions back), connected components
    numbered in the opposite order (`C01.flipBackend`), sparse-bincount keys in the opposite
    order, and the LAST element instead of `B`'s choice as scatter filler -/
def advBackend (B : Backend) : Backend :=
  { C01.flipBackend B with
    argsort := fun xs => (B.argsort xs.reverse).map (fun i => xs.length - 1 - i)
    sparseBincount := fun xs => ((B.sparseBincount xs).1.reverse, (B.sparseBincount xs).2.reverse)
    fillerIdx := fun n => n - 1 }

theorem advBackend_lawful (B : Backend) (hB : B.Lawful) : (advBackend B).Lawful where
  cc_length := (C01.flipBackend_lawful B hB).cc_length
  cc_lt := (C01.flipBackend_lawful B hB).cc_lt
  cc_onto := (C01.flipBackend_lawful B hB).cc_onto
  cc_kernel := (C01.flipBackend_lawful B hB).cc_kernel
  filler_lt := fun n hn => by show n - 1 < n; omega
  argsort_perm := fun xs => by
    show ((B.argsort xs.reverse).map (fun i => xs.length - 1 - i)).Perm _
    have h := (hB.argsort_perm xs.reverse).map (fun i => xs.length - 1 - i)
    rw [List.length_reverse] at h
    refine h.trans ?_
    have : (List.range xs.length).map (fun i => xs.length - 1 - i) = (List.range xs.length).reverse := by
      rw [List.range_eq_range', List.reverse_range']
      simp [List.range_eq_range']
    rw [this]
    exact List.reverse_perm _
  argsort_sorted := fun xs => by
    show (((B.argsort xs.reverse).map (fun i => xs.length - 1 - i)).map
      (fun i => xs.getD i 0)).Pairwise (· ≤ ·)
    have h := hB.argsort_sorted xs.reverse
    rw [List.map_map]
    have e : (B.argsort xs.reverse).map ((fun i => xs.getD i 0) ∘ (fun i => xs.length - 1 - i)) =
        (B.argsort xs.reverse).map (fun i => xs.reverse.getD i 0) := by
      apply List.map_congr_left
      intro i hi
      have hlt : i < xs.length := by
        have := (hB.argsort_perm xs.reverse).mem_iff.1 hi
        simpa using this
      simp only [Function.comp, List.getD_eq_getElem?_getD, List.getElem?_reverse hlt]
    rw [e]
    exact h
  sb_nodup := fun xs => List.nodup_reverse.2 (hB.sb_nodup xs)
  sb_mem := fun xs v => by
    show v ∈ (B.sparseBincount xs).1.reverse ↔ _
    rw [List.mem_reverse]
    exact hB.sb_mem xs v
  sb_length := fun xs => by
    show (B.sparseBincount xs).2.reverse.length = (B.sparseBincount xs).1.reverse.length
    rw [List.length_reverse, List.length_reverse]
    exact hB.sb_length xs
  sb_count := fun xs k v hk => by
    have hk : (B.sparseBincount xs).1.reverse[k]? = some v := hk
    show (B.sparseBincount xs).2.reverse[k]? = _
    have hlt : k < (B.sparseBincount xs).1.length := by
      have := (List.getElem?_eq_some_iff.1 hk).1
      simpa using this
    rw [List.getElem?_reverse hlt] at hk
    rw [List.getElem?_reverse (by rw [hB.sb_length xs]; exact hlt), hB.sb_length xs]
    exact hB.sb_count xs _ v hk

/-- three lawful backends -/
example : vecBackend.Lawful ∧ (C01.flipBackend vecBackend).Lawful ∧ (advBackend vecBackend).Lawful :=
  ⟨vecBackend_lawful, C01.flipBackend_lawful _ vecBackend_lawful,
    advBackend_lawful _ vecBackend_lawful⟩

/-- … and `advBackend B` really resolves each of the four open choices differently from ANY lawful
    `B` (tie order of argsort, key order of sparse bincount) resp. from the Vec backend (component
    numbering, filler) -/
theorem advBackend_differs (B : Backend) (hB : B.Lawful) :
    B.argsort [5, 5] ≠ (advBackend B).argsort [5, 5] ∧
    B.sparseBincount [1, 2] ≠ (advBackend B).sparseBincount [1, 2] := by
  constructor
  · intro h
    have hp := hB.argsort_perm [5, 5]
    change B.argsort [5, 5] = (B.argsort [5, 5]).map (fun i => 2 - 1 - i) at h
    cases hl : B.argsort [5, 5] with
    | nil => rw [hl] at hp; simpa using hp.length_eq
    | cons a l =>
      rw [hl] at h
      simp only [List.map_cons, List.cons.injEq] at h
      omega
  · intro h
    have hnd := hB.sb_nodup [1, 2]
    have hm := hB.sb_mem [1, 2]
    have hr : (B.sparseBincount [1, 2]).1 = (B.sparseBincount [1, 2]).1.reverse :=
      congrArg Prod.fst h
    have hp : (B.sparseBincount [1, 2]).1.Perm [1, 2] :=
      (List.perm_ext_iff_of_nodup hnd (by decide)).2 hm
    generalize (B.sparseBincount [1, 2]).1 = k at hnd hr hp
    have hlen := hp.length_eq
    match k, hlen with
    | [a, b], _ =>
      simp only [List.reverse_cons, List.reverse_nil, List.nil_append, List.cons_append,
        List.cons.injEq, and_true] at hr
      simp only [List.nodup_cons, List.mem_singleton] at hnd
      exact hnd.1 hr.1

example : vecBackend.cc [] [] 2 ≠ (advBackend vecBackend).cc [] [] 2 ∧
    vecBackend.fillerIdx 2 ≠ (advBackend vecBackend).fillerIdx 2 := by decide

/-- `compose` returns LITERALLY DIFFERENT composites on the Vec backend and on the adversarial
    backends (the node numbering is reversed) … -/
example : OHG.toPlain <$> OHG.compose vecBackend C01.exF C01.exG =
      .ok ⟨[10, 20, 30], [⟨7, [0], [1, 1]⟩, ⟨8, [1, 1], [2]⟩], [0], [2]⟩ ∧
    OHG.toPlain <$> OHG.compose (C01.flipBackend vecBackend) C01.exF C01.exG =
      .ok ⟨[30, 20, 10], [⟨7, [2], [1, 1]⟩, ⟨8, [1, 1], [0]⟩], [2], [0]⟩ ∧
    OHG.toPlain <$> OHG.compose (advBackend vecBackend) C01.exF C01.exG =
      .ok ⟨[30, 20, 10], [⟨7, [2], [1, 1]⟩, ⟨8, [1, 1], [0]⟩], [2], [0]⟩ := by decide

/-- … which `compose_indep` shows isomorphic -/
example : ∃ r₁ r₂, OHG.compose vecBackend C01.exF C01.exG = .ok r₁ ∧
    OHG.compose (advBackend vecBackend) C01.exF C01.exG = .ok r₂ ∧ r₁ ≠ r₂ ∧
    r₁.toPlain ≅ r₂.toPlain ∧ r₂.toPlain ≅ r₁.toPlain := by
  rcases compose_indep vecBackend (advBackend vecBackend) vecBackend_lawful
    (advBackend_lawful _ vecBackend_lawful) C01.exF C01.exG (by decide) (by decide) with
    ⟨h, _⟩ | ⟨_, r₁, r₂, e₁, e₂, _, _, i₁, i₂⟩
  · exact absurd (by decide) h
  · refine ⟨r₁, r₂, e₁, e₂, ?_, i₁, i₂⟩
    rintro rfl
    have h1 : OHG.toPlain <$> OHG.compose vecBackend C01.exF C01.exG =
        .ok ⟨[10, 20, 30], [⟨7, [0], [1, 1]⟩, ⟨8, [1, 1], [2]⟩], [0], [2]⟩ := by decide
    have h2 : OHG.toPlain <$> OHG.compose (advBackend vecBackend) C01.exF C01.exG =
        .ok ⟨[30, 20, 10], [⟨7, [2], [1, 1]⟩, ⟨8, [1, 1], [0]⟩], [2], [0]⟩ := by decide
    rw [e₁] at h1
    rw [e₂] at h2
    have := (Res.ok.inj h1).symm.trans (Res.ok.inj h2)
    exact absurd this (by decide)

/-- the coequalizers differ literally (class numbers exchanged) but have the same kernel -/
example : FinFun.coequalizer vecBackend ⟨[0, 1], 4⟩ ⟨[1, 2], 4⟩ = .ok ⟨[0, 0, 0, 1], 2⟩ ∧
    FinFun.coequalizer (advBackend vecBackend) ⟨[0, 1], 4⟩ ⟨[1, 2], 4⟩ = .ok ⟨[1, 1, 1, 0], 2⟩ := by
  decide

/-- surjectivity cannot be dropped in `universal_indep`: off the image of `q` the scatter filler
    shows, and two lawful backends pick different fillers -/
example : FinFun.coequalizerUniversalArr vecBackend ⟨[0, 1], 3⟩ ["x", "y"] = .ok ["x", "y", "x"] ∧
    FinFun.coequalizerUniversalArr (advBackend vecBackend) ⟨[0, 1], 3⟩ ["x", "y"] =
      .ok ["x", "y", "y"] := by decide

end OH.C20
