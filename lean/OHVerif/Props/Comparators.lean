/-
  The Boolean COMPARATORS of the native driver decide exactly the specification relations they
  are meant to decide (soundness + completeness), so they leave the trusted base.
-/
import Mathlib.Data.List.Perm.Basic
import Mathlib.Data.List.Count
import Mathlib.Data.List.Nodup
import OHVerif.Model.Driver
import OHVerif.Model.DriverStrict
import OHVerif.Model.DriverLax
import OHVerif.Spec.Lawful
import OHVerif.Spec.Diagram
import OHVerif.Lemmas.VecBackend
import OHVerif.Lemmas.Segs

namespace OH.Comparators

open OH OH.Drv

/-! ### 1. `isPerm` -/

theorem perm_of_count_on_left : ∀ (a b : List Nat), a.length = b.length →
    (∀ x ∈ a, a.count x = b.count x) → a.Perm b := by
  intro a
  induction a with
  | nil =>
    intro b hl _
    have : b = [] := List.eq_nil_of_length_eq_zero (by simpa using hl.symm)
    subst this; exact List.Perm.refl _
  | cons x a ih =>
    intro b hl hc
    have hx : x ∈ b := by
      have := hc x List.mem_cons_self
      rw [List.count_cons_self] at this
      exact List.count_pos_iff.mp (by omega)
    have hb : b.Perm (x :: b.erase x) := List.perm_cons_erase hx
    refine List.Perm.trans (List.Perm.cons x ?_) hb.symm
    apply ih
    · have := List.length_erase_of_mem hx
      simp only [List.length_cons] at hl
      omega
    · intro y hy
      have := hc y (List.mem_cons_of_mem _ hy)
      rw [List.count_cons, List.count_erase] at *
      by_cases hyx : y = x
      · subst hyx; simp at this ⊢; omega
      · have h1 : (x == y) = false := by simp [Ne.symm hyx]
        simp [h1] at this ⊢; omega

theorem isPerm_iff (a b : List Nat) : isPerm a b = true ↔ a.Perm b := by
  constructor
  · intro h
    simp only [isPerm, Bool.and_eq_true, beq_iff_eq, List.all_eq_true] at h
    exact perm_of_count_on_left a b h.1 h.2
  · intro h
    simp only [isPerm, Bool.and_eq_true, beq_iff_eq, List.all_eq_true]
    exact ⟨h.length_eq, fun x _ => h.count_eq x⟩

example : isPerm [3, 1, 3, 2] [1, 2, 3, 3] = true := by decide
example : isPerm [3, 1, 3, 2] [1, 2, 3, 2] = false := by decide
/-- equal length and the left counts agree on everything but the new element: rejected via length+count -/
example : isPerm [1, 1, 2] [1, 2, 2] = false := by decide

/-! ### 3. `sameKernel` -/

theorem getD_eq_iff_getElem? {a : List Nat} {i j : Nat} (hi : i < a.length) (hj : j < a.length) :
    a.getD i 0 = a.getD j 0 ↔ a[i]? = a[j]? := by
  simp [List.getD_eq_getElem?_getD, List.getElem?_eq_getElem hi, List.getElem?_eq_getElem hj]

theorem beq_beq_iff (x y u v : Nat) : ((x == y) == (u == v)) = true ↔ (x = y ↔ u = v) := by
  by_cases h1 : x = y <;> by_cases h2 : u = v <;> simp [h1, h2]

theorem sameKernel_iff (a b : List Nat) : sameKernel a b = true ↔
    (a.length = b.length ∧ ∀ i j, i < a.length → j < a.length →
      (a[i]? = a[j]? ↔ b[i]? = b[j]?)) := by
  simp only [sameKernel, Bool.and_eq_true, List.all_eq_true, List.mem_range, beq_beq_iff]
  simp only [beq_iff_eq]
  constructor
  · rintro ⟨hl, h⟩
    refine ⟨hl, fun i j hi hj => ?_⟩
    rw [← getD_eq_iff_getElem? hi hj, ← getD_eq_iff_getElem? (hl ▸ hi) (hl ▸ hj)]
    exact h i hi j hj
  · rintro ⟨hl, h⟩
    refine ⟨hl, fun i hi j hj => ?_⟩
    rw [getD_eq_iff_getElem? hi hj, getD_eq_iff_getElem? (hl ▸ hi) (hl ▸ hj)]
    exact h i j hi hj

example : sameKernel [0, 1, 0, 2] [5, 3, 5, 0] = true := by decide
example : sameKernel [0, 1, 0, 2] [5, 3, 5, 3] = false := by decide
example : sameKernel [0, 1, 0] [5, 3, 5, 3] = false := by decide

/-! ### 4. `denseOnto` -/

theorem denseOnto_iff (t : List Nat) (k : Nat) : denseOnto t k = true ↔
    ((∀ x ∈ t, x < k) ∧ ∀ c, c < k → c ∈ t) := by
  simp [denseOnto]

example : denseOnto [2, 0, 1, 0] 3 = true := by decide
example : denseOnto [2, 0, 2, 0] 3 = false := by decide
example : denseOnto [2, 0, 1, 3] 3 = false := by decide

/-! ### 2. `sortedBy`, `argsortOk` -/

theorem zip_tail_all_iff_pairwise : ∀ ks : List Nat,
    (ks.zip ks.tail).all (fun ab => decide (ab.1 ≤ ab.2)) = true ↔ ks.Pairwise (· ≤ ·)
  | [] => by simp
  | [a] => by simp
  | a :: b :: l => by
    have ih := zip_tail_all_iff_pairwise (b :: l)
    simp only [List.tail_cons] at ih
    simp only [List.tail_cons, List.zip_cons_cons, List.all_cons, Bool.and_eq_true,
      decide_eq_true_eq, ih]
    rw [List.pairwise_cons (a := a)]
    constructor
    · rintro ⟨hab, hp⟩
      refine ⟨?_, hp⟩
      intro x hx
      rcases List.mem_cons.mp hx with rfl | hx
      · exact hab
      · exact Nat.le_trans hab ((List.pairwise_cons.mp hp).1 x hx)
    · rintro ⟨h1, hp⟩
      exact ⟨h1 b List.mem_cons_self, hp⟩

theorem sortedBy_iff (key p : List Nat) :
    sortedBy key p = true ↔ (p.map (fun i => key.getD i 0)).Pairwise (· ≤ ·) := by
  simp only [sortedBy]
  exact zip_tail_all_iff_pairwise _

theorem argsortOk_iff (xs p : List Nat) : argsortOk xs p = true ↔
    (p.Perm (List.range xs.length) ∧ (p.map (fun i => xs.getD i 0)).Pairwise (· ≤ ·)) := by
  simp only [argsortOk, Bool.and_eq_true, isPerm_iff, sortedBy_iff]

/-- completeness: the answer of every lawful backend is accepted -/
theorem argsortOk_of_lawful (B : Backend) (hB : B.Lawful) (xs : List Nat) :
    argsortOk xs (B.argsort xs) = true :=
  (argsortOk_iff xs _).mpr ⟨hB.argsort_perm xs, hB.argsort_sorted xs⟩

/-- soundness: an accepted answer satisfies the two `argsort_*` clauses of `Backend.Lawful`
    (read for this input, with `p` in place of `B.argsort xs`) -/
theorem argsortOk_sound (xs p : List Nat) (h : argsortOk xs p = true) :
    p.Perm (List.range xs.length) ∧ (p.map (fun i => xs.getD i 0)).Pairwise (· ≤ ·) :=
  (argsortOk_iff xs p).mp h

/-- soundness, backend form: a backend all of whose argsort answers are accepted satisfies the
    `argsort_perm` and `argsort_sorted` clauses -/
theorem argsort_clauses_of_argsortOk (B : Backend) (h : ∀ xs, argsortOk xs (B.argsort xs) = true) :
    (∀ xs : List Nat, (B.argsort xs).Perm (List.range xs.length)) ∧
    (∀ xs : List Nat, ((B.argsort xs).map (fun i => xs.getD i 0)).Pairwise (· ≤ ·)) :=
  ⟨fun xs => ((argsortOk_iff xs _).mp (h xs)).1, fun xs => ((argsortOk_iff xs _).mp (h xs)).2⟩

example : argsortOk [3, 1, 3] [1, 2, 0] = true := by decide
example : argsortOk [3, 1, 3] [1, 0, 2] = true := by decide
example : argsortOk [3, 1, 3] [0, 1, 2] = false := by decide
example : argsortOk [3, 1, 3] [1, 1, 0] = false := by decide
example : argsortOk [3, 1, 3] [1, 0] = false := by decide

/-! ### 5. `sparseOk` -/

theorem eraseDups_length_aux (n : Nat) : ∀ l : List Nat, l.length ≤ n →
    (l.eraseDups.length ≤ l.length ∧ (l.eraseDups.length = l.length ↔ l.Nodup)) := by
  induction n with
  | zero =>
    intro l hl
    have : l = [] := List.eq_nil_of_length_eq_zero (Nat.le_zero.mp hl)
    subst this; simp
  | succ n ih =>
    intro l hl
    cases l with
    | nil => simp
    | cons a as =>
      have hf := List.length_filter_le (fun b => !b == a) as
      simp only [List.length_cons] at hl
      obtain ⟨h1, h2⟩ := ih (as.filter (fun b => !b == a)) (by omega)
      rw [List.eraseDups_cons, List.length_cons, List.length_cons, List.nodup_cons]
      refine ⟨by omega, ?_⟩
      constructor
      · intro h
        have hfl : (as.filter (fun b => !b == a)).length = as.length := by omega
        have hfe : as.filter (fun b => !b == a) = as := by
          rw [List.filter_eq_self]
          exact List.length_filter_eq_length_iff.mp hfl
        rw [hfe] at h2 h
        refine ⟨?_, h2.mp (by omega)⟩
        intro ha
        have := (List.filter_eq_self.mp hfe) a ha
        simp at this
      · rintro ⟨ha, hnd⟩
        have hfe : as.filter (fun b => !b == a) = as := by
          rw [List.filter_eq_self]
          intro b hb
          have : b ≠ a := fun e => ha (e ▸ hb)
          simp [this]
        rw [hfe] at h2 ⊢
        have := h2.mpr hnd
        omega

theorem eraseDups_length_eq_iff (l : List Nat) : l.eraseDups.length = l.length ↔ l.Nodup :=
  (eraseDups_length_aux l.length l (Nat.le_refl _)).2

theorem sparseOk_iff (xs keys counts : List Nat) : sparseOk xs keys counts = true ↔
    (keys.Nodup ∧ (∀ v, v ∈ keys ↔ v ∈ xs) ∧ counts.length = keys.length ∧
      ∀ k v : Nat, keys[k]? = some v → counts[k]? = some (xs.count v)) := by
  simp only [sparseOk, Bool.and_eq_true, beq_iff_eq, List.all_eq_true, decide_eq_true_eq,
    List.contains_iff_mem, eraseDups_length_eq_iff]
  constructor
  · rintro ⟨⟨⟨hl, hnd⟩, hmem⟩, hz⟩
    have hcnt : ∀ (k v : Nat), keys[k]? = some v → counts[k]? = some (xs.count v) ∧ 0 < xs.count v := by
      intro k v hk
      obtain ⟨hk1, hk2⟩ := List.getElem?_eq_some_iff.mp hk
      have hkc : k < counts.length := hl ▸ hk1
      have hm : (v, counts[k]) ∈ keys.zip counts := by
        rw [List.mem_iff_getElem?]
        refine ⟨k, ?_⟩
        rw [List.getElem?_zip_eq_some]
        exact ⟨hk, List.getElem?_eq_getElem hkc⟩
      have := hz _ hm
      simp only at this
      rw [List.getElem?_eq_getElem hkc, this.2]
      exact ⟨rfl, by omega⟩
    refine ⟨hnd, ?_, hl.symm, fun k v hk => (hcnt k v hk).1⟩
    intro v
    constructor
    · intro hv
      obtain ⟨k, hk⟩ := List.mem_iff_getElem?.mp hv
      exact List.count_pos_iff.mp (hcnt k v hk).2
    · exact hmem v
  · rintro ⟨hnd, hmem, hl, hc⟩
    refine ⟨⟨⟨hl.symm, hnd⟩, fun x hx => (hmem x).mpr hx⟩, ?_⟩
    rintro ⟨v, c⟩ hvc
    obtain ⟨k, hk⟩ := List.mem_iff_getElem?.mp hvc
    rw [List.getElem?_zip_eq_some] at hk
    have := hc k v hk.1
    rw [hk.2] at this
    have hcv : c = xs.count v := by simpa using this
    have hv : v ∈ xs := (hmem v).mp (List.mem_of_getElem? hk.1)
    have := List.count_pos_iff.mpr hv
    simp only
    omega

/-- completeness: the answer of every lawful backend is accepted -/
theorem sparseOk_of_lawful (B : Backend) (hB : B.Lawful) (xs : List Nat) :
    sparseOk xs (B.sparseBincount xs).1 (B.sparseBincount xs).2 = true :=
  (sparseOk_iff xs _ _).mpr ⟨hB.sb_nodup xs, hB.sb_mem xs, hB.sb_length xs, hB.sb_count xs⟩

example : sparseOk [4, 7, 4, 4] [7, 4] [1, 3] = true := by decide
example : sparseOk [4, 7, 4, 4] [4, 7] [3, 1] = true := by decide
example : sparseOk [4, 7, 4, 4] [4, 7] [1, 3] = false := by decide
example : sparseOk [4, 7, 4, 4] [4, 7, 9] [3, 1, 0] = false := by decide
example : sparseOk [4, 7, 4, 4] [4, 7, 4] [3, 1, 3] = false := by decide
example : sparseOk [4, 7, 4, 4] [4] [3] = false := by decide

/-! ### 7. `segPermEq` -/

theorem segs_length (a : IC FinFun) : a.segs.length = a.sources.table.length :=
  OH.splitSegs_length _ _

/-- weak form (as the comparator is written: pairs of the zip) -/
theorem segPermEq_iff_zip (a b : IC FinFun) : segPermEq a b = true ↔
    (a.sources = b.sources ∧ a.values.target = b.values.target ∧
      a.values.table.length = b.values.table.length ∧
      ∀ p ∈ a.segs.zip b.segs, p.1.Perm p.2) := by
  simp only [segPermEq, Bool.and_eq_true, beq_iff_eq, List.all_eq_true, isPerm_iff, and_assoc]

/-- STRONGEST form: the two segment lists are related position by position (`Forall₂`), i.e. they
    have the same number of segments and corresponding segments are permutations of each other -/
theorem segPermEq_iff (a b : IC FinFun) : segPermEq a b = true ↔
    (a.sources = b.sources ∧ a.values.target = b.values.target ∧
      a.values.table.length = b.values.table.length ∧
      List.Forall₂ List.Perm a.segs b.segs) := by
  rw [segPermEq_iff_zip]
  constructor
  · rintro ⟨hs, ht, hl, hz⟩
    refine ⟨hs, ht, hl, ?_⟩
    rw [List.forall₂_iff_zip]
    refine ⟨by rw [segs_length, segs_length, hs], ?_⟩
    intro x y hxy
    exact hz (x, y) hxy
  · rintro ⟨hs, ht, hl, hz⟩
    refine ⟨hs, ht, hl, ?_⟩
    rw [List.forall₂_iff_zip] at hz
    rintro ⟨x, y⟩ hxy
    exact hz.2 hxy

/-- consequence: the parts of the two value tables covered by the segment sizes are permutations
    of each other; for a VALID segmented array (`sum sizes = #values`) this is the whole table -/
theorem segPermEq_values_perm (a b : IC FinFun) (h : segPermEq a b = true) :
    (a.values.table.take a.sources.table.sum).Perm (b.values.table.take b.sources.table.sum) := by
  obtain ⟨_, _, _, hz⟩ := (segPermEq_iff a b).mp h
  have := List.Perm.flatten_congr hz
  simpa only [IC.segs, splitSegs_flatten_take] using this

theorem segPermEq_values_perm_of_valid (a b : IC FinFun) (h : segPermEq a b = true)
    (hv : a.values.table.length ≤ a.sources.table.sum) :
    a.values.table.Perm b.values.table := by
  obtain ⟨hs, _, hl, _⟩ := (segPermEq_iff a b).mp h
  have := segPermEq_values_perm a b h
  rwa [List.take_of_length_le hv, List.take_of_length_le (by rw [← hs, ← hl]; exact hv)] at this

/-- REMARK (not a contract violation, but a blind spot): values lying BEYOND the segment sizes are
    only counted, not compared; harmless for valid arrays by `segPermEq_values_perm_of_valid` -/
example : segPermEq ⟨⟨[1], 2⟩, ⟨[5, 7], 9⟩⟩ ⟨⟨[1], 2⟩, ⟨[5, 8], 9⟩⟩ = true := by decide

example : segPermEq ⟨⟨[2, 1], 4⟩, ⟨[5, 6, 7], 9⟩⟩ ⟨⟨[2, 1], 4⟩, ⟨[6, 5, 7], 9⟩⟩ = true := by decide
example : segPermEq ⟨⟨[2, 1], 4⟩, ⟨[5, 6, 7], 9⟩⟩ ⟨⟨[2, 1], 4⟩, ⟨[5, 7, 6], 9⟩⟩ = false := by decide
example : segPermEq ⟨⟨[2, 1], 4⟩, ⟨[5, 6, 7], 9⟩⟩ ⟨⟨[1, 2], 4⟩, ⟨[5, 6, 7], 9⟩⟩ = false := by decide

/-! ### 6. `ccContract` -/

theorem ccContract_iff (s t : List Nat) (n : Nat) (lab : List Nat) (k : Nat)
    (_hlen : s.length = t.length) (hs : ∀ i ∈ s, i < n) (ht : ∀ i ∈ t, i < n) :
    ccContract s t n lab k = true ↔
      (lab.length = n ∧ (∀ l ∈ lab, l < k) ∧ (∀ c, c < k → c ∈ lab) ∧
        ∀ i j, i < n → j < n → (lab[i]? = lab[j]? ↔ Connected s t i j)) := by
  obtain ⟨hrl, hker⟩ := VecB.minLabels_inv s t n hs ht
  simp only [ccContract, Bool.and_eq_true, List.all_eq_true, List.mem_range, beq_beq_iff,
    decide_eq_true_eq, List.contains_iff_mem]
  simp only [beq_iff_eq, and_assoc]
  constructor
  · rintro ⟨hl, hlt, hon, hk⟩
    refine ⟨hl, hlt, hon, fun i j hi hj => ?_⟩
    rw [← getD_eq_iff_getElem? (hl ▸ hi) (hl ▸ hj), hk i hi j hj, hker i j hi hj]
    rfl
  · rintro ⟨hl, hlt, hon, hk⟩
    refine ⟨hl, hlt, hon, fun i hi j hj => ?_⟩
    rw [getD_eq_iff_getElem? (hl ▸ hi) (hl ▸ hj), hk i j hi hj, hker i j hi hj]
    rfl

/-- completeness: the answer of every lawful backend is accepted -/
theorem ccContract_of_lawful (B : Backend) (hB : B.Lawful) (s t : List Nat) (n : Nat)
    (hlen : s.length = t.length) (hs : ∀ i ∈ s, i < n) (ht : ∀ i ∈ t, i < n) :
    ccContract s t n (B.cc s t n).1 (B.cc s t n).2 = true :=
  (ccContract_iff s t n _ _ hlen hs ht).mpr
    ⟨hB.cc_length s t n hlen hs ht, hB.cc_lt s t n hlen hs ht, hB.cc_onto s t n hlen hs ht,
      hB.cc_kernel s t n hlen hs ht⟩

/-- hypotheses of `ccContract_iff` on a non-trivial input: edges 0—2, 3—1 on 5 nodes -/
example : ([0, 3] : List Nat).length = ([2, 1] : List Nat).length ∧ (∀ i ∈ ([0, 3] : List Nat), i < 5) ∧
    (∀ i ∈ ([2, 1] : List Nat), i < 5) := by decide
example : ccContract [0, 3] [2, 1] 5 [2, 0, 2, 0, 1] 3 = true := by decide
example : ccContract [0, 3] [2, 1] 5 [0, 1, 0, 1, 2] 3 = true := by decide
example : ccContract [0, 3] [2, 1] 5 [0, 1, 0, 1, 1] 2 = false := by decide
example : ccContract [0, 3] [2, 1] 5 [0, 1, 0, 1, 3] 4 = false := by decide
example : ccContract [0, 3] [2, 1] 5 [0, 1, 2, 1, 3] 4 = false := by decide

/-! ### 8. `laxIso` -/

/-- the node references of a lax diagram in the order `laxIso` walks them -/
def refs (g : LF) : List Nat :=
  g.sources ++ g.targets ++ g.hypergraph.adjacency.flatMap (fun e => e.sources ++ e.targets) ++
    g.hypergraph.quotient.1 ++ g.hypergraph.quotient.2

def shape (g : LF) : Nat × Nat × List (Nat × Nat) × Nat × Nat :=
  (g.sources.length, g.targets.length,
    g.hypergraph.adjacency.map (fun e => (e.sources.length, e.targets.length)),
    g.hypergraph.quotient.1.length, g.hypergraph.quotient.2.length)

/-- the nodes `< n` not occurring in `used` -/
def restOf (n : Nat) (used : List Nat) : List Nat :=
  (List.range n).filter (fun i => !used.contains i)

/-- `laxIso` split into its conjuncts, stated as propositions -/
theorem laxIso_iff_parts (m f : LF) : laxIso m f = true ↔
    (m.hypergraph.nodes.length = f.hypergraph.nodes.length ∧
      m.hypergraph.edges = f.hypergraph.edges ∧ shape m = shape f ∧
      (∀ p ∈ (refs m).zip (refs f), ∀ q ∈ (refs m).zip (refs f), (p.1 = q.1 ↔ p.2 = q.2)) ∧
      (∀ p ∈ (refs m).zip (refs f),
        m.hypergraph.nodes[p.1]? = f.hypergraph.nodes[p.2]? ∧ p.1 < m.hypergraph.nodes.length) ∧
      ((restOf m.hypergraph.nodes.length (((refs m).zip (refs f)).map (·.1))).filterMap
          (m.hypergraph.nodes[·]?)).Perm
        ((restOf f.hypergraph.nodes.length (((refs m).zip (refs f)).map (·.2))).filterMap
          (f.hypergraph.nodes[·]?))) := by
  have hunf : laxIso m f =
      (m.hypergraph.nodes.length == f.hypergraph.nodes.length &&
        m.hypergraph.edges == f.hypergraph.edges && shape m == shape f &&
        (((refs m).zip (refs f)).all (fun p => ((refs m).zip (refs f)).all
            (fun q => (p.1 == q.1) == (p.2 == q.2))) &&
          ((refs m).zip (refs f)).all (fun p =>
            m.hypergraph.nodes[p.1]? == f.hypergraph.nodes[p.2]? &&
              (m.hypergraph.nodes[p.1]?).isSome) &&
          isPerm
            ((restOf m.hypergraph.nodes.length (((refs m).zip (refs f)).map (·.1))).filterMap
              (m.hypergraph.nodes[·]?))
            ((restOf f.hypergraph.nodes.length (((refs m).zip (refs f)).map (·.2))).filterMap
              (f.hypergraph.nodes[·]?)))) := by
    simp only [laxIso, isPerm, Bool.and_assoc]
    rfl
  rw [hunf]
  simp only [Bool.and_eq_true, List.all_eq_true, beq_beq_iff]
  simp only [beq_iff_eq, isPerm_iff, and_assoc, Option.isSome_iff_exists,
    List.getElem?_eq_some_iff]
  constructor
  · rintro ⟨h1, h2, h3, h4, h5, h6⟩
    refine ⟨h1, h2, h3, h4, fun p hp => ?_, h6⟩
    obtain ⟨ha, b, hb, _⟩ := h5 p hp
    exact ⟨ha, hb⟩
  · rintro ⟨h1, h2, h3, h4, h5, h6⟩
    refine ⟨h1, h2, h3, h4, fun p hp => ?_, h6⟩
    obtain ⟨ha, hb⟩ := h5 p hp
    exact ⟨ha, _, hb, rfl⟩

/-! #### combinatorial core: a functional + injective list of pairs is the graph of a map -/

/-- the map read off an association list (identity outside its domain) -/
def ofPairs (P : List (Nat × Nat)) (i : Nat) : Nat := (P.lookup i).getD i

theorem ofPairs_of_mem : ∀ (P : List (Nat × Nat)),
    (∀ p ∈ P, ∀ q ∈ P, p.1 = q.1 → p.2 = q.2) → ∀ p ∈ P, ofPairs P p.1 = p.2 := by
  intro P
  induction P with
  | nil => intro _ p hp; cases hp
  | cons ab P ih =>
    obtain ⟨a, b⟩ := ab
    intro hf p hp
    unfold ofPairs
    rw [List.lookup_cons]
    by_cases hpa : p.1 = a
    · have : p.2 = b := hf p hp (a, b) List.mem_cons_self hpa
      simp [hpa, this]
    · have hp' : p ∈ P := by
        rcases List.mem_cons.mp hp with rfl | h
        · exact absurd rfl hpa
        · exact h
      have hne : (p.1 == a) = false := by simp [hpa]
      rw [hne]
      exact ih (fun p hp q hq => hf p (List.mem_cons_of_mem _ hp) q (List.mem_cons_of_mem _ hq))
        p hp'

theorem perm_map_lift {α β : Type} (g : α → β) {ys : List β} {l : List α}
    (h : ys.Perm (l.map g)) : ∃ l' : List α, l'.Perm l ∧ l'.map g = ys := by
  have := congrFun (congrFun (List.eq_map_comp_perm g) ys) l
  obtain ⟨l', h1, h2⟩ := this.mpr h
  exact ⟨l', h2, h1.symm⟩

theorem filterMap_getElem?_eq_map (lab l : List Nat) (h : ∀ i ∈ l, i < lab.length) :
    l.filterMap (lab[·]?) = l.map (fun i => lab.getD i 0) := by
  induction l with
  | nil => rfl
  | cons a l ih =>
    have ha := h a List.mem_cons_self
    rw [List.filterMap_cons, List.getElem?_eq_getElem ha, List.map_cons,
      ih (fun i hi => h i (List.mem_cons_of_mem _ hi))]
    simp [List.getD_eq_getElem?_getD, List.getElem?_eq_getElem ha]

theorem mem_restOf {n : Nat} {used : List Nat} {i : Nat} :
    i ∈ restOf n used ↔ i < n ∧ i ∉ used := by
  simp [restOf]

theorem nodup_restOf (n : Nat) (used : List Nat) : (restOf n used).Nodup :=
  List.Nodup.filter _ List.nodup_range

theorem zip_nodup_functional {l1 l2 : List Nat} (h1 : l1.Nodup) (h2 : l2.Nodup) :
    ∀ p ∈ l1.zip l2, ∀ q ∈ l1.zip l2, (p.1 = q.1 ↔ p.2 = q.2) := by
  intro p hp q hq
  obtain ⟨i, hi, rfl⟩ := List.mem_iff_getElem.mp hp
  obtain ⟨j, hj, rfl⟩ := List.mem_iff_getElem.mp hq
  simp only [List.length_zip] at hi hj
  simp only [List.getElem_zip]
  rw [h1.getElem_inj_iff, h2.getElem_inj_iff]

theorem map_fst_zip_of_length_eq {l1 l2 : List Nat} (h : l1.length = l2.length) :
    (l1.zip l2).map (·.1) = l1 := by
  have := List.map_fst_zip (l₁ := l1) (l₂ := l2) (by omega)
  simpa using this

theorem map_snd_zip_of_length_eq {l1 l2 : List Nat} (h : l1.length = l2.length) :
    (l1.zip l2).map (·.2) = l2 := by
  have := List.map_snd_zip (l₁ := l1) (l₂ := l2) (by omega)
  simpa using this

/-- CORE: a functional+injective, label-respecting list of pairs whose two rests carry the same
    multiset of labels extends to a label-preserving bijection of `0..n` -/
theorem core_extend (n : Nat) (labM labF : List Nat) (hM : labM.length = n) (hF : labF.length = n)
    (pairs : List (Nat × Nat))
    (hfun : ∀ p ∈ pairs, ∀ q ∈ pairs, (p.1 = q.1 ↔ p.2 = q.2))
    (hlab : ∀ p ∈ pairs, labM[p.1]? = labF[p.2]? ∧ p.1 < n)
    (hrest : ((restOf n (pairs.map (·.1))).filterMap (labM[·]?)).Perm
        ((restOf n (pairs.map (·.2))).filterMap (labF[·]?))) :
    ∃ π : Nat → Nat, BijOn n n π ∧ (∀ p ∈ pairs, π p.1 = p.2) ∧
      ∀ i, i < n → labF[π i]? = labM[i]? := by
  -- bounds of the second components
  have hlab2 : ∀ p ∈ pairs, p.2 < n := by
    intro p hp
    obtain ⟨he, hlt⟩ := hlab p hp
    rw [List.getElem?_eq_getElem (by omega)] at he
    have := (List.getElem?_eq_some_iff.mp he.symm).1
    omega
  -- the rests and the lifted matching between them
  have hRM : ∀ i ∈ restOf n (pairs.map (·.1)), i < labM.length := fun i hi =>
    hM ▸ (mem_restOf.mp hi).1
  have hRF : ∀ i ∈ restOf n (pairs.map (·.2)), i < labF.length := fun i hi =>
    hF ▸ (mem_restOf.mp hi).1
  rw [filterMap_getElem?_eq_map _ _ hRM, filterMap_getElem?_eq_map _ _ hRF] at hrest
  obtain ⟨rF, hperm, hmap⟩ := perm_map_lift _ hrest
  have hlen : (restOf n (pairs.map (·.1))).length = rF.length := by
    have := congrArg List.length hmap
    simpa using this.symm
  have hrFnd : rF.Nodup := hperm.nodup_iff.mpr (nodup_restOf _ _)
  have hrFmem : ∀ k, k ∈ rF ↔ k < n ∧ k ∉ pairs.map (·.2) := fun k =>
    (hperm.mem_iff).trans mem_restOf
  -- the full graph
  let P := pairs ++ (restOf n (pairs.map (·.1))).zip rF
  have hzfst : ∀ q ∈ (restOf n (pairs.map (·.1))).zip rF,
      q.1 ∈ restOf n (pairs.map (·.1)) ∧ q.2 ∈ rF := fun q hq =>
    List.of_mem_zip (a := q.1) (b := q.2) hq
  have hP1 : ∀ p ∈ P, ∀ q ∈ P, (p.1 = q.1 ↔ p.2 = q.2) := by
    intro p hp q hq
    rcases List.mem_append.mp hp with hp | hp <;> rcases List.mem_append.mp hq with hq | hq
    · exact hfun p hp q hq
    · obtain ⟨hq1, hq2⟩ := hzfst q hq
      have a1 : p.1 ≠ q.1 := fun e =>
        (mem_restOf.mp hq1).2 (e ▸ List.mem_map_of_mem (f := (·.1)) hp)
      have a2 : p.2 ≠ q.2 := fun e =>
        ((hrFmem _).mp hq2).2 (e ▸ List.mem_map_of_mem (f := (·.2)) hp)
      exact ⟨fun e => absurd e a1, fun e => absurd e a2⟩
    · obtain ⟨hp1, hp2⟩ := hzfst p hp
      have a1 : p.1 ≠ q.1 := fun e =>
        (mem_restOf.mp hp1).2 (e ▸ List.mem_map_of_mem (f := (·.1)) hq)
      have a2 : p.2 ≠ q.2 := fun e =>
        ((hrFmem _).mp hp2).2 (e ▸ List.mem_map_of_mem (f := (·.2)) hq)
      exact ⟨fun e => absurd e a1, fun e => absurd e a2⟩
    · exact zip_nodup_functional (nodup_restOf _ _) hrFnd p hp q hq
  have hP4 : ∀ p ∈ P, p.1 < n ∧ p.2 < n ∧ labF[p.2]? = labM[p.1]? := by
    intro p hp
    rcases List.mem_append.mp hp with hp | hp
    · exact ⟨(hlab p hp).2, hlab2 p hp, (hlab p hp).1.symm⟩
    · obtain ⟨i, hi, rfl⟩ := List.mem_iff_getElem.mp hp
      simp only [List.length_zip] at hi
      simp only [List.getElem_zip]
      have h1 : (restOf n (pairs.map (·.1)))[i] < n :=
        (mem_restOf.mp (List.getElem_mem _)).1
      have h2 : rF[i] < n := ((hrFmem _).mp (List.getElem_mem _)).1
      refine ⟨h1, h2, ?_⟩
      have := congrArg (fun l => l[i]?) hmap
      simp only [List.getElem?_map, List.getElem?_eq_getElem (show i < rF.length by omega),
        List.getElem?_eq_getElem (show i < (restOf n (pairs.map (·.1))).length by omega),
        Option.map_some, Option.some.injEq, List.getD_eq_getElem?_getD] at this
      rw [List.getElem?_eq_getElem (by omega), List.getElem?_eq_getElem (by omega)] at this ⊢
      simpa using this
  have hP2 : ∀ i, i < n → ∃ p ∈ P, p.1 = i := by
    intro i hi
    by_cases hin : i ∈ pairs.map (·.1)
    · obtain ⟨p, hp, rfl⟩ := List.mem_map.mp hin
      exact ⟨p, List.mem_append_left _ hp, rfl⟩
    · have : i ∈ ((restOf n (pairs.map (·.1))).zip rF).map (·.1) := by
        rw [map_fst_zip_of_length_eq hlen]; exact mem_restOf.mpr ⟨hi, hin⟩
      obtain ⟨p, hp, rfl⟩ := List.mem_map.mp this
      exact ⟨p, List.mem_append_right _ hp, rfl⟩
  have hP3 : ∀ k, k < n → ∃ p ∈ P, p.2 = k := by
    intro k hk
    by_cases hin : k ∈ pairs.map (·.2)
    · obtain ⟨p, hp, rfl⟩ := List.mem_map.mp hin
      exact ⟨p, List.mem_append_left _ hp, rfl⟩
    · have : k ∈ ((restOf n (pairs.map (·.1))).zip rF).map (·.2) := by
        rw [map_snd_zip_of_length_eq hlen]; exact (hrFmem k).mpr ⟨hk, hin⟩
      obtain ⟨p, hp, rfl⟩ := List.mem_map.mp this
      exact ⟨p, List.mem_append_right _ hp, rfl⟩
  have hπ : ∀ p ∈ P, ofPairs P p.1 = p.2 :=
    ofPairs_of_mem P (fun p hp q hq => (hP1 p hp q hq).mp)
  refine ⟨ofPairs P, ⟨?_, ?_, ?_⟩, fun p hp => hπ p (List.mem_append_left _ hp), ?_⟩
  · intro i hi
    obtain ⟨p, hp, rfl⟩ := hP2 i hi
    rw [hπ p hp]; exact (hP4 p hp).2.1
  · intro i j hi hj hij
    obtain ⟨p, hp, rfl⟩ := hP2 i hi
    obtain ⟨q, hq, rfl⟩ := hP2 j hj
    rw [hπ p hp, hπ q hq] at hij
    exact (hP1 p hp q hq).mpr hij
  · intro k hk
    obtain ⟨p, hp, rfl⟩ := hP3 k hk
    exact ⟨p.1, (hP4 p hp).1, hπ p hp⟩
  · intro i hi
    obtain ⟨p, hp, rfl⟩ := hP2 i hi
    rw [hπ p hp]; exact (hP4 p hp).2.2

/-! #### structure: the parallel walk covers every reference list -/

theorem map_eq_of_zip (π : Nat → Nat) : ∀ (l1 l2 : List Nat), l1.length = l2.length →
    (∀ p ∈ l1.zip l2, π p.1 = p.2) → l2 = l1.map π
  | [], [], _, _ => rfl
  | [], _ :: _, h, _ => by simp at h
  | _ :: _, [], h, _ => by simp at h
  | a :: l1, b :: l2, h, hz => by
    have hab : π a = b := hz (a, b) (by simp)
    have := map_eq_of_zip π l1 l2 (by simpa using h)
      (fun p hp => hz p (by rw [List.zip_cons_cons]; exact List.mem_cons_of_mem _ hp))
    rw [List.map_cons, hab, ← this]

theorem list_core (π : Nat → Nat) (l1 l2 r1 r2 : List Nat) (h : l1.length = l2.length)
    (hz : ∀ p ∈ (l1 ++ r1).zip (l2 ++ r2), π p.1 = p.2) :
    l2 = l1.map π ∧ ∀ p ∈ r1.zip r2, π p.1 = p.2 := by
  rw [List.zip_append h] at hz
  exact ⟨map_eq_of_zip π l1 l2 h (fun p hp => hz p (List.mem_append_left _ hp)),
    fun p hp => hz p (List.mem_append_right _ hp)⟩

/-- renaming of one adjacency entry -/
def renEdge (π : Nat → Nat) (e : LEdge) : LEdge := ⟨e.sources.map π, e.targets.map π⟩

theorem adj_core (π : Nat → Nat) : ∀ (aM aF : List LEdge) (r1 r2 : List Nat),
    aM.map (fun e => (e.sources.length, e.targets.length)) =
      aF.map (fun e => (e.sources.length, e.targets.length)) →
    (∀ p ∈ (aM.flatMap (fun e => e.sources ++ e.targets) ++ r1).zip
        (aF.flatMap (fun e => e.sources ++ e.targets) ++ r2), π p.1 = p.2) →
    aF = aM.map (renEdge π) ∧ ∀ p ∈ r1.zip r2, π p.1 = p.2
  | [], [], _, _, _, hz => ⟨rfl, by simpa using hz⟩
  | [], _ :: _, _, _, h, _ => by simp at h
  | _ :: _, [], _, _, h, _ => by simp at h
  | e :: aM, e' :: aF, r1, r2, h, hz => by
    simp only [List.map_cons, List.cons.injEq, Prod.mk.injEq] at h
    obtain ⟨⟨hs, ht⟩, hrest⟩ := h
    simp only [List.flatMap_cons, List.append_assoc] at hz
    obtain ⟨es, hz⟩ := list_core π _ _ _ _ hs hz
    obtain ⟨et, hz⟩ := list_core π _ _ _ _ ht hz
    obtain ⟨ih, hz⟩ := adj_core π aM aF r1 r2 hrest hz
    refine ⟨?_, hz⟩
    rw [List.map_cons, ← ih]
    congr 1
    cases e'; simp only [renEdge] at *; simp [es, et]

/-- `f` is `m` with every node reference pushed through `π` and the node labels moved along;
    `π` is a bijection of the node set -/
def RenamedBy (π : Nat → Nat) (m f : LF) : Prop :=
  f.sources = m.sources.map π ∧ f.targets = m.targets.map π ∧
  f.hypergraph.edges = m.hypergraph.edges ∧
  f.hypergraph.adjacency =
    m.hypergraph.adjacency.map (fun e => ⟨e.sources.map π, e.targets.map π⟩) ∧
  f.hypergraph.quotient = (m.hypergraph.quotient.1.map π, m.hypergraph.quotient.2.map π) ∧
  (∀ i, i < m.hypergraph.nodes.length → π i < m.hypergraph.nodes.length) ∧
  (∀ i j, i < m.hypergraph.nodes.length → j < m.hypergraph.nodes.length → π i = π j → i = j) ∧
  (∀ i, i < m.hypergraph.nodes.length → f.hypergraph.nodes[π i]? = m.hypergraph.nodes[i]?)

theorem renamed_of_walk (π : Nat → Nat) (m f : LF) (hsh : shape m = shape f)
    (hz : ∀ p ∈ (refs m).zip (refs f), π p.1 = p.2) :
    f.sources = m.sources.map π ∧ f.targets = m.targets.map π ∧
    f.hypergraph.adjacency = m.hypergraph.adjacency.map (renEdge π) ∧
    f.hypergraph.quotient = (m.hypergraph.quotient.1.map π, m.hypergraph.quotient.2.map π) := by
  simp only [shape, Prod.mk.injEq] at hsh
  obtain ⟨h1, h2, h3, h4, h5⟩ := hsh
  simp only [refs, List.append_assoc] at hz
  obtain ⟨e1, hz⟩ := list_core π _ _ _ _ h1 hz
  obtain ⟨e2, hz⟩ := list_core π _ _ _ _ h2 hz
  obtain ⟨e3, hz⟩ := adj_core π _ _ _ _ h3 hz
  have hz' : ∀ p ∈ (m.hypergraph.quotient.1 ++ (m.hypergraph.quotient.2 ++ [])).zip
      (f.hypergraph.quotient.1 ++ (f.hypergraph.quotient.2 ++ [])), π p.1 = p.2 := by
    simpa using hz
  obtain ⟨e4, hz'⟩ := list_core π _ _ _ _ h4 hz'
  obtain ⟨e5, _⟩ := list_core π _ _ _ _ h5 hz'
  refine ⟨e1, e2, e3, ?_⟩
  rw [← e4, ← e5]

/-- SOUNDNESS of `laxIso`: an accepted answer is the model's diagram with its nodes renumbered by
    a label-preserving bijection `π` of `0..n` (same number of nodes, same edge labels, every
    reference list mapped through `π`) -/
theorem laxIso_sound (m f : LOHG Nat Nat) (h : laxIso m f = true) :
    ∃ π : Nat → Nat,
      f.sources = m.sources.map π ∧ f.targets = m.targets.map π ∧
      f.hypergraph.edges = m.hypergraph.edges ∧
      f.hypergraph.adjacency =
        m.hypergraph.adjacency.map (fun e => ⟨e.sources.map π, e.targets.map π⟩) ∧
      f.hypergraph.quotient = (m.hypergraph.quotient.1.map π, m.hypergraph.quotient.2.map π) ∧
      (∀ i, i < m.hypergraph.nodes.length → π i < m.hypergraph.nodes.length) ∧
      (∀ i j, i < m.hypergraph.nodes.length → j < m.hypergraph.nodes.length → π i = π j → i = j) ∧
      (∀ i, i < m.hypergraph.nodes.length → f.hypergraph.nodes[π i]? = m.hypergraph.nodes[i]?) ∧
      -- extras: same number of nodes, and `π` is onto (so `BijOn n n π`)
      f.hypergraph.nodes.length = m.hypergraph.nodes.length ∧
      BijOn m.hypergraph.nodes.length m.hypergraph.nodes.length π := by
  obtain ⟨hn, he, hsh, hfun, hlab, hrest⟩ := (laxIso_iff_parts m f).mp h
  rw [← hn] at hrest
  obtain ⟨π, hbij, hwalk, hnodes⟩ :=
    core_extend m.hypergraph.nodes.length m.hypergraph.nodes f.hypergraph.nodes rfl hn.symm
      _ hfun hlab hrest
  obtain ⟨e1, e2, e3, e4⟩ := renamed_of_walk π m f hsh hwalk
  exact ⟨π, e1, e2, he.symm, e3, e4, hbij.1, hbij.2.1, hnodes, hn.symm, hbij⟩

/-! #### completeness of `laxIso` -/

theorem zip_map_self (π : Nat → Nat) (l : List Nat) :
    l.zip (l.map π) = l.map (fun i => (i, π i)) := by
  induction l with
  | nil => rfl
  | cons a l ih => simp [ih]

theorem refs_of_renamed (π : Nat → Nat) (m f : LF) (hr : RenamedBy π m f) :
    refs f = (refs m).map π := by
  obtain ⟨e1, e2, _, e3, e4, _⟩ := hr
  simp only [refs, e1, e2, e3, e4, List.map_append, List.map_flatMap, List.flatMap_map]

theorem shape_of_renamed (π : Nat → Nat) (m f : LF) (hr : RenamedBy π m f) :
    shape m = shape f := by
  obtain ⟨e1, e2, _, e3, e4, _⟩ := hr
  simp [shape, e1, e2, e3, e4, Function.comp_def]

/-- a self-map of `0..n` injective there permutes `range n` -/
theorem map_range_perm (n : Nat) (π : Nat → Nat) (hlt : ∀ i, i < n → π i < n)
    (hinj : ∀ i j, i < n → j < n → π i = π j → i = j) :
    ((List.range n).map π).Perm (List.range n) := by
  apply List.Subperm.perm_of_length_le
  · apply List.subperm_of_subset
    · apply List.Nodup.map_on _ List.nodup_range
      intro x hx y hy
      exact hinj x y (List.mem_range.mp hx) (List.mem_range.mp hy)
    · intro k hk
      obtain ⟨i, hi, rfl⟩ := List.mem_map.mp hk
      exact List.mem_range.mpr (hlt i (List.mem_range.mp hi))
  · simp

/-- the rest of the image is the image of the rest (up to order) -/
theorem restOf_map_perm (n : Nat) (π : Nat → Nat) (used : List Nat)
    (hlt : ∀ i, i < n → π i < n)
    (hinj : ∀ i j, i < n → j < n → π i = π j → i = j) (hused : ∀ i ∈ used, i < n) :
    ((restOf n used).map π).Perm (restOf n (used.map π)) := by
  have h1 : (restOf n used).map π =
      ((List.range n).map π).filter (fun k => !(used.map π).contains k) := by
    rw [List.filter_map]
    unfold restOf
    congr 1
    apply List.filter_congr
    intro i hi
    have hi := List.mem_range.mp hi
    have : π i ∈ used.map π ↔ i ∈ used := by
      constructor
      · intro h
        obtain ⟨j, hj, e⟩ := List.mem_map.mp h
        exact (hinj j i (hused j hj) hi e) ▸ hj
      · exact List.mem_map_of_mem
    have hc : used.contains i = (used.map π).contains (π i) := by
      rw [Bool.eq_iff_iff, List.contains_iff_mem, List.contains_iff_mem]; exact this.symm
    show (!used.contains i) = !(used.map π).contains (π i)
    rw [hc]
  rw [h1]
  exact (map_range_perm n π hlt hinj).filter _

/-- COMPLETENESS of `laxIso` (general form): every renumbered copy of a diagram whose node
    references are in range is accepted -/
theorem laxIso_of_renamed (m f : LF) (π : Nat → Nat)
    (hrefs : ∀ i ∈ refs m, i < m.hypergraph.nodes.length)
    (hn : f.hypergraph.nodes.length = m.hypergraph.nodes.length) (hr : RenamedBy π m f) :
    laxIso m f = true := by
  have hrf := refs_of_renamed π m f hr
  have hsh := shape_of_renamed π m f hr
  obtain ⟨_, _, he, _, _, hlt, hinj, hnodes⟩ := hr
  rw [laxIso_iff_parts, hrf, zip_map_self]
  have hfst : ((refs m).map (fun i => (i, π i))).map (·.1) = refs m := by
    simp [Function.comp_def]
  have hsnd : ((refs m).map (fun i => (i, π i))).map (·.2) = (refs m).map π := by
    simp [Function.comp_def]
  refine ⟨hn.symm, he.symm, hsh, ?_, ?_, ?_⟩
  · intro p hp q hq
    obtain ⟨i, hi, rfl⟩ := List.mem_map.mp hp
    obtain ⟨j, hj, rfl⟩ := List.mem_map.mp hq
    exact ⟨fun e => congrArg π e, hinj i j (hrefs i hi) (hrefs j hj)⟩
  · intro p hp
    obtain ⟨i, hi, rfl⟩ := List.mem_map.mp hp
    exact ⟨(hnodes i (hrefs i hi)).symm, hrefs i hi⟩
  · rw [hfst, hsnd, hn]
    have hp := restOf_map_perm m.hypergraph.nodes.length π (refs m) hlt hinj hrefs
    refine List.Perm.trans ?_ (hp.filterMap _)
    rw [List.filterMap_map]
    apply List.Perm.of_eq
    apply List.filterMap_congr
    intro i hi
    exact (hnodes i (mem_restOf.mp hi).1).symm

theorem refs_lt_of_wf (m : LF) (hwf : m.wf = true) :
    ∀ i ∈ refs m, i < m.hypergraph.nodes.length := by
  simp only [LOHG.wf, LHG.wf, Bool.and_eq_true, List.all_eq_true, decide_eq_true_eq] at hwf
  obtain ⟨⟨⟨⟨⟨⟨_, ha⟩, _⟩, hq1⟩, hq2⟩, hs⟩, ht⟩ := hwf
  intro i hi
  simp only [refs, List.mem_append, List.mem_flatMap] at hi
  rcases hi with (((hi | hi) | ⟨e, he, hi | hi⟩) | hi) | hi
  · exact hs i hi
  · exact ht i hi
  · exact (ha e he).1 i hi
  · exact (ha e he).2 i hi
  · exact hq1 i hi
  · exact hq2 i hi

/-- the full characterisation: `laxIso` accepts `f` iff `m`'s references are in range, the node
    counts agree and `f` is `m` renumbered by a label-preserving bijection -/
theorem laxIso_iff (m f : LOHG Nat Nat) : laxIso m f = true ↔
    ((∀ i ∈ refs m, i < m.hypergraph.nodes.length) ∧
      f.hypergraph.nodes.length = m.hypergraph.nodes.length ∧ ∃ π, RenamedBy π m f) := by
  constructor
  · intro h
    obtain ⟨π, e1, e2, e3, e4, e5, e6, e7, e8, e9, _⟩ := laxIso_sound m f h
    refine ⟨?_, e9, π, e1, e2, e3, e4, e5, e6, e7, e8⟩
    obtain ⟨_, _, hsh, _, hlab, _⟩ := (laxIso_iff_parts m f).mp h
    have hlen : (refs m).length = (refs f).length := by
      have := refs_of_renamed π m f ⟨e1, e2, e3, e4, e5, e6, e7, e8⟩
      rw [this, List.length_map]
    intro i hi
    have : i ∈ ((refs m).zip (refs f)).map (·.1) := by
      rw [map_fst_zip_of_length_eq hlen]; exact hi
    obtain ⟨p, hp, rfl⟩ := List.mem_map.mp this
    exact (hlab p hp).2
  · rintro ⟨h1, h2, π, h3⟩
    exact laxIso_of_renamed m f π h1 h2 h3

/-! #### `isPermOfRange`, `renState` -/

theorem isPermOfRange_iff (ren : List Nat) :
    isPermOfRange ren = true ↔ ren.Perm (List.range ren.length) := by
  simp only [isPermOfRange, isPerm_iff]

example : isPermOfRange [2, 0, 1] = true := by decide
example : isPermOfRange [2, 0, 2] = false := by decide
example : isPermOfRange [3, 0, 1] = false := by decide

theorem filterMap_range_of_isSome (h : Nat → Option Nat) (n : Nat)
    (hall : ∀ j, j < n → (h j).isSome = true) :
    ((List.range n).filterMap h).length = n ∧
      ∀ j, j < n → ((List.range n).filterMap h)[j]? = h j := by
  have e : (List.range n).filterMap h = (List.range n).map (fun j => (h j).getD 0) := by
    rw [← List.filterMap_eq_map]
    apply List.filterMap_congr
    intro j hj
    obtain ⟨v, hv⟩ := Option.isSome_iff_exists.mp (hall j (List.mem_range.mp hj))
    simp [hv]
  rw [e]
  refine ⟨by simp, fun j hj => ?_⟩
  obtain ⟨v, hv⟩ := Option.isSome_iff_exists.mp (hall j hj)
  simp [hj, hv]

theorem idxOf?_getElem_of_nodup {ren : List Nat} (hnd : ren.Nodup) (i : Nat) (hi : i < ren.length) :
    ren.idxOf? ren[i] = some i := by
  cases hk : ren.idxOf? ren[i] with
  | none => exact absurd (List.getElem_mem hi) (List.idxOf?_eq_none_iff.mp hk)
  | some k =>
    obtain ⟨hlt, hget, _⟩ := List.idxOf?_eq_some_iff.mp hk
    rw [(hnd.getElem_inj_iff).mp hget]

/-- the state pushed through a permutation `ren` of the node ids is a renumbered copy -/
theorem renState_renamed (m : LF) (ren : List Nat) (hp : isPermOfRange ren = true)
    (hlen : ren.length = m.hypergraph.nodes.length) :
    (renState ren m).hypergraph.nodes.length = m.hypergraph.nodes.length ∧
      RenamedBy (fun i => ren.getD i i) m (renState ren m) := by
  have hperm := (isPermOfRange_iff ren).mp hp
  rw [hlen] at hperm
  have hnd : ren.Nodup := hperm.nodup_iff.mpr List.nodup_range
  have hmem : ∀ j, j ∈ ren ↔ j < m.hypergraph.nodes.length := fun j =>
    hperm.mem_iff.trans List.mem_range
  have hg : ∀ i, ∀ hi : i < m.hypergraph.nodes.length, ren.getD i i = ren[i]'(hlen ▸ hi) := by
    intro i hi
    simp [List.getD_eq_getElem?_getD, List.getElem?_eq_getElem (show i < ren.length by omega)]
  -- the node labels of the renumbered state
  have hnodes : (renState ren m).hypergraph.nodes =
      (List.range m.hypergraph.nodes.length).filterMap
        (fun j => m.hypergraph.nodes[(ren.idxOf? j).getD j]?) := by
    simp only [renState, List.filterMap_map, Function.comp_def]
  have hsome : ∀ j, j < m.hypergraph.nodes.length →
      (m.hypergraph.nodes[(ren.idxOf? j).getD j]?).isSome = true := by
    intro j hj
    obtain ⟨i, hi, rfl⟩ := List.mem_iff_getElem.mp ((hmem j).mpr hj)
    rw [idxOf?_getElem_of_nodup hnd i hi]
    simp only [Option.getD_some]
    rw [List.getElem?_eq_getElem (by omega)]
    rfl
  obtain ⟨hl, hget⟩ := filterMap_range_of_isSome _ _ hsome
  rw [← hnodes] at hl hget
  refine ⟨hl, rfl, rfl, rfl, rfl, rfl, ?_, ?_, ?_⟩
  · intro i hi
    simp only
    rw [hg i hi]
    exact (hmem _).mp (List.getElem_mem _)
  · intro i j hi hj hij
    simp only at hij
    rw [hg i hi, hg j hj] at hij
    exact (hnd.getElem_inj_iff).mp hij
  · intro i hi
    simp only
    have hlt : ren.getD i i < m.hypergraph.nodes.length := by
      rw [hg i hi]; exact (hmem _).mp (List.getElem_mem _)
    rw [hget _ hlt, hg i hi, idxOf?_getElem_of_nodup hnd i (by omega)]
    rfl

/-- COMPLETENESS of `laxIso` w.r.t. the driver's own renumbering: a renumbered copy of a
    well-formed diagram is always accepted -/
theorem laxIso_complete (m : LOHG Nat Nat) (ren : List Nat) (hp : isPermOfRange ren = true)
    (hlen : ren.length = m.hypergraph.nodes.length) (hwf : m.wf = true) :
    laxIso m (renState ren m) = true := by
  obtain ⟨hl, hr⟩ := renState_renamed m ren hp hlen
  exact laxIso_of_renamed m _ _ (refs_lt_of_wf m hwf) hl hr

/-- in particular `laxIso` is reflexive on well-formed diagrams -/
theorem laxIso_refl_of_wf (m : LOHG Nat Nat) (hwf : m.wf = true) : laxIso m m = true :=
  laxIso_of_renamed m m id (refs_lt_of_wf m hwf) rfl
    ⟨by simp, by simp, rfl, by simp, by simp, fun _ h => h, fun _ _ _ _ h => h, fun _ _ => rfl⟩

/-! #### concrete instances -/

/-- a diagram with a referenced part (nodes 0,1,2), an unreferenced node 3, one edge, one
    pending identification -/
def exM : LF := ⟨[0, 1], [2], ⟨[10, 10, 12, 5], [7], [⟨[0, 1], [2]⟩], ([0], [1])⟩⟩
/-- `exM` renumbered by `0↦2, 1↦0, 2↦3, 3↦1` -/
def exF : LF := ⟨[2, 0], [3], ⟨[10, 5, 10, 12], [7], [⟨[2, 0], [3]⟩], ([2], [0])⟩⟩

example : laxIso exM exF = true := by decide
/-- hypotheses of `laxIso_complete` on a non-trivial instance, and its conclusion computed -/
example : isPermOfRange [2, 0, 3, 1] = true ∧ [2, 0, 3, 1].length = exM.hypergraph.nodes.length ∧
    exM.wf = true ∧ renState [2, 0, 3, 1] exM = exF := by decide
/-- a label moved to the wrong node: rejected -/
example : laxIso exM ⟨[2, 0], [3], ⟨[10, 5, 12, 10], [7], [⟨[2, 0], [3]⟩], ([2], [0])⟩⟩ = false := by
  decide
/-- a non-injective walk (nodes 0 and 1 merged): rejected -/
example : laxIso exM ⟨[2, 2], [3], ⟨[10, 5, 10, 12], [7], [⟨[2, 2], [3]⟩], ([2], [2])⟩⟩ = false := by
  decide
/-- the unreferenced node carries another label: rejected -/
example : laxIso exM ⟨[2, 0], [3], ⟨[10, 6, 10, 12], [7], [⟨[2, 0], [3]⟩], ([2], [0])⟩⟩ = false := by
  decide
/-- two unreferenced nodes with swapped labels: accepted; with a wrong multiset: rejected -/
example : laxIso ⟨[0], [], ⟨[10, 5, 6], [], [], ([], [])⟩⟩ ⟨[2], [], ⟨[6, 5, 10], [], [], ([], [])⟩⟩ = true := by
  decide
example : laxIso ⟨[0], [], ⟨[10, 5, 6], [], [], ([], [])⟩⟩ ⟨[2], [], ⟨[6, 6, 10], [], [], ([], [])⟩⟩ = false := by
  decide
/-- a reference out of range makes even the identical answer rejected (hence `wf` in
    `laxIso_complete`; the driver compares wire forms for equality first) -/
example : laxIso ⟨[3], [], ⟨[10], [], [], ([], [])⟩⟩ ⟨[3], [], ⟨[10], [], [], ([], [])⟩⟩ = false := by
  decide

end OH.Comparators

#print axioms OH.Comparators.isPerm_iff
#print axioms OH.Comparators.argsortOk_iff
#print axioms OH.Comparators.argsortOk_of_lawful
#print axioms OH.Comparators.sameKernel_iff
#print axioms OH.Comparators.denseOnto_iff
#print axioms OH.Comparators.sparseOk_iff
#print axioms OH.Comparators.sparseOk_of_lawful
#print axioms OH.Comparators.ccContract_iff
#print axioms OH.Comparators.ccContract_of_lawful
#print axioms OH.Comparators.segPermEq_iff
#print axioms OH.Comparators.laxIso_sound
#print axioms OH.Comparators.laxIso_iff
#print axioms OH.Comparators.laxIso_complete
