/-
  REFLECTION of the correspondence driver's history comparator `Drv.runHistoryRen`
  (Model/DriverLax.lean, groups `lax.edit` / `lax.quot`) to a Prop-level specification, so that it
  no longer has to be read by eye.

  * `nextRen`, `staleB`, `okShapeB`, `stateOkB`, `outOkB`: the pieces of one step, named; `nextRen`
    is LITERALLY the driver's `ren'`; `runHistoryRen_cons` (by `rfl`) is the driver's step equation
    with the pieces named.
  * `StateAgree`, `OutAgree` (`QuotOutAgree`, `CoeqOutAgree`, `WitOutAgree`, `FreshOutAgree`,
    `StrictOutAgree`), `Stale`, `SamePendingSet`, `KernelAgree`: their Prop-level readings, with
    `stateOkB_iff`, `outOkB_iff`, `okShapeB_iff`, `staleB_iff`.  `enc_LF_inj`: the wire encoding of
    lax diagrams is injective, so the exact tier of the state comparison is EQUALITY of states.
  * `HistAgree`: the specification, one constructor per way the comparator answers `true`.
  * `runHistoryRen_true_iff`: the comparator answers `some (true, _)` EXACTLY on `HistAgree`
    (soundness and completeness, no side condition; a malformed op makes it answer `none`, which
    is neither).
  * `renState_id`: the identity renumbering changes nothing (no hypothesis).
  * `quotientIdempotentOnImpl_iff`: Prop-level reading of C09's literal clause on the
    implementation's own trace.
  * `runHistoryRen_refl_partial`: no false alarm on the model's own trace under the identity
    renumbering for histories without quotient/deletion steps, for every LAWFUL backend and
    every start state; the general statement is `runHistoryRen_refl_statement` (not proved).

  FORMER DISCREPANCIES, now checked (section 8): the comparator used not to compare the length of
  the implementation's quotient / coequalizer table with the model's, nor the range of the
  coequalizer's entries.  `MapAgree` now contains `qm.table.length = qi.table.length` and the
  dense-onto clause for both; `quot_table_length_checked`, `coeq_range_checked`: the two outputs that
  used to be accepted are rejected.
-/
import OHVerif.Model.DriverLax
import OHVerif.Props.Comparators
import OHVerif.Props.LaxDenoteSet
import OHVerif.Props.Oracles

namespace OH.HistoryOracle
open OH OH.Drv OH.Comparators

/-! ### 0. the pieces of one step of `runHistoryRen`, named -/

/-- the `h_quotient`-on-a-diagram-with-interfaces test -/
def staleB (f : LF) (op : Sx) : Bool :=
  match op with | .l [.s "h_quotient"] => !(f.sources.isEmpty && f.targets.isEmpty) | _ => false

/-- LITERALLY the `ren'` expression of the driver -/
def nextRen (f f' : LF) (ren : L) (op out iout : Sx) : L :=
  let n' := f'.hypergraph.nodes.length
  match op, out, iout with
  | .l [.s "quotient"], .l [.s "Ok", qm], .l [.s "Ok", qi]
  | .l [.s "h_quotient"], .l [.s "Ok", qm], .l [.s "Ok", qi] =>
    (match (dec qm : Option FinFun), (dec qi : Option FinFun) with
     | some qm, some qi =>
       (List.range n').map (fun k =>
         match qm.table.idxOf? k with
         | some i => qi.table.getD (ren.getD i i) k
         | Option.none => k)
     | _, _ => List.range n')
  | .l [.s "delete_nodes", _], _, _ | .l [.s "h_delete_nodes_witness", _], _, _ =>
    let keptM := (List.range f.hypergraph.nodes.length).filter (fun i =>
      match unrenOp ren op with
      | .l [_, ids] => (match (dec ids : Option L) with | some d => !d.contains i | Option.none => true)
      | _ => true)
    let keptI := (keptM.map (fun i => ren.getD i i)).mergeSort (fun a b => decide (a ≤ b))
    keptM.map (fun i => (keptI.idxOf? (ren.getD i i)).getD 0)
  | _, _, _ => ren ++ (List.range' ren.length (n' - ren.length))

def okShapeB (n' : Nat) (ren' : L) : Bool := ren'.length == n' && isPermOfRange ren'

def stateOkB (pairsAsSet : Bool) (rs fi : LF) : Bool :=
  (enc rs == enc fi ||
    (pairsAsSet && rs.sources == fi.sources && rs.targets == fi.targets &&
     rs.hypergraph.nodes == fi.hypergraph.nodes && rs.hypergraph.edges == fi.hypergraph.edges &&
     rs.hypergraph.adjacency == fi.hypergraph.adjacency && samePairsSet rs fi && (fi.wf || !rs.wf)))

def outOkB (pairsAsSet : Bool) (f : LF) (ren ren' : L) (op out iout : Sx) : Bool :=
  let g := fun i => ren'.getD i i
  match op, out, iout with
  | .l [.s "quotient"], .l [.s a, qm], .l [.s b, qi] | .l [.s "h_quotient"], .l [.s a, qm], .l [.s b, qi] =>
    a == b && (a == "Err" || match (dec qm : Option FinFun), (dec qi : Option FinFun) with
      | some qm, some qi => qm.target == qi.target && qm.table.length == qi.table.length &&
          denseOnto qi.table qi.target &&
          sameKernel qm.table ((List.range qm.table.length).map (fun i => qi.table.getD (ren.getD i i) 0))
      | _, _ => false)
  | .l [.s "coequalizer"], qm, qi =>
    (match (dec qm : Option FinFun), (dec qi : Option FinFun) with
      | some qm, some qi => qm.target == qi.target && qm.table.length == qi.table.length &&
          denseOnto qi.table qi.target &&
          sameKernel qm.table ((List.range qm.table.length).map (fun i => qi.table.getD (ren.getD i i) 0))
      | _, _ => false)
  | .l [.s "h_delete_nodes_witness", _], wm, wi =>
    (match (dec wm : Option (List (Option Nat))), (dec wi : Option (List (Option Nat))) with
      | some wm, some wi => wm.length == wi.length &&
          (List.range wm.length).all (fun i => (wm.getD i none).map g == wi.getD (ren.getD i i) none)
      | _, _ => false)
  | .l [.s "new_node", _], o, io | .l [.s "add_edge_source", _, _], o, io
  | .l [.s "add_edge_target", _, _], o, io | .l [.s "new_operation", _, _, _], o, io =>
    (match op with
     | .l [.s "new_operation", _, _, _] =>
       (match o, io with
        | .l [e, a, b], .l [e', a', b'] => e == e' && mapIdsSx g a == a' && mapIdsSx g b == b'
        | _, _ => false)
     | _ => mapIdsSx g o == io)
  | .l [.s "is_strict"], o, io =>
    o == io || (pairsAsSet && !(pairsNorm f).isEmpty && (pairsSet f).isEmpty)
  | _, o, io => o == io

universe u
/-- the case analysis of the output comparison (same patterns, same order as the driver) -/
def outCases {α : Sort u} (op out iout : Sx)
    (kQuot : String → Sx → String → Sx → α) (kCoeq kWit kFresh kStrict kOther : Sx → Sx → α) : α :=
  match op, out, iout with
  | .l [.s "quotient"], .l [.s a, qm], .l [.s b, qi] | .l [.s "h_quotient"], .l [.s a, qm], .l [.s b, qi] =>
    kQuot a qm b qi
  | .l [.s "coequalizer"], qm, qi => kCoeq qm qi
  | .l [.s "h_delete_nodes_witness", _], wm, wi => kWit wm wi
  | .l [.s "new_node", _], o, io | .l [.s "add_edge_source", _, _], o, io
  | .l [.s "add_edge_target", _, _], o, io | .l [.s "new_operation", _, _, _], o, io => kFresh o io
  | .l [.s "is_strict"], o, io => kStrict o io
  | _, o, io => kOther o io

theorem outCases_rel {α β : Sort u} (R : α → β → Prop) (op out iout : Sx)
    (kQuot : String → Sx → String → Sx → α) (kCoeq kWit kFresh kStrict kOther : Sx → Sx → α)
    (kQuot' : String → Sx → String → Sx → β) (kCoeq' kWit' kFresh' kStrict' kOther' : Sx → Sx → β)
    (h1 : ∀ a qm b qi, R (kQuot a qm b qi) (kQuot' a qm b qi))
    (h2 : ∀ o io, R (kCoeq o io) (kCoeq' o io))
    (h3 : ∀ o io, R (kWit o io) (kWit' o io))
    (h4 : ∀ o io, R (kFresh o io) (kFresh' o io))
    (h5 : ∀ o io, R (kStrict o io) (kStrict' o io))
    (h6 : ∀ o io, R (kOther o io) (kOther' o io)) :
    R (outCases op out iout kQuot kCoeq kWit kFresh kStrict kOther)
      (outCases op out iout kQuot' kCoeq' kWit' kFresh' kStrict' kOther') := by
  unfold outCases
  split <;> first | apply h1 | apply h2 | apply h3 | apply h4 | apply h5 | apply h6

def divergeNote (k : Nat) (stateOk outOk : Bool) : String :=
  s!"history diverges at step {k} from the end: stateOk={stateOk} outOk={outOk}"

/-- the unfolding equation of one step, with the pieces named -/
theorem runHistoryRen_cons (B : Backend) (pas : Bool) (f : LF) (ren : L) (op : Sx) (ops : List Sx)
    (implStep : Sx) (implRest : List Sx) :
    runHistoryRen B pas f ren (op :: ops) (implStep :: implRest) =
      if staleB f op then
        some (true, "h_quotient on a diagram with interface entries: not compared further")
      else if !f.wf then
        some (true, "the state refers to nodes that do not exist: not compared further")
      else
      match editStep B f (unrenOp ren op), implStep with
      | Option.none, _ => Option.none
      | some (.ok (f', out)), .l [iout, istate] =>
        match (dec istate : Option LF) with
        | Option.none => some (false, "undecodable implementation state")
        | some fi =>
          if (okShapeB f'.hypergraph.nodes.length (nextRen f f' ren op out iout) &&
                stateOkB pas (renState (nextRen f f' ren op out iout) f') fi) &&
              outOkB pas f ren (nextRen f f' ren op out iout) op out iout
          then runHistoryRen B pas f' (nextRen f f' ren op out iout) ops implRest
          else some (false, divergeNote ops.length
            (okShapeB f'.hypergraph.nodes.length (nextRen f f' ren op out iout) &&
                stateOkB pas (renState (nextRen f f' ren op out iout) f') fi)
            (outOkB pas f ren (nextRen f f' ren op out iout) op out iout))
      | some (.ok _), .s "panic" => some (false, "implementation rejected a step the model accepts")
      | some (.ok _), _ => some (false, "malformed implementation step")
      | some _, .s "panic" => some (implRest.isEmpty, "")
      | some _, _ => some (false, "model rejects a step the implementation accepts") := by
  rfl

theorem runHistoryRen_nil_nil (B : Backend) (pas : Bool) (f : LF) (ren : L) :
    runHistoryRen B pas f ren [] [] = some (true, "") := rfl

theorem runHistoryRen_nil_cons (B : Backend) (pas : Bool) (f : LF) (ren : L) (a : Sx) (as : List Sx) :
    runHistoryRen B pas f ren [] (a :: as) =
      some (false, "implementation trace is longer than the history") := rfl

theorem runHistoryRen_cons_nil (B : Backend) (pas : Bool) (f : LF) (ren : L) (op : Sx) (ops : List Sx) :
    runHistoryRen B pas f ren (op :: ops) [] =
      some (false, "implementation trace is shorter than the history") := rfl

/-! ### 1. the wire encoding of lax diagrams is injective -/

theorem enc_nat_inj : Function.Injective (enc : Nat → Sx) := fun _ _ h => Sx.n.inj h

theorem enc_list_inj {α : Type} [Enc α] (h : Function.Injective (enc : α → Sx)) :
    Function.Injective (enc : List α → Sx) := fun _ _ hab =>
  List.map_injective_iff.mpr h (Sx.l.inj hab)

theorem enc_L_inj : Function.Injective (enc : L → Sx) := enc_list_inj enc_nat_inj

theorem enc_edge_inj : Function.Injective (enc : LEdge → Sx) := by
  intro a b h
  have h' : Sx.l [enc a.sources, enc a.targets] = Sx.l [enc b.sources, enc b.targets] := h
  simp only [Sx.l.injEq, List.cons.injEq, and_true] at h'
  cases a; cases b
  simp only [LEdge.mk.injEq]
  exact ⟨enc_L_inj h'.1, enc_L_inj h'.2⟩

theorem enc_LH_inj : Function.Injective (enc : LH → Sx) := by
  intro a b h
  have h' : Sx.l [enc a.nodes, enc a.edges, enc a.adjacency, Sx.l [enc a.quotient.1, enc a.quotient.2]] =
      Sx.l [enc b.nodes, enc b.edges, enc b.adjacency, Sx.l [enc b.quotient.1, enc b.quotient.2]] := h
  simp only [Sx.l.injEq, List.cons.injEq, and_true] at h'
  obtain ⟨h1, h2, h3, h4, h5⟩ := h'
  obtain ⟨an, ae, aa, aq1, aq2⟩ := a
  obtain ⟨bn, be, ba, bq1, bq2⟩ := b
  simp only [LHG.mk.injEq, Prod.mk.injEq]
  exact ⟨enc_L_inj h1, enc_L_inj h2, enc_list_inj enc_edge_inj h3, enc_L_inj h4, enc_L_inj h5⟩

theorem enc_LF_inj : Function.Injective (enc : LF → Sx) := by
  intro a b h
  have h' : Sx.l [enc a.sources, enc a.targets, enc a.hypergraph] =
      Sx.l [enc b.sources, enc b.targets, enc b.hypergraph] := h
  simp only [Sx.l.injEq, List.cons.injEq, and_true] at h'
  obtain ⟨h1, h2, h3⟩ := h'
  cases a; cases b
  simp only [LOHG.mk.injEq]
  exact ⟨enc_L_inj h1, enc_L_inj h2, enc_LH_inj h3⟩

theorem enc_LF_beq (a b : LF) : (enc a == enc b) = true ↔ a = b := by
  rw [Sx.beq_eq]
  exact ⟨fun h => enc_LF_inj h, fun h => h ▸ rfl⟩

/-! ### 2. Prop-level readings of the per-step comparators -/

/-- "`op` is the hypergraph-level quotient and the surrounding diagram has interface entries" -/
def Stale (f : LF) (op : Sx) : Prop :=
  op = .l [.s "h_quotient"] ∧ ¬ (f.sources = [] ∧ f.targets = [])

theorem staleB_iff (f : LF) (op : Sx) : staleB f op = true ↔ Stale f op := by
  unfold staleB Stale
  split
  · by_cases h : f.sources = [] <;> simp [h]
  · rename_i h
    simp only [Bool.false_eq_true, false_iff, not_and]
    intro h'; exact absurd h' h

/-- the pending unifications of `a` and `b` agree as SETS of unordered non-trivial pairs
    (the right-hand side of `LaxDenoteSet.samePairsSet_iff_rel`) -/
def SamePendingSet (a b : LF) : Prop :=
  a.hypergraph.quotient.1.length = a.hypergraph.quotient.2.length ∧
  b.hypergraph.quotient.1.length = b.hypergraph.quotient.2.length ∧
  ∀ x y, x ≠ y →
    ((C09.Pairs a.hypergraph x y ∨ C09.Pairs a.hypergraph y x) ↔
     (C09.Pairs b.hypergraph x y ∨ C09.Pairs b.hypergraph y x))

theorem samePairsSet_iff' (a b : LF) : samePairsSet a b = true ↔ SamePendingSet a b :=
  LaxDenoteSet.samePairsSet_iff_rel a b

/-- agreement of the renumbered model state `rs` with the decoded implementation state `fi`:
    EQUAL; or (C09's histories only) equal in everything but the pending unifications, which agree
    as a set of unordered non-trivial pairs, and `fi` is well-formed unless `rs` is not -/
def StateAgree (pairsAsSet : Bool) (rs fi : LF) : Prop :=
  rs = fi ∨
  (pairsAsSet = true ∧ rs.sources = fi.sources ∧ rs.targets = fi.targets ∧
    rs.hypergraph.nodes = fi.hypergraph.nodes ∧ rs.hypergraph.edges = fi.hypergraph.edges ∧
    rs.hypergraph.adjacency = fi.hypergraph.adjacency ∧ SamePendingSet rs fi ∧
    (fi.wf = true ∨ rs.wf = false))

theorem stateOkB_iff (pas : Bool) (rs fi : LF) : stateOkB pas rs fi = true ↔ StateAgree pas rs fi := by
  unfold stateOkB StateAgree
  simp only [Bool.or_eq_true, Bool.and_eq_true, beq_iff_eq, samePairsSet_iff',
    Bool.not_eq_true', and_assoc, enc_LF_inj.eq_iff]

/-- a shape test of the new renumbering -/
theorem okShapeB_iff (n' : Nat) (ren' : L) :
    okShapeB n' ren' = true ↔ ren'.length = n' ∧ ren'.Perm (List.range ren'.length) := by
  unfold okShapeB
  simp only [Bool.and_eq_true, beq_iff_eq, isPermOfRange_iff]

/-- the model's map `tm` and the implementation's map `ti` have the same kernel once the
    implementation's is read through the renumbering `ren` of the domain -/
def KernelAgree (ren tm ti : L) : Prop :=
  ∀ i j, i < tm.length → j < tm.length →
    (tm[i]? = tm[j]? ↔ ti.getD (ren.getD i i) 0 = ti.getD (ren.getD j j) 0)

theorem sameKernel_ren_iff (ren tm ti : L) :
    sameKernel tm ((List.range tm.length).map (fun i => ti.getD (ren.getD i i) 0)) = true ↔
      KernelAgree ren tm ti := by
  rw [sameKernel_iff]
  unfold KernelAgree
  constructor
  · rintro ⟨_, h⟩ i j hi hj
    have := h i j hi hj
    simpa [hi, hj] using this
  · intro h
    refine ⟨by simp, fun i j hi hj => ?_⟩
    have := h i j hi hj
    simpa [hi, hj] using this

theorem match2_iff {α β : Type} (x : Option α) (y : Option β) (k : α → β → Bool) :
    (match x, y with | some a, some b => k a b | _, _ => false) = true ↔
      ∃ a b, x = some a ∧ y = some b ∧ k a b = true := by
  cases x <;> cases y <;> simp

/-- the model's map `qm` and the implementation's map `qi` agree: same codomain size, same domain
    size, the implementation's map lands in its codomain and is onto it, and they have the same
    kernel (up to `ren` on the domain) -/
def MapAgree (ren : L) (qm qi : FinFun) : Prop :=
  qm.target = qi.target ∧ qm.table.length = qi.table.length ∧
  ((∀ x ∈ qi.table, x < qi.target) ∧ ∀ c, c < qi.target → c ∈ qi.table) ∧
  KernelAgree ren qm.table qi.table

/-- quotient steps: same verdict; on `Ok` the two maps agree (`MapAgree`) -/
def QuotOutAgree (ren : L) (a : String) (qm : Sx) (b : String) (qi : Sx) : Prop :=
  a = b ∧ (a = "Err" ∨ ∃ qm' qi' : FinFun, dec qm = some qm' ∧ dec qi = some qi' ∧
    MapAgree ren qm' qi')

/-- `coequalizer`: the two maps agree (`MapAgree`) -/
def CoeqOutAgree (ren : L) (qm qi : Sx) : Prop :=
  ∃ qm' qi' : FinFun, dec qm = some qm' ∧ dec qi = some qi' ∧ MapAgree ren qm' qi'

/-- deletion witness: entry `i` of the model's witness, pushed through the NEW renumbering, is entry
    `ren i` of the implementation's -/
def WitOutAgree (ren ren' : L) (wm wi : Sx) : Prop :=
  ∃ wm' wi' : List (Option Nat), dec wm = some wm' ∧ dec wi = some wi' ∧
    wm'.length = wi'.length ∧
    ∀ i, i < wm'.length →
      (wm'.getD i none).map (fun i => ren'.getD i i) = wi'.getD (ren.getD i i) none

/-- fresh ids: node ids through the new renumbering, the edge id of `new_operation` unchanged -/
def FreshOutAgree (ren' : L) (op o io : Sx) : Prop :=
  match op with
  | .l [.s "new_operation", _, _, _] =>
    (match o, io with
     | .l [e, a, b], .l [e', a', b'] =>
       e = e' ∧ mapIdsSx (fun i => ren'.getD i i) a = a' ∧ mapIdsSx (fun i => ren'.getD i i) b = b'
     | _, _ => False)
  | _ => mapIdsSx (fun i => ren'.getD i i) o = io

/-- `is_strict`: equal answers; or (C09's histories) some pair is pending and all are self pairs -/
def StrictOutAgree (pairsAsSet : Bool) (f : LF) (o io : Sx) : Prop :=
  o = io ∨ (pairsAsSet = true ∧ pairsNorm f ≠ [] ∧ ∀ p ∈ pairsNorm f, p.1 = p.2)

/-- agreement of the outputs of one step -/
def OutAgree (pairsAsSet : Bool) (f : LF) (ren ren' : L) (op out iout : Sx) : Prop :=
  outCases op out iout (QuotOutAgree ren) (CoeqOutAgree ren) (WitOutAgree ren ren')
    (FreshOutAgree ren' op) (StrictOutAgree pairsAsSet f) (fun o io => o = io)

theorem pairsSet_isEmpty_iff (f : LF) :
    (pairsSet f).isEmpty = true ↔ ∀ p ∈ pairsNorm f, p.1 = p.2 := by
  rw [List.isEmpty_iff, List.eq_nil_iff_forall_not_mem]
  constructor
  · intro h p hp
    by_contra hne
    exact h p ((LaxDenoteSet.mem_pairsSet f p).2 ⟨hp, hne⟩)
  · intro h p hp
    obtain ⟨h1, h2⟩ := (LaxDenoteSet.mem_pairsSet f p).1 hp
    exact h2 (h p h1)

theorem outOkB_eq_cases (pas : Bool) (f : LF) (ren ren' : L) (op out iout : Sx) :
    outOkB pas f ren ren' op out iout =
      outCases op out iout
        (fun a qm b qi => a == b && (a == "Err" ||
          match (dec qm : Option FinFun), (dec qi : Option FinFun) with
          | some qm, some qi => qm.target == qi.target && qm.table.length == qi.table.length &&
              denseOnto qi.table qi.target &&
              sameKernel qm.table ((List.range qm.table.length).map (fun i => qi.table.getD (ren.getD i i) 0))
          | _, _ => false))
        (fun qm qi =>
          match (dec qm : Option FinFun), (dec qi : Option FinFun) with
          | some qm, some qi => qm.target == qi.target && qm.table.length == qi.table.length &&
              denseOnto qi.table qi.target &&
              sameKernel qm.table ((List.range qm.table.length).map (fun i => qi.table.getD (ren.getD i i) 0))
          | _, _ => false)
        (fun wm wi =>
          match (dec wm : Option (List (Option Nat))), (dec wi : Option (List (Option Nat))) with
          | some wm, some wi => wm.length == wi.length &&
              (List.range wm.length).all (fun i =>
                (wm.getD i none).map (fun i => ren'.getD i i) == wi.getD (ren.getD i i) none)
          | _, _ => false)
        (fun o io =>
          match op with
          | .l [.s "new_operation", _, _, _] =>
            (match o, io with
             | .l [e, a, b], .l [e', a', b'] =>
               e == e' && mapIdsSx (fun i => ren'.getD i i) a == a' &&
                 mapIdsSx (fun i => ren'.getD i i) b == b'
             | _, _ => false)
          | _ => mapIdsSx (fun i => ren'.getD i i) o == io)
        (fun o io => o == io || (pas && !(pairsNorm f).isEmpty && (pairsSet f).isEmpty))
        (fun o io => o == io) := by
  rfl

theorem outOkB_iff (pas : Bool) (f : LF) (ren ren' : L) (op out iout : Sx) :
    outOkB pas f ren ren' op out iout = true ↔ OutAgree pas f ren ren' op out iout := by
  rw [outOkB_eq_cases]
  unfold OutAgree
  apply outCases_rel (fun (b : Bool) (p : Prop) => b = true ↔ p)
  · intro a qm b qi
    unfold QuotOutAgree MapAgree
    cases (dec qm : Option FinFun) <;> cases (dec qi : Option FinFun) <;>
      (try simp only [Bool.and_eq_true, Bool.or_eq_true, beq_iff_eq, sameKernel_ren_iff,
        denseOnto_iff]) <;> simp [and_assoc]
  · intro qm qi
    unfold CoeqOutAgree MapAgree
    cases (dec qm : Option FinFun) <;> cases (dec qi : Option FinFun) <;>
      (try simp only [Bool.and_eq_true, beq_iff_eq, sameKernel_ren_iff, denseOnto_iff]) <;>
      simp [and_assoc]
  · intro wm wi
    unfold WitOutAgree
    cases (dec wm : Option (List (Option Nat))) <;> cases (dec wi : Option (List (Option Nat))) <;>
      simp
  · intro o io
    unfold FreshOutAgree
    split
    · split
      · simp only [Bool.and_eq_true, beq_iff_eq, and_assoc]
      · simp
    · simp only [beq_iff_eq]
  · intro o io
    unfold StrictOutAgree
    simp only [Bool.or_eq_true, Bool.and_eq_true, beq_iff_eq, pairsSet_isEmpty_iff,
      Bool.not_eq_true', and_assoc, ne_eq, ← List.isEmpty_iff, Bool.not_eq_true]
  · intro o io
    simp only [beq_iff_eq]

/-! ### 3. the specification of the history comparison -/

/-- "the implementation trace `impl` agrees with the model run along `ops` from state `f`, under
    the renumbering `ren` of the node ids (model id ↦ implementation id)".  One constructor per way
    `runHistoryRen` answers `some (true, _)`. -/
inductive HistAgree (B : Backend) (pairsAsSet : Bool) : LF → L → List Sx → List Sx → Prop
  /-- both the history and the trace are exhausted -/
  | done (f : LF) (ren : L) : HistAgree B pairsAsSet f ren [] []
  /-- `h_quotient` on a state with interface entries: the interfaces are stale on both sides from
      here on; nothing is compared further (the trace must still have an entry for this step) -/
  | stale (f : LF) (ren : L) (op : Sx) (ops : List Sx) (implStep : Sx) (implRest : List Sx)
      (h : Stale f op) : HistAgree B pairsAsSet f ren (op :: ops) (implStep :: implRest)
  /-- the state records node ids that do not exist: nothing is compared further -/
  | illformed (f : LF) (ren : L) (op : Sx) (ops : List Sx) (implStep : Sx) (implRest : List Sx)
      (h : f.wf = false) : HistAgree B pairsAsSet f ren (op :: ops) (implStep :: implRest)
  /-- the model rejects the (translated) step, the implementation panicked, and its trace ends -/
  | bothReject (f : LF) (ren : L) (op : Sx) (ops : List Sx) (r : Res (LF × Sx))
      (hm : editStep B f (unrenOp ren op) = some r) (hr : ∀ x, r ≠ .ok x) :
      HistAgree B pairsAsSet f ren (op :: ops) [.s "panic"]
  /-- both accept the step; the new renumbering `ren'` (computed, not searched) is a permutation of
      the node ids of the new state; states and outputs agree; the rest of the history agrees -/
  | step (f : LF) (ren : L) (op : Sx) (ops : List Sx) (iout istate : Sx) (implRest : List Sx)
      (f' : LF) (out : Sx) (fi : LF) (ren' : L)
      (hm : editStep B f (unrenOp ren op) = some (.ok (f', out)))
      (hd : (dec istate : Option LF) = some fi)
      (hren : ren' = nextRen f f' ren op out iout)
      (hlen : ren'.length = f'.hypergraph.nodes.length)
      (hperm : ren'.Perm (List.range ren'.length))
      (hstate : StateAgree pairsAsSet (renState ren' f') fi)
      (hout : OutAgree pairsAsSet f ren ren' op out iout)
      (hrest : HistAgree B pairsAsSet f' ren' ops implRest) :
      HistAgree B pairsAsSet f ren (op :: ops) (.l [iout, istate] :: implRest)

theorem stepCond_iff (pas : Bool) (f f' fi : LF) (ren ren' : L) (op out iout : Sx) :
    ((okShapeB f'.hypergraph.nodes.length ren' && stateOkB pas (renState ren' f') fi) &&
        outOkB pas f ren ren' op out iout) = true ↔
      (ren'.length = f'.hypergraph.nodes.length ∧ ren'.Perm (List.range ren'.length) ∧
        StateAgree pas (renState ren' f') fi ∧ OutAgree pas f ren ren' op out iout) := by
  simp only [Bool.and_eq_true, okShapeB_iff, stateOkB_iff, outOkB_iff, and_assoc]

/-- SOUNDNESS: an accepted trace agrees in the specified sense -/
theorem runHistoryRen_sound (B : Backend) (pas : Bool) :
    ∀ (ops impl : List Sx) (f : LF) (ren : L) (note : String),
      runHistoryRen B pas f ren ops impl = some (true, note) → HistAgree B pas f ren ops impl := by
  intro ops
  induction ops with
  | nil =>
    intro impl f ren note h
    cases impl with
    | nil => exact .done f ren
    | cons a as => rw [runHistoryRen_nil_cons] at h; exact absurd h (by simp)
  | cons op ops ih =>
    intro impl f ren note h
    cases impl with
    | nil => rw [runHistoryRen_cons_nil] at h; exact absurd h (by simp)
    | cons implStep implRest =>
      rw [runHistoryRen_cons] at h
      by_cases hst : staleB f op = true
      · exact .stale f ren op ops implStep implRest ((staleB_iff f op).1 hst)
      · rw [if_neg hst] at h
        by_cases hwf : f.wf = true
        · have hnw : ¬ ((!f.wf) = true) := by simp [hwf]
          rw [if_neg hnw] at h
          split at h
          · exact absurd h (by simp)
          · rename_i f' out iout istate hm
            split at h
            · exact absurd h (by simp)
            · rename_i fi hd
              split at h
              · rename_i hc
                obtain ⟨h1, h2, h3, h4⟩ := (stepCond_iff pas f f' fi ren _ op out iout).1 hc
                exact .step f ren op ops iout istate implRest f' out fi _ hm hd rfl h1 h2 h3 h4
                  (ih implRest f' _ note h)
              · exact absurd h (by simp)
          · exact absurd h (by simp)
          · exact absurd h (by simp)
          · rename_i r hno hm
            simp only [Option.some.injEq, Prod.mk.injEq, List.isEmpty_iff] at h
            rw [h.1]
            exact .bothReject f ren op ops r hm (fun x hx => hno x hx)
          · exact absurd h (by simp)
        · have hwf' : f.wf = false := by simpa using hwf
          exact .illformed f ren op ops implStep implRest hwf'

/-- COMPLETENESS: every agreeing trace is accepted (no false alarm) -/
theorem runHistoryRen_complete (B : Backend) (pas : Bool) (f : LF) (ren : L) (ops impl : List Sx)
    (h : HistAgree B pas f ren ops impl) :
    ∃ note, runHistoryRen B pas f ren ops impl = some (true, note) := by
  induction h with
  | done f ren => exact ⟨"", rfl⟩
  | stale f ren op ops implStep implRest h =>
    rw [runHistoryRen_cons, if_pos ((staleB_iff f op).2 h)]
    exact ⟨_, rfl⟩
  | illformed f ren op ops implStep implRest h =>
    rw [runHistoryRen_cons]
    by_cases hst : staleB f op = true
    · rw [if_pos hst]; exact ⟨_, rfl⟩
    · rw [if_neg hst, if_pos (by simp [h])]; exact ⟨_, rfl⟩
  | bothReject f ren op ops r hm hr =>
    rw [runHistoryRen_cons]
    by_cases hst : staleB f op = true
    · rw [if_pos hst]; exact ⟨_, rfl⟩
    · rw [if_neg hst]
      by_cases hwf : f.wf = true
      · rw [if_neg (by simp [hwf]), hm]
        cases r with
        | ok x => exact absurd rfl (hr x)
        | none => exact ⟨_, rfl⟩
        | panic s => exact ⟨_, rfl⟩
      · rw [if_pos (by simpa using hwf)]; exact ⟨_, rfl⟩
  | step f ren op ops iout istate implRest f' out fi ren' hm hd hren hlen hperm hstate hout _ ih =>
    rw [runHistoryRen_cons]
    by_cases hst : staleB f op = true
    · rw [if_pos hst]; exact ⟨_, rfl⟩
    · rw [if_neg hst]
      by_cases hwf : f.wf = true
      · rw [if_neg (by simp [hwf]), hm]
        simp only [hd]
        subst hren
        rw [if_pos ((stepCond_iff pas f f' fi ren _ op out iout).2 ⟨hlen, hperm, hstate, hout⟩)]
        exact ih
      · rw [if_pos (by simpa using hwf)]; exact ⟨_, rfl⟩

/-- REFLECTION of `runHistoryRen`: it answers `true` EXACTLY on the traces that agree with the model
    run in the sense of `HistAgree` -/
theorem runHistoryRen_true_iff (B : Backend) (pairsAsSet : Bool) (f : LF) (ren : L)
    (ops impl : List Sx) :
    (∃ note, runHistoryRen B pairsAsSet f ren ops impl = some (true, note)) ↔
      HistAgree B pairsAsSet f ren ops impl :=
  ⟨fun ⟨note, h⟩ => runHistoryRen_sound B pairsAsSet ops impl f ren note h,
   runHistoryRen_complete B pairsAsSet f ren ops impl⟩

/-! ### 4. the identity renumbering -/

theorem getD_range_self (n i : Nat) : (List.range n).getD i i = i := by
  by_cases h : i < n <;> simp [List.getD_eq_getElem?_getD, h]

theorem idxOf?_range_getD (n j : Nat) : ((List.range n).idxOf? j).getD j = j := by
  by_cases h : j < n
  · have := idxOf?_getElem_of_nodup (List.nodup_range (n := n)) j (by simpa using h)
    simp only [List.getElem_range] at this
    rw [this]; rfl
  · have : (List.range n).idxOf? j = none := List.idxOf?_eq_none_iff.mpr (by simpa using h)
    rw [this]; rfl

theorem filterMap_range_getElem? (l : List Nat) :
    (List.range l.length).filterMap (l[·]?) = l := by
  obtain ⟨hl, hget⟩ := filterMap_range_of_isSome (fun j => l[j]?) l.length
    (fun j hj => by simp [hj])
  apply List.ext_getElem? 
  intro j
  by_cases hj : j < l.length
  · exact hget j hj
  · rw [List.getElem?_eq_none (by omega), List.getElem?_eq_none (by omega)]

theorem map_getD_range_self (n : Nat) (l : List Nat) :
    l.map (fun i => (List.range n).getD i i) = l := by
  rw [List.map_congr_left (g := id) (fun a _ => getD_range_self n a), List.map_id]

/-- pushing a state through the identity renumbering changes nothing (no hypothesis needed, and
    the length of the identity list is in fact irrelevant for everything but the node labels) -/
theorem renState_id (f : LF) : renState (List.range f.hypergraph.nodes.length) f = f := by
  obtain ⟨s, t, ⟨nodes, edges, adj, q1, q2⟩⟩ := f
  simp only [renState, map_getD_range_self, idxOf?_range_getD, List.map_id', filterMap_range_getElem?]

/-! ### 5. `quotientIdempotentOnImpl` -/

/-- the implementation's own states along its trace: the start, then the decoded state of every entry -/
def implStates (start : LF) (implTrace : List Sx) : List (Option LF) :=
  some start :: implTrace.map (fun st =>
    match st with | .l [_, s] => (dec s : Option LF) | _ => Option.none)

/-- the steps of a history as seen by the implementation:
    `((op, trace entry), (state before, state after))` -/
def implSteps (start : LF) (ops implTrace : List Sx) : List ((Sx × Sx) × (Option LF × Option LF)) :=
  (ops.zip implTrace).zip ((implStates start implTrace).zip (implStates start implTrace).tail)

/-- Prop-level reading of `quotientIdempotentOnImpl`: for every step whose op is `quotient`, whose
    output is `Ok q` and whose before/after states decode, if the before-state has no pending pairs
    then `q` is the identity table on the node count and the state is unchanged -/
theorem quotientIdempotentOnImpl_iff (start : LF) (ops implTrace : List Sx) :
    quotientIdempotentOnImpl start ops implTrace = true ↔
      ∀ x ∈ implSteps start ops implTrace, ∀ (q ist : Sx) (before after : LF),
        x.1.1 = .l [.s "quotient"] → x.1.2 = .l [.l [.s "Ok", q], ist] →
        x.2.1 = some before → x.2.2 = some after →
        before.hypergraph.quotient.1 = [] → before.hypergraph.quotient.2 = [] →
        ∃ q' : FinFun, dec q = some q' ∧ q'.table = List.range before.hypergraph.nodes.length ∧
          before = after := by
  unfold quotientIdempotentOnImpl
  simp only [List.all_eq_true]
  apply forall_congr'
  intro x
  apply imp_congr_right
  intro hx
  clear hx
  obtain ⟨⟨op, st⟩, ⟨b, a⟩⟩ := x
  simp only
  split
  · rename_i q ist before after
    constructor
    · intro h q' ist' before' after' h1 h2 h3 h4 h5 h6
      simp only [Sx.l.injEq, List.cons.injEq, and_true, true_and] at h2
      obtain ⟨rfl, rfl⟩ := h2
      cases h3; cases h4
      rw [if_pos (by simp [h5, h6])] at h
      cases hq : (dec q : Option FinFun) with
      | none => rw [hq] at h; exact absurd h (by simp)
      | some qq =>
        rw [hq] at h
        simp only [Bool.and_eq_true, beq_iff_eq] at h
        exact ⟨qq, rfl, h.1, enc_LF_inj h.2⟩
    · intro h
      split
      · rename_i hc
        simp only [Bool.and_eq_true, List.isEmpty_iff] at hc
        obtain ⟨qq, hq, ht, he⟩ := h q ist before after rfl rfl rfl rfl hc.1 hc.2
        rw [hq]
        simp [ht, he]
      · rfl
  · rename_i hno
    simp only [true_iff]
    intro q ist before after h1 h2 h3 h4
    exact (hno q ist before after h1 h2 h3 h4).elim

/-! ### 6. no false alarm on exact agreement -/

mutual
theorem mapIdsSx_id (g : Nat → Nat) (hg : ∀ j, g j = j) : ∀ x : Sx, mapIdsSx g x = x
  | .n v => by rw [mapIdsSx, hg]
  | .s _ => by simp [mapIdsSx]
  | .l xs => by rw [mapIdsSx, mapIdsSx_list_id g hg xs]
theorem mapIdsSx_list_id (g : Nat → Nat) (hg : ∀ j, g j = j) :
    ∀ xs : List Sx, xs.map (mapIdsSx g) = xs
  | [] => rfl
  | x :: xs => by rw [List.map_cons, mapIdsSx_id g hg x, mapIdsSx_list_id g hg xs]
end

theorem unrenOp_id (n : Nat) (op : Sx) : unrenOp (List.range n) op = op := by
  unfold unrenOp
  split <;> simp only [idxOf?_range_getD, mapIdsSx_id _ (fun _ => rfl)]

/-- an op that neither quotients nor deletes nodes -/
def Plain (op : Sx) : Prop :=
  op ≠ .l [.s "quotient"] ∧ op ≠ .l [.s "h_quotient"] ∧
  (∀ ids, op ≠ .l [.s "delete_nodes", ids]) ∧ (∀ ids, op ≠ .l [.s "h_delete_nodes_witness", ids])

theorem newNodes_length {O A : Type} (ts : List O) : ∀ (h : LHG O A),
    h.nodes.length ≤ (h.newNodes ts).1.nodes.length := by
  induction ts with
  | nil => intro h; exact Nat.le_refl _
  | cons t ts ih =>
    intro h
    have := ih (h.newNode t).1
    simp only [LHG.newNodes]
    simp only [LHG.newNode, List.length_append, List.length_cons, List.length_nil] at this ⊢
    omega

theorem res_bind_eq_ok {α β : Type} (x : Res α) (k : α → Res β) (b : β) :
    x.bind k = .ok b ↔ ∃ a, x = .ok a ∧ k a = .ok b := by
  cases x <;> simp [Res.bind]

theorem withNodes_ok_length (h h' : LHG Nat Nat) (g : List Nat → List Nat)
    (hw : h.withNodes g = .ok h') : h'.nodes.length = h.nodes.length := by
  unfold LHG.withNodes at hw
  by_cases hc : (g h.nodes).length = h.nodes.length
  · simp only [hc, ne_eq, not_true_eq_false, if_false, Res.ok.injEq] at hw
    subst hw; exact hc
  · simp [hc] at hw

theorem withEdges_ok_nodes (h h' : LHG Nat Nat) (g : List Nat → List Nat)
    (hw : h.withEdges g = .ok h') : h'.nodes = h.nodes := by
  unfold LHG.withEdges at hw
  by_cases hc : (g h.edges).length = h.edges.length
  · simp only [hc, ne_eq, not_true_eq_false, if_false, Res.ok.injEq] at hw
    subst hw; rfl
  · simp [hc] at hw

theorem editStep_nodes_mono (B : Backend) (f f' : LF) (op out : Sx) (hp : Plain op)
    (hm : editStep B f op = some (.ok (f', out))) :
    f.hypergraph.nodes.length ≤ f'.hypergraph.nodes.length := by
  unfold editStep at hm
  split at hm
  all_goals (try (simp only [Option.bind_eq_bind, Option.bind_eq_some_iff, Option.pure_def,
    Option.some.injEq, Res.ok.injEq, Prod.mk.injEq, res_bind_eq_ok, LHG.newNode, LHG.newEdge,
    LHG.unify, LHG.mapNodes, LHG.mapEdges, Prod.exists] at hm))
  case h_1 => obtain ⟨rfl, _⟩ := hm; simp
  case h_2 => obtain ⟨_, _, _, _, rfl, _⟩ := hm; simp
  case h_3 =>
    obtain ⟨a, _, b, _, rfl, _⟩ := hm
    simp only [LHG.newOperation, LHG.newEdge]
    exact Nat.le_trans (newNodes_length a f.hypergraph) (newNodes_length b _)
  case h_4 =>
    obtain ⟨a, b, h1, rfl, _⟩ := hm
    unfold LHG.addEdgeSource at h1
    simp only [LHG.newNode] at h1
    split at h1
    · exact absurd h1 (by simp)
    · simp only [Res.ok.injEq, Prod.mk.injEq] at h1
      obtain ⟨rfl, _⟩ := h1
      simp
  case h_5 =>
    obtain ⟨a, b, h1, rfl, _⟩ := hm
    unfold LHG.addEdgeTarget at h1
    simp only [LHG.newNode] at h1
    split at h1
    · exact absurd h1 (by simp)
    · simp only [Res.ok.injEq, Prod.mk.injEq] at h1
      obtain ⟨rfl, _⟩ := h1
      simp
  case h_6 => obtain ⟨rfl, _⟩ := hm; simp
  case h_7 => exact absurd rfl (hp.2.2.1 _)
  case h_8 => exact absurd rfl (hp.2.2.2 _)
  case h_9 =>
    obtain ⟨a, _, b, h1, rfl, _⟩ := hm
    unfold LHG.deleteEdges at h1
    split_ifs at h1 <;> simp only [Res.ok.injEq] at h1 <;> subst h1 <;> simp
  case h_10 => obtain ⟨rfl, _⟩ := hm; simp
  case h_11 => obtain ⟨rfl, _⟩ := hm; simp
  case h_12 =>
    split at hm
    · rename_i h' hw
      simp only [Res.ok.injEq, Prod.mk.injEq] at hm
      obtain ⟨rfl, _⟩ := hm
      exact Nat.le_of_eq (withNodes_ok_length _ _ _ hw).symm
    · simp only [Res.ok.injEq, Prod.mk.injEq] at hm
      obtain ⟨rfl, _⟩ := hm
      exact Nat.le_refl _
    · exact absurd hm (by simp)
  case h_13 =>
    split at hm
    · rename_i h' hw
      simp only [Res.ok.injEq, Prod.mk.injEq] at hm
      obtain ⟨rfl, _⟩ := hm
      exact Nat.le_of_eq (congrArg List.length (withEdges_ok_nodes _ _ _ hw)).symm
    · simp only [Res.ok.injEq, Prod.mk.injEq] at hm
      obtain ⟨rfl, _⟩ := hm
      exact Nat.le_refl _
    · exact absurd hm (by simp)
  case h_14 => obtain ⟨_, _, rfl, _⟩ := hm; simp
  case h_15 => obtain ⟨_, _, rfl, _⟩ := hm; simp
  case h_16 => obtain ⟨rfl, _⟩ := hm; simp
  case h_17 => exact absurd rfl hp.1
  case h_18 => exact absurd rfl hp.2.1
  case h_19 => obtain ⟨_, _, rfl, _⟩ := hm; simp
  case h_20 => exact absurd hm (by simp)

/-! #### decoding what was encoded -/

theorem mapM_dec_enc {α : Type} [Enc α] [Dec α] (h : ∀ a : α, (dec (enc a) : Option α) = some a) :
    ∀ l : List α, (l.map enc).mapM (dec (α := α)) = some l
  | [] => rfl
  | a :: l => by
    rw [List.map_cons, List.mapM_cons, h a, mapM_dec_enc h l]; rfl

theorem dec_enc_list {α : Type} [Enc α] [Dec α] (h : ∀ a : α, (dec (enc a) : Option α) = some a)
    (l : List α) : (dec (enc l) : Option (List α)) = some l := mapM_dec_enc h l

theorem dec_enc_L (l : L) : (dec (enc l) : Option L) = some l := dec_enc_list (fun _ => rfl) l

theorem dec_enc_edge (e : LEdge) : (dec (enc e) : Option LEdge) = some e := by
  show (do let s ← (dec (enc e.sources) : Option L); let t ← (dec (enc e.targets) : Option L)
           pure (⟨s, t⟩ : LEdge)) = some e
  rw [dec_enc_L, dec_enc_L]; rfl

theorem dec_enc_FinFun (q : FinFun) : (dec (enc q) : Option FinFun) = some q := by
  show (do let t ← (dec (enc q.table) : Option L); let k ← (dec (enc q.target) : Option Nat)
           pure (⟨t, k⟩ : FinFun)) = some q
  rw [dec_enc_L]; rfl

theorem dec_enc_LH (h : LH) : (dec (enc h) : Option LH) = some h := by
  show (do let n ← (dec (enc h.nodes) : Option L); let e ← (dec (enc h.edges) : Option L)
           let a ← (dec (enc h.adjacency) : Option (List LEdge))
           let q ← (dec (Sx.l [enc h.quotient.1, enc h.quotient.2]) : Option (L × L))
           pure (⟨n, e, a, q⟩ : LH)) = some h
  have hq : (dec (Sx.l [enc h.quotient.1, enc h.quotient.2]) : Option (L × L)) = some h.quotient := by
    show (do let x ← (dec (enc h.quotient.1) : Option L); let y ← (dec (enc h.quotient.2) : Option L)
             pure (x, y)) = some h.quotient
    rw [dec_enc_L, dec_enc_L]; rfl
  rw [dec_enc_L, dec_enc_L, dec_enc_list dec_enc_edge, hq]; rfl

theorem dec_enc_LF (f : LF) : (dec (enc f) : Option LF) = some f := by
  show (do let s ← (dec (enc f.sources) : Option L); let t ← (dec (enc f.targets) : Option L)
           let h ← (dec (enc f.hypergraph) : Option LH); pure (⟨s, t, h⟩ : LF)) = some f
  rw [dec_enc_L, dec_enc_L, dec_enc_LH]; rfl

/-! #### one plain step under the identity renumbering -/

theorem nextRen_plain (f f' : LF) (ren : L) (op out iout : Sx) (hp : Plain op) :
    nextRen f f' ren op out iout =
      ren ++ List.range' ren.length (f'.hypergraph.nodes.length - ren.length) := by
  unfold nextRen
  split
  · exact absurd rfl hp.1
  · exact absurd rfl hp.2.1
  · exact absurd rfl (hp.2.2.1 _)
  · exact absurd rfl (hp.2.2.2 _)
  · rfl

theorem range_append_range' (n n' : Nat) (h : n ≤ n') :
    List.range n ++ List.range' (List.range n).length (n' - (List.range n).length) = List.range n' := by
  rw [List.length_range]
  apply List.ext_getElem?
  intro i
  by_cases hi : i < n
  · rw [List.getElem?_append_left (by simpa using hi)]
    simp [hi, Nat.lt_of_lt_of_le hi h]
  · rw [List.getElem?_append_right (by simpa using hi)]
    simp only [List.length_range]
    by_cases hi' : i < n'
    · have : i - n < n' - n := by omega
      simp [this, hi']; omega
    · have : ¬ (i - n < n' - n) := by omega
      simp [this, hi']

theorem kernelAgree_refl (n : Nat) (t : L) : KernelAgree (List.range n) t t := by
  intro i j hi hj
  rw [getD_range_self, getD_range_self]
  simp [List.getD_eq_getElem?_getD, List.getElem?_eq_getElem hi, List.getElem?_eq_getElem hj]

theorem outAgree_refl (B : Backend) (hB : B.Lawful) (f f' : LF) (hwf : f.wf = true) (n n' : Nat)
    (op out : Sx) (hp : Plain op) (hm : editStep B f op = some (.ok (f', out))) :
    OutAgree false f (List.range n) (List.range n') op out out := by
  unfold OutAgree outCases
  split
  · exact absurd rfl hp.1
  · exact absurd rfl hp.2.1
  · simp only [editStep, Option.some.injEq, res_bind_eq_ok, Res.ok.injEq, Prod.mk.injEq] at hm
    obtain ⟨q, hq, _, rfl⟩ := hm
    obtain ⟨q', hq', _, hqw, hsurj, _, _⟩ :=
      C09.coequalizer_ok B hB f.hypergraph ((LaxEdit.owf_iff f).1 hwf).hg
    rw [hq] at hq'
    cases hq'
    exact ⟨q, q, dec_enc_FinFun q, dec_enc_FinFun q, rfl, rfl, ⟨hqw, hsurj⟩, kernelAgree_refl n _⟩
  · exact absurd rfl (hp.2.2.2 _)
  · simp only [FreshOutAgree]
    exact mapIdsSx_id _ (getD_range_self n') _
  · simp only [FreshOutAgree]
    exact mapIdsSx_id _ (getD_range_self n') _
  · simp only [FreshOutAgree]
    exact mapIdsSx_id _ (getD_range_self n') _
  · rename_i x st tt
    cases x with
    | n v =>
      simp only [editStep, Option.bind_eq_bind, Option.bind_eq_some_iff, Option.pure_def,
        Option.some.injEq, Res.ok.injEq, Prod.mk.injEq] at hm
      obtain ⟨a, _, b, _, _, rfl⟩ := hm
      simp only [FreshOutAgree]
      exact ⟨trivial, mapIdsSx_id _ (getD_range_self n') _, mapIdsSx_id _ (getD_range_self n') _⟩
    | s _ => simp [editStep] at hm
    | l _ => simp [editStep] at hm
  · exact Or.inl rfl
  · rfl

/-- NO FALSE ALARM on exact agreement, for histories without quotient/deletion steps: the model's
    own trace (whatever it is: it may end in a rejected step, pass through ill-formed states, …) is
    accepted under the identity renumbering.  Stated with an accumulator for the induction. -/
theorem runHistoryRen_refl_acc (B : Backend) (hB : B.Lawful) :
    ∀ (ops : List Sx) (f : LF) (acc tr : List Sx),
    (∀ op ∈ ops, Plain op) → runHistory B f ops acc = some tr →
    ∃ tr', tr = acc.reverse ++ tr' ∧
      HistAgree B false f (List.range f.hypergraph.nodes.length) ops tr' := by
  intro ops
  induction ops with
  | nil =>
    intro f acc tr _ h
    simp only [runHistory, Option.some.injEq] at h
    exact ⟨[], by simp [h], .done _ _⟩
  | cons op ops ih =>
    intro f acc tr hp h
    have hpo : Plain op := hp op List.mem_cons_self
    simp only [runHistory] at h
    split at h
    · exact absurd h (by simp)
    · rename_i f' out hm
      obtain ⟨tr', rfl, hag⟩ := ih f' _ tr (fun o ho => hp o (List.mem_cons_of_mem _ ho)) h
      refine ⟨Sx.l [out, enc f'] :: tr', by simp, ?_⟩
      by_cases hwf : f.wf = true
      swap
      · exact .illformed f _ op ops _ tr' (by simpa using hwf)
      have hmono := editStep_nodes_mono B f f' op out hpo hm
      have hren : List.range f'.hypergraph.nodes.length =
          nextRen f f' (List.range f.hypergraph.nodes.length) op out out := by
        rw [nextRen_plain _ _ _ _ _ _ hpo, range_append_range' _ _ hmono]
      refine .step f _ op ops out (enc f') tr' f' out f' (List.range f'.hypergraph.nodes.length)
        (by rw [unrenOp_id]; exact hm) (dec_enc_LF f') hren (by simp) (by simp) ?_ ?_ hag
      · exact Or.inl (renState_id f')
      · exact outAgree_refl B hB f f' hwf _ _ op out hpo hm
    · rename_i r hno hm
      simp only [Option.some.injEq] at h
      refine ⟨[.s "panic"], by simp [← h], ?_⟩
      exact .bothReject f _ op ops r (by rw [unrenOp_id]; exact hm)
        (fun x hx => hno x.1 x.2 hx)

/-- (3), PARTIAL: no false alarm on exact agreement under the identity renumbering, for histories
    without `quotient` / `h_quotient` / `delete_nodes` / `h_delete_nodes_witness` steps, for every
    LAWFUL backend (lawfulness is used for `coequalizer` steps only: the comparator checks that the
    returned map is onto its codomain, which is the backend's contract) and every start state (no
    hypothesis on well-formedness or on the absence of a final rejected step) -/
theorem runHistoryRen_refl_partial (B : Backend) (hB : B.Lawful) (f : LF) (ops tr : List Sx)
    (hp : ∀ op ∈ ops, Plain op) (h : runHistory B f ops [] = some tr) :
    ∃ note, runHistoryRen B false f (List.range f.hypergraph.nodes.length) ops tr = some (true, note) := by
  obtain ⟨tr', rfl, hag⟩ := runHistoryRen_refl_acc B hB ops f [] tr hp h
  exact runHistoryRen_complete B false f _ ops _ hag

/-- (3), FULL statement, NOT PROVED here: the same for arbitrary histories and lawful backends.
    Missing: for a `quotient`/`h_quotient` step with verdict `Ok`, `MapAgree (range n) q q` for the
    model's own map `q`, i.e. that `q` lands in and is onto its codomain — from
    `C09.coequalizer_ok` (hence `B.Lawful`, and `f.wf`, available thanks to the ill-formed early exit)
    after extracting `LHG.coequalizer B h = .ok q` from `LHG.quotientH` / `LOHG.quotient`; (that
    `nextRen` computed from two IDENTICAL maps is `range n'` needs nothing: `idxOf? k = some i` gives
    `q.table[i] = k`); for a deletion step, that the survivors' ranks computed through `mergeSort`
    are `0..n'-1` in order (the kept ids are already sorted) and the witness clause of `outOk`. -/
def runHistoryRen_refl_statement : Prop :=
  ∀ (B : Backend), B.Lawful → ∀ (f : LF) (ops tr : List Sx), runHistory B f ops [] = some tr →
    ∃ note, runHistoryRen B false f (List.range f.hypergraph.nodes.length) ops tr = some (true, note)

/-! ### 7. concrete instances -/

/-- three nodes, one hyperedge, interfaces -/
def exStart : LF := ⟨[0], [2], ⟨[10, 10, 11], [7], [⟨[0, 1], [2]⟩], ([], [])⟩⟩

def exOps : List Sx :=
  [.l [.s "unify", .n 0, .n 1], .l [.s "is_strict"], .l [.s "quotient"],
   .l [.s "unify", .n 1, .n 0], .l [.s "map_nodes", .n 1]]

/-- an implementation trace whose quotient step numbers the two classes the OTHER way round
    (`{0,1} ↦ 1`, `{2} ↦ 0`; the Vec backend gives `{0,1} ↦ 0`, `{2} ↦ 1`), and whose later steps are
    expressed in that numbering -/
def exImpl : List Sx :=
  [ .l [.l [], enc (⟨[0], [2], ⟨[10, 10, 11], [7], [⟨[0, 1], [2]⟩], ([0], [1])⟩⟩ : LF)],
    .l [.s "false", enc (⟨[0], [2], ⟨[10, 10, 11], [7], [⟨[0, 1], [2]⟩], ([0], [1])⟩⟩ : LF)],
    .l [.l [.s "Ok", enc (⟨[1, 1, 0], 2⟩ : FinFun)],
        enc (⟨[1], [0], ⟨[11, 10], [7], [⟨[1, 1], [0]⟩], ([], [])⟩⟩ : LF)],
    .l [.l [], enc (⟨[1], [0], ⟨[11, 10], [7], [⟨[1, 1], [0]⟩], ([1], [0])⟩⟩ : LF)],
    .l [.l [], enc (⟨[1], [0], ⟨[12, 11], [7], [⟨[1, 1], [0]⟩], ([1], [0])⟩⟩ : LF)] ]

/-- the same with a wrong node label in the last state -/
def exImplBad : List Sx :=
  exImpl.take 4 ++
    [.l [.l [], enc (⟨[1], [0], ⟨[12, 12], [7], [⟨[1, 1], [0]⟩], ([1], [0])⟩⟩ : LF)]]

/-- (a) a non-trivial accepted history: the renumbering `[1, 0]` is determined at the quotient step -/
example : (runHistoryRen vecBackend false exStart [0, 1, 2] exOps exImpl).map Prod.fst = some true := by
  decide +kernel

/-- … hence `HistAgree` holds of it (its hypotheses are satisfiable non-trivially) -/
example : HistAgree vecBackend false exStart [0, 1, 2] exOps exImpl := by
  apply (runHistoryRen_true_iff _ _ _ _ _ _).1
  have h : (runHistoryRen vecBackend false exStart [0, 1, 2] exOps exImpl).map Prod.fst = some true := by
    decide +kernel
  cases hr : runHistoryRen vecBackend false exStart [0, 1, 2] exOps exImpl with
  | none => rw [hr] at h; exact absurd h (by simp)
  | some r =>
    obtain ⟨b, note⟩ := r
    rw [hr] at h
    simp only [Option.map_some, Option.some.injEq] at h
    exact ⟨note, by rw [← h]⟩

/-- (b) a trace whose last state differs is rejected -/
example : (runHistoryRen vecBackend false exStart [0, 1, 2] exOps exImplBad).map Prod.fst = some false := by
  decide +kernel

/-- a trace that is too short is rejected -/
example : (runHistoryRen vecBackend false exStart [0, 1, 2] exOps (exImpl.take 4)).map Prod.fst = some false := by
  decide +kernel

/-- hypotheses of `runHistoryRen_refl_partial` on a non-trivial instance -/
example : vecBackend.Lawful ∧
    (∀ op ∈ [Sx.l [.s "unify", .n 0, .n 1], .l [.s "is_strict"], .l [.s "map_nodes", .n 1]], Plain op) ∧
    (runHistory vecBackend exStart [.l [.s "unify", .n 0, .n 1], .l [.s "is_strict"], .l [.s "map_nodes", .n 1]] []).isSome = true := by
  refine ⟨vecBackend_lawful, ?_, by decide +kernel⟩
  intro op hop
  simp only [List.mem_cons, List.not_mem_nil, or_false] at hop
  rcases hop with rfl | rfl | rfl <;> simp [Plain]

/-- `quotientIdempotentOnImpl` on the accepted trace (the only quotient step has a pending pair) -/
example : quotientIdempotentOnImpl exStart exOps exImpl = true := by decide +kernel

/-- … and a violation: a quotient of a diagram without pending pairs that returns a non-identity map -/
example : quotientIdempotentOnImpl ⟨[], [], ⟨[10, 11], [], [], ([], [])⟩⟩ [.l [.s "quotient"]]
    [.l [.l [.s "Ok", enc (⟨[1, 0], 2⟩ : FinFun)],
         enc (⟨[], [], ⟨[10, 11], [], [], ([], [])⟩⟩ : LF)]] = false := by decide +kernel

/-- `renState` under a non-identity renumbering, and under the identity -/
example : renState [1, 0] ⟨[0], [1], ⟨[10, 11], [], [], ([0], [1])⟩⟩ =
    (⟨[1], [0], ⟨[11, 10], [], [], ([1], [0])⟩⟩ : LF) := by decide

/-! ### 8. two former discrepancies, now checked

An earlier version of the comparator did not compare the LENGTH of the implementation's quotient /
coequalizer table with the model's, nor (for `coequalizer`) the range of its entries.  Both are part
of `MapAgree` now; the two implementation outputs that used to be accepted are rejected. -/

def cxStart : LF := ⟨[0], [2], ⟨[10, 10, 11], [], [], ([0], [1])⟩⟩

/-- the quotient of a 3-node diagram answered with a map whose table has FIVE entries
    (`[0, 0, 1, 1, 0]`, target 2; C09: `q.table.length = 3`), the state being right: REJECTED, by
    the history comparator and by the whole `lax.edit` / `lax.quot` line -/
theorem quot_table_length_checked :
    (runHistoryRen vecBackend false cxStart [0, 1, 2] [.l [.s "quotient"]]
      [.l [.l [.s "Ok", enc (⟨[0, 0, 1, 1, 0], 2⟩ : FinFun)],
        enc (⟨[0], [1], ⟨[10, 11], [], [], ([], [])⟩⟩ : LF)]]).map Prod.fst = some false ∧
    (laxEdit vecBackend "lax.edit" [enc cxStart, .l [.l [.s "quotient"]]]
      (okSx (.l [.l [.l [.s "Ok", enc (⟨[0, 0, 1, 1, 0], 2⟩ : FinFun)],
        enc (⟨[0], [1], ⟨[10, 11], [], [], ([], [])⟩⟩ : LF)]]))).map (·.agree) = some false ∧
    (laxEdit vecBackend "lax.quot" [enc cxStart, .l [.l [.s "quotient"]]]
      (okSx (.l [.l [.l [.s "Ok", enc (⟨[0, 0, 1, 1, 0], 2⟩ : FinFun)],
        enc (⟨[0], [1], ⟨[10, 11], [], [], ([], [])⟩⟩ : LF)]]))).map (·.agree) = some false := by
  decide +kernel

/-- … while the right table `[0, 0, 1]` is accepted -/
example :
    (runHistoryRen vecBackend false cxStart [0, 1, 2] [.l [.s "quotient"]]
      [.l [.l [.s "Ok", enc (⟨[0, 0, 1], 2⟩ : FinFun)],
        enc (⟨[0], [1], ⟨[10, 11], [], [], ([], [])⟩⟩ : LF)]]).map Prod.fst = some true := by
  decide +kernel

/-- `coequalizer` on the same diagram answered with `[5, 5, 7, 9]`, target 2 (wrong length, every
    entry out of range): REJECTED -/
theorem coeq_range_checked :
    (runHistoryRen vecBackend false cxStart [0, 1, 2] [.l [.s "coequalizer"]]
      [.l [enc (⟨[5, 5, 7, 9], 2⟩ : FinFun), enc cxStart]]).map Prod.fst = some false ∧
    (laxEdit vecBackend "lax.edit" [enc cxStart, .l [.l [.s "coequalizer"]]]
      (okSx (.l [.l [enc (⟨[5, 5, 7, 9], 2⟩ : FinFun), enc cxStart]]))).map (·.agree) = some false := by
  decide +kernel

/-- each of the two new clauses rejects on its own: right length but entries out of range;
    entries in range and onto but wrong length -/
example :
    (runHistoryRen vecBackend false cxStart [0, 1, 2] [.l [.s "coequalizer"]]
      [.l [enc (⟨[5, 5, 7], 2⟩ : FinFun), enc cxStart]]).map Prod.fst = some false ∧
    (runHistoryRen vecBackend false cxStart [0, 1, 2] [.l [.s "coequalizer"]]
      [.l [enc (⟨[1, 1, 0, 0], 2⟩ : FinFun), enc cxStart]]).map Prod.fst = some false ∧
    (runHistoryRen vecBackend false cxStart [0, 1, 2] [.l [.s "coequalizer"]]
      [.l [enc (⟨[1, 1, 0], 2⟩ : FinFun), enc cxStart]]).map Prod.fst = some true := by
  decide +kernel

end OH.HistoryOracle

#print axioms OH.HistoryOracle.runHistoryRen_true_iff
#print axioms OH.HistoryOracle.runHistoryRen_refl_partial
#print axioms OH.HistoryOracle.renState_id
#print axioms OH.HistoryOracle.quotientIdempotentOnImpl_iff
#print axioms OH.HistoryOracle.enc_LF_inj
