/-
  NO FALSE ALARM of the history comparator `Drv.runHistoryRen` on exact agreement, for ALL histories
  (including `quotient`, `h_quotient`, `delete_nodes`, `h_delete_nodes_witness` steps): the statement
  `HistoryOracle.runHistoryRen_refl_statement`, left open in Props/HistoryOracle.lean.

  * `step_refl`: one accepted model step, ANY op, any lawful backend, any well-formed state: the
    renumbering the comparator re-determines from the model's own answer (`nextRen`, from the identity)
    is the identity on the new node ids, and the outputs agree (`OutAgree`).  Per step kind:
    `step_quotient`, `step_hquotient` (`nextRen_same_map`: two identical maps give the identity with no
    hypothesis; `mapAgree_self`: the model's coequalizer is dense-onto, from `C09.coequalizer_ok`),
    `step_delete`, `step_deleteWitness` (`nextRen_delete`: the survivors are already sorted, their
    ranks are `0..n'-1`; `deleteNodes_nodes_length`: `n'` is the number of survivors).
  * `histAgree_refl`: the model's own trace satisfies the specification `HistAgree` under the identity.
  * `runHistoryRen_refl : HistoryOracle.runHistoryRen_refl_statement` (the FULL statement).
  No discrepancy found: no exact-agreement trace is rejected.
-/
import OHVerif.Props.HistoryOracle

namespace OH.HistoryRefl
open OH OH.Drv OH.Comparators OH.HistoryOracle OH.LaxEdit

/-! ### 1. quotient steps -/

/-- the renumbering re-determined from two IDENTICAL maps is the identity (no hypothesis) -/
theorem nextRen_same_map (t : L) (n n' : Nat) :
    (List.range n').map (fun k =>
      match t.idxOf? k with
      | some i => t.getD ((List.range n).getD i i) k
      | Option.none => k) = List.range n' := by
  conv => rhs; rw [← List.map_id (List.range n')]
  apply List.map_congr_left
  intro k _
  split
  · rename_i i hi
    obtain ⟨hlt, hget, _⟩ := List.idxOf?_eq_some_iff.mp hi
    rw [getD_range_self]
    simp [List.getD_eq_getElem?_getD, List.getElem?_eq_getElem hlt, hget]
  · rfl

theorem quotientH_coeq (B : Backend) (h h' : LH) (b : Bool) (q : FinFun)
    (hr : LHG.quotientH B h = .ok (b, q, h')) : LHG.coequalizer B h = .ok q := by
  unfold LHG.quotientH at hr
  cases hc : LHG.coequalizer B h with
  | none => rw [hc] at hr; cases hr
  | panic s => rw [hc] at hr; cases hr
  | ok q0 =>
    rw [hc] at hr
    simp only [Res.ok_bind] at hr
    cases hu : FinFun.coequalizerUniversalArr B q0 h.nodes with
    | panic s => rw [hu] at hr; cases hr
    | none =>
      rw [hu] at hr
      simp only [Res.pure_eq, Res.ok.injEq, Prod.mk.injEq] at hr
      rw [hr.2.1]
    | ok nodes =>
      rw [hu] at hr
      simp only at hr
      generalize (h.adjacency.mapM _ : Res (List LEdge)) = r at hr
      cases r with
      | none => cases hr
      | panic s => cases hr
      | ok adj =>
        simp only [Res.ok_bind, Res.pure_eq, Res.ok.injEq, Prod.mk.injEq] at hr
        rw [hr.2.1]

theorem quotient_coeq (B : Backend) (f f' : LF) (b : Bool) (q : FinFun)
    (hr : LOHG.quotient B f = .ok (b, q, f')) : LHG.coequalizer B f.hypergraph = .ok q := by
  unfold LOHG.quotient at hr
  cases hc : LHG.quotientH B f.hypergraph with
  | none => rw [hc] at hr; cases hr
  | panic s => rw [hc] at hr; cases hr
  | ok r =>
    obtain ⟨b0, q0, h0⟩ := r
    have hq0 := quotientH_coeq B _ _ _ _ hc
    rw [hc] at hr
    simp only [Res.ok_bind] at hr
    cases b0 with
    | false =>
      simp only [Bool.not_false, if_true, Res.pure_eq, Res.ok.injEq, Prod.mk.injEq] at hr
      rw [← hr.2.1]; exact hq0
    | true =>
      simp only [Bool.not_true, Bool.false_eq_true, if_false] at hr
      generalize (f.sources.mapM _ : Res (List Nat)) = r1 at hr
      cases r1 with
      | none => cases hr
      | panic s => cases hr
      | ok s =>
        simp only [Res.ok_bind] at hr
        generalize (f.targets.mapM _ : Res (List Nat)) = r2 at hr
        cases r2 with
        | none => cases hr
        | panic s => cases hr
        | ok t =>
          simp only [Res.ok_bind, Res.pure_eq, Res.ok.injEq, Prod.mk.injEq] at hr
          rw [← hr.2.1]; exact hq0

/-- the model's own coequalizer agrees with itself through the identity renumbering -/
theorem mapAgree_self (B : Backend) (hB : B.Lawful) (f : LF) (hwf : f.wf = true) (q : FinFun)
    (hq : LHG.coequalizer B f.hypergraph = .ok q) (n : Nat) : MapAgree (List.range n) q q := by
  obtain ⟨q', hq', _, hqw, hsurj, _, _⟩ :=
    C09.coequalizer_ok B hB f.hypergraph ((LaxEdit.owf_iff f).1 hwf).hg
  rw [hq] at hq'
  cases hq'
  exact ⟨rfl, rfl, ⟨hqw, hsurj⟩, kernelAgree_refl n _⟩

theorem step_quotient (B : Backend) (hB : B.Lawful) (f f' : LF) (hwf : f.wf = true) (out : Sx)
    (hm : editStep B f (.l [.s "quotient"]) = some (.ok (f', out))) :
    nextRen f f' (List.range f.hypergraph.nodes.length) (.l [.s "quotient"]) out out =
        List.range f'.hypergraph.nodes.length ∧
      OutAgree false f (List.range f.hypergraph.nodes.length) (List.range f'.hypergraph.nodes.length)
        (.l [.s "quotient"]) out out := by
  simp only [editStep, Option.some.injEq, res_bind_eq_ok, Res.ok.injEq, Prod.mk.injEq] at hm
  obtain ⟨⟨b, q, f''⟩, hq, rfl, rfl⟩ := hm
  have hco := quotient_coeq B f f'' b q hq
  cases b with
  | true =>
    constructor
    · simp only [nextRen, if_true, dec_enc_FinFun]
      exact nextRen_same_map _ _ _
    · simp only [OutAgree, outCases, if_true]
      exact ⟨rfl, Or.inr ⟨q, q, dec_enc_FinFun q, dec_enc_FinFun q, mapAgree_self B hB f hwf q hco _⟩⟩
  | false =>
    have := C09.quotient_open_err_atomic B f f'' q hq
    subst this
    constructor
    · simp only [nextRen, Bool.false_eq_true, if_false]
      split
      · rename_i _ h _; exact absurd h (by simp)
      · rename_i _ h _; exact absurd h (by simp)
      · rename_i h; exact absurd h (by simp)
      · rename_i h; exact absurd h (by simp)
      · exact HistoryOracle.range_append_range' _ _ (Nat.le_refl _)
    · simp only [OutAgree, outCases, Bool.false_eq_true, if_false]
      exact ⟨rfl, Or.inl rfl⟩

theorem step_hquotient (B : Backend) (hB : B.Lawful) (f f' : LF) (hwf : f.wf = true) (out : Sx)
    (hm : editStep B f (.l [.s "h_quotient"]) = some (.ok (f', out))) :
    nextRen f f' (List.range f.hypergraph.nodes.length) (.l [.s "h_quotient"]) out out =
        List.range f'.hypergraph.nodes.length ∧
      OutAgree false f (List.range f.hypergraph.nodes.length) (List.range f'.hypergraph.nodes.length)
        (.l [.s "h_quotient"]) out out := by
  simp only [editStep, Option.some.injEq, res_bind_eq_ok, Res.ok.injEq, Prod.mk.injEq] at hm
  obtain ⟨⟨b, q, h''⟩, hq, rfl, rfl⟩ := hm
  have hco := quotientH_coeq B f.hypergraph h'' b q hq
  cases b with
  | true =>
    constructor
    · simp only [nextRen, if_true, dec_enc_FinFun]
      exact nextRen_same_map _ _ _
    · simp only [OutAgree, outCases, if_true]
      exact ⟨rfl, Or.inr ⟨q, q, dec_enc_FinFun q, dec_enc_FinFun q, mapAgree_self B hB f hwf q hco _⟩⟩
  | false =>
    have := C09.quotient_err_atomic B f.hypergraph h'' q hq
    subst this
    constructor
    · simp only [nextRen, Bool.false_eq_true, if_false]
      split
      · rename_i _ h _; exact absurd h (by simp)
      · rename_i _ h _; exact absurd h (by simp)
      · rename_i h; exact absurd h (by simp)
      · rename_i h; exact absurd h (by simp)
      · exact HistoryOracle.range_append_range' _ _ (Nat.le_refl _)
    · simp only [OutAgree, outCases, Bool.false_eq_true, if_false]
      exact ⟨rfl, Or.inl rfl⟩

/-! ### 2. deletion steps -/

theorem survivors_sorted (n : Nat) (ids : List Nat) :
    (survivors n ids).Pairwise (fun a b => decide (a ≤ b) = true) := by
  unfold survivors
  apply List.Pairwise.filter
  simp only [decide_eq_true_eq]
  exact List.pairwise_le_range

/-- the ranks of the members of a duplicate-free list in itself are `0, 1, …` in order -/
theorem ranks_self (l : List Nat) (hnd : l.Nodup) :
    l.map (fun i => (l.idxOf? i).getD 0) = List.range l.length := by
  apply List.ext_getElem
  · simp
  · intro i h1 h2
    simp only [List.getElem_map, List.getElem_range]
    rw [idxOf?_getElem_of_nodup hnd i (by simpa using h1)]
    rfl

theorem nextRen_delete (f f' : LF) (op out iout ids : Sx) (d : L)
    (hop : op = .l [.s "delete_nodes", ids] ∨ op = .l [.s "h_delete_nodes_witness", ids])
    (hd : (dec ids : Option L) = some d) :
    nextRen f f' (List.range f.hypergraph.nodes.length) op out iout =
      List.range (survivors f.hypergraph.nodes.length d).length := by
  have key : List.map (fun i => (List.idxOf? i
        (((survivors f.hypergraph.nodes.length d).map (fun i => i)).mergeSort
          fun a b => decide (a ≤ b))).getD 0) (survivors f.hypergraph.nodes.length d) =
      List.range (survivors f.hypergraph.nodes.length d).length := by
    rw [List.map_id', List.mergeSort_of_pairwise (survivors_sorted _ _)]
    exact ranks_self _ (survivors_nodup _ _)
  rcases hop with rfl | rfl
  · simp only [nextRen, unrenOp_id, hd, getD_range_self]
    exact key
  · simp only [nextRen, unrenOp_id, hd, getD_range_self]
    exact key

theorem deleteNodesWitness_nodes_length (h h' : LH) (ids : L) (w : List (Option Nat))
    (hr : LHG.deleteNodesWitness h ids = .ok (h', w)) :
    h'.nodes.length = (survivors h.nodes.length ids).length ∧ w.length = h.nodes.length := by
  unfold LHG.deleteNodesWitness at hr
  by_cases he : ids = []
  · subst he
    simp only [List.isEmpty_nil, if_true, Res.ok.injEq, Prod.mk.injEq] at hr
    obtain ⟨rfl, rfl⟩ := hr
    rw [survivors_nil]; simp
  · have he' : ids.isEmpty = false := by simpa using he
    simp only [he', Bool.false_eq_true, if_false] at hr
    by_cases hall : ids.all (fun x => decide (x < h.nodes.length)) = true
    · simp only [hall, not_true_eq_false, if_false] at hr
      split at hr
      · cases hr
      · simp only [Res.ok.injEq, Prod.mk.injEq] at hr
        obtain ⟨rfl, rfl⟩ := hr
        exact ⟨keepUnmarked_length _ _, renumber_length _ _⟩
    · rw [if_pos hall] at hr
      cases hr

theorem deleteNodes_nodes_length (f f' : LF) (ids : L) (hr : LOHG.deleteNodes f ids = .ok f') :
    f'.hypergraph.nodes.length = (survivors f.hypergraph.nodes.length ids).length := by
  unfold LOHG.deleteNodes at hr
  cases hc : LHG.deleteNodesWitness f.hypergraph ids with
  | none => rw [hc] at hr; cases hr
  | panic s => rw [hc] at hr; cases hr
  | ok r =>
    obtain ⟨h', w⟩ := r
    rw [hc] at hr
    simp only [Res.ok_bind] at hr
    split_ifs at hr
    simp only [Res.pure_eq, Res.ok.injEq] at hr
    subst hr
    exact (deleteNodesWitness_nodes_length _ _ _ _ hc).1

theorem step_delete (B : Backend) (f f' : LF) (ids out : Sx)
    (hm : editStep B f (.l [.s "delete_nodes", ids]) = some (.ok (f', out))) :
    nextRen f f' (List.range f.hypergraph.nodes.length) (.l [.s "delete_nodes", ids]) out out =
        List.range f'.hypergraph.nodes.length ∧
      OutAgree false f (List.range f.hypergraph.nodes.length) (List.range f'.hypergraph.nodes.length)
        (.l [.s "delete_nodes", ids]) out out := by
  simp only [editStep, Option.bind_eq_bind, Option.bind_eq_some_iff, Option.pure_def,
    Option.some.injEq, res_bind_eq_ok, Res.ok.injEq, Prod.mk.injEq] at hm
  obtain ⟨d, hd, f'', hdel, rfl, rfl⟩ := hm
  constructor
  · rw [nextRen_delete f f'' _ _ _ ids d (Or.inl rfl) hd, deleteNodes_nodes_length f f'' d hdel]
  · simp only [OutAgree, outCases]
    split <;> first | rfl | simp_all

theorem dec_enc_optNat (o : Option Nat) : (dec (enc o) : Option (Option Nat)) = some o := by
  cases o <;> rfl

theorem step_deleteWitness (B : Backend) (f f' : LF) (ids out : Sx)
    (hm : editStep B f (.l [.s "h_delete_nodes_witness", ids]) = some (.ok (f', out))) :
    nextRen f f' (List.range f.hypergraph.nodes.length) (.l [.s "h_delete_nodes_witness", ids]) out out =
        List.range f'.hypergraph.nodes.length ∧
      OutAgree false f (List.range f.hypergraph.nodes.length) (List.range f'.hypergraph.nodes.length)
        (.l [.s "h_delete_nodes_witness", ids]) out out := by
  simp only [editStep, Option.bind_eq_bind, Option.bind_eq_some_iff, Option.pure_def,
    Option.some.injEq, res_bind_eq_ok, Res.ok.injEq, Prod.mk.injEq] at hm
  obtain ⟨d, hd, ⟨h'', w⟩, hdel, rfl, rfl⟩ := hm
  constructor
  · rw [nextRen_delete f _ _ _ _ ids d (Or.inr rfl) hd]
    exact congrArg List.range (deleteNodesWitness_nodes_length _ _ _ _ hdel).1.symm
  · simp only [OutAgree, outCases]
    refine ⟨w, w, dec_enc_list dec_enc_optNat w, dec_enc_list dec_enc_optNat w, rfl, ?_⟩
    intro i _
    rw [getD_range_self]
    cases w.getD i none with
    | none => rfl
    | some v => simp only [Option.map_some, getD_range_self]

/-! ### 3. every step, every history -/

theorem not_plain (op : Sx) (h : ¬ Plain op) :
    op = .l [.s "quotient"] ∨ op = .l [.s "h_quotient"] ∨
      (∃ ids, op = .l [.s "delete_nodes", ids]) ∨ ∃ ids, op = .l [.s "h_delete_nodes_witness", ids] := by
  unfold Plain at h
  by_contra hc
  simp only [not_or, not_exists] at hc
  exact h ⟨hc.1, hc.2.1, hc.2.2.1, hc.2.2.2⟩

/-- ONE STEP on the model's own answer under the identity renumbering: the re-determined
    renumbering is the identity on the new node ids, and the outputs agree (any op, any lawful
    backend, any well-formed state) -/
theorem step_refl (B : Backend) (hB : B.Lawful) (f f' : LF) (hwf : f.wf = true) (op out : Sx)
    (hm : editStep B f op = some (.ok (f', out))) :
    nextRen f f' (List.range f.hypergraph.nodes.length) op out out =
        List.range f'.hypergraph.nodes.length ∧
      OutAgree false f (List.range f.hypergraph.nodes.length) (List.range f'.hypergraph.nodes.length)
        op out out := by
  by_cases hp : Plain op
  · refine ⟨?_, outAgree_refl B hB f f' hwf _ _ op out hp hm⟩
    rw [nextRen_plain _ _ _ _ _ _ hp,
      HistoryOracle.range_append_range' _ _ (editStep_nodes_mono B f f' op out hp hm)]
  · rcases not_plain op hp with rfl | rfl | ⟨ids, rfl⟩ | ⟨ids, rfl⟩
    · exact step_quotient B hB f f' hwf out hm
    · exact step_hquotient B hB f f' hwf out hm
    · exact step_delete B f f' ids out hm
    · exact step_deleteWitness B f f' ids out hm

/-- the model's own trace agrees with the model run (`HistAgree`) under the identity renumbering;
    stated with the accumulator of `runHistory` for the induction -/
theorem histAgree_refl_acc (B : Backend) (hB : B.Lawful) :
    ∀ (ops : List Sx) (f : LF) (acc tr : List Sx),
    runHistory B f ops acc = some tr →
    ∃ tr', tr = acc.reverse ++ tr' ∧
      HistAgree B false f (List.range f.hypergraph.nodes.length) ops tr' := by
  intro ops
  induction ops with
  | nil =>
    intro f acc tr h
    simp only [runHistory, Option.some.injEq] at h
    exact ⟨[], by simp [h], .done _ _⟩
  | cons op ops ih =>
    intro f acc tr h
    simp only [runHistory] at h
    split at h
    · exact absurd h (by simp)
    · rename_i f' out hm
      obtain ⟨tr', rfl, hag⟩ := ih f' _ tr h
      refine ⟨Sx.l [out, enc f'] :: tr', by simp, ?_⟩
      by_cases hwf : f.wf = true
      swap
      · exact .illformed f _ op ops _ tr' (by simpa using hwf)
      obtain ⟨hren, hout⟩ := step_refl B hB f f' hwf op out hm
      refine .step f _ op ops out (enc f') tr' f' out f' (List.range f'.hypergraph.nodes.length)
        (by rw [unrenOp_id]; exact hm) (dec_enc_LF f') hren.symm (by simp) (by simp) ?_ hout hag
      exact Or.inl (renState_id f')
    · rename_i r hno hm
      simp only [Option.some.injEq] at h
      refine ⟨[.s "panic"], by simp [← h], ?_⟩
      exact .bothReject f _ op ops r (by rw [unrenOp_id]; exact hm)
        (fun x hx => hno x.1 x.2 hx)

/-- the model's own trace satisfies the comparator's specification under the identity renumbering -/
theorem histAgree_refl (B : Backend) (hB : B.Lawful) (f : LF) (ops tr : List Sx)
    (h : runHistory B f ops [] = some tr) :
    HistAgree B false f (List.range f.hypergraph.nodes.length) ops tr := by
  obtain ⟨tr', rfl, hag⟩ := histAgree_refl_acc B hB ops f [] tr h
  simpa using hag

/-- NO FALSE ALARM ON EXACT AGREEMENT, full statement: for every lawful backend, every start state
    and EVERY history (quotient, hypergraph-level quotient and node-deletion steps included; the
    history may end in a rejected step or pass through ill-formed states), the comparator accepts
    the model's own trace under the identity renumbering. -/
theorem runHistoryRen_refl : HistoryOracle.runHistoryRen_refl_statement := by
  intro B hB f ops tr h
  exact runHistoryRen_complete B false f _ ops _ (histAgree_refl B hB f ops tr h)

/-! ### 4. a concrete instance -/

/-- a history with every kind of renumbering step: a quotient that merges two nodes, a node
    deletion, a deletion with witness, a hypergraph-level quotient, a coequalizer -/
def exOpsAll : List Sx :=
  [.l [.s "unify", .n 0, .n 1], .l [.s "quotient"], .l [.s "new_node", .n 12],
   .l [.s "delete_nodes", enc ([0] : List Nat)], .l [.s "unify", .n 0, .n 1],
   .l [.s "h_delete_nodes_witness", enc ([1] : List Nat)], .l [.s "h_quotient"],
   .l [.s "coequalizer"]]

/-- the hypotheses of `runHistoryRen_refl` on a non-trivial instance: the Vec backend is lawful and
    the model runs the whole history (8 trace entries, none of them a panic) -/
example : vecBackend.Lawful ∧
    (runHistory vecBackend exStart exOpsAll []).map (fun tr => (tr.length, tr.contains (.s "panic"))) =
      some (8, false) :=
  ⟨vecBackend_lawful, by decide +kernel⟩

/-- … hence its own trace is accepted -/
example : ∃ tr note, runHistory vecBackend exStart exOpsAll [] = some tr ∧
    runHistoryRen vecBackend false exStart (List.range 3) exOpsAll tr = some (true, note) := by
  cases h : runHistory vecBackend exStart exOpsAll [] with
  | none =>
    have : (runHistory vecBackend exStart exOpsAll []).isSome = true := by decide +kernel
    rw [h] at this
    cases this
  | some tr =>
    obtain ⟨note, hn⟩ := runHistoryRen_refl _ vecBackend_lawful _ _ _ h
    exact ⟨tr, note, rfl, hn⟩

end OH.HistoryRefl

#print axioms OH.HistoryRefl.runHistoryRen_refl
