/-
  Soundness of the certificate checker of the isomorphism oracle.

  The correspondence check compares diagrams "up to isomorphism" with an untrusted `partial`
  search (`OH.IsoCert.check`).  Its positive verdict carries explicit maps `π ρ : List Nat` and is
  only issued when the small total checker `OH.IsoCert.certOk` accepts them.  Here:

  * `certOk_sound_lawful` / `certOk_sound` / `certOk_sound_nat` :
      `certOk P Q π ρ = true → P ≅ Q`  (witnesses `fun i => π.getD i 0`, `fun e => ρ.getD e 0`);
  * `certOk_iff` : a complete Prop-level characterisation of `certOk` (`CertSpec`);
  * `certOk_refl` : the identity certificate is accepted on every well-formed diagram.
-/
import OHVerif.Model.IsoCert
import OHVerif.Spec.Diagram
import OHVerif.Lemmas.VecBackend
import OHVerif.Lemmas.FinFun
import Mathlib.Data.List.Nodup
import Mathlib.Data.List.Perm.Subperm

namespace OH
namespace IsoCert

/-! ### a duplicate-free table of length `n` with entries `< n` is a bijection of `[0,n)` -/

theorem eraseDups_sublist_aux (n : Nat) :
    ∀ l : List Nat, l.length ≤ n → l.eraseDups.Sublist l := by
  induction n with
  | zero =>
    intro l hl
    have : l = [] := List.eq_nil_of_length_eq_zero (Nat.le_zero.mp hl)
    subst this
    simp
  | succ n ih =>
    intro l hl
    cases l with
    | nil => simp
    | cons a as =>
      rw [List.eraseDups_cons]
      apply List.Sublist.cons_cons
      have hle := List.length_filter_le (fun b => !b == a) as
      simp only [List.length_cons] at hl
      exact (ih _ (by omega)).trans List.filter_sublist

theorem eraseDups_sublist (l : List Nat) : l.eraseDups.Sublist l :=
  eraseDups_sublist_aux l.length l (Nat.le_refl _)

/-- `eraseDups` keeps the length only when nothing was erased -/
theorem nodup_of_eraseDups_length {l : List Nat} (h : l.eraseDups.length = l.length) : l.Nodup := by
  have := (eraseDups_sublist l).eq_of_length h
  rw [← this]
  exact VecB.nodup_eraseDups l

/-- the converse: a duplicate-free list is untouched by `eraseDups` -/
theorem eraseDups_of_nodup_aux (n : Nat) :
    ∀ l : List Nat, l.length ≤ n → l.Nodup → l.eraseDups = l := by
  induction n with
  | zero =>
    intro l hl _
    have : l = [] := List.eq_nil_of_length_eq_zero (Nat.le_zero.mp hl)
    subst this
    simp
  | succ n ih =>
    intro l hl hnd
    cases l with
    | nil => simp
    | cons a as =>
      rw [List.nodup_cons] at hnd
      have hf : as.filter (fun b => !b == a) = as := by
        rw [List.filter_eq_self]
        intro b hb
        have : b ≠ a := fun h => hnd.1 (h ▸ hb)
        simpa using this
      rw [List.eraseDups_cons, hf, ih as (by simp only [List.length_cons] at hl; omega) hnd.2]

theorem eraseDups_of_nodup {l : List Nat} (h : l.Nodup) : l.eraseDups = l :=
  eraseDups_of_nodup_aux l.length l (Nat.le_refl _) h

theorem getD_eq_getElem {l : List Nat} {i : Nat} (hi : i < l.length) : l.getD i 0 = l[i] := by
  simp [List.getD_eq_getElem?_getD, List.getElem?_eq_getElem hi]

/-- the three table checks of `certOk` make `i ↦ π.getD i 0` a bijection of `[0,n)` -/
theorem bijOn_of_table {π : List Nat} {n : Nat} (hlen : π.length = n) (hlt : ∀ x ∈ π, x < n)
    (hdup : π.eraseDups.length = n) : BijOn n n (fun i => π.getD i 0) := by
  have hnd : π.Nodup := nodup_of_eraseDups_length (hdup.trans hlen.symm)
  have hperm : π.Perm (List.range n) := by
    apply (hnd.subperm (l₂ := List.range n) ?_).perm_of_length_le
    · simp [hlen]
    · intro x hx
      exact List.mem_range.2 (hlt x hx)
  refine ⟨?_, ?_, ?_⟩
  · intro i hi
    have hi' : i < π.length := by omega
    show π.getD i 0 < n
    rw [getD_eq_getElem hi']
    exact hlt _ (List.getElem_mem hi')
  · intro i j hi hj hij
    have hi' : i < π.length := by omega
    have hj' : j < π.length := by omega
    have hij' : π.getD i 0 = π.getD j 0 := hij
    rw [getD_eq_getElem hi', getD_eq_getElem hj'] at hij'
    apply (FinFun.nodup_iff_inj π).1 hnd i j hi' hj'
    rw [List.getElem?_eq_getElem hi', List.getElem?_eq_getElem hj', hij']
  · intro k hk
    have hmem : k ∈ π := hperm.mem_iff.2 (List.mem_range.2 hk)
    obtain ⟨i, hi, hik⟩ := List.mem_iff_getElem.1 hmem
    refine ⟨i, by omega, ?_⟩
    show π.getD i 0 = k
    rw [getD_eq_getElem hi, hik]

/-! ### Prop-level reading of the checker -/

/-- what `certOk P Q π ρ` checks, clause by clause -/
structure CertSpec {O A : Type} (P Q : PDiag O A) (π ρ : List Nat) : Prop where
  plen : π.length = P.nodes.length
  qn : Q.nodes.length = P.nodes.length
  rlen : ρ.length = P.edges.length
  qm : Q.edges.length = P.edges.length
  plt : ∀ x ∈ π, x < P.nodes.length
  rlt : ∀ x ∈ ρ, x < P.edges.length
  pdup : π.eraseDups.length = P.nodes.length
  rdup : ρ.eraseDups.length = P.edges.length
  nodes : ∀ i, i < P.nodes.length → Q.nodes[π.getD i 0]? = P.nodes[i]?
  edges : ∀ e, e < P.edges.length →
    Q.edges[ρ.getD e 0]? = (P.edges[e]?).map (PEdge.mapNodes (fun v => π.getD v 0))
  ins : Q.ins = P.ins.map (fun v => π.getD v 0)
  outs : Q.outs = P.outs.map (fun v => π.getD v 0)

section lawful
variable {O A : Type} [BEq O] [LawfulBEq O] [BEq A] [LawfulBEq A]

omit [BEq A] [LawfulBEq A] in
theorem nodeClause_iff (P Q : PDiag O A) (π : List Nat) (i : Nat) (hi : i < P.nodes.length) :
    (match P.nodes[i]?, Q.nodes[π.getD i 0]? with
      | some a, some b => a == b
      | _, _ => false) = true ↔ Q.nodes[π.getD i 0]? = P.nodes[i]? := by
  rw [List.getElem?_eq_getElem hi]
  cases hq : Q.nodes[π.getD i 0]? with
  | none => simp
  | some b =>
    simp only [beq_iff_eq, Option.some.injEq]
    exact eq_comm

omit [BEq O] [LawfulBEq O] in
theorem edgeClause_iff (P Q : PDiag O A) (π ρ : List Nat) (e : Nat) (he : e < P.edges.length) :
    (match P.edges[e]?, Q.edges[ρ.getD e 0]? with
      | some pe, some qe =>
        qe.label == pe.label && qe.src == pe.src.map (fun v => π.getD v 0) &&
        qe.tgt == pe.tgt.map (fun v => π.getD v 0)
      | _, _ => false) = true ↔
    Q.edges[ρ.getD e 0]? = (P.edges[e]?).map (PEdge.mapNodes (fun v => π.getD v 0)) := by
  rw [List.getElem?_eq_getElem he]
  cases hq : Q.edges[ρ.getD e 0]? with
  | none => simp
  | some qe =>
    obtain ⟨ql, qs, qt⟩ := qe
    simp only [Bool.and_eq_true, beq_iff_eq, Option.map_some, Option.some.injEq, PEdge.mapNodes,
      PEdge.mk.injEq, and_assoc]

/-- `certOk` is exactly the conjunction `CertSpec` -/
theorem certOk_iff (P Q : PDiag O A) (π ρ : List Nat) :
    certOk P Q π ρ = true ↔ CertSpec P Q π ρ := by
  unfold certOk
  simp only [Bool.and_eq_true, beq_iff_eq, List.all_eq_true, decide_eq_true_eq, List.mem_range]
  constructor
  · rintro ⟨⟨⟨⟨⟨⟨⟨⟨⟨⟨⟨h1, h2⟩, h3⟩, h4⟩, h5⟩, h6⟩, h7⟩, h8⟩, h9⟩, h10⟩, h11⟩, h12⟩
    exact ⟨h1, h2, h3, h4, h5, h6, h7, h8,
      fun i hi => (nodeClause_iff P Q π i hi).1 (h9 i hi),
      fun e he => (edgeClause_iff P Q π ρ e he).1 (h10 e he), h11, h12⟩
  · intro h
    exact ⟨⟨⟨⟨⟨⟨⟨⟨⟨⟨⟨h.plen, h.qn⟩, h.rlen⟩, h.qm⟩, h.plt⟩, h.rlt⟩, h.pdup⟩, h.rdup⟩,
      fun i hi => (nodeClause_iff P Q π i hi).2 (h.nodes i hi)⟩,
      fun e he => (edgeClause_iff P Q π ρ e he).2 (h.edges e he)⟩, h.ins⟩, h.outs⟩

end lawful

/-- an accepted certificate denotes an isomorphism -/
theorem CertSpec.iso {O A : Type} {P Q : PDiag O A} {π ρ : List Nat} (h : CertSpec P Q π ρ) :
    P ≅ Q := by
  refine ⟨fun i => π.getD i 0, fun e => ρ.getD e 0, ?_, ?_, h.nodes, h.edges, h.ins, h.outs⟩
  · show BijOn P.nodes.length Q.nodes.length _
    rw [h.qn]
    exact bijOn_of_table h.plen h.plt h.pdup
  · rw [h.qm]
    exact bijOn_of_table h.rlen h.rlt h.rdup

/-! ### headline: the checker is sound -/

/-- soundness for any lawful boolean equality on the label types -/
theorem certOk_sound_lawful {O A : Type} [BEq O] [LawfulBEq O] [BEq A] [LawfulBEq A]
    (P Q : PDiag O A) (π ρ : List Nat) : certOk P Q π ρ = true → P ≅ Q :=
  fun h => ((certOk_iff P Q π ρ).1 h).iso

/-- soundness with the boolean equality derived from decidable equality -/
theorem certOk_sound {O A : Type} [DecidableEq O] [DecidableEq A]
    (P Q : PDiag O A) (π ρ : List Nat) : certOk P Q π ρ = true → P ≅ Q :=
  certOk_sound_lawful P Q π ρ

/-- the instance used by the driver -/
theorem certOk_sound_nat (P Q : PDiag Nat Nat) (π ρ : List Nat) :
    certOk P Q π ρ = true → P ≅ Q :=
  certOk_sound_lawful P Q π ρ

/-- the witnesses are the table look-ups themselves (the full content of an accepted certificate) -/
theorem certOk_sound_witness {O A : Type} [BEq O] [LawfulBEq O] [BEq A] [LawfulBEq A]
    (P Q : PDiag O A) (π ρ : List Nat) (h : certOk P Q π ρ = true) :
    BijOn P.n Q.n (fun i => π.getD i 0) ∧
    BijOn P.edges.length Q.edges.length (fun e => ρ.getD e 0) ∧
    (∀ i, i < P.n → Q.nodes[π.getD i 0]? = P.nodes[i]?) ∧
    (∀ e, e < P.edges.length →
      Q.edges[ρ.getD e 0]? = (P.edges[e]?).map (PEdge.mapNodes (fun v => π.getD v 0))) ∧
    Q.ins = P.ins.map (fun v => π.getD v 0) ∧ Q.outs = P.outs.map (fun v => π.getD v 0) := by
  have hs := (certOk_iff P Q π ρ).1 h
  refine ⟨?_, ?_, hs.nodes, hs.edges, hs.ins, hs.outs⟩
  · show BijOn P.nodes.length Q.nodes.length _
    rw [hs.qn]
    exact bijOn_of_table hs.plen hs.plt hs.pdup
  · rw [hs.qm]
    exact bijOn_of_table hs.rlen hs.rlt hs.rdup

/-! ### sanity: the identity certificate is accepted -/

theorem getD_range {n i : Nat} (hi : i < n) : (List.range n).getD i 0 = i := by
  simp [List.getD_eq_getElem?_getD, List.getElem?_range hi]

theorem map_getD_range {n : Nat} {l : List Nat} (h : ∀ x ∈ l, x < n) :
    l.map (fun v => (List.range n).getD v 0) = l := by
  conv => rhs; rw [← List.map_id l]
  apply List.map_congr_left
  intro x hx
  exact getD_range (h x hx)

/-- on a well-formed diagram the identity tables pass the checker (no hypothesis can be dropped:
    a dangling node id `v ≥ n` is sent to `0` by `getD`, so the interface/incidence clauses fail) -/
theorem certOk_refl {O A : Type} [BEq O] [LawfulBEq O] [BEq A] [LawfulBEq A]
    (P : PDiag O A) (hwf : P.wf = true) :
    certOk P P (List.range P.n) (List.range P.edges.length) = true := by
  rw [certOk_iff]
  unfold PDiag.wf at hwf
  simp only [Bool.and_eq_true, List.all_eq_true, decide_eq_true_eq] at hwf
  obtain ⟨⟨hins, houts⟩, hedges⟩ := hwf
  have hn : P.n = P.nodes.length := rfl
  refine ⟨by simp [hn], rfl, by simp, rfl, ?_, ?_, ?_, ?_, ?_, ?_, ?_, ?_⟩
  · intro x hx; rw [hn] at hx; exact List.mem_range.1 hx
  · intro x hx; exact List.mem_range.1 hx
  · rw [eraseDups_of_nodup List.nodup_range]; simp [hn]
  · rw [eraseDups_of_nodup List.nodup_range]; simp
  · intro i hi
    rw [hn, getD_range hi]
  · intro e he
    rw [getD_range he, List.getElem?_eq_getElem he, Option.map_some]
    have := hedges _ (List.getElem_mem he)
    congr 1
    unfold PEdge.mapNodes
    rw [map_getD_range this.1, map_getD_range this.2]
  · exact (map_getD_range hins).symm
  · exact (map_getD_range houts).symm

/-! ### concrete instances -/

/-- two nodes `[7,8]`, one edge `5 : [0] → [1]`, interface `[0] → [1]`; `exQ` lists the nodes in
    the opposite order -/
def exP : PDiag Nat Nat := ⟨[7, 8], [⟨5, [0], [1]⟩], [0], [1]⟩
def exQ : PDiag Nat Nat := ⟨[8, 7], [⟨5, [1], [0]⟩], [1], [0]⟩

example : certOk exP exQ [1, 0] [0] = true := by decide
example : exP ≅ exQ := certOk_sound_nat exP exQ [1, 0] [0] (by decide)
/-- the checker does reject: the identity tables are not a certificate for this pair, nor is a
    non-injective table -/
example : certOk exP exQ [0, 1] [0] = false := by decide
example : certOk exP exQ [1, 1] [0] = false := by decide
example : exP.wf = true := by decide
example : certOk exP exP (List.range exP.n) (List.range exP.edges.length) = true :=
  certOk_refl exP (by decide)

/-- a pair with two parallel edges swapped as well -/
def exP2 : PDiag Nat Nat := ⟨[1, 1, 2], [⟨3, [0], [2]⟩, ⟨4, [1], [2]⟩], [0, 1], [2]⟩
def exQ2 : PDiag Nat Nat := ⟨[2, 1, 1], [⟨4, [2], [0]⟩, ⟨3, [1], [0]⟩], [1, 2], [0]⟩

example : certOk exP2 exQ2 [1, 2, 0] [1, 0] = true := by decide
example : exP2 ≅ exQ2 := certOk_sound exP2 exQ2 [1, 2, 0] [1, 0] (by decide)

end IsoCert
end OH
