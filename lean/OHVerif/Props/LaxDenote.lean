/-
  The third tier of the driver's `Drv.laxDenoteRel` (Model/DriverLax.lean) is sound.

  That tier accepts two lax diagrams `a b : LOHG Nat Nat` with identical interfaces, nodes, hyperedge
  labels and adjacency whose pending unifications agree as a MULTISET OF UNORDERED PAIRS
  (`Drv.samePairsMultiset a b = true`).  Here:

  * `samePairs_iff` / `samePairs_perm`: the Boolean says exactly that both quotient lists have equal
    lengths and the normalised pair lists are permutations of each other;
  * `samePairs_eqvGen`: then the recorded pairs of `a` and of `b` (`LaxIso.pairsRel`, the relation
    used by `LaxIso.toStrict_isQuot`) generate the same equivalence;
  * `wf_of_samePairs`: well-formedness transfers from `a` to `b`;
  * `toStrict_samePairs`: for every lawful backend, `to_strict` succeeds on `a` iff it succeeds on
    `b`, and the two strict diagrams are isomorphic (`≅`, both directions);
    `toStrict_samePairs_fail`: when it does not succeed, both sides are the same panic.

  No corrections to the requested statements were needed: self pairs `(i,i)`, repeated pairs and
  pairs listed in either orientation are all covered (the comparison is a multiset comparison, and the
  generated equivalence only depends on the underlying SET of unordered pairs); unequal-length
  quotient lists are rejected by `samePairsMultiset` itself.
-/
import Mathlib.Data.List.Perm.Basic
import Mathlib.Data.List.Count
import OHVerif.Model.DriverLax
import OHVerif.Lemmas.LaxIso

namespace OH.LaxDenote
open OH OH.LaxStrict OH.LaxIso OH.C09 OH.Drv Relation

/-! ### count equality on the left list and equal lengths give a permutation -/

theorem perm_of_count_on_left {α : Type} [BEq α] [LawfulBEq α] : ∀ (a b : List α),
    a.length = b.length → (∀ x ∈ a, a.count x = b.count x) → a.Perm b := by
  intro a
  induction a with
  | nil =>
    intro b hl _
    have : b = [] := List.eq_nil_of_length_eq_zero (by simpa using hl.symm)
    subst this; exact List.Perm.refl _
  | cons x a ih =>
    intro b hl hc
    have hx : x ∈ b := by
      have := hc x List.mem_cons_self
      rw [List.count_cons_self] at this
      exact List.count_pos_iff.mp (by omega)
    have hb : b.Perm (x :: b.erase x) := List.perm_cons_erase hx
    refine List.Perm.trans (List.Perm.cons x ?_) hb.symm
    apply ih
    · have := List.length_erase_of_mem hx
      simp only [List.length_cons] at hl
      omega
    · intro y hy
      have := hc y (List.mem_cons_of_mem _ hy)
      rw [List.count_cons, List.count_erase] at *
      by_cases hyx : y = x
      · subst hyx; simp at this ⊢; omega
      · have h1 : (x == y) = false := by simp [Ne.symm hyx]
        simp [h1] at this ⊢; omega

/-! ### 1. the Boolean, read as a statement about lists -/

/-- `samePairsMultiset` holds exactly when both diagrams list as many left ends as right ends and
    the normalised pair lists are permutations of each other -/
theorem samePairs_iff (a b : LOHG Nat Nat) : Drv.samePairsMultiset a b = true ↔
    ((Drv.pairsNorm a).Perm (Drv.pairsNorm b) ∧
      a.hypergraph.quotient.1.length = a.hypergraph.quotient.2.length ∧
      b.hypergraph.quotient.1.length = b.hypergraph.quotient.2.length) := by
  simp only [samePairsMultiset, Bool.and_eq_true, beq_iff_eq, List.all_eq_true]
  constructor
  · rintro ⟨⟨⟨h1, h2⟩, h3⟩, h4⟩
    exact ⟨perm_of_count_on_left _ _ h3 h4, h1, h2⟩
  · rintro ⟨hp, h1, h2⟩
    exact ⟨⟨⟨h1, h2⟩, hp.length_eq⟩, fun x _ => hp.count_eq x⟩

theorem samePairs_perm (a b : LOHG Nat Nat) (h : Drv.samePairsMultiset a b = true) :
    (Drv.pairsNorm a).Perm (Drv.pairsNorm b) ∧
      a.hypergraph.quotient.1.length = a.hypergraph.quotient.2.length ∧
      b.hypergraph.quotient.1.length = b.hypergraph.quotient.2.length :=
  (samePairs_iff a b).1 h

/-- the comparison is symmetric -/
theorem samePairs_symm (a b : LOHG Nat Nat) (h : Drv.samePairsMultiset a b = true) :
    Drv.samePairsMultiset b a = true := by
  obtain ⟨hp, h1, h2⟩ := samePairs_perm a b h
  exact (samePairs_iff b a).2 ⟨hp.symm, h2, h1⟩

/-! ### 2. the recorded pairs generate the same equivalence -/

/-- the recorded pairs are the members of the zipped quotient lists (whatever their lengths) -/
theorem pairs_iff_mem_zip (d : LOHG Nat Nat) (x y : Nat) :
    pairsRel d x y ↔ (x, y) ∈ d.hypergraph.quotient.1.zip d.hypergraph.quotient.2 := by
  show (∃ k : Nat, _ ∧ _) ↔ _
  rw [List.mem_iff_getElem?]
  constructor
  · rintro ⟨k, h1, h2⟩
    exact ⟨k, List.getElem?_zip_eq_some.2 ⟨h1, h2⟩⟩
  · rintro ⟨k, hk⟩
    exact ⟨k, List.getElem?_zip_eq_some.1 hk⟩

/-- an unordered pair determines its ends up to a swap -/
theorem unord_eq_iff (x y u v : Nat) :
    (min x y, max x y) = (min u v, max u v) ↔ (x = u ∧ y = v) ∨ (x = v ∧ y = u) := by
  rw [Prod.mk.injEq]
  omega

/-- membership in the normalised pair list -/
theorem mem_pairsNorm (d : LOHG Nat Nat) (p : Nat × Nat) :
    p ∈ Drv.pairsNorm d ↔ ∃ x y, pairsRel d x y ∧ p = (min x y, max x y) := by
  unfold pairsNorm
  rw [List.mem_map]
  constructor
  · rintro ⟨⟨x, y⟩, hm, rfl⟩
    exact ⟨x, y, (pairs_iff_mem_zip d x y).2 hm, rfl⟩
  · rintro ⟨x, y, hm, rfl⟩
    exact ⟨(x, y), (pairs_iff_mem_zip d x y).1 hm, rfl⟩

/-- the normalised list contains an unordered pair iff it is recorded in one of the two orientations -/
theorem unord_mem_pairsNorm (d : LOHG Nat Nat) (x y : Nat) :
    (min x y, max x y) ∈ Drv.pairsNorm d ↔ pairsRel d x y ∨ pairsRel d y x := by
  rw [mem_pairsNorm]
  constructor
  · rintro ⟨u, v, huv, he⟩
    rcases (unord_eq_iff x y u v).1 he with ⟨rfl, rfl⟩ | ⟨rfl, rfl⟩
    · exact Or.inl huv
    · exact Or.inr huv
  · rintro (h | h)
    · exact ⟨x, y, h, rfl⟩
    · exact ⟨y, x, h, (unord_eq_iff x y y x).2 (Or.inr ⟨rfl, rfl⟩)⟩

theorem eqvGen_of_gen {R S : Nat → Nat → Prop} (h : ∀ x y, R x y → EqvGen S x y) {i j : Nat}
    (e : EqvGen R i j) : EqvGen S i j := by
  induction e with
  | rel a b hab => exact h a b hab
  | refl a => exact EqvGen.refl _
  | symm a b _ ih => exact EqvGen.symm _ _ ih
  | trans a b c _ _ ih1 ih2 => exact EqvGen.trans _ _ _ ih1 ih2

/-- it is enough that the normalised pairs of `a` all occur among those of `b` -/
theorem eqvGen_of_subset (a b : LOHG Nat Nat) (h : ∀ p ∈ Drv.pairsNorm a, p ∈ Drv.pairsNorm b)
    {i j : Nat} (e : EqvGen (pairsRel a) i j) : EqvGen (pairsRel b) i j := by
  refine eqvGen_of_gen (fun x y hxy => ?_) e
  have := h _ ((unord_mem_pairsNorm a x y).2 (Or.inl hxy))
  rcases (unord_mem_pairsNorm b x y).1 this with h1 | h1
  · exact EqvGen.rel _ _ h1
  · exact EqvGen.symm _ _ (EqvGen.rel _ _ h1)

/-- THE TWO DIAGRAMS IDENTIFY THE SAME NODES: accepted pending unifications generate the same
    equivalence (the relation is the one of `LaxIso.toStrict_isQuot`) -/
theorem samePairs_eqvGen (a b : LOHG Nat Nat) (h : Drv.samePairsMultiset a b = true) :
    ∀ i j, EqvGen (pairsRel a) i j ↔ EqvGen (pairsRel b) i j := by
  obtain ⟨hp, _, _⟩ := samePairs_perm a b h
  intro i j
  exact ⟨eqvGen_of_subset a b (fun p hm => hp.subset hm),
    eqvGen_of_subset b a (fun p hm => hp.symm.subset hm)⟩

/-! ### 3. well-formedness, label consistency and the plain reading transfer -/

/-- well-formedness transfers: it depends on the shared fields, on the two length equations and on
    the range of the ends of the pairs -/
theorem wf_of_samePairs (a b : LOHG Nat Nat) (hs : a.sources = b.sources)
    (ht : a.targets = b.targets) (hn : a.hypergraph.nodes = b.hypergraph.nodes)
    (he : a.hypergraph.edges = b.hypergraph.edges)
    (ha : a.hypergraph.adjacency = b.hypergraph.adjacency)
    (hp : Drv.samePairsMultiset a b = true) (hwf : a.wf = true) : b.wf = true := by
  obtain ⟨hperm, _, hlb⟩ := samePairs_perm a b hp
  have hw := (LaxEdit.owf_iff a).mp hwf
  have key : ∀ x y, pairsRel b x y →
      x < b.hypergraph.nodes.length ∧ y < b.hypergraph.nodes.length := by
    intro x y hxy
    have hm := hperm.symm.subset ((unord_mem_pairsNorm b x y).2 (Or.inl hxy))
    rw [← hn]
    rcases (unord_mem_pairsNorm a x y).1 hm with h1 | h1
    · exact pairs_lt _ hw.hg h1
    · exact (pairs_lt _ hw.hg h1).symm
  rw [LaxEdit.owf_iff]
  refine ⟨⟨?_, ?_, hlb, ?_, ?_⟩, ?_, ?_⟩
  · rw [← he, ← ha]; exact hw.hg.len
  · rw [← ha, ← hn]; exact hw.hg.adj
  · intro v hv
    obtain ⟨k, hk, hvk⟩ := List.mem_iff_getElem.1 hv
    have hk2 : k < b.hypergraph.quotient.2.length := by omega
    exact (key v (b.hypergraph.quotient.2[k]) ⟨k, by rw [List.getElem?_eq_getElem hk, hvk],
      List.getElem?_eq_getElem hk2⟩).1
  · intro v hv
    obtain ⟨k, hk, hvk⟩ := List.mem_iff_getElem.1 hv
    have hk1 : k < b.hypergraph.quotient.1.length := by omega
    exact (key (b.hypergraph.quotient.1[k]) v ⟨k, List.getElem?_eq_getElem hk1,
      by rw [List.getElem?_eq_getElem hk, hvk]⟩).2
  · rw [← hs, ← hn]; exact hw.src
  · rw [← ht, ← hn]; exact hw.tgt

theorem labelConsistent_of_samePairs (a b : LOHG Nat Nat)
    (hn : a.hypergraph.nodes = b.hypergraph.nodes) (hp : Drv.samePairsMultiset a b = true) :
    LabelConsistent a.hypergraph ↔ LabelConsistent b.hypergraph := by
  have he := samePairs_eqvGen a b hp
  constructor
  · intro hc i j hij
    rw [← hn]
    exact hc i j ((he i j).2 hij)
  · intro hc i j hij
    rw [hn]
    exact hc i j ((he i j).1 hij)

theorem plain_eq (a b : LOHG Nat Nat) (hs : a.sources = b.sources) (ht : a.targets = b.targets)
    (hn : a.hypergraph.nodes = b.hypergraph.nodes) (he : a.hypergraph.edges = b.hypergraph.edges)
    (ha : a.hypergraph.adjacency = b.hypergraph.adjacency) : plain a = plain b := by
  unfold plain
  rw [hs, ht, hn, he, ha]

/-! ### 4. the denoted strict diagrams -/

/-- one direction, used twice -/
theorem toStrict_samePairs_dir (B : Backend) (hB : B.Lawful) (a b : LOHG Nat Nat)
    (hs : a.sources = b.sources) (ht : a.targets = b.targets)
    (hn : a.hypergraph.nodes = b.hypergraph.nodes) (he : a.hypergraph.edges = b.hypergraph.edges)
    (ha : a.hypergraph.adjacency = b.hypergraph.adjacency)
    (hp : Drv.samePairsMultiset a b = true) (hwf : a.wf = true) (sa : OHG Nat Nat)
    (hsa : LOHG.toStrict B a = .ok sa) :
    ∃ sb, LOHG.toStrict B b = .ok sb ∧ sb.wf = true ∧ sa.toPlain ≅ sb.toPlain ∧
      sb.toPlain ≅ sa.toPlain ∧ sb.h.x = sa.h.x := by
  have hwfb := wf_of_samePairs a b hs ht hn he ha hp hwf
  obtain ⟨hca, hwa, hqa, hxa⟩ := toStrict_quot_of_ok B hB a sa hwf hsa
  have hcb := (labelConsistent_of_samePairs a b hn hp).1 hca
  obtain ⟨sb, hsb, hwb, hqb, hxb⟩ := toStrict_isQuot B hB b hwfb hcb
  have hpl := plain_eq a b hs ht hn he ha
  rw [← hpl] at hqb
  have hR : ∀ i j, i < (plain a).n → j < (plain a).n →
      (EqvGen (fun x y => x < (plain a).n ∧ y < (plain a).n ∧ pairsRel a x y) i j ↔
        EqvGen (fun x y => x < (plain a).n ∧ y < (plain a).n ∧ pairsRel b x y) i j) := by
    intro i j _ _
    have hwa' := ((LaxEdit.owf_iff a).mp hwf).hg
    have hwb' := ((LaxEdit.owf_iff b).mp hwfb).hg
    have e1 := eqvGen_restrict_iff (n := (plain a).n) (R := pairsRel a)
      (fun x y hxy => pairs_lt a.hypergraph hwa' hxy) i j
    have e2 := eqvGen_restrict_iff (n := (plain a).n) (R := pairsRel b)
      (fun x y hxy => by
        have := pairs_lt b.hypergraph hwb' hxy
        rw [← hn] at this
        exact this) i j
    exact e1.trans ((samePairs_eqvGen a b hp i j).trans e2.symm)
  have hP := plain_wf a hwf
  refine ⟨sb, hsb, hwb, isQuot_unique hP hqa hqb hR, isQuot_unique hP hqb hqa ?_, ?_⟩
  · intro i j hi hj
    exact (hR i j hi hj).symm
  · rw [hxb, hxa, he]

/-- THE ACCEPTED TIER IS SOUND.  Two lax diagrams with the same interfaces, nodes, hyperedge labels
    and adjacency whose pending unifications agree as a multiset of unordered pairs denote
    isomorphic strict diagrams (every lawful backend), and strictification succeeds on one exactly
    when it succeeds on the other -/
theorem toStrict_samePairs (B : Backend) (hB : B.Lawful) (a b : LOHG Nat Nat)
    (hs : a.sources = b.sources) (ht : a.targets = b.targets)
    (hn : a.hypergraph.nodes = b.hypergraph.nodes) (he : a.hypergraph.edges = b.hypergraph.edges)
    (ha : a.hypergraph.adjacency = b.hypergraph.adjacency)
    (hp : Drv.samePairsMultiset a b = true) (hwf : a.wf = true) :
    (∀ sa, LOHG.toStrict B a = .ok sa →
      ∃ sb, LOHG.toStrict B b = .ok sb ∧ sa.toPlain ≅ sb.toPlain) ∧
    ((∃ sa, LOHG.toStrict B a = .ok sa) ↔ (∃ sb, LOHG.toStrict B b = .ok sb)) := by
  have hwfb := wf_of_samePairs a b hs ht hn he ha hp hwf
  refine ⟨fun sa hsa => ?_, ?_, ?_⟩
  · obtain ⟨sb, h1, _, h2, _⟩ := toStrict_samePairs_dir B hB a b hs ht hn he ha hp hwf sa hsa
    exact ⟨sb, h1, h2⟩
  · rintro ⟨sa, hsa⟩
    obtain ⟨sb, h1, _⟩ := toStrict_samePairs_dir B hB a b hs ht hn he ha hp hwf sa hsa
    exact ⟨sb, h1⟩
  · rintro ⟨sb, hsb⟩
    obtain ⟨sa, h1, _⟩ := toStrict_samePairs_dir B hB b a hs.symm ht.symm hn.symm he.symm ha.symm
      (samePairs_symm a b hp) hwfb sb hsb
    exact ⟨sa, h1⟩

/-- the complete picture: either both sides strictify, to well-formed strict diagrams that are
    isomorphic in both directions and carry the same edge labels in the same order, or both sides
    are the same panic (the `unwrap` of the failed quotient) -/
theorem toStrict_samePairs_full (B : Backend) (hB : B.Lawful) (a b : LOHG Nat Nat)
    (hs : a.sources = b.sources) (ht : a.targets = b.targets)
    (hn : a.hypergraph.nodes = b.hypergraph.nodes) (he : a.hypergraph.edges = b.hypergraph.edges)
    (ha : a.hypergraph.adjacency = b.hypergraph.adjacency)
    (hp : Drv.samePairsMultiset a b = true) (hwf : a.wf = true) :
    (∃ sa sb, LOHG.toStrict B a = .ok sa ∧ LOHG.toStrict B b = .ok sb ∧ sa.wf = true ∧
        sb.wf = true ∧ sa.toPlain ≅ sb.toPlain ∧ sb.toPlain ≅ sa.toPlain ∧ sb.h.x = sa.h.x) ∨
    (LOHG.toStrict B a = .panic "to_strict:unwrap-quotient" ∧
      LOHG.toStrict B b = .panic "to_strict:unwrap-quotient") := by
  have hwfb := wf_of_samePairs a b hs ht hn he ha hp hwf
  by_cases hc : LabelConsistent a.hypergraph
  · left
    obtain ⟨sa, hsa, hwa, _⟩ := toStrict_isQuot B hB a hwf hc
    obtain ⟨sb, hsb, hwb, h1, h2, h3⟩ :=
      toStrict_samePairs_dir B hB a b hs ht hn he ha hp hwf sa hsa
    exact ⟨sa, sb, hsa, hsb, hwa, hwb, h1, h2, h3⟩
  · right
    have hcb : ¬ LabelConsistent b.hypergraph :=
      fun h => hc ((labelConsistent_of_samePairs a b hn hp).2 h)
    exact ⟨(toStrict_ok_iff B hB a hwf).2 hc, (toStrict_ok_iff B hB b hwfb).2 hcb⟩

/-- when strictification fails, it fails identically -/
theorem toStrict_samePairs_fail (B : Backend) (hB : B.Lawful) (a b : LOHG Nat Nat)
    (hs : a.sources = b.sources) (ht : a.targets = b.targets)
    (hn : a.hypergraph.nodes = b.hypergraph.nodes) (he : a.hypergraph.edges = b.hypergraph.edges)
    (ha : a.hypergraph.adjacency = b.hypergraph.adjacency)
    (hp : Drv.samePairsMultiset a b = true) (hwf : a.wf = true)
    (hno : ¬ ∃ sa, LOHG.toStrict B a = .ok sa) : LOHG.toStrict B a = LOHG.toStrict B b := by
  rcases toStrict_samePairs_full B hB a b hs ht hn he ha hp hwf with
    ⟨sa, _, h1, _⟩ | ⟨h1, h2⟩
  · exact absurd ⟨sa, h1⟩ hno
  · rw [h1, h2]

/-! ### 5. concrete inputs -/

/-- five nodes, one hyperedge `0,2 → 4`, pending pairs `0 ~ 1`, `2 ~ 3` -/
def exA : LOHG Nat Nat :=
  ⟨[0, 1], [4, 3], ⟨[10, 10, 11, 11, 12], [7], [⟨[0, 2], [4]⟩], ([0, 2], [1, 3])⟩⟩

/-- the same diagram with the pairs listed in the other order and flipped: `3 ~ 2`, `0 ~ 1` -/
def exB : LOHG Nat Nat :=
  ⟨[0, 1], [4, 3], ⟨[10, 10, 11, 11, 12], [7], [⟨[0, 2], [4]⟩], ([3, 0], [2, 1])⟩⟩

/-- a different set of unifications: `0 ~ 1`, `2 ~ 2` -/
def exC : LOHG Nat Nat :=
  ⟨[0, 1], [4, 3], ⟨[10, 10, 11, 11, 12], [7], [⟨[0, 2], [4]⟩], ([0, 2], [1, 2])⟩⟩

example : Drv.samePairsMultiset exA exB = true := by decide
example : Drv.samePairsMultiset exA exC = false := by decide
/-- unequal-length quotient lists are rejected by the comparator itself -/
example : Drv.samePairsMultiset exA
    ⟨[0, 1], [4, 3], ⟨[10, 10, 11, 11, 12], [7], [⟨[0, 2], [4]⟩], ([3, 0, 4], [2, 1])⟩⟩ = false := by
  decide
/-- a repeated pair is counted: `{0~1, 0~1}` is not `{0~1, 2~3}` although … -/
example : Drv.samePairsMultiset
    ⟨[], [], ⟨[10, 10, 11, 11], [], [], ([0, 0], [1, 1])⟩⟩
    ⟨[], [], ⟨[10, 10, 11, 11], [], [], ([0, 2], [1, 3])⟩⟩ = false := by decide
/-- … the same multiset with repetitions and a self pair, reordered and flipped, is accepted -/
example : Drv.samePairsMultiset
    ⟨[], [], ⟨[10, 10, 11, 11], [], [], ([0, 2, 0], [1, 2, 1])⟩⟩
    ⟨[], [], ⟨[10, 10, 11, 11], [], [], ([1, 1, 2], [0, 0, 2])⟩⟩ = true := by decide

/-- `samePairs_perm` on the example -/
example : (Drv.pairsNorm exA).Perm (Drv.pairsNorm exB) :=
  (samePairs_perm exA exB (by decide)).1

/-- `samePairs_eqvGen` on the example: `3 ~ 2` in both -/
example : EqvGen (pairsRel exA) 3 2 ↔ EqvGen (pairsRel exB) 3 2 :=
  samePairs_eqvGen exA exB (by decide) 3 2

/-- the hypotheses of `toStrict_samePairs` hold for `exA`, `exB` -/
example : exA.sources = exB.sources ∧ exA.targets = exB.targets ∧
    exA.hypergraph.nodes = exB.hypergraph.nodes ∧ exA.hypergraph.edges = exB.hypergraph.edges ∧
    exA.hypergraph.adjacency = exB.hypergraph.adjacency ∧
    Drv.samePairsMultiset exA exB = true ∧ exA.wf = true :=
  ⟨rfl, rfl, rfl, rfl, rfl, by decide, by decide⟩

/-- … and with the Vec backend both sides denote the very same strict diagram here -/
example : (OHG.toPlain <$> LOHG.toStrict vecBackend exA) =
      .ok ⟨[10, 11, 12], [⟨7, [0, 1], [2]⟩], [0, 0], [2, 1]⟩ ∧
    (OHG.toPlain <$> LOHG.toStrict vecBackend exB) =
      .ok ⟨[10, 11, 12], [⟨7, [0, 1], [2]⟩], [0, 0], [2, 1]⟩ := ⟨by decide, by decide⟩

example : ∀ sa, LOHG.toStrict vecBackend exA = .ok sa →
    ∃ sb, LOHG.toStrict vecBackend exB = .ok sb ∧ sa.toPlain ≅ sb.toPlain :=
  (toStrict_samePairs vecBackend vecBackend_lawful exA exB rfl rfl rfl rfl rfl (by decide)
    (by decide)).1

end OH.LaxDenote
