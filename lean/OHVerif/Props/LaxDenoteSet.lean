/-
  The SET comparator of pending unifications (`Drv.samePairsSet`, Model/DriverLax.lean) used by the
  third tier of `Drv.laxDenoteRel` and by the C09 history comparison is sound — for WELL-FORMED
  diagrams.

  `Drv.samePairsSet a b` says: both diagrams list as many left ends as right ends, and the pending
  unifications agree as a SET of unordered NON-TRIVIAL pairs (`Drv.pairsSet`: repetitions and self
  pairs `(i, i)` are dropped).  Here:

  * `mem_pairsSet`, `samePairsSet_iff_set`, `samePairsSet_iff`: the Boolean, read as a statement;
  * `samePairsSet_of_multiset`: it is weaker than `Drv.samePairsMultiset` (strictly: `exS`/`exT`);
  * `samePairsSet_eqvGen`: accepted diagrams generate the same equivalence on nodes;
  * `wf_of_samePairsSet`: well-formedness transfers from `a` to `b` PROVIDED the self pairs of `b` are
    in range (nothing in `a` constrains them);
  * `toStrict_samePairsSet` (+ `_full`, `_fail`): for every lawful backend, two well-formed accepted
    diagrams strictify to isomorphic strict diagrams, and one succeeds iff the other does.

  DISCREPANCY (see `wfb_needed`).  Unlike the multiset comparator, `samePairsSet` does NOT transfer
  well-formedness: `b` may carry a self pair `(7, 7)` with `7` out of range, which the comparator
  ignores.  Then `a` strictifies and `b` panics (`cc:index`).  So `toStrict_samePairsSet` needs
  `b.wf = true` as a hypothesis; the driver's tier 3 accepts on `samePairsSet` BEFORE looking at
  `b.wf`.
-/
import OHVerif.Props.LaxDenote

namespace OH.LaxDenoteSet
open OH OH.LaxStrict OH.LaxIso OH.C09 OH.Drv OH.LaxDenote Relation

/-! ### 1. the Boolean, read as a statement about sets of unordered pairs -/

/-- the members of `pairsSet` are the non-trivial members of `pairsNorm` -/
theorem mem_pairsSet (d : LOHG Nat Nat) (p : Nat × Nat) :
    p ∈ Drv.pairsSet d ↔ p ∈ Drv.pairsNorm d ∧ p.1 ≠ p.2 := by
  unfold pairsSet
  rw [List.mem_eraseDups, List.mem_filter]
  simp

/-- every member of `pairsNorm` is a normalised pair -/
theorem pairsNorm_shape (d : LOHG Nat Nat) (p : Nat × Nat) (h : p ∈ Drv.pairsNorm d) :
    p = (min p.1 p.2, max p.1 p.2) := by
  obtain ⟨x, y, _, rfl⟩ := (mem_pairsNorm d p).1 h
  rw [Prod.mk.injEq]
  simp only
  omega

/-- the cleanest reflection: equal lengths on both sides and `pairsSet a`, `pairsSet b` have the same
    members -/
theorem samePairsSet_iff_set (a b : LOHG Nat Nat) : Drv.samePairsSet a b = true ↔
    (a.hypergraph.quotient.1.length = a.hypergraph.quotient.2.length ∧
      b.hypergraph.quotient.1.length = b.hypergraph.quotient.2.length ∧
      ∀ p, p ∈ Drv.pairsSet a ↔ p ∈ Drv.pairsSet b) := by
  simp only [samePairsSet, Bool.and_eq_true, beq_iff_eq, List.all_eq_true, List.contains_iff_mem]
  constructor
  · rintro ⟨⟨⟨h1, h2⟩, h3⟩, h4⟩
    exact ⟨h1, h2, fun p => ⟨h3 p, h4 p⟩⟩
  · rintro ⟨h1, h2, h3⟩
    exact ⟨⟨⟨h1, h2⟩, fun p hp => (h3 p).1 hp⟩, fun p hp => (h3 p).2 hp⟩

/-- `samePairsSet` holds exactly when both diagrams list as many left ends as right ends and every
    NON-TRIVIAL unordered pair is recorded by `a` iff it is recorded by `b` -/
theorem samePairsSet_iff (a b : LOHG Nat Nat) : Drv.samePairsSet a b = true ↔
    (a.hypergraph.quotient.1.length = a.hypergraph.quotient.2.length ∧
      b.hypergraph.quotient.1.length = b.hypergraph.quotient.2.length ∧
      ∀ x y, x ≠ y →
        ((min x y, max x y) ∈ Drv.pairsNorm a ↔ (min x y, max x y) ∈ Drv.pairsNorm b)) := by
  rw [samePairsSet_iff_set]
  refine and_congr_right fun _ => and_congr_right fun _ => ?_
  constructor
  · intro h x y hxy
    have hne : (min x y, max x y).1 ≠ (min x y, max x y).2 := by simp only; omega
    constructor
    · intro hm
      exact ((mem_pairsSet b _).1 ((h _).1 ((mem_pairsSet a _).2 ⟨hm, hne⟩))).1
    · intro hm
      exact ((mem_pairsSet a _).1 ((h _).2 ((mem_pairsSet b _).2 ⟨hm, hne⟩))).1
  · intro h p
    rw [mem_pairsSet, mem_pairsSet]
    constructor
    · rintro ⟨hm, hne⟩
      refine ⟨?_, hne⟩
      have hs := pairsNorm_shape a p hm
      rw [hs] at hm ⊢
      exact (h p.1 p.2 hne).1 hm
    · rintro ⟨hm, hne⟩
      refine ⟨?_, hne⟩
      have hs := pairsNorm_shape b p hm
      rw [hs] at hm ⊢
      exact (h p.1 p.2 hne).2 hm

/-- … equivalently, in terms of the recorded pairs themselves: a pair of DISTINCT nodes is recorded
    by `a` in one of the two orientations iff it is recorded by `b` in one of the two orientations -/
theorem samePairsSet_iff_rel (a b : LOHG Nat Nat) : Drv.samePairsSet a b = true ↔
    (a.hypergraph.quotient.1.length = a.hypergraph.quotient.2.length ∧
      b.hypergraph.quotient.1.length = b.hypergraph.quotient.2.length ∧
      ∀ x y, x ≠ y → ((pairsRel a x y ∨ pairsRel a y x) ↔ (pairsRel b x y ∨ pairsRel b y x))) := by
  rw [samePairsSet_iff]
  refine and_congr_right fun _ => and_congr_right fun _ => ?_
  constructor
  · intro h x y hxy
    rw [← unord_mem_pairsNorm, ← unord_mem_pairsNorm]
    exact h x y hxy
  · intro h x y hxy
    rw [unord_mem_pairsNorm, unord_mem_pairsNorm]
    exact h x y hxy

/-- the comparison is symmetric -/
theorem samePairsSet_symm (a b : LOHG Nat Nat) (h : Drv.samePairsSet a b = true) :
    Drv.samePairsSet b a = true := by
  obtain ⟨h1, h2, h3⟩ := (samePairsSet_iff_set a b).1 h
  exact (samePairsSet_iff_set b a).2 ⟨h2, h1, fun p => (h3 p).symm⟩

/-- the comparison is reflexive on diagrams with as many left ends as right ends -/
theorem samePairsSet_refl (a : LOHG Nat Nat)
    (h : a.hypergraph.quotient.1.length = a.hypergraph.quotient.2.length) :
    Drv.samePairsSet a a = true :=
  (samePairsSet_iff_set a a).2 ⟨h, h, fun _ => Iff.rfl⟩

/-- the comparison is transitive -/
theorem samePairsSet_trans (a b c : LOHG Nat Nat) (h : Drv.samePairsSet a b = true)
    (h' : Drv.samePairsSet b c = true) : Drv.samePairsSet a c = true := by
  obtain ⟨h1, _, h3⟩ := (samePairsSet_iff_set a b).1 h
  obtain ⟨_, h2', h3'⟩ := (samePairsSet_iff_set b c).1 h'
  exact (samePairsSet_iff_set a c).2 ⟨h1, h2', fun p => (h3 p).trans (h3' p)⟩

/-! ### 2. the set comparator is weaker than the multiset comparator -/

/-- THE NEW COMPARATOR ACCEPTS WHATEVER THE OLD ONE ACCEPTED -/
theorem samePairsSet_of_multiset (a b : LOHG Nat Nat) (h : Drv.samePairsMultiset a b = true) :
    Drv.samePairsSet a b = true := by
  obtain ⟨hp, h1, h2⟩ := samePairs_perm a b h
  refine (samePairsSet_iff_set a b).2 ⟨h1, h2, fun p => ?_⟩
  rw [mem_pairsSet, mem_pairsSet, hp.mem_iff]

/-! ### 3. the recorded pairs generate the same equivalence -/

/-- it is enough that the NON-TRIVIAL normalised pairs of `a` all occur among those of `b` -/
theorem eqvGen_of_subset_ne (a b : LOHG Nat Nat)
    (h : ∀ x y, x ≠ y → (min x y, max x y) ∈ Drv.pairsNorm a → (min x y, max x y) ∈ Drv.pairsNorm b)
    {i j : Nat} (e : EqvGen (pairsRel a) i j) : EqvGen (pairsRel b) i j := by
  refine eqvGen_of_gen (fun x y hxy => ?_) e
  by_cases hne : x = y
  · subst hne; exact EqvGen.refl _
  · have := h x y hne ((unord_mem_pairsNorm a x y).2 (Or.inl hxy))
    rcases (unord_mem_pairsNorm b x y).1 this with h1 | h1
    · exact EqvGen.rel _ _ h1
    · exact EqvGen.symm _ _ (EqvGen.rel _ _ h1)

/-- THE TWO DIAGRAMS IDENTIFY THE SAME NODES: self pairs and repetitions do not change the generated
    equivalence (it is reflexive, and only membership of a pair matters) -/
theorem samePairsSet_eqvGen (a b : LOHG Nat Nat) (h : Drv.samePairsSet a b = true) :
    ∀ i j, EqvGen (pairsRel a) i j ↔ EqvGen (pairsRel b) i j := by
  obtain ⟨_, _, hp⟩ := (samePairsSet_iff a b).1 h
  intro i j
  exact ⟨eqvGen_of_subset_ne a b (fun x y hxy hm => (hp x y hxy).1 hm),
    eqvGen_of_subset_ne b a (fun x y hxy hm => (hp x y hxy).2 hm)⟩

/-! ### 4. well-formedness, label consistency -/

/-- well-formedness transfers as soon as the SELF pairs of `b` are in range: the other pairs of `b`
    are pairs of `a`.  (Without `hself` it does not: `wfb_needed`.) -/
theorem wf_of_samePairsSet (a b : LOHG Nat Nat) (hs : a.sources = b.sources)
    (ht : a.targets = b.targets) (hn : a.hypergraph.nodes = b.hypergraph.nodes)
    (he : a.hypergraph.edges = b.hypergraph.edges)
    (ha : a.hypergraph.adjacency = b.hypergraph.adjacency)
    (hp : Drv.samePairsSet a b = true) (hwf : a.wf = true)
    (hself : ∀ i, pairsRel b i i → i < b.hypergraph.nodes.length) : b.wf = true := by
  obtain ⟨_, hlb, hset⟩ := (samePairsSet_iff a b).1 hp
  have hw := (LaxEdit.owf_iff a).mp hwf
  have key : ∀ x y, pairsRel b x y →
      x < b.hypergraph.nodes.length ∧ y < b.hypergraph.nodes.length := by
    intro x y hxy
    by_cases hne : x = y
    · subst hne; exact ⟨hself x hxy, hself x hxy⟩
    · have hm := (hset x y hne).2 ((unord_mem_pairsNorm b x y).2 (Or.inl hxy))
      rw [← hn]
      rcases (unord_mem_pairsNorm a x y).1 hm with h1 | h1
      · exact pairs_lt _ hw.hg h1
      · exact (pairs_lt _ hw.hg h1).symm
  rw [LaxEdit.owf_iff]
  refine ⟨⟨?_, ?_, hlb, ?_, ?_⟩, ?_, ?_⟩
  · rw [← he, ← ha]; exact hw.hg.len
  · rw [← ha, ← hn]; exact hw.hg.adj
  · intro v hv
    obtain ⟨k, hk, hvk⟩ := List.mem_iff_getElem.1 hv
    have hk2 : k < b.hypergraph.quotient.2.length := by omega
    exact (key v (b.hypergraph.quotient.2[k]) ⟨k, by rw [List.getElem?_eq_getElem hk, hvk],
      List.getElem?_eq_getElem hk2⟩).1
  · intro v hv
    obtain ⟨k, hk, hvk⟩ := List.mem_iff_getElem.1 hv
    have hk1 : k < b.hypergraph.quotient.1.length := by omega
    exact (key (b.hypergraph.quotient.1[k]) v ⟨k, List.getElem?_eq_getElem hk1,
      by rw [List.getElem?_eq_getElem hk, hvk]⟩).2
  · rw [← hs, ← hn]; exact hw.src
  · rw [← ht, ← hn]; exact hw.tgt

/-- the converse reading: for accepted `a`, `b` with `a` well formed, `b` is well formed EXACTLY when
    its self pairs are in range -/
theorem wf_iff_of_samePairsSet (a b : LOHG Nat Nat) (hs : a.sources = b.sources)
    (ht : a.targets = b.targets) (hn : a.hypergraph.nodes = b.hypergraph.nodes)
    (he : a.hypergraph.edges = b.hypergraph.edges)
    (ha : a.hypergraph.adjacency = b.hypergraph.adjacency)
    (hp : Drv.samePairsSet a b = true) (hwf : a.wf = true) :
    b.wf = true ↔ ∀ i, pairsRel b i i → i < b.hypergraph.nodes.length :=
  ⟨fun hwfb _ hi => (pairs_lt b.hypergraph ((LaxEdit.owf_iff b).mp hwfb).hg hi).1,
    wf_of_samePairsSet a b hs ht hn he ha hp hwf⟩

theorem labelConsistent_of_samePairsSet (a b : LOHG Nat Nat)
    (hn : a.hypergraph.nodes = b.hypergraph.nodes) (hp : Drv.samePairsSet a b = true) :
    LabelConsistent a.hypergraph ↔ LabelConsistent b.hypergraph := by
  have he := samePairsSet_eqvGen a b hp
  constructor
  · intro hc i j hij
    rw [← hn]
    exact hc i j ((he i j).2 hij)
  · intro hc i j hij
    rw [hn]
    exact hc i j ((he i j).1 hij)

/-! ### 5. the denoted strict diagrams -/

/-- one direction, used twice -/
theorem toStrict_samePairsSet_dir (B : Backend) (hB : B.Lawful) (a b : LOHG Nat Nat)
    (hs : a.sources = b.sources) (ht : a.targets = b.targets)
    (hn : a.hypergraph.nodes = b.hypergraph.nodes) (he : a.hypergraph.edges = b.hypergraph.edges)
    (ha : a.hypergraph.adjacency = b.hypergraph.adjacency)
    (hp : Drv.samePairsSet a b = true) (hwf : a.wf = true) (hwfb : b.wf = true)
    (sa : OHG Nat Nat) (hsa : LOHG.toStrict B a = .ok sa) :
    ∃ sb, LOHG.toStrict B b = .ok sb ∧ sb.wf = true ∧ sa.toPlain ≅ sb.toPlain ∧
      sb.toPlain ≅ sa.toPlain ∧ sb.h.x = sa.h.x := by
  obtain ⟨hca, hwa, hqa, hxa⟩ := toStrict_quot_of_ok B hB a sa hwf hsa
  have hcb := (labelConsistent_of_samePairsSet a b hn hp).1 hca
  obtain ⟨sb, hsb, hwb, hqb, hxb⟩ := toStrict_isQuot B hB b hwfb hcb
  have hpl := plain_eq a b hs ht hn he ha
  rw [← hpl] at hqb
  have hR : ∀ i j, i < (plain a).n → j < (plain a).n →
      (EqvGen (fun x y => x < (plain a).n ∧ y < (plain a).n ∧ pairsRel a x y) i j ↔
        EqvGen (fun x y => x < (plain a).n ∧ y < (plain a).n ∧ pairsRel b x y) i j) := by
    intro i j _ _
    have hwa' := ((LaxEdit.owf_iff a).mp hwf).hg
    have hwb' := ((LaxEdit.owf_iff b).mp hwfb).hg
    have e1 := eqvGen_restrict_iff (n := (plain a).n) (R := pairsRel a)
      (fun x y hxy => pairs_lt a.hypergraph hwa' hxy) i j
    have e2 := eqvGen_restrict_iff (n := (plain a).n) (R := pairsRel b)
      (fun x y hxy => by
        have := pairs_lt b.hypergraph hwb' hxy
        rw [← hn] at this
        exact this) i j
    exact e1.trans ((samePairsSet_eqvGen a b hp i j).trans e2.symm)
  have hP := plain_wf a hwf
  refine ⟨sb, hsb, hwb, isQuot_unique hP hqa hqb hR, isQuot_unique hP hqb hqa ?_, ?_⟩
  · intro i j hi hj
    exact (hR i j hi hj).symm
  · rw [hxb, hxa, he]

/-- THE ACCEPTED TIER IS SOUND ON WELL-FORMED DIAGRAMS.  Two well-formed lax diagrams with the same
    interfaces, nodes, hyperedge labels and adjacency whose pending unifications agree as a set of
    unordered non-trivial pairs denote isomorphic strict diagrams (every lawful backend), and
    strictification succeeds on one exactly when it succeeds on the other.  `hwfb` cannot be dropped
    (`wfb_needed`); it can be replaced by "the self pairs of `b` are in range"
    (`wf_of_samePairsSet`). -/
theorem toStrict_samePairsSet (B : Backend) (hB : B.Lawful) (a b : LOHG Nat Nat)
    (hs : a.sources = b.sources) (ht : a.targets = b.targets)
    (hn : a.hypergraph.nodes = b.hypergraph.nodes) (he : a.hypergraph.edges = b.hypergraph.edges)
    (ha : a.hypergraph.adjacency = b.hypergraph.adjacency)
    (hp : Drv.samePairsSet a b = true) (hwfa : a.wf = true) (hwfb : b.wf = true) :
    (∀ sa, LOHG.toStrict B a = .ok sa →
      ∃ sb, LOHG.toStrict B b = .ok sb ∧ sa.toPlain ≅ sb.toPlain) ∧
    ((∃ sa, LOHG.toStrict B a = .ok sa) ↔ (∃ sb, LOHG.toStrict B b = .ok sb)) := by
  refine ⟨fun sa hsa => ?_, ?_, ?_⟩
  · obtain ⟨sb, h1, _, h2, _⟩ :=
      toStrict_samePairsSet_dir B hB a b hs ht hn he ha hp hwfa hwfb sa hsa
    exact ⟨sb, h1, h2⟩
  · rintro ⟨sa, hsa⟩
    obtain ⟨sb, h1, _⟩ := toStrict_samePairsSet_dir B hB a b hs ht hn he ha hp hwfa hwfb sa hsa
    exact ⟨sb, h1⟩
  · rintro ⟨sb, hsb⟩
    obtain ⟨sa, h1, _⟩ := toStrict_samePairsSet_dir B hB b a hs.symm ht.symm hn.symm he.symm
      ha.symm (samePairsSet_symm a b hp) hwfb hwfa sb hsb
    exact ⟨sa, h1⟩

/-- the complete picture: either both sides strictify, to well-formed strict diagrams that are
    isomorphic in both directions and carry the same edge labels in the same order, or both sides
    are the same panic (the `unwrap` of the failed quotient) -/
theorem toStrict_samePairsSet_full (B : Backend) (hB : B.Lawful) (a b : LOHG Nat Nat)
    (hs : a.sources = b.sources) (ht : a.targets = b.targets)
    (hn : a.hypergraph.nodes = b.hypergraph.nodes) (he : a.hypergraph.edges = b.hypergraph.edges)
    (ha : a.hypergraph.adjacency = b.hypergraph.adjacency)
    (hp : Drv.samePairsSet a b = true) (hwfa : a.wf = true) (hwfb : b.wf = true) :
    (∃ sa sb, LOHG.toStrict B a = .ok sa ∧ LOHG.toStrict B b = .ok sb ∧ sa.wf = true ∧
        sb.wf = true ∧ sa.toPlain ≅ sb.toPlain ∧ sb.toPlain ≅ sa.toPlain ∧ sb.h.x = sa.h.x) ∨
    (LOHG.toStrict B a = .panic "to_strict:unwrap-quotient" ∧
      LOHG.toStrict B b = .panic "to_strict:unwrap-quotient") := by
  by_cases hc : LabelConsistent a.hypergraph
  · left
    obtain ⟨sa, hsa, hwa, _⟩ := toStrict_isQuot B hB a hwfa hc
    obtain ⟨sb, hsb, hwb, h1, h2, h3⟩ :=
      toStrict_samePairsSet_dir B hB a b hs ht hn he ha hp hwfa hwfb sa hsa
    exact ⟨sa, sb, hsa, hsb, hwa, hwb, h1, h2, h3⟩
  · right
    have hcb : ¬ LabelConsistent b.hypergraph :=
      fun h => hc ((labelConsistent_of_samePairsSet a b hn hp).2 h)
    exact ⟨(toStrict_ok_iff B hB a hwfa).2 hc, (toStrict_ok_iff B hB b hwfb).2 hcb⟩

/-- when strictification fails, it fails identically -/
theorem toStrict_samePairsSet_fail (B : Backend) (hB : B.Lawful) (a b : LOHG Nat Nat)
    (hs : a.sources = b.sources) (ht : a.targets = b.targets)
    (hn : a.hypergraph.nodes = b.hypergraph.nodes) (he : a.hypergraph.edges = b.hypergraph.edges)
    (ha : a.hypergraph.adjacency = b.hypergraph.adjacency)
    (hp : Drv.samePairsSet a b = true) (hwfa : a.wf = true) (hwfb : b.wf = true)
    (hno : ¬ ∃ sa, LOHG.toStrict B a = .ok sa) : LOHG.toStrict B a = LOHG.toStrict B b := by
  rcases toStrict_samePairsSet_full B hB a b hs ht hn he ha hp hwfa hwfb with
    ⟨sa, _, h1, _⟩ | ⟨h1, h2⟩
  · exact absurd ⟨sa, h1⟩ hno
  · rw [h1, h2]

/-! ### 6. `b.wf` cannot be dropped -/

/-- one node, interface `0 → 0`, nothing pending -/
def cxA : LOHG Nat Nat := ⟨[0], [0], ⟨[10], [], [], ([], [])⟩⟩
/-- the same with the out-of-range self pair `7 ~ 7` pending -/
def cxB : LOHG Nat Nat := ⟨[0], [0], ⟨[10], [], [], ([7], [7])⟩⟩

/-- COUNTEREXAMPLE to `toStrict_samePairsSet` without `hwfb` (and to a `wf_of_samePairs` analogue
    without `hself`): all shared fields equal, `samePairsSet` accepts, `a` is well formed and
    strictifies, but `b` is ill formed and its strictification panics (lawful Vec backend) -/
theorem wfb_needed :
    cxA.sources = cxB.sources ∧ cxA.targets = cxB.targets ∧
    cxA.hypergraph.nodes = cxB.hypergraph.nodes ∧ cxA.hypergraph.edges = cxB.hypergraph.edges ∧
    cxA.hypergraph.adjacency = cxB.hypergraph.adjacency ∧
    Drv.samePairsSet cxA cxB = true ∧ cxA.wf = true ∧ cxB.wf = false ∧
    (∃ sa, LOHG.toStrict vecBackend cxA = .ok sa) ∧
    LOHG.toStrict vecBackend cxB = .panic "cc:index" ∧
    ¬ ((∃ sa, LOHG.toStrict vecBackend cxA = .ok sa) ↔
        (∃ sb, LOHG.toStrict vecBackend cxB = .ok sb)) := by
  have hA : ∃ sa, LOHG.toStrict vecBackend cxA = .ok sa := by
    have h : (OHG.toPlain <$> LOHG.toStrict vecBackend cxA) = .ok ⟨[10], [], [0], [0]⟩ := by decide
    cases hx : LOHG.toStrict vecBackend cxA with
    | ok sa => exact ⟨sa, rfl⟩
    | none => rw [hx] at h; cases h
    | panic s => rw [hx] at h; cases h
  have hB : LOHG.toStrict vecBackend cxB = .panic "cc:index" := by
    have h : (OHG.toPlain <$> LOHG.toStrict vecBackend cxB) = .panic "cc:index" := by decide
    cases hx : LOHG.toStrict vecBackend cxB with
    | ok sa => rw [hx] at h; cases h
    | none => rw [hx] at h; cases h
    | panic s => rw [hx] at h; cases h; rfl
  refine ⟨rfl, rfl, rfl, rfl, rfl, by decide, by decide, by decide, hA, hB, ?_⟩
  intro h
  obtain ⟨sb, hsb⟩ := h.1 hA
  rw [hB] at hsb
  cases hsb

/-- the multiset comparator rejects this pair (it counts the self pair) -/
example : Drv.samePairsMultiset cxA cxB = false := by decide

/-! ### 7. concrete inputs -/

/-- five nodes, one hyperedge `0,2 → 4`; pending `0 ~ 1`, `2 ~ 3`, `2 ~ 3` again, and the self pair
    `1 ~ 1` -/
def exS : LOHG Nat Nat :=
  ⟨[0, 1], [4, 3], ⟨[10, 10, 11, 11, 12], [7], [⟨[0, 2], [4]⟩], ([0, 2, 2, 1], [1, 3, 3, 1])⟩⟩

/-- the same diagram with the repetition and the self pair dropped, the pairs listed in the other
    order and one flipped: `3 ~ 2`, `0 ~ 1` -/
def exT : LOHG Nat Nat :=
  ⟨[0, 1], [4, 3], ⟨[10, 10, 11, 11, 12], [7], [⟨[0, 2], [4]⟩], ([3, 0], [2, 1])⟩⟩

/-- accepted by the set comparator … -/
example : Drv.samePairsSet exS exT = true := by decide
/-- … and rejected by the multiset comparator: the new comparator is STRICTLY weaker -/
example : Drv.samePairsMultiset exS exT = false := by decide

/-- different unifications are rejected by both: `0 ~ 1` versus `0 ~ 2` -/
example : Drv.samePairsSet
    ⟨[], [], ⟨[10, 10, 10], [], [], ([0], [1])⟩⟩
    ⟨[], [], ⟨[10, 10, 10], [], [], ([0], [2])⟩⟩ = false := by decide
example : Drv.samePairsMultiset
    ⟨[], [], ⟨[10, 10, 10], [], [], ([0], [1])⟩⟩
    ⟨[], [], ⟨[10, 10, 10], [], [], ([0], [2])⟩⟩ = false := by decide

/-- unequal-length quotient lists are rejected by the comparator itself -/
example : Drv.samePairsSet exS
    ⟨[0, 1], [4, 3], ⟨[10, 10, 11, 11, 12], [7], [⟨[0, 2], [4]⟩], ([3, 0, 4], [2, 1])⟩⟩ = false := by
  decide

/-- `samePairsSet_of_multiset` on the examples of `LaxDenote` -/
example : Drv.samePairsSet LaxDenote.exA LaxDenote.exB = true :=
  samePairsSet_of_multiset _ _ (by decide)

/-- `samePairsSet_iff` on the example: `2 ~ 3` is recorded by both -/
example : (min 3 2, max 3 2) ∈ Drv.pairsNorm exS ↔ (min 3 2, max 3 2) ∈ Drv.pairsNorm exT :=
  ((samePairsSet_iff exS exT).1 (by decide)).2.2 3 2 (by decide)

/-- `samePairsSet_eqvGen` on the example: `3 ~ 2` in both -/
example : EqvGen (pairsRel exS) 3 2 ↔ EqvGen (pairsRel exT) 3 2 :=
  samePairsSet_eqvGen exS exT (by decide) 3 2

/-- the hypotheses of `toStrict_samePairsSet` hold for `exS`, `exT` -/
example : exS.sources = exT.sources ∧ exS.targets = exT.targets ∧
    exS.hypergraph.nodes = exT.hypergraph.nodes ∧ exS.hypergraph.edges = exT.hypergraph.edges ∧
    exS.hypergraph.adjacency = exT.hypergraph.adjacency ∧
    Drv.samePairsSet exS exT = true ∧ exS.wf = true ∧ exT.wf = true :=
  ⟨rfl, rfl, rfl, rfl, rfl, by decide, by decide, by decide⟩

/-- the hypothesis `hself` of `wf_of_samePairsSet` holds for `a := exT`, `b := exS` (the only self
    pair of `exS` is `1 ~ 1`) -/
example : ∀ i, pairsRel exS i i → i < exS.hypergraph.nodes.length := by
  intro i hi
  rw [pairs_iff_mem_zip] at hi
  have : (i, i) ∈ [(0, 1), (2, 3), (2, 3), (1, 1)] := hi
  simp only [List.mem_cons, Prod.mk.injEq, List.not_mem_nil, or_false] at this
  show i < 5
  omega

/-- … and with the Vec backend both sides denote the very same strict diagram here -/
example : (OHG.toPlain <$> LOHG.toStrict vecBackend exS) =
      .ok ⟨[10, 11, 12], [⟨7, [0, 1], [2]⟩], [0, 0], [2, 1]⟩ ∧
    (OHG.toPlain <$> LOHG.toStrict vecBackend exT) =
      .ok ⟨[10, 11, 12], [⟨7, [0, 1], [2]⟩], [0, 0], [2, 1]⟩ := ⟨by decide, by decide⟩

example : ∀ sa, LOHG.toStrict vecBackend exS = .ok sa →
    ∃ sb, LOHG.toStrict vecBackend exT = .ok sb ∧ sa.toPlain ≅ sb.toPlain :=
  (toStrict_samePairsSet vecBackend vecBackend_lawful exS exT rfl rfl rfl rfl rfl (by decide)
    (by decide) (by decide)).1

end OH.LaxDenoteSet
