/-
  The small Boolean / list-valued ORACLES of the correspondence driver decide what they are meant
  to decide.

  * `Drv.hgFailing`, `Drv.ohgFailing` (Model/DriverStrict.lean): the list of ALL documented
    conditions of `Hypergraph::new` / `OpenHypergraph::new` that fail, each evaluated on its own.
    Here: membership is exactly "the named condition fails" (`mem_hgFailing_iff`,
    `mem_ohgFailing_iff`); the list is empty iff the model accepts (`…_nil_iff`); the error the model
    reports is a member (`hg_error_mem`, `ohg_error_mem`) — in fact the model's answer is
    DETERMINED by the list: it reports its head (`hg_validate_eq_head`, `ohg_validate_eq_head`).
  * `Drv.arrowFailing` against `Graph.HArrow.validate` (C18): same three facts, with NO
    well-formedness hypothesis (`arrowFailing_nil_iff`, `arrow_error_mem`, `mem_arrowFailing_iff`);
    under the hypotheses `C18.Hyp` of the C18 theorems the model reports the head of the list
    (`arrow_validate_eq_head`), and membership is read through the named conditions of C18
    (`mem_arrowFailing_named`).  See the DISCREPANCY note there for `NotNaturalS/T`.
  * `Sx.beq_iff`, `Sx.beq_eq`, `LawfulBEq Sx`: the model's structural `==` on the wire format is
    equality.  `Drv.rejectionRel`, `Drv.exact`: reflection of the definitions with `=`
    (`rejectionRel_agree_iff`, `exact_agree_iff`) and the whole driver lines (`hg_new_line`, …).
  * `Drv.sameUpToPairOrder`: implies the hypotheses of `LaxDenote.toStrict_samePairs`
    (`sameUpToPairOrder_toStrict`), full reading (`sameUpToPairOrder_iff`), reflexivity.
-/
import OHVerif.Props.C05
import OHVerif.Props.C18
import OHVerif.Props.LaxDenote

namespace OH.Oracles
open OH OH.Drv

/-! ## 1. `hgFailing` against `HG.validate` -/

/-- the condition an error of the checked hypergraph constructor names (the two cospan errors are
    never produced by `Hypergraph::new`) -/
def HGNamedFails (h : HG Nat Nat) : HGErr → Prop
  | .sourcesCount => h.s.len ≠ h.x.length
  | .targetsCount => h.t.len ≠ h.x.length
  | .sourcesSet => h.s.values.target ≠ h.w.length
  | .targetsSet => h.t.values.target ≠ h.w.length
  | .cospanSourceType => False
  | .cospanTargetType => False

/-- membership in the failing list is exactly failure of the named condition -/
theorem mem_hgFailing_iff (h : HG Nat Nat) (e : HGErr) :
    e ∈ Drv.hgFailing h ↔ HGNamedFails h e := by
  unfold Drv.hgFailing HGNamedFails
  by_cases h1 : h.s.len = h.x.length <;> by_cases h2 : h.t.len = h.x.length <;>
    by_cases h3 : h.s.values.target = h.w.length <;> by_cases h4 : h.t.values.target = h.w.length <;>
    cases e <;> simp [h1, h2, h3, h4]

/-- the same, spelled out variant by variant -/
theorem mem_hgFailing_cases (h : HG Nat Nat) :
    (HGErr.sourcesCount ∈ Drv.hgFailing h ↔ h.s.len ≠ h.x.length) ∧
    (HGErr.targetsCount ∈ Drv.hgFailing h ↔ h.t.len ≠ h.x.length) ∧
    (HGErr.sourcesSet ∈ Drv.hgFailing h ↔ h.s.values.target ≠ h.w.length) ∧
    (HGErr.targetsSet ∈ Drv.hgFailing h ↔ h.t.values.target ≠ h.w.length) ∧
    HGErr.cospanSourceType ∉ Drv.hgFailing h ∧ HGErr.cospanTargetType ∉ Drv.hgFailing h :=
  ⟨mem_hgFailing_iff h _, mem_hgFailing_iff h _, mem_hgFailing_iff h _, mem_hgFailing_iff h _,
    (mem_hgFailing_iff h _).1, (mem_hgFailing_iff h _).1⟩

/-- the verdict a list of failing conditions determines: accept when empty, else report the first -/
def headVerdict {ε α : Type} (a : α) : List ε → Except ε α
  | [] => .ok a
  | e :: _ => .error e

/-- FULL CHARACTERISATION: the model's answer is the head of the failing list -/
theorem hg_validate_eq_head (h : HG Nat Nat) :
    HG.validate h = headVerdict h (Drv.hgFailing h) := by
  unfold HG.validate Drv.hgFailing
  by_cases h1 : h.s.len = h.x.length <;> by_cases h2 : h.t.len = h.x.length <;>
    by_cases h3 : h.s.values.target = h.w.length <;> by_cases h4 : h.t.values.target = h.w.length <;>
    simp [h1, h2, h3, h4, headVerdict]

theorem hgFailing_nil_iff' (h : HG Nat Nat) : Drv.hgFailing h = [] ↔ HG.validate h = .ok h := by
  rw [hg_validate_eq_head]
  cases Drv.hgFailing h <;> simp [headVerdict]

/-- the failing list is empty iff the model accepts -/
theorem hgFailing_nil_iff (h : HG Nat Nat) :
    Drv.hgFailing h = [] ↔ ∃ h', HG.validate h = .ok h' := by
  rw [hg_validate_eq_head]
  cases Drv.hgFailing h <;> simp [headVerdict]

/-- the error the model reports is one of the failing conditions -/
theorem hg_error_mem (h : HG Nat Nat) (e : HGErr) (he : HG.validate h = .error e) :
    e ∈ Drv.hgFailing h := by
  rw [hg_validate_eq_head] at he
  cases hl : Drv.hgFailing h with
  | nil => rw [hl] at he; cases he
  | cons a l => rw [hl] at he; cases he; simp

/-- the driver line `hg.new` calls the oracle on the assembled record -/
theorem hg_new_error_mem (s t : IC FinFun) (w x : List Nat) (e : HGErr)
    (he : HG.new s t w x = .error e) : e ∈ Drv.hgFailing ⟨s, t, w, x⟩ :=
  hg_error_mem _ e he

/-! ## 2. `ohgFailing` against `OHG.validate` -/

def OHGNamedFails (s t : FinFun) (h : HG Nat Nat) : HGErr → Prop
  | .sourcesCount => h.s.len ≠ h.x.length
  | .targetsCount => h.t.len ≠ h.x.length
  | .sourcesSet => h.s.values.target ≠ h.w.length
  | .targetsSet => h.t.values.target ≠ h.w.length
  | .cospanSourceType => s.target ≠ h.w.length
  | .cospanTargetType => t.target ≠ h.w.length

theorem mem_ohgFailing_iff (s t : FinFun) (h : HG Nat Nat) (e : HGErr) :
    e ∈ Drv.ohgFailing s t h ↔ OHGNamedFails s t h e := by
  unfold Drv.ohgFailing Drv.hgFailing OHGNamedFails
  by_cases h1 : h.s.len = h.x.length <;> by_cases h2 : h.t.len = h.x.length <;>
    by_cases h3 : h.s.values.target = h.w.length <;> by_cases h4 : h.t.values.target = h.w.length <;>
    by_cases h5 : s.target = h.w.length <;> by_cases h6 : t.target = h.w.length <;>
    cases e <;> simp [h1, h2, h3, h4, h5, h6]

theorem mem_ohgFailing_cases (s t : FinFun) (h : HG Nat Nat) :
    (HGErr.sourcesCount ∈ Drv.ohgFailing s t h ↔ h.s.len ≠ h.x.length) ∧
    (HGErr.targetsCount ∈ Drv.ohgFailing s t h ↔ h.t.len ≠ h.x.length) ∧
    (HGErr.sourcesSet ∈ Drv.ohgFailing s t h ↔ h.s.values.target ≠ h.w.length) ∧
    (HGErr.targetsSet ∈ Drv.ohgFailing s t h ↔ h.t.values.target ≠ h.w.length) ∧
    (HGErr.cospanSourceType ∈ Drv.ohgFailing s t h ↔ s.target ≠ h.w.length) ∧
    (HGErr.cospanTargetType ∈ Drv.ohgFailing s t h ↔ t.target ≠ h.w.length) :=
  ⟨mem_ohgFailing_iff s t h _, mem_ohgFailing_iff s t h _, mem_ohgFailing_iff s t h _,
    mem_ohgFailing_iff s t h _, mem_ohgFailing_iff s t h _, mem_ohgFailing_iff s t h _⟩

/-- FULL CHARACTERISATION: the model's answer is the head of the failing list -/
theorem ohg_validate_eq_head (s t : FinFun) (h : HG Nat Nat) :
    OHG.validate ⟨s, t, h⟩ = headVerdict ⟨s, t, h⟩ (Drv.ohgFailing s t h) := by
  unfold OHG.validate Drv.ohgFailing
  rw [hg_validate_eq_head]
  cases hl : Drv.hgFailing h with
  | cons a l => simp [headVerdict]
  | nil =>
    by_cases h5 : s.target = h.w.length <;> by_cases h6 : t.target = h.w.length <;>
      simp [headVerdict, h5, h6]

theorem ohgFailing_nil_iff' (s t : FinFun) (h : HG Nat Nat) :
    Drv.ohgFailing s t h = [] ↔ OHG.validate ⟨s, t, h⟩ = .ok ⟨s, t, h⟩ := by
  rw [ohg_validate_eq_head]
  cases Drv.ohgFailing s t h <;> simp [headVerdict]

theorem ohgFailing_nil_iff (s t : FinFun) (h : HG Nat Nat) :
    Drv.ohgFailing s t h = [] ↔ ∃ f, OHG.validate ⟨s, t, h⟩ = .ok f := by
  rw [ohg_validate_eq_head]
  cases Drv.ohgFailing s t h <;> simp [headVerdict]

theorem ohg_error_mem (s t : FinFun) (h : HG Nat Nat) (e : HGErr)
    (he : OHG.validate ⟨s, t, h⟩ = .error e) : e ∈ Drv.ohgFailing s t h := by
  rw [ohg_validate_eq_head] at he
  cases hl : Drv.ohgFailing s t h with
  | nil => rw [hl] at he; cases he
  | cons a l => rw [hl] at he; cases he; simp

theorem ohg_new_error_mem (s t : FinFun) (h : HG Nat Nat) (e : HGErr)
    (he : OHG.new s t h = .error e) : e ∈ Drv.ohgFailing s t h :=
  ohg_error_mem s t h e he

/-! ## 3. `arrowFailing` against `Graph.HArrow.validate` (C18) -/

section arrows
open OH.Graph OH.Graph.HArrow

/-! ### 3a. raw facts: no well-formedness hypothesis at all -/

theorem arrowFailing_nil_iff (m : HArrow Nat Nat) :
    Drv.arrowFailing m = [] ↔ HArrow.validate m = .ok (.ok ()) := by
  unfold Drv.arrowFailing HArrow.validate
  dsimp only
  rcases h1 : FinFun.composeSemi m.w m.target.w with cw | _ | s
  case none => simp [okOr]
  case panic => simp [okOr]
  by_cases e1 : m.source.w = cw
  case neg => simp [okOr, e1]
  rcases h2 : FinFun.composeSemi m.x m.target.x with cx | _ | s
  case none => simp [okOr, e1]
  case panic => simp [okOr, e1]
  by_cases e2 : m.source.x = cx
  case neg => simp [okOr, e1, e2]
  rcases h3 : IC.mapValues m.source.s m.w with a | _ | s
  case none => simp [okOr, e1, e2]
  case panic => simp [okOr, e1, e2]
  rcases h4 : IC.mapIndexes m.target.s m.x with b | _ | s
  case none => simp [okOr, e1, e2]
  case panic => simp [okOr, e1, e2]
  by_cases e3 : a = b
  case neg => simp [okOr, e1, e2, e3]
  rcases h5 : IC.mapValues m.source.t m.w with a' | _ | s
  case none => simp [okOr, e1, e2, e3]
  case panic => simp [okOr, e1, e2, e3]
  rcases h6 : IC.mapIndexes m.target.t m.x with b' | _ | s
  case none => simp [okOr, e1, e2, e3]
  case panic => simp [okOr, e1, e2, e3]
  by_cases e4 : a' = b'
  case neg => simp [okOr, e1, e2, e3, e4]
  simp [okOr, e1, e2, e3, e4]

theorem arrow_error_mem (m : HArrow Nat Nat) (e : ArrowErr)
    (he : HArrow.validate m = .ok (.error e)) : e ∈ Drv.arrowFailing m := by
  revert he
  unfold Drv.arrowFailing HArrow.validate
  dsimp only
  rcases h1 : FinFun.composeSemi m.w m.target.w with cw | _ | s
  case none => simp [okOr]; rintro rfl; simp
  case panic => simp [okOr]
  by_cases e1 : m.source.w = cw
  case neg => simp [okOr, e1]; rintro rfl; simp
  rcases h2 : FinFun.composeSemi m.x m.target.x with cx | _ | s
  case none => simp [okOr, e1]; rintro rfl; simp
  case panic => simp [okOr, e1]
  by_cases e2 : m.source.x = cx
  case neg => simp [okOr, e1, e2]; rintro rfl; simp
  rcases h3 : IC.mapValues m.source.s m.w with a | _ | s
  case none => simp [okOr, e1, e2]; rintro rfl; simp
  case panic => simp [okOr, e1, e2]
  rcases h4 : IC.mapIndexes m.target.s m.x with b | _ | s
  case none => simp [okOr, e1, e2]; rintro rfl; simp
  case panic => simp [okOr, e1, e2]
  by_cases e3 : a = b
  case neg => simp [okOr, e1, e2, e3]; rintro rfl; simp
  rcases h5 : IC.mapValues m.source.t m.w with a' | _ | s
  case none => simp [okOr, e1, e2, e3]; rintro rfl; simp
  case panic => simp [okOr, e1, e2, e3]
  rcases h6 : IC.mapIndexes m.target.t m.x with b' | _ | s
  case none => simp [okOr, e1, e2, e3]; rintro rfl; simp
  case panic => simp [okOr, e1, e2, e3]
  by_cases e4 : a' = b'
  case neg => simp [okOr, e1, e2, e3, e4]; rintro rfl; simp
  simp [okOr, e1, e2, e3, e4]

/-- whenever the model answers at all (no panic, no `none`), its answer is DETERMINED by the failing
    list: accept when it is empty, else report its first member -/
theorem arrow_validate_ok_head (m : HArrow Nat Nat) (r : Except ArrowErr Unit)
    (hr : HArrow.validate m = .ok r) : r = headVerdict () (Drv.arrowFailing m) := by
  revert hr
  unfold Drv.arrowFailing HArrow.validate
  dsimp only
  rcases h1 : FinFun.composeSemi m.w m.target.w with cw | _ | s
  case none => simp [okOr, headVerdict]; rintro rfl; rfl
  case panic => simp [okOr]
  by_cases e1 : m.source.w = cw
  case neg => simp [okOr, e1, headVerdict]; rintro rfl; rfl
  rcases h2 : FinFun.composeSemi m.x m.target.x with cx | _ | s
  case none => simp [okOr, e1, headVerdict]; rintro rfl; rfl
  case panic => simp [okOr, e1]
  by_cases e2 : m.source.x = cx
  case neg => simp [okOr, e1, e2, headVerdict]; rintro rfl; rfl
  rcases h3 : IC.mapValues m.source.s m.w with a | _ | s
  case none => simp [okOr, e1, e2, headVerdict]; rintro rfl; rfl
  case panic => simp [okOr, e1, e2]
  rcases h4 : IC.mapIndexes m.target.s m.x with b | _ | s
  case none => simp [okOr, e1, e2, headVerdict]; rintro rfl; rfl
  case panic => simp [okOr, e1, e2]
  by_cases e3 : a = b
  case neg => simp [okOr, e1, e2, e3, headVerdict]; rintro rfl; rfl
  rcases h5 : IC.mapValues m.source.t m.w with a' | _ | s
  case none => simp [okOr, e1, e2, e3, headVerdict]; rintro rfl; rfl
  case panic => simp [okOr, e1, e2, e3]
  rcases h6 : IC.mapIndexes m.target.t m.x with b' | _ | s
  case none => simp [okOr, e1, e2, e3, headVerdict]; rintro rfl; rfl
  case panic => simp [okOr, e1, e2, e3]
  by_cases e4 : a' = b'
  case neg => simp [okOr, e1, e2, e3, e4, headVerdict]; rintro rfl; rfl
  simp [okOr, e1, e2, e3, e4, headVerdict]; rintro rfl; rfl

/-! ### 3b. membership, block by block -/

/-- one label block of `arrowFailing` -/
def blockC (tm nn : ArrowErr) (r : Res (List Nat)) (g : List Nat) : List ArrowErr :=
  match r with
  | .ok c => if g ≠ c then [nn] else []
  | _ => [tm]

/-- one incidence block of `arrowFailing` -/
def blockI (nn : ArrowErr) (ra rb : Res (IC FinFun)) : List ArrowErr :=
  match ra, rb with
  | .ok a, .ok b => if a ≠ b then [nn] else []
  | _, _ => [nn]

theorem arrowFailing_eq_blocks (m : HArrow Nat Nat) :
    Drv.arrowFailing m =
      blockC .typeMismatchW .notNaturalW (FinFun.composeSemi m.w m.target.w) m.source.w ++
      blockC .typeMismatchX .notNaturalX (FinFun.composeSemi m.x m.target.x) m.source.x ++
      blockI .notNaturalS (IC.mapValues m.source.s m.w) (IC.mapIndexes m.target.s m.x) ++
      blockI .notNaturalT (IC.mapValues m.source.t m.w) (IC.mapIndexes m.target.t m.x) := rfl

theorem mem_blockC (tm nn e : ArrowErr) (r : Res (List Nat)) (g : List Nat) :
    e ∈ blockC tm nn r g ↔
      (e = tm ∧ ¬ ∃ c, r = .ok c) ∨ (e = nn ∧ ∃ c, r = .ok c ∧ g ≠ c) := by
  unfold blockC
  rcases r with c | _ | s
  · by_cases hg : g = c <;> simp [hg]
  · simp
  · simp

theorem mem_blockI (nn e : ArrowErr) (ra rb : Res (IC FinFun)) :
    e ∈ blockI nn ra rb ↔ e = nn ∧ ¬ ∃ a, ra = .ok a ∧ rb = .ok a := by
  unfold blockI
  rcases ra with a | _ | s <;> rcases rb with b | _ | s' <;> try simp
  by_cases hab : a = b <;> simp [hab]
  intro h; exact fun h' => hab (h'.symm)


/-! ### 3c. under the hypotheses of the C18 theorems -/


/-- one naturality square: both re-indexings are defined and equal iff all four sizes fit and the
    segments correspond pointwise -/
theorem square_iff (m : HArrow Nat Nat) (c d : IC FinFun) (hc : c.Wf) (hd : d.Wf) (hxw : m.x.WF)
    (gw gx hw hx : Nat) (h1 : c.values.target = gw) (h2 : c.len = gx)
    (h3 : d.values.target = hw) (h4 : d.len = hx) :
    (∃ a, IC.mapValues c m.w = .ok a ∧ IC.mapIndexes d m.x = .ok a) ↔
      (m.w.source = gw ∧ m.w.target = hw ∧ m.x.source = gx ∧ m.x.target = hx) ∧
      ∀ e, e < gx → d.segs[m.xFn e]? = (c.segs[e]?).map (·.map m.wFn) := by
  constructor
  · rintro ⟨a, ha, hb⟩
    have t1 : c.values.target = m.w.source := by
      by_contra hne
      rw [(IC.mapValues_none_iff c m.w).2 hne] at ha
      cases ha
    have t2 : m.x.target = d.len := by
      by_contra hne
      rw [IC.mapIndexes_none d m.x hne] at hb
      cases hb
    have ea := IC.mapValues_eq c m.w hc.values t1
    have eb := IC.mapIndexes_eq d m.x hd.valid hxw t2
    rw [ha] at ea
    rw [hb] at eb
    have ea' := Res.ok.inj ea
    have eb' := Res.ok.inj eb
    have t3 : m.w.target = d.values.target := by
      have := congrArg (fun a => a.values.target) (ea'.symm.trans eb')
      simpa using this
    have t4 : c.len = m.x.source := by
      have := congrArg (fun a => a.sources.table.length) (ea'.symm.trans eb')
      simpa [IC.len, FinFun.source] using this
    obtain ⟨sl, sr, hsl, hsr, hs⟩ := incidence_step (m := m) c d hc hd t1 t3 hxw t2 t4
    rw [ha] at hsl
    rw [hb] at hsr
    cases hsl; cases hsr
    refine ⟨⟨by rw [← t1, h1], by rw [t3, h3], by rw [← t4, h2], by rw [t2, h4]⟩, ?_⟩
    have := hs.1 rfl
    rw [← t4, h2] at this
    exact this
  · rintro ⟨⟨t1, t3, t4, t2⟩, hn⟩
    obtain ⟨sl, sr, hsl, hsr, hs⟩ := incidence_step (m := m) c d hc hd (by rw [h1, t1])
      (by rw [t3, h3]) hxw (by rw [t2, h4]) (by rw [h2, t4])
    have : sl = sr := hs.2 (by rw [t4]; exact hn)
    exact ⟨sl, hsl, this ▸ hsr⟩


/-- the four size conditions of a pair of maps between two hypergraphs -/
def Typed (m : HArrow Nat Nat) : Prop :=
  m.w.source = m.source.w.length ∧ m.w.target = m.target.w.length ∧
  m.x.source = m.source.x.length ∧ m.x.target = m.target.x.length

theorem labels_iff (m : HArrow Nat Nat) (h : C18.Hyp m) :
    ((∃ cw, FinFun.composeSemi m.w m.target.w = .ok cw) ↔ m.TypedW) ∧
    ((∃ cw, FinFun.composeSemi m.w m.target.w = .ok cw ∧ m.source.w ≠ cw) ↔ m.TypedW ∧ ¬ m.NatW) ∧
    ((∃ cx, FinFun.composeSemi m.x m.target.x = .ok cx) ↔ m.TypedX) ∧
    ((∃ cx, FinFun.composeSemi m.x m.target.x = .ok cx ∧ m.source.x ≠ cx) ↔ m.TypedX ∧ ¬ m.NatX) := by
  have hw := h.toWf
  refine ⟨?_, ?_, ?_, ?_⟩
  · by_cases ht : m.TypedW
    · simp [composeSemi_w hw ht, ht]
    · have : FinFun.composeSemi m.w m.target.w = .none := by
        simp only [FinFun.composeSemi]; exact if_neg ht
      simp [this, ht]
  · by_cases ht : m.TypedW
    · rw [composeSemi_w hw ht, ← natW_iff hw ht]
      simp [ht]
    · have : FinFun.composeSemi m.w m.target.w = .none := by
        simp only [FinFun.composeSemi]; exact if_neg ht
      simp [this, ht]
  · by_cases ht : m.TypedX
    · simp [composeSemi_x hw ht, ht]
    · have : FinFun.composeSemi m.x m.target.x = .none := by
        simp only [FinFun.composeSemi]; exact if_neg ht
      simp [this, ht]
  · by_cases ht : m.TypedX
    · rw [composeSemi_x hw ht, ← natX_iff hw ht]
      simp [ht]
    · have : FinFun.composeSemi m.x m.target.x = .none := by
        simp only [FinFun.composeSemi]; exact if_neg ht
      simp [this, ht]

theorem squares_iff (m : HArrow Nat Nat) (h : C18.Hyp m) :
    ((∃ a, IC.mapValues m.source.s m.w = .ok a ∧ IC.mapIndexes m.target.s m.x = .ok a) ↔
      Typed m ∧ m.NatS) ∧
    ((∃ a, IC.mapValues m.source.t m.w = .ok a ∧ IC.mapIndexes m.target.t m.x = .ok a) ↔
      Typed m ∧ m.NatT) := by
  have hw := h.toWf
  exact ⟨square_iff m _ _ hw.source.s hw.target.s hw.x _ _ _ _ hw.source.stgt hw.source.slen
      hw.target.stgt hw.target.slen,
    square_iff m _ _ hw.source.t hw.target.t hw.x _ _ _ _ hw.source.ttgt hw.source.tlen
      hw.target.ttgt hw.target.tlen⟩

/-! ### 3d. membership in `arrowFailing`, raw and through the named conditions of C18

  DISCREPANCY (`NotNaturalS` / `NotNaturalT` on ill-sized maps).  The requested reading "each member
  names a condition of C18 that actually fails" (`¬ C18.Named m e`) is TRUE for the four label variants
  (`arrowFailing_sound_labels`) and for all six variants when the four sizes of the maps are right
  (`arrowFailing_sound_typed`, an iff), but FALSE in general for the two incidence variants:
  `arrowFailing` lists `NotNaturalS` whenever `map_values` / `map_indexes` is UNDEFINED, which happens
  for ill-sized maps even if the pointwise condition `C18.NatS` holds (vacuously).  Witness `mVac`
  (section 6): source and target the one-node hypergraph without edges, node map `[] : 0 → 1`; then
  `Hyp mVac`, the model answers `NotNaturalW`, `arrowFailing mVac = [NotNaturalW, NotNaturalS,
  NotNaturalT]`, and `C18.Named mVac .notNaturalS` HOLDS (there is no edge).  So the oracle would
  accept an implementation answering `NotNaturalS` there.  The corrected statement
  (`mem_arrowFailing_named`): a member refutes `OracleNamed`, which for the incidence variants is
  "the four sizes are right AND the pointwise condition holds" — i.e. the naturality square is
  composable and commutes, which is what the library's `ok_or(NotNaturalS)` on the undefined
  composite expresses.  In every case a member refutes acceptance (`arrowFailing_mem_not_accepted`)
  and under `Hyp` the model itself reports the head of the list (`arrow_validate_eq_head`). -/

theorem mem_arrowFailing (m : HArrow Nat Nat) (e : ArrowErr) :
    e ∈ Drv.arrowFailing m ↔
      (e = .typeMismatchW ∧ ¬ ∃ cw, FinFun.composeSemi m.w m.target.w = .ok cw) ∨
      (e = .notNaturalW ∧ ∃ cw, FinFun.composeSemi m.w m.target.w = .ok cw ∧ m.source.w ≠ cw) ∨
      (e = .typeMismatchX ∧ ¬ ∃ cx, FinFun.composeSemi m.x m.target.x = .ok cx) ∨
      (e = .notNaturalX ∧ ∃ cx, FinFun.composeSemi m.x m.target.x = .ok cx ∧ m.source.x ≠ cx) ∨
      (e = .notNaturalS ∧
        ¬ ∃ a, IC.mapValues m.source.s m.w = .ok a ∧ IC.mapIndexes m.target.s m.x = .ok a) ∨
      (e = .notNaturalT ∧
        ¬ ∃ a, IC.mapValues m.source.t m.w = .ok a ∧ IC.mapIndexes m.target.t m.x = .ok a) := by
  rw [arrowFailing_eq_blocks]
  simp only [List.mem_append, mem_blockC, mem_blockI, or_assoc]

/-- SOUNDNESS AND COMPLETENESS OF MEMBERSHIP, in the ingredients `validate` itself evaluates; no
    hypothesis on the data.  A label variant is listed iff its own check fails (`TypeMismatch`: the
    composite with the target's label array is undefined; `NotNatural`: it is defined and differs from
    the source's label array); an incidence variant is listed iff the two re-indexed incidence arrays
    are not both defined and equal. -/
theorem mem_arrowFailing_iff (m : HArrow Nat Nat) :
    (ArrowErr.typeMismatchW ∈ Drv.arrowFailing m ↔
      ¬ ∃ cw, FinFun.composeSemi m.w m.target.w = .ok cw) ∧
    (ArrowErr.notNaturalW ∈ Drv.arrowFailing m ↔
      ∃ cw, FinFun.composeSemi m.w m.target.w = .ok cw ∧ m.source.w ≠ cw) ∧
    (ArrowErr.typeMismatchX ∈ Drv.arrowFailing m ↔
      ¬ ∃ cx, FinFun.composeSemi m.x m.target.x = .ok cx) ∧
    (ArrowErr.notNaturalX ∈ Drv.arrowFailing m ↔
      ∃ cx, FinFun.composeSemi m.x m.target.x = .ok cx ∧ m.source.x ≠ cx) ∧
    (ArrowErr.notNaturalS ∈ Drv.arrowFailing m ↔
      ¬ ∃ a, IC.mapValues m.source.s m.w = .ok a ∧ IC.mapIndexes m.target.s m.x = .ok a) ∧
    (ArrowErr.notNaturalT ∈ Drv.arrowFailing m ↔
      ¬ ∃ a, IC.mapValues m.source.t m.w = .ok a ∧ IC.mapIndexes m.target.t m.x = .ok a) := by
  refine ⟨?_, ?_, ?_, ?_, ?_, ?_⟩ <;> rw [mem_arrowFailing] <;> simp

/-- the condition a member of `arrowFailing` refutes, in the vocabulary of C18: for the four label
    variants exactly `C18.Named`; for the two incidence variants `C18.Named` TOGETHER WITH the four
    size conditions (the naturality square must be composable and commute) -/
def OracleNamed (m : HArrow Nat Nat) : ArrowErr → Prop
  | .typeMismatchW => m.TypedW
  | .notNaturalW => m.TypedW → m.NatW
  | .typeMismatchX => m.TypedX
  | .notNaturalX => m.TypedX → m.NatX
  | .notNaturalS => Typed m ∧ m.NatS
  | .notNaturalT => Typed m ∧ m.NatT

/-- MEMBERSHIP THROUGH THE NAMED CONDITIONS (hypotheses of the C18 theorems) -/
theorem mem_arrowFailing_named (m : HArrow Nat Nat) (h : C18.Hyp m) (e : ArrowErr) :
    e ∈ Drv.arrowFailing m ↔ ¬ OracleNamed m e := by
  obtain ⟨l1, l2, l3, l4⟩ := labels_iff m h
  obtain ⟨s1, s2⟩ := squares_iff m h
  rw [mem_arrowFailing, l1, l2, l3, l4, s1, s2]
  cases e <;> simp [OracleNamed]

theorem mem_arrowFailing_named_cases (m : HArrow Nat Nat) (h : C18.Hyp m) :
    (ArrowErr.typeMismatchW ∈ Drv.arrowFailing m ↔ m.w.target ≠ m.target.w.length) ∧
    (ArrowErr.notNaturalW ∈ Drv.arrowFailing m ↔ m.TypedW ∧ ¬ m.NatW) ∧
    (ArrowErr.typeMismatchX ∈ Drv.arrowFailing m ↔ m.x.target ≠ m.target.x.length) ∧
    (ArrowErr.notNaturalX ∈ Drv.arrowFailing m ↔ m.TypedX ∧ ¬ m.NatX) ∧
    (ArrowErr.notNaturalS ∈ Drv.arrowFailing m ↔ ¬ (Typed m ∧ m.NatS)) ∧
    (ArrowErr.notNaturalT ∈ Drv.arrowFailing m ↔ ¬ (Typed m ∧ m.NatT)) := by
  refine ⟨?_, ?_, ?_, ?_, ?_, ?_⟩ <;> rw [mem_arrowFailing_named m h] <;>
    simp [OracleNamed, TypedW, TypedX]

/-- every label variant in the list names a condition of C18 that actually fails -/
theorem arrowFailing_sound_labels (m : HArrow Nat Nat) (h : C18.Hyp m) (e : ArrowErr)
    (he : e ∈ Drv.arrowFailing m) (hS : e ≠ .notNaturalS) (hT : e ≠ .notNaturalT) :
    ¬ C18.Named m e := by
  have := (mem_arrowFailing_named m h e).1 he
  cases e <;> simp_all [OracleNamed, C18.Named]

/-- for maps of the right sizes EVERY member names a condition of C18 that actually fails, and
    conversely every failing condition of C18 is listed -/
theorem arrowFailing_sound_typed (m : HArrow Nat Nat) (h : C18.Hyp m) (ht : Typed m)
    (e : ArrowErr) : e ∈ Drv.arrowFailing m ↔ ¬ C18.Named m e := by
  rw [mem_arrowFailing_named m h e]
  obtain ⟨t1, t2, t3, t4⟩ := ht
  have hw : m.TypedW := t2
  have hx : m.TypedX := t4
  have hty : Typed m := ⟨t1, t2, t3, t4⟩
  cases e <;> simp [OracleNamed, C18.Named, hw, hx, hty]

/-- in every case a member refutes the acceptance condition of C18 -/
theorem arrowFailing_mem_not_accepted (m : HArrow Nat Nat) (e : ArrowErr)
    (he : e ∈ Drv.arrowFailing m) : HArrow.validate m ≠ .ok (.ok ()) := by
  intro hv
  rw [(arrowFailing_nil_iff m).2 hv] at he
  cases he

/-- FULL CHARACTERISATION under the hypotheses of the C18 theorems: the model never panics and
    reports the head of the failing list -/
theorem arrow_validate_eq_head (m : HArrow Nat Nat) (h : C18.Hyp m) :
    HArrow.validate m = .ok (headVerdict () (Drv.arrowFailing m)) := by
  obtain ⟨r, hr⟩ := C18.validate_never_panics m h
  rw [hr, arrow_validate_ok_head m r hr]

end arrows

/-! ## 4. `rejectionRel`

  HISTORY (Discrepancy A, repaired in the model).  `Sx` is a nested inductive; its formerly DERIVED
  `BEq` was a `partial def`, i.e. an opaque constant about which nothing could be proved, so the
  `exact` tier of every relation of the driver was out of reach.  Model/Sx.lean now defines `==` by
  the structurally recursive `Sx.beq` / `Sx.beqL`; below they are proved to be equality
  (`Sx.beq_iff`, `Sx.beqL_iff`, `Sx.beq_eq`, `LawfulBEq Sx`), and the reflections of `rejectionRel`
  and `exact` are stated with `=` on the wire format. -/

end OH.Oracles

namespace OH

mutual
/-- the model's structural test on the wire format decides equality -/
theorem Sx.beq_iff : ∀ (a b : Sx), Sx.beq a b = true ↔ a = b
  | .n a, .n b => by simp [Sx.beq]
  | .s a, .s b => by simp [Sx.beq]
  | .l a, .l b => by simp [Sx.beq, Sx.beqL_iff a b]
  | .n _, .s _ => by simp [Sx.beq]
  | .n _, .l _ => by simp [Sx.beq]
  | .s _, .n _ => by simp [Sx.beq]
  | .s _, .l _ => by simp [Sx.beq]
  | .l _, .n _ => by simp [Sx.beq]
  | .l _, .s _ => by simp [Sx.beq]
theorem Sx.beqL_iff : ∀ (a b : List Sx), Sx.beqL a b = true ↔ a = b
  | [], [] => by simp [Sx.beqL]
  | a :: as, b :: bs => by simp [Sx.beqL, Sx.beq_iff a b, Sx.beqL_iff as bs]
  | [], _ :: _ => by simp [Sx.beqL]
  | _ :: _, [] => by simp [Sx.beqL]
end

/-- `==` on the wire format is equality -/
theorem Sx.beq_eq (a b : Sx) : (a == b) = true ↔ a = b := Sx.beq_iff a b

instance : LawfulBEq Sx where
  eq_of_beq h := (Sx.beq_eq _ _).1 h
  rfl := (Sx.beq_eq _ _).2 rfl

example : (Sx.l [.s "err", .n 3] == Sx.l [.s "err", .n 3]) = true := by decide
example : (Sx.l [.s "err", .n 3] == Sx.l [.s "err", .s "3"]) = false := by decide

end OH

namespace OH.Oracles
open OH OH.Drv

/-- literal reflection of the definition (the test `m == impl` kept as it stands) -/
theorem rejectionRel_agree_iff_beq (m impl : Sx) (failing : List String) :
    (Drv.rejectionRel m failing impl).agree = true ↔
      ((m == impl) = true ∨
        ∃ e0 e, m = .l [.s "err", e0] ∧ impl = .l [.s "err", .s e] ∧ e ∈ failing) := by
  unfold Drv.rejectionRel
  by_cases hb : (m == impl) = true
  · simp [hb]
  · rw [if_neg hb]
    split
    · rename_i e0 e
      simp [hb]
    · rename_i hno
      simp only [hb]
      constructor
      · intro h; cases h
      · rintro (h | ⟨e0, e, h1, h2, _⟩)
        · cases h
        · exact absurd h2 (fun h2 => hno e0 e h1 h2)


/-- REFLECTION of `rejectionRel`: agreement iff the two answers are EQUAL, or the model rejects and
    the implementation rejects with a name in the failing list -/
theorem rejectionRel_agree_iff (m impl : Sx) (failing : List String) :
    (Drv.rejectionRel m failing impl).agree = true ↔
      (m = impl ∨ ∃ e0 e, m = .l [.s "err", e0] ∧ impl = .l [.s "err", .s e] ∧ e ∈ failing) := by
  rw [rejectionRel_agree_iff_beq, Sx.beq_eq]

/-- in particular an identical answer always agrees -/
theorem rejectionRel_agree_self (m : Sx) (failing : List String) :
    (Drv.rejectionRel m failing m).agree = true :=
  (rejectionRel_agree_iff m m failing).2 (Or.inl rfl)

/-- REFLECTION of the `exact` relation (Model/Driver.lean): outside the underflow escape, agreement
    is equality of the encoded model answer and the implementation's answer -/
theorem exact_agree_iff {α : Type} [Enc α] (r : Res α) (impl : Sx) (decisive : Bool) :
    (Drv.exact r impl decisive).agree = true ↔ (Drv.isUnderflow r = true ∨ enc r = impl) := by
  unfold Drv.exact
  by_cases hu : Drv.isUnderflow r = true <;> simp [hu]

theorem exact_agree_ok_iff {α : Type} [Enc α] (a : α) (impl : Sx) (decisive : Bool) :
    (Drv.exact (Res.ok a) impl decisive).agree = true ↔ enc (Res.ok a) = impl := by
  rw [exact_agree_iff]; simp [Drv.isUnderflow]

/-- an accepting model answer `(ok v)` is only matched exactly -/
theorem rejectionRel_ok (v impl : Sx) (failing : List String) :
    (Drv.rejectionRel (okSx v) failing impl).agree = true ↔ okSx v = impl := by
  rw [rejectionRel_agree_iff]
  constructor
  · rintro (h | ⟨e0, e, h1, _⟩)
    · exact h
    · simp [okSx] at h1
  · exact Or.inl

/-- a rejecting model answer `(err _)` is matched exactly or by any `(err E)` with `E` in the list -/
theorem rejectionRel_err (e0 impl : Sx) (failing : List String) :
    (Drv.rejectionRel (.l [.s "err", e0]) failing impl).agree = true ↔
      (Sx.l [.s "err", e0] = impl ∨ ∃ e, impl = .l [.s "err", .s e] ∧ e ∈ failing) := by
  rw [rejectionRel_agree_iff]
  constructor
  · rintro (h | ⟨_, e, _, h2, h3⟩)
    · exact Or.inl h
    · exact Or.inr ⟨e, h2, h3⟩
  · rintro (h | ⟨e, h2, h3⟩)
    · exact Or.inl h
    · exact Or.inr ⟨e0, e, rfl, h2, h3⟩

/-- THE DRIVER LINE `hg.new`: agreement iff the answers are equal or the
    implementation rejects naming a condition that fails for the data (then the model rejects too) -/
theorem hg_new_line (s t : IC FinFun) (w x : List Nat) (impl : Sx) :
    (Drv.rejectionRel (Drv.encExcept (HG.new s t w x))
        ((Drv.hgFailing ⟨s, t, w, x⟩).map HGErr.sym) impl).agree = true ↔
      (Drv.encExcept (HG.new s t w x) = impl ∨
        ∃ er, HGNamedFails ⟨s, t, w, x⟩ er ∧ impl = .l [.s "err", .s er.sym]) := by
  have hhead := hg_validate_eq_head ⟨s, t, w, x⟩
  unfold HG.new
  cases hl : Drv.hgFailing ⟨s, t, w, x⟩ with
  | nil =>
    rw [hl] at hhead
    rw [hhead]
    simp only [headVerdict, Drv.encExcept, rejectionRel_ok]
    constructor
    · exact Or.inl
    · rintro (h | ⟨er, h1, _⟩)
      · exact h
      · have := (mem_hgFailing_iff _ er).2 h1
        rw [hl] at this; cases this
  | cons a l =>
    rw [hl] at hhead
    rw [hhead]
    simp only [headVerdict, Drv.encExcept, rejectionRel_err, ← hl]
    constructor
    · rintro (h | ⟨e, h1, h2⟩)
      · exact Or.inl h
      · obtain ⟨er, h3, rfl⟩ := List.mem_map.1 h2
        exact Or.inr ⟨er, (mem_hgFailing_iff _ er).1 h3, h1⟩
    · rintro (h | ⟨er, h1, h2⟩)
      · exact Or.inl h
      · exact Or.inr ⟨_, h2, List.mem_map.2 ⟨er, (mem_hgFailing_iff _ er).2 h1, rfl⟩⟩

theorem oh_new_line (s t : FinFun) (h : HG Nat Nat) (impl : Sx) :
    (Drv.rejectionRel (Drv.encExcept (OHG.new s t h))
        ((Drv.ohgFailing s t h).map HGErr.sym) impl).agree = true ↔
      (Drv.encExcept (OHG.new s t h) = impl ∨
        ∃ er, OHGNamedFails s t h er ∧ impl = .l [.s "err", .s er.sym]) := by
  have hhead := ohg_validate_eq_head s t h
  unfold OHG.new
  cases hl : Drv.ohgFailing s t h with
  | nil =>
    rw [hl] at hhead
    rw [hhead]
    simp only [headVerdict, Drv.encExcept, rejectionRel_ok]
    constructor
    · exact Or.inl
    · rintro (h | ⟨er, h1, _⟩)
      · exact h
      · have := (mem_ohgFailing_iff _ _ _ er).2 h1
        rw [hl] at this; cases this
  | cons a l =>
    rw [hl] at hhead
    rw [hhead]
    simp only [headVerdict, Drv.encExcept, rejectionRel_err, ← hl]
    constructor
    · rintro (h | ⟨e, h1, h2⟩)
      · exact Or.inl h
      · obtain ⟨er, h3, rfl⟩ := List.mem_map.1 h2
        exact Or.inr ⟨er, (mem_ohgFailing_iff _ _ _ er).1 h3, h1⟩
    · rintro (h | ⟨er, h1, h2⟩)
      · exact Or.inl h
      · exact Or.inr ⟨_, h2, List.mem_map.2 ⟨er, (mem_ohgFailing_iff _ _ _ er).2 h1, rfl⟩⟩

section arrowLine
open OH.Graph OH.Graph.HArrow

/-- the model column of the driver line `graph.arrow_new` (written inline in `Drv.graph`) -/
def arrowMs (r : Res (Except ArrowErr Unit)) : Sx :=
  match r with
  | .ok (.ok ()) => okSx (.s "accept")
  | .ok (.error e) => .l [.s "err", .s e.sym]
  | .none => .s "none"
  | .panic _ => .s "panic"

/-- THE DRIVER LINE `graph.arrow_new`: agreement iff the answers coincide or the model rejects and
    the implementation rejects naming a member of the failing list -/
theorem arrow_new_line (m : HArrow Nat Nat) (impl : Sx) :
    (Drv.rejectionRel (arrowMs (HArrow.validate m))
        ((Drv.arrowFailing m).map ArrowErr.sym) impl).agree = true ↔
      (arrowMs (HArrow.validate m) = impl ∨
        ((∃ e, HArrow.validate m = .ok (.error e)) ∧
          ∃ er, er ∈ Drv.arrowFailing m ∧ impl = .l [.s "err", .s er.sym])) := by
  rw [rejectionRel_agree_iff]
  refine or_congr Iff.rfl ?_
  rcases hv : HArrow.validate m with r | _ | s
  · rcases r with e | u
    · simp only [arrowMs, List.mem_map]
      constructor
      · rintro ⟨_, e', _, h2, er, h3, rfl⟩
        exact ⟨⟨e, rfl⟩, er, h3, h2⟩
      · rintro ⟨_, er, h3, h2⟩
        exact ⟨_, _, rfl, h2, er, h3, rfl⟩
    · simp [arrowMs, okSx]
  · simp [arrowMs]
  · simp [arrowMs]

end arrowLine

/-! ## 5. `sameUpToPairOrder` -/

theorem sameUpToPairOrder_iff (a b : LOHG Nat Nat) :
    Drv.sameUpToPairOrder a b = true ↔
      a.sources = b.sources ∧ a.targets = b.targets ∧ a.hypergraph.nodes = b.hypergraph.nodes ∧
      a.hypergraph.edges = b.hypergraph.edges ∧ a.hypergraph.adjacency = b.hypergraph.adjacency ∧
      Drv.samePairsMultiset a b = true := by
  simp only [Drv.sameUpToPairOrder, Bool.and_eq_true, beq_iff_eq, and_assoc]

theorem sameUpToPairOrder_toStrict (B : Backend) (hB : B.Lawful) (a b : LOHG Nat Nat)
    (h : Drv.sameUpToPairOrder a b = true) (hwf : a.wf = true) :
    (∀ sa, LOHG.toStrict B a = .ok sa →
      ∃ sb, LOHG.toStrict B b = .ok sb ∧ sa.toPlain ≅ sb.toPlain) ∧
    ((∃ sa, LOHG.toStrict B a = .ok sa) ↔ (∃ sb, LOHG.toStrict B b = .ok sb)) := by
  obtain ⟨hs, ht, hn, he, ha, hp⟩ := (sameUpToPairOrder_iff a b).1 h
  exact LaxDenote.toStrict_samePairs B hB a b hs ht hn he ha hp hwf

theorem sameUpToPairOrder_refl (a : LOHG Nat Nat)
    (h : a.hypergraph.quotient.1.length = a.hypergraph.quotient.2.length) :
    Drv.sameUpToPairOrder a a = true :=
  (sameUpToPairOrder_iff a a).2 ⟨rfl, rfl, rfl, rfl, rfl,
    (LaxDenote.samePairs_iff a a).2 ⟨List.Perm.refl _, h, h⟩⟩

/-- `laxLiteralRel` on a model value: exact, or the implementation's answer decodes to a lax diagram
    that is the same up to the order of the pending unifications (then `sameUpToPairOrder_toStrict`
    applies: same interfaces, nodes, hyperedges and incidence, and the same denoted strict diagram) -/
theorem laxLiteralRel_agree_iff (a : LOHG Nat Nat) (impl : Sx) :
    (Drv.laxLiteralRel (.ok a) impl).agree = true ↔
      ((Drv.exact (Res.ok a) impl).agree = true ∨
        ∃ b, (Drv.unOk impl).bind (dec (α := LOHG Nat Nat)) = some b ∧
          Drv.sameUpToPairOrder a b = true) := by
  unfold Drv.laxLiteralRel
  by_cases ho : (Drv.exact (Res.ok a) impl).agree = true
  · simp [ho]
  · simp only [ho]
    cases hb : (Drv.unOk impl).bind (dec (α := LOHG Nat Nat)) with
    | none => simp [ho]
    | some b => simp

/-- the same with the exact tier read as equality on the wire format -/
theorem laxLiteralRel_agree_iff' (a : LOHG Nat Nat) (impl : Sx) :
    (Drv.laxLiteralRel (.ok a) impl).agree = true ↔
      (enc (Res.ok a) = impl ∨
        ∃ b, (Drv.unOk impl).bind (dec (α := LOHG Nat Nat)) = some b ∧
          Drv.sameUpToPairOrder a b = true) := by
  rw [laxLiteralRel_agree_iff, exact_agree_ok_iff]

/-- non-trivial input for `sameUpToPairOrder_toStrict`: the pending unifications listed in another
    order and flipped -/
example : Drv.sameUpToPairOrder LaxDenote.exA LaxDenote.exB = true ∧ LaxDenote.exA.wf = true ∧
    LaxDenote.exA ≠ LaxDenote.exB := by decide
example : Drv.sameUpToPairOrder LaxDenote.exA LaxDenote.exC = false := by decide
/-- the length hypothesis of `sameUpToPairOrder_refl` is needed -/
example : Drv.sameUpToPairOrder ⟨[], [], ⟨[1, 1], [], [], ([0, 1], [1])⟩⟩
    ⟨[], [], ⟨[1, 1], [], [], ([0, 1], [1])⟩⟩ = false := by decide

/-! ## 6. concrete inputs -/

section examples
open OH.Graph OH.Graph.HArrow

/-- raw hypergraph data: 3 nodes, 2 edge labels, but only ONE source segment (SourcesCount fails)
    and target incidences declared over 4 nodes (TargetsSet fails) -/
def hgTwo : HG Nat Nat := ⟨⟨⟨[2], 3⟩, ⟨[0, 1], 3⟩⟩, ⟨⟨[1, 1], 3⟩, ⟨[2, 2], 4⟩⟩, [7, 8, 9], [5, 6]⟩
def hgGood : HG Nat Nat := ⟨⟨⟨[2, 0], 3⟩, ⟨[0, 1], 3⟩⟩, ⟨⟨[1, 1], 3⟩, ⟨[2, 2], 3⟩⟩, [7, 8, 9], [5, 6]⟩

example : Drv.hgFailing hgTwo = [.sourcesCount, .targetsSet] := by decide
example : HG.validate hgTwo = .error .sourcesCount := rfl
example : HGErr.sourcesCount ∈ Drv.hgFailing hgTwo ∧ HGErr.targetsSet ∈ Drv.hgFailing hgTwo := by
  decide
example : Drv.hgFailing hgGood = [] ∧ HG.validate hgGood = .ok hgGood := ⟨by decide, rfl⟩

example : Drv.ohgFailing ⟨[0], 5⟩ ⟨[1], 3⟩ hgTwo = [.sourcesCount, .targetsSet, .cospanSourceType] := by
  decide
example : OHG.validate ⟨⟨[0], 5⟩, ⟨[1], 3⟩, hgTwo⟩ = .error .sourcesCount := rfl
example : Drv.ohgFailing ⟨[0], 5⟩ ⟨[1], 2⟩ hgGood = [.cospanSourceType, .cospanTargetType] ∧
    OHG.validate ⟨⟨[0], 5⟩, ⟨[1], 2⟩, hgGood⟩ = .error .cospanSourceType := ⟨by decide, rfl⟩
example : Drv.ohgFailing ⟨[0], 3⟩ ⟨[1], 3⟩ hgGood = [] ∧
    OHG.validate ⟨⟨[0], 3⟩, ⟨[1], 3⟩, hgGood⟩ = .ok ⟨⟨[0], 3⟩, ⟨[1], 3⟩, hgGood⟩ := ⟨by decide, rfl⟩

/-- node labels swapped (NotNaturalW) and edge map with the wrong codomain (TypeMismatchX) -/
def mTwo : HArrow Nat Nat := ⟨C18.g, C18.k, ⟨[1, 0], 3⟩, ⟨[0], 5⟩⟩
example : C18.Hyp mTwo := by simp only [C18.Hyp]; decide
example : Drv.arrowFailing mTwo = [.notNaturalW, .typeMismatchX, .notNaturalS, .notNaturalT] := by decide
example : mTwo.validate = .ok (.error .notNaturalW) := by decide
/-- labels fine, both incidence squares fail -/
def mST : HArrow Nat Nat := ⟨C18.g, C18.k, ⟨[0, 1], 3⟩, ⟨[1], 2⟩⟩
example : Drv.arrowFailing mST = [.notNaturalS, .notNaturalT] ∧
    mST.validate = .ok (.error .notNaturalS) := by decide
example : C18.Hyp mST ∧ Typed mST := by simp only [C18.Hyp, Typed]; decide
/-- `arrowFailing_sound_typed` on `mST`: exactly the two incidence conditions of C18 fail -/
example : ¬ C18.Named mST .notNaturalS ∧ ¬ C18.Named mST .notNaturalT ∧ C18.Named mST .notNaturalW :=
  have h : C18.Hyp mST ∧ Typed mST := by simp only [C18.Hyp, Typed]; decide
  ⟨(arrowFailing_sound_typed mST h.1 h.2 _).1 (by decide),
   (arrowFailing_sound_typed mST h.1 h.2 _).1 (by decide),
   Classical.not_not.1 (fun hn => absurd ((arrowFailing_sound_typed mST h.1 h.2 _).2 hn) (by decide))⟩
example : Drv.arrowFailing C18.mOk = [] ∧ C18.mOk.validate = .ok (.ok ()) := by decide

/-- DISCREPANCY witness -/
def mVac : HArrow Nat Nat := ⟨HG.discrete [7], HG.discrete [7], ⟨[], 1⟩, ⟨[], 0⟩⟩
example : C18.Hyp mVac := by simp only [C18.Hyp]; decide
example : Drv.arrowFailing mVac = [.notNaturalW, .notNaturalS, .notNaturalT] := by decide
example : mVac.validate = .ok (.error .notNaturalW) := by decide
example : ArrowErr.notNaturalS ∈ Drv.arrowFailing mVac ∧ C18.Named mVac .notNaturalS := by
  refine ⟨by decide, ?_⟩
  intro e he
  exact absurd he (Nat.not_lt_zero e)

end examples

end OH.Oracles
