/-
  Wire codecs of the correspondence driver: every decoder inverts its encoder (`LawfulCodec`), and
  every decoder accepts ONLY the canonical encoding (`CanonicalCodec`), so that
  `dec s = some a ↔ s = enc a`.  Consequently `enc` is injective and the driver's comparisons
  `enc a == enc b` mean `a = b`.
-/
import OHVerif.Model.DriverLax
import OHVerif.Model.DriverStrict
import OHVerif.Props.Oracles

namespace OH.Wire
open OH

/-- the decoder inverts the encoder -/
class LawfulCodec (α : Type) [Enc α] [Dec α] : Prop where
  dec_enc : ∀ a : α, (dec (enc a) : Option α) = some a

/-- ... and accepts only the canonical encoding -/
class CanonicalCodec (α : Type) [Enc α] [Dec α] : Prop extends LawfulCodec α where
  enc_dec : ∀ (s : Sx) (a : α), dec s = some a → s = enc a

export LawfulCodec (dec_enc)
export CanonicalCodec (enc_dec)

/-! ### generic consequences -/

theorem enc_injective {α : Type} [Enc α] [Dec α] [LawfulCodec α] :
    ∀ a b : α, enc a = enc b → a = b := by
  intro a b h
  have h1 : (dec (enc a) : Option α) = some a := dec_enc a
  rw [h, dec_enc b] at h1
  exact (Option.some.inj h1).symm

theorem dec_some_iff {α : Type} [Enc α] [Dec α] [CanonicalCodec α] (s : Sx) (a : α) :
    dec s = some a ↔ s = enc a :=
  ⟨enc_dec s a, fun h => h ▸ dec_enc a⟩

theorem enc_beq_iff {α : Type} [Enc α] [Dec α] [LawfulCodec α] (a b : α) :
    (enc a == enc b) = true ↔ a = b := by
  rw [Sx.beq_eq]
  exact ⟨enc_injective a b, fun h => h ▸ rfl⟩

theorem enc_beq_false_iff {α : Type} [Enc α] [Dec α] [LawfulCodec α] (a b : α) :
    (enc a == enc b) = false ↔ a ≠ b := by
  rw [← Bool.not_eq_true, enc_beq_iff]

/-! ### Nat, Bool -/

instance : CanonicalCodec Nat where
  dec_enc _ := rfl
  enc_dec s a h := by
    cases s <;> simp [dec] at h
    subst h; rfl

instance : CanonicalCodec Bool where
  dec_enc b := by cases b <;> rfl
  enc_dec s a h := by
    simp only [dec] at h
    split at h
    · cases h; rfl
    · cases h; rfl
    · cases h

/-! ### List -/

theorem mapM_dec_map_enc {α : Type} [Enc α] [Dec α] [LawfulCodec α] (xs : List α) :
    (xs.map enc).mapM (dec : Sx → Option α) = some xs := by
  induction xs with
  | nil => simp
  | cons x xs ih => simp [List.mapM_cons, dec_enc, ih]

theorem mapM_dec_eq_some {α : Type} [Enc α] [Dec α] [CanonicalCodec α] :
    ∀ (ss : List Sx) (xs : List α), ss.mapM (dec : Sx → Option α) = some xs → ss = xs.map enc
  | [], xs, h => by
    simp at h; subst h; rfl
  | s :: ss, xs, h => by
    rw [List.mapM_cons] at h
    cases hs : (dec s : Option α) with
    | none => simp [hs] at h
    | some a =>
      cases hss : ss.mapM (dec : Sx → Option α) with
      | none => simp [hs, hss] at h
      | some as =>
        simp [hs, hss] at h
        subst h
        simp [enc_dec s a hs, mapM_dec_eq_some ss as hss]

instance {α : Type} [Enc α] [Dec α] [LawfulCodec α] : LawfulCodec (List α) where
  dec_enc xs := by
    show (xs.map enc).mapM (dec : Sx → Option α) = some xs
    exact mapM_dec_map_enc xs

instance {α : Type} [Enc α] [Dec α] [CanonicalCodec α] : CanonicalCodec (List α) where
  enc_dec s xs h := by
    cases s with
    | n _ => simp [dec] at h
    | s _ => simp [dec] at h
    | l ss =>
      have h' : ss.mapM (dec : Sx → Option α) = some xs := h
      show Sx.l ss = Sx.l (xs.map enc)
      rw [mapM_dec_eq_some ss xs h']

/-! ### Prod, Option -/

instance {α β : Type} [Enc α] [Dec α] [Enc β] [Dec β] [LawfulCodec α] [LawfulCodec β] :
    LawfulCodec (α × β) where
  dec_enc p := by
    show (do let x ← (dec (enc p.1) : Option α); let y ← (dec (enc p.2) : Option β); pure (x, y))
          = some p
    simp [dec_enc]

instance {α β : Type} [Enc α] [Dec α] [Enc β] [Dec β] [CanonicalCodec α] [CanonicalCodec β] :
    CanonicalCodec (α × β) where
  enc_dec s p h := by
    simp only [dec] at h
    split at h
    · rename_i a b
      cases ha : (dec a : Option α) with
      | none => simp [ha] at h
      | some x =>
        cases hb : (dec b : Option β) with
        | none => simp [ha, hb] at h
        | some y =>
          simp [ha, hb] at h
          subst h
          show Sx.l [a, b] = Sx.l [enc x, enc y]
          rw [enc_dec a x ha, enc_dec b y hb]
    · cases h

instance {α : Type} [Enc α] [Dec α] [LawfulCodec α] : LawfulCodec (Option α) where
  dec_enc o := by
    cases o with
    | none => rfl
    | some a =>
      show ((dec (enc a) : Option α)).map some = some (some a)
      simp [dec_enc]

instance {α : Type} [Enc α] [Dec α] [CanonicalCodec α] : CanonicalCodec (Option α) where
  enc_dec s o h := by
    simp only [dec] at h
    split at h
    · rename_i a
      cases ha : (dec a : Option α) with
      | none => simp [ha] at h
      | some x =>
        simp [ha] at h
        subst h
        show Sx.l [.s "some", a] = Sx.l [.s "some", enc x]
        rw [enc_dec a x ha]
    · cases h; rfl
    · cases h

/-! ### generic record shapes (2, 3, 4 fields) -/

theorem bind2_some {α β γ : Type} {da : Option α} {db : Option β} {f : α → β → γ} {c : γ}
    (h : (do let x ← da; let y ← db; pure (f x y)) = some c) :
    ∃ x y, da = some x ∧ db = some y ∧ f x y = c := by
  cases da with
  | none => cases h
  | some x =>
    cases db with
    | none => cases h
    | some y => exact ⟨x, y, rfl, rfl, Option.some.inj h⟩

theorem bind3_some {α β γ δ : Type} {da : Option α} {db : Option β} {dc : Option γ}
    {f : α → β → γ → δ} {c : δ}
    (h : (do let x ← da; let y ← db; let z ← dc; pure (f x y z)) = some c) :
    ∃ x y z, da = some x ∧ db = some y ∧ dc = some z ∧ f x y z = c := by
  cases da with
  | none => cases h
  | some x =>
    cases db with
    | none => cases h
    | some y =>
      cases dc with
      | none => cases h
      | some z => exact ⟨x, y, z, rfl, rfl, rfl, Option.some.inj h⟩

theorem bind4_some {α β γ δ ε : Type} {da : Option α} {db : Option β} {dc : Option γ}
    {dd : Option δ} {f : α → β → γ → δ → ε} {c : ε}
    (h : (do let x ← da; let y ← db; let z ← dc; let u ← dd; pure (f x y z u)) = some c) :
    ∃ x y z u, da = some x ∧ db = some y ∧ dc = some z ∧ dd = some u ∧ f x y z u = c := by
  cases da with
  | none => cases h
  | some x =>
    cases db with
    | none => cases h
    | some y =>
      cases dc with
      | none => cases h
      | some z =>
        cases dd with
        | none => cases h
        | some u => exact ⟨x, y, z, u, rfl, rfl, rfl, rfl, Option.some.inj h⟩

section shapes
variable {α β γ δ ρ : Type}
  [Enc α] [Dec α] [Enc β] [Dec β] [Enc γ] [Dec γ] [Enc δ] [Dec δ]

theorem lawful2 [LawfulCodec α] [LawfulCodec β] (mk : α → β → ρ) (x : α) (y : β) :
    (do let x ← (dec (enc x) : Option α); let y ← (dec (enc y) : Option β); pure (mk x y))
      = some (mk x y) := by
  simp [dec_enc]

theorem lawful3 [LawfulCodec α] [LawfulCodec β] [LawfulCodec γ] (mk : α → β → γ → ρ)
    (x : α) (y : β) (z : γ) :
    (do let x ← (dec (enc x) : Option α); let y ← (dec (enc y) : Option β)
        let z ← (dec (enc z) : Option γ); pure (mk x y z))
      = some (mk x y z) := by
  simp [dec_enc]

theorem lawful4 [LawfulCodec α] [LawfulCodec β] [LawfulCodec γ] [LawfulCodec δ]
    (mk : α → β → γ → δ → ρ) (x : α) (y : β) (z : γ) (u : δ) :
    (do let x ← (dec (enc x) : Option α); let y ← (dec (enc y) : Option β)
        let z ← (dec (enc z) : Option γ); let u ← (dec (enc u) : Option δ); pure (mk x y z u))
      = some (mk x y z u) := by
  simp [dec_enc]

theorem canon2 [CanonicalCodec α] [CanonicalCodec β] (mk : α → β → ρ) (s : Sx) (c : ρ)
    (h : (match s with
          | .l [a, b] => do let x ← (dec a : Option α); let y ← (dec b : Option β); pure (mk x y)
          | _ => none) = some c) :
    ∃ x y, mk x y = c ∧ s = .l [enc x, enc y] := by
  split at h
  · rename_i a b
    obtain ⟨x, y, ha, hb, hc⟩ := bind2_some h
    exact ⟨x, y, hc, by rw [enc_dec a x ha, enc_dec b y hb]⟩
  · cases h

theorem canon3 [CanonicalCodec α] [CanonicalCodec β] [CanonicalCodec γ] (mk : α → β → γ → ρ)
    (s : Sx) (c : ρ)
    (h : (match s with
          | .l [a, b, d] => do
              let x ← (dec a : Option α); let y ← (dec b : Option β); let z ← (dec d : Option γ)
              pure (mk x y z)
          | _ => none) = some c) :
    ∃ x y z, mk x y z = c ∧ s = .l [enc x, enc y, enc z] := by
  split at h
  · rename_i a b d
    obtain ⟨x, y, z, ha, hb, hd, hc⟩ := bind3_some h
    exact ⟨x, y, z, hc, by rw [enc_dec a x ha, enc_dec b y hb, enc_dec d z hd]⟩
  · cases h

theorem canon4 [CanonicalCodec α] [CanonicalCodec β] [CanonicalCodec γ] [CanonicalCodec δ]
    (mk : α → β → γ → δ → ρ) (s : Sx) (c : ρ)
    (h : (match s with
          | .l [a, b, d, e] => do
              let x ← (dec a : Option α); let y ← (dec b : Option β); let z ← (dec d : Option γ)
              let u ← (dec e : Option δ); pure (mk x y z u)
          | _ => none) = some c) :
    ∃ x y z u, mk x y z u = c ∧ s = .l [enc x, enc y, enc z, enc u] := by
  split at h
  · rename_i a b d e
    obtain ⟨x, y, z, u, ha, hb, hd, he, hc⟩ := bind4_some h
    exact ⟨x, y, z, u, hc,
      by rw [enc_dec a x ha, enc_dec b y hb, enc_dec d z hd, enc_dec e u he]⟩
  · cases h

end shapes

/-! ### FinFun, IC -/

instance : CanonicalCodec FinFun where
  dec_enc f := lawful2 FinFun.mk f.table f.target
  enc_dec s f h := by
    obtain ⟨x, y, rfl, rfl⟩ := canon2 FinFun.mk s f h
    rfl

instance {V : Type} [Enc V] [Dec V] [LawfulCodec V] : LawfulCodec (IC V) where
  dec_enc c := lawful2 IC.mk c.sources c.values

instance {V : Type} [Enc V] [Dec V] [CanonicalCodec V] : CanonicalCodec (IC V) where
  enc_dec s c h := by
    obtain ⟨x, y, rfl, rfl⟩ := canon2 IC.mk s c h
    rfl

/-! ### strict structures -/

instance : CanonicalCodec (HG Nat Nat) where
  dec_enc h := lawful4 HG.mk h.s h.t h.w h.x
  enc_dec s c h := by
    obtain ⟨x, y, z, u, rfl, rfl⟩ := canon4 HG.mk s c h
    rfl

instance : CanonicalCodec (OHG Nat Nat) where
  dec_enc f := lawful3 OHG.mk f.s f.t f.h
  enc_dec s c h := by
    obtain ⟨x, y, z, rfl, rfl⟩ := canon3 OHG.mk s c h
    rfl

/-! ### lax structures -/

instance : CanonicalCodec LEdge where
  dec_enc e := lawful2 LEdge.mk e.sources e.targets
  enc_dec s c h := by
    obtain ⟨x, y, rfl, rfl⟩ := canon2 LEdge.mk s c h
    rfl

instance : CanonicalCodec (LHG Nat Nat) where
  dec_enc h := lawful4 LHG.mk h.nodes h.edges h.adjacency h.quotient
  enc_dec s c h := by
    obtain ⟨x, y, z, u, rfl, rfl⟩ := canon4 LHG.mk s c h
    rfl

instance : CanonicalCodec (LOHG Nat Nat) where
  dec_enc f := lawful3 LOHG.mk f.sources f.targets f.hypergraph
  enc_dec s c h := by
    obtain ⟨x, y, z, rfl, rfl⟩ := canon3 LOHG.mk s c h
    rfl

/-! ### `Res` (encoder only): injective up to the panic site, which the wire format drops -/

theorem enc_res_ok_iff {α : Type} [Enc α] [Dec α] [LawfulCodec α] (a b : α) :
    enc (Res.ok a) = enc (Res.ok b) ↔ a = b := by
  constructor
  · intro h
    have h' : Sx.l [.s "ok", enc a] = Sx.l [.s "ok", enc b] := h
    simp at h'
    exact enc_injective a b h'
  · rintro rfl; rfl

theorem enc_res_eq_iff {α : Type} [Enc α] [Dec α] [LawfulCodec α] (r r' : Res α) :
    enc r = enc r' ↔
      (r = r' ∨ ∃ s s', r = .panic s ∧ r' = .panic s') := by
  cases r with
  | ok a =>
    cases r' with
    | ok b =>
      rw [enc_res_ok_iff]
      constructor
      · rintro rfl; exact Or.inl rfl
      · rintro (h | ⟨_, _, h, _⟩)
        · cases h; rfl
        · cases h
    | none => simp [enc]
    | panic s => simp [enc]
  | none =>
    cases r' with
    | ok b => simp [enc]
    | none => simp
    | panic s => simp [enc]
  | panic s =>
    cases r' with
    | ok b => simp [enc]
    | none => simp [enc]
    | panic s' => simp [enc]

/-- the panic site is NOT on the wire (by design: sites are diagnostics only) -/
example : enc (Res.panic "a" : Res Nat) = enc (Res.panic "b" : Res Nat) := rfl

/-! ### `Function.Injective` form -/

theorem enc_injective' {α : Type} [Enc α] [Dec α] [LawfulCodec α] :
    Function.Injective (enc : α → Sx) := fun a b => enc_injective a b

/-! ### concrete instances of the round trip -/

/-- a non-trivial strict open hypergraph: 3 nodes, 2 operations -/
def exOHG : OHG Nat Nat :=
  { s := ⟨[0, 1], 3⟩, t := ⟨[2], 3⟩,
    h := { s := ⟨⟨[2, 1], 4⟩, ⟨[0, 1, 1], 3⟩⟩, t := ⟨⟨[1, 1], 3⟩, ⟨[1, 2], 3⟩⟩,
           w := [7, 8, 9], x := [40, 41] } }

/-- a non-trivial lax open hypergraph with a pending quotient -/
def exLOHG : LOHG Nat Nat :=
  { sources := [0, 1], targets := [3],
    hypergraph := { nodes := [7, 8, 8, 9], edges := [40, 41],
                    adjacency := [⟨[0, 1], [2]⟩, ⟨[2], [3]⟩],
                    quotient := ([1], [2]) } }

example : (dec (enc exOHG) : Option (OHG Nat Nat)) = some exOHG := rfl
example : (dec (enc exLOHG) : Option (LOHG Nat Nat)) = some exLOHG := rfl
example : (dec (enc exOHG) : Option (OHG Nat Nat)) = some exOHG := dec_enc _
example : (dec (enc exLOHG) : Option (LOHG Nat Nat)) = some exLOHG := dec_enc _
example : (enc exLOHG == enc exLOHG) = true := (enc_beq_iff _ _).2 rfl
example : (enc exLOHG == enc { exLOHG with targets := [2] }) = false := by decide
example : (dec (Sx.l [.n 1, .n 2]) : Option (OHG Nat Nat)) = none := rfl
example : (dec (enc (some [(1, true), (2, false)])) : Option (Option (List (Nat × Bool))))
    = some (some [(1, true), (2, false)]) := rfl
/-- the canonical-form direction on a concrete input: the only wire term decoding to `exOHG` -/
example (s : Sx) (h : dec s = some exOHG) : s = enc exOHG := enc_dec s _ h

end OH.Wire
