/-
  The TEXT layer of the wire format is correct: the total parser `Sx.parseLineT`
  (`Model/SxTotal.lean`) inverts the total printer `Sx.toStrT` on every s-expression whose symbols
  are bare words (non-empty, delimiter-free, not a numeral).

  Headlines: `parseLineT_toStrT`, `parseLineT_line`, `toStrT_injective_on_bare`.
  The last section contains TESTS (`#guard`) comparing the total functions with the old `partial`
  (opaque) `Sx.parseLine` / `Sx.toStr`.
-/
import OHVerif.Model.SxTotal
import Std.Data.String.ToNat

namespace OH
namespace Sx

/-! ### 1. bare symbols, bare s-expressions, token lists -/

/-- the symbols the wire format uses (`oh.compose`, `ok`, `none`, `panic`, `true`, `nil`, …):
    non-empty, no delimiter inside, not read as a number by the tokenizer -/
def BareSym (w : String) : Prop :=
  w.toList ≠ [] ∧ (∀ c ∈ w.toList, isDelim c = false) ∧ w.toNat? = none

instance (w : String) : Decidable (BareSym w) := by unfold BareSym; exact inferInstance

mutual
/-- every symbol inside is a bare symbol -/
def Bare : Sx → Prop
  | .n _ => True
  | .s w => BareSym w
  | .l xs => BareL xs
def BareL : List Sx → Prop
  | [] => True
  | x :: xs => Bare x ∧ BareL xs
end

theorem bareL_iff : ∀ (xs : List Sx), BareL xs ↔ ∀ s ∈ xs, Bare s
  | [] => by simp [BareL]
  | x :: xs => by simp [BareL, bareL_iff xs]

mutual
/-- Bool decision function of `Bare` -/
def bareb : Sx → Bool
  | .n _ => true
  | .s w => decide (BareSym w)
  | .l xs => barebL xs
def barebL : List Sx → Bool
  | [] => true
  | x :: xs => bareb x && barebL xs
end

mutual
theorem bareb_iff : ∀ (s : Sx), bareb s = true ↔ Bare s
  | .n _ => by simp [bareb, Bare]
  | .s w => by simp [bareb, Bare]
  | .l xs => by simp [bareb, Bare, barebL_iff xs]
theorem barebL_iff : ∀ (xs : List Sx), barebL xs = true ↔ BareL xs
  | [] => by simp [barebL, BareL]
  | x :: xs => by simp [barebL, BareL, bareb_iff x, barebL_iff xs]
end

instance (s : Sx) : Decidable (Bare s) := decidable_of_iff _ (bareb_iff s)

mutual
/-- the token list of an s-expression -/
def toks : Sx → List Tok
  | .n v => [.nat v]
  | .s w => [.sym w]
  | .l xs => .lp :: (toksL xs ++ [.rp])
def toksL : List Sx → List Tok
  | [] => []
  | x :: xs => toks x ++ toksL xs
end

theorem toksL_eq : ∀ (xs : List Sx), toksL xs = xs.flatMap toks
  | [] => by simp [toksL]
  | x :: xs => by simp [toksL, toksL_eq xs]

theorem toks_l (xs : List Sx) : toks (.l xs) = .lp :: (xs.flatMap toks ++ [.rp]) := by
  simp [toks, toksL_eq]

end Sx

namespace WireText
open OH.Sx

/-! ### the fast printer prints the specified text -/

mutual
theorem toRev_eq : ∀ (s : Sx) (acc : List Char), toRev s acc = (toCharsT s).reverse ++ acc
  | .n v, acc => by simp [toRev, toCharsT, List.reverseAux_eq]
  | .s w, acc => by simp [toRev, toCharsT, List.reverseAux_eq]
  | .l [], acc => by simp [toRev, toCharsT]
  | .l (x :: xs), acc => by simp [toRev, toCharsT, toRev_eq x, toRevTail_eq xs]
theorem toRevTail_eq : ∀ (xs : List Sx) (acc : List Char),
    toRevTail xs acc = (toCharsTail xs).reverse ++ acc
  | [], acc => by simp [toRevTail, toCharsTail]
  | x :: xs, acc => by simp [toRevTail, toCharsTail, toRev_eq x, toRevTail_eq xs]
end

/-- `toStrT` prints exactly the specified characters -/
theorem toList_toStrT (s : Sx) : (toStrT s).toList = toCharsT s := by
  simp [toStrT, toRev_eq]

theorem toStrT_eq (s : Sx) : toStrT s = String.ofList (toCharsT s) := by
  simp [toStrT, toRev_eq]

/-- the printed list body: the items separated by single spaces -/
theorem toCharsT_l (xs : List Sx) :
    toCharsT (.l xs) = '(' :: ([' '].intercalate (xs.map toCharsT) ++ [')']) := by
  have tail : ∀ (ys : List Sx) (y : Sx),
      [' '].intercalate ((y :: ys).map toCharsT) = toCharsT y ++ toCharsTail ys := by
    intro ys
    induction ys with
    | nil => intro y; simp [toCharsTail]
    | cons z zs ih => intro y; simp [toCharsTail, ← ih z]
  cases xs with
  | nil => simp [toCharsT]
  | cons x xs => rw [tail]; simp [toCharsT]

/-! ### 2. the tokenizer -/

/-- tokens a delimiter contributes -/
def delimTok (c : Char) : List Tok :=
  if c = '(' then [.lp] else if c = ')' then [.rp] else []

/-- non-accumulating SPECIFICATION of the state machine `tokGo` -/
def tokS : List Char → List Char → List Tok
  | [], w => flush w []
  | c :: cs, w =>
    if isDelim c then flush w [] ++ (delimTok c ++ tokS cs []) else tokS cs (c :: w)

theorem flush_eq (w : List Char) (acc : List Tok) : flush w acc = flush w [] ++ acc := by
  cases w <;> simp [flush]

theorem flush_reverse (w : List Char) : (flush w []).reverse = flush w [] := by
  cases w <;> simp [flush]

theorem tokGo_eq : ∀ (cs w : List Char) (acc : List Tok),
    tokGo cs w acc = acc.reverse ++ tokS cs w
  | [], w, acc => by
    rw [tokGo, tokS, flush_eq, List.reverse_append, flush_reverse]
  | c :: cs, w, acc => by
    rw [tokGo, tokS]
    by_cases h1 : c = '('
    · subst h1
      rw [if_pos rfl, tokGo_eq cs, flush_eq]
      simp [isDelim, delimTok, flush_reverse]
    · by_cases h2 : c = ')'
      · subst h2
        rw [if_neg (by decide), if_pos rfl, tokGo_eq cs, flush_eq]
        simp [isDelim, delimTok, flush_reverse]
      · by_cases h3 : (c = ' ' || c = '\t' || c = '\n' || c = '\r') = true
        · rw [if_neg h1, if_neg h2, if_pos h3, tokGo_eq cs, flush_eq]
          have hd : isDelim c = true := by
            simp only [isDelim, h1, h2, decide_false, Bool.false_or]; exact h3
          simp [hd, delimTok, h1, h2, flush_reverse]
        · rw [if_neg h1, if_neg h2, if_neg h3, tokGo_eq cs]
          have hd : isDelim c = false := by
            simp only [isDelim, h1, h2, decide_false, Bool.false_or]
            exact Bool.eq_false_iff.2 h3
          simp [hd]

theorem tokenizeT_eq (cs : List Char) : tokenizeT cs = tokS cs [] := by
  simp [tokenizeT, tokGo_eq]

/-- the rest of the line after a printed item: empty, or starting with a delimiter -/
def DelimStart : List Char → Prop
  | [] => True
  | c :: _ => isDelim c = true

theorem tokS_word (rest : List Char) : ∀ (u w : List Char), (∀ c ∈ u, isDelim c = false) →
    tokS (u ++ rest) w = tokS rest (u.reverse ++ w)
  | [], w, _ => by simp
  | c :: u, w, h => by
    have hc : isDelim c = false := h c (by simp)
    have := tokS_word rest u (c :: w) (fun d hd => h d (by simp [hd]))
    simp [tokS, hc, this]

theorem tokS_flush {rest : List Char} (hr : DelimStart rest) (c : Char) (w : List Char) :
    tokS rest (c :: w) = mkTok (c :: w) :: tokS rest [] := by
  cases rest with
  | nil => simp [tokS, flush]
  | cons d ds =>
    have hd : isDelim d = true := hr
    simp [tokS, hd, flush]

/-- a delimiter-free non-empty word followed by a delimiter (or the end) is ONE token -/
theorem tokS_atom {u rest : List Char} (hne : u ≠ []) (hu : ∀ c ∈ u, isDelim c = false)
    (hr : DelimStart rest) :
    tokS (u ++ rest) [] = mkTok u.reverse :: tokS rest [] := by
  rw [tokS_word rest u [] hu, List.append_nil]
  have : u.reverse ≠ [] := by simpa using hne
  cases hrev : u.reverse with
  | nil => exact absurd hrev this
  | cons c w =>
    rw [tokS_flush hr, ← hrev]

theorem digit_not_delim {c : Char} (h : c.isDigit = true ∨ c = '_') : isDelim c = false := by
  cases hd : isDelim c with
  | false => rfl
  | true =>
    exfalso
    simp only [isDelim, Bool.or_eq_true, decide_eq_true_eq] at hd
    rcases hd with ((((hd | hd) | hd) | hd) | hd) | hd <;> subst hd <;> revert h <;> decide

theorem tokS_nat (v : Nat) {rest : List Char} (hr : DelimStart rest) :
    tokS ((Nat.repr v).toList ++ rest) [] = Tok.nat v :: tokS rest [] := by
  have hn := (String.isNat_iff (s := Nat.repr v)).1 (Nat.isNat_repr v)
  have hne : (Nat.repr v).toList ≠ [] := by
    intro h; apply hn.1; rw [← String.toList_inj, h]; simp
  rw [tokS_atom hne (fun c hc => digit_not_delim (hn.2.1 c hc)) hr, mkTok, List.reverse_reverse,
    String.ofList_toList]
  simp only [Nat.toNat?_repr]

theorem tokS_sym {w : String} (hw : BareSym w) {rest : List Char} (hr : DelimStart rest) :
    tokS (w.toList ++ rest) [] = Tok.sym w :: tokS rest [] := by
  rw [tokS_atom hw.1 hw.2.1 hr, mkTok, List.reverse_reverse, String.ofList_toList]
  simp only [hw.2.2]

theorem tokS_lp (cs : List Char) : tokS ('(' :: cs) [] = Tok.lp :: tokS cs [] := by
  simp [tokS, isDelim, delimTok, flush]

theorem tokS_rp (cs : List Char) : tokS (')' :: cs) [] = Tok.rp :: tokS cs [] := by
  simp [tokS, isDelim, delimTok, flush]

theorem tokS_sp (cs : List Char) : tokS (' ' :: cs) [] = tokS cs [] := by
  simp [tokS, isDelim, delimTok, flush]

theorem delimStart_tail (xs : List Sx) {rest : List Char} (hr : DelimStart rest) :
    DelimStart (toCharsTail xs ++ rest) := by
  cases xs with
  | nil => simpa [toCharsTail] using hr
  | cons x xs => simp [toCharsTail, DelimStart, isDelim]

mutual
theorem tokS_toChars : ∀ (s : Sx), Bare s → ∀ (rest : List Char), DelimStart rest →
    tokS (toCharsT s ++ rest) [] = toks s ++ tokS rest []
  | .n v, _, rest, hr => by simpa [toCharsT, toks] using tokS_nat v hr
  | .s w, h, rest, hr => by
    have hw : BareSym w := by simpa [Bare] using h
    simp [toCharsT, toks, tokS_sym hw hr]
  | .l [], _, rest, _ => by simp [toCharsT, toks, toksL, tokS_lp, tokS_rp]
  | .l (x :: xs), h, rest, hr => by
    have hb : Bare x ∧ BareL xs := by simpa [Bare, BareL] using h
    have h1 : DelimStart (')' :: rest) := by simp [DelimStart, isDelim]
    have e1 := tokS_toChars x hb.1 (toCharsTail xs ++ ')' :: rest) (delimStart_tail xs h1)
    have e2 := tokS_toCharsTail xs hb.2 (')' :: rest) h1
    simp only [toCharsT, toks, toksL, List.cons_append, List.append_assoc, List.nil_append,
      tokS_lp, e1, e2, tokS_rp]
theorem tokS_toCharsTail : ∀ (xs : List Sx), BareL xs → ∀ (rest : List Char), DelimStart rest →
    tokS (toCharsTail xs ++ rest) [] = toksL xs ++ tokS rest []
  | [], _, rest, _ => by simp [toCharsTail, toksL]
  | x :: xs, h, rest, hr => by
    have hb : Bare x ∧ BareL xs := by simpa [BareL] using h
    have e1 := tokS_toChars x hb.1 (toCharsTail xs ++ rest) (delimStart_tail xs hr)
    have e2 := tokS_toCharsTail xs hb.2 rest hr
    simp only [toCharsTail, toksL, List.cons_append, List.append_assoc, tokS_sp, e1, e2]
end

/-- **2.** The tokens of the printed text of a bare `s`, followed by a rest that is empty or starts
    with a delimiter, are the tokens of `s` followed by the tokens of the rest. -/
theorem tokenizeT_toChars (s : Sx) (h : s.Bare) (rest : List Char) (hr : DelimStart rest) :
    tokenizeT (toCharsT s ++ rest) = toks s ++ tokenizeT rest := by
  simp only [tokenizeT_eq]; exact tokS_toChars s h rest hr

/-! ### 3. the parser -/

mutual
theorem parseGo_toks : ∀ (s : Sx) (rest : List Tok) (cur : List Sx) (st : List (List Sx)),
    parseGo (toks s ++ rest) cur st = parseGo rest (s :: cur) st
  | .n v, rest, cur, st => by simp [toks, parseGo]
  | .s w, rest, cur, st => by simp [toks, parseGo]
  | .l xs, rest, cur, st => by
    have e := parseGo_toksL xs (Tok.rp :: rest) [] (cur :: st)
    simp only [toks, List.cons_append, List.append_assoc, List.nil_append, parseGo, e,
      List.append_nil, List.reverse_reverse]
theorem parseGo_toksL : ∀ (xs : List Sx) (rest : List Tok) (cur : List Sx) (st : List (List Sx)),
    parseGo (toksL xs ++ rest) cur st = parseGo rest (xs.reverse ++ cur) st
  | [], rest, cur, st => by simp [toksL]
  | x :: xs, rest, cur, st => by
    simp [toksL, parseGo_toks x, parseGo_toksL xs]
end

/-- **3.** The stack machine reads the tokens of `s` as the one item `s` of the current frame. -/
theorem parseT_toks (s : Sx) (rest : List Tok) (cur : List Sx) (st : List (List Sx)) :
    parseGo (toks s ++ rest) cur st = parseGo rest (s :: cur) st := parseGo_toks s rest cur st

/-- list version of `parseT_toks` -/
theorem parseT_toks_list (xs : List Sx) (rest : List Tok) (cur : List Sx) (st : List (List Sx)) :
    parseGo (xs.flatMap toks ++ rest) cur st = parseGo rest (xs.reverse ++ cur) st := by
  rw [← toksL_eq]; exact parseGo_toksL xs rest cur st

theorem parseT_toks_all (xs : List Sx) : parseT (xs.flatMap toks) = some xs := by
  have := parseT_toks_list xs [] [] []
  simpa [parseT, parseGo] using this

/-! ### 4. headlines -/

/-- the characters of a line: the items separated by single spaces -/
theorem toList_lineT : ∀ (items : List Sx),
    (" ".intercalate (items.map toStrT)).toList =
      match items with
      | [] => []
      | x :: xs => toCharsT x ++ toCharsTail xs
  | [] => by simp
  | [x] => by simp [toList_toStrT, toCharsTail]
  | x :: y :: zs => by
    have ih := toList_lineT (y :: zs)
    simp only [String.toList_intercalate, List.map_cons] at ih ⊢
    rw [List.intercalate_cons_cons, ih]
    simp [toList_toStrT, toCharsTail]

theorem tokenizeT_line (items : List Sx) (h : ∀ s ∈ items, s.Bare) :
    tokenizeT (" ".intercalate (items.map toStrT)).toList = items.flatMap toks := by
  rw [toList_lineT, tokenizeT_eq]
  cases items with
  | nil => simp [tokS, flush]
  | cons x xs =>
    have hb : Bare x ∧ BareL xs := by
      rw [bareL_iff]; exact ⟨h x (by simp), fun s hs => h s (by simp [hs])⟩
    have e1 := tokS_toChars x hb.1 (toCharsTail xs ++ []) (delimStart_tail xs trivial)
    have e2 := tokS_toCharsTail xs hb.2 [] trivial
    simp only [List.append_nil] at e1 e2
    simp [e1, e2, toksL_eq, tokS, flush]

/-- **4 (line version, what the driver needs).** A line made of bare items separated by single
    spaces is parsed back to exactly these items. -/
theorem parseLineT_line (items : List Sx) (h : ∀ s ∈ items, s.Bare) :
    parseLineT (" ".intercalate (items.map toStrT)) = some items := by
  rw [parseLineT, tokenizeT_line items h, parseT_toks_all]

/-- **4 (HEADLINE).** Parsing the printed text of a bare s-expression returns it. -/
theorem parseLineT_toStrT (s : Sx) (h : s.Bare) : parseLineT (toStrT s) = some [s] := by
  have := parseLineT_line [s] (by simpa using h)
  simpa using this

/-- **5.** The printer is injective on bare s-expressions. -/
theorem toStrT_injective_on_bare (s t : Sx) (hs : s.Bare) (ht : t.Bare)
    (h : toStrT s = toStrT t) : s = t := by
  have e1 := parseLineT_toStrT s hs
  rw [h, parseLineT_toStrT t ht] at e1
  simpa using e1.symm

end WireText
end OH

/-! ### kernel-evaluable sufficient check of bareness (for examples)

`String.toNat?` does not reduce in the kernel, so `decide` cannot establish `BareSym w` directly;
a word that contains a character which is neither a digit nor `_` is not a numeral. -/

namespace OH
namespace WireText
open OH.Sx

/-- sufficient for `BareSym`: non-empty, delimiter-free, has a char that is neither digit nor `_` -/
def bareChars (cs : List Char) : Bool :=
  !cs.isEmpty && cs.all (fun c => !isDelim c) && cs.any (fun c => !c.isDigit && c != '_')

theorem bareSym_of_bareChars {w : String} (h : bareChars w.toList = true) : BareSym w := by
  simp only [bareChars, Bool.and_eq_true, Bool.not_eq_true', List.isEmpty_eq_false_iff,
    List.all_eq_true, List.any_eq_true, bne_iff_ne, ne_eq] at h
  obtain ⟨⟨h1, h2⟩, c, hc, hd, hu⟩ := h
  refine ⟨h1, h2, ?_⟩
  rw [String.toNat?_eq_none_iff]
  cases hn : w.isNat with
  | false => rfl
  | true =>
    have := ((String.isNat_iff (s := w)).1 hn).2.1 c hc
    rcases this with h | h
    · rw [h] at hd; cases hd
    · exact absurd h hu

mutual
def bareK : Sx → Bool
  | .n _ => true
  | .s w => bareChars w.toList
  | .l xs => bareKL xs
def bareKL : List Sx → Bool
  | [] => true
  | x :: xs => bareK x && bareKL xs
end

mutual
theorem bareK_sound : ∀ (s : Sx), bareK s = true → Bare s
  | .n _, _ => by simp [Bare]
  | .s w, h => by simpa [Bare] using bareSym_of_bareChars (by simpa [bareK] using h)
  | .l xs, h => by simpa [Bare] using bareKL_sound xs (by simpa [bareK] using h)
theorem bareKL_sound : ∀ (xs : List Sx), bareKL xs = true → BareL xs
  | [], _ => by simp [BareL]
  | x :: xs, h => by
    have h' : bareK x = true ∧ bareKL xs = true := by simpa [bareKL] using h
    exact ⟨bareK_sound x h'.1, bareKL_sound xs h'.2⟩
end

theorem bareKL_sound' (xs : List Sx) (h : bareKL xs = true) : ∀ s ∈ xs, Bare s :=
  (bareL_iff xs).1 (bareKL_sound xs h)

/-! ### 6. examples -/

/-- a case line `<id> <op> (<args>) <impl>` -/
def exItems : List Sx :=
  [.n 7, .s "oh.compose", .l [.l [.n 1, .n 2], .l [.n 3], .l []], .l [.s "ok", .l [.n 4, .n 5]]]

/-- the hypotheses of the headlines hold of a non-trivial input -/
example : ∀ s ∈ exItems, s.Bare := bareKL_sound' _ (by decide)

example : parseLineT (" ".intercalate (exItems.map toStrT)) = some exItems :=
  parseLineT_line _ (bareKL_sound' _ (by decide))

/-- the text of the example line, character by character (kernel evaluation) -/
example : (" ".intercalate (exItems.map toStrT)).toList
    = "7 oh.compose ((1 2) (3) ()) (ok (4 5))".toList := by
  rw [toList_lineT]; decide

/-- hence the LITERAL line is parsed to the expected items -/
example : parseLineT "7 oh.compose ((1 2) (3) ()) (ok (4 5))" = some exItems := by
  have h : " ".intercalate (exItems.map toStrT) = "7 oh.compose ((1 2) (3) ()) (ok (4 5))" := by
    rw [← String.toList_inj, toList_lineT]; decide
  rw [← h]; exact parseLineT_line _ (bareKL_sound' _ (by decide))

/-- the stack machine by kernel evaluation: nested and empty lists -/
example : parseT [.lp, .lp, .rp, .sym "a", .lp, .nat 1, .rp, .rp, .nat 2]
    = some [.l [.l [], .s "a", .l [.n 1]], .n 2] := by rfl
/-- unbalanced input is rejected -/
example : parseT [.lp, .nat 1] = none := by rfl
example : parseT [.nat 1, .rp] = none := by rfl
example : parseT [.rp, .lp] = none := by rfl

end WireText
end OH

/-! ### 7. TESTS (not proofs): the total functions against the old `partial` ones

`#guard` evaluates with the compiler/interpreter, so the opaque `Sx.parseLine` / `Sx.toStr` can be
run and compared (structurally, with `Sx.beqL`) with `parseLineT` / `toStrT`. -/

namespace OH
namespace WireText
namespace Test
open OH.Sx

def optEq : Option (List Sx) → Option (List Sx) → Bool
  | some a, some b => Sx.beqL a b
  | none, none => true
  | _, _ => false

/-- TEST: both parsers give the same answer on `line` -/
def parsersAgree (line : String) : Bool := optEq (parseLineT line) (parseLine line)

/-- TEST: both printers give the same text on every item of `line`, and on the whole line -/
def printersAgree (line : String) : Bool :=
  match parseLine line with
  | some xs => xs.all (fun s => toStrT s == Sx.toStr s) && toStrT (.l xs) == Sx.toStr (.l xs)
  | none => true

/-- TEST: printing the parsed items and parsing again is the identity -/
def roundTrip (line : String) : Bool :=
  match parseLineT line with
  | some xs => optEq (parseLineT (lineT xs)) (some xs)
  | none => true

def accepted (line : String) : Bool := (parseLineT line).isSome && (parseLine line).isSome
def rejected (line : String) : Bool := (parseLineT line).isNone && (parseLine line).isNone

def lines : List String := [
  "7 oh.compose ((1 2) (3)) (ok (4 5))",
  "",
  "   ",
  "() (()) ((()) ()) (()())",
  "1   2\t3 \t (4\t5)\r\n",
  "123456789012345678901234567890 0 00 007 18446744073709551616",
  "a.b_c:d=e-f oh.tensor ok none panic true nil x=1 -5 +5 a->b",
  "12ab ab12 1_000 _1 1_ 1__0",
  "(a(b)c)d(e)",
  "x(1)(2)y",
  "é λ→ (∀ 1)",
  "(1 2",
  "1 2)",
  ")(",
  "((1)",
  "(()"]

#guard lines.all parsersAgree
#guard lines.all printersAgree
#guard lines.all roundTrip
#guard (lines.take 11).all accepted
#guard (lines.drop 11).all rejected

-- individual expectations
#guard optEq (parseLineT "7 oh.compose ((1 2) (3)) (ok (4 5))")
  (some [.n 7, .s "oh.compose", .l [.l [.n 1, .n 2], .l [.n 3]], .l [.s "ok", .l [.n 4, .n 5]]])
#guard optEq (parseLineT "1   2\t3 \t (4\t5)\r\n") (some [.n 1, .n 2, .n 3, .l [.n 4, .n 5]])
#guard optEq (parseLineT "() (()) (()())") (some [.l [], .l [.l []], .l [.l [], .l []]])
-- a numeric-looking symbol stays a symbol; `String.toNat?` accepts `_` separators and leading zeros,
-- so these are NUMBERS for both parsers (and are not reprinted verbatim)
#guard optEq (parseLineT "12ab 1_000 007 1__0 _1") (some [.s "12ab", .n 1000, .n 7, .s "1__0", .s "_1"])
#guard optEq (parseLine "12ab 1_000 007 1__0 _1") (some [.s "12ab", .n 1000, .n 7, .s "1__0", .s "_1"])
#guard toStrT (.l [.n 0, .s "a.b", .l [], .l [.l [.n 12]]]) == "(0 a.b () ((12)))"
#guard Sx.toStr (.l [.n 0, .s "a.b", .l [], .l [.l [.n 12]]]) == "(0 a.b () ((12)))"
-- the decision function of bareness
#guard bareb (.l [.s "oh.compose", .n 3, .l [.s "ok"]])
#guard !bareb (.s "12") && !bareb (.s "1_0") && !bareb (.s "") && !bareb (.s "a b") && !bareb (.s "a(")

end Test
end WireText
end OH
