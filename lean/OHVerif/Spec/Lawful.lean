/-
  The documented array contract for the four primitives whose answer is not determined:
  `Backend.Lawful`.  Every characterisation theorem about the strict algorithms is stated
  for an arbitrary lawful backend.
-/
import Mathlib.Logic.Relation
import OHVerif.Model.Prim

namespace OH

open Relation

/-- the edge relation of an edge list `(s[k], t[k])` -/
def EdgeRel (s t : List Nat) (a b : Nat) : Prop := (a, b) ∈ s.zip t

/-- connectivity of `i` and `j` in the undirected graph with edges `s[k] — t[k]` -/
def Connected (s t : List Nat) : Nat → Nat → Prop := EqvGen (EdgeRel s t)

structure Backend.Lawful (B : Backend) : Prop where
  /-- argsort returns a permutation of `0..len` … -/
  argsort_perm : ∀ xs : List Nat, (B.argsort xs).Perm (List.range xs.length)
  /-- … that sorts -/
  argsort_sorted : ∀ xs : List Nat,
    ((B.argsort xs).map (fun i => xs.getD i 0)).Pairwise (· ≤ ·)
  /-- component labels: one per node -/
  cc_length : ∀ s t n, s.length = t.length → (∀ i ∈ s, i < n) → (∀ i ∈ t, i < n) →
    (B.cc s t n).1.length = n
  /-- … forming a dense numbering `0..k` -/
  cc_lt : ∀ s t n, s.length = t.length → (∀ i ∈ s, i < n) → (∀ i ∈ t, i < n) →
    ∀ l ∈ (B.cc s t n).1, l < (B.cc s t n).2
  cc_onto : ∀ s t n, s.length = t.length → (∀ i ∈ s, i < n) → (∀ i ∈ t, i < n) →
    ∀ c, c < (B.cc s t n).2 → c ∈ (B.cc s t n).1
  /-- … that puts two nodes together iff they are connected -/
  cc_kernel : ∀ s t n, s.length = t.length → (∀ i ∈ s, i < n) → (∀ i ∈ t, i < n) →
    ∀ i j, i < n → j < n →
      ((B.cc s t n).1[i]? = (B.cc s t n).1[j]? ↔ Connected s t i j)
  /-- sparse bincount lists each occurring value once … -/
  sb_nodup : ∀ xs : List Nat, (B.sparseBincount xs).1.Nodup
  sb_mem : ∀ (xs : List Nat) v, v ∈ (B.sparseBincount xs).1 ↔ v ∈ xs
  /-- … with its count -/
  sb_length : ∀ xs : List Nat, (B.sparseBincount xs).2.length = (B.sparseBincount xs).1.length
  sb_count : ∀ (xs : List Nat) (k v : Nat), (B.sparseBincount xs).1[k]? = some v →
    (B.sparseBincount xs).2[k]? = some (xs.count v)
  /-- the scatter filler is an element of the source -/
  filler_lt : ∀ n, 0 < n → B.fillerIdx n < n

end OH
