#!/usr/bin/env python3
"""Regenerates MANIFEST.json from checkconf.PROPS (claimed properties) and properties.jsonl."""
import json, os, subprocess
ROOT = os.path.dirname(os.path.abspath(__file__))
import sys
sys.path.insert(0, ROOT)
from checkconf import PROPS, LEVEL_TEXT, LEVEL_NOTE, NOT_APPLICABLE, MISSING

props = [json.loads(l) for l in open(os.path.join(ROOT, "properties.jsonl"))]
try:
    commits = subprocess.run(["git", "-C", "/repo", "log", "--format=%H %s"], capture_output=True, text=True).stdout.split("\n")
    hook_commits = [c.split(" ")[0] for c in commits if " verif-hooks:" in c]
except Exception:
    hook_commits = []

checks = []
na = []
for p in props:
    pid = p["id"]
    if pid in PROPS:
        checks.append(dict(
            property_id=pid,
            quick_cmd=f"./check {pid} --tier quick",
            thorough_cmd=f"./check {pid} --tier thorough",
            evidence_file=f"/verif/evidence/{pid}.json",
            replay_cmd_template=f"./check {pid} --replay {{path}}",
            engine="lean4-proof+correspondence",
            level_claimed=dict(category="proof", text=LEVEL_TEXT.get(pid, LEVEL_TEXT["default"]), design_ref=f"DESIGN.md §5 {pid}"),
            level_note=LEVEL_NOTE.get(pid, LEVEL_NOTE["default"]) + (" Not a theorem for this property: " + " | ".join(MISSING[pid]) if pid in MISSING else " Every clause of this property is a theorem about the model (DESIGN.md §12)."),
            technique="machine-checked proof in Lean 4 about a hand-written model + differential correspondence check against the Rust on every run",
        ))
    else:
        na.append(dict(property_id=pid, reason=NOT_APPLICABLE.get(pid, "not yet claimed: model and correspondence for this property are still being built (see DESIGN.md §10)")))

m = dict(
    version=1,
    setup_cmd="cd /verif/lean && lake build ohdriver OHVerif && cd /verif/harness && CARGO_NET_OFFLINE=true cargo build --offline && CARGO_NET_OFFLINE=true cargo build --offline --release",
    hooks=dict(
        guard="cargo feature verif-hooks",
        enable="the harness crate depends on /repo by path with features = [\"verif-hooks\", \"serde\"] (harness/Cargo.toml); cargo rebuilds /repo's working tree on every check",
        baseline_off_cmd="cd /repo && cargo test --workspace --no-fail-fast --offline",
        source_commits=hook_commits,
        add_only=True,
    ),
    engines=[dict(name="lean4-proof+correspondence", path="/verif/check",
                  serves_properties=[c["property_id"] for c in checks],
                  kind_free_text="Lean 4 theorems about an executable model (lean/OHVerif), kernel-checked and axiom-audited on every run; the model is tied to /repo by a differential correspondence check (Rust harness in harness/, line protocol, Lean driver executable)")],
    checks=checks,
    notes="See DESIGN.md. known_findings.txt lists repaired defects (fixed:) and any recorded findings (known:).",
    not_applicable=na,
)
json.dump(m, open(os.path.join(ROOT, "MANIFEST.json"), "w"), indent=1)
# the library root imports every finished theorem module, so that setup_cmd pre-builds all proofs
from checkconf import READY
root = ["import OHVerif.Model.Dispatch", "import OHVerif.Spec.Lawful", "import OHVerif.Spec.Diagram"]
root += ["import " + m for m in sorted(READY) if os.path.exists(os.path.join(ROOT, "lean", m.replace(".", "/") + ".lean"))]
open(os.path.join(ROOT, "lean", "OHVerif.lean"), "w").write("\n".join(root) + "\n")
print("claimed", [c["property_id"] for c in checks])
