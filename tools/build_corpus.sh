#!/bin/bash
# build_corpus.sh : for every confirmed seed, apply it, run its property's check, and keep the
# minimised failing input as a corpus line — provided it PASSES on the clean tree (so it fails
# only if that bug, or one like it, returns).
cd /verif
CAND=/verif/work/corpus_candidates.tsv; mkdir -p work; : > $CAND
# optional arguments: the seed directories to (re)process (default: all)
for d in ${@:-seeded/C*-*}; do
  s=$(basename $d); pid=${s%-*}
  cd /repo; git status --short | grep -q . && { echo "/repo not clean"; exit 3; }
  git apply /verif/$d/patch.diff || continue
  cd /verif
  ./check $pid > /tmp/corp.out 2>&1
  rp=$(grep -E "^VIOLATION" /tmp/corp.out | head -1 | sed -E 's/.*replay=(\S+).*/\1/')
  cd /repo; git checkout -q -- .; cd /verif
  if [ -n "$rp" ] && [ -f "$rp" ]; then
    line=$(grep -v "^#" $rp | head -1)
    [ -n "$line" ] && printf "%s\t%s\t%s\n" "$pid" "$s" "$line" >> $CAND
  else
    echo "$s: no violation found"
  fi
done
# clean tree again: rebuild the harness against it and keep only the lines that pass now
cd /verif/harness && CARGO_NET_OFFLINE=true cargo build --offline 2>&1 | tail -1
cd /verif && python3 - <<'PY'
import subprocess, os
rows=[l.rstrip("\n").split("\t") for l in open("/verif/work/corpus_candidates.tsv") if l.strip()]
os.makedirs("/verif/corpus", exist_ok=True)
for pid,seed,line in rows:
    a=line.find(" "); b=line.find(" ",a+1); rest=line[b+1:]; depth=0; args=rest
    for i,ch in enumerate(rest):
        if ch=="(": depth+=1
        elif ch==")":
            depth-=1
            if depth==0:
                args=rest[:i+1]; break
    entry=f"0 {line[a+1:b]} {args}"
    open("/tmp/corp_one.ops","w").write(entry+"\n")
    r=subprocess.run("/verif/harness/target/debug/ohharness --replay-file /tmp/corp_one.ops | /verif/lean/.lake/build/bin/ohdriver",shell=True,capture_output=True,text=True).stdout
    path=f"/verif/corpus/{pid}.ops"
    cur=open(path).read() if os.path.exists(path) else ""
    if " ok " not in r:
        print(seed,"REJECTED (fails on the clean tree):",entry[:100],"|",r[:120])
    elif entry in cur:
        print(seed,"(already in corpus)")
    else:
        open(path,"a").write(f"# from seeded/{seed}\n{entry}\n"); print(seed,entry[:140])
PY
