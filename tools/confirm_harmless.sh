#!/bin/bash
# confirm_harmless.sh <file.diff>...: in a scratch worktree check that the rewrite applies, builds and passes
# the unedited suite and that its demo (the property's clauses on non-trivial inputs) passes WITH it.
export CARGO_NET_OFFLINE=true
WT=/tmp/harm-confirm
git -C /repo worktree remove --force $WT 2>/dev/null
git -C /repo worktree add -q --detach $WT HEAD
for f in "$@"; do
  cd $WT && git checkout -q -- . && rm -f tests/harm_demo.rs
  if ! git apply /verif/$f 2>/dev/null; then echo "$f: does not apply"; continue; fi
  suite=$(cargo test --offline 2>&1 | grep -E "^test result" | grep -c "FAILED")
  demo=${f%.diff}.demo.rs
  dres="-"
  if [ -f /verif/$demo ]; then cp /verif/$demo tests/harm_demo.rs; dres=$(cargo test --offline --test harm_demo 2>&1 | grep -E "^test result" | head -1 | cut -c1-40); fi
  echo "$f: suite_failed_targets=$suite demo=[$dres]"
done
cd /verif; git -C /repo worktree remove --force $WT
