#!/bin/bash
# confirm_round.sh <PID> [extra ids] : confirm every patchN.diff a seed sub-agent left in /tmp/seed-<PID>-out,
# store it under the next free seeded/<PID>-<k>/, run the property's check against it (with the corpus)
# and twice without the corpus at two PRNG seeds (seeded/ROBUST.tsv).
PID=$1; shift
cd /verif
for N in 1 2 3; do
  [ -f /tmp/seed-$PID-out/patch$N.diff ] || continue
  k=1; while [ -d seeded/$PID-$k ]; do k=$((k+1)); done
  echo "== $PID patch$N -> seeded/$PID-$k"
  DESTN=$k tools/confirm_seed.sh $PID $N "$@" 2>&1 | sed -e 's/test result: //g' | cut -c1-400 | tail -4
  ROBUST_N=2 tools/seed_robust.sh $PID-$k 2>&1 | tail -1
done
git -C /repo status --short
