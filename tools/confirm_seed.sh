#!/bin/bash
# confirm_seed.sh <PID> <N> [extra property ids to check...]
# 1. in the scratch worktree /tmp/seed-<PID>: the patch applies, the crate compiles, the existing suite
#    passes with it, the demo fails with it and passes without it;
# 2. applied to /repo: run ./check for <PID> (and the extra ids), record the verdicts, undo.
set -u
PID=$1; N=$2; shift 2; EXTRA="$@"
WT=/tmp/seed-$PID; OUT=/tmp/seed-$PID-out
DST=/verif/seeded/$PID-${DESTN:-$N}
mkdir -p $DST
export CARGO_NET_OFFLINE=true
cd $WT && git checkout -q -- . && rm -f tests/seed_demo.rs
if ! git apply --check $OUT/patch$N.diff; then echo "patch does not apply"; exit 2; fi
git apply $OUT/patch$N.diff
SUITE=$(cargo test --offline 2>&1 | grep -E "^test result" | tr '\n' ';')
SUITE_OK=$(echo "$SUITE" | grep -c "FAILED")
cp $OUT/demo$N.rs tests/seed_demo.rs
DEMO_WITH=$(cargo test --offline ${DEMO_FLAGS:-} --test seed_demo 2>&1 | grep -E "^test result" | head -1)
git checkout -q -- src
DEMO_WITHOUT=$(cargo test --offline ${DEMO_FLAGS:-} --test seed_demo 2>&1 | grep -E "^test result" | head -1)
rm -f tests/seed_demo.rs; git checkout -q -- .
echo "suite with patch : $SUITE"
echo "demo with patch  : $DEMO_WITH"
echo "demo clean tree  : $DEMO_WITHOUT"
cp $OUT/patch$N.diff $DST/patch.diff; cp $OUT/demo$N.rs $DST/demo.rs; cp $OUT/notes$N.md $DST/notes.md 2>/dev/null
# 2. against the machinery
cd /repo && git status --short | grep -q . && { echo "/repo not clean"; exit 3; }
git apply $DST/patch.diff
cd /verif
VERDICTS=""
for p in $PID $EXTRA; do
  R=$(./check $p 2>&1 | grep -E "^VIOLATION|: ok " | head -2 | tr '\n' ' ')
  VERDICTS="$VERDICTS$p => $R; "
  if echo "$R" | grep -q VIOLATION; then cp "$(ls -t evidence/replay/$p-*.ops | head -1)" $DST/replay-$p.ops 2>/dev/null; fi
done
cd /repo && git checkout -q -- . 
echo "checks: $VERDICTS"
python3 - "$PID" "$N" "$SUITE" "$DEMO_WITH" "$DEMO_WITHOUT" "$VERDICTS" <<'PY'
import json,sys
pid,n,suite,dw,dwo,ver=sys.argv[1:7]
meta=dict(breaks_property=pid, variant=int(n),
  needs_to_manifest=open(f"/verif/seeded/{pid}-{__import__('os').environ.get('DESTN',n)}/notes.md").read()[:1500] if True else "",
  confirmed=dict(existing_suite_with_patch=suite, demo_with_patch=dw, demo_on_clean_tree=dwo),
  what_i_ran="tools/confirm_seed.sh: scratch worktree: git apply; cargo test --offline; demo as tests/seed_demo.rs with and without the patch; then git -C /repo apply; ./check <ids>; git -C /repo checkout -- .",
  check_verdicts=ver)
json.dump(meta,open(f"/verif/seeded/{pid}-{__import__('os').environ.get('DESTN',n)}/meta.json","w"),indent=1)
PY
