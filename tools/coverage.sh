#!/bin/bash
# Source-line coverage of /repo/src reached by the correspondence harness (supporting measurement, not a
# check): builds the harness with -C instrument-coverage on the nightly toolchain in a scratch target
# directory, runs every group (Vec backend and both adversarial backends) and writes
# /verif/coverage/REPORT.txt (per-file table + every line never executed).
set -eu
export CARGO_NET_OFFLINE=true
SCR=$(mktemp -d /tmp/ohcov.XXXXXX)
trap 'rm -rf "$SCR"' EXIT
T=$(dirname "$(rustup +nightly which rustc)")/../lib/rustlib/x86_64-unknown-linux-gnu/bin
cd /verif/harness
LLVM_PROFILE_FILE=$SCR/build-%p.profraw RUSTFLAGS="-C instrument-coverage" CARGO_TARGET_DIR=$SCR/target cargo +nightly build --offline >/dev/null 2>&1
B=$SCR/target/debug/ohharness
GROUPS_="prim ff ic hg oh law graph eval functor lax.edit lax.quot lax.cat lawlax dynfunctor optic var"
for g in $GROUPS_ adv1:oh adv2:oh adv1:law adv2:law adv1:graph adv2:graph adv1:eval adv2:eval adv1:functor adv2:functor adv1:hg adv2:hg adv1:ic adv2:ic adv1:ff adv2:ff adv1:prim adv2:prim; do
  for sz in 3 6 10; do
    LLVM_PROFILE_FILE=$SCR/prof/$g-$sz.profraw $B --group $g --seed ${VERIF_SEED:-7} --count 1500 --size $sz >/dev/null 2>&1 || true
  done
done
$T/llvm-profdata merge -sparse $SCR/prof/*.profraw -o $SCR/cov.profdata
{
  echo "# coverage of /repo/src by the correspondence harness ($(git -C /repo rev-parse --short HEAD), $(date -u +%F))"
  $T/llvm-cov report $B -instr-profile=$SCR/cov.profdata --ignore-filename-regex='(harness|registry|rustc)' 2>/dev/null | cut -c1-44,150-200
  echo
  echo "# lines never executed (file:line: text)"
  $T/llvm-cov show $B -instr-profile=$SCR/cov.profdata --ignore-filename-regex='(harness|registry|rustc)' 2>/dev/null \
    | awk '/^\/repo\/src\/.*:$/ {f=$0} /^ +[0-9]+\| +0\|/ {print f $0}' | sort -u
} > /verif/coverage/REPORT.txt
tail -n +1 /verif/coverage/REPORT.txt | tail -25
