#!/bin/bash
# every property's check must stay quiet on property-preserving rewrites
cd /verif
PROPS=$(python3 -c "import sys; sys.path.insert(0,'/verif'); from checkconf import PROPS; print(' '.join(sorted(PROPS)))")
OUT=seeded/harmless/MATRIX.tsv
[ -n "$1" ] && [ -f $OUT ] || echo -e "rewrite\t$(echo $PROPS | tr ' ' '\t')" > $OUT
for f in ${@:-seeded/harmless/H*.diff}; do
  cd /repo; git status --short | grep -q . && { echo "/repo not clean"; exit 3; }
  git apply /verif/$f || { echo "$f does not apply"; continue; }
  cd /verif; name=$(basename $f .diff); row=$name
  for p in $PROPS; do
    r=$(./check $p 2>&1 | grep -E "^VIOLATION|: ok " | head -1)
    if echo "$r" | grep -q "no-failing-input-found"; then v="V?"; elif echo "$r" | grep -q VIOLATION; then v="V"; cp "$(ls -t evidence/replay/$p-*.ops | head -1)" seeded/harmless/alarm-$name-$p.ops; elif echo "$r" | grep -q ": ok"; then v="."; else v="ERR"; fi
    row="$row\t$v"
  done
  cd /repo; git checkout -q -- .; cd /verif
  grep -v "^$name	" $OUT > $OUT.tmp; mv $OUT.tmp $OUT
  echo -e "$row" | tee -a $OUT
done
cd /verif/harness && CARGO_NET_OFFLINE=true cargo build --offline 2>&1 | tail -1
