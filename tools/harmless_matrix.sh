#!/bin/bash
# harmless_matrix.sh [diff files...]: every property's check must stay quiet on property-preserving
# rewrites. Applies each rewrite to /repo, runs EVERY property's quick check (five at a time), records
# the verdicts in seeded/harmless/MATRIX.tsv (and the replay of every alarm), undoes the rewrite.
cd /verif
PROPS=$(python3 -c "import sys; sys.path.insert(0,'/verif'); from checkconf import PROPS; print(' '.join(sorted(PROPS)))")
OUT=seeded/harmless/MATRIX.tsv
[ -n "$1" ] && [ -f $OUT ] || echo -e "rewrite\t$(echo $PROPS | tr ' ' '\t')" > $OUT
one() {
  p=$1; name=$2
  r=$(./check $p 2>&1 | grep -E "^VIOLATION|: ok " | head -1)
  if echo "$r" | grep -q "no-failing-input-found"; then v="V?"; elif echo "$r" | grep -q VIOLATION; then v="V"; cp "$(ls -t evidence/replay/$p-*.ops | head -1)" seeded/harmless/alarm-$name-$p.ops; elif echo "$r" | grep -q ": ok"; then v="."; else v="ERR"; fi
  echo "$p $v" > work/hmatrix-$p.res
}
export -f one
mkdir -p work
for f in ${@:-seeded/harmless/*.diff}; do
  cd /repo; git status --short | grep -q . && { echo "/repo not clean"; exit 3; }
  git apply /verif/$f || { echo "$f does not apply"; continue; }
  cd /verif; name=$(basename $f .diff)
  rm -f work/hmatrix-*.res
  one C01 $name                                 # builds the harness against the rewritten tree first
  echo $PROPS | tr ' ' '\n' | grep -v "^C01$" | xargs -P 5 -I{} bash -c "one {} $name"
  row="$name"
  for p in $PROPS; do row="$row\t$(cut -d' ' -f2 work/hmatrix-$p.res 2>/dev/null || echo ERR)"; done
  cd /repo; git checkout -q -- .; cd /verif
  grep -v "^$name	" $OUT > $OUT.tmp; mv $OUT.tmp $OUT
  echo -e "$row" | tee -a $OUT
done
cd /verif/harness && CARGO_NET_OFFLINE=true cargo build --offline 2>&1 | tail -1
