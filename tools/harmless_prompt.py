import json,sys
pid=sys.argv[1]
props={json.loads(l)['id']:json.loads(l) for l in open('/verif/properties.jsonl')}
p=props[pid]
print(f"""You are given a scratch git worktree of the Rust library hellas-ai/open-hypergraphs at /tmp/harm-{pid} (an ordinary checkout of the library; there is NO network: always use `cargo build --offline` / `cargo test --offline`; first build takes ~20 s). Work ONLY inside /tmp/harm-{pid} and /tmp/harm-{pid}-out. Do not read or use anything under /verif or /repo, and do not commit anything. Do NOT use `git stash` (the stash is shared with other worktrees); switch trees with `git diff -- src > /tmp/harm-{pid}-out/wip.diff; git checkout -- src; …; git apply /tmp/harm-{pid}-out/wip.diff`.

Goal: produce REALISTIC, BEHAVIOUR-VISIBLE but PROPERTY-PRESERVING rewrites of the library source (under src/) — the kind of refactoring, optimisation or re-implementation a maintainer could make — such that
 (a) the crate still compiles without new warnings,
 (b) the existing test suite still passes unedited: `cargo test --offline` (127 tests plus doctests) all green,
 (c) the semantic property below STILL HOLDS, exactly as stated, for every input it quantifies over, and
 (d) the change is nevertheless OBSERVABLE from the public API on some inputs: it makes a different but equally legitimate choice wherever the property (and the documented contracts) leave something open — e.g. a different but isomorphic numbering of nodes or components, a different order of entries whose order the property does not fix, a different tie-break, a different but equivalent intermediate representation (e.g. pending data recorded in another order), an algorithm replaced by an equivalent one that visits things in another order, an early exit or fast path that is actually correct, a different (still documented-as-unspecified) filler value, a different error/None precedence where several conditions fail at once and the property does not say which is reported.
Pure no-op refactorings (renaming, extracting a helper with identical results) are of little value: prefer changes of category (d). Each change must be defensible: in the notes, argue clause by clause why the property text still holds, and say precisely what observable behaviour differs and on which inputs.

The property (id {pid}): "{p['title']}"
Statement: {p['statement']}
It quantifies over: {p['quantifier']['text']}
Code it is anchored in: {', '.join(p['anchors']['files'])}

Deliver, in /tmp/harm-{pid}-out/ , up to THREE different rewrites (each produced starting again from the clean tree, at different code sites and of different kinds — prefer less obvious sites: helper functions shared by several operations, in-place and alias variants, error and None paths, iterator and trait-impl plumbing), numbered k = 1, 2, 3:
 - patch<k>.diff : `git diff -- src` of the change (relative to the clean worktree),
 - demo<k>.rs : a small self-contained integration test (placed at tests/harm_demo.rs, run with `cargo test --offline --test harm_demo`) using only the public API that (i) asserts the property's relevant clauses on a few non-trivial inputs — it must PASS on BOTH trees — and (ii) contains one test named `observable_difference` that prints (with `println!` and `--nocapture`) the value that differs between the two trees (do not assert on it),
 - notes<k>.md : what the change is, what observable behaviour differs, and the clause-by-clause argument that the property still holds.
Verify yourself that the full `cargo test --offline` passes with each change applied (demo file removed) and that the demo passes on both trees. Leave the worktree clean (`git checkout -- . ; rm -f tests/harm_demo.rs`) when done. Final reply: for each patch one paragraph: the change, what differs observably, why the property still holds, and the commands you ran with their results.""")
