#!/usr/bin/env python3
"""markdown table for DESIGN §13.2 from seeded/harmless/MATRIX.tsv and the notes files"""
import os, re
rows = []
hdr = None
for i, l in enumerate(open("/verif/seeded/harmless/MATRIX.tsv")):
    c = l.rstrip("\n").split("\t")
    if i == 0:
        hdr = c[1:]
        continue
    if len(c) < 2:
        continue
    rows.append((c[0], [p + ("?" if v == "V?" else "") for p, v in zip(hdr, c[1:]) if v.startswith("V")]))
def key(r):
    m = re.match(r"([A-Z])-?(C?\d*)-?(\d*)", r[0])
    return (r[0][0] != "H", r[0])
print("| rewrite | what changes observably (first line of the author's notes) | checks that report a violation |")
print("|---|---|---|")
for name, v in sorted(rows, key=key):
    first = ""
    p = f"/verif/seeded/harmless/{name}.notes.md"
    if os.path.exists(p):
        for l in open(p):
            l = l.strip().lstrip("#").strip()
            if l:
                first = l
                break
    print(f"| {name} | {first.replace('|','/')[:150]} | {', '.join(v) or 'none'} |")
