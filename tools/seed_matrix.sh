#!/bin/bash
# seed_matrix.sh [seed dirs...] : apply each seeded patch to /repo, run EVERY property's quick check
# (five at a time), record VIOLATION / ok per (seed, property) in seeded/MATRIX.tsv, undo the patch.
cd /verif
SEEDS=${@:-$(ls -d seeded/C*-* | xargs -n1 basename)}
PROPS=$(python3 -c "import sys; sys.path.insert(0,'/verif'); from checkconf import PROPS; print(' '.join(sorted(PROPS)))")
OUT=seeded/MATRIX.tsv
[ -f $OUT ] || echo -e "seed\t$(echo $PROPS | tr ' ' '\t')" > $OUT
one() {
  p=$1
  r=$(./check $p 2>&1 | grep -E "^VIOLATION|: ok " | head -1)
  if echo "$r" | grep -q "no-failing-input-found"; then v="V?"; elif echo "$r" | grep -q VIOLATION; then v="V"; elif echo "$r" | grep -q ": ok"; then v="."; else v="ERR"; fi
  echo "$p $v" > work/matrix-$p.res
}
export -f one
for s in $SEEDS; do
  cd /repo; git status --short | grep -q . && { echo "/repo not clean"; exit 3; }
  git apply /verif/seeded/$s/patch.diff || { echo "$s: patch does not apply"; continue; }
  cd /verif
  rm -f work/matrix-*.res
  own=${s%-*}
  one $own                                   # builds the harness against the patched tree first
  echo $PROPS | tr ' ' '\n' | grep -v "^$own$" | xargs -P 5 -I{} bash -c 'one {}'
  row="$s"
  for p in $PROPS; do row="$row\t$(cut -d' ' -f2 work/matrix-$p.res 2>/dev/null || echo ERR)"; done
  cd /repo; git checkout -q -- .
  cd /verif
  grep -v "^$s	" $OUT > $OUT.tmp; mv $OUT.tmp $OUT
  echo -e "$row" >> $OUT
  echo -e "$row"
done
