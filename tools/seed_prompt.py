import json,sys
pid=sys.argv[1]
props={json.loads(l)['id']:json.loads(l) for l in open('/verif/properties.jsonl')}
p=props[pid]
print(f"""You are given a scratch git worktree of the Rust library hellas-ai/open-hypergraphs at /tmp/seed-{pid} (an ordinary checkout of the library; there is NO network: always use `cargo build --offline` / `cargo test --offline`; first build takes ~20 s). Work ONLY inside /tmp/seed-{pid} and /tmp/seed-{pid}-out. Do not read or use anything under /verif or /repo, and do not commit anything.

Goal: produce a REALISTIC change to the library source (under src/) — the kind of bug a maintainer could plausibly introduce: an off-by-one, a wrong variable or swapped argument, a dropped or mis-ordered case, a premature optimisation, a wrong bound, a refactoring slip — that BREAKS the semantic property below while
 (a) the crate still compiles without new warnings being errors, and
 (b) the existing test suite still passes unedited: `cargo test --offline` (127 tests in the unit/integration targets plus the doctests) must be all green with your change applied.
The change should need something specific in order to manifest — an unusual input shape (empty / repeated / shared / isolated / zero-arity / high multiplicity …), a multi-step sequence of operations, or two cooperating code sites that each look fine alone — i.e. ordinary use and the existing tests do not expose it at once. Prefer changes that are SUBTLE: they give a plausible but wrong answer (not a panic) on inputs that need some size or structure (at least 3–4 nodes/edges, a particular order of operations, a history of several calls, repeated or shared elements), or they consist of two cooperating edits. Pick a code site that is NOT the first one that comes to mind: rarely used entry points, in-place or alias variants, helper functions shared by several operations, error/None paths, and the interplay of two features are all welcome. Do not make changes that merely panic on every call, and do not touch tests/, examples/, Cargo.toml features or anything outside src/ (except adding your demo test file).

The property (id {pid}): "{p['title']}"
Statement: {p['statement']}
It quantifies over: {p['quantifier']['text']}
Code it is anchored in: {', '.join(p['anchors']['files'])}

Deliver, in /tmp/seed-{pid}-out/ :
 - patch1.diff : `git diff -- src` of your change (relative to the clean worktree),
 - demo1.rs : a small self-contained integration test (it will be placed at tests/seed_demo.rs of the crate and run with `cargo test --offline --test seed_demo`) using only the crate's public API, which FAILS (assertion failure or panic) with your change applied and PASSES on the clean tree. Verify BOTH yourself (switch trees with `git diff -- src > /tmp/seed-{pid}-out/wip.diff; git checkout -- src; …; git apply /tmp/seed-{pid}-out/wip.diff` — do NOT use `git stash`: the stash is shared with other worktrees of the same repository), and verify that the full `cargo test --offline` passes with the change applied (with the demo file temporarily removed, since the demo is expected to fail).
 - notes1.md : what the change is, which clause of the property it breaks, and what it needs in order to manifest.
If you can, produce a SECOND, different change at a different code site breaking a different clause (patch2.diff, demo2.rs, notes2.md), produced the same way starting again from the clean tree.
Leave the worktree clean (`git checkout -- . ; rm -f tests/seed_demo.rs`) when you are done. Final reply: for each patch, one paragraph: the change, the clause broken, how it manifests, and the exact commands you ran with their results (test counts).""")
