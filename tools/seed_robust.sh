#!/bin/bash
# seed_robust.sh [seed dirs...] : detection must not depend on the random seed.  For every confirmed
# seeded change, apply it to /repo, run ITS OWN property's quick check with VERIF seeds 1..N (default 3),
# (the corpus of minimised past failures is switched off: this measures the generators alone)
# record which runs report the violation in seeded/ROBUST.tsv, undo the patch.
cd /verif
SEEDS=${@:-$(ls -d seeded/C*-* | xargs -n1 basename)}
N=${ROBUST_N:-3}
OUT=seeded/ROBUST.tsv
[ -f $OUT ] || echo -e "seed\thits/runs\tper-seed" > $OUT
for s in $SEEDS; do
  pid=${s%-*}
  cd /repo; git status --short | grep -q . && { echo "/repo not clean"; exit 3; }
  git apply /verif/seeded/$s/patch.diff || { echo "$s: patch does not apply"; continue; }
  cd /verif
  hits=0; per=""
  for k in $(seq 1 $N); do
    r=$(VERIF_NO_CORPUS=1 ./check $pid --seed $k 2>&1 | grep -E "^VIOLATION|: ok " | head -1)
    if echo "$r" | grep -q "no-failing-input-found"; then v="V?"; elif echo "$r" | grep -q VIOLATION; then v="V"; hits=$((hits+1)); elif echo "$r" | grep -q ": ok"; then v="."; else v="ERR"; fi
    per="$per$v "
  done
  cd /repo; git checkout -q -- .
  cd /verif
  grep -v "^$s	" $OUT > $OUT.tmp; mv $OUT.tmp $OUT
  echo -e "$s\t$hits/$N\t$per" | tee -a $OUT
done
