#!/usr/bin/env python3
"""Print the markdown table of DESIGN.md §13.1 from seeded/*/notes.md, seeded/*/meta.json and
seeded/MATRIX.tsv (own-property verdict from meta.json when the seed has no matrix row yet)."""
import glob, json, os, re
rows = {}
hdr = None
if os.path.exists("/verif/seeded/MATRIX.tsv"):
    for i, l in enumerate(open("/verif/seeded/MATRIX.tsv")):
        c = l.rstrip("\n").split("\t")
        if i == 0:
            hdr = c[1:]
        else:
            rows[c[0]] = [p + ("?" if v == "V?" else "") for p, v in zip(hdr, c[1:]) if v.startswith("V")]
def key(d):
    m = re.match(r"(C\d+)-(\d+)", os.path.basename(d))
    return (m.group(1), int(m.group(2)))
print("| seed | what was changed (first line of the author's notes) | checks that report a violation |")
print("|---|---|---|")
for d in sorted(glob.glob("/verif/seeded/C*-*"), key=key):
    s = os.path.basename(d)
    first = ""
    try:
        for l in open(d + "/notes.md"):
            l = l.strip().lstrip("#").strip()
            if l:
                first = l
                break
    except FileNotFoundError:
        pass
    first = first.replace("|", "/")[:140]
    if s in rows:
        v = ", ".join(rows[s]) or "none"
    else:
        meta = json.load(open(d + "/meta.json"))
        v = ", ".join(sorted(set(re.findall(r"(C\d+) => VIOLATION", meta.get("check_verdicts", ""))))) or "none"
        v += " (own check only)"
    print(f"| {s} | {first} | {v} |")
