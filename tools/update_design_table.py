#!/usr/bin/env python3
"""Replace the seed table of DESIGN.md §13.1 by the output of tools/seed_table.py."""
import subprocess, re
tab = subprocess.run(["python3", "/verif/tools/seed_table.py"], capture_output=True, text=True).stdout.rstrip("\n").split("\n")
L = open("/verif/DESIGN.md").read().split("\n")
a = next(i for i, l in enumerate(L) if l.startswith("| seed | what was changed"))
b = a
while b < len(L) and L[b].startswith("|"):
    b += 1
L[a:b] = tab
open("/verif/DESIGN.md", "w").write("\n".join(L))
print("rows", len(tab) - 2)
